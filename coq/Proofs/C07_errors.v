(** C07, "only documented parse errors": an invariant of the parse machine
    under which every operation either succeeds or raises ParseError;
    AttributeError, KeyError, TypeError, ValueError and fluidity's
    InvalidTransition are unreachable.  (Since repair 401bc73 a failing [int()]
    in see_value / see_positional_arg is turned into a ParseError: [checked].) *)
From InvokeVerif Require Import Model.ParserModel Proofs.C07_fuel.
From Coq Require Import Lia.

Section Errors.

Definition is_num (v : aval) : bool := match v with AInt _ | ABool _ => true | _ => false end.
Definition is_alist (v : aval) : bool := match v with AList _ => true | _ => false end.

Definition is_other (k : akind) : bool := match k with KOther _ _ _ => true | _ => false end.

(** arguments whose type may reject a text: int, and other callable types *)
Definition int_valued (a : argspec) : bool :=
  (akind_eqb (a_kind a) KInt || is_other (a_kind a)) && negb (a_incrementable a).

(** Static well-formedness of an argument: it has a name; a counter starts
    from a number (else F-C07e); an
    argument called "help" has a type that cannot reject a text (the --help
    special case assigns a task name to it outside the guarded
    [set_arg_value]). *)
Definition arg_wf (a : argspec) : bool :=
  match a_names a with [] => false | _ => true end
  && (negb (a_incrementable a) || is_num (a_default a))
  && negb (int_valued a && String.eqb (arg_name a) "help").

Definition rarg_ok (r : rarg) : bool :=
  arg_wf (r_spec r)
  && (if a_incrementable (r_spec r) then is_num (r_val r)
      else if akind_eqb (a_kind (r_spec r)) KList then is_alist (r_val r) && r_raw r else true).
(** (a list argument's raw_value is never None: it starts as [] -- so the
    "optional flag seen without value -> True" branch of complete_flag never
    applies to list arguments, value-optional or not) *)

Definition rctx_ok (c : rctx) : bool := forallb rarg_ok (rc_args c).
Definition named (c : rctx) : bool := match rc_name c with Some _ => true | None => false end.

(** without an initial context there is no current context until the first
    task name (and then [self.initial] stays None) *)
Definition invc (m : machine) : bool :=
  match m_cur m with
  | Some k => Nat.ltb k (List.length (m_ctxs m))
  | None => negb (m_init m)
  end
  && forallb rctx_ok (m_ctxs m)
  && forallb named (tl (m_ctxs m)).

Definition ctx_wf (c : ctxspec) : bool := forallb arg_wf (cx_args c).

Definition parser_wf (p : parser) : bool :=
  match p_initial p with Some ic => ctx_wf ic | None => true end
  && forallb ctx_wf (p_ctxs p).

Definition allowed (e : err) : Prop := e = EParse.

(** What stays fixed while the machine works inside one context. *)
Definition shape_of (c : rctx) : option string * list argspec :=
  (rc_name c, map r_spec (rc_args c)).
Definition shape (m : machine) : list (option string * list argspec) :=
  map shape_of (m_ctxs m).

Definition same_frame (m m' : machine) : Prop :=
  m_init m' = m_init m /\ m_cur m' = m_cur m /\ m_st m' = m_st m /\ shape m' = shape m.

Lemma same_frame_refl m : same_frame m m.
Proof. repeat split. Qed.

Lemma same_frame_trans a b c : same_frame a b -> same_frame b c -> same_frame a c.
Proof. intros (A1&A2&A3&A4) (B1&B2&B3&B4). repeat split; congruence. Qed.

Definition L (m : machine) (r : result machine) : Prop :=
  match r with
  | Ok m' => invc m' = true /\ same_frame m m'
  | Err e => allowed e
  end.

Lemma L_bind m r f :
  L m r -> (forall m1, invc m1 = true -> same_frame m m1 -> L m1 (f m1)) -> L m (bind r f).
Proof.
  destruct r as [m1|e]; simpl; [|auto].
  intros [I F] H. specialize (H m1 I F). destruct (f m1) as [m2|e2]; simpl in *; [|auto].
  destruct H as [I2 F2]. split; [assumption | eapply same_frame_trans; eauto].
Qed.

(** ** list facts *)

Lemma length_upd_nth {A} n (x : A) l : List.length (upd_nth n x l) = List.length l.
Proof. revert n; induction l as [|y l IH]; intros [|n]; simpl; auto. Qed.

Lemma forallb_upd_nth {A} (P : A -> bool) n x l :
  forallb P l = true -> P x = true -> forallb P (upd_nth n x l) = true.
Proof.
  revert n; induction l as [|y l IH]; intros [|n]; simpl; auto;
    rewrite !andb_true_iff; intros [H1 H2] Hx; auto.
Qed.

Lemma map_upd_nth_same {A B} (g : A -> B) n x y l :
  nth_error l n = Some y -> g x = g y -> map g (upd_nth n x l) = map g l.
Proof.
  revert n; induction l as [|z l IH]; intros [|n]; simpl; try discriminate.
  - intros [= ->] E. rewrite E. reflexivity.
  - intros H E. rewrite (IH n H E). reflexivity.
Qed.

Lemma nth_error_forallb {A} (P : A -> bool) l n x :
  forallb P l = true -> nth_error l n = Some x -> P x = true.
Proof.
  intros H N. apply nth_error_In in N. rewrite forallb_forall in H. auto.
Qed.

Lemma find_index_some {A} (p : A -> bool) l i :
  find_index p l = Some i -> exists x, nth_error l i = Some x /\ p x = true.
Proof.
  revert i; induction l as [|y l IH]; simpl; [discriminate|].
  intros i. destruct (p y) eqn:E.
  - intros [= <-]. exists y. auto.
  - destruct (find_index p l) as [j|]; simpl; [|discriminate].
    intros [= <-]. destruct (IH j eq_refl) as [x Hx]. exists x. exact Hx.
Qed.

Lemma find_index_none {A} (p : A -> bool) l :
  find_index p l = None -> existsb p l = false.
Proof.
  induction l as [|y l IH]; simpl; [reflexivity|].
  destruct (p y); [discriminate|]. destruct (find_index p l); simpl; [discriminate|]. auto.
Qed.

Lemma find_index_map {A B} (g : A -> B) (p : B -> bool) l :
  find_index (fun x => p (g x)) l = find_index p (map g l).
Proof. induction l as [|y l IH]; simpl; [reflexivity|]. rewrite IH. reflexivity. Qed.

Lemma find_flag_shape args tok : find_flag args tok = find_flag_spec (map r_spec args) tok.
Proof.
  unfold find_flag, find_flag_spec.
  apply (find_index_map r_spec (fun a => mem tok (arg_flags a))).
Qed.

Lemma find_map {A B} (g : A -> B) (p : B -> bool) l :
  option_map g (find (fun x => p (g x)) l) = find p (map g l).
Proof. induction l as [|y l IH]; simpl; [reflexivity|]. destruct (p (g y)); auto. Qed.

Lemma find_inverse_shape args args' tok :
  map r_spec args = map r_spec args' -> find_inverse args tok = find_inverse args' tok.
Proof.
  intros E. unfold find_inverse.
  pose proof (find_map r_spec (is_inverse_of tok) args) as F1.
  pose proof (find_map r_spec (is_inverse_of tok) args') as F2.
  rewrite E in F1. rewrite <- F2 in F1.
  destruct (find (fun r => is_inverse_of tok (r_spec r)) args),
           (find (fun r => is_inverse_of tok (r_spec r)) args'); simpl in F1;
    try discriminate; [injection F1 as ->|]; reflexivity.
Qed.

Lemma existsb_find_some {A} (p : A -> bool) l :
  existsb p l = true -> exists x, find p l = Some x /\ p x = true.
Proof.
  induction l as [|y l IH]; simpl; [discriminate|].
  destruct (p y) eqn:E; [eauto|]. simpl. auto.
Qed.

(** ** accessors under the invariant *)

Lemma invc_cur m : invc m = true -> m_cur m <> None ->
  exists k c, m_cur m = Some k /\ get_ctx m k = Some c /\ rctx_ok c = true.
Proof.
  unfold invc. rewrite !andb_true_iff. intros [[C O] _] Nn.
  destruct (m_cur m) as [k|]; [|congruence]. apply Nat.ltb_lt in C.
  unfold get_ctx. destruct (nth_error (m_ctxs m) k) as [c|] eqn:N.
  - exists k, c. repeat split; auto. eapply nth_error_forallb; eauto.
  - apply nth_error_None in N. lia.
Qed.

Lemma invc_init_cur m : invc m = true -> m_init m = true -> m_cur m <> None.
Proof.
  unfold invc. rewrite !andb_true_iff. intros [[C _] _] In E. rewrite E, In in C. discriminate.
Qed.

Lemma has_flag_cur m tok : ctx_has_flag (cur_ctx m) tok = true -> m_cur m <> None.
Proof. unfold cur_ctx. destruct (m_cur m); [discriminate | intros H; discriminate H]. Qed.

Lemma has_inverse_cur m tok : ctx_has_inverse (cur_ctx m) tok = true -> m_cur m <> None.
Proof. unfold cur_ctx. destruct (m_cur m); [discriminate | intros H; discriminate H]. Qed.

Lemma invc_get_arg m f r : invc m = true -> get_arg m f = Some r -> rarg_ok r = true.
Proof.
  unfold invc, get_arg, get_ctx. rewrite !andb_true_iff. intros [[_ O] _].
  destruct (nth_error (m_ctxs m) (fst f)) as [c|] eqn:N; [|discriminate].
  intros A. pose proof (nth_error_forallb _ _ _ _ O N) as Oc.
  eapply nth_error_forallb; eauto.
Qed.

Lemma shape_cur m m' k c :
  shape m' = shape m -> get_ctx m k = Some c ->
  exists c', get_ctx m' k = Some c' /\ rc_name c' = rc_name c /\
             map r_spec (rc_args c') = map r_spec (rc_args c).
Proof.
  unfold shape, get_ctx. intros S N.
  assert (E : nth_error (map shape_of (m_ctxs m')) k = Some (shape_of c)).
  { rewrite S. apply map_nth_error. exact N. }
  destruct (nth_error (m_ctxs m') k) as [c'|] eqn:N'.
  - rewrite (map_nth_error shape_of _ _ N') in E. injection E as E1 E2. eauto.
  - apply nth_error_None in N'.
    assert (nth_error (map shape_of (m_ctxs m')) k = None)
      by (apply nth_error_None; rewrite map_length; exact N').
    congruence.
Qed.

(** ** set_value *)

Definition vcond (r : rarg) (v : inval) (cast : bool) : bool :=
  match v with
  | IStr _ => true
  | IBool _ => (negb (akind_eqb (a_kind (r_spec r)) KList) || a_incrementable (r_spec r))
               && (negb (is_other (a_kind (r_spec r))) || a_incrementable (r_spec r) || negb cast)
  end.

Lemma mk_ok a x :
  arg_wf a = true -> a_incrementable a = false ->
  (akind_eqb (a_kind a) KList = false \/ is_alist x = true) ->
  rarg_ok (mkRArg a true x) = true.
Proof.
  intros W Inc H. unfold rarg_ok; simpl. rewrite W, Inc. simpl.
  destruct H as [H|H]; [rewrite H; reflexivity|]. rewrite H. destruct (akind_eqb _ _); reflexivity.
Qed.

Lemma set_value_ok r v cast :
  rarg_ok r = true -> vcond r v cast = true ->
  match set_value r v cast with
  | Ok r' => rarg_ok r' = true /\ r_spec r' = r_spec r
  | Err e => (e = EValue \/ e = EType) /\ int_valued (r_spec r) = true /\ (exists s, v = IStr s)
  end.
Proof.
  destruct r as [a raw val]. unfold set_value, new_value, vcond, arg_value. simpl.
  intros Hok Hc. pose proof Hok as Hok'. unfold rarg_ok in Hok'. simpl in Hok'.
  apply andb_true_iff in Hok'. destruct Hok' as [W Hv].
  destruct (a_incrementable a) eqn:Inc.
  - destruct val; try discriminate; simpl; (split; [|reflexivity]);
      unfold rarg_ok; simpl; rewrite W, Inc; reflexivity.
  - destruct (a_kind a) eqn:K.
    + destruct cast; [destruct v|]; simpl;
        (split; [apply mk_ok; auto; left; rewrite K; reflexivity | reflexivity]).
    + destruct cast; [destruct v as [s|b]; [destruct (parse_int s)|]|]; simpl;
        try (split; [apply mk_ok; auto; left; rewrite K; reflexivity | reflexivity]).
      split; [left; reflexivity|]. split; [|eauto]. unfold int_valued. simpl. rewrite K, Inc. reflexivity.
    + destruct cast; [destruct v|]; simpl;
        (split; [apply mk_ok; auto; left; rewrite K; reflexivity | reflexivity]).
    + simpl in Hv. apply andb_true_iff in Hv. destruct Hv as [Hv _].
      destruct val; try discriminate. simpl.
      destruct v as [s|b]; [|discriminate]. simpl.
      split; [apply mk_ok; auto | reflexivity].
    + destruct cast; [destruct v as [s|b]|]; simpl.
      * destruct (cast_other ko_default ko_table s); simpl;
          try (split; [apply mk_ok; auto; left; rewrite K; reflexivity | reflexivity]);
          (split; [auto|]; split; [|eauto]; unfold int_valued; simpl; rewrite K, Inc; reflexivity).
      * simpl in Hc. discriminate Hc.
      * split; [apply mk_ok; auto; left; rewrite K; reflexivity | reflexivity].
Qed.

(** ** put_arg / set_arg_value *)

Lemma put_arg_frame m f r r0 :
  invc m = true -> get_arg m f = Some r0 -> r_spec r = r_spec r0 -> rarg_ok r = true ->
  invc (put_arg m f r) = true /\ same_frame m (put_arg m f r).
Proof.
  intros I G Sp Ok'. unfold get_arg in G. unfold put_arg.
  destruct (get_ctx m (fst f)) as [c|] eqn:N; [|discriminate].
  unfold get_ctx in N.
  set (c' := mkRCtx (rc_name c) (rc_aliases c) (upd_nth (snd f) r (rc_args c))).
  assert (Sh : map shape_of (upd_nth (fst f) c' (m_ctxs m)) = map shape_of (m_ctxs m)).
  { eapply map_upd_nth_same; [exact N|]. unfold shape_of; simpl. f_equal.
    eapply map_upd_nth_same; [exact G | exact Sp]. }
  assert (Nm : map rc_name (upd_nth (fst f) c' (m_ctxs m)) = map rc_name (m_ctxs m)).
  { eapply map_upd_nth_same; [exact N | reflexivity]. }
  split.
  - revert I. unfold invc, set_ctxs; simpl. rewrite !andb_true_iff.
    intros [[I2 I3] I4]. repeat split; auto.
    + rewrite length_upd_nth. exact I2.
    + apply forallb_upd_nth; [exact I3|]. unfold rctx_ok, c'; simpl.
      apply forallb_upd_nth; [|exact Ok'].
      exact (nth_error_forallb _ _ _ _ I3 N).
    + assert (E : forall l, forallb named (tl l)
                            = forallb (fun o => match o with Some _ => true | None => false end)
                                      (tl (map rc_name l))).
      { intros l. destruct l as [|x l]; simpl; [reflexivity|].
        unfold named. induction l as [|y l IH]; simpl; [reflexivity|]. rewrite IH. reflexivity. }
      rewrite E, Nm, <- E. exact I4.
  - unfold same_frame, shape, set_ctxs; simpl. repeat split; auto.
Qed.

(** raw: the only possible errors are the ValueError / TypeError of the argument's type *)
Lemma set_arg_value_R m f v cast :
  invc m = true ->
  (forall r, get_arg m f = Some r -> vcond r v cast = true) ->
  match set_arg_value m f v cast with
  | Ok m' => invc m' = true /\ same_frame m m'
  | Err e => (e = EValue \/ e = EType) /\ exists r s, get_arg m f = Some r /\ int_valued (r_spec r) = true /\ v = IStr s
  end.
Proof.
  intros I Hc. unfold set_arg_value.
  destruct (get_arg m f) as [r|] eqn:G.
  - pose proof (invc_get_arg _ _ _ I G) as Okr.
    pose proof (set_value_ok r v cast Okr (Hc r eq_refl)) as S.
    destruct (set_value r v cast) as [r'|e]; simpl.
    + destruct S as [S1 S2]. eapply put_arg_frame; eauto.
    + destruct S as [E [Iv [s Es]]]. split; [exact E|]. eauto.
  - simpl. split; [exact I | apply same_frame_refl].
Qed.

(** unguarded assignment: needs a target that cannot fail to convert *)
Lemma set_arg_value_L m f v cast :
  invc m = true ->
  (forall r, get_arg m f = Some r -> vcond r v cast = true) ->
  (forall r s, get_arg m f = Some r -> v = IStr s -> int_valued (r_spec r) = false) ->
  L m (set_arg_value m f v cast).
Proof.
  intros I Hc Hn. pose proof (set_arg_value_R m f v cast I Hc) as R.
  destruct (set_arg_value m f v cast); simpl; [exact R|].
  destruct R as [_ [r [s [G [Iv Es]]]]]. rewrite (Hn r s G Es) in Iv. discriminate.
Qed.

(** the guarded assignment of see_value / see_positional_arg *)
Lemma set_arg_value_checked_L m f v cast :
  invc m = true ->
  (forall r, get_arg m f = Some r -> vcond r v cast = true) ->
  L m (checked (set_arg_value m f v cast)).
Proof.
  intros I Hc. pose proof (set_arg_value_R m f v cast I Hc) as R.
  destruct (set_arg_value m f v cast) as [m'|e]; simpl; [exact R|].
  destruct R as [[-> | ->] _]; reflexivity.
Qed.

(** ** the enter actions *)

Lemma complete_flag_L m : invc m = true -> L m (complete_flag m).
Proof.
  intros I. unfold complete_flag.
  destruct (m_flag m) as [f|] eqn:F; [|simpl; split; [exact I | apply same_frame_refl]].
  unfold flag_arg. rewrite F.
  destruct (get_arg m f) as [r|] eqn:G; [|simpl; split; [exact I | apply same_frame_refl]].
  destruct (takes_value (r_spec r) && negb (m_got m) && negb (a_optional (r_spec r)));
    [simpl; reflexivity|].
  destruct (negb (r_raw r) && a_optional (r_spec r)) eqn:O;
    [|simpl; split; [exact I | apply same_frame_refl]].
  apply set_arg_value_L; [exact I| |intros ? ? _ E; discriminate E].
  intros r' G'. rewrite G in G'. injection G' as <-.
  pose proof (invc_get_arg _ _ _ I G) as Okr. unfold rarg_ok in Okr.
  pose proof O as O'. 
  apply andb_true_iff in Okr. destruct Okr as [_ Hv].
  apply andb_true_iff in O'. destruct O' as [Nr _]. rewrite negb_true_iff in Nr.
  unfold vcond. rewrite orb_true_r, andb_true_r.
  destruct (a_incrementable (r_spec r)); [apply orb_true_r|].
  destruct (akind_eqb (a_kind (r_spec r)) KList); [|reflexivity].
  rewrite Nr, andb_false_r in Hv. discriminate Hv.
Qed.

Lemma res_update_frame m res' :
  invc m = true ->
  let m' := mkM (m_ctxs m) (m_init m) (m_cur m) res' (m_flag m) (m_got m) (m_st m) (m_unparsed m) in
  invc m' = true /\ same_frame m m'.
Proof. intros I. split; [exact I | repeat split]. Qed.

Lemma complete_context_L m : invc m = true -> L m (complete_context m).
Proof.
  intros I. unfold complete_context.
  destruct (m_cur m) as [k|] eqn:C; [|simpl; split; [exact I | apply same_frame_refl]].
  destruct (cur_ctx m) as [c|]; [|simpl; split; [exact I | apply same_frame_refl]].
  destruct (has_missing c); [simpl; reflexivity|].
  destruct (existsb (Nat.eqb k) (m_res m)); simpl;
    [split; [exact I | apply same_frame_refl] |].
  rewrite <- C. apply res_update_frame; exact I.
Qed.

Lemma enter_state_L m : invc m = true -> L m (enter_state m).
Proof.
  intros I. unfold enter_state. apply L_bind; [apply complete_flag_L; exact I|].
  intros m1 I1 _. apply complete_context_L; exact I1.
Qed.

(** Changing the state keeps the context invariant. *)
Lemma invc_set_state m s : invc (set_state m s) = invc m.
Proof. reflexivity. Qed.

(** ** results of whole events: invariant kept, state stays in {context, unknown} *)

Definition running (m : machine) : bool := negb (pstate_eqb (m_st m) SEnd).

Definition G (r : result machine) : Prop :=
  match r with
  | Ok m' => invc m' = true /\ running m' = true
  | Err e => allowed e
  end.

Lemma L_G m r : running m = true -> L m r -> G r.
Proof.
  intros R. destruct r as [m'|e]; simpl; [|auto].
  intros [I (_&_&S&_)]. split; [exact I|]. unfold running in *. rewrite S. exact R.
Qed.

Lemma see_unknown_G tok m : invc m = true -> running m = true -> G (see_unknown tok m).
Proof.
  intros I R. unfold see_unknown, transition.
  assert (F : in_context_or_unknown m = true).
  { unfold running in R. unfold in_context_or_unknown. destruct (m_st m); auto. }
  rewrite F. pose proof (enter_state_L (set_state m SUnknown) I) as E.
  destruct (enter_state (set_state m SUnknown)) as [m1|e]; simpl in *; [|exact E].
  destruct E as [I1 (_&_&S1&_)]. split; [exact I1|].
  unfold running; simpl. rewrite S1. reflexivity.
Qed.

Variable p : parser.
Hypothesis Pwf : parser_wf p = true.

Lemma init_arg_ok a : arg_wf a = true -> rarg_ok (init_arg a) = true.
Proof.
  intros W. unfold rarg_ok, init_arg, init_value; simpl. rewrite W. simpl.
  destruct (a_incrementable a) eqn:Inc.
  - unfold arg_wf in W. rewrite Inc in W. rewrite !andb_true_iff in W.
    destruct W as [[_ W] _]. exact W.
  - destruct (a_kind a); reflexivity.
Qed.

Lemma init_ctx_ok c : ctx_wf c = true -> rctx_ok (init_ctx c) = true.
Proof.
  unfold ctx_wf, rctx_ok, init_ctx; simpl. intros W.
  rewrite forallb_forall in *. intros r Hr. apply in_map_iff in Hr.
  destruct Hr as [a [<- Ha]]. apply init_arg_ok. auto.
Qed.

Lemma tl_app_nonempty {A} (l : list A) x : l <> [] -> tl (l ++ [x]) = tl l ++ [x].
Proof. destruct l; [congruence | reflexivity]. Qed.

Lemma see_context_G tok m :
  invc m = true -> m_st m = SContext -> is_ctx_name (p_ctxs p) tok = true ->
  G (see_context p tok m).
Proof.
  intros I S N. unfold see_context, transition. rewrite S. simpl.
  pose proof (enter_state_L (set_state m SContext) I) as E.
  destruct (enter_state (set_state m SContext)) as [m1|e]; simpl in *; [|exact E].
  destruct E as [I1 (F1&F2&F3&F4)]. unfold switch_to_context.
  unfold is_ctx_name in N. apply existsb_find_some in N. destruct N as [c [Fc Nc]].
  unfold find_ctx. rewrite Fc. simpl.
  assert (Wc : ctx_wf c = true).
  { unfold parser_wf in Pwf. apply andb_true_iff in Pwf. destruct Pwf as [_ W].
    rewrite forallb_forall in W. apply W. eapply find_some; eauto. }
  revert I1. unfold invc, running; simpl. rewrite !andb_true_iff.
  intros [[J2 J3] J4]. rewrite F3. simpl. repeat split; auto.
  - apply Nat.ltb_lt. rewrite app_length. simpl. lia.
  - rewrite forallb_app, J3. simpl. rewrite init_ctx_ok; auto.
  - destruct (m_ctxs m1) as [|c0 l0] eqn:El; [reflexivity|].
    rewrite tl_app_nonempty by discriminate. rewrite forallb_app, J4. simpl.
    unfold named, init_ctx; simpl. unfold ctx_named in Nc.
    destruct (cx_name c); [reflexivity | discriminate].
Qed.

Lemma check_ambiguity_L v m : invc m = true -> L m (check_ambiguity p v m).
Proof.
  intros I. unfold check_ambiguity.
  destruct (flag_arg m) as [r|]; [|simpl; split; [exact I | apply same_frame_refl]].
  destruct (negb (a_optional (r_spec r))); [simpl; split; [exact I | apply same_frame_refl]|].
  destruct (r_raw r); [simpl; split; [exact I | apply same_frame_refl]|].
  match goal with |- L _ (if ?b then _ else _) => destruct b end;
    simpl; [reflexivity | split; [exact I | apply same_frame_refl]].
Qed.

Lemma set_flag_frame m f g : invc m = true ->
  invc (set_flag m f g) = true /\ same_frame m (set_flag m f g).
Proof. intros I. split; [exact I | repeat split]. Qed.

(** [tok] is a flag of the current context or, failing that, of the initial one *)
Definition flag_known (m : machine) (tok : string) : bool :=
  ctx_has_flag (cur_ctx m) tok || ctx_has_flag (init_ctx_of m) tok.

Lemma has_flag_frame m m' tok :
  same_frame m m' -> invc m = true -> flag_known m tok = true -> flag_known m' tok = true.
Proof.
  intros (F1&F2&_&F4) I. unfold flag_known, cur_ctx, init_ctx_of. rewrite F1, F2.
  assert (H : forall k, ctx_has_flag (get_ctx m k) tok = true -> ctx_has_flag (get_ctx m' k) tok = true).
  { intros k. destruct (get_ctx m k) as [c|] eqn:N; simpl; [|discriminate].
    destruct (shape_cur m m' k c F4 N) as [c' [N' [_ Sp]]]. rewrite N'. simpl.
    rewrite !find_flag_shape, Sp. auto. }
  rewrite !orb_true_iff. intros [A|A].
  - left. destruct (m_cur m); [apply H; exact A | discriminate].
  - right. destruct (m_init m); [apply H; exact A | discriminate].
Qed.

Lemma inverse_frame m m' tok :
  same_frame m m' -> ctx_has_inverse (cur_ctx m) tok = true ->
  ctx_has_inverse (cur_ctx m') tok = true.
Proof.
  intros (_&F2&_&F4). unfold cur_ctx. rewrite F2. destruct (m_cur m) as [k|]; [|discriminate].
  destruct (get_ctx m k) as [c|] eqn:N; simpl; [|discriminate].
  destruct (shape_cur m m' k c F4 N) as [c' [N' [_ Sp]]]. rewrite N'. simpl.
  rewrite (find_inverse_shape _ _ tok Sp). auto.
Qed.

Lemma inverse_target_found args tok fl :
  forallb rarg_ok args = true -> find_inverse args tok = Some fl ->
  exists i, find_flag args fl = Some i.
Proof.
  intros O. unfold find_inverse.
  destruct (find (fun r => is_inverse_of tok (r_spec r)) args) as [r|] eqn:Fd; [|discriminate].
  intros [= <-]. apply find_some in Fd. destruct Fd as [In _].
  destruct (find_flag args (to_flag (main_name (r_spec r)))) as [i|] eqn:FF; [eauto|].
  exfalso. unfold find_flag in FF. apply find_index_none in FF.
  assert (existsb (fun r0 => mem (to_flag (main_name (r_spec r))) (arg_flags (r_spec r0))) args = true).
  { apply existsb_exists. exists r. split; [exact In|].
    rewrite forallb_forall in O. specialize (O r In). unfold rarg_ok, arg_wf in O.
    rewrite !andb_true_iff in O. destruct O as [[[Hn _] _] _].
    unfold main_name, arg_flags. destruct (a_names (r_spec r)) as [|n ns]; [discriminate|].
    simpl. rewrite String.eqb_refl. reflexivity. }
  congruence.
Qed.

Lemma switch_to_flag_L (tok : string) (inverse : bool) (m : machine) :
  invc m = true ->
  (if inverse then ctx_has_inverse (cur_ctx m) tok else flag_known m tok) = true ->
  L m (switch_to_flag p tok inverse m).
Proof.
  intros I K. unfold switch_to_flag.
  apply L_bind; [apply check_ambiguity_L; exact I|]. intros m1 I1 F1.
  apply L_bind; [apply complete_flag_L; exact I1|]. intros m2 I2 F2.
  pose proof (same_frame_trans _ _ _ F1 F2) as F12.
  assert (Cn : m_cur m2 <> None).
  { destruct F12 as (Fi & Fc & _). rewrite Fc. destruct inverse.
    - eapply has_inverse_cur; eauto.
    - unfold flag_known in K. apply orb_true_iff in K. destruct K as [K|K].
      + eapply has_flag_cur; eauto.
      + apply invc_init_cur; [exact I|]. unfold init_ctx_of in K.
        destruct (m_init m); [reflexivity | discriminate K]. }
  destruct (invc_cur m2 I2 Cn) as [k [c [C [N Oc]]]].
  unfold cur_ctx. rewrite C, N.
  assert (Hfound : forall fl,
             flag_known m2 fl = true ->
             L m2 (match
                   match find_flag (rc_args c) fl with
                   | Some i => Some (k, i)
                   | None => match init_ctx_of m2 with
                             | Some ic => match find_flag (rc_args ic) fl with
                                          | Some i => Some (0, i)
                                          | None => None
                                          end
                             | None => None
                             end
                   end
                 with
                 | None => if m_init m2 then Err EKey else Err EAttr
                 | Some f =>
                     let m := set_flag m2 (Some f) false in
                     match get_arg m f with
                     | Some r => if takes_value (r_spec r) then Ok m
                                 else set_arg_value m f (IBool (negb inverse)) true
                     | None => Ok m
                     end
                 end)).
  { intros fl Kn.
    assert (exists f, match find_flag (rc_args c) fl with
                      | Some i => Some (k, i)
                      | None => match init_ctx_of m2 with
                                | Some ic => match find_flag (rc_args ic) fl with
                                             | Some i => Some (0, i)
                                             | None => None
                                             end
                                | None => None
                                end
                      end = Some f) as [f Ef].
    { unfold flag_known, cur_ctx in Kn. rewrite C, N in Kn. simpl in Kn.
      destruct (find_flag (rc_args c) fl); [eauto|]. simpl in Kn.
      destruct (init_ctx_of m2) as [ic|]; simpl in Kn; [|discriminate].
      destruct (find_flag (rc_args ic) fl); [eauto | discriminate]. }
    rewrite Ef. cbv zeta.
    destruct (set_flag_frame m2 (Some f) false I2) as [I3 F3].
    destruct (get_arg (set_flag m2 (Some f) false) f) as [r|] eqn:Ga;
      [|simpl; split; assumption].
    destruct (takes_value (r_spec r)) eqn:Tv; [simpl; split; assumption|].
    assert (LL : L (set_flag m2 (Some f) false)
                   (set_arg_value (set_flag m2 (Some f) false) f (IBool (negb inverse)) true)).
    { apply set_arg_value_L; [exact I3| |intros ? ? _ E; discriminate E].
      intros r' G'. rewrite Ga in G'. injection G' as <-.
      unfold vcond. unfold takes_value in Tv.
      destruct (a_kind (r_spec r)); simpl; try reflexivity;
        destruct (a_incrementable (r_spec r)); try reflexivity; discriminate. }
    destruct (set_arg_value (set_flag m2 (Some f) false) f (IBool (negb inverse)) true) as [m4|e];
      [|exact LL].
    destruct LL as [I4 F4]. split; [exact I4 | exact (same_frame_trans _ _ _ F3 F4)]. }
  destruct inverse.
  - pose proof (inverse_frame _ _ tok F12 K) as K2.
    unfold cur_ctx in K2. rewrite C, N in K2. simpl in K2.
    destruct (find_inverse (rc_args c) tok) as [fl|] eqn:FI; [|discriminate].
    apply Hfound.
    destruct (inverse_target_found _ _ _ Oc FI) as [i Fi].
    unfold flag_known, cur_ctx. rewrite C, N. simpl. rewrite Fi. reflexivity.
  - apply Hfound. eapply has_flag_frame; eauto.
Qed.

Lemma see_value_L tok m : invc m = true -> L m (see_value p tok m).
Proof.
  intros I. unfold see_value.
  apply L_bind; [apply check_ambiguity_L; exact I|]. intros m1 I1 F1.
  destruct (m_flag m1) as [f|] eqn:Fl; [|simpl; reflexivity].
  destruct (flag_arg m1) as [r|]; [|simpl; reflexivity].
  destruct (takes_value (r_spec r)); [|simpl; reflexivity].
  apply L_bind; [apply set_arg_value_checked_L; [exact I1 | reflexivity]|].
  intros m2 I2 F2. simpl. apply set_flag_frame. exact I2.
Qed.

Lemma see_positional_L tok m : invc m = true -> m_cur m <> None -> L m (see_positional_arg tok m).
Proof.
  intros I Cn. unfold see_positional_arg.
  destruct (invc_cur m I Cn) as [k [c [C [N _]]]]. unfold cur_ctx. rewrite C, N.
  destruct (missing_positional (rc_args c)) as [|i l];
    [simpl; split; [exact I | apply same_frame_refl]|].
  apply set_arg_value_checked_L; [exact I | reflexivity].
Qed.

Lemma nth_error_tl {A} (l : list A) k x : nth_error l (S k) = Some x -> In x (tl l).
Proof. destruct l; simpl; [discriminate|]. apply nth_error_In. Qed.

Lemma handle_G tok m : invc m = true -> running m = true -> G (handle p tok m).
Proof.
  intros I R. unfold handle.
  destruct (pstate_eqb (m_st m) SUnknown) eqn:U; [apply see_unknown_G; assumption|].
  destruct (ctx_has_flag (cur_ctx m) tok) eqn:HF.
  { apply L_G with (m := m); [exact R|]. apply switch_to_flag_L; [exact I|].
    unfold flag_known. rewrite HF. reflexivity. }
  destruct (ctx_has_inverse (cur_ctx m) tok) eqn:HI.
  { apply L_G with (m := m); [exact R|]. apply switch_to_flag_L; [exact I | exact HI]. }
  destruct (waiting m).
  { apply L_G with (m := m); [exact R|]. apply see_value_L; exact I. }
  match goal with |- G (if ?b then _ else _) => destruct b eqn:HM end.
  { apply L_G with (m := m); [exact R|]. apply see_positional_L; [exact I|].
    unfold cur_ctx in HM. destruct (m_cur m); [discriminate | discriminate HM]. }
  destruct (is_ctx_name (p_ctxs p) tok) eqn:CN.
  { apply see_context_G; auto. unfold running in R. destruct (m_st m); simpl in *; congruence. }
  destruct (init_ctx_of m) as [ic|] eqn:IC.
  2:{ destruct (p_ignore p); [apply see_unknown_G; assumption | simpl; reflexivity]. }
  destruct (find_flag (rc_args ic) tok) as [i|] eqn:FF.
  2:{ destruct (p_ignore p); [apply see_unknown_G; assumption | simpl; reflexivity]. }
  unfold find_flag in FF. destruct (find_index_some _ _ _ FF) as [r [Nr _]]. rewrite Nr.
  destruct (String.eqb (arg_name (r_spec r)) "help") eqn:Hh.
  - assert (Cn : m_cur m <> None).
    { apply invc_init_cur; [exact I|]. unfold init_ctx_of in IC.
      destruct (m_init m); [reflexivity | discriminate IC]. }
    destruct (invc_cur m I Cn) as [k [c [C [N _]]]].
    assert (CC : cur_ctx m = Some c) by (unfold cur_ctx; rewrite C; exact N).
    rewrite CC.
    assert (Nm : exists n, rc_name c = Some n).
    { destruct k as [|k].
      - exfalso. unfold init_ctx_of in IC. destruct (m_init m); [|discriminate].
        rewrite N in IC. injection IC as ->. rewrite CC in HF. simpl in HF.
        unfold find_flag in HF. rewrite FF in HF. discriminate.
      - revert I. unfold invc. rewrite !andb_true_iff. intros [_ I4].
        unfold get_ctx in N. apply nth_error_tl in N. rewrite forallb_forall in I4.
        specialize (I4 c N). unfold named in I4. destruct (rc_name c); [eauto | discriminate]. }
    destruct Nm as [n ->].
    assert (GA : get_arg m (0, i) = Some r).
    { unfold get_arg. cbn [fst snd]. unfold init_ctx_of in IC. destruct (m_init m); [|discriminate].
      rewrite IC. exact Nr. }
    apply L_G with (m := m); [exact R|]. apply set_arg_value_L; [exact I | reflexivity|].
    intros r0 s0 G0 _. rewrite GA in G0. injection G0 as <-.
    pose proof (invc_get_arg _ _ _ I GA) as Okr. unfold rarg_ok, arg_wf in Okr.
    rewrite !andb_true_iff, negb_true_iff in Okr. destruct Okr as [[_ Hx] _].
    rewrite Hh, andb_true_r in Hx. exact Hx.
  - apply L_G with (m := m); [exact R|]. apply switch_to_flag_L; [exact I|].
    unfold flag_known. rewrite IC. simpl. unfold find_flag. rewrite FF. apply orb_true_r.
Qed.

Lemma step_G m t :
  invc m = true -> running m = true ->
  match step p m t with
  | Ok (m', _) => invc m' = true /\ running m' = true
  | Err e => allowed e
  end.
Proof.
  intros I R. unfold step, bind.
  assert (P : exists sp, presplit m t = Ok sp).
  { unfold presplit.
    destruct (is_flag t && match m_unparsed m with [] => true | _ => false end); [|eauto].
    destruct (contains_char "=" t).
    { destruct (partition_char "=" t) as [[h f] v]. eauto. }
    destruct (negb (is_long_flag t) && Nat.ltb 2 (String.length t)); [|eauto].
    match goal with |- exists sp, (if ?b then _ else _) = Ok sp => destruct b end; eauto. }
  destruct P as [sp ->].
  assert (Rb : exists sp', rollback m t sp = Ok sp').
  { unfold rollback. destruct (waiting m); [|eauto].
    match goal with |- exists sp', (if ?b then _ else _) = Ok sp' => destruct b end; eauto. }
  destruct Rb as [sp' ->].
  pose proof (handle_G (fst sp') m I R) as H.
  destruct (handle p (fst sp') m); simpl in *; exact H.
Qed.

Lemma loop_G : forall fuel m body r,
  invc m = true -> running m = true -> loop p fuel m body = Some r -> G r.
Proof.
  induction fuel as [|fuel IH]; intros m body r I R.
  - destruct body; simpl; [|discriminate]. intros [= <-]. simpl. auto.
  - destruct body as [|t l]; simpl; [intros [= <-]; simpl; auto|].
    pose proof (step_G m t I R) as S.
    destruct (step p m t) as [[m' pushed]|e]; [|intros [= <-]; exact S].
    destruct S as [I' R']. apply IH; assumption.
Qed.

Lemma new_machine_G : G (new_machine p).
Proof.
  unfold new_machine. unfold parser_wf in Pwf. apply andb_true_iff in Pwf.
  destruct Pwf as [Wi _]. destruct (p_initial p) as [ic|].
  - apply L_G with (m := mkM [init_ctx ic] true (Some 0) [] None false SContext []);
      [reflexivity|].
    apply enter_state_L. unfold invc; simpl. rewrite init_ctx_ok by exact Wi. reflexivity.
  - apply L_G with (m := mkM [] false None [] None false SContext []); [reflexivity|].
    apply enter_state_L. reflexivity.
Qed.

Lemma finish_ok m : invc m = true -> running m = true ->
  match finish m with Ok _ => True | Err e => allowed e end.
Proof.
  intros I R. unfold finish, transition.
  assert (F : in_context_or_unknown m = true).
  { unfold running in R. unfold in_context_or_unknown. destruct (m_st m); auto. }
  rewrite F. pose proof (enter_state_L (set_state m SEnd) I) as E.
  destruct (enter_state (set_state m SEnd)); simpl in *; [trivial | exact E].
Qed.

Lemma parse_argv_errors argv :
  match parse_argv p argv with Ok _ => True | Err e => allowed e end.
Proof.
  unfold parse_argv. destruct (parse_fuel_sufficient p argv) as [r Hr]. rewrite Hr.
  revert Hr. unfold parse_argv_fuel. destruct (split_ddash argv) as [body rem]. simpl.
  pose proof new_machine_G as NG.
  destruct (new_machine p) as [m|e]; simpl in NG; [|intros [= <-]; exact NG].
  destruct NG as [I R].
  destruct (loop p (body_fuel body) m body) as [lr|] eqn:Lp; [|discriminate].
  pose proof (loop_G _ _ _ _ I R Lp) as LG.
  destruct lr as [m'|e]; simpl in LG; [|intros [= <-]; exact LG].
  destruct LG as [I' R']. pose proof (finish_ok m' I' R') as Fo.
  destruct (finish m'); intros [= <-]; [trivial | exact Fo].
Qed.

End Errors.

(** ** The theorem *)

(** The boolean guard of the theorem: the parser can be constructed
    ([parser_ok]) and its arguments (initial context, if any, and task contexts)
    are well-formed.  Int-valued arguments are allowed; an initial context is
    not required (repair e36c9e6). *)
Definition c07_guard (cs : list ctxspec) (init : option ctxspec) : bool :=
  parser_ok cs && parser_wf (mkP cs init false).

Lemma parser_wf_ignore cs init ign :
  parser_wf (mkP cs init ign) = parser_wf (mkP cs init false).
Proof. reflexivity. Qed.

Theorem only_parse_errors cs init ign argv :
  c07_guard cs init = true ->
  match parser_parse cs init ign argv with
  | Ok _ => True
  | Err e => e = EParse
  end.
Proof.
  unfold c07_guard, parser_parse. rewrite andb_true_iff. intros [Pk W]. rewrite Pk.
  rewrite <- (parser_wf_ignore cs init ign) in W.
  exact (parse_argv_errors (mkP cs init ign) W argv).
Qed.
