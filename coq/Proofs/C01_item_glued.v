(** C01, item-level facts for "-nvalue" in the shape of Proofs/C01_generic.v
    (H_steps / H_vals / H_clean). *)
From InvokeVerif Require Import Model.ParserModel Corr.C01Corr Proofs.ListFacts Proofs.C07_fuel
     Proofs.C01_steps Proofs.C01_tokens Proofs.C01_lookup Proofs.C01_occ Proofs.C01_roundtrip
     Proofs.C01_form_glued.
From Coq Require Import Lia.

Definition item_ok_glued (c : ctxspec) (given : list nat) (it : item) : bool :=
  match it with One o => occ_glued c given o | Cluster _ => false end.

Definition item_given_glued (given : list nat) (it : item) : list nat :=
  match it with One o => o_arg o :: given | Cluster _ => given end.

Definition run_item_occ (args : list rarg) (it : item) : list rarg :=
  match it with One o => run_occ args o | Cluster _ => args end.

(** the same occurrence written "--flag=value": identical model-side and
    specification-side meaning *)
Definition as_eq (o : occ) : occ := mkOcc (o_arg o) (o_name o) FEq (o_val o).

Lemma run_occ_as_eq args o : run_occ args (as_eq o) = run_occ args o.
Proof. reflexivity. Qed.

Lemma vafter_as_eq a j cur os o : vafter a j cur (os ++ [as_eq o]) = vafter a j cur (os ++ [o]).
Proof. rewrite !vafter_snoc. reflexivity. Qed.

Lemma occ_glued_simple c given o : occ_glued c given o = true -> occ_simple c given (as_eq o) = true.
Proof.
  unfold occ_glued, occ_simple. cbn [as_eq o_arg o_name o_form o_val].
  destruct (nth_error (cx_args c) (o_arg o)) as [a|]; [|discriminate].
  destruct (o_form o); try (rewrite andb_false_r; discriminate).
  destruct (o_val o) as [b|n|s|]; try (rewrite andb_false_r; discriminate).
  rewrite !andb_true_iff. intros [Lk [[[[[[[Tv No] Pl] _] _] _] Hi] Hg]]. auto 10.
Qed.

Theorem H_steps_glued p i0 c given it done cur fl got :
  ctx_guard c = true -> item_ok_glued c given it = true ->
  st_ok c given (rc_args cur) -> inert (MS i0 done cur fl got) ->
  exists fl' got',
    steps p (MS i0 done cur fl got) (spell_item c it)
            (MS i0 done (with_args cur (run_item_occ (rc_args cur) it)) fl' got') /\
    inert (MS i0 done (with_args cur (run_item_occ (rc_args cur) it)) fl' got') /\
    st_ok c (item_given_glued given it) (run_item_occ (rc_args cur) it).
Proof.
  destruct it as [o|l]; [|discriminate]. cbn [item_ok_glued spell_item run_item_occ item_given_glued].
  intros G Os St I. exact (occ_glued_steps [] p i0 c given o done cur fl got G Os St I).
Qed.

Theorem H_vals_glued c given it args os :
  ctx_guard c = true -> item_ok_glued c given it = true -> st_ok c given args ->
  vals_ok os args -> vals_ok (os ++ occs_of it) (run_item_occ args it).
Proof.
  destruct it as [o|l]; [|discriminate]. cbn [item_ok_glued occs_of run_item_occ].
  intros G Os St V.
  pose proof (run_occ_vals c given (as_eq o) args os G (occ_glued_simple _ _ _ Os) St V) as H.
  rewrite run_occ_as_eq in H. intros j r N. rewrite (H j r N). apply vafter_as_eq.
Qed.

Theorem H_clean_glued c given it :
  ctx_guard c = true -> item_ok_glued c given it = true ->
  Forall (fun t => t <> "--") (spell_item c it).
Proof.
  destruct it as [o|l]; [|discriminate]. cbn [item_ok_glued spell_item].
  intros G Os. unfold occ_glued in Os. unfold spell_occ.
  destruct (nth_error (cx_args c) (o_arg o)) as [a|]; [|discriminate].
  apply andb_true_iff in Os. destruct Os as [_ Os].
  destruct (o_form o); try discriminate. destruct (o_val o) as [b|n|s|]; try discriminate.
  rewrite !andb_true_iff, !negb_true_iff in Os. destruct Os as [[[[[[[_ _] _] Hne] _] Hlen] _] _].
  apply String.eqb_neq in Hne. apply Nat.eqb_eq in Hlen.
  constructor; [|constructor]. cbn [text_of]. intros C.
  assert (L : String.length (flag_of a (o_name o) ++ s) = 2) by (rewrite C; reflexivity).
  assert (La : forall x y, String.length (x ++ y) = String.length x + String.length y).
  { induction x as [|ch x IH]; intros y; simpl; [reflexivity | now rewrite IH]. }
  rewrite La, Hlen in L. destruct s; [now elim Hne | simpl in L; lia].
Qed.
