(** String / association-list facts used by the C09 proofs. *)
From InvokeVerif Require Import Model.SigCtxModel Spec.C09Spec.
From Coq Require Import Lia Permutation.

(** * Strings *)
Lemma append_nil_r (s : string) : (s ++ "")%string = s.
Proof. induction s as [|c s IH]; simpl; [reflexivity | now rewrite IH]. Qed.

Lemma string_rev_aux_twice s : forall a b,
  string_rev_aux (string_rev_aux s a) b = string_rev_aux a (s ++ b)%string.
Proof.
  induction s as [|c s IH]; intros a b; simpl; [reflexivity|].
  rewrite IH. reflexivity.
Qed.

Lemma string_rev_involutive s : string_rev (string_rev s) = s.
Proof. unfold string_rev. rewrite string_rev_aux_twice. simpl. apply append_nil_r. Qed.

Lemma contains_char_rev_aux a s : forall acc,
  contains_char a (string_rev_aux s acc) = contains_char a s || contains_char a acc.
Proof.
  induction s as [|c s IH]; intros acc; simpl; [reflexivity|].
  rewrite IH. simpl. destruct (Ascii.eqb c a), (contains_char a s), (contains_char a acc); reflexivity.
Qed.

Lemma contains_char_rev a s : contains_char a (string_rev s) = contains_char a s.
Proof. unfold string_rev. rewrite contains_char_rev_aux. simpl. apply orb_false_r. Qed.

Lemma lstrip_no_char a s : contains_char a s = false -> lstrip_char a s = s.
Proof.
  destruct s as [|c s]; simpl; [reflexivity|].
  intros H. apply orb_false_iff in H. destruct H as [H _]. now rewrite H.
Qed.

Lemma contains_char_lstrip a b s : contains_char b s = false -> contains_char b (lstrip_char a s) = false.
Proof.
  induction s as [|c s IH]; simpl; [reflexivity|].
  intros H. apply orb_false_iff in H. destruct H as [H1 H2].
  destruct (Ascii.eqb c a); [now apply IH|]. simpl. now rewrite H1, H2.
Qed.

Lemma rstrip_no_char a s : contains_char a s = false -> rstrip_char a s = s.
Proof.
  intros H. unfold rstrip_char. rewrite lstrip_no_char.
  - apply string_rev_involutive.
  - now rewrite contains_char_rev.
Qed.

Lemma contains_char_rstrip a b s : contains_char b s = false -> contains_char b (rstrip_char a s) = false.
Proof.
  intros H. unfold rstrip_char. rewrite contains_char_rev. apply contains_char_lstrip.
  now rewrite contains_char_rev.
Qed.

Lemma replace_no_char a b s : contains_char a s = false -> replace_char a b s = s.
Proof.
  induction s as [|c s IH]; simpl; [reflexivity|].
  intros H. apply orb_false_iff in H. destruct H as [H1 H2]. rewrite H1, IH; auto.
Qed.

Lemma contains_replaced a b s : Ascii.eqb b a = false -> contains_char a (replace_char a b s) = false.
Proof.
  intros Hab. induction s as [|c s IH]; simpl; [reflexivity|].
  rewrite IH. destruct (Ascii.eqb c a) eqn:E; [now rewrite Hab | now rewrite E].
Qed.

Lemma translate_no_us n : contains_char us (translate_underscores n) = false.
Proof. unfold translate_underscores. apply contains_replaced. reflexivity. Qed.

Lemma translate_id n : contains_char us n = false -> translate_underscores n = n.
Proof.
  intros H. unfold translate_underscores.
  rewrite (lstrip_no_char us n H), (rstrip_no_char us n H). now apply replace_no_char.
Qed.

Lemma translate_idem n : translate_underscores (translate_underscores n) = translate_underscores n.
Proof. apply translate_id, translate_no_us. Qed.

Lemma dashed_is_translate n : dashed n = translate_underscores n.
Proof. reflexivity. Qed.

Lemma lstrip_head a s c r : lstrip_char a s = String c r -> Ascii.eqb c a = false.
Proof.
  induction s as [|d s IH]; simpl; [discriminate|].
  destruct (Ascii.eqb d a) eqn:E; [exact IH|].
  intros H; injection H as -> _. exact E.
Qed.

(** a stripped string is never the single stripped character *)
Lemma rstrip_not_single a s : rstrip_char a s <> String a EmptyString.
Proof.
  unfold rstrip_char. intros H.
  assert (H' : lstrip_char a (string_rev s) = String a EmptyString).
  { rewrite <- (string_rev_involutive (lstrip_char a (string_rev s))). rewrite H. reflexivity. }
  apply lstrip_head in H'. rewrite Ascii.eqb_refl in H'. discriminate.
Qed.

Lemma replace_single a b s c : replace_char a b s = String c EmptyString ->
  exists d, s = String d EmptyString.
Proof. destruct s as [|d [|e s]]; simpl; try discriminate. intros _. now exists d. Qed.

(** the dashed form of a dash-free name is never "-" *)
Lemma translate_not_dash n : contains_char dash n = false -> translate_underscores n <> "-".
Proof.
  intros Hn H. unfold translate_underscores in H.
  destruct (replace_single _ _ _ _ H) as [d Hd]. rewrite Hd in H. simpl in H.
  destruct (Ascii.eqb d us) eqn:E.
  - apply Ascii.eqb_eq in E. subst d. now apply rstrip_not_single in Hd.
  - injection H as ->.
    assert (C : contains_char dash (rstrip_char us (lstrip_char us n)) = false)
      by now apply contains_char_rstrip, contains_char_lstrip.
    rewrite Hd in C. simpl in C. discriminate.
Qed.

(** * to_flag on dashed names *)
Lemma to_flag_clean n : contains_char us n = false ->
  to_flag n = if Nat.eqb (String.length n) 1 then ("-" ++ n)%string else ("--" ++ n)%string.
Proof. intros H. unfold to_flag. now rewrite translate_id. Qed.

Lemma to_flag_inj a b :
  contains_char us a = false -> contains_char us b = false -> a <> "-" -> b <> "-" ->
  to_flag a = to_flag b -> a = b.
Proof.
  intros Ha Hb Na Nb. rewrite !to_flag_clean by assumption.
  destruct (Nat.eqb (String.length a) 1) eqn:La, (Nat.eqb (String.length b) 1) eqn:Lb; simpl; intros H.
  - now injection H.
  - injection H as H. subst a. simpl in La. destruct b; [now elim Na|]. simpl in La. discriminate.
  - injection H as H. subst b. simpl in Lb. destruct a; [now elim Nb|]. simpl in Lb. discriminate.
  - now injection H.
Qed.

(** * Association lists *)
Lemma aget_none_notin {V} k (l : list (string * V)) : aget k l = None <-> ~ In k (map fst l).
Proof.
  induction l as [|[k' v] l IH]; simpl; [tauto|].
  destruct (String.eqb k k') eqn:E.
  - apply String.eqb_eq in E. subst. split; [discriminate | intros H; elim H; now left].
  - apply String.eqb_neq in E. rewrite IH. split; intros H; [intros [H1|H1]; [congruence|tauto] | tauto].
Qed.

Lemma aset_fresh {V} k (v : V) l : ~ In k (map fst l) -> aset k v l = l ++ [(k, v)].
Proof.
  induction l as [|[k' v'] l IH]; simpl; [reflexivity|].
  intros H. destruct (String.eqb k k') eqn:E.
  - apply String.eqb_eq in E. subst. elim H. now left.
  - rewrite IH; [reflexivity | tauto].
Qed.

Lemma aget_app_fresh {V} k (l1 l2 : list (string * V)) :
  ~ In k (map fst l1) -> aget k (l1 ++ l2) = aget k l2.
Proof.
  induction l1 as [|[k' v'] l1 IH]; simpl; [reflexivity|].
  intros H. destruct (String.eqb k k') eqn:E.
  - apply String.eqb_eq in E. subst. elim H. now left.
  - apply IH. tauto.
Qed.

Lemma aget_in {V} k (v : V) l : aget k l = Some v -> In (k, v) l.
Proof.
  induction l as [|[k' v'] l IH]; simpl; [discriminate|].
  destruct (String.eqb k k') eqn:E.
  - apply String.eqb_eq in E. subst. intros H; injection H as ->. now left.
  - intros H. right. now apply IH.
Qed.

Lemma aget_nodup_in {V} k (v : V) l : NoDup (map fst l) -> In (k, v) l -> aget k l = Some v.
Proof.
  induction l as [|[k' v'] l IH]; simpl; [tauto|].
  intros ND [H|H].
  - injection H as -> ->. now rewrite String.eqb_refl.
  - inversion ND as [|? ? N1 N2]; subst.
    destruct (String.eqb k k') eqn:E.
    + apply String.eqb_eq in E. subst. elim N1. apply in_map_iff. now exists (k', v).
    + now apply IH.
Qed.

Lemma fold_aset_fresh {V} (f : string -> string) (v : V) nicks : forall l,
  NoDup (map f nicks) -> (forall n, In n nicks -> ~ In (f n) (map fst l)) ->
  fold_left (fun al n => aset (f n) v al) nicks l = l ++ map (fun n => (f n, v)) nicks.
Proof.
  induction nicks as [|n nicks IH]; intros l ND F; simpl.
  - now rewrite app_nil_r.
  - inversion ND as [|? ? N1 N2]; subst.
    rewrite aset_fresh by (apply F; now left).
    rewrite IH; [now rewrite <- app_assoc | assumption |].
    intros m Hm. rewrite map_app, in_app_iff. simpl. intros [H|[H|[]]].
    + apply (F m); [now right | assumption].
    + apply N1. rewrite H. now apply in_map.
Qed.

Lemma mem_false_notin s l : mem s l = false <-> ~ In s l.
Proof.
  rewrite <- mem_In. destruct (mem s l); split; intros H; try reflexivity; try discriminate.
  now elim H.
Qed.

Lemma has_dup_NoDup l : has_dup l = false <-> NoDup l.
Proof.
  induction l as [|x l IH]; simpl; [split; [constructor | reflexivity]|].
  rewrite orb_false_iff, IH, mem_false_notin. split.
  - intros [H1 H2]. now constructor.
  - intros H. inversion H; subst. tauto.
Qed.
