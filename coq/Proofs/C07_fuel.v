(** C07, termination half: the token loop of [parse_argv] never runs out of
    [body_fuel] (and more fuel changes nothing). *)
From InvokeVerif Require Import Model.ParserModel.
From Coq Require Import Lia.

Lemma length_drop n s : String.length (drop n s) = String.length s - n.
Proof.
  revert s; induction n as [|n IH]; intros s; simpl; [lia|].
  destruct s as [|c s]; simpl; [reflexivity | apply IH].
Qed.

Lemma partition_char_length a s h f v :
  partition_char a s = (h, f, v) ->
  f = true -> String.length h + 1 + String.length v = String.length s.
Proof.
  revert h f v; induction s as [|c s IH]; intros h f v; simpl.
  - intros E; inversion E; subst; discriminate.
  - destruct (Ascii.eqb c a).
    + intros E; inversion E; subst; simpl; lia.
    + destruct (partition_char a s) as [[x f'] y] eqn:P.
      intros E; inversion E; subst; intros Hf. simpl.
      specialize (IH _ _ _ eq_refl Hf). lia.
Qed.

Lemma partition_char_found a s :
  contains_char a s = true -> snd (fst (partition_char a s)) = true.
Proof.
  induction s as [|c s IH]; simpl; [discriminate|].
  destruct (Ascii.eqb c a); simpl; [reflexivity|].
  intros H. destruct (partition_char a s) as [[x f] y]; simpl in *. auto.
Qed.

Lemma partition_char_head_nonempty a s h f v :
  partition_char a s = (h, f, v) -> contains_char a s = true ->
  starts_with "-" s = true -> a <> "-"%char -> 1 <= String.length h.
Proof.
  destruct s as [|c s]; [cbn; intros _ C; discriminate C|].
  cbn [partition_char starts_with]. intros P _ S Ha.
  apply andb_true_iff in S. destruct S as [E _].
  apply Ascii.eqb_eq in E; subst c.
  destruct (Ascii.eqb "-" a) eqn:E2.
  - apply Ascii.eqb_eq in E2; congruence.
  - destruct (partition_char a s) as [[x f'] y]. inversion P; subst; simpl; lia.
Qed.

Lemma tok_weight_pos t : 1 <= tok_weight t.
Proof.
  unfold tok_weight. destruct (String.length t) as [|[|[|n]]]; lia.
Qed.

Lemma tok_weight_le t : tok_weight t <= 2 * String.length t + 1.
Proof.
  unfold tok_weight. destruct (String.length t) as [|[|[|n]]]; lia.
Qed.

Lemma tok_weight_shorter v t :
  String.length v + 2 <= String.length t -> tok_weight v + 1 <= tok_weight t.
Proof.
  unfold tok_weight.
  destruct (String.length v) as [|[|[|n]]]; destruct (String.length t) as [|[|[|m]]]; lia.
Qed.

Lemma length_list_ascii s : List.length (list_ascii_of_string s) = String.length s.
Proof. induction s; simpl; auto. Qed.

Lemma body_fuel_dash_each s : body_fuel (dash_each s) = 2 * String.length s.
Proof.
  unfold dash_each. induction s as [|c s IH]; simpl; [reflexivity|].
  simpl in IH. rewrite IH. unfold tok_weight. simpl. lia.
Qed.

Lemma body_fuel_app a b : body_fuel (a ++ b) = body_fuel a + body_fuel b.
Proof. induction a; simpl; lia. Qed.

(** Every split pushes strictly less weight than the token it consumes. *)
Lemma presplit_weight m t h pushed :
  presplit m t = Ok (h, pushed) -> body_fuel pushed + 1 <= tok_weight t.
Proof.
  unfold presplit.
  destruct (is_flag t && match m_unparsed m with [] => true | _ => false end) eqn:G.
  2:{ intros E; inversion E; subst; simpl. apply tok_weight_pos. }
  apply andb_true_iff in G. destruct G as [Fl _].
  destruct (contains_char "=" t) eqn:C.
  - destruct (partition_char "=" t) as [[h' f] v] eqn:P.
    intros E; inversion E; subst. simpl.
    pose proof (partition_char_found _ _ C) as F. rewrite P in F. simpl in F.
    pose proof (partition_char_length _ _ _ _ _ P F) as L.
    assert (1 <= String.length h).
    { eapply partition_char_head_nonempty; eauto. discriminate. }
    pose proof (tok_weight_shorter v t). lia.
  - destruct (negb (is_long_flag t) && Nat.ltb 2 (String.length t)) eqn:S.
    2:{ intros E; inversion E; subst; simpl. apply tok_weight_pos. }
    apply andb_true_iff in S. destruct S as [_ S]. apply Nat.ltb_lt in S.
    match goal with |- (if ?b then _ else _) = _ -> _ => destruct b end;
      intros [= <- <-].
    + cbn [body_fuel]. pose proof (tok_weight_shorter (drop 2 t) t) as W.
      rewrite length_drop in W. change (tok_weight (drop 2 t) + 0 + 1 <= tok_weight t). lia.
    + change (body_fuel (dash_each (drop 2 t)) + 1 <= tok_weight t).
      rewrite body_fuel_dash_each, length_drop.
      unfold tok_weight. destruct (String.length t) as [|[|[|n]]]; lia.
Qed.

Lemma rollback_weight m t sp sp' :
  rollback m t sp = Ok sp' -> body_fuel (snd sp') <= body_fuel (snd sp).
Proof.
  unfold rollback. destruct (waiting m).
  - match goal with |- (if ?b then _ else _) = _ -> _ => destruct b end;
      intros E; inversion E; subst; simpl; lia.
  - intros E; inversion E; subst; lia.
Qed.

Lemma step_weight p m t m' pushed :
  step p m t = Ok (m', pushed) -> body_fuel pushed + 1 <= tok_weight t.
Proof.
  unfold step, bind.
  destruct (presplit m t) as [[h pu]|] eqn:P; [|discriminate].
  destruct (rollback m t (h, pu)) as [sp'|] eqn:R; [|discriminate].
  destruct (handle p (fst sp') m); [|discriminate].
  intros E; inversion E; subst.
  apply presplit_weight in P. apply rollback_weight in R. simpl in R. lia.
Qed.

(** Fuel sufficiency: with at least [body_fuel body] units the loop ends. *)
Lemma loop_fuel_sufficient p : forall fuel m body,
  body_fuel body <= fuel -> exists r, loop p fuel m body = Some r.
Proof.
  induction fuel as [|fuel IH]; intros m body H.
  - destruct body as [|t l]; simpl; [eauto|].
    simpl in H. pose proof (tok_weight_pos t). lia.
  - destruct body as [|t l]; simpl; [eauto|].
    destruct (step p m t) as [[m' pushed]|e] eqn:S; [|eauto].
    apply IH. apply step_weight in S. simpl in H. rewrite body_fuel_app. lia.
Qed.

(** ...and the answer does not depend on how much more fuel is supplied. *)
Lemma loop_fuel_mono p : forall fuel m body r,
  loop p fuel m body = Some r -> forall fuel', fuel <= fuel' -> loop p fuel' m body = Some r.
Proof.
  induction fuel as [|fuel IH]; intros m body r H fuel' Hle.
  - destruct body; simpl in H; [|discriminate].
    destruct fuel'; simpl; assumption.
  - destruct body as [|t l]; simpl in H.
    + destruct fuel'; simpl; assumption.
    + destruct fuel' as [|fuel']; [lia|]. simpl.
      destruct (step p m t) as [[m' pushed]|e]; [|assumption].
      apply IH with (fuel' := fuel') in H; [assumption | lia].
Qed.

Theorem parse_fuel_sufficient p argv :
  exists r, parse_argv_fuel (body_fuel (fst (split_ddash argv))) p argv = Some r.
Proof.
  unfold parse_argv_fuel. destruct (split_ddash argv) as [body rem]. simpl.
  destruct (new_machine p) as [m|e]; [|eauto].
  destruct (loop_fuel_sufficient p (body_fuel body) m body (le_n _)) as [r Hr].
  rewrite Hr. destruct r as [m'|e]; [|eauto].
  destruct (finish m'); eauto.
Qed.

Theorem parse_fuel_irrelevant p argv fuel :
  body_fuel (fst (split_ddash argv)) <= fuel ->
  parse_argv_fuel fuel p argv = Some (parse_argv p argv).
Proof.
  intros H. unfold parse_argv.
  destruct (parse_fuel_sufficient p argv) as [r Hr]. rewrite Hr.
  revert Hr H. unfold parse_argv_fuel. destruct (split_ddash argv) as [body rem]. simpl.
  destruct (new_machine p) as [m|e]; [|intros E _; exact E].
  destruct (loop p (body_fuel body) m body) as [lr|] eqn:L; [|discriminate].
  intros E Hle. rewrite (loop_fuel_mono p _ _ _ _ L fuel Hle). exact E.
Qed.

(** The fuel is linear in the size of the command line. *)
Lemma body_fuel_linear body :
  body_fuel body <= fold_right (fun t n => 2 * String.length t + 1 + n) 0 body.
Proof.
  induction body as [|t l IH]; cbn [body_fuel fold_right]; [lia|].
  pose proof (tok_weight_le t). lia.
Qed.
