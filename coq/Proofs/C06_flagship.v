(** C06 flagship against the executable specification itself: for EVERY history
    of root-navigated operations inside the guard of the partial theorem
    ([op_ok]), the model's own trace (outcome, deep view and environment level
    after every call) is accepted by [C06Spec.spec_ok] -- outcomes compared
    with [out_match], views compared as dicts ([tree_equiv]), the reference
    being the journal replayed over the deep union of the levels the
    specification reads off the load calls ([supplied_of]). *)
From Coq Require Import Lia.
From InvokeVerif Require Import Common.Tree Common.StrUtil Model.MergeModel Model.EnvModel
     Model.ConfigModel Spec.C03Spec Spec.C06Spec Proofs.ListFacts Proofs.TreeFacts Proofs.C03_merge
     Proofs.C03_levels Proofs.C03_order Proofs.C06_shapes Proofs.C06_track Proofs.C06_envfacts
     Proofs.C06_refine Proofs.C06_union Proofs.C06_specrun Proofs.C03_script Proofs.C03_whole.

(** * 1. Same shapes everywhere: equal as dicts *)
Lemma depth_kid k t kids : In (k, t) kids -> depth t < depth (Node kids).
Proof.
  intros Hin. cbn [depth]. apply Nat.lt_succ_r.
  induction kids as [|[k' t'] kids IH]; [destruct Hin|].
  cbn [fold_right snd]. destruct Hin as [E|Hin].
  - inversion E; subst. apply Nat.le_max_l.
  - etransitivity; [apply IH; exact Hin | apply Nat.le_max_r].
Qed.

Lemma sim_keys d1 d2 : sim (Node d1) (Node d2) -> forall k, In k (keys d1) -> In k (keys d2).
Proof.
  intros H k Hin. pose proof (sim_get k d1 d2 H) as G.
  destruct (get k d2) as [t2|] eqn:G2.
  - apply get_in in G2. unfold keys. apply in_map_iff. exists (k, t2). auto.
  - exfalso. unfold keys in Hin. apply in_map_iff in Hin as [[k' t] [E Hin]]. simpl in E; subst k'.
    assert (Hs : get k d1 <> None).
    { clear -Hin. induction d1 as [|[k0 t0] d IH]; [destruct Hin|]. simpl.
      destruct (String.eqb k k0) eqn:Ek; [discriminate|]. destruct Hin as [E|Hin]; [|apply IH; exact Hin].
      inversion E; subst. rewrite String.eqb_refl in Ek. discriminate. }
    destruct (get k d1) as [[x|a]|]; try contradiction; congruence.
Qed.

Lemma sim_length d1 d2 : wf (Node d1) = true -> wf (Node d2) = true -> sim (Node d1) (Node d2) ->
  List.length d1 = List.length d2.
Proof.
  intros W1 W2 H. apply wf_NoDup in W1, W2.
  assert (L : forall a b : dict, NoDup (keys a) -> (forall k, In k (keys a) -> In k (keys b)) ->
                                 List.length a <= List.length b).
  { intros a b Na Hi. rewrite <- (map_length fst a), <- (map_length fst b).
    apply NoDup_incl_length; assumption. }
  apply Nat.le_antisymm; apply L; try assumption; apply sim_keys; [exact H | apply sim_sym; exact H].
Qed.

Lemma sim_dict_equiv_fuel : forall a b f, depth a < f -> wf a = true -> wf b = true -> sim a b ->
  dict_equiv_fuel f a b = true.
Proof.
  induction a as [x | ka IH] using tree_ind'; intros b f Hf Wa Wb H.
  - destruct f; [lia|]. pose proof (H []) as H0. destruct b as [y|kb]; [|discriminate].
    inversion H0; subst. simpl. apply value_eqb_eq. reflexivity.
  - destruct f; [lia|]. pose proof (H []) as H0. destruct b as [y|kb]; [discriminate|].
    cbn [dict_equiv_fuel]. rewrite (sim_length ka kb Wa Wb H), Nat.eqb_refl. cbn [andb].
    apply forallb_forall. intros [k t] Hin. cbn [fst snd].
    pose proof (sim_get k ka kb H) as G.
    rewrite (in_get k t ka (wf_NoDup ka Wa) Hin) in G.
    rewrite Forall_forall in IH. specialize (IH (k, t) Hin). cbn [snd] in IH.
    pose proof (depth_kid k t ka Hin) as Hd.
    destruct (get k kb) as [t2|] eqn:G2; [|destruct t; destruct G].
    apply IH.
    + lia.
    + apply (C03_merge.wf_get k ka t Wa (in_get k t ka (wf_NoDup ka Wa) Hin)).
    + apply (C03_merge.wf_get k kb t2 Wb G2).
    + destruct t as [x|a], t2 as [y|b']; try (destruct G; fail).
      * subst. apply sim_refl.
      * exact G.
Qed.

Lemma sim_tree_equiv a b : wf a = true -> wf b = true -> sim a b -> tree_equiv a b = true.
Proof.
  intros Wa Wb H. unfold tree_equiv, dict_equiv. apply andb_true_iff. split.
  - apply sim_dict_equiv_fuel; try assumption. lia.
  - apply sim_dict_equiv_fuel; try assumption; [lia | apply sim_sym; exact H].
Qed.

Lemma tree_equiv_refl a : wf a = true -> tree_equiv a a = true.
Proof. intros W. apply sim_tree_equiv; try assumption. apply sim_refl. Qed.

(** * 2. The nested-dict step on two dicts that show the same *)
Lemma nav_wf fl : forall kp d a, wf (Node d) = true -> nav fl d kp = Ok a -> wf (Node a) = true.
Proof.
  induction kp as [|k kp IH]; intros d a W H; [inversion H; subst; exact W|].
  simpl in H. destruct (get k d) as [[x|kids]|] eqn:G; try discriminate.
  apply (IH kids a); [|exact H]. apply (C03_merge.wf_get k d (Node kids) W G).
Qed.

Lemma walk_sim fl kp d1 d2 : wf (Node d1) = true -> wf (Node d2) = true -> sim (Node d1) (Node d2) ->
  match walk fl d1 kp, walk fl d2 kp with
  | Ok a, Ok b => wf (Node a) = true /\ wf (Node b) = true /\ sim (Node a) (Node b)
  | Err e1, Err e2 => e1 = e2
  | _, _ => False
  end.
Proof.
  intros W1 W2 H. rewrite (walk_is_nav fl kp d1), (walk_is_nav fl kp d2). pose proof (nav_sim fl kp d1 d2 H) as Hn.
  destruct (nav fl d1 kp) as [a|e1] eqn:N1, (nav fl d2 kp) as [b|e2] eqn:N2; try contradiction; [|exact Hn].
  split; [apply (nav_wf fl kp d1 a W1 N1)|]. split; [apply (nav_wf fl kp d2 b W2 N2) | exact Hn].
Qed.

Lemma err_eqb_refl e : err_eqb e e = true.
Proof. apply err_eqb_eq. reflexivity. Qed.

(** values handed in by the caller are well-formed trees *)
Definition op_wf (o : op) : bool :=
  match o with
  | Pop _ _ _ (Some dv) | GetM _ _ _ (Some dv) | SetDefault _ _ _ (Some dv) => wf dv
  | _ => true
  end.

Definition guarded_path_op (o : op) : bool :=
  match o with
  | Get _ _ _ | Contains _ _ _ | Len _ _ | Keys _ _ | Del _ _ _ | Pop _ _ _ _ | PopItem _ _
  | SetV _ _ _ _ | SetDefault _ _ _ _ | Clear _ _ | Update _ _ _ | View _ _ | EqD _ _ _
  | GetM _ _ _ _ | UpdateBoth _ _ _ _ => true
  | _ => false
  end.

Lemma get_equiv k a b : wf (Node a) = true -> wf (Node b) = true -> sim (Node a) (Node b) ->
  match get k a, get k b with
  | Some t1, Some t2 => tree_equiv t2 t1 = true
  | None, None => True
  | _, _ => False
  end.
Proof.
  intros Wa Wb H. pose proof (sim_get k a b H) as G.
  destruct (get k a) as [t1|] eqn:G1, (get k b) as [t2|] eqn:G2.
  - pose proof (C03_merge.wf_get k a t1 Wa G1) as W1. pose proof (C03_merge.wf_get k b t2 Wb G2) as W2.
    destruct t1 as [x|ka], t2 as [y|kb]; try (destruct G; fail).
    + subst. apply tree_equiv_refl. reflexivity.
    + apply sim_tree_equiv; try assumption. apply sim_sym. exact G.
  - destruct t1; destruct G.
  - destruct t2; destruct G.
  - exact I.
Qed.

Lemma same_keys_sim a b : wf (Node a) = true -> wf (Node b) = true -> sim (Node a) (Node b) ->
  same_keys (keys b) (keys a) = true.
Proof.
  intros Wa Wb H. unfold same_keys. unfold keys at 1 2. rewrite !map_length.
  rewrite (sim_length a b Wa Wb H), Nat.eqb_refl. cbn [andb].
  apply forallb_forall. intros k Hk. apply mem_In. apply (sim_keys b a (sim_sym _ _ H) k Hk).
Qed.

Lemma sim_nil a b : wf (Node a) = true -> wf (Node b) = true -> sim (Node a) (Node b) ->
  (a = [] <-> b = []).
Proof.
  intros Wa Wb H. pose proof (sim_length a b Wa Wb H) as L.
  split; intros ->; [destruct b | destruct a]; try reflexivity; discriminate.
Qed.

Theorem nd_out_sim d1 d2 o obs :
  wf (Node d1) = true -> wf (Node d2) = true -> sim (Node d1) (Node d2) ->
  guarded_path_op o = true -> op_wf o = true ->
  out_match (fst (nd_step d2 o obs)) (fst (nd_step d1 o obs)) = true.
Proof.
  intros W1 W2 H Hg Hw.
  destruct o; try discriminate; cbn [nd_step];
    pose proof (walk_sim fl kp d1 d2 W1 W2 H) as Hn;
    destruct (walk fl d1 kp) as [a|e1], (walk fl d2 kp) as [b|e2]; try contradiction;
    try (subst e2; cbn [fst out_match]; apply err_eqb_refl);
    destruct Hn as [Wa [Wb Hs]]; cbn [fst out_match]; try reflexivity.
  - (* Get *)
    pose proof (get_equiv k a b Wa Wb Hs) as G.
    destruct (get k a), (get k b); try contradiction; cbn [fst out_match]; [exact G | apply err_eqb_refl].
  - (* Del *)
    rewrite (sim_has k a b Hs). destruct (has k b); cbn [fst out_match]; [reflexivity | apply err_eqb_refl].
  - (* Pop *)
    pose proof (get_equiv k a b Wa Wb Hs) as G.
    destruct (get k a), (get k b); try contradiction; cbn [fst out_match]; [exact G|].
    destruct dflt as [dv|]; cbn [fst out_match]; [apply tree_equiv_refl; exact Hw | reflexivity].
  - (* PopItem *)
    pose proof (sim_nil a b Wa Wb Hs) as Hnil.
    destruct a as [|x a'], b as [|y b']; try reflexivity;
      try (exfalso; destruct Hnil as [H1 H2]; (discriminate (H1 eq_refl) || discriminate (H2 eq_refl))).
    destruct obs; try reflexivity.
    pose proof (get_equiv k (x :: a') (y :: b') Wa Wb Hs) as G.
    destruct (get k (x :: a')), (get k (y :: b')); try contradiction; cbn [fst out_match]; [|reflexivity].
    rewrite String.eqb_refl. exact G.
  - (* SetDefault *)
    pose proof (get_equiv k a b Wa Wb Hs) as G.
    destruct (get k a), (get k b); try contradiction; cbn [fst out_match]; [exact G|].
    destruct dflt as [dv|]; [apply tree_equiv_refl; exact Hw | reflexivity].
  - (* Contains *)
    rewrite (sim_has k a b Hs). apply Bool.eqb_reflx.
  - (* Len *)
    rewrite (sim_length a b Wa Wb Hs). apply Nat.eqb_refl.
  - (* Keys *)
    apply same_keys_sim; assumption.
  - (* View *)
    apply sim_tree_equiv; try assumption. apply sim_sym. exact Hs.
  - (* EqD *)
    apply Bool.eqb_reflx.
  - (* GetM *)
    pose proof (get_equiv k a b Wa Wb Hs) as G.
    destruct (get k a), (get k b); try contradiction; cbn [fst out_match]; [exact G|].
    destruct dflt as [dv|]; [apply tree_equiv_refl; exact Hw | reflexivity].
Qed.

(** * 3. The journal the specification keeps vs. the journal the model keeps *)
Lemma good_journal_sim S c J1 J2 : good S c J1 -> Forall event_wf J2 ->
  (forall X, wf (Node X) = true ->
             sim (Node (replay (Node X) J1)) (Node (replay (Node X) J2))) ->
  good S c J2.
Proof.
  intros [HL [WM CM WD WJ Rep] HC] WJ2 Hs. constructor; [exact HL | | exact HC].
  constructor; try assumption. intros X WX CX q. rewrite <- (Hs X WX q). apply Rep; assumption.
Qed.

Definition del_keys (kp : path) (ks : list string) (d : dict) : dict :=
  fold_left (fun d k => del_path d (kp ++ [k])) ks d.

Lemma del_keys_shape kp : forall ks d q, wf (Node d) = true ->
  wf (Node (del_keys kp ks d)) = true /\
  shape_at q (Node (del_keys kp ks d)) =
  if existsb (fun k => is_prefix (kp ++ [k]) q) ks then None else shape_at q (Node d).
Proof.
  induction ks as [|k ks IH]; intros d q W; [split; [exact W | reflexivity]|].
  cbn [del_keys fold_left existsb].
  assert (Hp : kp ++ [k] <> []) by (destruct kp; discriminate).
  pose proof (wf_del_path (kp ++ [k]) d W) as W'.
  destruct (IH (del_path d (kp ++ [k])) q W') as [I1 I2]. fold (del_keys kp ks (del_path d (kp ++ [k]))).
  split; [exact I1|]. rewrite I2, (del_path_shape _ _ _ Hp W).
  destruct (is_prefix (kp ++ [k]) q), (existsb (fun k0 => is_prefix (kp ++ [k0]) q) ks); reflexivity.
Qed.

Lemma replay_clear X J kp ks :
  replay (Node X) (J ++ map (fun k => JDel (kp ++ [k])) ks) = del_keys kp ks (replay (Node X) J).
Proof.
  unfold replay. rewrite fold_left_app. cbn [apply_event].
  generalize (fold_left apply_event J X). induction ks as [|k ks IH]; intros d; [reflexivity|].
  cbn [map fold_left del_keys apply_event]. apply IH.
Qed.

Lemma clear_journal_sim X J kp ks ks' :
  wf (Node X) = true -> Forall event_wf J -> (forall k, In k ks <-> In k ks') ->
  sim (Node (replay (Node X) (J ++ map (fun k => JDel (kp ++ [k])) ks)))
      (Node (replay (Node X) (J ++ map (fun k => JDel (kp ++ [k])) ks'))).
Proof.
  intros WX WJ Hk q. rewrite !replay_clear.
  pose proof (wf_replay X J WX WJ) as W.
  rewrite (proj2 (del_keys_shape kp ks _ q W)), (proj2 (del_keys_shape kp ks' _ q W)).
  assert (E : existsb (fun k => is_prefix (kp ++ [k]) q) ks = existsb (fun k => is_prefix (kp ++ [k]) q) ks').
  { destruct (existsb (fun k => is_prefix (kp ++ [k]) q) ks) eqn:E1; symmetry.
    - apply existsb_exists in E1 as [k [Hin Hk']]. apply existsb_exists. exists k. split; [apply Hk; exact Hin | exact Hk'].
    - destruct (existsb (fun k => is_prefix (kp ++ [k]) q) ks') eqn:E2; [|reflexivity].
      apply existsb_exists in E2 as [k [Hin Hk']].
      assert (existsb (fun k => is_prefix (kp ++ [k]) q) ks = true)
        by (apply existsb_exists; exists k; split; [apply Hk; exact Hin | exact Hk']).
      congruence. }
  rewrite E. reflexivity.
Qed.

Lemma event_wf_dels kp ks : Forall event_wf (map (fun k => JDel (kp ++ [k])) ks).
Proof. apply Forall_forall. intros e Hin. apply in_map_iff in Hin as [k [<- _]]. destruct kp; discriminate. Qed.

(** * 4. The model's outcome is the nested dict's outcome on the model's own view *)
Lemma last_item_in : forall d k t, last_item d = Some (k, t) -> In (k, t) d.
Proof.
  induction d as [|[k0 t0] d IH]; intros k t H; [discriminate|].
  destruct d as [|x d']; [inversion H; subst; left; reflexivity|].
  right. apply IH. exact H.
Qed.

Lemma last_item_none d : last_item d = None -> d = [].
Proof.
  induction d as [|x d IH]; [reflexivity|]. destruct d as [|y d']; [discriminate|].
  intros H. specialize (IH H). discriminate.
Qed.

Lemma lower_set_cache c d : lower (set_cache c d) = lower c.
Proof. reflexivity. Qed.

Lemma lower_track_del c kp k : lower (track_del c kp k) = lower c.
Proof. unfold track_del. destruct (del_mark (c_dels c) kp k); reflexivity. Qed.

Lemma lower_fold_del kp : forall ks c, lower (fold_left (fun c' k => track_del c' kp k) ks c) = lower c.
Proof.
  induction ks as [|k ks IH]; intros c; [reflexivity|]. cbn [fold_left]. rewrite IH. apply lower_track_del.
Qed.

Lemma lower_fold_set kp : forall (kvs : list (string * tree)) c,
  lower (fold_left (fun c' kv => track_set c' kp (fst kv) (snd kv)) kvs c) = lower c.
Proof.
  induction kvs as [|kv kvs IH]; intros c; [reflexivity|]. cbn [fold_left]. rewrite IH. reflexivity.
Qed.

Ltac fin := repeat split; try reflexivity; cbn [fst snd]; rewrite ?lower_set_cache; try apply lower_track_del.

Theorem model_out_is_nd_out S fs c J o : is_node S = true -> good S c J -> op_ok S o = true ->
  guarded_path_op o = true ->
  snd (step fs c o) = fst (nd_step (c_cache c) o (snd (step fs c o))) /\
  snd (nd_step (c_cache c) o (snd (step fs c o))) = events_of c o /\
  lower (fst (step fs c o)) = lower c.
Proof.
  intros HS HG Hok Hg.
  destruct (good_cache_conforms S c J HS HG) as [Wc _].
  destruct o; simpl in Hok, Hg; try discriminate; unfold step, step_with, events_of; cbn [nd_step];
    change (walk fl (c_cache c) kp) with (nav fl (c_cache c) kp);
    (destruct (nav fl (c_cache c) kp) as [d0|e] eqn:Hn; [|repeat split; reflexivity]).
  - (* Get *)
    destruct (get k d0); repeat split; reflexivity.
  - (* SetV *)
    destruct v as [x|vk]; [|discriminate].
    rewrite excise_not_blocked by (eapply nav_clear_above; eassumption).
    destruct (step_write S c J fl kp k x ONone HS HG Hok d0 Hn) as [d [Er _]].
    unfold merged. rewrite Er. fin.
  - (* Del *)
    unfold has. destruct (get k d0) eqn:G; [|repeat split; reflexivity].
    rewrite del_not_blocked by (eapply nav_clear_above; eassumption).
    destruct (step_delete S c J fl kp k ONone HS HG d0 Hn) as [d [Er _]].
    unfold merged. rewrite Er. fin.
  - (* Pop *)
    unfold has. destruct (get k d0) eqn:G.
    + rewrite del_not_blocked by (eapply nav_clear_above; eassumption).
      destruct (step_delete S c J fl kp k (OVal t) HS HG d0 Hn) as [d [Er _]].
      unfold merged. rewrite Er. fin.
    + destruct dflt; repeat split; reflexivity.
  - (* PopItem *)
    destruct (last_item d0) as [[k t]|] eqn:G.
    + rewrite del_not_blocked by (eapply nav_clear_above; eassumption).
      destruct (step_delete S c J fl kp k (OPair k t) HS HG d0 Hn) as [d [Er _]].
      unfold merged. rewrite Er. cbn [fst snd].
      pose proof (nav_wf fl kp _ d0 Wc Hn) as W0.
      pose proof (in_get k t d0 (wf_NoDup d0 W0) (last_item_in d0 k t G)) as Gk.
      destruct d0 as [|x d0']; [discriminate|]. rewrite Gk. fin.
    + apply last_item_none in G. subst d0. repeat split; reflexivity.
  - (* Clear *)
    destruct (keys d0) as [|k0 ks0] eqn:Ek; [repeat split; reflexivity|].
    pose proof (nav_clear_upto S c J fl kp d0 HS HG Hn) as Hcu.
    rewrite del_not_blocked by (apply clear_upto_above; assumption).
    destruct HG as [HL HI HC].
    destruct (fold_clear S kp (k0 :: ks0) c J HL HI Hcu) as [HL' HI'].
    destruct (remerge_good S _ _ ONone HS HL' HI') as [d [Er _]].
    cbn [fold_left] in Er. cbn [fold_left]. unfold merged. rewrite Er. repeat split; try reflexivity.
    cbn [fst]. rewrite lower_set_cache, (lower_fold_del kp ks0 (track_del c kp k0)). apply lower_track_del.
  - (* SetDefault *)
    unfold has. destruct (get k d0) eqn:G; [repeat split; reflexivity|].
    destruct dflt as [[x|vk]|]; try discriminate.
    + rewrite excise_not_blocked by (eapply nav_clear_above; eassumption).
      destruct (step_write S c J fl kp k x (OVal (Leaf x)) HS HG Hok d0 Hn) as [d [Er _]].
      unfold merged. rewrite Er. fin.
    + rewrite excise_not_blocked by (eapply nav_clear_above; eassumption).
      destruct (step_write S c J fl kp k VNone (OVal (Leaf VNone)) HS HG Hok d0 Hn) as [d [Er _]].
      unfold merged. rewrite Er. fin.
  - (* Update *)
    destruct kvs as [|kv kvs']; [repeat split; reflexivity|].
    pose proof (nav_clear_upto S c J fl kp d0 HS HG Hn) as Hcu.
    rewrite excise_not_blocked by (apply clear_upto_above; assumption).
    destruct HG as [HL HI HC].
    destruct (fold_update S kp (kv :: kvs') c J Hok HL HI Hcu) as [HL' HI'].
    destruct (remerge_good S _ _ ONone HS HL' HI') as [d [Er _]].
    cbn [fold_left] in Er. cbn [fold_left]. unfold merged. rewrite Er. repeat split; try reflexivity.
    cbn [fst]. rewrite lower_set_cache, (lower_fold_set kp kvs' (track_set c kp (fst kv) (snd kv))). reflexivity.
  - repeat split; reflexivity.
  - repeat split; reflexivity.
  - repeat split; reflexivity.
  - repeat split; reflexivity.
  - repeat split; reflexivity.
  - destruct (get k d0); repeat split; reflexivity.
  - (* UpdateBoth *)
    unfold do_update. destruct (kvs ++ kw) as [|kv kvs'] eqn:Ek; [repeat split; reflexivity|].
    pose proof (nav_clear_upto S c J fl kp d0 HS HG Hn) as Hcu.
    rewrite excise_not_blocked by (apply clear_upto_above; assumption).
    destruct HG as [HL HI HC].
    destruct (fold_update S kp (kv :: kvs') c J Hok HL HI Hcu) as [HL' HI'].
    destruct (remerge_good S _ _ ONone HS HL' HI') as [d [Er _]].
    rewrite Er. repeat split; try reflexivity.
    cbn [fst]. rewrite lower_set_cache. apply (lower_fold_set kp (kv :: kvs') c).
Qed.

(** * 5. What a good state shows, against the specification's base *)
Lemma good_view_union S c J : is_node S = true -> good S c J ->
  wf (Node (replay (union_of (lower c)) J)) = true /\
  sim (Node (c_cache c)) (Node (replay (union_of (lower c)) J)).
Proof.
  intros HS Hg.
  destruct (good_view S c _ HS Hg) as [X [EX [WX [Hs _]]]].
  pose proof (g_lower _ _ _ Hg) as HL. rewrite Forall_forall in HL.
  assert (Hl : forall l, In l (lower c) -> wf l = true /\ is_node l = true).
  { intros l Hin. destruct (HL l Hin) as [W [N _]]. auto. }
  assert (Hp : forall a b, In a (lower c) -> In b (lower c) -> agree a b).
  { intros a b Ha Hb. eapply conforms_agree; [apply (HL a Ha) | apply (HL b Hb)]. }
  pose proof (union_sim_merge (lower c) X Hl Hp EX) as Hu.
  destruct (union_shape (lower c) (Node []) eq_refl eq_refl) as [Wu [Nu _]]; [| exact Hp |].
  { intros l Hin. destruct (Hl l Hin) as [W N]. split; [assumption|]. split; [assumption|].
    destruct l; [discriminate|]. apply agree_empty_node. }
  fold (union_of (lower c)) in Wu, Nu.
  pose proof (inv_wfJ _ _ _ _ (g_inv _ _ _ Hg)) as WJ.
  destruct (union_of (lower c)) as [v|u] eqn:Eu; [discriminate|].
  split; [apply wf_replay; assumption|].
  eapply sim_trans; [exact Hs|]. apply sim_sym. apply replay_sim; assumption.
Qed.

(** * 6. The levels the specification reads off the load calls, one call more *)
Lemma levels_snoc_defaults fs i loads t e :
  levels9 (supplied_of fs i (loads ++ [LoadDefaults t])) e =
  norm t :: skipn 1 (levels9 (supplied_of fs i loads) e).
Proof.
  unfold supplied_of, has_op. rewrite map_app. cbn [map undefer].
  rewrite !last_of_snoc, !after_last_snoc. cbv beta iota. rewrite !existsb_app.
  cbn [existsb orb]. rewrite !orb_false_r. reflexivity.
Qed.

Lemma levels_snoc_collection fs i loads t e :
  levels9 (supplied_of fs i (loads ++ [LoadCollection t])) e =
  firstn 1 (levels9 (supplied_of fs i loads) e) ++ norm t :: skipn 2 (levels9 (supplied_of fs i loads) e).
Proof.
  unfold supplied_of, has_op. rewrite map_app. cbn [map undefer].
  rewrite !last_of_snoc, !after_last_snoc. cbv beta iota. rewrite !existsb_app.
  cbn [existsb orb]. rewrite !orb_false_r. reflexivity.
Qed.

Lemma levels_snoc_overrides fs i loads t e :
  levels9 (supplied_of fs i (loads ++ [LoadOverrides t])) e =
  firstn 7 (levels9 (supplied_of fs i loads) e) ++ [norm t].
Proof.
  unfold supplied_of, has_op. rewrite map_app. cbn [map undefer].
  rewrite !last_of_snoc, !after_last_snoc. cbv beta iota. rewrite !existsb_app.
  cbn [existsb orb]. rewrite !orb_false_r. reflexivity.
Qed.

Lemma levels_snoc_env fs i loads env e :
  levels9 (supplied_of fs i (loads ++ [LoadShellEnv env])) e = levels9 (supplied_of fs i loads) e.
Proof.
  destruct (supplied_env_snoc fs i loads env) as [Q1 [Q2 _]]. cbv zeta in *.
  unfold levels9. rewrite Q1, Q2. reflexivity.
Qed.

Lemma levels9_env S e e' : levels9 S e' = firstn 5 (levels9 S e) ++ e' :: skipn 6 (levels9 S e).
Proof. reflexivity. Qed.

Lemma norm_id t : is_node t = true -> norm t = t.
Proof. destruct t; [discriminate | reflexivity]. Qed.

(** * 7. Reloads *)
Lemma dict_reload S fs c J o t : is_node S = true -> good S c J -> level_okb S t = true ->
  (o = LoadDefaults t \/ o = LoadCollection t \/ o = LoadOverrides t) ->
  snd (step fs c o) = ONone /\ c_env (fst (step fs c o)) = c_env c /\
  lower (fst (step fs c o)) =
    match o with
    | LoadDefaults _ => t :: skipn 1 (lower c)
    | LoadCollection _ => firstn 1 (lower c) ++ t :: skipn 2 (lower c)
    | _ => firstn 7 (lower c) ++ [t]
    end.
Proof.
  intros HS HG Ht Ho. pose proof (level_okb_ok S t Ht) as Hl.
  destruct Ho as [-> | [-> | ->]]; unfold step, step_with, merged.
  - destruct (step_reload S c J (set_defaults c t) t HS HG Hl) as [d [Er _]]; [auto|].
    rewrite Er. repeat split; reflexivity.
  - destruct (step_reload S c J (set_collection c t) t HS HG Hl) as [d [Er _]]; [auto|].
    rewrite Er. repeat split; reflexivity.
  - destruct (step_reload S c J (set_overrides c t) t HS HG Hl) as [d [Er _]]; [auto|].
    rewrite Er. repeat split; reflexivity.
Qed.

Lemma env_reload S fs c J env : is_node S = true -> good S c J ->
  env_error (snd (step fs c (LoadShellEnv env))) = true \/
  (snd (step fs c (LoadShellEnv env)) = ONone /\
   exists dd, c_env (fst (step fs c (LoadShellEnv env))) = Node dd /\
              lower (fst (step fs c (LoadShellEnv env))) =
              firstn 5 (lower c) ++ Node dd :: skipn 6 (lower c)).
Proof.
  intros HS HG. unfold step, step_with. destruct HG as [HL HI HC].
  assert (HL0 : Forall (level_ok S) (lower (set_env c (Node [])))).
  { assert (Henv : level_ok S (Node [])).
    { split; [reflexivity|]. split; [reflexivity | apply conforms_empty; exact HS]. }
    unfold lower in *. lower_inv HL. destruct c; simpl in *.
    repeat (first [assumption | apply Forall_cons | apply Forall_nil]). }
  assert (HI0 : inv S (c_mods (set_env c (Node []))) (c_dels (set_env c (Node []))) J) by (destruct c; exact HI).
  destruct (remerge_good S (set_env c (Node [])) J ONone HS HL0 HI0) as [d1 [Er1 Hg1]]. rewrite Er1.
  destruct (good_cache_conforms S _ J HS Hg1) as [Wc1 Cc1].
  destruct (load (Node (c_cache (set_cache (set_env c (Node [])) d1))) (c_env_prefix (set_cache (set_env c (Node [])) d1)) env) as [dd|e] eqn:El.
  - destruct (load_level_ok S _ _ _ dd HS Wc1 Cc1 El) as [Wdd Cdd].
    destruct Hg1 as [HLa HIa HCa].
    destruct (remerge_good S (set_env (set_cache (set_env c (Node [])) d1) (Node dd)) J ONone HS) as [d2 [Er2 Hg2]].
    + unfold lower in *. lower_inv HLa. destruct c; simpl in *.
      repeat (constructor; try assumption).
    + destruct c; exact HIa.
    + right. unfold merged. rewrite Er2. cbn [fst snd]. split; [reflexivity|]. exists dd. split; reflexivity.
  - left. cbn [fst snd]. destruct (load_err_kind _ _ _ _ Wc1 El) as [ -> | [ -> | -> ] ]; reflexivity.
Qed.

(** * 8. Journal entries on two dicts that show the same *)
Theorem nd_events_sim d1 d2 o obs :
  wf (Node d1) = true -> wf (Node d2) = true -> sim (Node d1) (Node d2) ->
  guarded_path_op o = true -> (forall fl kp, o <> Clear fl kp) ->
  snd (nd_step d2 o obs) = snd (nd_step d1 o obs).
Proof.
  intros W1 W2 H Hg Hnc.
  destruct o; try discriminate; try (exfalso; eapply Hnc; reflexivity); cbn [nd_step];
    pose proof (walk_sim fl kp d1 d2 W1 W2 H) as Hn;
    destruct (walk fl d1 kp) as [a|e1], (walk fl d2 kp) as [b|e2]; try contradiction;
    try reflexivity; destruct Hn as [Wa [Wb Hs]]; cbn [snd]; try reflexivity.
  - pose proof (get_equiv k a b Wa Wb Hs) as G.
    destruct (get k a), (get k b); try contradiction; reflexivity.
  - rewrite (sim_has k a b Hs). destruct (has k b); reflexivity.
  - pose proof (get_equiv k a b Wa Wb Hs) as G.
    destruct (get k a), (get k b); try contradiction; [reflexivity|]. destruct dflt; reflexivity.
  - pose proof (sim_nil a b Wa Wb Hs) as Hnil.
    destruct a as [|x a'], b as [|y b']; try reflexivity;
      try (exfalso; destruct Hnil as [H1 H2]; (discriminate (H1 eq_refl) || discriminate (H2 eq_refl))).
    destruct obs; try reflexivity.
    pose proof (get_equiv k (x :: a') (y :: b') Wa Wb Hs) as G.
    destruct (get k (x :: a')), (get k (y :: b')); try contradiction; reflexivity.
  - pose proof (get_equiv k a b Wa Wb Hs) as G.
    destruct (get k a), (get k b); try contradiction; reflexivity.
  - pose proof (get_equiv k a b Wa Wb Hs) as G.
    destruct (get k a), (get k b); try contradiction; reflexivity.
Qed.

Lemma sim_keys_iff a b : sim (Node a) (Node b) -> forall k, In k (keys a) <-> In k (keys b).
Proof. intros H k. split; apply sim_keys; [exact H | apply sim_sym; exact H]. Qed.

(** * 9. The judge's reference state vs. the model's state *)
Record rel (fs : fsys) (i : init_args) (S : tree) (c : cfg) (r : rstate) : Prop := mkRel {
  rl_good : good S c (r_journal r);
  rl_levels : lower c = levels_now fs i (r_loads r) (r_env r);
  rl_st : r_st r = replay (union_of (lower c)) (r_journal r);
  rl_env : r_env r = c_env c;
  rl_h : r_handles r = [];
  rl_d : r_dead r = [];
  rl_np : pending (r_loads r) = false
}.

Lemma lower_env c : nth 5 (lower c) (Node []) = c_env c.
Proof. reflexivity. Qed.

Lemma good_env_wf S c J : good S c J -> wf (c_env c) = true.
Proof.
  intros [HL _ _]. rewrite Forall_forall in HL.
  assert (Hin : In (c_env c) (lower c)) by (unfold lower; simpl; auto 10).
  apply (HL _ Hin).
Qed.

Lemma fold_replay base J evs :
  fold_left apply_event evs (replay base J) = replay base (J ++ evs).
Proof. unfold replay. rewrite fold_left_app. reflexivity. Qed.

Lemma path_step_ok S fs i c r o : is_node S = true -> rel fs i S c r ->
  op_ok S o = true -> op_wf o = true -> guarded_path_op o = true ->
  exists r', judge_path_op r o (snd (step fs c o)) (Node (c_cache (fst (step fs c o))))
                           (c_env (fst (step fs c o))) = (None, r') /\
             rel fs i S (fst (step fs c o)) r'.
Proof.
  intros HS [Hgood Hlev Hst Henv Hh Hd Hnp] Hok Hwf Hg.
  destruct (good_view_union S c _ HS Hgood) as [Wst Hsim]. rewrite <- Hst in Wst, Hsim.
  destruct (model_out_is_nd_out S fs c _ o HS Hgood Hok Hg) as [M1 [E1 L1]].
  destruct (good_cache_conforms S c _ HS Hgood) as [Wc _].
  destruct (step_good S fs c _ o HS Hgood Hok) as [Hgood' _].
  set (c' := fst (step fs c o)) in *.
  (* the journal entries the specification logs keep the invariant *)
  assert (Hgood2 : good S c' (r_journal r ++ snd (nd_step (r_st r) o (snd (step fs c o))))).
  { destruct (guarded_path_op o) eqn:Eg; [|discriminate].
    assert (Hcl : (exists fl kp, o = Clear fl kp) \/ (forall fl kp, o <> Clear fl kp)).
    { destruct o; try (right; intros; discriminate). left. eauto. }
    destruct Hcl as [[fl [kp ->]] | Hnc].
    - unfold events_of in Hgood'. cbn [nd_step].
      pose proof (walk_sim fl kp (c_cache c) (r_st r) Wc Wst Hsim) as Hn.
      change (walk fl (c_cache c) kp) with (nav fl (c_cache c) kp) in Hn.
      destruct (nav fl (c_cache c) kp) as [a|e1], (walk fl (r_st r) kp) as [b|e2]; try contradiction;
        [|exact Hgood'].
      destruct Hn as [Wa [Wb Hs]]. cbn [snd].
      apply (good_journal_sim S c' _ _ Hgood').
      + apply Forall_app. split; [apply (inv_wfJ _ _ _ _ (g_inv _ _ _ Hgood)) | apply event_wf_dels].
      + intros X WX. apply clear_journal_sim; [exact WX | apply (inv_wfJ _ _ _ _ (g_inv _ _ _ Hgood)) |].
        apply sim_keys_iff. exact Hs.
    - rewrite (nd_events_sim (c_cache c) (r_st r) o _ Wc Wst Hsim Eg Hnc), E1. exact Hgood'. }
  unfold judge_path_op.
  destruct (nd_step (r_st r) o (snd (step fs c o))) as [want evs] eqn:End.
  assert (Ew : want = fst (nd_step (r_st r) o (snd (step fs c o)))) by (rewrite End; reflexivity).
  assert (Ee : evs = snd (nd_step (r_st r) o (snd (step fs c o)))) by (rewrite End; reflexivity).
  cbn [snd] in Hgood2.
  (* A: the outcome *)
  assert (A : out_match want (snd (step fs c o)) = true).
  { pose proof (nd_out_sim (c_cache c) (r_st r) o (snd (step fs c o)) Wc Wst Hsim Hg Hwf) as A.
    rewrite <- M1 in A. rewrite Ew. exact A. }
  (* B: the view *)
  assert (Est : fold_left apply_event evs (r_st r) = replay (union_of (lower c')) (r_journal r ++ evs)).
  { rewrite Hst, fold_replay, L1. reflexivity. }
  assert (B : tree_equiv (Node (fold_left apply_event evs (r_st r))) (Node (c_cache c')) = true).
  { destruct (good_view_union S c' _ HS Hgood2) as [W2 S2]. rewrite Est.
    apply sim_tree_equiv; [exact W2 | apply (good_cache_conforms S c' _ HS Hgood2) | apply sim_sym; exact S2]. }
  (* C: the environment level *)
  assert (Ec : c_env c' = c_env c).
  { rewrite <- !lower_env, L1. reflexivity. }
  assert (C : tree_equiv (c_env c') (r_env r) = true).
  { rewrite Ec, Henv. apply tree_equiv_refl. apply (good_env_wf S c _ Hgood). }
  rewrite A, B, C. cbn [andb]. eexists. split; [reflexivity|].
  constructor; cbn [r_journal r_loads r_env r_st r_handles r_dead].
  - exact Hgood2.
  - rewrite L1. exact Hlev.
  - exact Est.
  - rewrite Ec. exact Henv.
  - rewrite Hh. reflexivity.
  - rewrite Hh, Hd. reflexivity.
  - exact Hnp.
Qed.

Definition is_guarded_reload (o : op) : bool :=
  match o with
  | LoadDefaults _ | LoadOverrides _ | LoadCollection _ | LoadShellEnv _ => true
  | _ => false
  end.

Lemma op_ok_kinds S o : op_ok S o = true -> guarded_path_op o = true \/ is_guarded_reload o = true.
Proof. destruct o; simpl; try discriminate; auto. Qed.

Lemma level_okb_node S t : level_okb S t = true -> is_node t = true.
Proof. unfold level_okb. intros H. apply andb_true_iff in H as [H _]. apply andb_true_iff in H as [_ H]. exact H. Qed.

Lemma reload_step_ok S fs i c r o : is_node S = true -> rel fs i S c r ->
  op_ok S o = true -> is_guarded_reload o = true ->
  let x := (Plain o, snd (step fs c o), Node (c_cache (fst (step fs c o))), c_env (fst (step fs c o))) in
  (exists r', judge_step fs i r x = (Some true, r')) \/
  (exists r', judge_step fs i r x = (None, r') /\ rel fs i S (fst (step fs c o)) r').
Proof.
  intros HS [Hgood Hlev Hst Henv Hh Hd Hnp] Hok Hr. cbv zeta.
  destruct (step_good S fs c _ o HS Hgood Hok) as [Hgood' _].
  assert (Eev : events_of c o = []) by (destruct o; try discriminate; reflexivity).
  rewrite Eev, app_nil_r in Hgood'.
  set (c' := fst (step fs c o)) in *. set (out := snd (step fs c o)) in *.
  assert (Hfacts : env_error out = true \/
                   (out = ONone /\ lower c' = levels_now fs i (r_loads r ++ [o]) (c_env c') /\
                    (match o with LoadShellEnv _ => True | _ => c_env c' = c_env c end))).
  { unfold levels_now in *. destruct o; try discriminate; simpl in Hok.
    - destruct (dict_reload S fs c _ (LoadDefaults t) t HS Hgood Hok) as [E1 [E2 E3]]; [auto|].
      right. fold c' in E2, E3. fold out in E1. split; [exact E1|]. split; [|exact E2].
      rewrite E3, E2, levels_snoc_defaults, <- Henv, <- Hlev, (norm_id t (level_okb_node S t Hok)). reflexivity.
    - destruct (dict_reload S fs c _ (LoadOverrides t) t HS Hgood Hok) as [E1 [E2 E3]]; [auto|].
      right. fold c' in E2, E3. fold out in E1. split; [exact E1|]. split; [|exact E2].
      rewrite E3, E2, levels_snoc_overrides, <- Henv, <- Hlev, (norm_id t (level_okb_node S t Hok)). reflexivity.
    - destruct (dict_reload S fs c _ (LoadCollection t) t HS Hgood Hok) as [E1 [E2 E3]]; [auto|].
      right. fold c' in E2, E3. fold out in E1. split; [exact E1|]. split; [|exact E2].
      rewrite E3, E2, levels_snoc_collection, <- Henv, <- Hlev, (norm_id t (level_okb_node S t Hok)). reflexivity.
    - destruct (env_reload S fs c _ env HS Hgood) as [E | [E1 [dd [E2 E3]]]]; [left; exact E|].
      right. fold c' in E2, E3. fold out in E1. split; [exact E1|]. split; [|exact I].
      rewrite E3, E2, levels_snoc_env, (levels9_env _ (r_env r)), <- Hlev. reflexivity. }
  unfold judge_step.
  assert (Ep : is_path_op o = false) by (destruct o; try discriminate; reflexivity).
  assert (Erl : merges o = true) by (destruct o; try discriminate; reflexivity).
  assert (Edf : defers o = false) by (destruct o; try discriminate; reflexivity).
  rewrite Edf, Hnp, Ep, Erl. cbn [andb].
  destruct Hfacts as [Ee | [Eo [El Eenv]]]; [rewrite Ee; left; eauto|].
  rewrite Eo. cbn [env_error out_match andb].
  destruct (scope_ok fs i (r_loads r ++ [o]) (c_env c')); cbn [negb]; [|left; eauto].
  right. rewrite <- El.
  destruct (good_view_union S c' _ HS Hgood') as [W2 S2].
  assert (B : tree_equiv (Node (replay (union_of (lower c')) (r_journal r))) (Node (c_cache c')) = true).
  { apply sim_tree_equiv; [exact W2 | apply (good_cache_conforms S c' _ HS Hgood') | apply sim_sym; exact S2]. }
  rewrite B. cbn [andb].
  assert (C : match o with LoadShellEnv _ => true | _ => tree_equiv (c_env c') (r_env r) end = true).
  { destruct o; try discriminate; try reflexivity;
      rewrite Eenv, Henv; apply tree_equiv_refl; apply (good_env_wf S c _ Hgood). }
  rewrite C. eexists. split; [reflexivity|].
  constructor; cbn [r_journal r_loads r_env r_st r_handles r_dead]; auto.
  unfold pending. rewrite last_last. exact Edf.
Qed.

(** * 10. Whole histories *)
Fixpoint mtrace (fs : fsys) (c : cfg) (ops : list op) : list obs_step :=
  match ops with
  | [] => []
  | o :: rest =>
      let c' := fst (step fs c o) in
      let out := snd (step fs c o) in
      (Plain o, out, Node (c_cache c'), c_env c') ::
      (if abnormal out then [] else mtrace fs c' rest)
  end.

Definition hist_ok (S : tree) (o : op) : bool := op_ok S o && op_wf o.

Theorem judge_ok S fs i : is_node S = true -> forall ops c r,
  rel fs i S c r -> forallb (hist_ok S) ops = true -> judge fs i r (mtrace fs c ops) = true.
Proof.
  intros HS. induction ops as [|o rest IH]; intros c r Hrel Hok; [reflexivity|].
  cbn [forallb] in Hok. apply andb_true_iff in Hok as [Ho Hrest]. unfold hist_ok in Ho.
  apply andb_true_iff in Ho as [Hop Hwf].
  cbn [mtrace judge].
  destruct (op_ok_kinds S o Hop) as [Hg | Hr].
  - destruct (path_step_ok S fs i c r o HS Hrel Hop Hwf Hg) as [r' [Ej Hrel']].
    assert (Ep : is_path_op o = true) by (destruct o; try discriminate; reflexivity).
    assert (Edf : defers o = false) by (destruct o; try discriminate; reflexivity).
    unfold judge_step. rewrite Edf, (rl_np _ _ _ _ _ Hrel), Ep. cbn [andb]. rewrite Ej.
    destruct (abnormal (snd (step fs c o))); [reflexivity | apply IH; assumption].
  - destruct (reload_step_ok S fs i c r o HS Hrel Hop Hr) as [[r' Ej] | [r' [Ej Hrel']]]; cbv zeta in Ej;
      rewrite Ej; [reflexivity|].
    destruct (abnormal (snd (step fs c o))); [reflexivity | apply IH; assumption].
Qed.

(** * 11. From the constructor on *)
Lemma map_norm_nodes l : Forall (fun t => is_node t = true) l -> map norm l = l.
Proof.
  induction 1 as [|t l Ht _ IH]; [reflexivity|]. cbn [map]. rewrite IH, (norm_id t Ht). reflexivity.
Qed.

Lemma start_rel S fs i c0 : is_node S = true -> start fs i = Ok c0 -> good0 S c0 = true ->
  rel fs i S c0 (mkR (replay (union_of (levels_now fs i [] (Node []))) []) [] [] (Node []) [] []).
Proof.
  intros HS Hs H0. pose proof (good0_good S c0 HS H0) as Hg.
  pose proof (reach_state fs i c0 [] c0 Hs eq_refl eq_refl) as Hat.
  destruct (at_state_levels fs i [] c0 Hat) as [Hml [_ [_ [_ [He _]]]]]. cbv zeta in Hml.
  assert (Hlev : lower c0 = levels_now fs i [] (Node [])).
  { unfold levels_now. rewrite <- model_levels_eq, levels_of_split, map_app in Hml. cbn [map] in Hml.
    apply app_inj_tail in Hml as [Hml _]. rewrite <- Hml. symmetry. apply map_norm_nodes.
    pose proof (g_lower _ _ _ Hg) as HL. eapply Forall_impl; [|exact HL]. intros t [_ [N _]]. exact N. }
  constructor; cbn [r_journal r_loads r_env r_st r_handles r_dead]; auto.
  rewrite Hlev. reflexivity.
Qed.

Theorem model_trace_meets_spec S fs i c0 ops :
  is_node S = true -> start fs i = Ok c0 -> good0 S c0 = true -> forallb (hist_ok S) ops = true ->
  C06Spec.spec_ok fs i (Node (c_cache c0)) (mtrace fs c0 ops) = true.
Proof.
  intros HS Hs H0 Hok. unfold C06Spec.spec_ok.
  destruct (scope_ok fs i [] (Node [])); [|reflexivity]. cbn [negb]. cbv zeta.
  pose proof (start_rel S fs i c0 HS Hs H0) as Hrel.
  apply andb_true_iff. split.
  - pose proof (rl_good _ _ _ _ _ Hrel) as Hg. cbn [r_journal] in Hg.
    destruct (good_view_union S c0 [] HS Hg) as [W S0].
    pose proof (rl_levels _ _ _ _ _ Hrel) as Hlev. cbn [r_loads r_env] in Hlev. rewrite <- Hlev.
    apply sim_tree_equiv; [exact W | apply (good_cache_conforms S c0 _ HS Hg) | apply sim_sym; exact S0].
  - apply (judge_ok S fs i HS ops c0 _ Hrel Hok).
Qed.

(** The trace of the session layer, for histories without held proxies. *)
Lemma sstep_plain fs s o :
  s_cfg (fst (sstep fs s (Plain o))) = fst (step fs (s_cfg s) o) /\
  snd (sstep fs s (Plain o)) = snd (step fs (s_cfg s) o).
Proof.
  unfold sstep, step. destruct (step_with (c_cache (s_cfg s)) fs (s_cfg s) o) as [[c' out] eff].
  destruct eff; split; reflexivity.
Qed.
