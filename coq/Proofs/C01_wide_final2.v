(** C01, wide instance with clusters: item-level facts for [Cluster l] and the
    round-trip theorem for single occurrences + clusters. *)
From InvokeVerif Require Import Model.ParserModel Corr.C01Corr Proofs.ListFacts Proofs.C07_fuel
     Proofs.C01_steps Proofs.C01_tokens Proofs.C01_lookup Proofs.C01_occ Proofs.C01_roundtrip
     Proofs.C01_final Proofs.C01_generic2
     Proofs.C01_form_glued Proofs.C01_form_counter Proofs.C01_form_cluster
     Proofs.C01_occ_nm Proofs.C01_inv Proofs.C01_wide Proofs.C01_wide_vals Proofs.C01_wide_final
     Proofs.C01_wide_cluster.
From Coq Require Import Lia.

Lemma clean_short_inv ch :
  clean_flag (short_of ch) = true -> Ascii.eqb ch "-" = false /\ Ascii.eqb ch "=" = false.
Proof.
  intros C. destruct (short_clean_shape (short_of ch) C eq_refl) as [c [E Hc]].
  injection E as <-. split; [exact Hc|].
  unfold clean_flag in C. rewrite !andb_true_iff, !negb_true_iff in C. destruct C as [[[_ E] _] _].
  cbn [short_of contains_char] in E. apply orb_false_iff in E. destruct E as [_ E].
  apply orb_false_iff in E. tauto.
Qed.

Section ClusterItems.
Variable cs : list ctxspec.
(** any parser over [cs], any state [i0] of the initial context *)
Variable p : parser.
Hypothesis Pcs : p_ctxs p = cs.
Variable i0 : rctx.

Definition run_cluster (args : list rarg) (l : list occ) : list rarg := fold_left run_one l args.
Definition given_cluster (given : list nat) (l : list occ) : list nat := fold_left one_given l given.

Theorem cluster_steps c given l done cur fl got :
  guard_w c = true -> cluster_ok_w cs c given l = true ->
  Inv_w c given (rc_args cur) -> inert (MS i0 done cur fl got) ->
  exists fl' got',
    steps p (MS i0 done cur fl got) (spell_item c (Cluster l))
            (MS i0 done (with_args cur (run_cluster (rc_args cur) l)) fl' got') /\
    inert (MS i0 done (with_args cur (run_cluster (rc_args cur) l)) fl' got') /\
    Inv_w c (given_cluster given l) (run_cluster (rc_args cur) l).
Proof.
  intros G Ck Iw I. unfold cluster_ok_w in Ck. apply andb_true_iff in Ck. destruct Ck as [Len Mk].
  apply Nat.leb_le in Len.
  destruct (members_steps cs p Pcs i0 c l given done cur fl got G Mk Iw I) as [fl' [got' [S [I' Iw']]]].
  exists fl', got'. split; [|split; [exact I' | exact Iw']].
  rewrite (members_tokens cs c l given Mk) in S.
  pose proof (members_letters cs c l given Mk) as Le.
  (* the first two members *)
  destruct l as [|o1 [|o2 l2]]; try (cbn in Len; lia).
  pose proof Mk as Mk'. cbn [members_ok] in Mk'. rewrite !andb_true_iff in Mk'.
  destruct Mk' as [[M1 NotNext] [[M2 _] _]]. apply negb_true_iff in NotNext.
  destruct (member_tokens cs c given o1 M1) as [_ [_ Ne1]].
  destruct (member_tokens cs c (one_given given o1) o2 M2) as [_ [_ Ne2]].
  (* letters = ch :: tl with tl non-empty, ch the letter of o1 *)
  assert (Hch : exists ch tl, flat_map (member_chars c) (o1 :: o2 :: l2) = ch :: tl /\ tl <> [] /\
                              member_letter c o1 = Some ch).
  { cbn [flat_map]. unfold member_chars in Ne1. unfold member_chars at 1.
    destruct (member_letter c o1) as [ch|] eqn:Ml; [|congruence].
    assert (Hd : exists m1, (match o_form o1 with FStack => repeat ch (count_of (o_val o1)) | _ => [ch] end)
                            = ch :: m1).
    { destruct (o_form o1); try (exists []; reflexivity).
      destruct (count_of (o_val o1)) as [|k]; [now elim Ne1 | exists (repeat ch k); reflexivity]. }
    destruct Hd as [m1 Hd]. rewrite Hd. exists ch, (m1 ++ member_chars c o2 ++ flat_map (member_chars c) l2).
    split; [reflexivity|]. split; [|reflexivity].
    intros C. apply app_eq_nil in C. destruct C as [_ C]. apply app_eq_nil in C. tauto. }
  destruct Hch as [ch [tl [Ech [Htl Ml]]]]. rewrite Ech in S, Le.
  destruct (las_cons _ _ _ Le) as [rest [ES Lr]].
  cbn [spell_item]. rewrite ES. cbn [append].
  assert (Cch : clean_flag (short_of ch) = true).
  { apply (members_clean cs c _ given ch G Mk). rewrite Ech. now left. }
  destruct (clean_short_inv ch Cch) as [Hd He].
  destruct (member_letter_flag c o1 ch Ml) as [a [Na Fl]].
  destruct Iw as [St [Co Gt]]. destruct (guard_w_parts c G) as [Gn _].
  destruct (guard_parts_nm c Gn) as [ND [Nn [Cl Ld]]].
  pose proof (sn_shape _ _ _ St) as Sh.
  destruct (nth_error_map_inv r_spec (rc_args cur) (o_arg o1) a) as [r [Nr Sr]]; [rewrite Sh; exact Na|].
  (* o1 is a boolean or a counter: its flag takes no value, and it is found *)
  unfold member_ok in M1. rewrite !andb_true_iff in M1. destruct M1 as [[Ok1 _] Hf1].
  assert (Facts : o_name o1 < List.length (a_names a) /\ takes_value a = false).
  { apply orb_true_iff in Ok1. destruct Ok1 as [Ok1|Ok1].
    - unfold occ_simple in Ok1. rewrite Na in Ok1. apply andb_true_iff in Ok1. destruct Ok1 as [Lk Ok1].
      split; [now apply Nat.ltb_lt|].
      destruct (o_form o1); try discriminate; destruct (o_val o1) as [b| | |]; try discriminate.
      destruct b; [|discriminate]. rewrite !andb_true_iff in Ok1. destruct Ok1 as [Kb _].
      unfold takes_value. destruct (a_kind a); try discriminate. reflexivity.
    - unfold occ_counter in Ok1. rewrite Na in Ok1. rewrite !andb_true_iff in Ok1.
      destruct Ok1 as [[[Lk Hinc] _] _]. split; [now apply Nat.ltb_lt | now apply takes_value_counter]. }
  destruct Facts as [Lk Tv].
  assert (Ftok : find_flag (rc_args cur) (short_of ch) = Some (o_arg o1)).
  { rewrite find_flag_args, Sh, <- Fl. eapply find_flag_spec_unique; eauto. now apply flag_of_in. }
  eapply (cluster_unfold p i0 done cur fl got ch rest (o_arg o1) r); eauto.
  - apply contains_of_las. rewrite Lr. apply forallb_forall. intros x Hx.
    assert (Cx : clean_flag (short_of x) = true).
    { apply (members_clean cs c _ given x G Mk). rewrite Ech. now right. }
    destruct (clean_short_inv x Cx) as [_ Hx']. now rewrite Hx'.
  - intros C. subst rest. cbn in Lr. congruence.
  - now rewrite Sr.
  - rewrite dash_each_las, Lr. exact S.
Qed.

Theorem cluster_vals c given l args os :
  guard_w c = true -> cluster_ok_w cs c given l = true -> Inv_w c given args ->
  vals_ok os args -> vals_ok (os ++ l) (run_cluster args l).
Proof.
  intros G Ck Iw V. unfold cluster_ok_w in Ck. apply andb_true_iff in Ck. destruct Ck as [_ Mk].
  now apply (members_vals cs p Pcs i0 c l given).
Qed.

Lemma tails_clean c : forall l given,
  members_ok cs c given l = true -> Forall (fun t => t <> "--") (flat_map cluster_tail l).
Proof.
  induction l as [|o l IH]; intros given H; [constructor|].
  cbn [members_ok] in H. rewrite !andb_true_iff in H. destruct H as [[Mo _] Hl].
  cbn [flat_map]. apply Forall_app. split; [|now apply (IH (one_given given o))].
  unfold cluster_tail. destruct (o_form o) eqn:Fo; try constructor; [|constructor].
  unfold member_ok in Mo. rewrite !andb_true_iff in Mo. destruct Mo as [[Ok _] Hf].
  rewrite Fo in Hf. destruct (o_val o) as [b|n|s|] eqn:Vo; try discriminate.
  apply orb_true_iff in Ok. destruct Ok as [Ok|Ok].
  - unfold occ_simple in Ok. destruct (nth_error (cx_args c) (o_arg o)); [|discriminate].
    rewrite Fo, Vo in Ok. rewrite !andb_true_iff in Ok. destruct Ok as [_ [[[[_ _] Pl] _] _]].
    now apply plain_not_ddash.
  - unfold occ_counter in Ok. destruct (nth_error (cx_args c) (o_arg o)); [|discriminate].
    rewrite Fo in Ok. rewrite andb_false_r in Ok. discriminate.
Qed.

Theorem cluster_clean c given l :
  guard_w c = true -> cluster_ok_w cs c given l = true ->
  Forall (fun t => t <> "--") (spell_item c (Cluster l)).
Proof.
  intros G Ck. pose proof Ck as Ck'. unfold cluster_ok_w in Ck'. apply andb_true_iff in Ck'.
  destruct Ck' as [Len Mk]. apply Nat.leb_le in Len.
  cbn [spell_item]. constructor; [|now apply (tails_clean c l given)].
  pose proof (members_letters cs c l given Mk) as Le.
  destruct l as [|o1 l1]; [cbn in Len; lia|].
  pose proof Mk as Mk'. cbn [members_ok] in Mk'. rewrite !andb_true_iff in Mk'. destruct Mk' as [[M1 _] _].
  destruct (member_tokens cs c given o1 M1) as [_ [_ Ne1]].
  cbn [flat_map] in Le. destruct (member_chars c o1) as [|ch m1] eqn:E1; [congruence|].
  cbn [app] in Le. destruct (las_cons _ _ _ Le) as [rest [ES _]]. rewrite ES. cbn [append].
  assert (Cch : clean_flag (short_of ch) = true).
  { apply (members_clean cs c (o1 :: l1) given ch G Mk). cbn [flat_map]. rewrite E1. now left. }
  destruct (clean_short_inv ch Cch) as [Hd _]. intros C. injection C as C _. subst ch. discriminate Hd.
Qed.

End ClusterItems.

Section WideFinal2.
Variable cs : list ctxspec.
Variable ic : ctxspec.
Let p := mkP cs (Some ic) false.
Let i0 := init_ctx ic.

(** ** items: single occurrences and clusters *)
Definition item_ok_x (c : ctxspec) (given : list nat) (it : item) : bool :=
  match it with One o => occ_wide cs c given o | Cluster l => cluster_ok_w cs c given l end.

Definition item_given_x (given : list nat) (it : item) : list nat :=
  match it with One o => one_given given o | Cluster l => given_cluster given l end.

Definition run_item_x (args : list rarg) (it : item) : list rarg :=
  match it with One o => run_one args o | Cluster l => run_cluster args l end.

Definition guard_wide_x (inv : invocation) : bool :=
  guard_g cs ic guard_w end_ok_w item_ok_x item_given_x inv.

Theorem spell_roundtrip_wide_x inv :
  parser_ok cs = true -> guard_wide_x inv = true ->
  exists r,
    parser_parse cs (Some ic) false (spell cs inv) = Ok r /\
    hd_error (pr_ctxs r) = Some (init_ctx ic) /\
    map obs_of_ctx (tl (pr_ctxs r)) = expected cs inv /\
    pr_unparsed r = [] /\ pr_remainder r = "".
Proof.
  intros Pok Gw.
  apply (spell_roundtrip_generic2 cs ic guard_w Inv_w end_ok_w item_ok_x item_given_x run_item_x);
    try assumption.
  - exact Inv_w_init.
  - intros c given args [St _]. exact (sn_shape _ _ _ St).
  - intros c G. destruct (guard_w_parts c G) as [Gn _]. unfold ctx_guard_nm in Gn.
    rewrite !andb_true_iff in Gn. tauto.
  - intros c a G Ha. destruct (guard_w_parts c G) as [Gn _].
    destruct (guard_parts_nm c Gn) as [_ [_ [_ Ld]]]. now apply Ld.
  - intros c given args G Iw E. unfold end_ok_w in E. apply opt_nat_eqb_eq in E.
    now apply (no_missing_of_end c given args).
  - intros c given [o|l] done cur fl got G Os Iw I.
    + exact (one_steps cs p eq_refl i0 c given o done cur fl got G Os Iw I).
    + exact (cluster_steps cs p eq_refl i0 c given l done cur fl got G Os Iw I).
  - intros c given [o|l] args os G Os Iw V.
    + exact (one_vals cs c given o args os G Os Iw V).
    + exact (cluster_vals cs p eq_refl i0 c given l args os G Os Iw V).
  - intros c given [o|l] G Os.
    + exact (one_clean cs c given o G Os).
    + exact (cluster_clean cs c given l G Os).
Qed.
End WideFinal2.

(** non-vacuity: "-vvc" (stacked counter + boolean... here -vvf), a cluster
    ending in a value flag "-fe a", chained after a positional *)
Definition ex_inv_x : invocation :=
  [mkCall 0 "build" [One (mkOcc 0 0 FPos (VS "thing"));
                     Cluster [mkOcc 1 1 FStack (VN 2); mkOcc 5 1 FNext (VS "8")]];
   mkCall 1 "test" [Cluster [mkOcc 1 1 FBare (VB true); mkOcc 0 1 FNext (VS "a")];
                    One (mkOcc 0 0 FEq (VS "b"))]].

Example wide_x_example :
  guard_wide_x [ex_build; ex_test] core_ctx ex_inv_x = true /\
  spell [ex_build; ex_test] ex_inv_x =
    ["build"; "thing"; "-vvj"; "8"; "test"; "-fe"; "a"; "--exclude=b"] /\
  expected [ex_build; ex_test] ex_inv_x =
    [(Some "build", [("name", AStr "thing"); ("verbose", AInt 2); ("out_dir", AStr "x");
                     ("clean", ABool true); ("log", ANone); ("jobs", AInt 8)]);
     (Some "test", [("exclude", AList ["a"; "b"]); ("fast", ABool true)])].
Proof. repeat split; vm_compute; reflexivity. Qed.
