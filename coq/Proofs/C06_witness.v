(** C06: the executable specification evaluated on the faithful model's own
    traces -- refutation witnesses (known findings) and a bounded sweep. *)
From InvokeVerif Require Import Common.Tree Common.StrUtil Model.MergeModel Model.ConfigModel
     Spec.C03Spec Spec.C06Spec Corr.C06Corr.

(** The model's trace of a history, in the shape the specification judges. *)
Definition model_trace (fs : fsys) (i : init_args) (ops : list sop) : option (tree * list obs_step) :=
  match start fs i with
  | Err _ => None
  | Ok c0 =>
      let tr := snd (srun fs (sstart c0) ops) in
      Some (Node (c_cache c0),
            zip_trace ops (map (fun x => (fst (fst x), Node (snd (fst x)), snd x)) tr))
  end.

Definition model_meets_spec (fs : fsys) (i : init_args) (ops : list sop) : bool :=
  match model_trace fs i ops with
  | Some (v0, tr) => C06Spec.spec_ok fs i v0 tr
  | None => true
  end.

Definition init_of (d : tree) : init_args := mkInit d (Node []) None None false.

(** F-C06a *)
Lemma refuted_dict_write :
  model_meets_spec [] (init_of (Node [("a", Node [("x", Leaf (VInt 0)); ("y", Leaf (VInt 0))])]))
    [Plain (SetV Item [] "a" (Node [("x", Leaf (VInt 1))]))] = false.
Proof. vm_compute. reflexivity. Qed.

(** F-C06e *)
Lemma refuted_stale_proxy :
  model_meets_spec [] (init_of (Node [("a", Node [("x", Leaf (VInt 1))])]))
    [Hold 0 Item ["a"]; Plain (SetV Item ["a"] "y" (Leaf (VInt 2)));
     Plain (SetV Item ["a"] "z" (Leaf (VInt 3))); Via 0 (Get Item [] "z")] = false.
Proof. vm_compute. reflexivity. Qed.

(** F-C06b *)
Lemma refuted_proxy_across_deletion :
  model_meets_spec [] (init_of (Node [("a", Node [("b", Node [("x", Leaf (VInt 1))])])]))
    [Hold 0 Item ["a"]; Plain (SetV Item [] "k" (Leaf (VInt 1))); Plain (Del Item ["a"] "b");
     Via 0 (SetV Item ["b"] "x" (Leaf (VInt 2)))] = false /\
  snd (sstep [] (fst (srun [] (sstart (match start [] (init_of (Node [("a", Node [("b", Node [("x", Leaf (VInt 1))])])])) with Ok c => c | Err _ => blank (Node []) (Node []) None None None None "" end))
                       [Hold 0 Item ["a"]; Plain (SetV Item [] "k" (Leaf (VInt 1))); Plain (Del Item ["a"] "b")]))
             (Via 0 (SetV Item ["b"] "x" (Leaf (VInt 2))))) = OErr EType.
Proof. vm_compute. split; reflexivity. Qed.

(** F-C06g: update(<nested proxy>) iterates the proxy's KEYS as if they were pairs *)
Lemma refuted_update_from_proxy :
  model_meets_spec [] (init_of (Node [("a", Node [("x", Leaf (VInt 1))]); ("b", Node [("y", Leaf (VInt 2))])]))
    [Plain (UpdateProxy Item ["a"] ["b"])] = false.
Proof. vm_compute. reflexivity. Qed.

(** F-C06h: an edit through the raw sub-dict handed out by get() is lost at the
    next re-merge *)
Lemma refuted_raw_dict_edit :
  model_meets_spec [] (init_of (Node [("a", Node [("x", Leaf (VInt 1))])]))
    [Plain (RawSet Item [] "a" "z" (Leaf (VInt 5))); Plain (SetV Item [] "k" (Leaf (VInt 1)))] = false.
Proof. vm_compute. reflexivity. Qed.

(** * Bounded sweep (a test) *)
Definition sweep_alphabet : list sop :=
  map Plain
  [ SetV Item ["a"] "x" (Leaf (VInt 1)); SetV Attr [] "k" (Leaf (VInt 2));
    SetV Item ["a"] "z" (Leaf (VInt 3)); Del Item ["a"] "x"; Del Attr [] "a"; Del Item [] "k";
    Pop Item ["a"] "y" None; Pop Attr [] "q" (Some (Leaf (VInt 9))); PopItem Item ["a"];
    Clear Item ["a"]; SetDefault Item ["a"] "z" (Some (Leaf (VInt 2))); SetDefault Item [] "k" None;
    Update Item ["a"] [("x", Leaf (VInt 4)); ("w", Leaf (VInt 5))];
    Get Attr ["a"] "x"; Keys Item ["a"]; Contains Item [] "a";
    LoadDefaults (Node [("a", Node [("x", Leaf (VInt 5)); ("w", Leaf (VInt 6))])]);
    LoadOverrides (Node [("a", Node [("y", Leaf (VInt 7))])]);
    LoadCollection (Node []); Clone None ]
  ++ [Hold 0 Item ["a"]; Via 0 (SetV Attr [] "x" (Leaf (VInt 8)))].

Fixpoint histories (n : nat) : list (list sop) :=
  match n with
  | O => [[]]
  | S n' => [] :: flat_map (fun h => map (fun o => o :: h) sweep_alphabet) (histories n')
  end.

Definition sweep_init : init_args :=
  init_of (Node [("a", Node [("x", Leaf (VInt 0)); ("y", Leaf (VInt 0))]); ("k", Leaf (VInt 1))]).

Lemma model_meets_spec_bounded_3 :
  forallb (model_meets_spec [] sweep_init) (histories 3) = true.
Proof. vm_compute. reflexivity. Qed.
