(** C06: the refinement theorem widened to held nested proxies.

    An operation through a held proxy reads -- and decides whether it succeeds
    -- from the proxy's own (possibly stale) snapshot [d0], but reports its edit
    to the root by key path.  As long as the section the operation addresses is
    still navigable in the LIVE view (so nothing above it is masked), the
    root's bookkeeping stays the representation of the journal: the view is the
    journal of the edits that succeeded (as decided by the snapshots) replayed
    over the current lower levels.  What a stale snapshot gets wrong is only the
    decision (F-C06e) -- never the consistency of the root. *)
From InvokeVerif Require Import Common.Tree Common.StrUtil Model.MergeModel Model.ConfigModel
     Spec.C03Spec Spec.C06Spec Proofs.ListFacts Proofs.TreeFacts Proofs.C03_merge Proofs.C03_levels
     Proofs.C03_order Proofs.C06_shapes Proofs.C06_track Proofs.C06_refine Model.EnvModel
     Proofs.C06_envfacts.

Lemma step_write' S c J kp k x ok : is_node S = true -> good S c J ->
  leaf_in S (kp ++ [k]) = true -> clear_upto (c_dels c) kp ->
  exists d, remerge (track_set c kp k (Leaf x)) ok = (set_cache (track_set c kp k (Leaf x)) d, ok) /\
            good S (set_cache (track_set c kp k (Leaf x)) d) (J ++ [JSet (kp ++ [k]) (Leaf x)]).
Proof.
  intros HS HG HLf Hcu.
  pose proof (clear_upto_above _ kp k Hcu) as Hc.
  unfold leaf_in in HLf. destruct (shape_at (kp ++ [k]) S) as [[y|]|] eqn:ES; try discriminate.
  destruct HG as [HL HI HC].
  apply remerge_good; [assumption| |].
  - unfold track_set. rewrite lower_set_tracking. exact HL.
  - unfold track_set. destruct c; simpl in *. eapply inv_write; eassumption.
Qed.

Lemma step_delete' S c J kp k ok : is_node S = true -> good S c J ->
  clear_upto (c_dels c) kp ->
  exists d, remerge (track_del c kp k) ok = (set_cache (track_del c kp k) d, ok) /\
            good S (set_cache (track_del c kp k) d) (J ++ [JDel (kp ++ [k])]).
Proof.
  intros HS HG Hcu.
  pose proof (clear_upto_above _ kp k Hcu) as Hc.
  destruct HG as [HL HI HC].
  assert (Hp : kp ++ [k] <> []) by (destruct kp; discriminate).
  apply remerge_good; [assumption| |].
  - unfold track_del. rewrite del_mark_set_path by assumption. rewrite lower_set_tracking. exact HL.
  - unfold track_del. rewrite del_mark_set_path by assumption.
    destruct c; simpl in *. apply inv_delete; assumption.
Qed.

Definition events_in (d0 : dict) (o : op) : list event :=
  match o with
  | SetV fl kp k v =>
      match nav fl d0 kp with Ok _ => [JSet (kp ++ [k]) v] | Err _ => [] end
  | Del fl kp k | Pop fl kp k _ =>
      match nav fl d0 kp with
      | Ok d => if has k d then [JDel (kp ++ [k])] else []
      | Err _ => []
      end
  | PopItem fl kp =>
      match nav fl d0 kp with
      | Ok d => match last_item d with Some (k, _) => [JDel (kp ++ [k])] | None => [] end
      | Err _ => []
      end
  | SetDefault fl kp k dflt =>
      match nav fl d0 kp with
      | Ok d => if has k d then []
                else [JSet (kp ++ [k]) (match dflt with Some v => v | None => Leaf VNone end)]
      | Err _ => []
      end
  | Clear fl kp =>
      match nav fl d0 kp with
      | Ok d => map (fun k => JDel (kp ++ [k])) (keys d)
      | Err _ => []
      end
  | Update fl kp kvs =>
      match nav fl d0 kp with
      | Ok _ => map (fun kv => JSet (kp ++ [fst kv]) (snd kv)) kvs
      | Err _ => []
      end
  | UpdateBoth fl kp kvs kw =>
      match nav fl d0 kp with
      | Ok _ => map (fun kv => JSet (kp ++ [fst kv]) (snd kv)) (kvs ++ kw)
      | Err _ => []
      end
  | _ => []
  end.

(** The section a path operation addresses is navigable in the live view. *)
Definition op_kp (o : op) : option path :=
  match o with
  | Get _ kp _ | SetV _ kp _ _ | Del _ kp _ | Pop _ kp _ _ | PopItem _ kp | Clear _ kp
  | SetDefault _ kp _ _ | Update _ kp _ | Contains _ kp _ | Len _ kp | Keys _ kp
  | View _ kp | EqD _ kp _ | GetM _ kp _ _ | UpdateBoth _ kp _ _ => Some kp
  | _ => None
  end.

Definition op_live (c : cfg) (o : op) : Prop :=
  match op_kp o with Some kp => clear_upto (c_dels c) kp | None => True end.

Theorem step_with_good S fs c J d0 o : is_node S = true -> good S c J -> op_ok S o = true ->
  op_live c o ->
  good S (fst (fst (step_with d0 fs c o))) (J ++ events_in d0 o) /\ benign (snd (fst (step_with d0 fs c o))).
Proof.
  intros HS HG Hok Hlive.
  assert (Hsame : forall out, benign out -> good S c (J ++ []) /\ benign out).
  { intros out Hb. rewrite app_nil_r. split; assumption. }
  destruct o; simpl in Hok; try discriminate; unfold step_with, events_in; simpl in Hlive.
  - (* Get *)
    destruct (nav fl d0 kp) as [d|e] eqn:Hn; simpl.
    + destruct (get k d); simpl; apply Hsame; [intros e H; discriminate | apply miss_benign].
    + apply Hsame. eapply nav_err_benign; eassumption.
  - (* SetV *)
    destruct v as [x|vk]; [|discriminate].
    destruct (nav fl d0 kp) as [dn|e] eqn:Hn; simpl.
    + rewrite excise_not_blocked by (apply clear_upto_above; exact Hlive).
      destruct (step_write' S c J kp k x ONone HS HG Hok Hlive) as [d [Er Hg]].
      unfold merged. rewrite Er. simpl. split; [exact Hg | intros e H; discriminate].
    + apply Hsame. eapply nav_err_benign; eassumption.
  - (* Del *)
    destruct (nav fl d0 kp) as [dn|e] eqn:Hn; simpl.
    + unfold has. destruct (get k dn) eqn:G; simpl.
      * rewrite del_not_blocked by (apply clear_upto_above; exact Hlive).
        destruct (step_delete' S c J kp k ONone HS HG Hlive) as [d [Er Hg]].
        unfold merged. rewrite Er. simpl. split; [exact Hg | intros e H; discriminate].
      * apply Hsame. apply miss_benign.
    + apply Hsame. eapply nav_err_benign; eassumption.
  - (* Pop *)
    destruct (nav fl d0 kp) as [dn|e] eqn:Hn; simpl.
    + unfold has. destruct (get k dn) eqn:G; simpl.
      * rewrite del_not_blocked by (apply clear_upto_above; exact Hlive).
        destruct (step_delete' S c J kp k (OVal t) HS HG Hlive) as [d [Er Hg]].
        unfold merged. rewrite Er. simpl. split; [exact Hg | intros e H; discriminate].
      * destruct dflt; simpl; apply Hsame; intros e H; inversion H; auto.
    + apply Hsame. eapply nav_err_benign; eassumption.
  - (* PopItem *)
    destruct (nav fl d0 kp) as [dn|e] eqn:Hn; simpl.
    + destruct (last_item dn) as [[k t]|] eqn:G; simpl.
      * rewrite del_not_blocked by (apply clear_upto_above; exact Hlive).
        destruct (step_delete' S c J kp k (OPair k t) HS HG Hlive) as [d [Er Hg]].
        unfold merged. rewrite Er. simpl. split; [exact Hg | intros e H; discriminate].
      * apply Hsame. intros e H; inversion H; auto.
    + apply Hsame. eapply nav_err_benign; eassumption.
  - (* Clear *)
    destruct (nav fl d0 kp) as [dn|e] eqn:Hn; simpl.
    + pose proof Hlive as Hcu.
      destruct (keys dn) as [|k0 ks0] eqn:Ek.
      * simpl. apply Hsame. intros e H; discriminate.
      * rewrite del_not_blocked by (apply clear_upto_above; assumption).
        destruct HG as [HL HI HC].
        destruct (fold_clear S kp (k0 :: ks0) c J HL HI Hcu) as [HL' HI'].
        destruct (remerge_good S _ _ ONone HS HL' HI') as [d [Er Hg]].
        cbn [fold_left] in Er, Hg. cbn [fold_left].
        unfold merged. rewrite Er. simpl. split; [exact Hg | intros e H; discriminate].
    + apply Hsame. eapply nav_err_benign; eassumption.
  - (* SetDefault *)
    destruct (nav fl d0 kp) as [dn|e] eqn:Hn; simpl.
    + unfold has. destruct (get k dn) eqn:G; simpl.
      * apply Hsame. intros e H; discriminate.
      * destruct dflt as [[x|vk]|]; try discriminate.
        -- rewrite excise_not_blocked by (apply clear_upto_above; exact Hlive).
           destruct (step_write' S c J kp k x (OVal (Leaf x)) HS HG Hok Hlive) as [d [Er Hg]].
           unfold merged. rewrite Er. simpl. split; [exact Hg | intros e H; discriminate].
        -- rewrite excise_not_blocked by (apply clear_upto_above; exact Hlive).
           destruct (step_write' S c J kp k VNone (OVal (Leaf VNone)) HS HG Hok Hlive) as [d [Er Hg]].
           unfold merged. rewrite Er. simpl. split; [exact Hg | intros e H; discriminate].
    + apply Hsame. eapply nav_err_benign; eassumption.
  - (* Update *)
    destruct (nav fl d0 kp) as [dn|e] eqn:Hn; simpl.
    + pose proof Hlive as Hcu.
      destruct kvs as [|kv kvs'].
      * simpl. apply Hsame. intros e H; discriminate.
      * rewrite excise_not_blocked by (apply clear_upto_above; assumption).
        destruct HG as [HL HI HC].
        destruct (fold_update S kp (kv :: kvs') c J Hok HL HI Hcu) as [HL' HI'].
        destruct (remerge_good S _ _ ONone HS HL' HI') as [d [Er Hg]].
        cbn [fold_left] in Er, Hg. cbn [fold_left].
        unfold merged. rewrite Er. simpl. split; [exact Hg | intros e H; discriminate].
    + apply Hsame. eapply nav_err_benign; eassumption.
  - (* Contains *)
    destruct (nav fl d0 kp) as [d|e] eqn:Hn; simpl; apply Hsame;
      [intros e H; discriminate | eapply nav_err_benign; eassumption].
  - (* Len *)
    destruct (nav fl d0 kp) as [d|e] eqn:Hn; simpl; apply Hsame;
      [intros e H; discriminate | eapply nav_err_benign; eassumption].
  - (* Keys *)
    destruct (nav fl d0 kp) as [d|e] eqn:Hn; simpl; apply Hsame;
      [intros e H; discriminate | eapply nav_err_benign; eassumption].
  - (* LoadDefaults *)
    destruct (step_reload S c J (set_defaults c t) t HS HG (level_okb_ok S t Hok)) as [d [Er Hg]]; [auto|].
    unfold merged. rewrite Er. simpl. rewrite app_nil_r. split; [exact Hg | intros e H; discriminate].
  - (* LoadOverrides *)
    destruct (step_reload S c J (set_overrides c t) t HS HG (level_okb_ok S t Hok)) as [d [Er Hg]]; [auto|].
    unfold merged. rewrite Er. simpl. rewrite app_nil_r. split; [exact Hg | intros e H; discriminate].
  - (* LoadCollection *)
    destruct (step_reload S c J (set_collection c t) t HS HG (level_okb_ok S t Hok)) as [d [Er Hg]]; [auto|].
    unfold merged. rewrite Er. simpl. rewrite app_nil_r. split; [exact Hg | intros e H; discriminate].
  - (* LoadShellEnv *)
    rewrite app_nil_r. destruct HG as [HL HI HC].
    assert (HL0 : Forall (level_ok S) (lower (set_env c (Node [])))).
    { assert (Henv : level_ok S (Node [])).
      { split; [reflexivity|]. split; [reflexivity | apply conforms_empty; exact HS]. }
      unfold lower in *. lower_inv HL. destruct c; simpl in *.
      repeat (first [assumption | apply Forall_cons | apply Forall_nil]). }
    assert (HI0 : inv S (c_mods (set_env c (Node []))) (c_dels (set_env c (Node []))) J) by (destruct c; exact HI).
    destruct (remerge_good S (set_env c (Node [])) J ONone HS HL0 HI0) as [d1 [Er1 Hg1]]. rewrite Er1.
    destruct (good_cache_conforms S _ J HS Hg1) as [Wc1 Cc1].
    destruct (EnvModel.load (Node (c_cache (set_cache (set_env c (Node [])) d1))) (c_env_prefix (set_cache (set_env c (Node [])) d1)) env) as [dd|e] eqn:El.
    + destruct (C06_envfacts.load_level_ok S _ _ _ dd HS Wc1 Cc1 El) as [Wdd Cdd].
      destruct Hg1 as [HLa HIa HCa].
      destruct (remerge_good S (set_env (set_cache (set_env c (Node [])) d1) (Node dd)) J ONone HS) as [d2 [Er2 Hg2]].
      * unfold lower in *. lower_inv HLa. destruct c; simpl in *.
        repeat (constructor; try assumption).
      * destruct c; exact HIa.
      * unfold merged. rewrite Er2. simpl. split; [exact Hg2 | intros e H; discriminate].
    + simpl. split; [exact Hg1|]. intros e' H. inversion H; subst e'.
      destruct (C06_envfacts.load_err_kind _ _ _ _ Wc1 El) as [ -> | [ -> | -> ] ]; auto 10.
  - (* View *)
    destruct (nav fl d0 kp) as [d|e] eqn:Hn; simpl; apply Hsame;
      [intros e H; discriminate | eapply nav_err_benign; eassumption].
  - (* EqD *)
    destruct (nav fl d0 kp) as [d|e] eqn:Hn; simpl; apply Hsame;
      [intros e H; discriminate | eapply nav_err_benign; eassumption].
  - (* GetM *)
    destruct (nav fl d0 kp) as [d|e] eqn:Hn; simpl.
    + destruct (get k d); simpl; apply Hsame; intros e H; discriminate.
    + apply Hsame. eapply nav_err_benign; eassumption.
  - (* UpdateBoth *)
    destruct (nav fl d0 kp) as [dn|e] eqn:Hn; simpl.
    + pose proof Hlive as Hcu.
      unfold do_update. destruct (kvs ++ kw) as [|kv kvs'] eqn:Ek.
      * simpl. apply Hsame. intros e H; discriminate.
      * rewrite excise_not_blocked by (apply clear_upto_above; assumption).
        destruct HG as [HL HI HC].
        destruct (fold_update S kp (kv :: kvs') c J Hok HL HI Hcu) as [HL' HI'].
        destruct (remerge_good S _ _ ONone HS HL' HI') as [d [Er Hg]].
        rewrite Er. simpl. split; [exact Hg | intros e H; discriminate].
    + apply Hsame. eapply nav_err_benign; eassumption.
Qed.

(** Under the guard the proxy's edit is always reported and merged (never the
    "edited locally but not merged" outcome of a blocked walk). *)
Lemma step_with_not_local S fs c d0 o : op_ok S o = true -> op_live c o ->
  forall l, snd (step_with d0 fs c o) <> LocalOnly l.
Proof.
  intros Hok Hlive l. unfold op_live in Hlive.
  destruct o; simpl in Hok; try discriminate; simpl in Hlive; unfold step_with, merged, with_flag, do_update; simpl;
    repeat (first
      [ rewrite excise_not_blocked by (apply clear_upto_above; exact Hlive)
      | rewrite del_not_blocked by (apply clear_upto_above; exact Hlive)
      | match goal with
        | |- context [match ?x with _ => _ end] => destruct x eqn:?; simpl
        end ]);
    try discriminate.
Qed.

(** * Histories with held proxies *)
Definition live_navb (c : cfg) (kp : path) : bool :=
  match nav Item (c_cache c) kp with Ok _ => true | Err _ => false end.

Definition op_liveb (c : cfg) (o : op) : bool :=
  match op_kp o with Some kp => live_navb c kp | None => true end.

Lemma op_liveb_live S c J o : is_node S = true -> good S c J -> op_liveb c o = true -> op_live c o.
Proof.
  intros HS HG H. unfold op_liveb, op_live in *. destruct (op_kp o) as [kp|]; [|exact I].
  unfold live_navb in H. destruct (nav Item (c_cache c) kp) as [d'|] eqn:Hn; [|discriminate].
  eapply nav_clear_upto; eassumption.
Qed.

(** What a step through a held proxy works on: the snapshot and the operation
    with absolute paths. *)
Definition via_target (s : sess) (h : nat) (o : op) : option (dict * op) :=
  match nat_get h (s_handles s) with
  | None => None
  | Some (g, hp) =>
      match rebase hp o with
      | None => None
      | Some o' =>
          Some (if Nat.eqb g (s_cur s) then c_cache (s_cfg s)
                else match nat_get g (s_gens s) with Some d => d | None => [] end, o')
      end
  end.

(** The guard of one step (decidable on the state reached so far). *)
Definition sstep_ok (S : tree) (s : sess) (o : sop) : bool :=
  match o with
  | Plain o => op_ok S o
  | Hold _ _ _ => true
  | Via h o => match via_target s h o with
               | None => true
               | Some (_, o') => op_ok S o' && op_liveb (s_cfg s) o'
               end
  end.

Definition sevents (s : sess) (o : sop) : list event :=
  match o with
  | Plain o => events_of (s_cfg s) o
  | Hold _ _ _ => []
  | Via h o => match via_target s h o with
               | None => []
               | Some (d0, o') => events_in d0 o'
               end
  end.

Lemma op_ok_not_clone S o : op_ok S o = true -> is_clone o = false.
Proof. destruct o; simpl; try discriminate; reflexivity. Qed.

Theorem sstep_good S fs s J o : is_node S = true -> good S (s_cfg s) J -> sstep_ok S s o = true ->
  good S (s_cfg (fst (sstep fs s o))) (J ++ sevents s o) /\ benign (snd (sstep fs s o)).
Proof.
  intros HS HG Hok. destruct o as [o|h fl kp|h o]; simpl in Hok.
  - (* from the root *)
    destruct (step_good S fs (s_cfg s) J o HS HG Hok) as [Hg Hb].
    unfold step in Hg, Hb. unfold sstep. cbn [sevents].
    destruct (step_with (c_cache (s_cfg s)) fs (s_cfg s) o) as [[c' out] eff].
    destruct eff; simpl in *; split; assumption.
  - (* fetching a proxy changes nothing *)
    unfold sstep. simpl. rewrite app_nil_r.
    destruct (nav fl (c_cache (s_cfg s)) kp) eqn:Hn; simpl.
    + split; [exact HG | intros e H; discriminate].
    + split; [exact HG | eapply nav_err_benign; eassumption].
  - (* through a held proxy *)
    unfold sstep, sevents, via_target in *.
    destruct (nat_get h (s_handles s)) as [[g hp]|]; [|simpl; rewrite app_nil_r; split; [exact HG | intros e H; discriminate]].
    destruct (rebase hp o) as [o'|]; [|simpl; rewrite app_nil_r; split; [exact HG | intros e H; discriminate]].
    apply andb_true_iff in Hok as [Hok Hlb].
    pose proof (op_liveb_live S (s_cfg s) J o' HS HG Hlb) as Hlive.
    set (d0 := if Nat.eqb g (s_cur s) then c_cache (s_cfg s)
               else match nat_get g (s_gens s) with Some d => d | None => [] end) in *.
    destruct (step_with_good S fs (s_cfg s) J d0 o' HS HG Hok Hlive) as [Hg Hb].
    pose proof (step_with_not_local S fs (s_cfg s) d0 o' Hok Hlive) as Hnl.
    destruct (step_with d0 fs (s_cfg s) o') as [[c' out] eff].
    destruct eff as [|l|l]; simpl in *.
    + split; assumption.
    + split; assumption.
    + exfalso. exact (Hnl l eq_refl).
Qed.

Fixpoint sguard (S : tree) (fs : fsys) (s : sess) (ops : list sop) : bool :=
  match ops with
  | [] => true
  | o :: rest =>
      sstep_ok S s o &&
      (if abnormal (snd (sstep fs s o)) then true else sguard S fs (fst (sstep fs s o)) rest)
  end.

Fixpoint sjournal (fs : fsys) (s : sess) (ops : list sop) : list event :=
  match ops with
  | [] => []
  | o :: rest =>
      sevents s o ++
      (if abnormal (snd (sstep fs s o)) then [] else sjournal fs (fst (sstep fs s o)) rest)
  end.

Theorem srun_good S fs : is_node S = true -> forall ops s J,
  good S (s_cfg s) J -> sguard S fs s ops = true ->
  good S (s_cfg (fst (srun fs s ops))) (J ++ sjournal fs s ops) /\
  Forall (fun ov => benign (fst (fst ov))) (snd (srun fs s ops)).
Proof.
  intros HS. induction ops as [|o rest IH]; intros s J HG Hok.
  - simpl. rewrite app_nil_r. split; [assumption | constructor].
  - cbn [sguard] in Hok. apply andb_true_iff in Hok as [Ho Hr].
    destruct (sstep_good S fs s J o HS HG Ho) as [Hg Hb].
    cbn [srun sjournal]. destruct (sstep fs s o) as [s' out] eqn:Es. simpl in Hg, Hb, Hr.
    cbn [fst snd]. destruct (abnormal out).
    + cbn [fst snd]. rewrite app_nil_r. split; [assumption | constructor; [assumption | constructor]].
    + destruct (IH s' (J ++ sevents s o) Hg Hr) as [Hg' Hb'].
      destruct (srun fs s' rest) as [s'' tr] eqn:Er. cbn [fst snd] in *.
      rewrite app_assoc. split; [assumption | constructor; assumption].
Qed.

(** The view after a history with held proxies: the journal (edits that
    succeeded as decided by the snapshots) replayed over the current lower
    levels. *)
Theorem refines_nested_dict_held : forall S fs c0 ops,
  is_node S = true -> good0 S c0 = true -> sguard S fs (sstart c0) ops = true ->
  let c := s_cfg (fst (srun fs (sstart c0) ops)) in
  exists X, merge_all (lower c) [] = Ok X /\ wf (Node X) = true /\
            sim (Node (c_cache c)) (Node (replay (Node X) (sjournal fs (sstart c0) ops))) /\
            Forall (fun ov => benign (fst (fst ov))) (snd (srun fs (sstart c0) ops)).
Proof.
  intros S fs c0 ops HS H0 Hok c.
  destruct (srun_good S fs HS ops (sstart c0) [] (good0_good S c0 HS H0) Hok) as [Hg Hb].
  destruct (good_view S c _ HS Hg) as [X [EX [WX [Hs _]]]].
  exists X. auto.
Qed.
