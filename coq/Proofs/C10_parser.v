(** C10, any depth, the parser half: the registry built from task_names. *)
From Coq Require Import Lia Permutation.
From InvokeVerif Require Import Model.CollModel Spec.C17Spec Spec.C10Spec Corr.C10Corr.
From InvokeVerif Require Import Proofs.CollStrings Proofs.C17_merge Proofs.C17_path Proofs.C10_build
     Proofs.C10_flat Proofs.C10_deep Proofs.C10_names Proofs.C10_token.

Definition dot_pfx (cn x : string) : string := (cn ++ "." ++ x)%string.

(** reference flattening: plain prefixing, plain appending *)
Definition tn_sub (cn : string) (sc : coll) (names : list (string * list string))
  : list (string * list string) :=
  map (fun pa => (dot_pfx cn (fst pa),
                  map (dot_pfx cn) (snd pa) ++
                  (if opt_str_eqb (c_default sc) (Some (fst pa)) then [cn] else []))) names.

Fixpoint tn (c : coll) : list (string * list string) :=
  match c with
  | Coll _ tasks _ subs _ ad _ =>
      map (fun kt => (fst kt, map (transform ad) (t_aliases (snd kt)))) tasks ++
      (fix go (l : list (string * coll)) : list (string * list string) :=
         match l with
         | [] => []
         | (cn, sc) :: l' => tn_sub cn sc (tn sc) ++ go l'
         end) subs
  end.

Definition own_names (ad : bool) (tasks : list (string * taskinfo)) : list (string * list string) :=
  map (fun kt => (fst kt, map (transform ad) (t_aliases (snd kt)))) tasks.

Lemma tn_unfold n tasks aliases subs d ad g :
  tn (Coll n tasks aliases subs d ad g) =
  own_names ad tasks ++ flat_map (fun kc => tn_sub (fst kc) (snd kc) (tn (snd kc))) subs.
Proof.
  cbn [tn]. f_equal. induction subs as [|[cn sc] l IH]; [reflexivity|].
  cbn [flat_map fst snd]. rewrite IH. reflexivity.
Qed.

(** the model's loop over sub-collections *)
Definition tn_step (ad : bool) (cn : string) (sc : coll) (acc : list (string * list string))
           (ta : string * list string) : list (string * list string) :=
  let als := map (subtask_name ad cn) (snd ta) in
  let als' := if opt_str_eqb (c_default sc) (Some (fst ta)) then als ++ [cn] else als in
  aset (subtask_name ad cn (fst ta)) als' acc.

Fixpoint tn_loop (ad : bool) (l : list (string * coll)) (acc : list (string * list string))
  : list (string * list string) :=
  match l with
  | [] => acc
  | (cn, sc) :: l' => tn_loop ad l' (fold_left (tn_step ad cn sc) (task_names sc) acc)
  end.

Lemma task_names_unfold n tasks aliases subs d ad g :
  task_names (Coll n tasks aliases subs d ad g) =
  tn_loop ad subs
          (fold_left (fun acc kt => aset (fst kt) (map (transform ad) (t_aliases (snd kt))) acc) tasks []).
Proof.
  cbn [task_names].
  generalize (fold_left (fun acc kt => aset (fst kt) (map (transform ad) (t_aliases (snd kt))) acc) tasks []).
  induction subs as [|[cn sc] l IH]; intros acc; [reflexivity|].
  cbn [tn_loop]. rewrite <- IH. reflexivity.
Qed.

(** * names of the reference flattening are transform-fixed *)
Lemma transform_pfx ad cn x : contains_char "." cn = false ->
  transform ad (dot_pfx cn x) = dot_pfx (transform ad cn) (transform ad x).
Proof.
  intros Hd. unfold dot_pfx.
  rewrite <- (join_split (transform ad (cn ++ "." ++ x))), split_transform, (split_append_dot cn x Hd).
  cbn [map]. destruct (split_char "." x) as [|y l] eqn:Es; [exfalso; eapply split_nonempty; eauto|].
  cbn [map]. rewrite join_cons2. f_equal. f_equal.
  rewrite <- (join_split (transform ad x)), split_transform, Es. reflexivity.
Qed.

Definition names_fixed (ad : bool) (l : list (string * list string)) : Prop :=
  forall pa, In pa l -> transform ad (fst pa) = fst pa /\ forall a, In a (snd pa) -> transform ad a = a.

Lemma tn_fixed ad : forall c, uniform ad c = true -> ns_canon c = true -> names_fixed ad (tn c).
Proof.
  induction c as [n tasks aliases subs dflt ad' cfg IH] using coll_ind'.
  intros Hu Hcan. rewrite uniform_unfold in Hu. apply andb_true_iff in Hu as [Had Husubs].
  apply Bool.eqb_prop in Had. subst ad'.
  rewrite ns_canon_unfold in Hcan. apply andb_true_iff in Hcan as [Hkeys Hcsubs].
  rewrite forallb_forall in Hkeys, Hcsubs, Husubs. rewrite Forall_forall in IH.
  rewrite tn_unfold. intros pa HIn. apply in_app_or in HIn. destruct HIn as [HIn|HIn].
  - unfold own_names in HIn. apply in_map_iff in HIn. destruct HIn as [[k t] [E HIn]]. subst pa. cbn [fst snd].
    split.
    + apply key_ok_spec, Hkeys. apply in_or_app; left. change k with (fst (k, t)). apply in_map; exact HIn.
    + intros a Ha. apply in_map_iff in Ha. destruct Ha as [a0 [<- _]]. apply transform_idem.
  - apply in_flat_map in HIn. destruct HIn as [[cn sc] [Hkc HIn]]. cbn [fst snd] in HIn.
    unfold tn_sub in HIn. apply in_map_iff in HIn. destruct HIn as [pa0 [E Hpa0]]. subst pa. cbn [fst snd].
    destruct (IH _ Hkc (Husubs _ Hkc) (Hcsubs _ Hkc) pa0 Hpa0) as [F1 F2].
    assert (In cn (akeys subs)) as Hcn by (change cn with (fst (cn, sc)); apply in_map; exact Hkc).
    destruct (key_ok_spec ad cn (Hkeys cn (in_or_app _ _ _ (or_intror (in_or_app _ _ _ (or_intror Hcn))))))
      as [C1 [C2 _]].
    split.
    + rewrite (transform_pfx ad cn _ C2), C1, F1. reflexivity.
    + intros a Ha. apply in_app_or in Ha. destruct Ha as [Ha|Ha].
      * apply in_map_iff in Ha. destruct Ha as [a0 [<- Ha0]].
        rewrite (transform_pfx ad cn _ C2), C1, (F2 a0 Ha0). reflexivity.
      * destruct (opt_str_eqb (c_default sc) (Some (fst pa0))); [|contradiction].
        destruct Ha as [<-|[]]. exact C1.
Qed.

(** * task_names is the reference flattening when the primaries are distinct *)
Lemma tn_loop_flat ad : forall l acc,
  (forall kc, In kc l ->
     task_names (snd kc) = tn (snd kc) /\ names_fixed ad (tn (snd kc)) /\
     transform ad (fst kc) = fst kc) ->
  NoDup (akeys acc ++ map fst (flat_map (fun kc => tn_sub (fst kc) (snd kc) (tn (snd kc))) l)) ->
  tn_loop ad l acc = acc ++ flat_map (fun kc => tn_sub (fst kc) (snd kc) (tn (snd kc))) l.
Proof.
  induction l as [|[cn sc] l IH]; intros acc H ND; [cbn; rewrite app_nil_r; reflexivity|].
  destruct (H (cn, sc) (or_introl eq_refl)) as [Htn [Hfix Hcn]]. cbn [fst snd] in Htn, Hfix, Hcn.
  cbn [tn_loop flat_map fst snd]. rewrite Htn.
  assert (forall x, subtask_name ad cn x = dot_pfx (fst (cn, sc)) (transform ad x)) as Hsn.
  { intros x. unfold subtask_name, dot_pfx. cbn [fst]. rewrite Hcn. reflexivity. }
  assert (map (fun ta : string * list string =>
                 (subtask_name ad cn (fst ta),
                  if opt_str_eqb (c_default sc) (Some (fst ta))
                  then map (subtask_name ad cn) (snd ta) ++ [cn] else map (subtask_name ad cn) (snd ta)))
              (tn sc) = tn_sub cn sc (tn sc)) as Hmap.
  { unfold tn_sub. apply map_ext_in. intros pa Hpa. destruct (Hfix pa Hpa) as [F1 F2].
    rewrite Hsn. cbn [fst]. rewrite F1. f_equal.
    assert (map (subtask_name ad cn) (snd pa) = map (dot_pfx cn) (snd pa)) as Hm.
    { apply map_ext_in. intros a Ha. rewrite Hsn. cbn [fst]. rewrite (F2 a Ha). reflexivity. }
    rewrite Hm. destruct (opt_str_eqb (c_default sc) (Some (fst pa))); [reflexivity | rewrite app_nil_r; reflexivity]. }
  assert (fold_left (tn_step ad cn sc) (tn sc) acc = acc ++ tn_sub cn sc (tn sc)) as Hfold.
  { unfold tn_step.
    rewrite (fold_aset_map (fun ta : string * list string => subtask_name ad cn (fst ta))
                           (fun ta : string * list string =>
                              if opt_str_eqb (c_default sc) (Some (fst ta))
                              then map (subtask_name ad cn) (snd ta) ++ [cn] else map (subtask_name ad cn) (snd ta))
                           (tn sc) acc).
    - rewrite Hmap. reflexivity.
    - replace (map (fun ta : string * list string => subtask_name ad cn (fst ta)) (tn sc))
        with (map fst (tn_sub cn sc (tn sc))).
      + cbn [flat_map fst snd] in ND. rewrite map_app, app_assoc in ND. apply (NoDup_app_l _ _ ND).
      + rewrite <- Hmap, map_map. reflexivity. }
  rewrite Hfold, IH.
  - rewrite <- app_assoc. reflexivity.
  - intros kc Hkc. apply H; right; exact Hkc.
  - cbn [flat_map fst snd] in ND. rewrite akeys_app. unfold akeys at 2.
    rewrite map_app in ND. rewrite <- app_assoc. exact ND.
Qed.

Lemma dot_pfx_inj cn x y : dot_pfx cn x = dot_pfx cn y -> x = y.
Proof.
  unfold dot_pfx. induction cn as [|c cn IH]; cbn; intros H.
  - injection H as H. exact H.
  - injection H as H. apply IH; exact H.
Qed.

Lemma NoDup_map_inv' {A B} (f : A -> B) l : NoDup (map f l) -> NoDup l.
Proof.
  induction l as [|x l IH]; intros H; [constructor|].
  cbn [map] in H. inversion H as [|? ? Hn ND]; subst. constructor.
  - intros Hx. apply Hn. apply in_map; exact Hx.
  - apply IH; exact ND.
Qed.

Lemma NoDup_middle {A} (a b c : list A) : NoDup (a ++ b ++ c) -> NoDup b.
Proof. intros H. apply NoDup_app_r in H. apply NoDup_app_l in H. exact H. Qed.

Lemma sub_prims_nodup subs cn sc (pre : list string) :
  In (cn, sc) subs ->
  NoDup (pre ++ map fst (flat_map (fun kc => tn_sub (fst kc) (snd kc) (tn (snd kc))) subs)) ->
  NoDup (map fst (tn sc)).
Proof.
  intros HIn ND. apply in_split in HIn. destruct HIn as [l1 [l2 ->]].
  rewrite flat_map_app in ND. cbn [flat_map fst snd] in ND.
  rewrite !map_app in ND. rewrite app_assoc in ND. apply NoDup_middle in ND.
  unfold tn_sub in ND. rewrite map_map in ND. cbn [fst] in ND.
  rewrite <- (map_map fst (dot_pfx cn)) in ND.
  apply NoDup_map_inv' in ND. exact ND.
Qed.

Lemma task_names_tn ad : forall c,
  uniform ad c = true -> ns_canon c = true -> NoDup (map fst (tn c)) -> task_names c = tn c.
Proof.
  induction c as [n tasks aliases subs dflt ad' cfg IH] using coll_ind'.
  intros Hu Hcan ND.
  pose proof Hu as Hu0. pose proof Hcan as Hcan0.
  rewrite uniform_unfold in Hu. apply andb_true_iff in Hu as [Had Husubs].
  apply Bool.eqb_prop in Had. subst ad'.
  rewrite ns_canon_unfold in Hcan. apply andb_true_iff in Hcan as [Hkeys Hcsubs].
  rewrite forallb_forall in Hkeys, Hcsubs, Husubs. rewrite Forall_forall in IH.
  rewrite tn_unfold in ND |- *. rewrite task_names_unfold.
  rewrite map_app in ND.
  assert (map fst (own_names ad tasks) = akeys tasks) as Hok.
  { unfold own_names. rewrite map_map. reflexivity. }
  rewrite (fold_aset_map fst (fun kt => map (transform ad) (t_aliases (snd kt))) tasks []).
  - cbn [app]. fold (own_names ad tasks).
    apply tn_loop_flat.
    + intros [cn sc] Hkc. cbn [fst snd].
      split; [|split].
      * apply (IH _ Hkc (Husubs _ Hkc) (Hcsubs _ Hkc)).
        apply (sub_prims_nodup subs cn sc _ Hkc ND).
      * apply tn_fixed; [apply (Husubs _ Hkc) | apply (Hcsubs _ Hkc)].
      * assert (In cn (akeys subs)) as Hcn by (change cn with (fst (cn, sc)); apply in_map; exact Hkc).
        apply (key_ok_spec ad cn (Hkeys cn (in_or_app _ _ _ (or_intror (in_or_app _ _ _ (or_intror Hcn)))))).
    + unfold akeys at 1. exact ND.
  - cbn [akeys map app]. rewrite Hok in ND. apply (NoDup_app_l _ _ ND).
Qed.

(** * the alias table holds exactly the declared aliases, in every collection *)
Fixpoint alias_table_own (c : coll) : bool :=
  match c with
  | Coll _ tasks aliases subs _ ad _ =>
      forallb (fun p => opt_str_eqb (assoc (fst p) aliases) (Some (snd p))) (own_pairs ad tasks) &&
      forallb (fun p => existsb (fun q => String.eqb (fst p) (fst q) && String.eqb (snd p) (snd q))
                                (own_pairs ad tasks)) aliases &&
      (fix go (l : list (string * coll)) : bool :=
         match l with [] => true | (_, sc) :: l' => alias_table_own sc && go l' end) subs
  end.

Lemma alias_table_own_unfold n tasks aliases subs d ad g :
  alias_table_own (Coll n tasks aliases subs d ad g) =
  forallb (fun p => opt_str_eqb (assoc (fst p) aliases) (Some (snd p))) (own_pairs ad tasks) &&
  forallb (fun p => existsb (fun q => String.eqb (fst p) (fst q) && String.eqb (snd p) (snd q))
                            (own_pairs ad tasks)) aliases &&
  forallb (fun kc => alias_table_own (snd kc)) subs.
Proof.
  cbn [alias_table_own]. f_equal. induction subs as [|[k sc] l IH]; [reflexivity|].
  cbn [forallb snd]. rewrite IH. reflexivity.
Qed.

Lemma no_dsub_unfold root n tasks aliases subs d ad g :
  no_dsub_below root (Coll n tasks aliases subs d ad g) =
  (root || match d with Some x => negb (mem x (akeys subs)) | None => true end) &&
  forallb (fun kc => no_dsub_below false (snd kc)) subs.
Proof.
  cbn [no_dsub_below]. f_equal. induction subs as [|[k sc] l IH]; [reflexivity|].
  cbn [forallb snd]. rewrite IH. reflexivity.
Qed.

Lemma split_pfx cn x : contains_char "." cn = false ->
  split_char "." (dot_pfx cn x) = cn :: split_char "." x.
Proof. intros H. unfold dot_pfx. apply split_append_dot; exact H. Qed.

Lemma join_pfx cn y l : join "." (cn :: y :: l) = dot_pfx cn (join "." (y :: l)).
Proof. reflexivity. Qed.

(** * every name of a flattened entry is resolved by the reference walk, to one task *)
Lemma entries_resolve ad : forall c,
  uniform ad c = true -> ns_wf c = true -> ns_canon c = true -> alias_table_own c = true ->
  forall pa, In pa (tn c) ->
  exists t, forall n, In n (fst pa :: snd pa) ->
    exists cfgs, ref_path c (split_char "." n) = Some (t, cfgs).
Proof.
  induction c as [nm tasks aliases subs dflt ad' cfg IH] using coll_ind'.
  intros Hu Hwf Hcan Hat pa HIn.
  rewrite uniform_unfold in Hu. apply andb_true_iff in Hu as [Had Husubs].
  apply Bool.eqb_prop in Had. subst ad'.
  rewrite ns_wf_unfold in Hwf. rewrite ns_canon_unfold in Hcan. rewrite alias_table_own_unfold in Hat.
  apply andb_true_iff in Hwf as [Hwf Hwsubs]. apply andb_true_iff in Hwf as [Hwf Hwcfg].
  apply andb_true_iff in Hwf as [Hwf Hwd]. apply andb_true_iff in Hwf as [Hnd1 Hal].
  apply nodupb_NoDup in Hnd1.
  apply andb_true_iff in Hcan as [Hkeys Hcsubs].
  apply andb_true_iff in Hat as [Hat Hatsubs]. apply andb_true_iff in Hat as [Hbound _].
  rewrite forallb_forall in Hkeys, Hwsubs, Hcsubs, Husubs, Hatsubs, Hbound.
  rewrite Forall_forall in IH.
  assert (forall k, In k (akeys tasks) \/ In k (akeys aliases) \/ In k (akeys subs) ->
                    transform ad k = k /\ contains_char "." k = false /\ k <> "") as Hkey.
  { intros k Hk. apply key_ok_spec, Hkeys.
    destruct Hk as [Hk|[Hk|Hk]]; apply in_or_app; [left; exact Hk | right | right];
      apply in_or_app; [left | right]; exact Hk. }
  assert (NoDup (akeys tasks)) as NDt by (apply (NoDup_app_l _ _ Hnd1)).
  rewrite tn_unfold in HIn. apply in_app_or in HIn. destruct HIn as [HIn|HIn].
  - (* a task of this collection *)
    unfold own_names in HIn. apply in_map_iff in HIn. destruct HIn as [[k t] [E HIn]]. subst pa. cbn [fst snd].
    exists t. intros n Hn.
    assert (In k (akeys tasks)) as Hk by (change k with (fst (k, t)); apply in_map; exact HIn).
    destruct Hn as [<-|Hn].
    + destruct (Hkey k (or_introl Hk)) as [_ [Hd _]].
      rewrite (split_dotfree k Hd), ref_unfold. unfold ref_step, sub_ref.
      assert (assoc k subs = None) as Hs.
      { apply assoc_none. apply (task_not_sub tasks aliases subs Hnd1 k Hk). }
      rewrite Hs. unfold task_here. cbn [c_tasks c_aliases].
      rewrite (assoc_in_nodup k t tasks NDt HIn). eauto.
    + apply in_map_iff in Hn. destruct Hn as [a [<- Ha]].
      assert (In (transform ad a, k) (own_pairs ad tasks)) as Hop.
      { unfold own_pairs. apply in_flat_map. exists (k, t). split; [exact HIn|].
        cbn [fst snd]. apply in_map_iff. exists a. split; [reflexivity | exact Ha]. }
      pose proof (Hbound _ Hop) as Hb. cbn [fst snd] in Hb.
      destruct (assoc (transform ad a) aliases) as [k'|] eqn:Ea; [|discriminate].
      cbn in Hb. apply String.eqb_eq in Hb. subst k'.
      assert (In (transform ad a) (akeys aliases)) as Hak by (eapply assoc_In_keys; eauto).
      destruct (Hkey _ (or_intror (or_introl Hak))) as [_ [Hd _]].
      rewrite (split_dotfree _ Hd), ref_unfold. unfold ref_step, sub_ref.
      assert (assoc (transform ad a) subs = None) as Hs.
      { apply assoc_none. apply (alias_not_sub tasks aliases subs Hnd1 _ Hak). }
      rewrite Hs. unfold task_here. cbn [c_tasks c_aliases].
      assert (assoc (transform ad a) tasks = None) as Ht.
      { apply assoc_none. intros H. apply (task_not_alias tasks aliases subs Hnd1 _ H Hak). }
      rewrite Ht, Ea, (assoc_in_nodup k t tasks NDt HIn). eauto.
  - (* an entry of a sub-collection *)
    apply in_flat_map in HIn. destruct HIn as [[cn sc] [Hkc HIn]]. cbn [fst snd] in HIn.
    unfold tn_sub in HIn. apply in_map_iff in HIn. destruct HIn as [pa0 [E Hpa0]]. subst pa. cbn [fst snd].
    destruct (IH _ Hkc (Husubs _ Hkc) (Hwsubs _ Hkc) (Hcsubs _ Hkc) (Hatsubs _ Hkc) pa0 Hpa0) as [t Ht].
    exists t.
    assert (In cn (akeys subs)) as Hcn by (change cn with (fst (cn, sc)); apply in_map; exact Hkc).
    destruct (Hkey cn (or_intror (or_intror Hcn))) as [_ [Hcd _]].
    assert (NoDup (akeys subs)) as NDs by (apply NoDup_app_r in Hnd1; apply NoDup_app_r in Hnd1; exact Hnd1).
    assert (assoc cn subs = Some sc) as Hs by (apply assoc_in_nodup; assumption).
    (* a name of the sub-collection, prefixed *)
    assert (forall n0, In n0 (fst pa0 :: snd pa0) ->
              exists cfgs, ref_path (Coll nm tasks aliases subs dflt ad cfg)
                                    (split_char "." (dot_pfx cn n0)) = Some (t, cfgs)) as Hpfx.
    { intros n0 Hn0. destruct (Ht n0 Hn0) as [cfgs' Hr].
      rewrite (split_pfx cn n0 Hcd), ref_unfold. unfold ref_step.
      destruct (split_char "." n0) as [|y l] eqn:Es; [exfalso; eapply split_nonempty; eauto|].
      unfold sub_ref. rewrite Hs. cbn [snd] in Hr. rewrite Hr. cbn [ref_push]. eauto. }
    intros n Hn. destruct Hn as [<-|Hn]; [apply Hpfx; left; reflexivity|].
    apply in_app_or in Hn. destruct Hn as [Hn|Hn].
    + apply in_map_iff in Hn. destruct Hn as [a0 [<- Ha0]]. apply Hpfx; right; exact Ha0.
    + (* the collection's own name: its default task *)
      destruct (opt_str_eqb (c_default sc) (Some (fst pa0))) eqn:Ed; [|contradiction].
      destruct Hn as [<-|[]].
      destruct (c_default sc) as [d|] eqn:Edf; [|discriminate]. cbn in Ed. apply String.eqb_eq in Ed.
      destruct (Ht (fst pa0) (or_introl eq_refl)) as [cfgs' Hr]. cbn [snd] in Hr.
      (* the default is a key of sc, hence dot-free *)
      assert (contains_char "." d = false) as Hdd.
      { pose proof (Hwsubs _ Hkc) as Hw. pose proof (Hcsubs _ Hkc) as Hc. cbn [snd] in Hw, Hc.
        destruct sc as [n2 t2 a2 s2 d2 ad2 g2]. cbn [c_default] in Edf. subst d2.
        rewrite ns_wf_unfold in Hw. rewrite ns_canon_unfold in Hc.
        rewrite !andb_true_iff in Hw. destruct Hw as [[[[_ _] Hm] _] _].
        apply andb_true_iff in Hc as [Hk2 _]. rewrite forallb_forall in Hk2.
        apply orb_true_iff in Hm. destruct Hm as [Hm|Hm]; apply mem_In in Hm.
        - apply (key_ok_spec ad2 d), Hk2. apply in_or_app; left; exact Hm.
        - apply (key_ok_spec ad2 d), Hk2. apply in_or_app; right. apply in_or_app; right; exact Hm. }
      rewrite <- Ed, (split_dotfree d Hdd) in Hr.
      rewrite (split_dotfree cn Hcd), ref_unfold. unfold ref_step, sub_ref. rewrite Hs.
      assert (ref_path sc [] = ref_path sc [d]) as Heq.
      { destruct sc as [n2 t2 a2 s2 d2 ad2 g2]. cbn [c_default] in Edf. subst d2.
        rewrite !ref_unfold. reflexivity. }
      rewrite Heq, Hr. cbn [ref_push]. eauto.
Qed.

(** * every non-empty reference-resolvable segment list is a flattened name *)
Lemma ref_in_tn ad : forall c root,
  uniform ad c = true -> ns_wf c = true -> ns_canon c = true -> alias_table_own c = true ->
  no_dsub_below root c = true ->
  forall segs t cfgs, segs <> [] -> ref_path c segs = Some (t, cfgs) ->
  exists pa, In pa (tn c) /\ In (join "." segs) (fst pa :: snd pa).
Proof.
  induction c as [nm tasks aliases subs dflt ad' cfg IH] using coll_ind'.
  intros root Hu Hwf Hcan Hat Hnd segs t cfgs Hne Href.
  rewrite uniform_unfold in Hu. apply andb_true_iff in Hu as [Had Husubs].
  apply Bool.eqb_prop in Had. subst ad'.
  rewrite ns_wf_unfold in Hwf. rewrite ns_canon_unfold in Hcan. rewrite alias_table_own_unfold in Hat.
  rewrite no_dsub_unfold in Hnd.
  apply andb_true_iff in Hwf as [Hwf Hwsubs]. apply andb_true_iff in Hwf as [Hwf Hwcfg].
  apply andb_true_iff in Hwf as [Hwf Hwd]. apply andb_true_iff in Hwf as [Hnd1 Hal].
  apply nodupb_NoDup in Hnd1.
  apply andb_true_iff in Hcan as [Hkeys Hcsubs].
  apply andb_true_iff in Hat as [Hat Hatsubs]. apply andb_true_iff in Hat as [_ Hown].
  apply andb_true_iff in Hnd as [_ Hndsubs].
  rewrite forallb_forall in Hwsubs, Hcsubs, Husubs, Hatsubs, Hown, Hndsubs.
  rewrite Forall_forall in IH.
  rewrite tn_unfold. rewrite ref_unfold in Href. unfold ref_step in Href.
  destruct segs as [|s [|y l]]; [congruence| |].
  - (* one segment *)
    unfold sub_ref in Href. destruct (assoc s subs) as [sc|] eqn:Es.
    + (* a collection name: the default task of that collection *)
      pose proof (assoc_In _ _ _ Es) as Hkc.
      destruct (ref_path sc []) as [[t' cfgs']|] eqn:Er; [|discriminate].
      pose proof (Hwsubs _ Hkc) as Hw. pose proof (Hndsubs _ Hkc) as Hn. cbn [snd] in Hw, Hn.
      destruct sc as [n2 t2 a2 s2 d2 ad2 g2].
      rewrite ref_unfold in Er. unfold ref_step in Er.
      destruct d2 as [d|]; [|discriminate].
      rewrite no_dsub_unfold in Hn. cbn [orb] in Hn. apply andb_true_iff in Hn as [Hn _].
      apply negb_true_iff in Hn.
      rewrite ns_wf_unfold in Hw. rewrite !andb_true_iff in Hw. destruct Hw as [[[[_ _] Hm] _] _].
      rewrite Hn, orb_false_r in Hm. apply mem_In in Hm.
      apply in_map_iff in Hm. destruct Hm as [[d' td] [Ed Htd]]. cbn [fst] in Ed. subst d'.
      exists (dot_pfx s d, map (dot_pfx s) (map (transform ad2) (t_aliases td)) ++ [s]).
      split.
      * apply in_or_app; right. apply in_flat_map. exists (s, Coll n2 t2 a2 s2 (Some d) ad2 g2).
        split; [exact Hkc|]. cbn [fst snd]. unfold tn_sub. apply in_map_iff.
        exists (d, map (transform ad2) (t_aliases td)). split.
        -- cbn [fst snd c_default opt_str_eqb]. rewrite String.eqb_refl. reflexivity.
        -- rewrite tn_unfold. apply in_or_app; left. unfold own_names. apply in_map_iff.
           exists (d, td). split; [reflexivity | exact Htd].
      * right. cbn [fst snd join]. apply in_or_app; right. left; reflexivity.
    + destruct (task_here (Coll nm tasks aliases subs dflt ad cfg) s) as [t'|] eqn:Eh; [|discriminate].
      inversion Href; subst t' cfgs. unfold task_here in Eh. cbn [c_tasks c_aliases] in Eh.
      destruct (assoc s tasks) as [t1|] eqn:Et.
      * inversion Eh; subst t1. exists (s, map (transform ad) (t_aliases t)). split.
        -- apply in_or_app; left. unfold own_names. apply in_map_iff. exists (s, t).
           split; [reflexivity | eapply assoc_In; eauto].
        -- left; reflexivity.
      * destruct (assoc s aliases) as [k|] eqn:Ea; [|discriminate].
        pose proof (Hown _ (assoc_In _ _ _ Ea)) as Ho. apply existsb_exists in Ho.
        destruct Ho as [[a' k'] [Hq E]]. cbn [fst snd] in E.
        apply andb_true_iff in E as [E1 E2]. apply String.eqb_eq in E1, E2. subst a' k'.
        unfold own_pairs in Hq. apply in_flat_map in Hq. destruct Hq as [[k2 t2] [Hkt Hq]].
        cbn [fst snd] in Hq. apply in_map_iff in Hq. destruct Hq as [a [Eq Ha]].
        injection Eq as Eq1 Eq2.
        exists (k2, map (transform ad) (t_aliases t2)). split.
        -- apply in_or_app; left. unfold own_names. apply in_map_iff. exists (k2, t2). split; [reflexivity | exact Hkt].
        -- right. cbn [fst snd join]. rewrite <- Eq1. apply in_map; exact Ha.
  - (* several segments: descend *)
    unfold sub_ref in Href. destruct (assoc s subs) as [sc|] eqn:Es; [|discriminate].
    pose proof (assoc_In _ _ _ Es) as Hkc.
    destruct (ref_path sc (y :: l)) as [[t' cfgs']|] eqn:Er; [|discriminate].
    destruct (IH _ Hkc false (Husubs _ Hkc) (Hwsubs _ Hkc) (Hcsubs _ Hkc) (Hatsubs _ Hkc) (Hndsubs _ Hkc)
                 (y :: l) t' cfgs' ltac:(discriminate) Er) as [pa0 [Hpa0 Hin]].
    exists (dot_pfx s (fst pa0),
            map (dot_pfx s) (snd pa0) ++
            (if opt_str_eqb (c_default sc) (Some (fst pa0)) then [s] else [])).
    split.
    + apply in_or_app; right. apply in_flat_map. exists (s, sc). split; [exact Hkc|].
      cbn [fst snd]. unfold tn_sub. apply in_map_iff. exists pa0. split; [reflexivity | exact Hpa0].
    + rewrite join_pfx. cbn [fst snd]. destruct Hin as [Hin|Hin].
      * left. rewrite Hin. reflexivity.
      * right. apply in_or_app; left. apply in_map; exact Hin.
Qed.

(** * assembling the agreement at any depth *)
Definition all_names (l : list (string * list string)) : list string :=
  flat_map (fun pa => fst pa :: snd pa) l.
Definition all_pairs (l : list (string * list string)) : list (string * string) :=
  flat_map (fun pa => map (fun a => (a, fst pa)) (snd pa)) l.

Definition deep_guard (c : coll) : bool :=
  uniform (c_auto_dash c) c && ns_wf c && ns_canon c && alias_table_own c &&
  no_dsub_below true c && compat_down [] c && nodupb (all_names (tn c)).

Lemma prims_nodup l : NoDup (all_names l) -> NoDup (map fst l).
Proof.
  induction l as [|[p als] l IH]; intros ND; [constructor|].
  cbn [all_names flat_map fst snd map] in *. inversion ND as [|? ? Hn ND']; subst.
  constructor.
  - intros H. apply Hn. apply in_or_app; right.
    apply in_map_iff in H. destruct H as [[p' als'] [E H]]. cbn [fst] in E. subst p'.
    unfold all_names. apply in_flat_map. exists (p, als'). split; [exact H | left; reflexivity].
  - apply IH. apply NoDup_app_r in ND'. exact ND'.
Qed.

Lemma tn_nonempty_segs ad : forall c,
  uniform ad c = true -> ns_canon c = true -> alias_table_own c = true ->
  forall n, In n (all_names (tn c)) -> nonempty_segs n = true.
Proof.
  induction c as [nm tasks aliases subs dflt ad' cfg IH] using coll_ind'.
  intros Hu Hcan Hat n Hn.
  rewrite uniform_unfold in Hu. apply andb_true_iff in Hu as [Had Husubs].
  apply Bool.eqb_prop in Had. subst ad'.
  rewrite ns_canon_unfold in Hcan. rewrite alias_table_own_unfold in Hat.
  apply andb_true_iff in Hcan as [Hkeys Hcsubs].
  apply andb_true_iff in Hat as [Hat Hatsubs]. apply andb_true_iff in Hat as [Hbound _].
  rewrite forallb_forall in Hkeys, Hcsubs, Husubs, Hatsubs, Hbound. rewrite Forall_forall in IH.
  assert (forall k, In k (akeys tasks ++ akeys aliases ++ akeys subs) -> nonempty_segs k = true) as Hk.
  { intros k Hin. destruct (key_ok_spec ad k (Hkeys k Hin)) as [_ [Hd Hne]].
    unfold nonempty_segs. rewrite (split_dotfree k Hd). cbn [forallb].
    apply String.eqb_neq in Hne. rewrite Hne. reflexivity. }
  unfold all_names in Hn. apply in_flat_map in Hn. destruct Hn as [pa [Hpa Hn]].
  rewrite tn_unfold in Hpa. apply in_app_or in Hpa. destruct Hpa as [Hpa|Hpa].
  - unfold own_names in Hpa. apply in_map_iff in Hpa. destruct Hpa as [[k t] [E HIn]]. subst pa.
    cbn [fst snd] in Hn. destruct Hn as [<-|Hn].
    + apply Hk. apply in_or_app; left. change k with (fst (k, t)). apply in_map; exact HIn.
    + apply in_map_iff in Hn. destruct Hn as [a [<- Ha]].
      assert (In (transform ad a, k) (own_pairs ad tasks)) as Hop.
      { unfold own_pairs. apply in_flat_map. exists (k, t). split; [exact HIn|].
        cbn [fst snd]. apply in_map_iff. exists a. split; [reflexivity | exact Ha]. }
      pose proof (Hbound _ Hop) as Hb. cbn [fst snd] in Hb.
      destruct (assoc (transform ad a) aliases) as [k'|] eqn:Ea; [|discriminate].
      apply Hk. apply in_or_app; right. apply in_or_app; left. eapply assoc_In_keys; eauto.
  - apply in_flat_map in Hpa. destruct Hpa as [[cn sc] [Hkc Hpa]]. cbn [fst snd] in Hpa.
    unfold tn_sub in Hpa. apply in_map_iff in Hpa. destruct Hpa as [pa0 [E Hpa0]]. subst pa.
    cbn [fst snd] in Hn.
    assert (In cn (akeys subs)) as Hcn by (change cn with (fst (cn, sc)); apply in_map; exact Hkc).
    assert (In cn (akeys tasks ++ akeys aliases ++ akeys subs)) as Hcn'
      by (apply in_or_app; right; apply in_or_app; right; exact Hcn).
    destruct (key_ok_spec ad cn (Hkeys cn Hcn')) as [_ [Hcd Hcne]].
    assert (forall n0, In n0 (fst pa0 :: snd pa0) -> nonempty_segs (dot_pfx cn n0) = true) as Hp.
    { intros n0 Hn0. unfold nonempty_segs. rewrite (split_pfx cn n0 Hcd). cbn [forallb].
      apply String.eqb_neq in Hcne. rewrite Hcne. cbn [negb andb].
      apply (IH _ Hkc (Husubs _ Hkc) (Hcsubs _ Hkc) (Hatsubs _ Hkc) n0).
      unfold all_names. apply in_flat_map. exists pa0. split; assumption. }
    destruct Hn as [<-|Hn]; [apply Hp; left; reflexivity|].
    apply in_app_or in Hn. destruct Hn as [Hn|Hn].
    + apply in_map_iff in Hn. destruct Hn as [a0 [<- Ha0]]. apply Hp; right; exact Ha0.
    + destruct (opt_str_eqb (c_default sc) (Some (fst pa0))); [|contradiction].
      destruct Hn as [<-|[]]. apply Hk; exact Hcn'.
Qed.

Lemma ctxs_of_shape c : forall l,
  (forall pa, In pa l -> exists t, getitem c (fst pa) = Ok t) ->
  exists cs, ctxs_of c l = Ok cs /\ map (fun x : ctx => fst x) cs = l.
Proof.
  induction l as [|[p als] l IH]; intros H; [exists []; split; reflexivity|].
  destruct (H (p, als) (or_introl eq_refl)) as [t Ht]. cbn [fst] in Ht.
  destruct (IH (fun pa Hpa => H pa (or_intror Hpa))) as [cs [Hcs Hm]].
  exists ((p, als, t_id t) :: cs). cbn [ctxs_of]. rewrite Ht, Hcs. split; [reflexivity|].
  cbn [map fst]. rewrite Hm. reflexivity.
Qed.

Lemma ctx_names_fst cs : ctx_names cs = all_names (map (fun x : ctx => fst x) cs).
Proof.
  unfold ctx_names, all_names. induction cs as [|x cs IH]; [reflexivity|].
  cbn [flat_map map]. rewrite IH. reflexivity.
Qed.

Lemma ctx_pairs_fst cs : ctx_pairs cs = all_pairs (map (fun x : ctx => fst x) cs).
Proof.
  unfold ctx_pairs, all_pairs. induction cs as [|x cs IH]; [reflexivity|].
  cbn [flat_map map]. rewrite IH. reflexivity.
Qed.

Lemma all_pairs_in l n p : In (n, p) (all_pairs l) <-> exists als, In (p, als) l /\ In n als.
Proof.
  unfold all_pairs. rewrite in_flat_map. split.
  - intros [[p' als] [Hpa H]]. cbn [fst snd] in H. apply in_map_iff in H. destruct H as [a [E Ha]].
    inversion E; subst. eauto.
  - intros [als [Hpa Hn]]. exists (p, als). split; [exact Hpa|]. cbn [fst snd].
    apply in_map_iff. exists n. auto.
Qed.

Lemma all_pairs_keys l : map fst (all_pairs l) = flat_map snd l.
Proof.
  unfold all_pairs. induction l as [|[p als] l IH]; [reflexivity|].
  cbn [flat_map fst snd]. rewrite map_app, IH, map_map. cbn [fst]. rewrite map_id. reflexivity.
Qed.

Lemma in_all_names l n : In n (all_names l) <-> exists pa, In pa l /\ In n (fst pa :: snd pa).
Proof. unfold all_names. apply in_flat_map. Qed.

(** inside the guard the parser is built, and only canonical names are accepted *)
Lemma deep_parser c :
  deep_guard c = true ->
  exists r, parser_of c = Ok r /\
            forall n p, preg_primary r n = Some p -> canonical (c_auto_dash c) n = true.
Proof.
  intros G.
  unfold deep_guard in G. rewrite !andb_true_iff in G.
  destruct G as [[[[[[Hu Hwf] Hcan] Hat] Hnd] Hcd] Hnn].
  apply nodupb_NoDup in Hnn. set (ad := c_auto_dash c) in *.
  pose proof (task_names_tn ad c Hu Hcan (prims_nodup _ Hnn)) as Htn.
  (* every flattened name is canonical and is looked up to the task of its entry *)
  assert (forall m, In m (all_names (tn c)) -> canonical ad m = true) as Hcanon.
  { intros m Hm. unfold canonical. pose proof (tn_nonempty_segs ad c Hu Hcan Hat m Hm) as Hs.
    unfold nonempty_segs in Hs. rewrite Hs. cbn [andb].
    apply normalized_iff_fixed. apply in_all_names in Hm. destruct Hm as [pa [Hpa Hm]].
    destruct (tn_fixed ad c Hu Hcan pa Hpa) as [F1 F2]. destruct Hm as [<-|Hm]; [exact F1 | apply F2; exact Hm]. }
  assert (forall pa, In pa (tn c) -> exists t, forall m, In m (fst pa :: snd pa) -> getitem c m = Ok t) as Hget.
  { intros pa Hpa. destruct (entries_resolve ad c Hu Hwf Hcan Hat pa Hpa) as [t Ht]. exists t.
    intros m Hm. apply (lookup_iff_reference c m t Hu Hwf Hcan Hcd).
    - apply Hcanon. apply in_all_names. eauto.
    - apply Ht; exact Hm. }
  (* the parser registry *)
  destruct (ctxs_of_shape c (tn c)) as [cs [Hcs Hshape]].
  { intros pa Hpa. destruct (Hget pa Hpa) as [t Ht]. exists t. apply Ht. left; reflexivity. }
  assert (parser_of c = Ok (map (fun x : ctx => (fst (fst x), snd x)) cs, all_pairs (tn c))) as Hparser.
  { unfold parser_of, to_contexts. rewrite Htn, Hcs.
    rewrite parser_init_ok; cbn [fst snd app].
    - rewrite ctx_pairs_fst, Hshape. reflexivity.
    - rewrite ctx_names_fst, Hshape. exact Hnn.
    - intros x _. split; intros [].
    - apply Forall_forall. intros x Hx.
      assert (In (fst (fst x)) (all_names (tn c))) as Hin.
      { apply in_all_names. exists (fst x). split; [rewrite <- Hshape; apply in_map; exact Hx | left; reflexivity]. }
      apply (canonical_nonempty ad). apply Hcanon; exact Hin. }
  assert (akeys (map (fun x : ctx => (fst (fst x), snd x)) cs) = map fst (tn c)) as Hkeys.
  { unfold akeys. rewrite map_map. cbn [fst]. rewrite <- Hshape, map_map. reflexivity. }
  eexists. split; [exact Hparser|].
  intros n p Hpp. unfold preg_primary in Hpp. cbn [fst snd] in Hpp. unfold has_key in Hpp.
  destruct (assoc n (map (fun x : ctx => (fst (fst x), snd x)) cs)) as [i|] eqn:Ek.
  - apply assoc_In_keys in Ek. rewrite Hkeys in Ek. apply in_map_iff in Ek.
    destruct Ek as [pa [E Hpa]]. apply Hcanon. apply in_all_names. exists pa. split; [exact Hpa | left; exact E].
  - apply assoc_In in Hpp. apply all_pairs_in in Hpp. destruct Hpp as [als [Hpa Hn]].
    apply Hcanon. apply in_all_names. exists (p, als). split; [exact Hpa | right; exact Hn].
Qed.

Theorem deep_names_agree c n :
  deep_guard c = true -> n <> "" -> name_ok (c_auto_dash c) n (model_nobs c n) = true.
Proof.
  intros G Hn0. apply String.eqb_neq in Hn0. unfold deep_guard in G. rewrite !andb_true_iff in G.
  destruct G as [[[[[[Hu Hwf] Hcan] Hat] Hnd] Hcd] Hnn].
  apply nodupb_NoDup in Hnn. set (ad := c_auto_dash c) in *.
  pose proof (task_names_tn ad c Hu Hcan (prims_nodup _ Hnn)) as Htn.
  (* every flattened name is canonical and is looked up to the task of its entry *)
  assert (forall m, In m (all_names (tn c)) -> canonical ad m = true) as Hcanon.
  { intros m Hm. unfold canonical. pose proof (tn_nonempty_segs ad c Hu Hcan Hat m Hm) as Hs.
    unfold nonempty_segs in Hs. rewrite Hs. cbn [andb].
    apply normalized_iff_fixed. apply in_all_names in Hm. destruct Hm as [pa [Hpa Hm]].
    destruct (tn_fixed ad c Hu Hcan pa Hpa) as [F1 F2]. destruct Hm as [<-|Hm]; [exact F1 | apply F2; exact Hm]. }
  assert (forall pa, In pa (tn c) -> exists t, forall m, In m (fst pa :: snd pa) -> getitem c m = Ok t) as Hget.
  { intros pa Hpa. destruct (entries_resolve ad c Hu Hwf Hcan Hat pa Hpa) as [t Ht]. exists t.
    intros m Hm. apply (lookup_iff_reference c m t Hu Hwf Hcan Hcd).
    - apply Hcanon. apply in_all_names. eauto.
    - apply Ht; exact Hm. }
  (* the parser registry *)
  destruct (ctxs_of_shape c (tn c)) as [cs [Hcs Hshape]].
  { intros pa Hpa. destruct (Hget pa Hpa) as [t Ht]. exists t. apply Ht. left; reflexivity. }
  assert (parser_of c = Ok (map (fun x : ctx => (fst (fst x), snd x)) cs, all_pairs (tn c))) as Hparser.
  { unfold parser_of, to_contexts. rewrite Htn, Hcs.
    rewrite parser_init_ok; cbn [fst snd app].
    - rewrite ctx_pairs_fst, Hshape. reflexivity.
    - rewrite ctx_names_fst, Hshape. exact Hnn.
    - intros x _. split; intros [].
    - apply Forall_forall. intros x Hx.
      assert (In (fst (fst x)) (all_names (tn c))) as Hin.
      { apply in_all_names. exists (fst x). split; [rewrite <- Hshape; apply in_map; exact Hx | left; reflexivity]. }
      apply (canonical_nonempty ad). apply Hcanon; exact Hin. }
  assert (akeys (map (fun x : ctx => (fst (fst x), snd x)) cs) = map fst (tn c)) as Hkeys.
  { unfold akeys. rewrite map_map. cbn [fst]. rewrite <- Hshape, map_map. reflexivity. }
  unfold name_ok, model_nobs, accepted, resolves, cli_run. rewrite Hn0. unfold cli_token.
  cbn [o_contains o_getitem o_parser o_ran].
  rewrite Hparser. unfold preg_primary. cbn [fst snd]. unfold has_key.
  destruct (assoc n (map (fun x : ctx => (fst (fst x), snd x)) cs)) as [i|] eqn:Ek.
  - (* a primary name *)
    apply assoc_In_keys in Ek. rewrite Hkeys in Ek. apply in_map_iff in Ek.
    destruct Ek as [pa [E Hpa]]. destruct (Hget pa Hpa) as [t Ht].
    assert (getitem c n = Ok t) as Hg by (apply Ht; left; exact E).
    assert (canonical ad n = true) as Hc.
    { apply Hcanon. apply in_all_names. exists pa. split; [exact Hpa | left; exact E]. }
    rewrite Hc. unfold contains. rewrite Hg. cbn. rewrite Nat.eqb_refl. reflexivity.
  - destruct (assoc n (all_pairs (tn c))) as [p|] eqn:Ea.
    + (* an alias or default shortcut *)
      apply assoc_In in Ea. apply all_pairs_in in Ea. destruct Ea as [als [Hpa Hn]].
      destruct (Hget (p, als) Hpa) as [t Ht]. cbn [fst snd] in Ht.
      assert (getitem c n = Ok t) as Hg by (apply Ht; right; exact Hn).
      assert (getitem c p = Ok t) as Hp by (apply Ht; left; reflexivity).
      assert (canonical ad n = true) as Hc.
      { apply Hcanon. apply in_all_names. exists (p, als). split; [exact Hpa | right; exact Hn]. }
      rewrite Hc. unfold contains. rewrite Hg, Hp. cbn. rewrite Nat.eqb_refl. reflexivity.
    + (* not a command-line name: then not a canonical name that resolves *)
      cbn [Bool.eqb].
      destruct (canonical ad n) eqn:Hc; [|reflexivity].
      destruct (contains c n) as [[|]|e] eqn:Ec; try reflexivity.
      exfalso.
      apply (contains_iff_reference c n Hu Hwf Hcan Hcd Hc) in Ec. destruct Ec as [t [cfgs Hr]].
      destruct (ref_in_tn ad c true Hu Hwf Hcan Hat Hnd _ t cfgs (split_nonempty "." n) Hr) as [pa [Hpa Hin]].
      rewrite join_split in Hin. destruct Hin as [Hin|Hin].
      * apply assoc_none in Ek. apply Ek. rewrite Hkeys. rewrite <- Hin. apply in_map; exact Hpa.
      * apply assoc_none in Ea. apply Ea. unfold akeys. rewrite all_pairs_keys.
        apply in_flat_map. exists pa. split; assumption.
Qed.

(** the whole judgement of a token: names, per-task help, and the invocation
    without any task *)
Theorem deep_tokens_agree c n :
  deep_guard c = true -> token_ok (c_auto_dash c) n (model_nobs c n) = true.
Proof.
  intros G. unfold token_ok. destruct (String.eqb n "") eqn:En.
  - apply String.eqb_eq in En. subst n.
    destruct (deep_parser c G) as [r [Hp Hc]].
    apply default_invocation.
    + unfold deep_guard in G. rewrite !andb_true_iff in G. destruct G as [[[[[[_ Hwf] _] _] _] _] _].
      destruct c as [nm t a s d ad g]. rewrite ns_wf_unfold in Hwf. rewrite !andb_true_iff in Hwf.
      cbn [c_config]. tauto.
    + exists r. split; [exact Hp|]. destruct (preg_primary r "") as [p|] eqn:E; [|reflexivity].
      specialize (Hc "" p E). destruct (c_auto_dash c); vm_compute in Hc; discriminate.
  - apply String.eqb_neq in En. pose proof (deep_names_agree c n G En) as H.
    rewrite H. apply help_from_names; assumption.
Qed.
