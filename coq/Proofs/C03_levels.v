(** C03: the merged view agrees with the per-setting oracle at every path. *)
From InvokeVerif Require Import Common.Tree Common.StrUtil Model.MergeModel Model.ConfigModel
     Spec.C03Spec Proofs.ListFacts Proofs.TreeFacts Proofs.C03_merge.

(** * all_paths is complete *)
Definition all_paths_kids (kids : dict) : list path :=
  flat_map (fun kc => map (cons (fst kc)) (all_paths (snd kc))) kids.

Lemma all_paths_Node kids : all_paths (Node kids) = [] :: all_paths_kids kids.
Proof.
  simpl. f_equal. unfold all_paths_kids.
  induction kids as [|[k c] kids IH]; simpl; [reflexivity|]. rewrite IH. reflexivity.
Qed.

Lemma all_paths_complete : forall t p t', lookup p t = Some t' -> In p (all_paths t).
Proof.
  induction t as [v | kids IH] using tree_ind'; intros p t' H.
  - destruct p; simpl in *; [left; reflexivity | discriminate].
  - rewrite all_paths_Node. destruct p as [|k p]; [left; reflexivity|]. right.
    simpl in H. destruct (get k kids) as [c|] eqn:G; [|discriminate].
    unfold all_paths_kids. apply in_flat_map. exists (k, c). split; [apply get_in; assumption|].
    simpl. apply in_map. rewrite Forall_forall in IH.
    apply (IH (k, c) (get_in _ _ _ G) p t' H).
Qed.

(** * The boolean guard implies pairwise agreement *)
Lemma kinds_at_in p ls l t : In l ls -> lookup p l = Some t -> In (is_node t) (kinds_at p ls).
Proof.
  intros Hin Hl. unfold kinds_at. apply in_flat_map. exists l. split; [assumption|].
  rewrite Hl. left; reflexivity.
Qed.

Lemma consistent_all_equal p ls x y :
  consistent_at p ls = true -> In x (kinds_at p ls) -> In y (kinds_at p ls) -> x = y.
Proof.
  unfold consistent_at. destruct (kinds_at p ls) as [|b r]; [intros _ []|].
  intros H Hx Hy. rewrite forallb_forall in H.
  assert (E : forall z, In z (b :: r) -> z = b).
  { intros z [Hz|Hz]; [congruence|]. symmetry. apply Bool.eqb_prop, H, Hz. }
  rewrite (E x Hx), (E y Hy). reflexivity.
Qed.

Lemma levels_tc_agree ls : levels_tc ls = true ->
  forall a b, In a ls -> In b ls -> agree a b.
Proof.
  intros H a b Ha Hb p. unfold levels_tc in H. rewrite forallb_forall in H.
  unfold shape_at. destruct (lookup p a) as [ta|] eqn:La; [|exact I].
  destruct (lookup p b) as [tb|] eqn:Lb; [|destruct (shape_of ta); simpl; exact I].
  assert (Hp : In p (flat_map all_paths ls)).
  { apply in_flat_map. exists a. split; [assumption|]. eapply all_paths_complete; eassumption. }
  specialize (H p Hp).
  assert (E : is_node ta = is_node tb).
  { apply (consistent_all_equal p ls _ _ H).
    - exact (kinds_at_in p ls a ta Ha La).
    - exact (kinds_at_in p ls b tb Hb Lb). }
  destruct ta, tb; simpl in *; try discriminate; exact I.
Qed.

(** * merge_all vs the oracle *)
Lemma oracle_cons p l rest : oracle p (l :: rest) = orelse (oracle p rest) (shape_at p l).
Proof. simpl. destruct (oracle p rest); reflexivity. Qed.

Lemma merge_all_shape : forall ls acc,
  wf (Node acc) = true ->
  (forall l, In l ls -> wf l = true /\ is_node l = true /\ agree (Node acc) l) ->
  (forall a b, In a ls -> In b ls -> agree a b) ->
  exists m, merge_all ls acc = Ok m /\ wf (Node m) = true /\
            forall p, shape_at p (Node m) = orelse (oracle p ls) (shape_at p (Node acc)).
Proof.
  induction ls as [|l rest IH]; intros acc Hacc Hl Hpair.
  - exists acc. split; [reflexivity|]. split; [assumption|]. intros p; reflexivity.
  - destruct (Hl l (or_introl eq_refl)) as [Wl [Nl Al]].
    destruct l as [v|us]; [discriminate|].
    destruct (merge_lookup acc us Hacc Wl Al) as [m1 [E1 [W1 S1]]].
    destruct (IH m1 W1) as [m [Em [Wm Sm]]].
    + intros l' Hin. destruct (Hl l' (or_intror Hin)) as [W' [N' A']].
      split; [assumption|]. split; [assumption|].
      intros p. rewrite S1.
      pose proof (Hpair (Node us) l' (or_introl eq_refl) (or_intror Hin) p) as Hp.
      pose proof (A' p) as Ha.
      destruct (shape_at p (Node us)); simpl; assumption.
    + intros a b Ha Hb. apply Hpair; right; assumption.
    + exists m. split; [cbn [merge_all]; rewrite E1; exact Em|]. split; [assumption|].
      intros p. rewrite Sm, S1, oracle_cons, orelse_assoc. reflexivity.
Qed.

Lemma oracle_root ls : ls <> [] -> forallb is_node ls = true -> oracle [] ls = Some SNode.
Proof.
  induction ls as [|l rest IH]; [congruence|]. intros _ H. simpl in H.
  apply andb_true_iff in H as [Hl Hr]. rewrite oracle_cons.
  destruct rest as [|l' rest'].
  - simpl. destruct l; [discriminate | reflexivity].
  - rewrite IH; [reflexivity | congruence | assumption].
Qed.

(** Flagship: for type-consistent levels the merge succeeds and the view
    agrees with the oracle at every path. *)
Theorem highest_level_wins : forall ls,
  ls <> [] -> forallb wf ls = true -> forallb is_node ls = true -> levels_tc ls = true ->
  exists view, merge_all ls [] = Ok view /\ wf (Node view) = true /\
               forall p, shape_at p (Node view) = oracle p ls.
Proof.
  intros ls Hne Hwf Hn Htc.
  rewrite forallb_forall in Hwf. pose proof Hn as Hn'. rewrite forallb_forall in Hn'.
  destruct (merge_all_shape ls [] eq_refl) as [m [Em [Wm Sm]]].
  - intros l Hin. split; [auto|]. split; [auto|].
    specialize (Hn' l Hin). destruct l; [discriminate|]. apply agree_empty_node.
  - apply levels_tc_agree; assumption.
  - exists m. split; [assumption|]. split; [assumption|].
    intros p. rewrite Sm. destruct p as [|k p].
    + rewrite oracle_root by assumption. reflexivity.
    + rewrite shape_at_empty by congruence. apply orelse_none_r.
Qed.

(** What the oracle says, spelled out: the last level defining the path. *)
Lemma oracle_some_iff p ls s :
  oracle p ls = Some s <->
  exists l1 L l2, ls = l1 ++ L :: l2 /\ shape_at p L = Some s /\
                  forall L', In L' l2 -> shape_at p L' = None.
Proof.
  induction ls as [|l rest IH]; simpl.
  - split; [discriminate|]. intros [l1 [L [l2 [E _]]]]. destruct l1; discriminate.
  - destruct (oracle p rest) as [s'|] eqn:Eo.
    + split.
      * intros H. inversion H; subst s'. destruct (proj1 IH eq_refl) as [l1 [L [l2 [E [HL Hl2]]]]].
        exists (l :: l1), L, l2. subst rest. split; [reflexivity|]. auto.
      * intros [l1 [L [l2 [E [HL Hl2]]]]]. destruct l1 as [|x l1]; simpl in E; inversion E; subst.
        -- assert (Hnone : oracle p l2 = None).
           { clear -Hl2. induction l2 as [|y l2 IH2]; [reflexivity|]. simpl.
             rewrite IH2 by (intros; apply Hl2; right; assumption).
             apply Hl2. left; reflexivity. }
           congruence.
        -- f_equal. assert (Hs : Some s' = Some s); [|congruence].
           apply IH. exists l1, L, l2. auto.
    + split.
      * intros H. exists [], l, rest. split; [reflexivity|]. split; [assumption|].
        clear -Eo. induction rest as [|y rest IH2]; intros L' []; simpl in Eo;
          destruct (oracle p rest) eqn:E2; try discriminate.
        -- subst; assumption.
        -- apply IH2; [reflexivity | assumption].
      * intros [l1 [L [l2 [E [HL Hl2]]]]]. destruct l1 as [|x l1]; simpl in E; inversion E; subst.
        -- assumption.
        -- exfalso. assert (Hs : None = Some s); [|discriminate].
           apply IH. exists l1, L, l2. auto.
Qed.

(** The merged view of type-consistent levels is accepted by the executable
    check of the specification. *)
Theorem view_meets_spec : forall ls view,
  ls <> [] -> forallb wf ls = true -> forallb is_node ls = true -> levels_tc ls = true ->
  merge_all ls [] = Ok view -> view_ok ls (Node view) = true.
Proof.
  intros ls view Hne Hwf Hn Htc E.
  destruct (highest_level_wins ls Hne Hwf Hn Htc) as [v' [E' [W S]]].
  rewrite E in E'. inversion E'; subst v'.
  unfold view_ok. rewrite W. cbn [andb]. apply forallb_forall. intros p _. rewrite S.
  destruct (oracle p ls) as [[x|]|]; simpl; auto. apply value_eqb_eq. reflexivity.
Qed.

(** * First existing candidate only *)
Theorem first_suffix_only : forall fs loc,
  try_suffixes fs loc file_suffixes =
  match first_existing fs loc with
  | Some (s, FData t) => LFound s t
  | Some (s, FIOErr) => LFail
  | None => LFound "py" (Node [])    (* (!) load_source returns {} for a missing .py *)
  end.
Proof.
  intros fs loc. unfold first_existing, file_suffixes, doc_suffixes, exists_at. simpl.
  destruct (fs_get fs loc "yaml") as [[t|]|] eqn:E1; simpl; try rewrite E1; try reflexivity.
  destruct (fs_get fs loc "yml") as [[t|]|] eqn:E2; simpl; try rewrite E2; try reflexivity.
  destruct (fs_get fs loc "json") as [[t|]|] eqn:E3; simpl; try rewrite E3; try reflexivity.
  destruct (fs_get fs loc "py") as [[t|]|] eqn:E4; simpl; try rewrite E4; reflexivity.
Qed.

(** Candidates after the first existing one are never consulted. *)
Corollary later_candidates_irrelevant : forall fs fs' loc,
  first_existing fs loc = first_existing fs' loc ->
  try_suffixes fs loc file_suffixes = try_suffixes fs' loc file_suffixes.
Proof. intros fs fs' loc H. rewrite !first_suffix_only, H. reflexivity. Qed.

(** * The order in which merge() applies the levels *)
Lemma order_is_documented : level_order = doc_order /\ file_suffixes = doc_suffixes.
Proof. split; reflexivity. Qed.

Lemma level_list_names c : map fst (level_list c) = level_order.
Proof. reflexivity. Qed.
