(** C19, one collection object mounted under several parents.

    In the model a namespace is a value: a group added to two parents simply
    occurs twice in the tree, [run_calls] receives the tree as a parameter it
    never rebuilds, and [configuration ns n] is a function of the tree and the
    name alone -- "lookups leave nothing behind" holds by construction of the
    model (that the implementation agrees is what the correspondence runs
    check: sessions through both mount points, in both orders, and lookups
    made before the session).  Proved here: the path by which the
    specification judges a named call ([call_path]) is, for every tree and
    every canonical name, exactly the list of configurations whose per-setting
    merge the model loads for that call -- whatever other mount points the
    task's collection has, and whatever was looked up before. *)
From InvokeVerif Require Import Model.SessionModel Spec.C19Spec Corr.C19Corr Spec.C17Spec
     Proofs.C17_path Proofs.C19_session.

Lemma paths_by_name_nil c recs :
  paths_by_name c recs [] = map (fun r : C19Spec.brecord => home c (fst (fst (fst r)))) recs.
Proof. induction recs as [|r recs IH]; [reflexivity|]. cbn. rewrite IH. reflexivity. Qed.

(** without names the judgement by name is the judgement by home *)
Lemma spec_ok_named_nil c dflts overrides bodies envs obs :
  spec_ok_named c dflts overrides bodies envs [] obs = C19Spec.spec_ok c dflts overrides bodies envs obs.
Proof.
  unfold spec_ok_named, C19Spec.spec_ok, spec_gen.
  destruct obs as [[recs esc]|e]; [|reflexivity].
  rewrite paths_by_name_nil. reflexivity.
Qed.

Lemma call_path_unnamed c t : call_path c t None = home c t.
Proof. reflexivity. Qed.

Lemma call_path_named c n t cfgs :
  ref_path c (segs_of n) = Some (t, cfgs) -> call_path c (t_id t) (Some n) = Some cfgs.
Proof. intros H. unfold call_path, path_if. rewrite H, PeanoNat.Nat.eqb_refl. reflexivity. Qed.

(** the specification's path of a named call = the configurations the model merges for it *)
Lemma named_call_path_level ns fs c0 n t cfgs :
  ns_wf ns = true -> ns_canon ns = true ->
  ref_path ns (segs_of n) = Some (t, cfgs) -> all_compatible cfgs = true ->
  call_path ns (t_id t) (Some n) = Some cfgs /\
  exists d,
    configuration ns n = Ok d /\
    (forall p, leaf_at p (Node d) = first_some (map (fun g => leaf_at p (Node g)) cfgs)) /\
    c_collection (fst (step fs c0 (LoadCollection (Node d)))) = Node d.
Proof.
  intros Hwf Hcan Href Hall. split; [exact (call_path_named ns n t cfgs Href)|].
  destruct (named_call_level ns fs c0 n t cfgs Hwf Hcan Href Hall) as [d [Hd [Hp [Hc _]]]].
  exists d. repeat split; assumption.
Qed.

(** * Witness: the group db{k:{g:3}} > t1, t2 under p{k:{p:1}, only:5} and under s{k:{s:2}} *)
Definition grp_item : item :=
  ISub (Some "db") true (Node [("k", Node [("g", Leaf (VInt 3))])])
       [ITask (tk 1 "t1") None [] (Some true); ITask (tk 2 "t2") None [] None] None false.

Definition shared_script : item :=
  ISub None true (Node [("k", Node [("x", Leaf (VInt 0))])])
       [ITask (tk 0 "t0") None [] (Some true);
        ISub (Some "p") true (Node [("k", Node [("p", Leaf (VInt 1))]); ("only", Leaf (VInt 5))]) [grp_item] None false;
        ISub (Some "s") true (Node [("k", Node [("s", Leaf (VInt 2))])]) [grp_item] None false]
       None false.

Definition shared_tree : coll :=
  match build shared_script with Ok c => c | Err _ => new_coll None true end.

Definition init_e : init_args := mkInit (Node []) (Node []) None None false.

Definition judge_named (bodies : list (nat * list op)) (reqs : list (string * scall)) (dd : bool)
           (envs : list (list (string * string))) : bool :=
  spec_ok_named shared_tree (Node []) (Node []) (body_of bodies) envs
                (map snd (session_calls reqs None dd))
                (session shared_tree init_e bodies reqs None dd envs).

(** both orders, the same task through both mounts, there and back, with an
    environment naming the setting only [p] has: every body sees the settings
    of the path it was called through, and only those *)
Lemma shared_group_sessions :
  ns_wf shared_tree = true /\
  (* the two mount points are different paths for the same task *)
  call_path shared_tree 2 (Some "p.db.t2") <> call_path shared_tree 2 (Some "s.db.t2") /\
  call_path shared_tree 2 (Some "s.db.t2") <> home shared_tree 2 /\
  judge_named [] [("p.db.t1", leaf_call 1); ("s.db.t2", leaf_call 2)] true [[]] = true /\
  judge_named [] [("s.db.t2", leaf_call 2); ("p.db.t1", leaf_call 1)] true [[]] = true /\
  judge_named [(1, [SetV Item ["k"] "n" (Leaf (VInt 5))])]
              [("p.db.t1", leaf_call 1); ("s.db.t1", leaf_call 1); ("p.db", leaf_call 1)] false
              [[("INVOKE_ONLY", "9"); ("INVOKE_K_P", "7")]] = true /\
  (exists vp vs,
     session shared_tree init_e [] [("p.db.t1", leaf_call 1); ("s.db.t2", leaf_call 2)] None true [[]]
     = Ok ([(1, vp, [], vp); (2, vs, [], vs)], None) /\
     leaf_at ["only"] (Node vp) = Some (VInt 5) /\ leaf_at ["k"; "p"] (Node vp) = Some (VInt 1) /\
     leaf_at ["k"; "s"] (Node vp) = None /\
     leaf_at ["only"] (Node vs) = None /\ leaf_at ["k"; "p"] (Node vs) = None /\
     leaf_at ["k"; "s"] (Node vs) = Some (VInt 2) /\ leaf_at ["k"; "g"] (Node vs) = Some (VInt 3) /\
     (* the second body's view is what a session of that call alone shows *)
     session shared_tree init_e [] [("s.db.t2", leaf_call 2)] None true [[]] = Ok ([(2, vs, [], vs)], None)).
Proof.
  split; [vm_compute; reflexivity|].
  split; [vm_compute; discriminate|].
  split; [vm_compute; discriminate|].
  split; [vm_compute; reflexivity|].
  split; [vm_compute; reflexivity|].
  split; [vm_compute; reflexivity|].
  eexists. eexists. split; [vm_compute; reflexivity|].
  repeat split; vm_compute; reflexivity.
Qed.
