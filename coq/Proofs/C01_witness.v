(** C01: refutation witnesses and the bounded sweep over spelling scripts. *)
From InvokeVerif Require Import Corr.C01Corr.

(** [t(c, name, num=1, yes=True, flag=False, v=0 (counter))] with alias u, and
    [w(c, lst=None (iterable), opt=None (optional value))]: the contexts
    Collection.to_contexts() builds (harness/props/c01.py enumerate_small). *)
Definition sw_t : ctxspec :=
  mkCtx (Some "t") ["u"]
    [mkArg ["name"; "n"] KStr ANone true false false None;
     mkArg ["num"; "u"] KInt (AInt 1%Z) false false false None;
     mkArg ["yes"; "y"] KBool (ABool true) false false false None;
     mkArg ["flag"; "f"] KBool (ABool false) false false false None;
     mkArg ["v"] KInt (AInt 0%Z) false false true None].

Definition sw_w : ctxspec :=
  mkCtx (Some "w") []
    [mkArg ["lst"; "l"] KList (AList []) false false false None;
     mkArg ["opt"; "o"] KStr ANone false true false None].

Definition sw_cs : list ctxspec := [sw_t; sw_w].

(** F-C01a: a list-typed declared default is lost when the flag is not given. *)
Definition ctx_listdef : ctxspec :=
  mkCtx (Some "t") [] [mkArg ["x"] KList (AList ["p"]) false false false None;
                       mkArg ["n"] KStr (AStr "d") false false false None].

Lemma refuted_list_default :
  exists cs inv,
    admissible cs inv = true /\ model_roundtrip cs inv = false /\
    (exists r, model_parse cs ICore false (spell cs inv) = Ok r /\
               nth_error (o_ctxs r) 1 = Some (Some "t", [("x", AList []); ("n", AStr "d")])) /\
    expected cs inv = [(Some "t", [("x", AList ["p"]); ("n", AStr "d")])].
Proof.
  exists [ctx_listdef], [mkCall 0 "t" []].
  split; [vm_compute; reflexivity|]. split; [vm_compute; reflexivity|]. split.
  - eexists. split; vm_compute; reflexivity.
  - vm_compute. reflexivity.
Qed.

(** F-C01b: a value glued to a short flag and containing "=" is split at the "=". *)
Lemma refuted_glued_equals :
  exists cs inv,
    admissible cs inv = true /\ model_roundtrip cs inv = false /\
    spell cs inv = ["t"; "-nk=v"] /\
    model_parse cs ICore false (spell cs inv) = Err EParse.
Proof.
  exists [ctx_listdef], [mkCall 0 "t" [One (mkOcc 1 0 FGlued (VS "k=v"))]].
  repeat split; vm_compute; reflexivity.
Qed.

(** F-C01c: a positional parameter that declares a default cannot be given by
    position: [see_positional_arg] only fills positionals whose value is None,
    and [Argument.value] falls back to the default.
    [@task(positional=['name']) def t(c, name='x')], "inv t val". *)
Definition ctx_posdef : ctxspec :=
  mkCtx (Some "t") [] [mkArg ["name"; "n"] KStr (AStr "x") true false false None].

Lemma refuted_positional_default :
  exists cs inv,
    admissible cs inv = true /\ model_roundtrip cs inv = false /\
    spell cs inv = ["t"; "val"] /\
    expected cs inv = [(Some "t", [("name", AStr "val")])] /\
    model_parse cs ICore false (spell cs inv) = Err EParse /\
    (* ... while the flag spelling works *)
    (exists r, model_parse cs ICore false ["t"; "--name"; "val"] = Ok r /\
               nth_error (o_ctxs r) 1 = Some (Some "t", [("name", AStr "val")])).
Proof.
  exists [ctx_posdef], [mkCall 0 "t" [One (mkOcc 0 0 FPos (VS "val"))]].
  split; [vm_compute; reflexivity|]. split; [vm_compute; reflexivity|].
  split; [vm_compute; reflexivity|]. split; [vm_compute; reflexivity|].
  split; [vm_compute; reflexivity|]. eexists. split; vm_compute; reflexivity.
Qed.

(** ** Bounded sweep (a test) *)

Fixpoint insert_everywhere {A} (x : A) (l : list A) : list (list A) :=
  match l with
  | [] => [[x]]
  | y :: l' => (x :: l) :: map (cons y) (insert_everywhere x l')
  end.

Fixpoint perms {A} (l : list A) : list (list A) :=
  match l with
  | [] => [[]]
  | x :: l' => flat_map (insert_everywhere x) (perms l')
  end.

Definition opt_choices {A} (l : list A) : list (list A) := [] :: map (fun x => [x]) l.

Definition name_occs (v : string) : list occ :=
  [mkOcc 0 0 FPos (VS v); mkOcc 0 0 FNext (VS v); mkOcc 0 1 FNext (VS v);
   mkOcc 0 0 FEq (VS v); mkOcc 0 1 FEq (VS v); mkOcc 0 1 FGlued (VS v)].

Definition num_occs : list occ :=
  [mkOcc 1 0 FNext (VS "7"); mkOcc 1 1 FEq (VS "7"); mkOcc 1 1 FGlued (VS "7")].
Definition yes_occs : list occ := [mkOcc 2 0 FInv (VB false); mkOcc 2 0 FBare (VB true)].
Definition cnt_occs : list occ := [mkOcc 4 0 FStack (VN 2); mkOcc 4 0 FRep (VN 1)].

Definition second_call : call :=
  mkCall 1 "w" [One (mkOcc 0 0 FNext (VS "a")); One (mkOcc 0 1 FGlued (VS "b"));
                One (mkOcc 1 0 FBare VT)].

(** every script: value x form of [name] x optional num/yes/counter occurrence
    x every order x task name or alias, followed by a second call *)
Definition sweep_invs : list invocation :=
  flat_map (fun asn =>
  flat_map (fun v =>
  flat_map (fun no =>
  flat_map (fun nu =>
  flat_map (fun ye =>
  flat_map (fun cn =>
     map (fun os => [mkCall 0 asn (map One os); second_call]) (perms (no :: nu ++ ye ++ cn)))
   (opt_choices cnt_occs)) (opt_choices yes_occs)) (opt_choices num_occs)) (name_occs v))
   ["abc"; "-x"; "w"; "a=b"]) ["u"].

Definition has_glued_eq (inv : invocation) : bool :=
  existsb (fun k => existsb (fun o => oform_eqb (o_form o) FGlued
                                       && contains_char "=" (text_of (o_val o)))
                            (call_occs k)) inv.

Definition sweep01_ok (inv : invocation) : bool :=
  model_roundtrip sw_cs inv || has_glued_eq inv.

Lemma roundtrip_sweep : forallb sweep01_ok sweep_invs = true.
Proof. vm_compute. reflexivity. Qed.

Lemma roundtrip_sweep_counts :
  N.of_nat (List.length sweep_invs) = 9576%N /\
  N.of_nat (List.length (filter (admissible sw_cs) sweep_invs)) = 9177%N.
Proof. split; vm_compute; reflexivity. Qed.
