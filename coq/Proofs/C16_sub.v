(** C16: settings holding instances of subclasses of list/tuple/int/str.
    isinstance-dispatch makes them behave as their base kind; the one exception
    is an Enum class in the [old.__class__(new)] branch. *)
From InvokeVerif Require Import Common.Tree Common.StrUtil Model.EnvModel Model.EnvSubModel
     Spec.C16Spec Proofs.C16_env.

Definition enum_int (o : pyval) : bool :=
  match o with Sub SubEnum (VInt _) => true | _ => false end.

Lemma cast_py_base : forall o s, enum_int o = false -> cast_py o s = cast (base_of o) s.
Proof.
  intros [v|[|] v] s H; try reflexivity.
  destruct v; try reflexivity. discriminate H.
Qed.

Lemma cast_py_table :
  (forall v s, cast_py (Exact v) s = cast v s) /\
  (forall k l s, cast_py (Sub k (VList l)) s = Err EUncastable) /\
  (forall k l s, cast_py (Sub k (VTuple l)) s = Err EUncastable) /\
  (forall k x s, cast_py (Sub k (VStr x)) s = Ok (VStr s)) /\
  (forall z s, cast_py (Sub SubPlain (VInt z)) s =
               match parse_int s with Some n => Ok (VInt n) | None => Err EValue end) /\
  (forall z s, cast_py (Sub SubEnum (VInt z)) s = Err EValue).
Proof. repeat split; intros; try (destruct k); reflexivity. Qed.

Definition strip (e : pentry) : entry := (fst e, (fst (snd e), base_of (snd (snd e)))).

Lemma strip_annotate : forall subs e, strip (annotate subs e) = e.
Proof.
  intros subs [var [p v]]. unfold strip, annotate. cbn [fst snd].
  destruct (sub_at p subs); reflexivity.
Qed.

Definition no_enum_int (pv : list pentry) : bool :=
  forallb (fun e => negb (enum_int (snd (snd e)))) pv.

Lemma apply_vars_py_base : forall pfx env pv data,
  no_enum_int pv = true ->
  apply_vars_py pfx env pv data = apply_vars pfx env (map strip pv) data.
Proof.
  intros pfx env pv. induction pv as [|[var [p o]] rest IH]; intros data H.
  - reflexivity.
  - unfold no_enum_int in H. cbn [forallb snd] in H. apply andb_prop in H. destruct H as [Ho Hr].
    apply Bool.negb_true_iff in Ho.
    cbn [apply_vars_py map strip fst snd apply_vars].
    destruct (env_get (pfx ++ var) env) as [s|].
    + rewrite (cast_py_base o s Ho). destruct (cast (base_of o) s); [apply IH; exact Hr | reflexivity].
    + apply IH; exact Hr.
Qed.

(** boolean guard: no setting that is an IntEnum member *)
Definition enum_int_free (t : tree) (subs : list (path * subkind)) : bool :=
  match crawl [] t with
  | Ok vars => no_enum_int (map (annotate subs) vars)
  | Err _ => true
  end.

Lemma load_py_projection : forall t subs pfx env,
  enum_int_free t subs = true -> load_py t subs pfx env = load t pfx env.
Proof.
  intros t subs pfx env H. unfold load_py, load, enum_int_free in *.
  destruct (crawl [] t) as [vars|e]; [|reflexivity].
  rewrite (apply_vars_py_base _ _ _ _ H). rewrite map_map.
  rewrite (map_ext _ (fun e => e) (strip_annotate subs)). rewrite map_id. reflexivity.
Qed.

Lemma enum_int_free_nil : forall t, enum_int_free t [] = true.
Proof.
  intros t. unfold enum_int_free. destruct (crawl [] t) as [vars|e]; [|reflexivity].
  unfold no_enum_int. rewrite forallb_forall. intros x Hx. apply in_map_iff in Hx.
  destruct Hx as [e [<- _]]. reflexivity.
Qed.

Lemma load_py_nil : forall t pfx env, load_py t [] pfx env = load t pfx env.
Proof. intros. apply load_py_projection. apply enum_int_free_nil. Qed.

Lemma load_py_meets_spec : forall kids subs pfx env,
  wf (Node kids) = true -> enum_int_free (Node kids) subs = true ->
  spec_ok (Node kids) pfx env (load_py (Node kids) subs pfx env) = true.
Proof. intros. rewrite load_py_projection by assumption. apply load_meets_spec. assumption. Qed.
