(** C10, general statement for flat namespaces (a root collection holding
    tasks only): accepted on the command line <-> canonical name that lookup
    resolves; the accepted token runs the task lookup returns. *)
From Coq Require Import Lia.
From InvokeVerif Require Import Model.CollModel Spec.C10Spec Corr.C10Corr.
From InvokeVerif Require Import Proofs.CollStrings Proofs.C17_merge Proofs.C17_path Proofs.C10_build.

(** the (alias name, task key) pairs the tasks themselves declare *)
Definition own_pairs (ad : bool) (tasks : list (string * taskinfo)) : list (string * string) :=
  flat_map (fun kt => map (fun a => (transform ad a, fst kt)) (t_aliases (snd kt))) tasks.

(** Guard: no sub-collections; task names and declared aliases pairwise
    distinct; binding names canonical; the alias table holds exactly the
    declared aliases (none given at binding time, none lost); well-formed
    configuration. *)
Definition flat_guard (c : coll) : bool :=
  match c with
  | Coll _ tasks aliases subs _ ad cfg =>
      match subs with [] => true | _ => false end &&
      nodupb (akeys tasks ++ map fst (own_pairs ad tasks)) &&
      forallb (key_ok ad) (akeys tasks ++ map fst (own_pairs ad tasks)) &&
      forallb (fun p => opt_str_eqb (assoc (fst p) aliases) (Some (snd p))) (own_pairs ad tasks) &&
      forallb (fun p => existsb (fun q => String.eqb (fst p) (fst q) && String.eqb (snd p) (snd q))
                                (own_pairs ad tasks)) aliases &&
      wf (Node cfg)
  end.

(** * association lists with distinct keys *)
Lemma aset_notin {A} k (v : A) l : ~ In k (akeys l) -> aset k v l = l ++ [(k, v)].
Proof.
  induction l as [|[k' v'] l IH]; cbn [aset akeys map fst]; intros H; [reflexivity|].
  destruct (String.eqb k k') eqn:E.
  - apply String.eqb_eq in E; subst. exfalso; apply H; left; reflexivity.
  - rewrite IH; [reflexivity | intros H1; apply H; right; exact H1].
Qed.

Lemma fold_aset_map {A B} (f : A -> string) (g : A -> B) : forall l acc,
  NoDup (akeys acc ++ map f l) ->
  fold_left (fun acc x => aset (f x) (g x) acc) l acc = acc ++ map (fun x => (f x, g x)) l.
Proof.
  induction l as [|x l IH]; intros acc ND; [rewrite app_nil_r; reflexivity|].
  cbn [fold_left map]. rewrite aset_notin.
  - rewrite IH.
    + rewrite <- app_assoc. reflexivity.
    + unfold akeys. rewrite map_app. cbn [map fst]. rewrite <- app_assoc. exact ND.
  - cbn [map] in ND. intros H. apply NoDup_remove_2 in ND. apply ND. apply in_or_app; left; exact H.
Qed.

Lemma assoc_in_nodup {A} k (v : A) l : NoDup (akeys l) -> In (k, v) l -> assoc k l = Some v.
Proof.
  induction l as [|[k' v'] l IH]; intros ND HIn; [contradiction|].
  cbn [akeys map fst] in ND. inversion ND as [|? ? Hn ND']; subst. cbn [assoc].
  destruct HIn as [HIn|HIn].
  - inversion HIn; subst. rewrite String.eqb_refl; reflexivity.
  - destruct (String.eqb k k') eqn:E.
    + apply String.eqb_eq in E; subst. exfalso. apply Hn. change k' with (fst (k', v)). apply in_map; exact HIn.
    + apply IH; assumption.
Qed.

Lemma assoc_map_key {A B} (g : A -> B) k (l : list (string * A)) :
  assoc k (map (fun kt => (fst kt, g (snd kt))) l) = option_map g (assoc k l).
Proof.
  induction l as [|[k' v] l IH]; [reflexivity|]. cbn [map assoc fst snd].
  destruct (String.eqb k k'); [reflexivity | exact IH].
Qed.

(** * the parser registry of a list of contexts with pairwise distinct names *)
Definition ctx_pairs (cs : list ctx) : list (string * string) :=
  flat_map (fun c => map (fun a => (a, fst (fst c))) (snd (fst c))) cs.

Definition fresh (x : string) (r : preg) : Prop := ~ In x (akeys (fst r)) /\ ~ In x (akeys (snd r)).

Lemma akeys_app {A} (l1 l2 : list (string * A)) : akeys (l1 ++ l2) = akeys l1 ++ akeys l2.
Proof. unfold akeys. apply map_app. Qed.

Lemma preg_aliases_ok : forall als name r,
  NoDup als -> (forall a, In a als -> fresh a r) ->
  preg_aliases als name r = Ok (fst r, snd r ++ map (fun a => (a, name)) als).
Proof.
  induction als as [|a als IH]; intros name [keys al] ND HF; cbn [fst snd] in *.
  - cbn. rewrite app_nil_r. reflexivity.
  - cbn [preg_aliases]. unfold preg_has. cbn [fst snd].
    destruct (HF a (or_introl eq_refl)) as [H1 H2]. cbn [fst snd] in H1, H2.
    unfold has_key. rewrite (proj2 (assoc_none a keys) H1), (proj2 (assoc_none a al) H2). cbn [orb].
    inversion ND as [|? ? Hn ND']; subst.
    rewrite IH; cbn [fst snd].
    + rewrite aset_notin by exact H2. rewrite <- app_assoc. reflexivity.
    + exact ND'.
    + intros b Hb. destruct (HF b (or_intror Hb)) as [B1 B2]. cbn [fst snd] in B1, B2.
      split; cbn [fst snd]; [exact B1|].
      rewrite aset_notin by exact H2. rewrite akeys_app, in_app_iff. cbn.
      intros [H|[H|[]]]; [apply B2; exact H | subst; contradiction].
Qed.

Definition ctx_names (cs : list ctx) : list string := flat_map (fun c => fst (fst c) :: snd (fst c)) cs.

Lemma parser_init_ok : forall cs r,
  NoDup (ctx_names cs) -> (forall x, In x (ctx_names cs) -> fresh x r) ->
  Forall (fun c => fst (fst c) <> "") cs ->
  parser_init cs r =
  Ok (fst r ++ map (fun c => (fst (fst c), snd c)) cs, snd r ++ ctx_pairs cs).
Proof.
  induction cs as [|[[name als] tid] cs IH]; intros [keys al] ND HFr HF; cbn [fst snd] in *.
  - cbn. rewrite !app_nil_r. reflexivity.
  - inversion HF as [|? ? Hne HF']; subst. cbn [fst snd] in Hne.
    cbn [parser_init]. apply String.eqb_neq in Hne. rewrite Hne.
    cbn [ctx_names flat_map fst snd] in ND, HFr.
    destruct (HFr name (or_introl eq_refl)) as [H1 H2]. cbn [fst snd] in H1, H2.
    unfold preg_has. cbn [fst snd]. unfold has_key.
    rewrite (proj2 (assoc_none name keys) H1), (proj2 (assoc_none name al) H2). cbn [orb].
    inversion ND as [|? ? Hn ND']; subst.
    assert (NoDup als) as NDa.
    { clear -ND'. induction als as [|a l IHl]; [constructor|].
      cbn [app] in ND'. inversion ND' as [|? ? Hx NDx]; subst. constructor.
      - intros H. apply Hx. apply in_or_app; left; exact H.
      - apply IHl; exact NDx. }
    rewrite preg_aliases_ok; cbn [fst snd].
    + rewrite IH; cbn [fst snd].
      * rewrite aset_notin by exact H1. cbn [map ctx_pairs flat_map fst snd].
        rewrite <- !app_assoc. reflexivity.
      * apply NoDup_app_r in ND'. exact ND'.
      * intros x Hx.
        assert (In x (als ++ ctx_names cs)) as Hx' by (apply in_or_app; right; exact Hx).
        destruct (HFr x (or_intror Hx')) as [X1 X2]. cbn [fst snd] in X1, X2.
        split; cbn [fst snd].
        -- rewrite aset_notin by exact H1. rewrite akeys_app, in_app_iff. cbn.
           intros [H|[H|[]]]; [apply X1; exact H|]. subst. apply Hn. exact Hx'.
        -- rewrite akeys_app, in_app_iff. intros [H|H]; [apply X2; exact H|].
           unfold akeys in H. rewrite map_map in H. cbn [fst] in H. rewrite map_id in H.
           apply (NoDup_app_disj _ _ x ND' H Hx).
      * exact HF'.
    + exact NDa.
    + intros a Ha.
      assert (In a (als ++ ctx_names cs)) as Ha' by (apply in_or_app; left; exact Ha).
      destruct (HFr a (or_intror Ha')) as [A1 A2]. cbn [fst snd] in A1, A2.
      split; cbn [fst snd]; [|exact A2].
      rewrite aset_notin by exact H1. rewrite akeys_app, in_app_iff. cbn.
      intros [H|[H|[]]]; [apply A1; exact H|]. subst. apply Hn. exact Ha'.
Qed.

From Coq Require Import Permutation.

Lemma perm_interleave {A} (f : A -> string) (g : A -> list string) l :
  Permutation (flat_map (fun x => f x :: g x) l) (map f l ++ flat_map g l).
Proof.
  induction l as [|x l IH]; [constructor|].
  cbn [flat_map map app]. apply perm_skip.
  rewrite IH. apply Permutation_app_swap_app.
Qed.

Lemma key_ok_canonical ad k : key_ok ad k = true -> canonical ad k = true.
Proof.
  intros H. apply key_ok_spec in H. destruct H as [H1 [H2 H3]].
  unfold canonical. rewrite (split_dotfree k H2). cbn [forallb].
  apply String.eqb_neq in H3. rewrite H3. cbn.
  apply normalized_iff_fixed. exact H1.
Qed.

Lemma canonical_nonempty ad n : canonical ad n = true -> n <> "".
Proof. intros H ->. vm_compute in H. discriminate. Qed.

Lemma own_pairs_fst ad l :
  map fst (own_pairs ad l) = flat_map (fun kt => map (transform ad) (t_aliases (snd kt))) l.
Proof.
  unfold own_pairs. induction l as [|kt l IH]; [reflexivity|].
  cbn [flat_map]. rewrite map_app, IH, !map_map. reflexivity.
Qed.

Lemma ctx_names_map ad (l : list (string * taskinfo)) :
  ctx_names (map (fun kt => (fst kt, map (transform ad) (t_aliases (snd kt)), t_id (snd kt))) l) =
  flat_map (fun kt => fst kt :: map (transform ad) (t_aliases (snd kt))) l.
Proof.
  unfold ctx_names. induction l as [|kt l IH]; [reflexivity|].
  cbn [map flat_map fst snd]. rewrite IH. reflexivity.
Qed.

Lemma ctx_pairs_map ad (l : list (string * taskinfo)) :
  ctx_pairs (map (fun kt => (fst kt, map (transform ad) (t_aliases (snd kt)), t_id (snd kt))) l) =
  own_pairs ad l.
Proof.
  unfold ctx_pairs, own_pairs. induction l as [|kt l IH]; [reflexivity|].
  cbn [map flat_map fst snd]. rewrite IH, map_map. reflexivity.
Qed.

Lemma NoDup_app_l {A} (l1 l2 : list A) : NoDup (l1 ++ l2) -> NoDup l1.
Proof.
  induction l1 as [|x l IH]; intros ND; [constructor|].
  cbn [app] in ND. inversion ND as [|? ? Hn ND']; subst. constructor.
  - intros H. apply Hn. apply in_or_app; left; exact H.
  - apply IH; exact ND'.
Qed.

Section Flat.
  Variables (cn : option string) (tasks : list (string * taskinfo)) (aliases : list (string * string))
            (dflt : option string) (ad : bool) (cfg : dict).
  Local Notation c := (Coll cn tasks aliases [] dflt ad cfg).
  Local Notation OP := (own_pairs ad tasks).
  Local Notation als_of := (fun kt : string * taskinfo => map (transform ad) (t_aliases (snd kt))).

  Hypothesis G : flat_guard c = true.

  Lemma G_parts :
    NoDup (akeys tasks ++ map fst OP) /\
    (forall x, In x (akeys tasks ++ map fst OP) -> key_ok ad x = true) /\
    (forall p, In p OP -> assoc (fst p) aliases = Some (snd p)) /\
    (forall p, In p aliases -> In p OP) /\ wf (Node cfg) = true.
  Proof.
    unfold flat_guard in G. rewrite !andb_true_iff in G.
    destruct G as [[[[[_ G1] G2] G3] G4] G5].
    split; [apply nodupb_NoDup; exact G1|]. split; [apply forallb_forall; exact G2|].
    split.
    - intros p Hp. rewrite forallb_forall in G3. specialize (G3 p Hp).
      destruct (assoc (fst p) aliases) as [x|]; [|discriminate]. cbn in G3.
      apply String.eqb_eq in G3. congruence.
    - split; [|exact G5]. intros [a k] Hp. rewrite forallb_forall in G4. specialize (G4 _ Hp).
      apply existsb_exists in G4. destruct G4 as [[a' k'] [Hq E]]. cbn [fst snd] in E.
      apply andb_true_iff in E as [E1 E2]. apply String.eqb_eq in E1, E2. subst. exact Hq.
  Qed.

  Lemma OP_fst : map fst OP = flat_map als_of tasks.
  Proof. apply own_pairs_fst. Qed.

  Lemma OP_target_is_task a k : In (a, k) OP -> In k (akeys tasks).
  Proof.
    unfold own_pairs. intros H. apply in_flat_map in H. destruct H as [kt [Hkt H]].
    apply in_map_iff in H. destruct H as [x [E _]]. inversion E; subst.
    apply in_map; exact Hkt.
  Qed.

  Lemma assoc_aliases n : assoc n aliases = assoc n OP.
  Proof.
    destruct G_parts as [ND [_ [G3 [G4 _]]]].
    assert (NoDup (akeys OP)) as NDo by (apply NoDup_app_r in ND; exact ND).
    destruct (assoc n aliases) as [k|] eqn:E.
    - apply assoc_In in E. apply G4 in E. symmetry. apply assoc_in_nodup; assumption.
    - destruct (assoc n OP) as [k|] eqn:E2; [|reflexivity].
      apply assoc_In in E2. specialize (G3 _ E2). cbn [fst snd] in G3. congruence.
  Qed.

  Lemma lex_get_flat n :
    lex_get tasks aliases n =
    match assoc n OP with
    | Some k => match assoc k tasks with Some t => Ok t | None => Err EKey end
    | None => match assoc n tasks with Some t => Ok t | None => Err EKey end
    end.
  Proof.
    destruct G_parts as [ND _].
    unfold lex_get, lex_resolve. cbn [resolve]. rewrite assoc_aliases.
    destruct (assoc n OP) as [k|] eqn:E; [|reflexivity].
    assert (assoc k aliases = None) as Hk.
    { rewrite assoc_aliases. apply assoc_none. intros H.
      apply assoc_In in E. apply OP_target_is_task in E.
      apply (NoDup_app_disj _ _ k ND E H). }
    destruct aliases as [|x l] eqn:Ea.
    - rewrite <- Ea in *. pose proof (assoc_aliases n) as H. rewrite Ea, E in H. discriminate.
    - rewrite <- Ea in *. cbn [List.length resolve]. rewrite Ea. cbn [List.length resolve]. rewrite <- Ea, Hk. reflexivity.
  Qed.

  (** lookup of a dot-free, non-empty, transform-fixed name *)
  Lemma flat_lookup n :
    transform ad n = n -> contains_char "." n = false -> n <> "" ->
    task_with_config c n = match lex_get tasks aliases n with Ok t => Ok (t, cfg) | Err e => Err e end.
  Proof.
    intros Hf Hd Hne. destruct G_parts as [_ [_ [_ [_ Hw]]]].
    rewrite twc_unfold. unfold twc_step.
    rewrite (copy_dict_id (Node cfg) Hw cfg eq_refl).
    apply String.eqb_neq in Hne. rewrite Hne. unfold twc_nonempty.
    rewrite Hf, Hd. reflexivity.
  Qed.

  Lemma dotted_lookup n : transform ad n = n -> contains_char "." n = true -> n <> "" ->
    contains c n = Ok false.
  Proof.
    intros Hf Hd Hne. destruct G_parts as [_ [_ [_ [_ Hw]]]].
    unfold contains, getitem. rewrite twc_unfold. unfold twc_step.
    rewrite (copy_dict_id (Node cfg) Hw cfg eq_refl).
    apply String.eqb_neq in Hne. rewrite Hne. unfold twc_nonempty.
    rewrite Hf, Hd. destruct (partition_char "." n) as [[k fl] r]. reflexivity.
  Qed.

  Lemma task_key_lookup k t : In (k, t) tasks -> getitem c k = Ok t.
  Proof.
    intros HIn. destruct G_parts as [ND [Gk _]].
    assert (In k (akeys tasks)) as Hk by (change k with (fst (k, t)); apply in_map; exact HIn).
    destruct (key_ok_spec ad k (Gk k (in_or_app _ _ _ (or_introl Hk)))) as [H1 [H2 H3]].
    unfold getitem. rewrite (flat_lookup k H1 H2 H3), lex_get_flat.
    assert (assoc k OP = None) as Ho.
    { apply assoc_none. intros H. apply (NoDup_app_disj _ _ k ND Hk H). }
    rewrite Ho.
    assert (NoDup (akeys tasks)) as NDt by (apply (NoDup_app_l _ _ ND)).
    rewrite (assoc_in_nodup k t tasks NDt HIn). reflexivity.
  Qed.

  Lemma task_names_flat : task_names c = map (fun kt => (fst kt, als_of kt)) tasks.
  Proof.
    destruct G_parts as [ND _]. cbn [task_names].
    rewrite (fold_aset_map fst als_of tasks []); [reflexivity|].
    cbn [akeys map app]. apply (NoDup_app_l _ _ ND).
  Qed.

  Definition flat_ctxs : list ctx := map (fun kt => (fst kt, als_of kt, t_id (snd kt))) tasks.

  Lemma to_contexts_flat : to_contexts c = Ok flat_ctxs.
  Proof.
    unfold to_contexts. rewrite task_names_flat. unfold flat_ctxs.
    assert (forall l, incl l tasks ->
              ctxs_of c (map (fun kt => (fst kt, als_of kt)) l) =
              Ok (map (fun kt => (fst kt, als_of kt, t_id (snd kt))) l)) as H.
    { induction l as [|[k t] l IH]; intros Hincl; [reflexivity|].
      cbn [map ctxs_of fst snd]. rewrite (task_key_lookup k t (Hincl _ (or_introl eq_refl))).
      rewrite IH; [reflexivity|]. intros x Hx. apply Hincl; right; exact Hx. }
    apply H. apply incl_refl.
  Qed.

  Lemma parser_flat :
    parser_of c = Ok (map (fun kt => (fst kt, t_id (snd kt))) tasks, OP).
  Proof.
    destruct G_parts as [ND [Gk _]].
    unfold parser_of. rewrite to_contexts_flat.
    assert (ctx_names flat_ctxs = flat_map (fun kt => fst kt :: als_of kt) tasks) as Hn
      by (apply ctx_names_map).
    assert (ctx_pairs flat_ctxs = OP) as Hp by (apply ctx_pairs_map).
    rewrite parser_init_ok; cbn [fst snd app].
    - rewrite Hp. unfold flat_ctxs. rewrite map_map. cbn [fst snd]. reflexivity.
    - rewrite Hn. apply (Permutation_NoDup (l := akeys tasks ++ map fst OP)); [|exact ND].
      rewrite OP_fst. symmetry. apply (perm_interleave fst als_of).
    - intros x _. split; intros [].
    - unfold flat_ctxs. apply Forall_forall. intros ct Hc. apply in_map_iff in Hc.
      destruct Hc as [[k t] [E HIn]]. subst ct. cbn [fst snd].
      assert (In k (akeys tasks)) as Hk by (change k with (fst (k, t)); apply in_map; exact HIn).
      apply (key_ok_spec ad k (Gk k (in_or_app _ _ _ (or_introl Hk)))).
  Qed.

  Theorem flat_names_agree n : n <> "" -> name_ok ad n (model_nobs c n) = true.
  Proof.
    intros Hn0. apply String.eqb_neq in Hn0.
    destruct G_parts as [ND [Gk _]].
    unfold name_ok, model_nobs, accepted, resolves, cli_run. rewrite Hn0. unfold cli_token. cbn [o_contains o_getitem o_parser o_ran].
    rewrite parser_flat. unfold preg_primary. cbn [fst snd].
    assert (has_key n (map (fun kt => (fst kt, t_id (snd kt))) tasks) = has_key n tasks) as Hh.
    { unfold has_key. rewrite (assoc_map_key t_id n tasks). destruct (assoc n tasks); reflexivity. }
    rewrite Hh.
    assert (NoDup (akeys tasks)) as NDt by (apply (NoDup_app_l _ _ ND)).
    unfold has_key. destruct (assoc n tasks) as [t|] eqn:Et.
    - (* a task name *)
      pose proof (assoc_In _ _ _ Et) as HIn.
      assert (In n (akeys tasks)) as Hk by (eapply assoc_In_keys; eauto).
      pose proof (Gk n (in_or_app _ _ _ (or_introl Hk))) as Hok.
      rewrite (key_ok_canonical ad n Hok).
      unfold contains. rewrite (task_key_lookup n t HIn). cbn. rewrite Nat.eqb_refl. reflexivity.
    - destruct (assoc n OP) as [k|] eqn:Eo.
      + (* a declared alias *)
        pose proof (assoc_In _ _ _ Eo) as HIo.
        assert (In n (map fst OP)) as Hn by (change n with (fst (n, k)); apply in_map; exact HIo).
        pose proof (Gk n (in_or_app _ _ _ (or_intror Hn))) as Hok.
        rewrite (key_ok_canonical ad n Hok).
        destruct (key_ok_spec ad n Hok) as [H1 [H2 H3]].
        pose proof (OP_target_is_task n k HIo) as Hkt.
        apply in_map_iff in Hkt. destruct Hkt as [[k' t] [E HIn]]. cbn [fst] in E. subst k'.
        assert (getitem c n = Ok t) as Hg.
        { unfold getitem. rewrite (flat_lookup n H1 H2 H3), lex_get_flat, Eo.
          rewrite (assoc_in_nodup k t tasks NDt HIn). reflexivity. }
        unfold contains. rewrite Hg, (task_key_lookup k t HIn).
        cbn. rewrite Nat.eqb_refl. reflexivity.
      + (* neither: not accepted, so must not be a canonical name that resolves *)
        cbn [Bool.eqb]. destruct (canonical ad n) eqn:Ec; [|reflexivity].
        pose proof (canonical_nonempty ad n Ec) as Hne.
        assert (transform ad n = n) as Hf.
        { apply normalized_iff_fixed. unfold canonical in Ec. apply andb_true_iff in Ec. tauto. }
        destruct (contains_char "." n) eqn:Ed.
        * rewrite (dotted_lookup n Hf Ed Hne). reflexivity.
        * unfold contains, getitem. rewrite (flat_lookup n Hf Ed Hne), lex_get_flat, Eo, Et. reflexivity.
  Qed.
End Flat.
