(** C18: placement equivalence of whole core prefixes over the WIDE task
    fragment (Proofs/C01_widest2.v): positionals by position, counters, clusters,
    glued values, optional-value flags with value or bare, dash-leading values.
    The task-side lemmas hold for ANY state of the initial context, so the
    options may be seen before the first task or in the middle of a call. *)
From InvokeVerif Require Import Model.ParserModel Corr.C01Corr Proofs.ListFacts Proofs.C07_fuel
     Proofs.C01_steps Proofs.C01_tokens Proofs.C01_lookup Proofs.C01_occ Proofs.C01_roundtrip
     Proofs.C01_final Proofs.C01_occ_nm Proofs.C01_inv Proofs.C01_wide Proofs.C01_wide_final
     Proofs.C01_wide_final2 Proofs.C01_form_optional Proofs.C01_widest2
     Proofs.C18_placement Proofs.C18_values.
From Coq Require Import Lia.

(** bookkeeping along a prefix of the items of a call *)
Definition given_items2 (given : list nat) (items : list item) : list nat :=
  fold_left item_given2 items given.

Definition pend_after (pend : bool) (items : list item) : bool :=
  fold_left (fun _ it => is_bare it) items pend.

(** where a core prefix may be placed inside a call: after [items1], when no
    required positional is still missing there (else F-C18b) and the last item
    is not a bare optional-value flag (else F-C18c) *)
Definition placement_ok (c : ctxspec) (items1 : list item) : bool :=
  opt_nat_eqb (first_missing c (given_items2 [] items1)) None
  && negb (pend_after false items1).

Section WidePlacement.
Variable cs : list ctxspec.
Variable ic : ctxspec.
Let p := mkP cs (Some ic) false.
Hypothesis Pok : parser_ok cs = true.
Hypothesis Npl : names_plain cs = true.

(** *** a prefix of the items of one call, from any state of the initial context *)
Lemma items_mid i0 c last : forall items1 items2 given pend done cur m os,
  guard_w c = true -> items_ok2 cs c given pend last (items1 ++ items2) = true ->
  Inv_w c given (rc_args cur) -> vals_ok os (rc_args cur) -> Rep i0 done cur pend m ->
  exists m',
    let args' := fold_left run_item2 items1 (rc_args cur) in
    steps p m (flat_map (spell_item c) items1) m' /\
    Rep i0 done (with_args cur args') (pend_after pend items1) m' /\
    Inv_w c (given_items2 given items1) args' /\
    vals_ok (os ++ flat_map occs_of items1) args' /\
    items_ok2 cs c (given_items2 given items1) (pend_after pend items1) last items2 = true.
Proof.
  induction items1 as [|it items1 IH]; intros items2 given pend done cur m os G Is Iw V R.
  - exists m. cbn [fold_left flat_map given_items2 pend_after app] in *. rewrite app_nil_r.
    replace (with_args cur (rc_args cur)) with cur by (destruct cur; reflexivity).
    split; [apply steps_nil|]. auto.
  - cbn [app items_ok2] in Is. rewrite !andb_true_iff in Is. destruct Is as [[Ok' Ho] Is].
    assert (Ho' : pend = true -> head_own c it = true) by (intros ->; exact Ho).
    destruct (item_steps2 cs p eq_refl i0 Pok Npl c given pend it done cur m G Ok' Ho' Iw R)
      as (m1 & S1 & R1 & Iw1).
    pose proof (item_vals2 cs p eq_refl i0 c given it (rc_args cur) os G Ok' Iw V) as V1.
    set (cur1 := with_args cur (run_item2 (rc_args cur) it)) in *.
    destruct (IH items2 (item_given2 given it) (is_bare it) done cur1 m1 (os ++ occs_of it) G Is Iw1 V1 R1)
      as (m2 & S2 & R2 & Iw2 & V2 & Is2).
    exists m2. cbn [flat_map fold_left given_items2 pend_after].
    unfold cur1 in *. cbn [rc_args with_args] in *.
    split; [eapply steps_app; eauto|]. split; [exact R2|]. split; [exact Iw2|].
    split; [|exact Is2]. rewrite <- app_assoc in V2. exact V2.
Qed.

(** the observable result of a call from the final invariant *)
Lemma call_obs k c given' :
  nth_error cs (k_task k) = Some c -> guard_w c = true ->
  Inv_w c given' (rc_args (final_ctx2 cs k)) -> end_ok_w c given' = true ->
  vals_ok (call_occs k) (rc_args (final_ctx2 cs k)) ->
  has_missing (final_ctx2 cs k) = false /\ obs_of_ctx (final_ctx2 cs k) = expected_call cs k.
Proof.
  intros N G Iw En V.
  destruct (guard_w_parts c G) as [Gn _]. destruct (guard_parts_nm c Gn) as [_ [_ [_ Ld]]].
  pose proof Iw as [St _]. pose proof (sn_shape _ _ _ St) as Sh.
  unfold final_ctx2 in *. rewrite N in *. cbn [rc_args with_args] in *.
  split.
  - apply has_missing_with_args. apply (no_missing_of_end c given' _ G Iw).
    apply opt_nat_eqb_eq. exact En.
  - unfold obs_of_ctx, expected_call. rewrite N.
    unfold with_args. cbn [rc_name init_ctx]. f_equal.
    rewrite as_kwargs_nodup.
    + apply kwargs_expected; [exact Sh|].
      intros j r Nj. rewrite (V j r Nj). cbn [plus].
      symmetry. apply value_after_vafter. intros _ K.
      apply declared_default_list; [|exact K].
      apply Ld. apply nth_error_In in Nj. rewrite <- Sh. apply in_map. exact Nj.
    + assert (Nd : nodupb (map arg_name (cx_args c)) = true).
      { unfold ctx_guard_nm in Gn. rewrite !andb_true_iff in Gn. tauto. }
      rewrite <- Sh in Nd. rewrite map_map in Nd. exact Nd.
Qed.

(** *** whole calls that are not the last one, from a ready machine *)
Lemma calls_nonlast i0 : forall calls m dall,
  ready i0 m dall -> forallb (call_ok2 cs false) calls = true ->
  exists m', steps p m (spell cs calls) m' /\
             ready i0 m' (dall ++ map (final_ctx2 cs) calls) /\
             map (fun k => obs_of_ctx (final_ctx2 cs k)) calls = map (expected_call cs) calls.
Proof.
  induction calls as [|k rest IH]; intros m dall R Cs.
  - exists m. simpl. rewrite app_nil_r. split; [apply steps_nil|]. auto.
  - cbn [forallb] in Cs. apply andb_true_iff in Cs. destruct Cs as [Ck Cr].
    pose proof Ck as Ck'. unfold call_ok2 in Ck'.
    destruct (nth_error cs (k_task k)) as [c|] eqn:N; [|discriminate].
    rewrite !andb_true_iff in Ck'. destruct Ck' as [[[Nm Pl] G] Is].
    unfold plain in Pl. rewrite negb_true_iff in Pl.
    destruct (ready_task_name cs ic i0 m dall (k_as k) c R Pl (Nf_p cs ic Pok k c N Nm))
      as [fl [got [S0 I1]]].
    destruct (call_items2 cs p eq_refl i0 Pok Npl k c false dall fl got N Ck I1)
      as (m1 & pend1 & S1 & R1 & Pl1 & Hm1 & Ob).
    destruct pend1; [specialize (Pl1 eq_refl); discriminate Pl1|].
    inversion R1 as [fl1 got1 I2 Eb Em|]; subst.
    assert (R2 : ready i0 (MS i0 dall (final_ctx2 cs k) fl1 got1) (dall ++ [final_ctx2 cs k])).
    { constructor; auto. eapply ready_missing; eauto. }
    destruct (IH _ _ R2 Cr) as [m' [S2 [R3 Ob2]]].
    exists m'. split; [|split].
    + unfold spell. cbn [flat_map]. unfold spell_call at 1. rewrite N. cbn [app].
      econstructor; [exact S0|]. cbn [app]. eapply steps_app; [exact S1 | exact S2].
    + cbn [map]. rewrite <- app_assoc in R3. exact R3.
    + cbn [map]. rewrite Ob, Ob2. reflexivity.
Qed.

Lemma calls_ok2_app : forall a k b,
  calls_ok2 cs (a ++ k :: b) = true ->
  forallb (call_ok2 cs false) a = true /\ calls_ok2 cs (k :: b) = true.
Proof.
  induction a as [|x a IH]; intros k b H; [split; [reflexivity | exact H]|].
  cbn [app calls_ok2] in H. apply andb_true_iff in H. destruct H as [Hx Hr].
  destruct (IH k b Hr) as [A B]. split; [|exact B].
  cbn [forallb]. rewrite A, andb_true_r.
  destruct (a ++ k :: b) eqn:E; [destruct a; discriminate E | exact Hx].
Qed.

(** *** all calls, from a ready machine *)
Lemma calls_from_ready2 i0 : forall calls m dall,
  ready i0 m dall -> calls <> [] -> calls_ok2 cs calls = true ->
  exists m' dn cu pend,
    steps p m (spell cs calls) m' /\ Rep i0 dn cu pend m' /\ has_missing cu = false /\
    dn ++ [cu] = dall ++ map (final_ctx2 cs) calls /\
    map (fun k => obs_of_ctx (final_ctx2 cs k)) calls = map (expected_call cs) calls.
Proof.
  intros calls m dall R Ne Cs. destruct calls as [|k rest]; [congruence|].
  cbn [calls_ok2] in Cs. apply andb_true_iff in Cs. destruct Cs as [Ck Cr].
  pose proof Ck as Ck'. unfold call_ok2 in Ck'.
  destruct (nth_error cs (k_task k)) as [c|] eqn:N; [|discriminate].
  rewrite !andb_true_iff in Ck'. destruct Ck' as [[[Nm Pl] G] Is].
  unfold plain in Pl. rewrite negb_true_iff in Pl.
  destruct (ready_task_name cs ic i0 m dall (k_as k) c R Pl (Nf_p cs ic Pok k c N Nm))
    as [fl [got [S0 I1]]].
  destruct (call_items2 cs p eq_refl i0 Pok Npl k c _ dall fl got N Ck I1)
    as (m1 & pend1 & S1 & R1 & Pl1 & Hm1 & Ob).
  assert (Pe1 : pend1 = true -> rest = []).
  { intros X. specialize (Pl1 X). destruct rest; [reflexivity | discriminate Pl1]. }
  destruct (calls_after cs p eq_refl i0 Pok Npl rest dall (final_ctx2 cs k) pend1 m1 R1 Pe1 Hm1 Cr)
    as (m2 & dn & cu & pend2 & S2 & R2 & Hm2 & E2 & Fa).
  exists m2, dn, cu, pend2. split; [|split; [exact R2 | split; [exact Hm2 | split]]].
  - unfold spell. cbn [flat_map]. unfold spell_call at 1. rewrite N. cbn [app].
    econstructor; [exact S0|]. cbn [app]. eapply steps_app; [exact S1 | exact S2].
  - rewrite E2. cbn [map]. reflexivity.
  - cbn [map]. rewrite Ob. f_equal.
    apply (forall2_map_eq (expected_call cs) (fun k => obs_of_ctx (final_ctx2 cs k))). exact Fa.
Qed.

Lemma spell_split calls1 t asn items1 items2 calls2 c :
  nth_error cs t = Some c ->
  spell cs (calls1 ++ mkCall t asn (items1 ++ items2) :: calls2)
  = spell cs calls1 ++ (asn :: flat_map (spell_item c) items1 ++ flat_map (spell_item c) items2)
    ++ spell cs calls2.
Proof.
  intros N. unfold spell. rewrite flat_map_app. cbn [flat_map].
  assert (E : spell_call cs (mkCall t asn (items1 ++ items2))
              = asn :: flat_map (spell_item c) items1 ++ flat_map (spell_item c) items2).
  { unfold spell_call. cbn [k_task k_as k_items]. rewrite N, flat_map_app. reflexivity. }
  rewrite E. reflexivity.
Qed.

(** finishing a run *)
Lemma parse_of_rep argv i0' m dn cu pend :
  has_missing (init_ctx ic) = false ->
  Forall (fun t => t <> "--") argv ->
  steps p (M0 (init_ctx ic)) argv m ->
  Rep i0' dn cu pend m -> has_missing cu = false ->
  exists r, parser_parse cs (Some ic) false argv = Ok r /\
            pr_ctxs r = i0' :: dn ++ [cu] /\ pr_unparsed r = [] /\ pr_remainder r = "".
Proof.
  intros Hi Cl St R Hm.
  destruct (finish_Rep i0' dn cu pend m R Hm) as [m' [Fi [Rc Un]]].
  pose proof (split_ddash_clean _ Cl) as Sd.
  assert (St' : steps p (M0 (init_ctx ic)) (fst (split_ddash argv)) m) by (rewrite Sd; exact St).
  pose proof (steps_parse _ argv _ _ m' (new_machine_M0 cs ic false Hi) St' Fi) as P.
  rewrite Sd in P. cbn [snd join] in P.
  eexists. split; [unfold parser_parse; rewrite Pok; exact P|].
  cbn [pr_ctxs pr_unparsed pr_remainder]. auto.
Qed.

Let i0 := init_ctx ic.

(** *** the core options first, then a wide invocation *)
Theorem wide_prefix_front os inv :
  guard_wide2 cs ic inv = true ->
  copts_ok cs (rc_args i0) os = true ->
  exists res,
    parser_parse cs (Some ic) false (flat_map spell_copt os ++ spell cs inv) = Ok res /\
    pr_ctxs res = with_args i0 (apply_copts (rc_args i0) os) :: map (final_ctx2 cs) inv /\
    map obs_of_ctx (tl (pr_ctxs res)) = expected cs inv /\
    pr_unparsed res = [] /\ pr_remainder res = "".
Proof.
  unfold guard_wide2. rewrite !andb_true_iff, negb_true_iff. intros [[[[_ _] Hi] Ne] Cs] Ok'.
  assert (I0 : inert (MI i0 None false)) by exact Logic.I.
  destruct (copts_steps_front p cs eq_refl os i0 None false I0 Hi Ok') as [fl [got [S0 [I1 Hi1]]]].
  cbv zeta in *. set (i0' := with_args i0 (apply_copts (rc_args i0) os)) in *.
  assert (R0 : ready i0' (MI i0' fl got) []) by (constructor; assumption).
  assert (Nn : inv <> []) by (destruct inv; [discriminate Ne | discriminate]).
  destruct (calls_from_ready2 i0' inv _ [] R0 Nn Cs) as (m' & dn & cu & pend & S1 & R1 & Hm & E & Ob).
  cbn [app] in E.
  assert (St : steps p (M0 i0) (flat_map spell_copt os ++ spell cs inv) m')
    by (eapply steps_app; [exact S0 | exact S1]).
  assert (Cl : Forall (fun t => t <> "--") (flat_map spell_copt os ++ spell cs inv)).
  { apply Forall_app. split; [eapply spell_copts_clean; eauto | apply spell_clean2; exact Cs]. }
  destruct (parse_of_rep _ i0' m' dn cu pend Hi Cl St R1 Hm) as [res [P [Rc [Un Rm]]]].
  exists res. split; [exact P|]. rewrite Rc, E. split; [reflexivity|]. cbn [tl].
  rewrite map_map. unfold expected. auto.
Qed.

(** *** the same options, same spellings, after a complete item of any call *)
Theorem wide_prefix_placed os calls1 t asn items1 items2 calls2 c :
  let inv := calls1 ++ mkCall t asn (items1 ++ items2) :: calls2 in
  guard_wide2 cs ic inv = true ->
  nth_error cs t = Some c ->
  placement_ok c items1 = true ->
  forallb (copt_free cs c) os = true ->
  copts_ok cs (rc_args i0) os = true ->
  exists res,
    parser_parse cs (Some ic) false
      (spell cs calls1 ++ (asn :: flat_map (spell_item c) items1)
       ++ flat_map spell_copt os ++ flat_map (spell_item c) items2 ++ spell cs calls2) = Ok res /\
    pr_ctxs res = with_args i0 (apply_copts (rc_args i0) os) :: map (final_ctx2 cs) inv /\
    map obs_of_ctx (tl (pr_ctxs res)) = expected cs inv /\
    pr_unparsed res = [] /\ pr_remainder res = "".
Proof.
  intros inv. unfold guard_wide2. rewrite !andb_true_iff, negb_true_iff.
  intros [[[[_ _] Hi] _] Cs] N Place Free Ok'.
  pose proof (spell_clean2 cs inv Cs) as ClInv.
  unfold inv in Cs. destruct (calls_ok2_app _ _ _ Cs) as [C1 Ck2].
  set (k := mkCall t asn (items1 ++ items2)) in *.
  cbn [calls_ok2] in Ck2. apply andb_true_iff in Ck2. destruct Ck2 as [Ck C2].
  set (last := match calls2 with [] => true | _ => false end) in *.
  pose proof Ck as Ck'. unfold call_ok2 in Ck'. cbn [k_task k] in Ck'. rewrite N in Ck'.
  rewrite !andb_true_iff in Ck'. destruct Ck' as [[[Nm Pl] G] Is]. cbn [k_as k_items k] in *.
  unfold plain in Pl. rewrite negb_true_iff in Pl.
  unfold placement_ok in Place. apply andb_true_iff in Place. destruct Place as [Fm Np].
  apply opt_nat_eqb_eq in Fm. rewrite negb_true_iff in Np.
  (* the calls before *)
  assert (R0 : ready i0 (MI i0 None false) []) by (constructor; [exact Logic.I | exact Hi]).
  destruct (calls_nonlast i0 calls1 _ [] R0 C1) as [m1 [S1 [R1 Ob1]]]. cbn [app] in R1.
  set (d1 := map (final_ctx2 cs) calls1) in *.
  (* the task name *)
  destruct (ready_task_name cs ic i0 m1 d1 asn c R1 Pl (Nf_p cs ic Pok k c N Nm)) as [fl [got [S2 I2]]].
  (* the items before the options *)
  destruct (guard_w_parts c G) as [Gn _]. destruct (guard_parts_nm c Gn) as [_ [_ [_ Ld]]].
  assert (V0 : vals_ok [] (map init_arg (cx_args c))).
  { intros j r Nj. apply nth_error_In in Nj. apply in_map_iff in Nj. destruct Nj as [a [<- Ha]].
    simpl. apply init_arg_value. now apply Ld. }
  destruct (items_mid i0 c last items1 items2 [] false d1 (init_ctx c) _ [] G Is (Inv_w_init c G) V0
                      (Rep_inert i0 d1 (init_ctx c) fl got I2)) as (m3 & S3 & R3 & Iw3 & V3 & Is3).
  cbv zeta in *. cbn [rc_args init_ctx app] in *.
  change (mkRCtx (cx_name c) (cx_aliases c) (map init_arg (cx_args c))) with (init_ctx c) in *.
  set (args1 := fold_left run_item2 items1 (map init_arg (cx_args c))) in *.
  set (cur1 := with_args (init_ctx c) args1) in *.
  set (given1 := given_items2 [] items1) in *.
  rewrite Np in R3, Is3.
  inversion R3 as [fl3 got3 I3 Eb Em|]; subst m3.
  assert (Hm1 : has_missing cur1 = false).
  { apply has_missing_with_args. exact (no_missing_of_end c given1 args1 G Iw3 Fm). }
  (* the options *)
  pose proof Iw3 as [St3 _]. pose proof (sn_shape _ _ _ St3) as Sh3.
  assert (FreeP : forall o, In o os ->
            find_flag (rc_args cur1) (co_tok o) = None /\
            find_inverse (rc_args cur1) (co_tok o) = None /\ is_ctx_name cs (co_tok o) = false).
  { intros o Ho. rewrite forallb_forall in Free. specialize (Free o Ho). unfold copt_free in Free.
    rewrite !andb_true_iff, negb_true_iff in Free. destruct Free as [[Fs Finv] Nn].
    cbn [rc_args cur1 with_args]. split; [|split; [|exact Nn]].
    - rewrite find_flag_args, Sh3.
      destruct (find_flag_spec (cx_args c) (co_tok o)); [discriminate | reflexivity].
    - unfold find_inverse.
      pose proof (find_map_spec args1 (is_inverse_of (co_tok o))) as E. rewrite Sh3 in E.
      destruct (find (is_inverse_of (co_tok o)) (cx_args c)); [discriminate|].
      destruct (find (fun r0 => is_inverse_of (co_tok o) (r_spec r0)) args1); [discriminate E | reflexivity]. }
  destruct (copts_steps_task p cs eq_refl d1 cur1 os i0 fl3 got3 I3 Hm1 Hi FreeP Ok')
    as [fl4 [got4 [S4 [I4 Hi4]]]].
  cbv zeta in S4, I4, Hi4. set (i0' := with_args i0 (apply_copts (rc_args i0) os)) in *.
  (* the items after the options *)
  destruct (items_steps2 cs p eq_refl i0' Pok Npl c last items2 given1 false d1 cur1 _
              (flat_map occs_of items1) G Is3 Iw3 V3 (Rep_inert i0' d1 cur1 fl4 got4 I4))
    as (m5 & given5 & pend5 & S5 & R5 & Pl5 & Iw5 & En5 & V5).
  cbv zeta in *. cbn [rc_args cur1 with_args] in *.
  assert (Ef : with_args cur1 (fold_left run_item2 items2 args1) = final_ctx2 cs k).
  { unfold final_ctx2. cbn [k_task k_items k]. rewrite N. rewrite fold_left_app. reflexivity. }
  change (with_args (with_args (init_ctx c) args1) (fold_left run_item2 items2 args1))
    with (with_args cur1 (fold_left run_item2 items2 args1)) in *.
  rewrite Ef in R5.
  assert (Ea : fold_left run_item2 items2 args1 = rc_args (final_ctx2 cs k)) by (rewrite <- Ef; reflexivity).
  rewrite Ea in Iw5, V5.
  assert (V5' : vals_ok (call_occs k) (rc_args (final_ctx2 cs k))).
  { unfold call_occs. cbn [k_items k]. rewrite flat_map_app. exact V5. }
  destruct (call_obs k c given5 N G Iw5 En5 V5') as [Hmk Obk].
  (* the calls after *)
  assert (Pe5 : pend5 = true -> calls2 = []).
  { intros X. specialize (Pl5 X). unfold last in Pl5. destruct calls2; [reflexivity | discriminate Pl5]. }
  destruct (calls_after cs p eq_refl i0' Pok Npl calls2 d1 (final_ctx2 cs k) pend5 m5 R5 Pe5 Hmk C2)
    as (m6 & dn & cu & pend6 & S6 & R6 & Hm6 & E6 & Fa).
  assert (St : steps p (M0 i0)
                 (spell cs calls1 ++ (asn :: flat_map (spell_item c) items1)
                  ++ flat_map spell_copt os ++ flat_map (spell_item c) items2 ++ spell cs calls2) m6).
  { eapply steps_app; [exact S1|]. cbn [app].
    econstructor; [exact S2|]. cbn [app].
    eapply steps_app; [exact S3|]. eapply steps_app; [exact S4|].
    eapply steps_app; [exact S5 | exact S6]. }
  assert (Cl : Forall (fun x => x <> "--")
                 (spell cs calls1 ++ (asn :: flat_map (spell_item c) items1)
                  ++ flat_map spell_copt os ++ flat_map (spell_item c) items2 ++ spell cs calls2)).
  { unfold inv, k in ClInv. rewrite (spell_split calls1 t asn items1 items2 calls2 c N) in ClInv.
    apply Forall_app in ClInv. destruct ClInv as [A B].
    apply Forall_app in B. destruct B as [B B2].
    inversion B as [|x l Hx B']; subst.
    apply Forall_app in B'. destruct B' as [B11 B12].
    apply Forall_app. split; [exact A|]. cbn [app]. constructor; [exact Hx|].
    apply Forall_app. split; [exact B11|].
    apply Forall_app. split; [eapply spell_copts_clean; eauto|].
    apply Forall_app. split; [exact B12 | exact B2]. }
  destruct (parse_of_rep _ i0' m6 dn cu pend6 Hi Cl St R6 Hm6) as [res [P [Rc [Un Rm]]]].
  exists res. split; [exact P|].
  assert (Eall : dn ++ [cu] = map (final_ctx2 cs) inv).
  { rewrite E6. unfold inv, d1. rewrite map_app. cbn [map]. reflexivity. }
  rewrite Rc, Eall. split; [reflexivity|]. split; [|auto]. cbn [tl].
  unfold inv, expected. rewrite !map_app. cbn [map]. rewrite !map_map.
  rewrite Ob1, Obk. f_equal. f_equal.
  apply (forall2_map_eq (expected_call cs) (fun k => obs_of_ctx (final_ctx2 cs k))). exact Fa.
Qed.

(** Placement equivalence of a whole core prefix over the wide fragment *)
Corollary wide_prefix_placement_equiv os calls1 t asn items1 items2 calls2 c :
  let inv := calls1 ++ mkCall t asn (items1 ++ items2) :: calls2 in
  guard_wide2 cs ic inv = true ->
  nth_error cs t = Some c ->
  placement_ok c items1 = true ->
  forallb (copt_free cs c) os = true ->
  copts_ok cs (rc_args i0) os = true ->
  exists res,
    parser_parse cs (Some ic) false (flat_map spell_copt os ++ spell cs inv) = Ok res /\
    parser_parse cs (Some ic) false
      (spell cs calls1 ++ (asn :: flat_map (spell_item c) items1)
       ++ flat_map spell_copt os ++ flat_map (spell_item c) items2 ++ spell cs calls2)
      = Ok res /\
    map obs_of_ctx (tl (pr_ctxs res)) = expected cs inv.
Proof.
  intros inv G N Pl Free Ok'.
  destruct (wide_prefix_front os inv G Ok') as [r1 [P1 [C1 [O1 [U1 M1]]]]].
  destruct (wide_prefix_placed os calls1 t asn items1 items2 calls2 c G N Pl Free Ok')
    as [r2 [P2 [C2 [O2 [U2 M2]]]]].
  fold inv in C2.
  assert (r1 = r2) by (destruct r1, r2; cbn in *; congruence).
  subst r2. exists r1. auto.
Qed.

End WidePlacement.

(** ** ... and through both passes of Program and _update_core_context *)
From InvokeVerif Require Import Corr.C18Corr Proofs.C18_program Proofs.C18_program_values.

Section ProgramWide.
Variable cs : list ctxspec.
Variable ic : ctxspec.
Let i0 := init_ctx ic.
Let I := rc_args i0.
Let core_after (os : list copt) : list (string * aval) := core_values (apply_copts I os).

Lemma spell_head2 k rest :
  calls_ok2 cs (k :: rest) = true ->
  exists tl, spell cs (k :: rest) = k_as k :: tl /\ starts_with "-" (k_as k) = false.
Proof.
  cbn [calls_ok2]. rewrite andb_true_iff. intros [Ck _]. unfold call_ok2 in Ck.
  unfold spell. cbn [flat_map]. unfold spell_call at 1.
  destruct (nth_error cs (k_task k)) as [c|]; [|discriminate].
  rewrite !andb_true_iff in Ck. destruct Ck as [[[_ Pl] _] _].
  unfold plain in Pl. rewrite negb_true_iff in Pl. cbn [app]. eauto.
Qed.

(** the options before the first task: consumed by the core pass *)
Theorem program_wide_front os inv :
  guard_wide2 cs ic inv = true -> copts_ok cs I os = true ->
  exists g, prog_obs ic cs (flat_map spell_copt os ++ spell cs inv) = Ok g /\
            g_core g = core_after os /\ g_tasks g = expected cs inv /\
            g_unparsed g = spell cs inv /\ g_remainder g = "".
Proof.
  intros G Ok'. pose proof G as G'. unfold guard_wide2 in G'. rewrite !andb_true_iff, negb_true_iff in G'.
  destruct G' as [[[[Pok Npl] Hi] Ne] Cs].
  destruct inv as [|k rest]; [discriminate|].
  destruct (spell_head2 k rest Cs) as [tail [Es Pl]].
  pose proof (spell_clean2 cs (k :: rest) Cs) as Cl.
  destruct (spell_roundtrip_widest2_closed cs ic (k :: rest) G) as [r2 [P2 [Hd [Tl [Un Rm]]]]].
  unfold prog_obs, program_parse. rewrite Es in *.
  rewrite (core_pass_prefix ic cs os (k_as k) tail Hi Ok' Pl Cl).
  cbn [pr_ctxs pr_unparsed pr_remainder]. rewrite P2.
  destruct (pr_ctxs r2) as [|via ts] eqn:E2; [discriminate Hd|].
  cbn [hd_error] in Hd. injection Hd as ->. cbn [tl] in Tl.
  eexists. split; [reflexivity|]. unfold gobs_of.
  cbn [g_core g_tasks g_unparsed g_remainder pg_core pg_tasks pg_unparsed pg_remainder with_args rc_args].
  split; [|split; [exact Tl | split; reflexivity]].
  exact (update_core_front cs ic os Ok').
Qed.

(** the options inside a task's argument list *)
Theorem program_wide_placed os calls1 t asn items1 items2 calls2 c :
  let inv := calls1 ++ mkCall t asn (items1 ++ items2) :: calls2 in
  let argv := spell cs calls1 ++ (asn :: flat_map (spell_item c) items1)
              ++ flat_map spell_copt os ++ flat_map (spell_item c) items2 ++ spell cs calls2 in
  guard_wide2 cs ic inv = true ->
  nth_error cs t = Some c ->
  placement_ok c items1 = true ->
  forallb (copt_free cs c) os = true ->
  copts_ok cs I os = true ->
  exists g, prog_obs ic cs argv = Ok g /\
            g_core g = core_after os /\ g_tasks g = expected cs inv /\
            g_unparsed g = argv /\ g_remainder g = "".
Proof.
  intros inv argv G N Place Free Ok'.
  pose proof G as G'. unfold guard_wide2 in G'. rewrite !andb_true_iff, negb_true_iff in G'.
  destruct G' as [[[[Pok Npl] Hi] _] Cs].
  destruct (wide_prefix_placed cs ic Pok Npl os calls1 t asn items1 items2 calls2 c G N Place Free Ok')
    as [r2 [P2 [Rc [Ob [Un Rm]]]]].
  fold inv argv in P2, Rc, Ob.
  assert (Hd : exists h tail, argv = h :: tail /\ starts_with "-" h = false /\
                              Forall (fun x => x <> "--") (h :: tail)).
  { pose proof (spell_clean2 cs inv Cs) as ClInv.
    unfold inv in ClInv. rewrite (spell_split cs calls1 t asn items1 items2 calls2 c N) in ClInv.
    apply Forall_app in ClInv. destruct ClInv as [A B].
    apply Forall_app in B. destruct B as [B B2].
    inversion B as [|x l Hx B']; subst.
    apply Forall_app in B'. destruct B' as [B11 B12].
    assert (Cl : Forall (fun x => x <> "--") argv).
    { unfold argv. apply Forall_app. split; [exact A|]. cbn [app]. constructor; [exact Hx|].
      apply Forall_app. split; [exact B11|].
      apply Forall_app. split; [eapply spell_copts_clean; eauto|].
      apply Forall_app. split; [exact B12 | exact B2]. }
    unfold inv in Cs. destruct (calls_ok2_app cs _ _ _ Cs) as [C1 Ck2].
    destruct calls1 as [|k1 r1].
    - cbn [calls_ok2] in Ck2. apply andb_true_iff in Ck2. destruct Ck2 as [Ck _].
      unfold call_ok2 in Ck. cbn [k_task k_as] in Ck. rewrite N in Ck.
      rewrite !andb_true_iff in Ck. destruct Ck as [[[_ Pl] _] _].
      unfold plain in Pl. rewrite negb_true_iff in Pl.
      unfold argv in *. cbn [spell flat_map app] in *. eexists _, _. split; [reflexivity|]. auto.
    - assert (Pl1 : exists tl1, spell cs (k1 :: r1) = k_as k1 :: tl1 /\ starts_with "-" (k_as k1) = false).
      { cbn [forallb] in C1. apply andb_true_iff in C1. destruct C1 as [Ck1 _].
        unfold call_ok2 in Ck1. unfold spell. cbn [flat_map]. unfold spell_call at 1.
        destruct (nth_error cs (k_task k1)) as [c1|]; [|discriminate].
        rewrite !andb_true_iff in Ck1. destruct Ck1 as [[[_ Pl] _] _].
        unfold plain in Pl. rewrite negb_true_iff in Pl. cbn [app]. eauto. }
      destruct Pl1 as [tl1 [E1 P1]].
      unfold argv in *. rewrite E1 in *. cbn [app] in *. eexists _, _. split; [reflexivity|]. auto. }
  destruct Hd as [h [tail [Ea [Ph Cl]]]].
  unfold prog_obs, program_parse. rewrite Ea in *.
  rewrite (core_pass_plain ic h tail Hi Ph Cl). cbn [pr_ctxs pr_unparsed pr_remainder].
  rewrite P2, Rc.
  eexists. split; [reflexivity|]. unfold gobs_of.
  cbn [g_core g_tasks g_unparsed g_remainder pg_core pg_tasks pg_unparsed pg_remainder with_args rc_args].
  split; [|split; [|split; reflexivity]].
  - exact (update_core_placed cs ic os Ok').
  - rewrite Rc in Ob. cbn [tl] in Ob. exact Ob.
Qed.

(** C18 for whole core prefixes over the wide fragment: same Program.args values,
    same task calls, same remainder, through both passes. *)
Corollary program_wide_placement_equiv os calls1 t asn items1 items2 calls2 c :
  let inv := calls1 ++ mkCall t asn (items1 ++ items2) :: calls2 in
  guard_wide2 cs ic inv = true ->
  nth_error cs t = Some c ->
  placement_ok c items1 = true ->
  forallb (copt_free cs c) os = true ->
  copts_ok cs I os = true ->
  exists gf gp,
    prog_obs ic cs (flat_map spell_copt os ++ spell cs inv) = Ok gf /\
    prog_obs ic cs (spell cs calls1 ++ (asn :: flat_map (spell_item c) items1)
                    ++ flat_map spell_copt os
                    ++ flat_map (spell_item c) items2 ++ spell cs calls2) = Ok gp /\
    g_core gf = g_core gp /\ g_tasks gf = g_tasks gp /\ g_tasks gp = expected cs inv /\
    g_remainder gf = g_remainder gp.
Proof.
  intros inv G N Pl Free Ok'.
  destruct (program_wide_front os inv G Ok') as [gf [Pf [Cf [Tf [_ Rf]]]]].
  destruct (program_wide_placed os calls1 t asn items1 items2 calls2 c G N Pl Free Ok')
    as [gp [Pp [Cp [Tp [_ Rp]]]]].
  exists gf, gp. fold inv in Tp. unfold core_after in *.
  repeat split; auto; congruence.
Qed.

End ProgramWide.

(** non-vacuity: "-e -T5 --config=x.yml" in front of, or inside the second call
    of, a wide invocation (positional by position, bare optional-value flag,
    inverse flag, dash-leading value, cluster with trailing value) *)
Definition ex_os : list copt :=
  [mkCopt "-e" 5 CBare ""; mkCopt "-T" 0 CGlued "5"; mkCopt "--config" 2 CEq "x.yml"].

Example wide_placement_example :
  let cs := [ex_build; ex_test] in
  let calls1 := [mkCall 1 "test" [One (mkOcc 0 1 FEq (VS "--all")); One (mkOcc 1 0 FBare (VB true))]] in
  let items1 := [One (mkOcc 0 0 FPos (VS "thing")); One (mkOcc 4 0 FBare VT);
                 One (mkOcc 3 0 FInv (VB false))] in
  let items2 := [One (mkOcc 2 0 FNext (VS "-x"));
                 Cluster [mkOcc 1 1 FStack (VN 2); mkOcc 5 1 FNext (VS "8")]] in
  let calls2 := [mkCall 0 "b" [One (mkOcc 0 0 FPos (VS "other")); One (mkOcc 4 1 FBare VT)]] in
  let inv := calls1 ++ mkCall 0 "build" (items1 ++ items2) :: calls2 in
  guard_wide2 cs core_ctx inv = true /\
  placement_ok ex_build items1 = true /\
  forallb (copt_free cs ex_build) ex_os = true /\
  copts_ok cs (rc_args (init_ctx core_ctx)) ex_os = true /\
  spell cs calls1 ++ ("build" :: flat_map (spell_item ex_build) items1)
    ++ flat_map spell_copt ex_os ++ flat_map (spell_item ex_build) items2 ++ spell cs calls2
  = ["test"; "-e=--all"; "--fast"; "build"; "thing"; "--log"; "--no-clean";
     "-e"; "-T5"; "--config=x.yml"; "--out-dir"; "-x"; "-vvj"; "8"; "b"; "other"; "-l"] /\
  exists gp,
    prog_obs core_ctx cs
      ["test"; "-e=--all"; "--fast"; "build"; "thing"; "--log"; "--no-clean";
       "-e"; "-T5"; "--config=x.yml"; "--out-dir"; "-x"; "-vvj"; "8"; "b"; "other"; "-l"] = Ok gp /\
    kw_get "echo" (g_core gp) = Some (ABool true) /\
    kw_get "command-timeout" (g_core gp) = Some (AInt 5) /\
    kw_get "config" (g_core gp) = Some (AStr "x.yml") /\
    g_tasks gp = expected cs inv.
Proof.
  cbv zeta. split; [vm_compute; reflexivity|]. split; [vm_compute; reflexivity|].
  split; [vm_compute; reflexivity|]. split; [vm_compute; reflexivity|].
  split; [vm_compute; reflexivity|].
  eexists. split; [vm_compute; reflexivity|]. repeat split; vm_compute; reflexivity.
Qed.

(** the parser-level corollary with its hypotheses read off the guard *)
Corollary wide_prefix_placement_equiv_closed cs ic os calls1 t asn items1 items2 calls2 c :
  let inv := calls1 ++ mkCall t asn (items1 ++ items2) :: calls2 in
  guard_wide2 cs ic inv = true ->
  nth_error cs t = Some c ->
  placement_ok c items1 = true ->
  forallb (copt_free cs c) os = true ->
  copts_ok cs (rc_args (init_ctx ic)) os = true ->
  exists res,
    parser_parse cs (Some ic) false (flat_map spell_copt os ++ spell cs inv) = Ok res /\
    parser_parse cs (Some ic) false
      (spell cs calls1 ++ (asn :: flat_map (spell_item c) items1)
       ++ flat_map spell_copt os ++ flat_map (spell_item c) items2 ++ spell cs calls2)
      = Ok res /\
    map obs_of_ctx (tl (pr_ctxs res)) = expected cs inv.
Proof.
  intros inv G. 
  exact (wide_prefix_placement_equiv cs ic (guard_wide2_parser_ok cs ic inv G)
           (guard_wide2_names_plain cs ic inv G) os calls1 t asn items1 items2 calls2 c G).
Qed.

(** ** The shadowing clause: "... unless that task declares a flag of the same
    name (which then receives it)".  [program_wide_front] does not ask the task
    flags of [inv] to differ from the core flags: whatever flags the tasks
    share with the initial context -- even with options of the prefix [os] --
    the core values are a function of [os] alone and every task receives
    exactly its expected arguments.  Instance: task "test" declares -e
    (exclude) and -f (fast), the core context -e (echo) and -f (config). *)
Example shadowing_example :
  let cs := [ex_build; ex_test] in
  let inv := [mkCall 1 "test" [One (mkOcc 0 1 FNext (VS "a")); One (mkOcc 1 1 FBare (VB true))]] in
  guard_wide2 cs core_ctx inv = true /\
  spell cs inv = ["test"; "-e"; "a"; "-f"] /\
  (exists i r, find_flag (rc_args (init_ctx core_ctx)) "-e" = Some i /\
               nth_error (rc_args (init_ctx core_ctx)) i = Some r /\ arg_name (r_spec r) = "echo") /\
  (exists i r, find_flag (rc_args (init_ctx core_ctx)) "-f" = Some i /\
               nth_error (rc_args (init_ctx core_ctx)) i = Some r /\ arg_name (r_spec r) = "config") /\
  exists g, prog_obs core_ctx cs ["-e"; "test"; "-e"; "a"; "-f"] = Ok g /\
            kw_get "echo" (g_core g) = Some (ABool true) /\
            kw_get "config" (g_core g) = Some ANone /\
            g_tasks g = [(Some "test", [("exclude", AList ["a"]); ("fast", ABool true)])].
Proof.
  cbv zeta. split; [vm_compute; reflexivity|]. split; [vm_compute; reflexivity|].
  split; [do 2 eexists; repeat split; vm_compute; reflexivity|].
  split; [do 2 eexists; repeat split; vm_compute; reflexivity|].
  eexists. split; [vm_compute; reflexivity|]. repeat split; vm_compute; reflexivity.
Qed.
