(** C15, part A: the model of option unification meets the resolution table. *)
From InvokeVerif Require Import Model.OptsModel Spec.C15Spec.
From Coq Require Import Lia.

Lemma kv_eqb_refl a : kv_eqb a a = true.
Proof. unfold kv_eqb. rewrite !String.eqb_refl. reflexivity. Qed.

Lemma list_eqb_refl {A} (f : A -> A -> bool) (H : forall a, f a a = true) l : list_eqb f l l = true.
Proof. induction l as [|a l IH]; simpl; [reflexivity | rewrite H, IH; reflexivity]. Qed.

Lemma oval_eqb_refl v : oval_eqb v v = true.
Proof.
  destruct v; simpl; try reflexivity.
  - destruct b; reflexivity.
  - apply String.eqb_refl.
  - apply Z.eqb_refl.
  - apply list_eqb_refl, kv_eqb_refl.
  - apply String.eqb_refl.
  - apply list_eqb_refl, String.eqb_refl.
Qed.

Lemma opt_str_eqb_refl a : opt_str_eqb a a = true.
Proof. destruct a; simpl; [apply String.eqb_refl | reflexivity]. Qed.

Lemma forallb_pointwise {A} (f : A -> bool) l : (forall a, f a = true) -> forallb f l = true.
Proof. intros H; induction l; simpl; [reflexivity | rewrite H; assumption]. Qed.

(** * resolution *)
Lemma pick_want c k o : pick (kw k o) (cfg_run c o) = want c k o.
Proof. unfold pick, want, given, cfg_run. destruct (kw k o) as [[]|]; reflexivity. Qed.

(** * hide *)
Lemma hide_agree v o e :
  normalize_hide v o e =
  match named_streams v with
  | None => None
  | Some l =>
      Some (filter (fun s => negb (String.eqb s "stdout" && negb (is_none_val o))
                             && negb (String.eqb s "stderr" && negb (is_none_val e))) l)
  end.
Proof.
  unfold normalize_hide, named_streams.
  destruct v as [| [|] | s | | | |]; try reflexivity; try (destruct o, e; reflexivity).
  destruct (String.eqb s "both") eqn:E1; [destruct o, e; reflexivity|].
  destruct (String.eqb s "out") eqn:E2.
  { simpl orb. destruct o, e; reflexivity. }
  destruct (String.eqb s "err") eqn:E3.
  { apply String.eqb_eq in E3; subst s. simpl. destruct o, e; reflexivity. }
  destruct (String.eqb s "stdout") eqn:E4.
  { apply String.eqb_eq in E4; subst s. simpl. destruct o, e; reflexivity. }
  destruct (String.eqb s "stderr") eqn:E5.
  { apply String.eqb_eq in E5; subst s. simpl. destruct o, e; reflexivity. }
  reflexivity.
Qed.

(** * environment *)
Lemma lookup_env_app key a b :
  lookup_env key (a ++ b) = match lookup_env key a with Some v => Some v | None => lookup_env key b end.
Proof.
  unfold lookup_env. induction a as [|[k v] a IH]; simpl; [reflexivity|].
  destruct (String.eqb key k); [reflexivity | exact IH].
Qed.

Lemma lookup_env_set key k v e :
  lookup_env key (env_set k v e) = if String.eqb key k then Some v else lookup_env key e.
Proof.
  induction e as [|[k' v'] e IH]; unfold lookup_env in *; simpl.
  - destruct (String.eqb key k); reflexivity.
  - destruct (String.eqb k k') eqn:E.
    + apply String.eqb_eq in E; subst k'. simpl. destruct (String.eqb key k); reflexivity.
    + simpl. destruct (String.eqb key k') eqn:E2.
      * apply String.eqb_eq in E2; subst k'. rewrite String.eqb_sym, E. reflexivity.
      * exact IH.
Qed.

Lemma lookup_env_update key : forall new parent,
  lookup_env key (env_update parent new) =
  match lookup_last key new with Some v => Some v | None => lookup_env key parent end.
Proof.
  unfold env_update, lookup_last.
  induction new as [|[k v] new IH]; intros parent; simpl; [reflexivity|].
  rewrite IH, lookup_env_app, lookup_env_set.
  destruct (lookup_env key (rev new)); [reflexivity|].
  unfold lookup_env at 2. simpl. destruct (String.eqb key k); reflexivity.
Qed.

Lemma env_ok_generate parent envv replace :
  env_ok parent envv replace (generate_env envv replace parent) = true.
Proof.
  unfold env_ok, generate_env. destruct (truthy replace).
  - apply forallb_pointwise. intros key. apply opt_str_eqb_refl.
  - apply forallb_pointwise. intros key. rewrite lookup_env_update. apply opt_str_eqb_refl.
Qed.

(** * what [unify] computes, in terms of the table *)
Definition echo_val (c : config) (k : kwargs) : oval :=
  if is_True (want c k Dry) then OBool true
  else if hide_full (want c k Hide) then OBool false else want c k Echo.

Definition hidden_list (c : config) (k : kwargs) : list string :=
  match hidden c k with Some l => l | None => [] end.

Definition resolved_of (c : config) (k : kwargs) : resolved :=
  mkRes (fun o => match o with
                  | Echo => echo_val c k
                  | Hide => OList (hidden_list c k)
                  | _ => pick (kw k o) (cfg_run c o)
                  end)
        (want_timeout c k)
        (or_default (want c k OutStream) sys_stdout)
        (or_default (want c k ErrStream) sys_stderr)
        (or_default (want c k InStream)
                    (if truthy (want c k Asynchronous) then OBool false else sys_stdin))
        (want c k Pty)
        (if truthy (want c k Watchers) then want c k Watchers else OList []).

Lemma unify_spec c k :
  unify c k = match rejected c k with Some e => Err e | None => Ok (resolved_of c k) end.
Proof.
  unfold unify, rejected, resolved_of, hidden_list, hidden, echo_val, want_timeout.
  rewrite !pick_want.
  destruct (kw_extra k) as [|x xs]; [|reflexivity].
  destruct (truthy (want c k Asynchronous) && truthy (want c k Disown)); [reflexivity|].
  rewrite hide_agree.
  destruct (named_streams (if truthy (want c k Asynchronous) then OBool true else want c k Hide));
    [|reflexivity].
  f_equal. f_equal; unfold or_default.
  - destruct (want c k OutStream); reflexivity.
  - destruct (want c k ErrStream); reflexivity.
  - destruct (want c k InStream); reflexivity.
Qed.

Lemma err_eqb_refl e : err_eqb e e = true.
Proof. destruct e; reflexivity. Qed.

Lemma echo_val_on c k : truthy (echo_val c k) = echo_on_r true c k.
Proof.
  unfold echo_val, echo_on_r, hide_full, fully_hidden. destruct (is_True (want c k Dry)); [reflexivity|].
  destruct (want c k Hide) as [| [|] | s | | | |]; try reflexivity.
  destruct (String.eqb s "both"); reflexivity.
Qed.

Lemma start_ok_model c parent command k :
  start_ok c parent command k
    (if truthy (want c k Dry) then None
     else Some (command, want c k Shell, generate_env (want c k Env) (want c k ReplaceEnv) parent)) = true.
Proof.
  unfold start_ok. destruct (truthy (want c k Dry)); [reflexivity|].
  rewrite String.eqb_refl, oval_eqb_refl, env_ok_generate. reflexivity.
Qed.

Lemma r_opts_resolved c k o :
  r_opts (resolved_of c k) o =
  match o with Echo => echo_val c k | Hide => OList (hidden_list c k) | _ => want c k o end.
Proof. destruct o; cbn [resolved_of r_opts]; rewrite ?pick_want; reflexivity. Qed.

(** * the flagship of part A *)
Theorem run_meets_spec c parent command k :
  spec_ok_opts_r true c parent command k (run_model c parent command k) = true.
Proof.
  unfold spec_ok_opts_r, run_model. rewrite unify_spec.
  destruct (rejected c k) as [e|] eqn:RJ.
  - cbn [o_exc o_started o_echo err_opt_eqb]. rewrite err_eqb_refl. reflexivity.
  - rewrite !r_opts_resolved. rewrite echo_val_on.
    pose proof (start_ok_model c parent command k) as ST.
    assert (RES : forallb (fun o => match o with
                                    | Echo | Hide => true
                                    | _ => oval_eqb (r_opts (resolved_of c k) o) (want c k o)
                                    end) all_opts = true).
    { apply forallb_pointwise. intros o. rewrite r_opts_resolved.
      destruct o; try reflexivity; apply oval_eqb_refl. }
    destruct (truthy (want c k Dry));
      cbn [o_exc o_res o_started o_echo]; rewrite RES, ST, !r_opts_resolved, echo_val_on;
      cbn [resolved_of r_timeout r_out r_err r_in];
      rewrite !oval_eqb_refl, eqb_reflx;
      change (echo_text (want c k EchoFormat) command) with (fill (want c k EchoFormat) command);
      rewrite opt_str_eqb_refl; unfold hidden_list; reflexivity.
Qed.

(** * Readable corollaries *)
Theorem want_table c k o :
  (forall v, kw k o = Some v -> v <> ONone -> want c k o = v) /\
  (kw k o = None \/ kw k o = Some ONone -> forall v, cf c o = Some v -> want c k o = v) /\
  (kw k o = None \/ kw k o = Some ONone -> cf c o = None -> want c k o = default o).
Proof.
  unfold want, given. repeat split.
  - intros v E N. rewrite E. destruct v; try reflexivity. contradiction.
  - intros [E|E] v C; rewrite E, C; reflexivity.
  - intros [E|E] C; rewrite E, C; reflexivity.
Qed.

Theorem resolution c k r :
  unify c k = Ok r ->
  (forall o, o <> Echo -> o <> Hide -> r_opts r o = want c k o) /\
  r_timeout r = want_timeout c k /\
  (forall v, kw_timeout k = Some v -> r_timeout r = v) /\
  (kw_timeout k = None -> r_timeout r = cf_timeout c).
Proof.
  rewrite unify_spec. destruct (rejected c k); [discriminate|].
  intros E. injection E as <-. repeat split.
  - intros o H1 H2. rewrite r_opts_resolved. destruct o; try reflexivity; contradiction.
  - intros v H. cbn [resolved_of r_timeout]. unfold want_timeout. rewrite H. reflexivity.
  - intros H. cbn [resolved_of r_timeout]. unfold want_timeout. rewrite H. reflexivity.
Qed.

Lemma is_True_truthy v : is_True v = true -> truthy v = true.
Proof. destruct v as [| [|] | | | | |]; simpl; congruence. Qed.

Theorem rejected_before_start c parent command k e :
  rejected c k = Some e ->
  o_exc (run_model c parent command k) = Some e /\
  o_started (run_model c parent command k) = None /\
  o_echo (run_model c parent command k) = None.
Proof. intros R. unfold run_model. rewrite unify_spec, R. auto. Qed.

Theorem rejected_cases c k :
  (kw_extra k <> [] -> rejected c k = Some EType) /\
  (kw_extra k = [] -> truthy (want c k Asynchronous) = true -> truthy (want c k Disown) = true ->
   rejected c k = Some EValue).
Proof.
  unfold rejected. split.
  - destruct (kw_extra k); [congruence | reflexivity].
  - intros -> A D. rewrite A, D. reflexivity.
Qed.

Definition both_unless_given (c : config) (k : kwargs) : list string :=
  filter (fun s => negb (String.eqb s "stdout" && negb (is_none_val (want c k OutStream)))
                   && negb (String.eqb s "stderr" && negb (is_none_val (want c k ErrStream))))
         ["stdout"; "stderr"].

Theorem interactions c parent command k :
  rejected c k = None ->
  let out := run_model c parent command k in
  (* full hiding suppresses echo (dry-run apart) *)
  (fully_hidden (want c k Hide) = true -> is_True (want c k Dry) = false -> o_echo out = None) /\
  (* dry-run forces echo and starts no process *)
  (is_True (want c k Dry) = true ->
   o_started out = None /\ o_echo out = Some (fill (want c k EchoFormat) command)) /\
  (* asynchronous: output hidden unless a stream was given, input disconnected unless given *)
  (truthy (want c k Asynchronous) = true ->
   exists r, o_res out = Some r /\
             r_opts r Hide = OList (both_unless_given c k) /\
             (want c k InStream = ONone -> r_in r = OBool false) /\
             (want c k InStream <> ONone -> r_in r = want c k InStream)).
Proof.
  intros R out. unfold out, run_model. rewrite unify_spec, R. rewrite !r_opts_resolved, echo_val_on.
  repeat split.
  - intros H D. unfold echo_on_r. rewrite D, H. destruct (truthy (want c k Dry)); reflexivity.
  - apply is_True_truthy in H. rewrite H. reflexivity.
  - unfold echo_on_r. rewrite H. rewrite (is_True_truthy _ H). reflexivity.
  - intros A. exists (resolved_of c k). split; [destruct (truthy (want c k Dry)); reflexivity|].
    rewrite r_opts_resolved. unfold hidden_list, hidden, both_unless_given. rewrite A.
    cbn [named_streams resolved_of r_in]. rewrite A. repeat split.
    + intros ->. reflexivity.
    + intros N. destruct (want c k InStream); try reflexivity. contradiction.
Qed.

Lemma started_ok c parent command k :
  rejected c k = None ->
  start_ok c parent command k (o_started (run_model c parent command k)) = true.
Proof.
  intros R. unfold run_model. rewrite unify_spec, R, !r_opts_resolved.
  pose proof (start_ok_model c parent command k) as H.
  destruct (truthy (want c k Dry)); exact H.
Qed.

Lemma started_value c parent command k :
  rejected c k = None -> truthy (want c k Dry) = false ->
  o_started (run_model c parent command k)
  = Some (command, want c k Shell, generate_env (want c k Env) (want c k ReplaceEnv) parent).
Proof.
  intros R D. unfold run_model. rewrite unify_spec, R, !r_opts_resolved, D. reflexivity.
Qed.

Theorem child_env d replace parent key :
  lookup_env key (generate_env (ODict d) replace parent)
  = if truthy replace then lookup_env key d
    else match lookup_last key d with Some v => Some v | None => lookup_env key parent end.
Proof.
  unfold generate_env. destruct (truthy replace); [reflexivity | apply lookup_env_update].
Qed.

Theorem hide_table :
  normalize_hide ONone ONone ONone = Some [] /\
  normalize_hide (OBool false) ONone ONone = Some [] /\
  normalize_hide (OBool true) ONone ONone = Some ["stdout"; "stderr"] /\
  normalize_hide (OStr "both") ONone ONone = Some ["stdout"; "stderr"] /\
  normalize_hide (OStr "out") ONone ONone = Some ["stdout"] /\
  normalize_hide (OStr "stdout") ONone ONone = Some ["stdout"] /\
  normalize_hide (OStr "err") ONone ONone = Some ["stderr"] /\
  normalize_hide (OStr "stderr") ONone ONone = Some ["stderr"] /\
  (forall v o e, normalize_hide v o e <> None ->
     In v [ONone; OBool false; OBool true; OStr "both"; OStr "out"; OStr "stdout"; OStr "err"; OStr "stderr"]) /\
  (forall v o e l, normalize_hide v o e = Some l ->
     (o <> ONone -> ~ In "stdout"%string l) /\ (e <> ONone -> ~ In "stderr"%string l)).
Proof.
  repeat split; try reflexivity.
  - intros v o e H. rewrite hide_agree in H. unfold named_streams in H.
    destruct v as [| [|] | s | | | |]; try (exfalso; apply H; reflexivity); simpl; auto 10.
    destruct (String.eqb s "both") eqn:E1; [apply String.eqb_eq in E1; subst; simpl; auto 10|].
    destruct (String.eqb s "out") eqn:E2; [apply String.eqb_eq in E2; subst; simpl; auto 10|].
    destruct (String.eqb s "stdout") eqn:E3; [apply String.eqb_eq in E3; subst; simpl; auto 10|].
    destruct (String.eqb s "err") eqn:E4; [apply String.eqb_eq in E4; subst; simpl; auto 10|].
    destruct (String.eqb s "stderr") eqn:E5; [apply String.eqb_eq in E5; subst; simpl; auto 10|].
    simpl in H. exfalso; apply H; reflexivity.
  - intros N I. rewrite hide_agree in H. destruct (named_streams v); [|discriminate].
    injection H as <-. apply filter_In in I as [_ I].
    destruct o; [contradiction| | | | | |]; simpl in I; discriminate.
  - intros N I. rewrite hide_agree in H. destruct (named_streams v); [|discriminate].
    injection H as <-. apply filter_In in I as [_ I].
    destruct e; [contradiction| | | | | |]; simpl in I;
      rewrite ?andb_true_r, ?andb_false_r in I; simpl in I; try discriminate;
      destruct (negb _) in I; discriminate.
Qed.

(** * what a call raises, what it starts *)
Lemma run_raises_spec c parent command k fails :
  (match o_exc (run_model c parent command k) with
   | Some EType => Some XType
   | Some EValue => Some XValue
   | Some _ => Some XBoom
   | None =>
       match o_started (run_model c parent command k), o_kind (run_model c parent command k),
             o_res (run_model c parent command k) with
       | Some _, RResult, Some r =>
           if fails && negb (truthy (r_opts r Warn)) then Some XUnexpected else None
       | _, _, _ => None
       end
   end) = expected_raise c k fails.
Proof.
  unfold expected_raise, run_model. rewrite unify_spec.
  destruct (rejected c k) as [e|]; [destruct e; reflexivity|].
  rewrite !r_opts_resolved.
  destruct (truthy (want c k Dry)); cbn [o_exc o_started o_kind o_res].
  - destruct fails; reflexivity.
  - rewrite r_opts_resolved.
    destruct (truthy (want c k Disown)), (truthy (want c k Asynchronous)), fails,
      (truthy (want c k Warn)); reflexivity.
Qed.

(** * Historical: before fix f03a111 only [hide is True] switched echo off (F-C15c) *)
Definition echo_val_before_fix (c : config) (k : kwargs) : oval :=
  if is_True (want c k Dry) then OBool true
  else if is_True (want c k Hide) then OBool false else want c k Echo.

Theorem hide_both_echo_before_fix_refuted :
  exists c parent command k,
    rejected c k = None /\ want c k Hide = OStr "both" /\
    truthy (echo_val_before_fix c k) = true /\      (* echoed then, both streams hidden *)
    echo_on c k = false /\                          (* must not be *)
    o_echo (run_model c parent command k) = None.   (* and is not any more *)
Proof.
  exists (mkCfg (fun _ => None) ONone), [], "ls"%string,
         (mkKw (fun o => match o with Hide => Some (OStr "both") | Echo => Some (OBool true) | _ => None end)
               None []).
  vm_compute. repeat split; reflexivity.
Qed.
