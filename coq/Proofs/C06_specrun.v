(** C06: the model's decisions are the nested dict's decisions.

    The journal in [C06_refines_nested_dict_partial] is built from what the
    MODEL decided (did navigation succeed, was the key there).  Here: whenever
    the model's view and a reference dict show the same at every path ([sim]),
    the specification's nested-dict step [C06Spec.nd_step] on the reference
    takes the same decisions and logs the same journal entries as the model
    (for [clear]: the same deletions, possibly in another key order). *)
From InvokeVerif Require Import Common.Tree Common.StrUtil Model.MergeModel Model.ConfigModel
     Spec.C03Spec Spec.C06Spec Proofs.ListFacts Proofs.TreeFacts Proofs.C03_merge Proofs.C03_levels
     Proofs.C06_shapes Proofs.C06_track Proofs.C06_refine.

Lemma walk_is_nav fl : forall p d, walk fl d p = nav fl d p.
Proof.
  induction p as [|k p IH]; intros d; [reflexivity|].
  simpl. destruct (get k d) as [[v|kids]|]; try (destruct fl; reflexivity); apply IH.
Qed.

Lemma sim_get k d1 d2 : sim (Node d1) (Node d2) ->
  match get k d1, get k d2 with
  | Some (Leaf x), Some (Leaf y) => x = y
  | Some (Node a), Some (Node b) => sim (Node a) (Node b)
  | None, None => True
  | _, _ => False
  end.
Proof.
  intros H. pose proof (H [k]) as H1. rewrite !shape_at_cons_Node in H1.
  destruct (get k d1) as [[x|a]|] eqn:G1, (get k d2) as [[y|b]|] eqn:G2; simpl in H1; try discriminate; auto.
  - inversion H1; reflexivity.
  - intros q. pose proof (H (k :: q)) as Hq. rewrite !shape_at_cons_Node, G1, G2 in Hq. exact Hq.
Qed.

Lemma sim_has k d1 d2 : sim (Node d1) (Node d2) -> has k d1 = has k d2.
Proof.
  intros H. pose proof (sim_get k d1 d2 H) as G. unfold has.
  destruct (get k d1) as [[x|a]|], (get k d2) as [[y|b]|]; try contradiction; reflexivity.
Qed.

(** Navigation succeeds in both or fails in both with the same error. *)
Lemma nav_sim fl : forall kp d1 d2, sim (Node d1) (Node d2) ->
  match nav fl d1 kp, nav fl d2 kp with
  | Ok a, Ok b => sim (Node a) (Node b)
  | Err e1, Err e2 => e1 = e2
  | _, _ => False
  end.
Proof.
  induction kp as [|k kp IH]; intros d1 d2 H; [exact H|].
  simpl. pose proof (sim_get k d1 d2 H) as G.
  destruct (get k d1) as [[x|a]|], (get k d2) as [[y|b]|]; try contradiction; try reflexivity.
  apply IH. exact G.
Qed.

(** The operations whose journal entries are compared literally. *)
Definition literal_op (o : op) : bool :=
  match o with
  | Get _ _ _ | Contains _ _ _ | Len _ _ | Keys _ _ | SetV _ _ _ _ | Del _ _ _ | Pop _ _ _ _
  | SetDefault _ _ _ _ | Update _ _ _ | View _ _ | EqD _ _ _ | GetM _ _ _ _
  | UpdateBoth _ _ _ _ => true
  | _ => false
  end.

Theorem decisions_agree : forall c st o out,
  sim (Node (c_cache c)) (Node st) -> literal_op o = true ->
  snd (nd_step st o out) = events_of c o.
Proof.
  intros c st o out H Hl. destruct o; simpl in Hl; try discriminate; unfold nd_step, events_of;
    rewrite walk_is_nav; pose proof (nav_sim fl kp (c_cache c) st H) as Hn;
    destruct (nav fl (c_cache c) kp) as [d1|e1], (nav fl st kp) as [d2|e2]; try contradiction; try reflexivity.
  - destruct (get k d2); reflexivity.
  - rewrite (sim_has k d1 d2 Hn). destruct (has k d2); reflexivity.
  - pose proof (sim_has k d1 d2 Hn) as Hh. unfold has in *.
    destruct (get k d2), (get k d1); try discriminate; try reflexivity; destruct dflt; reflexivity.
  - pose proof (sim_has k d1 d2 Hn) as Hh. unfold has in *.
    destruct (get k d2), (get k d1); try discriminate; reflexivity.
  - destruct (get k d2); reflexivity.
Qed.

(** [clear]: the same keys are deleted (the order may differ). *)
Theorem clear_same_keys : forall c st fl kp d1 d2,
  sim (Node (c_cache c)) (Node st) -> nav fl (c_cache c) kp = Ok d1 -> walk fl st kp = Ok d2 ->
  forall k, In k (keys d1) <-> In k (keys d2).
Proof.
  intros c st fl kp d1 d2 H N1 N2 k. rewrite walk_is_nav in N2.
  pose proof (nav_sim fl kp (c_cache c) st H) as Hn. rewrite N1, N2 in Hn.
  pose proof (sim_has k d1 d2 Hn) as Hh. unfold has in Hh.
  split; intros Hin.
  - destruct (get k d2) eqn:G2; [eapply get_in_keys; eassumption|].
    destruct (get k d1) eqn:G1; [discriminate|]. exfalso. exact (proj1 (get_none_not_in k d1) G1 Hin).
  - destruct (get k d1) eqn:G1; [eapply get_in_keys; eassumption|].
    destruct (get k d2) eqn:G2; [discriminate|]. exfalso. exact (proj1 (get_none_not_in k d2) G2 Hin).
Qed.

(** And the outcome the nested dict expects is an error exactly when the
    model's navigation fails, with the same exception class. *)
Theorem nav_errors_agree : forall c st fl kp,
  sim (Node (c_cache c)) (Node st) ->
  (forall e, nav fl (c_cache c) kp = Err e <-> walk fl st kp = Err e).
Proof.
  intros c st fl kp H e. change (walk fl st kp) with (nav fl st kp).
  pose proof (nav_sim fl kp (c_cache c) st H) as Hn.
  destruct (nav fl (c_cache c) kp), (nav fl st kp); try contradiction; split; intros E;
    try discriminate; congruence.
Qed.
