(** merge_dicts on type-consistent trees: succeeds, keeps well-formedness, and at
    every path shows what the update says, else what the base says. *)
From InvokeVerif Require Import Common.Tree Common.StrUtil Model.MergeModel Spec.C03Spec
     Proofs.ListFacts Proofs.TreeFacts.

Definition orelse {A} (a b : option A) : option A :=
  match a with Some x => Some x | None => b end.

Lemma orelse_assoc {A} (a b c : option A) : orelse a (orelse b c) = orelse (orelse a b) c.
Proof. destruct a; reflexivity. Qed.

Lemma orelse_none_r {A} (a : option A) : orelse a None = a.
Proof. destruct a; reflexivity. Qed.

(** * shape_at *)
Lemma shape_at_nil t : shape_at [] t = Some (shape_of t).
Proof. reflexivity. Qed.

Lemma shape_at_cons_Node k p kids :
  shape_at (k :: p) (Node kids) = match get k kids with Some c => shape_at p c | None => None end.
Proof. unfold shape_at; simpl. destruct (get k kids); reflexivity. Qed.

Lemma shape_at_cons_Leaf k p v : shape_at (k :: p) (Leaf v) = None.
Proof. reflexivity. Qed.

Definition shape_opt (p : path) (o : option tree) : option shape :=
  match o with Some t => shape_at p t | None => None end.

Lemma shape_at_cons_Node' k p kids : shape_at (k :: p) (Node kids) = shape_opt p (get k kids).
Proof. rewrite shape_at_cons_Node. reflexivity. Qed.

Lemma shape_at_empty p : p <> [] -> shape_at p (Node []) = None.
Proof. destruct p; [congruence | reflexivity]. Qed.

(** * Type consistency of two trees, as a statement about paths *)
Definition kind_ok (a b : option shape) : Prop :=
  match a, b with
  | Some SNode, Some (SLeaf _) => False
  | Some (SLeaf _), Some SNode => False
  | _, _ => True
  end.

Definition agree (a b : tree) : Prop := forall p, kind_ok (shape_at p a) (shape_at p b).

Lemma agree_child ka kb k a b :
  agree (Node ka) (Node kb) -> get k ka = Some a -> get k kb = Some b -> agree a b.
Proof.
  intros H Ha Hb p. specialize (H (k :: p)). rewrite !shape_at_cons_Node, Ha, Hb in H. exact H.
Qed.

Lemma agree_empty_node us : agree (Node []) (Node us).
Proof.
  intros [|k p]; [exact I|]. rewrite shape_at_empty by congruence. exact I.
Qed.

Lemma kind_ok_sym a b : kind_ok a b -> kind_ok b a.
Proof. destruct a as [[?|]|], b as [[?|]|]; simpl; auto. Qed.

Lemma agree_sym a b : agree a b -> agree b a.
Proof. intros H p. apply kind_ok_sym, H. Qed.

(** * wf helpers *)
Lemma wf_kids_set k t d : wf t = true -> wf_kids d = true -> wf_kids (set k t d) = true.
Proof.
  intros Ht. unfold wf_kids. induction d as [|[k' t'] d IH]; simpl; intros H.
  - rewrite Ht; reflexivity.
  - apply andb_true_iff in H as [H1 H2]. destruct (String.eqb k k'); simpl.
    + rewrite Ht, H2; reflexivity.
    + rewrite H1, IH; auto.
Qed.

Lemma wf_Node_set k t d : wf t = true -> wf (Node d) = true -> wf (Node (set k t d)) = true.
Proof.
  rewrite !wf_Node, !andb_true_iff, !nodupb_NoDup. intros Ht [H1 H2]. split.
  - apply NoDup_keys_set; assumption.
  - apply wf_kids_set; assumption.
Qed.

Lemma wf_get k d c : wf (Node d) = true -> get k d = Some c -> wf c = true.
Proof.
  intros H G. apply wf_Node_inv in H as [_ H]. rewrite Forall_forall in H.
  apply (H (k, c)). apply get_in; assumption.
Qed.

Lemma get_set k k' t d : get k (set k' t d) = if String.eqb k k' then Some t else get k d.
Proof.
  destruct (String.eqb k k') eqn:E.
  - apply String.eqb_eq in E; subst. apply get_set_same.
  - apply String.eqb_neq in E. apply get_set_other; assumption.
Qed.

(** * The list loop *)
Definition merge_goal (base : dict) (u : tree) : Prop :=
  exists m, merge_dicts base u = Ok m /\ wf (Node m) = true /\
            forall p, shape_at p (Node m) = orelse (shape_at p u) (shape_at p (Node base)).

Definition merge_IH (t : tree) : Prop :=
  wf t = true -> forall base, wf (Node base) = true -> agree (Node base) t ->
  is_node t = true -> merge_goal base t.

Lemma merge_list_shape us :
  Forall (fun kt => merge_IH (snd kt)) us ->
  NoDup (keys us) -> Forall (fun kt => wf (snd kt) = true) us ->
  forall base, wf (Node base) = true ->
    (forall k v bv, get k us = Some v -> get k base = Some bv -> agree bv v) ->
    exists m, merge_list us base = Ok m /\ wf (Node m) = true /\
      forall k, match get k us with
                | Some v => exists r, get k m = Some r /\
                                      forall p, shape_at p r = orelse (shape_at p v) (shape_opt p (get k base))
                | None => get k m = get k base
                end.
Proof.
  induction us as [|[k0 v0] rest IHl]; intros HIH ND Hwf base Hb Hag.
  - exists base. simpl. split; [reflexivity|]. split; [assumption|]. intros k; reflexivity.
  - inversion HIH as [|? ? IH0 HIHr]; subst. simpl in IH0.
    inversion ND as [|? ? Hnin NDr]; subst.
    inversion Hwf as [|? ? Hwf0 Hwfr]; subst. simpl in Hwf0.
    (* one step *)
    assert (Hstep : exists r0, merge_step base k0 v0 = Ok (set k0 r0 base) /\ wf r0 = true /\
              forall p, shape_at p r0 = orelse (shape_at p v0) (shape_opt p (get k0 base))).
    { assert (Hag0 : forall bv, get k0 base = Some bv -> agree bv v0).
      { intros bv G. apply (Hag k0 v0 bv); [simpl; rewrite String.eqb_refl; reflexivity | exact G]. }
      unfold merge_step. destruct (get k0 base) as [bv|] eqn:G.
      - specialize (Hag0 bv eq_refl).
        destruct v0 as [x|vk], bv as [y|bk].
        + exists (Leaf x). split; [reflexivity|]. split; [reflexivity|].
          intros [|k p]; reflexivity.
        + exfalso. exact (Hag0 []).
        + exfalso. exact (Hag0 []).
        + destruct (IH0 Hwf0 bk (wf_get _ _ _ Hb G) Hag0 eq_refl) as [m0 [E0 [W0 S0]]].
          rewrite E0. exists (Node m0). split; [reflexivity|]. split; [assumption|]. exact S0.
      - destruct v0 as [x|vk].
        + exists (Leaf x). split; [reflexivity|]. split; [reflexivity|].
          intros [|k p]; reflexivity.
        + destruct (IH0 Hwf0 [] eq_refl (agree_empty_node vk) eq_refl) as [m0 [E0 [W0 S0]]].
          rewrite E0. exists (Node m0). split; [reflexivity|]. split; [assumption|].
          intros p. rewrite S0. destruct p as [|k p]; [reflexivity|].
          rewrite shape_at_empty by congruence. reflexivity. }
    destruct Hstep as [r0 [E0 [W0 S0]]].
    assert (Hb' : wf (Node (set k0 r0 base)) = true) by (apply wf_Node_set; assumption).
    assert (Hag' : forall k v bv, get k rest = Some v -> get k (set k0 r0 base) = Some bv -> agree bv v).
    { intros k v bv Gk Gb. rewrite get_set in Gb.
      destruct (String.eqb k k0) eqn:E.
      - apply String.eqb_eq in E; subst. exfalso. apply Hnin. eapply get_in_keys; eassumption.
      - apply (Hag k v bv); [simpl; rewrite E; exact Gk | exact Gb]. }
    destruct (IHl HIHr NDr Hwfr _ Hb' Hag') as [m [Em [Wm Sm]]].
    exists m. split; [simpl; rewrite E0; exact Em|]. split; [assumption|].
    intros k. simpl. destruct (String.eqb k k0) eqn:E.
    + apply String.eqb_eq in E; subst k.
      assert (Gr : get k0 rest = None) by (apply get_none_not_in; exact Hnin).
      specialize (Sm k0). rewrite Gr in Sm. exists r0. split; [|exact S0].
      rewrite Sm, get_set, String.eqb_refl. reflexivity.
    + specialize (Sm k). rewrite get_set, E in Sm. exact Sm.
Qed.

(** * merge_dicts: shape of the result at every path *)
Theorem merge_shape : forall u, merge_IH u.
Proof.
  induction u as [v | us IH] using tree_ind'; intros Hwf base Hb Hag Hn; [discriminate|].
  unfold merge_goal. rewrite merge_dicts_Node.
  apply wf_Node_inv in Hwf as [ND Hk].
  destruct (merge_list_shape us IH ND Hk base Hb) as [m [Em [Wm Sm]]].
  - intros k v bv Gu Gb. eapply agree_child; eassumption.
  - exists m. split; [assumption|]. split; [assumption|].
    intros [|k p]; [reflexivity|].
    rewrite !shape_at_cons_Node'. specialize (Sm k).
    destruct (get k us) as [v|].
    + destruct Sm as [r [Gr Sr]]. rewrite Gr. simpl. apply Sr.
    + rewrite Sm. reflexivity.
Qed.

(** One-level / path lookup through merge_dicts for type-consistent trees. *)
Corollary merge_lookup : forall base us,
  wf (Node base) = true -> wf (Node us) = true -> agree (Node base) (Node us) ->
  exists m, merge_dicts base (Node us) = Ok m /\ wf (Node m) = true /\
    forall p, shape_at p (Node m) = orelse (shape_at p (Node us)) (shape_at p (Node base)).
Proof. intros base us Hb Hu Hag. exact (merge_shape (Node us) Hu base Hb Hag eq_refl). Qed.

(** Keys of the merge are the union of the keys. *)
Corollary merge_keys_union : forall base us m,
  wf (Node base) = true -> wf (Node us) = true -> agree (Node base) (Node us) ->
  merge_dicts base (Node us) = Ok m ->
  forall k, has k m = has k base || has k us.
Proof.
  intros base us m Hb Hu Hag E k.
  destruct (merge_lookup base us Hb Hu Hag) as [m' [E' [_ S]]].
  rewrite E in E'. inversion E'; subst m'. specialize (S [k]).
  rewrite !shape_at_cons_Node' in S. unfold has.
  destruct (get k m), (get k us), (get k base); simpl in S; try discriminate; reflexivity.
Qed.
