(** Proofs for C09: get_arguments puts the positional arguments first, in the
    order of the positional list. *)
From InvokeVerif Require Import Model.SigCtxModel Spec.C09Spec
     Proofs.C09_facts Proofs.C09_sig Proofs.C09_ctx Proofs.C09_wf Proofs.C09_main.
From Coq Require Import Lia Permutation.

Definition find_arg (n : string) (l : list argspec) : option argspec :=
  find (fun a => String.eqb (arg_name a) n) l.
Definition sel (pos : list string) (l : list argspec) : list argspec :=
  flat_map (fun n => match find_arg n l with Some a => [a] | None => [] end) pos.
Definition others (pos : list string) (l : list argspec) : list argspec :=
  filter (fun a => negb (mem (arg_name a) pos)) l.

Lemma extract_app_skip n X Y :
  (forall a, In a X -> arg_name a <> n) ->
  extract n (X ++ Y) = match extract n Y with
                       | Some (a, Y') => Some (a, X ++ Y')
                       | None => None
                       end.
Proof.
  induction X as [|x X IH]; intros H; simpl.
  - destruct (extract n Y) as [[a Y']|]; reflexivity.
  - destruct (String.eqb (arg_name x) n) eqn:E.
    + apply String.eqb_eq in E. elim (H x); [now left | assumption].
    + rewrite IH by (intros a Ha; apply H; now right).
      destruct (extract n Y) as [[a Y']|]; reflexivity.
Qed.

Lemma filter_all {A} (f : A -> bool) l : (forall x, In x l -> f x = true) -> filter f l = l.
Proof.
  induction l as [|a l IH]; simpl; intros H; [reflexivity|].
  rewrite (H a) by now left. rewrite IH; [reflexivity|]. intros x Hx. apply H. now right.
Qed.

Lemma extract_find n l : NoDup (map arg_name l) ->
  extract n l = match find_arg n l with
                | Some a => Some (a, filter (fun b => negb (String.eqb (arg_name b) n)) l)
                | None => None
                end.
Proof.
  unfold find_arg. induction l as [|a l IH]; simpl; intros ND; [reflexivity|].
  inversion ND as [|? ? N1 N2]; subst.
  destruct (String.eqb (arg_name a) n) eqn:E; simpl.
  - apply String.eqb_eq in E. rewrite filter_all; [reflexivity|].
    intros x Hx. apply negb_true_iff, String.eqb_neq. intros C. apply N1. rewrite E, <- C.
    now apply in_map.
  - rewrite (IH N2). destruct (find _ l); reflexivity.
Qed.

Lemma find_arg_name n l a : find_arg n l = Some a -> arg_name a = n /\ In a l.
Proof.
  unfold find_arg. intros H. apply find_some in H. destruct H as [H1 H2].
  apply String.eqb_eq in H2. tauto.
Qed.

Lemma find_arg_others n pos l : ~ In n pos -> find_arg n (others pos l) = find_arg n l.
Proof.
  unfold find_arg, others. intros Hn. induction l as [|a l IH]; simpl; [reflexivity|].
  destruct (String.eqb (arg_name a) n) eqn:E.
  - apply String.eqb_eq in E. assert (M : mem (arg_name a) pos = false).
    { apply mem_false_notin. now rewrite E. }
    rewrite M. simpl. apply String.eqb_eq in E. now rewrite E.
  - destruct (negb (mem (arg_name a) pos)); simpl; [now rewrite E | assumption].
Qed.

Lemma NoDup_map_filter {A B} (g : A -> B) (f : A -> bool) l :
  NoDup (map g l) -> NoDup (map g (filter f l)).
Proof.
  induction l as [|a l IH]; simpl; intros ND; [constructor|].
  inversion ND as [|? ? N1 N2]; subst. destruct (f a); simpl; [|now apply IH].
  constructor; [|now apply IH]. intros C. apply N1.
  apply in_map_iff in C. destruct C as [x [E Hx]]. apply filter_In in Hx.
  rewrite <- E. apply in_map. tauto.
Qed.

Lemma filter_filter {A} (f g : A -> bool) l :
  filter f (filter g l) = filter (fun x => g x && f x) l.
Proof.
  induction l as [|a l IH]; simpl; [reflexivity|].
  destruct (g a); simpl; [destruct (f a); now rewrite IH | assumption].
Qed.

Lemma reorder_cons p pos l : reorder (p :: pos) l = move_front p (reorder pos l).
Proof. unfold reorder. simpl. now rewrite fold_left_app. Qed.

Theorem reorder_char pos l :
  NoDup pos -> NoDup (map arg_name l) -> reorder pos l = sel pos l ++ others pos l.
Proof.
  intros NP NL. induction pos as [|p pos IH].
  - unfold reorder, sel, others. simpl. now rewrite filter_all.
  - inversion NP as [|? ? P1 P2]; subst. rewrite reorder_cons, (IH P2).
    unfold move_front. rewrite extract_app_skip.
    2:{ intros a Ha C. unfold sel in Ha. apply in_flat_map in Ha. destruct Ha as [n [Hn Ha]].
        destruct (find_arg n l) as [b|] eqn:E; [|destruct Ha]. destruct Ha as [<-|[]].
        apply find_arg_name in E. destruct E as [E _]. congruence. }
    rewrite extract_find by (apply NoDup_map_filter; assumption).
    rewrite find_arg_others by assumption.
    unfold sel at 2 3. cbn [flat_map]. fold (sel pos l).
    destruct (find_arg p l) as [a|] eqn:E.
    + simpl. f_equal. f_equal. unfold others. rewrite filter_filter. apply filter_ext.
      intros b. simpl. rewrite negb_orb. apply andb_comm.
    + simpl. f_equal. unfold others. apply filter_ext_in. intros b Hb. simpl.
      assert (Hne : String.eqb (arg_name b) p = false).
      { apply String.eqb_neq. intros C. unfold find_arg in E.
        apply (find_none _ _ E) in Hb. rewrite C, String.eqb_refl in Hb. discriminate. }
      now rewrite Hne.
Qed.

Lemma T_pos_app l1 l2 : T_pos (l1 ++ l2) = T_pos l1 ++ T_pos l2.
Proof. unfold T_pos. apply flat_map_app. Qed.

Lemma T_pos_all l : (forall a, In a l -> a_positional a = true) -> T_pos l = map main_of l.
Proof.
  induction l as [|a l IH]; intros H; simpl; [reflexivity|].
  rewrite (H a) by now left. simpl. f_equal. apply IH. intros b Hb. apply H. now right.
Qed.

Lemma T_pos_none l : (forall a, In a l -> a_positional a = false) -> T_pos l = [].
Proof.
  induction l as [|a l IH]; intros H; simpl; [reflexivity|].
  rewrite (H a) by now left. simpl. apply IH. intros b Hb. apply H. now right.
Qed.

Lemma sel_names pos l : (forall n, In n pos -> In n (map arg_name l)) -> map arg_name (sel pos l) = pos.
Proof.
  induction pos as [|p pos IH]; intros H; simpl; [reflexivity|].
  destruct (find_arg p l) as [a|] eqn:E.
  - simpl. destruct (find_arg_name _ _ _ E) as [-> _]. f_equal. apply IH.
    intros n Hn. apply H. now right.
  - exfalso. assert (Hp : In p (map arg_name l)) by (apply H; now left).
    apply in_map_iff in Hp. destruct Hp as [a [Ea Ha]]. unfold find_arg in E.
    apply (find_none _ _ E) in Ha. rewrite Ea, String.eqb_refl in Ha. discriminate.
Qed.

Lemma positional_flag s a : In a (get_arguments s) ->
  a_positional a = mem (arg_name a) (fill_implicit_positionals s).
Proof.
  intros H. destruct (get_arguments_in _ _ H) as [p [t [_ ->]]].
  now rewrite arg_name_arg_opts.
Qed.

(** positional arguments come first, in the order of the positional list, and
    ParserContext.positional_args lists exactly them in that order *)
Theorem positional_order s o :
  wf_sig s = true -> sig_cli s = Ok o ->
  let pos := fill_implicit_positionals s in
  NoDup pos -> incl pos (map p_name (s_params s)) ->
  map arg_name (firstn (List.length pos) (o_args o)) = pos /\
  o_positional o = map dashed pos.
Proof.
  intros W H pos NP Inc. destruct (sig_cli_ok _ _ H) as [c [Hc ->]].
  destruct (sig_ctx_ok_closed_form s c W Hc) as [G ->].
  cbn [o_args o_positional T x_positional].
  destruct (wf_sig_parts s W) as (W1 & _ & _).
  set (b := build_args (s_deco s) pos (s_params s)
                       (map p_name (s_params s) ++ map (fun p => translate_underscores (p_name p)) (s_params s))).
  assert (Nb : NoDup (map arg_name b)) by (unfold b; now rewrite build_args_names).
  assert (Eg : get_arguments s = sel pos b ++ others pos b).
  { unfold get_arguments. fold pos b. now apply reorder_char. }
  assert (Sn : map arg_name (sel pos b) = pos).
  { apply sel_names. intros n Hn. unfold b. rewrite build_args_names. now apply Inc. }
  assert (Len : List.length (sel pos b) = List.length pos).
  { rewrite <- Sn at 2. now rewrite map_length. }
  split.
  - rewrite Eg, <- Len, firstn_app, Nat.sub_diag, firstn_all. simpl. now rewrite app_nil_r.
  - assert (InG : forall a, In a (sel pos b ++ others pos b) -> In a (get_arguments s))
      by (intros a Ha; now rewrite Eg).
    rewrite Eg, T_pos_app, T_pos_all, T_pos_none.
    + rewrite app_nil_r. transitivity (map dashed (map arg_name (sel pos b))); [|now rewrite Sn].
      rewrite map_map. apply map_ext_in. intros a Ha.
      apply (long_flag_of_arg s). apply InG. apply in_or_app. now left.
    + intros a Ha. rewrite (positional_flag s) by (apply InG, in_or_app; now right).
      unfold others in Ha. apply filter_In in Ha. destruct Ha as [_ Ha].
      now apply negb_true_iff in Ha.
    + intros a Ha. rewrite (positional_flag s) by (apply InG, in_or_app; now left).
      apply mem_In. assert (Hin : In (arg_name a) (map arg_name (sel pos b))) by now apply in_map.
      now rewrite Sn in Hin.
Qed.

(** implicit positionals: the parameters without default, in declaration order *)
Definition no_default_names (s : tsig) : list string :=
  flat_map (fun p => match p_default p with DEmpty => [p_name p] | _ => [] end) (s_params s).

Theorem implicit_positional_order s o :
  wf_sig s = true -> d_positional (s_deco s) = None -> sig_cli s = Ok o ->
  map arg_name (firstn (List.length (no_default_names s)) (o_args o)) = no_default_names s /\
  o_positional o = map dashed (no_default_names s).
Proof.
  intros W Hn H.
  assert (E : fill_implicit_positionals s = no_default_names s)
    by (unfold fill_implicit_positionals; now rewrite Hn).
  destruct (wf_sig_parts s W) as (W1 & _ & _).
  rewrite <- E. apply positional_order; auto; rewrite E; unfold no_default_names.
  - clear - W1. induction (s_params s) as [|p l IH]; simpl; [constructor|].
    simpl in W1. inversion W1 as [|? ? N1 N2]; subst.
    destruct (p_default p); simpl; try now apply IH.
    constructor; [|now apply IH]. intros C. apply N1.
    apply in_flat_map in C. destruct C as [q [Hq C]].
    destruct (p_default q); try (now destruct C). destruct C as [<-|[]]. now apply in_map.
  - intros n Hn'. apply in_flat_map in Hn'. destruct Hn' as [q [Hq C]].
    destruct (p_default q); try (now destruct C). destruct C as [<-|[]]. now apply in_map.
Qed.
