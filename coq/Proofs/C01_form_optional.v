(** C01, optional-value flags.  After "--opt" the machine is *pending*: the
    flag is current, has no value yet, and will become True when the next
    flag (or the end of the line) completes it -- or take the next plain token
    as its value.  These lemmas reduce every continuation from the pending
    state to the same continuation from the *resolved* (inert) state. *)
From InvokeVerif Require Import Model.ParserModel Corr.C01Corr Proofs.ListFacts Proofs.C07_fuel
     Proofs.C01_steps Proofs.C01_tokens Proofs.C01_lookup Proofs.C01_occ Proofs.C01_form_pos.
From Coq Require Import Lia.

Lemma find_flag_upd args i r r' tok :
  nth_error args i = Some r -> r_spec r' = r_spec r ->
  find_flag (upd_nth i r' args) tok = find_flag args tok.
Proof.
  intros N Sp. rewrite !find_flag_args. f_equal. eapply map_upd_same; eauto.
Qed.

Lemma find_inverse_upd args i r r' tok :
  nth_error args i = Some r -> r_spec r' = r_spec r ->
  find_inverse (upd_nth i r' args) tok = find_inverse args tok.
Proof.
  intros N Sp. unfold find_inverse. revert i N.
  induction args as [|x args IH]; intros [|i] N; simpl in *; try discriminate.
  - injection N as ->. rewrite Sp. destruct (is_inverse_of tok (r_spec r)); [now rewrite Sp | reflexivity].
  - destruct (is_inverse_of tok (r_spec x)); [reflexivity|]. now apply IH.
Qed.

Lemma complete_flag_set_state m s :
  complete_flag (set_state m s) =
  match complete_flag m with Ok m' => Ok (set_state m' s) | Err e => Err e end.
Proof.
  destruct m as [cs ini cu re fl g st un].
  unfold complete_flag, flag_arg, set_arg_value, get_arg, put_arg, get_ctx, set_ctxs, set_state.
  cbn [m_flag m_ctxs m_init m_cur m_res m_got m_st m_unparsed].
  destruct fl as [f|]; [|reflexivity].
  destruct (nth_error cs (fst f)) as [c|]; [|reflexivity].
  destruct (nth_error (rc_args c) (snd f)) as [r|]; [|reflexivity].
  destruct (takes_value (r_spec r) && negb g && negb (a_optional (r_spec r))); [reflexivity|].
  destruct (negb (r_raw r) && a_optional (r_spec r)); [|reflexivity].
  destruct (set_value r (IBool true) false); reflexivity.
Qed.

Section Optional.
Variable p : parser.
Variable i0 : rctx.
Variable done : list rctx.
Variable cur : rctx.
Variable i : nat.
Variable r : rarg.
Let kk := S (List.length done).
Hypothesis Nr : nth_error (rc_args cur) i = Some r.
Hypothesis Tv : takes_value (r_spec r) = true.
Hypothesis Opt : a_optional (r_spec r) = true.
Hypothesis Raw : r_raw r = false.
Hypothesis Nl : akind_eqb (a_kind (r_spec r)) KList = false.
Hypothesis NoMiss : has_missing cur = false.

Definition rtrue : rarg := mkRArg (r_spec r) true (ABool true).
Definition pending (got : bool) : machine := MS i0 done cur (Some (kk, i)) got.
Definition resolved (got : bool) : machine := MS i0 done (upd_cur cur i rtrue) (Some (kk, i)) got.

Lemma Ninc : a_incrementable (r_spec r) = false.
Proof.
  unfold takes_value in Tv. destruct (a_kind (r_spec r)); try discriminate;
    destruct (a_incrementable (r_spec r)); try discriminate; reflexivity.
Qed.

Lemma set_true : set_value r (IBool true) false = Ok rtrue.
Proof.
  unfold set_value, new_value. rewrite Ninc.
  destruct (a_kind (r_spec r)); try discriminate; reflexivity.
Qed.

Lemma resolved_inert got : inert (resolved got).
Proof.
  unfold resolved. apply inert_after; [congruence | reflexivity |].
  rewrite needs_value_optional; [reflexivity | exact Nl | exact Opt].
Qed.

Lemma pending_flag_arg got : flag_arg (pending got) = Some r.
Proof. unfold flag_arg, pending. cbn [m_flag MS]. fold kk. now rewrite MS_get_arg_cur. Qed.

Lemma pending_waiting got : waiting (pending got) = true.
Proof. unfold waiting. rewrite pending_flag_arg, Tv, Nl, Raw. reflexivity. Qed.

Lemma pending_complete_flag got : complete_flag (pending got) = Ok (resolved got).
Proof.
  unfold complete_flag. rewrite pending_flag_arg. unfold pending at 1. cbn [m_flag MS]. fold kk.
  rewrite Tv, Raw, Opt. cbn [negb andb]. rewrite andb_false_r.
  unfold set_arg_value, pending. fold kk. rewrite MS_get_arg_cur, Nr, set_true, MS_put_arg. reflexivity.
Qed.

Lemma pending_check_ambiguity got tok :
  is_ctx_name (p_ctxs p) tok = false -> check_ambiguity p tok (pending got) = Ok (pending got).
Proof.
  intros Hn. unfold check_ambiguity. rewrite pending_flag_arg, Opt, Raw. cbn [negb].
  unfold pending. rewrite MS_cur, NoMiss, Hn. reflexivity.
Qed.

(** switching to another flag completes the pending one first *)
Lemma switch_pending got tok inv :
  is_ctx_name (p_ctxs p) tok = false ->
  switch_to_flag p tok inv (pending got) = switch_to_flag p tok inv (resolved got).
Proof.
  intros Hn. unfold switch_to_flag, bind.
  rewrite (pending_check_ambiguity got tok Hn), pending_complete_flag.
  rewrite (inert_check_ambiguity p tok _ (resolved_inert got)),
    (inert_complete_flag _ (resolved_inert got)). reflexivity.
Qed.

Lemma cur_has_flag_resolved tok :
  ctx_has_flag (Some (upd_cur cur i rtrue)) tok = ctx_has_flag (Some cur) tok.
Proof.
  unfold ctx_has_flag, upd_cur, with_args. cbn [rc_args].
  now rewrite (find_flag_upd _ i r rtrue tok Nr eq_refl).
Qed.

Lemma cur_has_inverse_resolved tok :
  ctx_has_inverse (Some (upd_cur cur i rtrue)) tok = ctx_has_inverse (Some cur) tok.
Proof.
  unfold ctx_has_inverse, upd_cur, with_args. cbn [rc_args].
  now rewrite (find_inverse_upd _ i r rtrue tok Nr eq_refl).
Qed.

(** a token that is a flag or inverse flag of the task *)
Lemma handle_pending got tok :
  is_ctx_name (p_ctxs p) tok = false ->
  (ctx_has_flag (Some cur) tok || ctx_has_inverse (Some cur) tok) = true ->
  handle p tok (pending got) = handle p tok (resolved got).
Proof.
  intros Hn Hf. unfold handle, pending, resolved. cbn [m_st MS pstate_eqb].
  rewrite !MS_cur, cur_has_flag_resolved, cur_has_inverse_resolved.
  destruct (ctx_has_flag (Some cur) tok).
  - apply (switch_pending got tok false Hn).
  - cbn [orb] in Hf. rewrite Hf. apply (switch_pending got tok true Hn).
Qed.

Lemma presplit_pending got t : presplit (pending got) t = presplit (resolved got) t.
Proof.
  unfold presplit, pending, resolved. cbn [m_unparsed m_st MS]. rewrite !MS_cur.
  unfold upd_cur, with_args. cbn [rc_args].
  rewrite (find_flag_upd _ i r rtrue (take 2 t) Nr eq_refl).
  destruct (find_flag (rc_args cur) (take 2 t)) as [j|]; [|reflexivity].
  destruct (Nat.eq_dec i j) as [<-|Ne].
  - now rewrite (nth_error_upd_nth_same _ _ _ _ Nr), Nr.
  - now rewrite (nth_error_upd_nth_other _ _ _ _ Ne).
Qed.

(** any token whose (split) head is a flag / inverse flag of the task does
    from the pending state what it does from the resolved one *)
Theorem step_pending got t sp :
  presplit (resolved got) t = Ok sp ->
  is_ctx_name (p_ctxs p) (fst sp) = false ->
  (ctx_has_flag (Some cur) (fst sp) = true \/
   (sp = (t, []) /\ ctx_has_inverse (Some cur) t = true)) ->
  step p (pending got) t = step p (resolved got) t.
Proof.
  intros Ps Hn Hf. unfold step, bind. rewrite presplit_pending, Ps.
  rewrite (inert_rollback _ _ _ (resolved_inert got)).
  assert (Rb : rollback (pending got) t sp = Ok sp).
  { (* adapted to ParserModel after repair e36c9e6 (rollback no longer matches on cur_ctx) *)
    unfold rollback. rewrite pending_waiting. cbv zeta.
    replace (cur_ctx (pending got)) with (Some cur) by (symmetry; unfold pending; apply MS_cur).
    rewrite pending_flag_arg, Opt. cbn [andb].
    destruct Hf as [Hf|[-> _]]; [now rewrite Hf|].
    destruct (ctx_has_flag (Some cur) (fst (t, []))); reflexivity. }
  rewrite Rb. rewrite handle_pending; [reflexivity | exact Hn |].
  destruct Hf as [Hf|[-> Hf]]; [now rewrite Hf | cbn [fst]; rewrite Hf; apply orb_true_r].
Qed.

(** the end of the command line *)
Theorem finish_pending got : finish (pending got) = finish (resolved got).
Proof.
  unfold finish, transition. cbn [in_context_or_unknown m_st pending resolved MS].
  unfold enter_state, bind.
  assert (E1 : complete_flag (set_state (pending got) SEnd) = Ok (set_state (resolved got) SEnd))
    by (rewrite complete_flag_set_state, pending_complete_flag; reflexivity).
  assert (E2 : complete_flag (set_state (resolved got) SEnd) = Ok (set_state (resolved got) SEnd)).
  { apply inert_complete_flag. exact (resolved_inert got). }
  now rewrite E1, E2.
Qed.

(** "--opt value": the value token (plain, not a task name) *)
Theorem step_value_optional got tok r' :
  starts_with "-" tok = false -> is_ctx_name (p_ctxs p) tok = false ->
  set_value r (IStr tok) true = Ok r' ->
  step p (pending got) tok = Ok (MS i0 done (upd_cur cur i r') (Some (kk, i)) true, []).
Proof.
  intros P Hn SV.
  pose proof (pending_waiting got) as Wt. pose proof (pending_check_ambiguity got tok Hn) as Ca.
  pose proof (pending_flag_arg got) as Fa. unfold pending in *.
  unfold step, bind. rewrite (plain_presplit _ _ P).
  assert (Rb : rollback (MS i0 done cur (Some (kk, i)) got) tok (tok, []) = Ok (tok, [])).
  { unfold rollback. rewrite Wt, MS_cur. destruct (_ && _); reflexivity. }
  rewrite Rb. cbn [fst snd].
  unfold handle. cbn [m_st MS pstate_eqb]. rewrite MS_cur. cbn [ctx_has_flag ctx_has_inverse].
  rewrite (plain_not_flag _ tok P), (plain_not_inverse _ tok P), Wt.
  unfold see_value, bind. rewrite Ca, Fa. cbn [m_flag MS]. fold kk. rewrite Tv.
  unfold set_arg_value. rewrite MS_get_arg_cur, Nr, SV, MS_put_arg. reflexivity.
Qed.
End Optional.
