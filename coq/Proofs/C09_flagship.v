(** C09 flagship: on the guarded region the model satisfies the whole
    executable specification. *)
From InvokeVerif Require Import Model.SigCtxModel Spec.C09Spec
     Proofs.C09_facts Proofs.C09_sig Proofs.C09_ctx Proofs.C09_wf Proofs.C09_main
     Proofs.C09_order Proofs.C09_bounded.
From Coq Require Import Lia Permutation.

(** the observable CLI in closed form *)
Definition cliT (s : tsig) : cli :=
  let l := get_arguments s in
  mkCli l (T_flags l) (T_fal l) (T_inv l) (T_pos l)
        (map (fun a => (arg_name a, fresh_value a)) l) true
        (map (kind_name_of_arg s) l) (map takes_value l).

Lemma guard_parts s : guard s = true ->
  wf_sig s = true /\ all_have_core s = true /\ no_inverse_clash s = true.
Proof.
  unfold guard. intros H.
  apply andb_true_iff in H; destruct H as [H H3].
  apply andb_true_iff in H; destruct H as [H1 H2]. auto.
Qed.

Lemma sig_cli_guard s : wf_sig s = true -> sig_cli s = Ok (cliT s).
Proof.
  intros W. pose proof (sig_ctx_closed_form s W) as Hc.
  set (l := get_arguments s) in *.
  assert (Ho : sig_cli s = Ok (mkCli l (T_flags l) (T_fal l) (T_inv l) (T_pos l) (as_kwargs (T l))
                                     (bind_ok (s_params s) (as_kwargs (T l)))
                                     (map (kind_name_of_arg s) l) (map takes_value l)))
    by (unfold sig_cli; fold l; rewrite Hc; reflexivity).
  destruct (kwargs_bind s _ W Ho) as (K & _ & B). cbn [o_kwargs o_binds] in K, B. fold l in K.
  rewrite Ho. unfold cliT. fold l. rewrite B, K. reflexivity.
Qed.

(** * finding an argument by main name / python name *)
Lemma find_unique {A} (f : A -> string) (l : list A) a :
  NoDup (map f l) -> In a l -> find (fun x => String.eqb (f x) (f a)) l = Some a.
Proof.
  induction l as [|b l IH]; simpl; intros ND H; [destruct H|].
  inversion ND as [|? ? N1 N2]; subst. destruct H as [->|H].
  - now rewrite String.eqb_refl.
  - destruct (String.eqb (f b) (f a)) eqn:E; [|now apply IH].
    apply String.eqb_eq in E. elim N1. rewrite E. now apply in_map.
Qed.

Lemma find_ext_in' {A} (f g : A -> bool) l :
  (forall x, In x l -> f x = g x) -> find f l = find g l.
Proof.
  induction l as [|a l IH]; simpl; intros H; [reflexivity|].
  rewrite <- (H a) by now left. destruct (f a); [reflexivity|]. apply IH. intros x Hx. apply H. now right.
Qed.

Lemma mains_nodup l : good l -> NoDup (map main_of l).
Proof.
  intros G. pose proof (g_nonempty _ G) as G1. pose proof (g_keys _ G) as G2.
  clear G. induction l as [|a l IH]; simpl; [constructor|].
  inversion G1 as [|? ? Na G1']; subst. simpl in G2. constructor.
  - intros C. apply (in_mains_in_keys _ _ G1') in C.
    apply (NoDup_app_disjoint _ _ (main_of a) G2 C).
    unfold keys_of. apply in_or_app. left. now apply main_in_names.
  - apply IH; auto. now apply NoDup_app_r in G2.
Qed.

Lemma pyname_main o a :
  good (o_args o) -> In a (o_args o) -> pyname_of_main o (main_of a) = Some (arg_name a).
Proof.
  intros G Ha. unfold pyname_of_main.
  assert (E : find (fun x => match a_names x with n :: _ => String.eqb n (main_of a) | [] => false end)
                   (o_args o) = Some a).
  { rewrite <- (find_unique main_of (o_args o) a (mains_nodup _ G) Ha).
    apply find_ext_in'. intros x Hx.
    pose proof (proj1 (Forall_forall _ _) (g_nonempty _ G) x Hx) as Nx.
    unfold main_of. destruct (a_names x) eqn:Ex; [congruence | reflexivity]. }
  now rewrite E.
Qed.

(** * which argument a flag spelling reaches *)
Lemma spellings_nodup l : good l -> NoDup (map fst (T_flags l) ++ map fst (T_fal l)).
Proof.
  intros G. rewrite keys_T_flags, keys_T_fal, <- map_app.
  eapply Permutation_NoDup; [apply Permutation_map, names_perm, (g_nonempty _ G)|].
  apply (g_flags _ G).
Qed.

Section Reach.
  Variable s : tsig.
  Let l := get_arguments s.
  Hypothesis G : good l.

  Lemma reached_main a : In a l -> reached (cliT s) (to_flag (main_of a)) = Some (arg_name a).
  Proof.
    intros Ha. unfold reached. cbn [cliT o_flags o_flag_aliases]. fold l.
    assert (E : aget (to_flag (main_of a)) (T_flags l) = Some (main_of a)).
    { apply aget_nodup_in; [exact (NoDup_app_l _ _ (spellings_nodup l G))|].
      unfold T_flags. apply in_map_iff. now exists a. }
    rewrite E. apply pyname_main; cbn [cliT o_args]; assumption.
  Qed.

  Lemma reached_nick a k : In a l -> In k (nicks_of a) ->
    reached (cliT s) (to_flag k) = Some (arg_name a).
  Proof.
    intros Ha Hk. pose proof (spellings_nodup l G) as ND.
    assert (Hin : In (to_flag k, to_flag (main_of a)) (T_fal l)).
    { unfold T_fal. apply in_flat_map. exists a. split; [assumption|].
      apply in_map_iff. now exists k. }
    assert (E1 : aget (to_flag k) (T_flags l) = None).
    { apply aget_none_notin. apply (NoDup_app_disjoint _ _ _ ND).
      apply in_map_iff. now exists (to_flag k, to_flag (main_of a)). }
    assert (E2 : aget (to_flag k) (T_fal l) = Some (to_flag (main_of a))).
    { apply aget_nodup_in; [exact (NoDup_app_r _ _ ND) | assumption]. }
    pose proof (reached_main a Ha) as R. unfold reached in *.
    cbn [cliT o_flags o_flag_aliases] in *. fold l in R |- *. rewrite E1, E2.
    destruct (aget (to_flag (main_of a)) (T_flags l)) eqn:E3; [exact R|].
    (* main flag is a real key *)
    exfalso. apply aget_none_notin in E3. apply E3. rewrite keys_T_flags.
    apply in_map, in_map. assumption.
  Qed.
End Reach.

(** * list helpers *)
Lemma filter_map_in {A B} (P : B -> bool) (Q : A -> bool) (g : A -> B) l :
  (forall x, In x l -> P (g x) = Q x) -> filter P (map g l) = map g (filter Q l).
Proof.
  induction l as [|a l IH]; simpl; intros H; [reflexivity|].
  rewrite (H a) by now left. rewrite IH by (intros x Hx; apply H; now right).
  destruct (Q a); reflexivity.
Qed.

Lemma filter_flat_map_in {A B} (P : B -> bool) (Q : A -> bool) (h : A -> list B) l :
  (forall x y, In x l -> In y (h x) -> P y = Q x) ->
  filter P (flat_map h l) = flat_map h (filter Q l).
Proof.
  induction l as [|a l IH]; simpl; intros H; [reflexivity|].
  rewrite filter_app, IH by (intros x y Hx Hy; apply (H x y); [now right | assumption]).
  assert (E : filter P (h a) = if Q a then h a else []).
  { destruct (Q a) eqn:Eq.
    - apply filter_all. intros y Hy. rewrite (H a y); auto.
    - assert (F : forall l', (forall y, In y l' -> P y = false) -> filter P l' = []).
      { induction l' as [|y l' IH']; simpl; intros Hl; [reflexivity|].
        rewrite (Hl y) by now left. apply IH'. intros z Hz. apply Hl. now right. }
      apply F. intros y Hy. rewrite (H a y); auto. }
  rewrite E. destruct (Q a); reflexivity.
Qed.

Lemma filter_unique (l : list argspec) a :
  NoDup (map arg_name l) -> In a l ->
  filter (fun x => String.eqb (arg_name a) (arg_name x)) l = [a].
Proof.
  induction l as [|b l IH]; simpl; intros ND H; [destruct H|].
  inversion ND as [|? ? N1 N2]; subst. destruct H as [->|H].
  - rewrite String.eqb_refl. f_equal.
    assert (F : forall l', ~ In (arg_name a) (map arg_name l') ->
                filter (fun x => String.eqb (arg_name a) (arg_name x)) l' = []).
    { induction l' as [|y l' IH']; simpl; intros Hl; [reflexivity|].
      destruct (String.eqb (arg_name a) (arg_name y)) eqn:E.
      - apply String.eqb_eq in E. elim Hl. now left.
      - apply IH'. tauto. }
    now apply F.
  - destruct (String.eqb (arg_name a) (arg_name b)) eqn:E; [|now apply IH].
    apply String.eqb_eq in E. elim N1. rewrite <- E. now apply in_map.
Qed.

(** * characters of dashed names *)
Definition dash_char (c : ascii) : bool := is_alnum c || Ascii.eqb c dash.

Lemma all_chars_rev_aux f s : forall acc,
  all_chars f (string_rev_aux s acc) = all_chars f s && all_chars f acc.
Proof.
  induction s as [|c s IH]; intros acc; simpl; [reflexivity|].
  rewrite IH. simpl. destruct (f c), (all_chars f s), (all_chars f acc); reflexivity.
Qed.

Lemma all_chars_rev f s : all_chars f (string_rev s) = all_chars f s.
Proof. unfold string_rev. rewrite all_chars_rev_aux. simpl. apply andb_true_r. Qed.

Lemma all_chars_lstrip f a s : all_chars f s = true -> all_chars f (lstrip_char a s) = true.
Proof.
  induction s as [|c s IH]; simpl; [reflexivity|].
  intros H. apply andb_true_iff in H. destruct H as [H1 H2].
  destruct (Ascii.eqb c a); [now apply IH|]. simpl. now rewrite H1, H2.
Qed.

Lemma all_chars_rstrip f a s : all_chars f s = true -> all_chars f (rstrip_char a s) = true.
Proof.
  intros H. unfold rstrip_char. rewrite all_chars_rev. apply all_chars_lstrip.
  now rewrite all_chars_rev.
Qed.

Lemma translate_chars n : all_chars ident_char n = true ->
  all_chars dash_char (translate_underscores n) = true.
Proof.
  intros H. unfold translate_underscores.
  assert (H' : all_chars ident_char (rstrip_char us (lstrip_char us n)) = true)
    by now apply all_chars_rstrip, all_chars_lstrip.
  revert H'. generalize (rstrip_char us (lstrip_char us n)) as t. clear.
  induction t as [|c t IH]; simpl; [reflexivity|].
  intros H. apply andb_true_iff in H. destruct H as [H1 H2]. rewrite (IH H2), andb_true_r.
  destruct (Ascii.eqb c us) eqn:E; [reflexivity|].
  unfold dash_char, ident_char in *. change "_"%char with us in H1. rewrite E, orb_false_r in H1.
  now rewrite H1.
Qed.

Lemma all_chars_in f c s : all_chars f s = true -> contains_char c s = true -> f c = true.
Proof.
  induction s as [|d s IH]; simpl; [discriminate|].
  intros H C. apply andb_true_iff in H. destruct H as [H1 H2].
  destruct (Ascii.eqb d c) eqn:E; [apply Ascii.eqb_eq in E; now subst | now apply IH].
Qed.

Lemma to_flag_single c : Ascii.eqb c us = false ->
  to_flag (String c EmptyString) = String "-" (String c EmptyString).
Proof.
  intros H. unfold to_flag. rewrite translate_id; [reflexivity|]. simpl. now rewrite H.
Qed.

Lemma map_flat_map {A B C} (g : B -> C) (h : A -> list B) l :
  map g (flat_map h l) = flat_map (fun x => map g (h x)) l.
Proof. induction l as [|a l IH]; simpl; [reflexivity | now rewrite map_app, IH]. Qed.

Lemma aval_eqb_refl v : aval_eqb v v = true.
Proof.
  destruct v; simpl; try reflexivity.
  - apply String.eqb_refl.
  - apply Z.eqb_refl.
  - destruct b; reflexivity.
  - induction l as [|x l IH]; simpl; [reflexivity | now rewrite String.eqb_refl, IH].
Qed.

Lemma same_set_perm l1 l2 : Permutation l1 l2 -> same_set l1 l2 = true.
Proof.
  intros P. unfold same_set. rewrite (Permutation_length P), Nat.eqb_refl. simpl.
  apply andb_true_iff. split; apply forallb_forall; intros x Hx; apply mem_In.
  - now apply (Permutation_in _ P).
  - now apply (Permutation_in _ (Permutation_sym P)).
Qed.

Lemma combine_map_r {A B} (f : A -> B) l : combine l (map f l) = map (fun a => (a, f a)) l.
Proof. induction l as [|a l IH]; simpl; [reflexivity | now rewrite IH]. Qed.

Lemma find_paired {B} (g : argspec -> B) (l : list argspec) a :
  NoDup (map arg_name l) -> In a l ->
  find (fun x => String.eqb (arg_name (fst x)) (arg_name a)) (map (fun b => (b, g b)) l) = Some (a, g a).
Proof.
  induction l as [|b l IH]; simpl; intros ND H; [destruct H|].
  inversion ND as [|? ? N1 N2]; subst. destruct H as [->|H].
  - now rewrite String.eqb_refl.
  - destruct (String.eqb (arg_name b) (arg_name a)) eqn:E; [|now apply IH].
    apply String.eqb_eq in E. elim N1. rewrite E. now apply in_map.
Qed.

Section Clauses.
  Variable s : tsig.
  Hypothesis W : wf_sig s = true.
  Let l := get_arguments s.

  Lemma G : good l.
  Proof. apply good_of_static; [now apply static_get_arguments | now apply names_distinct]. Qed.

  Lemma names_nd : NoDup (map arg_name l).
  Proof. now apply arg_names_nodup. Qed.

  (** the argument of a parameter *)
  Lemma arg_of_param p : In p (s_params s) ->
    exists a t, In a l /\ arg_name a = p_name p /\
                a = arg_opts (s_deco s) (fill_implicit_positionals s) p t.
  Proof.
    intros Hp.
    assert (Hn : In (p_name p) (map arg_name l)).
    { apply (Permutation_in _ (Permutation_sym (C09_sig.one_arg_per_param s))). now apply in_map. }
    apply in_map_iff in Hn. destruct Hn as [a [En Ha]].
    destruct (get_arguments_in _ _ Ha) as [p' [t [Hp' Ea]]].
    assert (p' = p).
    { destruct (wf_sig_parts s W) as (W1 & _ & _).
      rewrite Ea, arg_name_arg_opts in En.
      clear - W1 Hp Hp' En. induction (s_params s) as [|q l0 IH]; [destruct Hp|].
      simpl in W1. inversion W1 as [|? ? N1 N2]; subst.
      destruct Hp as [->|Hp], Hp' as [->|Hp']; auto.
      - elim N1. rewrite <- En. now apply in_map.
      - elim N1. rewrite En. now apply in_map. }
    subst p'. exists a, t. auto.
  Qed.

  Lemma find_arg_of a : In a l -> arg_of (cliT s) (arg_name a) = Some a.
  Proof.
    intros Ha. unfold arg_of. cbn [cliT o_args]. fold l.
    apply (find_unique arg_name l a names_nd Ha).
  Qed.

  (** clause: one argument per parameter *)
  Lemma clause_one_arg : C09Spec.one_arg_per_param s (cliT s) = true.
  Proof.
    unfold C09Spec.one_arg_per_param. cbn [cliT o_args].
    rewrite (same_set_perm _ _ (C09_sig.one_arg_per_param s)). simpl.
    apply negb_true_iff, has_dup_NoDup, names_nd.
  Qed.

  (** the flag spellings of one argument *)
  Lemma flags_of_arg a : In a l ->
    flags_of (cliT s) (arg_name a) = to_flag (main_of a) :: map to_flag (nicks_of a).
  Proof.
    intros Ha. unfold flags_of, all_spellings. cbn [cliT o_flags o_flag_aliases]. fold l.
    rewrite filter_app, keys_T_fal.
    unfold T_flags. rewrite map_map. cbn [fst].
    rewrite (filter_map_in _ (fun x => String.eqb (arg_name a) (arg_name x))).
    2:{ intros x Hx. now rewrite (reached_main s G x Hx). }
    rewrite (filter_unique l a names_nd Ha). cbn [map app]. f_equal.
    rewrite map_flat_map.
    rewrite (filter_flat_map_in _ (fun x => String.eqb (arg_name a) (arg_name x))).
    2:{ intros x y Hx Hy. apply in_map_iff in Hy. destruct Hy as [k [<- Hk]].
        now rewrite (reached_nick s G x k Hx Hk). }
    rewrite (filter_unique l a names_nd Ha). simpl. apply app_nil_r.
  Qed.

  Lemma flags_nodup_arg a : In a l -> NoDup (map to_flag (a_names a)).
  Proof.
    intros Ha. pose proof (g_flags _ G) as F. destruct (in_split _ _ Ha) as [l1 [l2 E]].
    rewrite E, flat_map_app in F. simpl in F. rewrite !map_app in F.
    now apply NoDup_app_r, NoDup_app_l in F.
  Qed.

  Lemma param_ident p : In p (s_params s) -> ident_ok (p_name p) = true.
  Proof.
    intros Hp. destruct (wf_sig_parts s W) as (_ & W2 & _).
    now apply (proj1 (Forall_forall _ _) W2).
  Qed.

  (** clause: well-formed long flag + at most one short flag, nothing else *)
  Lemma clause_flags_wf : all_have_core s = true -> flags_wellformed s (cliT s) = true.
  Proof.
    intros Hc. unfold flags_wellformed. apply andb_true_iff. split; apply forallb_forall.
    - intros p Hp. destruct (arg_of_param p Hp) as (a & t & Ha & En & Ea).
      rewrite <- En, (flags_of_arg a Ha).
      destruct (long_flag_of_arg s a Ha) as [Hm Hl]. rewrite <- Hl.
      assert (Hcore : has_core (arg_name a) = true)
        by (rewrite En; apply (proj1 (forallb_forall _ _) Hc p Hp)).
      rewrite Hcore. cbn [mem existsb andb filter]. rewrite String.eqb_refl. cbn [orb negb].
      destruct (at_most_one_short s a Ha) as [E|[c (E & Hd & Hne & Hin)]].
      + unfold nicks_of. rewrite E. reflexivity.
      + unfold nicks_of. rewrite E. cbn [tl map filter].
        pose proof (flags_nodup_arg a Ha) as ND. rewrite E in ND. cbn [map] in ND.
        assert (Hneq : String.eqb (to_flag (String c "")) (to_flag (main_of a)) = false).
        { apply String.eqb_neq. intros C. inversion ND as [|? ? N1 _]; subst. apply N1. left. now symmetry. }
        rewrite Hneq. cbn [negb].
        assert (Hus : Ascii.eqb c us = false).
        { apply (contains_neq _ _ _ Hin). rewrite Hm. apply translate_no_us. }
        rewrite (to_flag_single c Hus). cbn [is_short_flag].
        assert (Hdc : dash_char c = true).
        { apply (all_chars_in dash_char c (main_of a)); [|assumption].
          rewrite Hm, En. apply translate_chars.
          pose proof (param_ident p Hp) as Hid. unfold ident_ok in Hid.
          now apply andb_true_iff in Hid. }
        unfold dash_char in Hdc. rewrite Hd, orb_false_r in Hdc. exact Hdc.
    - intros f Hf. unfold all_spellings in Hf. cbn [cliT o_flags o_flag_aliases] in Hf.
      fold l in Hf. apply in_app_iff in Hf.
      assert (Hname : forall a, In a l -> mem (arg_name a) (map p_name (s_params s)) = true).
      { intros a Ha. apply mem_In. apply (Permutation_in _ (C09_sig.one_arg_per_param s)). now apply in_map. }
      destruct Hf as [Hf|Hf].
      + rewrite keys_T_flags in Hf. apply in_map_iff in Hf. destruct Hf as [m [<- Hm]].
        apply in_map_iff in Hm. destruct Hm as [a [<- Ha]].
        rewrite (reached_main s G a Ha). now apply Hname.
      + rewrite keys_T_fal in Hf. apply in_map_iff in Hf. destruct Hf as [k [<- Hk]].
        apply in_flat_map in Hk. destruct Hk as [a [Ha Hk]].
        rewrite (reached_nick s G a k Ha Hk). now apply Hname.
  Qed.

  Lemma arg_in_params a : In a l ->
    exists p t, In p (s_params s) /\ a = arg_opts (s_deco s) (fill_implicit_positionals s) p t.
  Proof. intros Ha. now apply get_arguments_in. Qed.

  (** clause: all flag names distinct, inverse forms included *)
  Lemma clause_flags_distinct : no_inverse_clash s = true -> flags_distinct (cliT s) = true.
  Proof.
    intros Hic. unfold flags_distinct. apply negb_true_iff, has_dup_NoDup.
    unfold all_spellings. cbn [cliT o_flags o_flag_aliases o_inverse]. fold l.
    apply NoDup_app_intro'; [apply (spellings_nodup l G) | apply (g_inv _ G) |].
    intros x Hx Hi.
    (* x is the flag of some name k of some argument ... *)
    assert (Hk : exists k, In k (flat_map a_names l) /\ x = to_flag k).
    { rewrite keys_T_flags, keys_T_fal, <- map_app in Hx. apply in_map_iff in Hx.
      destruct Hx as [k [<- Hk]]. exists k. split; [|reflexivity].
      apply (Permutation_in _ (Permutation_sym (names_perm l (g_nonempty _ G)))). exact Hk. }
    destruct Hk as [k [Hk ->]].
    (* ... and the inverse form of a default-true boolean a *)
    apply in_map_iff in Hi. destruct Hi as [[k' v] [Ek Hi]]. simpl in Ek. subst k'.
    unfold T_inv in Hi. apply in_flat_map in Hi. destruct Hi as [a [Ha Hi]].
    unfold inv_entry in Hi. destruct (is_true_bool a) eqn:Eb; [|destruct Hi].
    destruct Hi as [Hi|[]]. injection Hi as Hi _.
    pose proof (static_get_arguments s W) as St.
    destruct (clean_names_in _ _ (st_clean _ St) Hk) as [Ck1 Ck2].
    assert (Hma : In (main_of a) (flat_map a_names l)).
    { apply in_flat_map. exists a. split; [assumption|]. apply main_in_names.
      now apply (proj1 (Forall_forall _ _) (g_nonempty _ G)). }
    destruct (clean_names_in _ _ (st_clean _ St) Hma) as [Cm1 _].
    destruct (no_prefix_clean _ Cm1) as [Cn1 Cn2].
    assert (E : k = ("no-" ++ main_of a)%string) by (symmetry; now apply to_flag_inj).
    (* k belongs to some argument a' : its main name or its short flag *)
    apply in_flat_map in Hk. destruct Hk as [a' [Ha' Hk]].
    destruct (at_most_one_short s a' Ha') as [En|[c (En & _)]]; rewrite En in Hk.
    - destruct Hk as [Hk|[]].
      destruct (arg_in_params a Ha) as (p & t & Hp & Ea).
      destruct (arg_in_params a' Ha') as (p' & t' & Hp' & Ea').
      pose proof (proj1 (forallb_forall _ _) Hic p Hp) as Hcl. simpl in Hcl.
      rewrite <- (inverse_iff_default_true s (fill_implicit_positionals s) p t), <- Ea, Eb in Hcl.
      simpl in Hcl. apply negb_true_iff, mem_false_notin in Hcl. apply Hcl.
      assert (Em : main_of a = dashed (p_name p)) by (rewrite Ea; apply main_of_arg_opts).
      assert (Em' : main_of a' = dashed (p_name p')) by (rewrite Ea'; apply main_of_arg_opts).
      change (In ("no-" ++ dashed (p_name p))%string (map (fun q => dashed (p_name q)) (s_params s))).
        rewrite <- Em, <- E, <- Hk, Em'. apply in_map_iff. now exists p'.
    - destruct Hk as [Hk|[Hk|[]]].
      + (* main name again *)
        destruct (arg_in_params a Ha) as (p & t & Hp & Ea).
        destruct (arg_in_params a' Ha') as (p' & t' & Hp' & Ea').
        pose proof (proj1 (forallb_forall _ _) Hic p Hp) as Hcl. simpl in Hcl.
        rewrite <- (inverse_iff_default_true s (fill_implicit_positionals s) p t), <- Ea, Eb in Hcl.
        simpl in Hcl. apply negb_true_iff, mem_false_notin in Hcl. apply Hcl.
        assert (Em : main_of a = dashed (p_name p)) by (rewrite Ea; apply main_of_arg_opts).
        assert (Em' : main_of a' = dashed (p_name p')) by (rewrite Ea'; apply main_of_arg_opts).
        change (In ("no-" ++ dashed (p_name p))%string (map (fun q => dashed (p_name q)) (s_params s))).
        rewrite <- Em, <- E, <- Hk, Em'. apply in_map_iff. now exists p'.
      + (* a one-character short flag is not "no-..." *)
        rewrite E in Hk. discriminate.
  Qed.

  Lemma str_list_eqb_refl (x : list string) : list_eqb String.eqb x x = true.
  Proof. apply (list_eqb_eq String.eqb String.eqb_eq). reflexivity. Qed.

  Lemma pos_facts : positional_sane s = true ->
    NoDup (fill_implicit_positionals s) /\
    incl (fill_implicit_positionals s) (map p_name (s_params s)).
  Proof.
    unfold positional_sane, fill_implicit_positionals.
    destruct (wf_sig_parts s W) as (W1 & _ & _).
    destruct (d_positional (s_deco s)) as [lst|].
    - intros H. apply andb_true_iff in H. destruct H as [H1 H2]. split.
      + now apply has_dup_NoDup, negb_true_iff.
      + intros n Hn. apply mem_In. now apply (proj1 (forallb_forall _ _) H2).
    - intros _. split.
      + clear - W1. induction (s_params s) as [|p l0 IH]; simpl; [constructor|].
        simpl in W1. inversion W1 as [|? ? N1 N2]; subst.
        destruct (p_default p); simpl; try now apply IH.
        constructor; [|now apply IH]. intros C. apply N1.
        apply in_flat_map in C. destruct C as [q [Hq C]].
        destruct (p_default q); try (now destruct C). destruct C as [<-|[]]. now apply in_map.
      + intros n Hn'. apply in_flat_map in Hn'. destruct Hn' as [q [Hq C]].
        destruct (p_default q); try (now destruct C). destruct C as [<-|[]]. now apply in_map.
  Qed.

  (** clause: positionals *)
  Lemma clause_positional : positional_sane s = true -> positional_ok s (cliT s) = true.
  Proof.
    intros Hs. destruct (pos_facts Hs) as [NP Inc].
    destruct (positional_order s (cliT s) W (sig_cli_guard s W) NP Inc) as [Hfirst Hpos].
    set (pos := fill_implicit_positionals s) in *.
    (* what the positional list reads back as *)
    assert (Hgot : flat_map (fun m => match pyname_of_main (cliT s) m with Some n => [n] | None => [""] end)
                            (o_positional (cliT s)) = pos).
    { rewrite Hpos. clear Hfirst Hpos NP. induction pos as [|n pos IH]; [reflexivity|].
      cbn [map flat_map]. rewrite IH by (intros x Hx; apply Inc; now right). clear IH.
      assert (Hn : In n (map p_name (s_params s))) by (apply Inc; now left).
      apply in_map_iff in Hn. destruct Hn as [p [<- Hp]].
      destruct (arg_of_param p Hp) as (a & t & Ha & En & Ea).
      assert (Em : dashed (p_name p) = main_of a) by (rewrite Ea; symmetry; apply main_of_arg_opts).
      rewrite Em, (pyname_main (cliT s) a G Ha), En. reflexivity. }
    unfold positional_ok. rewrite Hgot. cbn [cliT o_args]. fold l.
    apply andb_true_iff. split.
    - unfold positional_sane in Hs. unfold pos, fill_implicit_positionals in *.
      destruct (d_positional (s_deco s)) as [lst|].
      + rewrite Hs. apply str_list_eqb_refl.
      + apply str_list_eqb_refl.
    - cbn [cliT o_args] in Hfirst. fold l in Hfirst. rewrite firstn_map, Hfirst.
      apply str_list_eqb_refl.
  Qed.

  Lemma akind_eqb_refl k : akind_eqb k k = true.
  Proof. destruct k; try reflexivity. apply String.eqb_refl. Qed.

  Lemma inverse_key m : contains_char us m = false ->
    to_flag ("no-" ++ m)%string = ("--no-" ++ m)%string.
  Proof.
    intros H. rewrite to_flag_clean by (simpl; exact H). reflexivity.
  Qed.

  (** clause: kinds and inverse forms *)
  Lemma clause_kinds : kinds_ok s (cliT s) = true.
  Proof.
    unfold kinds_ok. apply andb_true_iff. split; apply forallb_forall.
    - intros p Hp. destruct (arg_of_param p Hp) as (a & t & Ha & En & Ea).
      rewrite <- En, (find_arg_of a Ha), En.
      assert (K : match expected_kind s p with Some k => akind_eqb (a_kind a) k | None => true end = true).
      { destruct (expected_kind s p) as [k|] eqn:Ek; [|reflexivity].
        rewrite Ea, (kind_arg_opts _ _ _ _ _ Ek). apply akind_eqb_refl. }
      assert (Tk : takes_of (cliT s) (p_name p) = Some (takes_value a)).
      { unfold takes_of. cbn [cliT o_args o_takes]. fold l. rewrite combine_map_r, <- En.
        now rewrite (find_paired takes_value l a names_nd Ha). }
      assert (Kn : kind_name_of (cliT s) (p_name p) = Some (kind_name (s_deco s) p)).
      { unfold kind_name_of. cbn [cliT o_args o_kind_names]. fold l. rewrite combine_map_r, <- En.
        rewrite (find_paired (kind_name_of_arg s) l a names_nd Ha). cbn [snd]. f_equal.
        unfold kind_name_of_arg. rewrite En.
        destruct (wf_sig_parts s W) as (W1 & _ & _).
        now rewrite (find_unique p_name (s_params s) p W1 Hp). }
      assert (N : match expected_kind_name s p, kind_name_of (cliT s) (p_name p) with
                  | Some k, Some k' => String.eqb k k' | None, Some _ => true | _, None => false end = true).
      { rewrite Kn. destruct (expected_kind_name s p) as [k|] eqn:Ek; [|reflexivity].
        rewrite (kind_name_expected s p k Ek). apply String.eqb_refl. }
      assert (V : match expected_kind s p, takes_of (cliT s) (p_name p) with
                  | Some KBool, Some tv => negb tv | _, Some _ => true | _, None => false end = true).
      { rewrite Tk. destruct (expected_kind s p) as [[| | | |? ? ?]|] eqn:Ek; try reflexivity.
        rewrite Ea, (bool_takes_no_value _ _ _ _ Ek). reflexivity. }
      rewrite K, N, V. cbn [andb].
      destruct (wants_inverse s p) eqn:Ew; [|reflexivity].
      assert (Eb : is_true_bool a = true) by (rewrite Ea, inverse_iff_default_true; exact Ew).
      assert (Em : main_of a = dashed (p_name p)) by (rewrite Ea; apply main_of_arg_opts).
      assert (Cm : contains_char us (main_of a) = false) by (rewrite Em; apply translate_no_us).
      assert (Ei : aget (inverse_flag (p_name p)) (o_inverse (cliT s)) = Some (to_flag (main_of a))).
      { cbn [cliT o_inverse]. fold l. apply aget_nodup_in; [apply (g_inv _ G)|].
        unfold T_inv. apply in_flat_map. exists a. split; [assumption|].
        unfold inv_entry. rewrite Eb. left. rewrite (inverse_key _ Cm), Em. reflexivity. }
      rewrite Ei, (reached_main s G a Ha), En. apply String.eqb_refl.
    - intros [k v] Hkv. cbn [cliT o_inverse] in Hkv. fold l in Hkv.
      unfold T_inv in Hkv. apply in_flat_map in Hkv. destruct Hkv as [a [Ha Hkv]].
      unfold inv_entry in Hkv. destruct (is_true_bool a) eqn:Eb; [|destruct Hkv].
      destruct Hkv as [Hkv|[]]. injection Hkv as <- _.
      destruct (arg_in_params a Ha) as (p & t & Hp & Ea).
      apply existsb_exists. exists p. split; [assumption|].
      assert (Ew : wants_inverse s p = true) by (rewrite <- (inverse_iff_default_true s (fill_implicit_positionals s) p t), <- Ea; exact Eb).
      assert (Em : main_of a = dashed (p_name p)) by (rewrite Ea; apply main_of_arg_opts).
      assert (Cm : contains_char us (main_of a) = false) by (rewrite Em; apply translate_no_us).
      rewrite Ew. cbn [andb fst].
      change (String "n" (String "o" (String "-" (main_of a)))) with ("no-" ++ main_of a)%string.
      rewrite (inverse_key _ Cm), Em. apply String.eqb_refl.
  Qed.

  (** clause: kwargs *)
  Lemma clause_kwargs : kwargs_ok s (cliT s) = true.
  Proof.
    unfold kwargs_ok. cbn [cliT o_kwargs o_binds]. fold l. rewrite andb_true_r.
    assert (K : map fst (map (fun a => (arg_name a, fresh_value a)) l) = map arg_name l)
      by (rewrite map_map; reflexivity).
    pose proof (same_set_perm _ _ (C09_sig.one_arg_per_param s)) as SS. fold l in SS.
    rewrite K, SS. cbn [andb].
    apply andb_true_iff. split; [apply negb_true_iff, has_dup_NoDup, names_nd|].
    apply forallb_forall. intros p Hp. destruct (arg_of_param p Hp) as (a & t & Ha & En & Ea).
    assert (E : aget (p_name p) (map (fun a => (arg_name a, fresh_value a)) l) = Some (fresh_value a)).
    { apply aget_nodup_in; [rewrite K; apply names_nd|]. apply in_map_iff. exists a. now rewrite En. }
    rewrite E. pose proof (fresh_value_arg_opts s (fill_implicit_positionals s) p t) as F.
    rewrite <- Ea in F.
    destruct (p_default p); try reflexivity;
      (destruct F as [->|[Hl ->]]; [now rewrite aval_eqb_refl | rewrite Hl; cbn; rewrite ?orb_true_r; reflexivity]).
  Qed.
End Clauses.

(** * the flagship *)
Theorem spec_partial s : full_guard s = true -> spec_ok s (sig_cli s) = true.
Proof.
  unfold full_guard. intros H. apply andb_true_iff in H. destruct H as [Hg Hs].
  destruct (guard_parts s Hg) as (W & Hc & Hic).
  rewrite (sig_cli_guard s W). unfold spec_ok.
  assert (Hd : dashed_clash s = false).
  { unfold wf_sig in W. apply andb_true_iff in W. destruct W as [_ W]. now apply negb_true_iff in W. }
  rewrite Hd, (clause_one_arg s W), (clause_flags_wf s W Hc), (clause_flags_distinct s W Hic),
    (clause_positional s W Hs), (clause_kinds s W), (clause_kwargs s W).
  reflexivity.
Qed.
