(** C06: for histories of root-navigated operations with type-consistent leaf
    writes, deletions and reloads, the model's view is the journal of its
    successful edits replayed over the merge of the current lower levels, and no
    operation fails with an internal error. *)
From InvokeVerif Require Import Common.Tree Common.StrUtil Model.MergeModel Model.ConfigModel
     Spec.C03Spec Spec.C06Spec Proofs.ListFacts Proofs.TreeFacts Proofs.C03_merge Proofs.C03_levels
     Proofs.C03_order Proofs.C06_shapes Proofs.C06_track Model.EnvModel Proofs.C06_envfacts.

(** * merge() split into "lower levels" and "modifications, then deletions" *)
Definition lower (c : cfg) : list tree :=
  [ c_defaults c; c_collection c; file_part (c_sys_found c) (c_system c);
    file_part (c_user_found c) (c_user c); file_part (c_proj_found c) (c_project c);
    c_env c; file_part (c_rt_found c) (c_runtime c); c_overrides c ].

Lemma levels_of_split c : levels_of c = lower c ++ [Node (c_mods c)].
Proof. reflexivity. Qed.

Lemma merge_all_app l1 l2 acc :
  merge_all (l1 ++ l2) acc = match merge_all l1 acc with Ok a => merge_all l2 a | Err e => Err e end.
Proof.
  revert acc. induction l1 as [|l l1 IH]; intros acc; [reflexivity|].
  simpl. destruct (merge_dicts acc l); [apply IH | reflexivity].
Qed.

Lemma merge_unfold c :
  merge c = match merge_all (lower c) [] with
            | Ok X => match merge_dicts X (Node (c_mods c)) with
                      | Ok m => Ok (obliterate m (Node (c_dels c)))
                      | Err e => Err e
                      end
            | Err e => Err e
            end.
Proof.
  unfold merge, merge_levels. rewrite levels_of_split, merge_all_app.
  destruct (merge_all (lower c) []) as [X|e]; [|reflexivity].
  cbn [merge_all]. destruct (merge_dicts X (Node (c_mods c))); reflexivity.
Qed.

Definition level_ok (S l : tree) : Prop := wf l = true /\ is_node l = true /\ conforms S l.

Lemma lower_merge S ls : is_node S = true -> Forall (level_ok S) ls ->
  exists X, merge_all ls [] = Ok X /\ wf (Node X) = true /\ conforms S (Node X).
Proof.
  intros HS HF. rewrite Forall_forall in HF.
  destruct (merge_all_shape ls [] eq_refl) as [X [EX [WX SX]]].
  - intros l Hin. destruct (HF l Hin) as [W [N C]]. split; [assumption|]. split; [assumption|].
    destruct l; [discriminate|]. apply agree_empty_node.
  - intros a b Ha Hb. eapply conforms_agree; [apply (HF a Ha) | apply (HF b Hb)].
  - exists X. split; [assumption|]. split; [assumption|].
    intros q s Hq. rewrite SX in Hq. destruct (oracle q ls) as [s0|] eqn:Eo.
    + simpl in Hq. inversion Hq; subst s0.
      apply oracle_some_iff in Eo as [l1 [L [l2 [E [HL _]]]]].
      assert (Hin : In L ls) by (rewrite E; apply in_or_app; right; left; reflexivity).
      apply (HF L Hin). exact HL.
    + simpl in Hq. apply (conforms_empty S HS q s Hq).
Qed.

(** * The state invariant *)
Record good (S : tree) (c : cfg) (J : list event) : Prop := mkGood {
  g_lower : Forall (level_ok S) (lower c);
  g_inv : inv S (c_mods c) (c_dels c) J;
  g_cache : merge c = Ok (c_cache c)
}.

Lemma good_merge_ok S c J : is_node S = true ->
  Forall (level_ok S) (lower c) -> inv S (c_mods c) (c_dels c) J ->
  exists X d, merge_all (lower c) [] = Ok X /\ wf (Node X) = true /\ conforms S (Node X) /\
    merge c = Ok d /\ wf (Node d) = true /\
    forall q, shape_at q (Node d) =
              if masked (c_dels c) q then None
              else orelse (shape_at q (Node (c_mods c))) (shape_at q (Node X)).
Proof.
  intros HS HL [WM CM WD WJ Rep].
  destruct (lower_merge S (lower c) HS HL) as [X [EX [WX CX]]].
  destruct (view_shape S X (c_mods c) (c_dels c) WX WM WD CX CM) as [m [Em [Wm [Wo So]]]].
  exists X, (obliterate m (Node (c_dels c))). split; [assumption|]. split; [assumption|].
  split; [assumption|]. split; [rewrite merge_unfold, EX, Em; reflexivity|].
  split; assumption.
Qed.

(** What a good state shows: the journal replayed over the merged lower levels. *)
Theorem good_view S c J : is_node S = true -> good S c J ->
  exists X, merge_all (lower c) [] = Ok X /\ wf (Node X) = true /\
    sim (Node (c_cache c)) (Node (replay (Node X) J)) /\
    forall q, shape_at q (Node (c_cache c)) =
              if masked (c_dels c) q then None
              else orelse (shape_at q (Node (c_mods c))) (shape_at q (Node X)).
Proof.
  intros HS [HL HI HC].
  destruct (good_merge_ok S c J HS HL HI) as [X [d [EX [WX [CX [Em [Wd Sd]]]]]]].
  rewrite HC in Em. inversion Em; subst d.
  exists X. split; [assumption|]. split; [assumption|]. split; [|assumption].
  intros q. rewrite Sd. symmetry. apply (inv_rep _ _ _ _ HI X WX CX).
Qed.

(** The view conforms to the schema (it only shows what the levels and the
    modifications show). *)
Lemma good_cache_conforms S c J : is_node S = true -> good S c J ->
  wf (Node (c_cache c)) = true /\ conforms S (Node (c_cache c)).
Proof.
  intros HS [HL HI HC].
  destruct (good_merge_ok S c J HS HL HI) as [X [d [EX [WX [CX [Em [Wd Sd]]]]]]].
  rewrite HC in Em. inversion Em; subst d. split; [exact Wd|].
  intros q s Hq. rewrite Sd in Hq. destruct (masked (c_dels c) q); [discriminate|].
  destruct (shape_at q (Node (c_mods c))) as [s1|] eqn:E1; simpl in Hq.
  - inversion Hq; subst s1. exact (inv_confM _ _ _ _ HI q s E1).
  - exact (CX q s Hq).
Qed.

(** * Navigation success tells that nothing above is masked *)
Lemma nav_shapes fl : forall kp d d', nav fl d kp = Ok d' ->
  forall q r, kp = q ++ r -> shape_at q (Node d) = Some SNode.
Proof.
  induction kp as [|k kp IH]; intros d d' H q r E.
  - destruct q; [reflexivity | discriminate].
  - destruct q as [|k' q]; [reflexivity|]. simpl in E. inversion E; subst k'.
    simpl in H. rewrite shape_at_cons_Node.
    destruct (get k d) as [[x|kids]|]; try discriminate.
    eapply IH; eassumption.
Qed.

Lemma app_snoc_prefix {A} (q r kp : list A) (k : A) :
  kp ++ [k] = q ++ r -> r <> [] -> exists r', kp = q ++ r'.
Proof.
  revert kp. induction q as [|a q IH]; intros kp E Hr; [exists kp; reflexivity|].
  destruct kp as [|b kp].
  - simpl in E. inversion E. destruct q; [destruct r; [congruence|discriminate] | discriminate].
  - simpl in E. inversion E; subst. destruct (IH kp H1 Hr) as [r' ->]. exists r'. reflexivity.
Qed.

Lemma nav_clear_above S c J fl kp k d' : is_node S = true -> good S c J ->
  nav fl (c_cache c) kp = Ok d' -> clear_above (c_dels c) (kp ++ [k]).
Proof.
  intros HS HG Hn q r E Hr.
  destruct (app_snoc_prefix q r kp k E Hr) as [r' E'].
  destruct (good_view S c J HS HG) as [X [_ [_ [_ Sd]]]].
  pose proof (nav_shapes fl kp _ _ Hn q r' E') as Hq. rewrite Sd in Hq.
  destruct (masked (c_dels c) q); [discriminate | reflexivity].
Qed.

Lemma excise_not_blocked : forall p D, clear_above D p -> excise_blocked D p = false.
Proof.
  induction p as [|k p IH]; intros D Hc; [reflexivity|].
  destruct p as [|k2 p']; [reflexivity|].
  cbn [excise_blocked].
  pose proof (clear_above_head D k (k2 :: p') ltac:(congruence) Hc) as Hh.
  destruct (get k D) as [[x|kids]|] eqn:G; [contradiction| |reflexivity].
  apply IH. eapply clear_above_tail; eassumption.
Qed.

Lemma del_not_blocked D kp k : clear_above D (kp ++ [k]) -> del_blocked D kp k = false.
Proof. intros H. unfold del_blocked. rewrite del_mark_set_path by assumption. reflexivity. Qed.

(** * Operations covered *)
Definition same_kindb (a b : shape) : bool :=
  match a, b with SLeaf _, SLeaf _ | SNode, SNode => true | _, _ => false end.

Definition conformsb (S t : tree) : bool :=
  forallb (fun q => match shape_at q t with
                    | Some a => match shape_at q S with Some b => same_kindb a b | None => false end
                    | None => true
                    end) (all_paths t).

Lemma conformsb_conforms S t : conformsb S t = true -> conforms S t.
Proof.
  unfold conformsb. rewrite forallb_forall. intros H q s Hq.
  assert (Hin : In q (all_paths t)).
  { unfold shape_at in Hq. destruct (lookup q t) eqn:L; [|discriminate].
    eapply all_paths_complete; eassumption. }
  specialize (H q Hin). rewrite Hq in H. destruct (shape_at q S) as [s'|]; [|discriminate].
  exists s'. split; [reflexivity|]. destruct s, s'; simpl in *; try discriminate; exact I.
Qed.

Definition leaf_in (S : tree) (p : path) : bool :=
  match shape_at p S with Some (SLeaf _) => true | _ => false end.

Definition level_okb (S t : tree) : bool := wf t && is_node t && conformsb S t.

(** The guard of the partial theorem. *)
Definition op_ok (S : tree) (o : op) : bool :=
  match o with
  | Get _ _ _ | Contains _ _ _ | Len _ _ | Keys _ _ => true
  | Del _ _ _ | Pop _ _ _ _ | PopItem _ _ => true
  | SetV _ kp k (Leaf _) => leaf_in S (kp ++ [k])
  | SetDefault _ kp k (Some (Leaf _)) => leaf_in S (kp ++ [k])
  | SetDefault _ kp k None => leaf_in S (kp ++ [k])
  | Clear _ _ => true
  | Update _ kp kvs =>
      forallb (fun kv => match snd kv with Leaf _ => leaf_in S (kp ++ [fst kv]) | Node _ => false end) kvs
  | UpdateBoth _ kp kvs kw =>
      forallb (fun kv => match snd kv with Leaf _ => leaf_in S (kp ++ [fst kv]) | Node _ => false end)
              (kvs ++ kw)
  | LoadDefaults t | LoadOverrides t | LoadCollection t => level_okb S t
  | LoadShellEnv _ => true
  | View _ _ | EqD _ _ _ | GetM _ _ _ _ => true
  | _ => false
  end.

(** The journal entries of a successful edit, decided on the current view. *)
Definition events_of (c : cfg) (o : op) : list event :=
  match o with
  | SetV fl kp k v =>
      match nav fl (c_cache c) kp with Ok _ => [JSet (kp ++ [k]) v] | Err _ => [] end
  | Del fl kp k | Pop fl kp k _ =>
      match nav fl (c_cache c) kp with
      | Ok d => if has k d then [JDel (kp ++ [k])] else []
      | Err _ => []
      end
  | PopItem fl kp =>
      match nav fl (c_cache c) kp with
      | Ok d => match last_item d with Some (k, _) => [JDel (kp ++ [k])] | None => [] end
      | Err _ => []
      end
  | SetDefault fl kp k dflt =>
      match nav fl (c_cache c) kp with
      | Ok d => if has k d then []
                else [JSet (kp ++ [k]) (match dflt with Some v => v | None => Leaf VNone end)]
      | Err _ => []
      end
  | Clear fl kp =>
      match nav fl (c_cache c) kp with
      | Ok d => map (fun k => JDel (kp ++ [k])) (keys d)
      | Err _ => []
      end
  | Update fl kp kvs =>
      match nav fl (c_cache c) kp with
      | Ok _ => map (fun kv => JSet (kp ++ [fst kv]) (snd kv)) kvs
      | Err _ => []
      end
  | UpdateBoth fl kp kvs kw =>
      match nav fl (c_cache c) kp with
      | Ok _ => map (fun kv => JSet (kp ++ [fst kv]) (snd kv)) (kvs ++ kw)
      | Err _ => []
      end
  | _ => []
  end.

(** No internal error: a missing key (or walking through a leaf), or one of the
    three documented refusals of load_shell_env. *)
Definition benign (o : outcome) : Prop :=
  forall e, o = OErr e ->
    e = EKey \/ e = EAttr \/ e = EType \/ e = EAmbigEnv \/ e = EValue \/ e = EUncastable.

Lemma miss_benign fl : benign (OErr (miss fl)).
Proof. intros e H. inversion H. destruct fl; auto. Qed.

Lemma nav_err_benign fl d kp e : nav fl d kp = Err e -> benign (OErr e).
Proof.
  revert d. induction kp as [|k kp IH]; intros d H; [discriminate|].
  simpl in H. destruct (get k d) as [[x|kids]|].
  - inversion H; subst. intros e' E. inversion E. destruct fl; auto.
  - eapply IH; eassumption.
  - inversion H; subst. apply miss_benign.
Qed.

(** ** Re-merging a state whose parts are good *)
Lemma remerge_good S c J ok : is_node S = true ->
  Forall (level_ok S) (lower c) -> inv S (c_mods c) (c_dels c) J ->
  exists d, remerge c ok = (set_cache c d, ok) /\ good S (set_cache c d) J.
Proof.
  intros HS HL HI.
  destruct (good_merge_ok S c J HS HL HI) as [X [d [_ [_ [_ [Em _]]]]]].
  exists d. unfold remerge. rewrite Em. split; [reflexivity|].
  constructor.
  - destruct c; exact HL.
  - destruct c; exact HI.
  - rewrite merge_set_cache. destruct c; exact Em.
Qed.

Lemma lower_set_tracking c m d : lower (set_tracking c m d) = lower c.
Proof. destruct c; reflexivity. Qed.

(** ** The write of a leaf *)
Lemma step_write S c J fl kp k x ok : is_node S = true -> good S c J ->
  leaf_in S (kp ++ [k]) = true -> forall d0, nav fl (c_cache c) kp = Ok d0 ->
  exists d, remerge (track_set c kp k (Leaf x)) ok = (set_cache (track_set c kp k (Leaf x)) d, ok) /\
            good S (set_cache (track_set c kp k (Leaf x)) d) (J ++ [JSet (kp ++ [k]) (Leaf x)]).
Proof.
  intros HS HG HLf d0 Hn.
  pose proof (nav_clear_above S c J fl kp k d0 HS HG Hn) as Hc.
  unfold leaf_in in HLf. destruct (shape_at (kp ++ [k]) S) as [[y|]|] eqn:ES; try discriminate.
  destruct HG as [HL HI HC].
  apply remerge_good; [assumption| |].
  - unfold track_set. rewrite lower_set_tracking. exact HL.
  - unfold track_set. destruct c; simpl in *. eapply inv_write; eassumption.
Qed.

(** ** A deletion *)
Lemma step_delete S c J fl kp k ok : is_node S = true -> good S c J ->
  forall d0, nav fl (c_cache c) kp = Ok d0 ->
  exists d, remerge (track_del c kp k) ok = (set_cache (track_del c kp k) d, ok) /\
            good S (set_cache (track_del c kp k) d) (J ++ [JDel (kp ++ [k])]).
Proof.
  intros HS HG d0 Hn.
  pose proof (nav_clear_above S c J fl kp k d0 HS HG Hn) as Hc.
  destruct HG as [HL HI HC].
  assert (Hp : kp ++ [k] <> []) by (destruct kp; discriminate).
  apply remerge_good; [assumption| |].
  - unfold track_del. rewrite del_mark_set_path by assumption. rewrite lower_set_tracking. exact HL.
  - unfold track_del. rewrite del_mark_set_path by assumption.
    destruct c; simpl in *. apply inv_delete; assumption.
Qed.

(** ** A reload of a dict level *)
Lemma level_okb_ok S t : level_okb S t = true -> level_ok S t.
Proof.
  unfold level_okb. intros H. apply andb_true_iff in H as [H H3]. apply andb_true_iff in H as [H1 H2].
  split; [assumption|]. split; [assumption|]. apply conformsb_conforms; assumption.
Qed.

Ltac lower_inv HL :=
  inversion HL as [|? ? L1 HL1]; subst; inversion HL1 as [|? ? L2 HL2]; subst;
  inversion HL2 as [|? ? L3 HL3]; subst; inversion HL3 as [|? ? L4 HL4]; subst;
  inversion HL4 as [|? ? L5 HL5]; subst; inversion HL5 as [|? ? L6 HL6]; subst;
  inversion HL6 as [|? ? L7 HL7]; subst; inversion HL7 as [|? ? L8 HL8]; subst.

Lemma step_reload S c J c' t : is_node S = true -> good S c J -> level_ok S t ->
  (c' = set_defaults c t \/ c' = set_overrides c t \/ c' = set_collection c t) ->
  exists d, remerge c' ONone = (set_cache c' d, ONone) /\ good S (set_cache c' d) J.
Proof.
  intros HS [HL HI HC] Ht Hc'.
  apply remerge_good; [assumption| |].
  - unfold lower in *. lower_inv HL.
    destruct Hc' as [ -> | [ -> | -> ] ]; destruct c; simpl in *; repeat (constructor; try assumption).
  - destruct Hc' as [ -> | [ -> | -> ] ]; destruct c; exact HI.
Qed.

(** ** clear() and update(): several marks / writes below the same section *)
Definition clear_upto (D : dict) (kp : path) : Prop :=
  forall q r, kp = q ++ r -> masked D q = false.

Lemma clear_upto_above D kp k : clear_upto D kp -> clear_above D (kp ++ [k]).
Proof.
  intros H q r E Hr. destruct (app_snoc_prefix q r kp k E Hr) as [r' E']. eapply H; eassumption.
Qed.

Lemma nav_clear_upto S c J fl kp d' : is_node S = true -> good S c J ->
  nav fl (c_cache c) kp = Ok d' -> clear_upto (c_dels c) kp.
Proof.
  intros HS HG Hn q r E.
  destruct (good_view S c J HS HG) as [X [_ [_ [_ Sd]]]].
  pose proof (nav_shapes fl kp _ _ Hn q r E) as Hq. rewrite Sd in Hq.
  destruct (masked (c_dels c) q); [discriminate | reflexivity].
Qed.

Lemma prefix_of_shorter {A} (q r kp : list A) (k : A) (r2 : list A) :
  kp = q ++ r -> q = (kp ++ [k]) ++ r2 -> False.
Proof.
  intros E1 E2. rewrite E2 in E1. apply (f_equal (@List.length A)) in E1.
  rewrite !app_length in E1. simpl in E1. lia.
Qed.

Lemma clear_upto_mark D kp k : clear_upto D kp -> clear_upto (set_path D (kp ++ [k]) mark) kp.
Proof.
  intros H q r E.
  rewrite masked_set_mark; [| destruct kp; discriminate | apply clear_upto_above; assumption].
  rewrite (H q r E), orb_false_r.
  destruct (is_prefix (kp ++ [k]) q) eqn:Ep; [|reflexivity].
  apply is_prefix_iff in Ep as [r2 E2]. exfalso. exact (prefix_of_shorter q r kp k r2 E E2).
Qed.

Lemma clear_upto_excise D kp k : wf (Node D) = true -> clear_upto D kp ->
  clear_upto (excise D (kp ++ [k])) kp.
Proof.
  intros WD H q r E. rewrite excise_is_del_path.
  rewrite masked_del_path; [| destruct kp; discriminate | assumption | apply clear_upto_above; assumption].
  destruct (is_prefix (kp ++ [k]) q) eqn:Ep; [reflexivity | eapply H; eassumption].
Qed.

Lemma fold_clear S kp : forall ks c J,
  Forall (level_ok S) (lower c) -> inv S (c_mods c) (c_dels c) J -> clear_upto (c_dels c) kp ->
  let c' := fold_left (fun c' k => track_del c' kp k) ks c in
  Forall (level_ok S) (lower c') /\
  inv S (c_mods c') (c_dels c') (J ++ map (fun k => JDel (kp ++ [k])) ks).
Proof.
  induction ks as [|k ks IH]; intros c J HL HI Hc; simpl.
  - rewrite app_nil_r. split; assumption.
  - assert (Hp : kp ++ [k] <> []) by (destruct kp; discriminate).
    assert (Et : track_del c kp k = set_tracking c (c_mods c) (set_path (c_dels c) (kp ++ [k]) mark)).
    { unfold track_del. rewrite del_mark_set_path by (apply clear_upto_above; assumption). reflexivity. }
    rewrite Et.
    replace (J ++ JDel (kp ++ [k]) :: map (fun k0 => JDel (kp ++ [k0])) ks)
      with ((J ++ [JDel (kp ++ [k])]) ++ map (fun k0 => JDel (kp ++ [k0])) ks)
      by (rewrite <- app_assoc; reflexivity).
    apply IH.
    + rewrite lower_set_tracking. exact HL.
    + destruct c; simpl in *. apply inv_delete; [assumption | assumption | apply clear_upto_above; assumption].
    + destruct c; simpl in *. apply clear_upto_mark. assumption.
Qed.

Definition leaf_kvs (S : tree) (kp : path) (kvs : list (string * tree)) : bool :=
  forallb (fun kv => match snd kv with Leaf _ => leaf_in S (kp ++ [fst kv]) | Node _ => false end) kvs.

Lemma fold_update S kp : forall kvs c J,
  leaf_kvs S kp kvs = true ->
  Forall (level_ok S) (lower c) -> inv S (c_mods c) (c_dels c) J -> clear_upto (c_dels c) kp ->
  let c' := fold_left (fun c' kv => track_set c' kp (fst kv) (snd kv)) kvs c in
  Forall (level_ok S) (lower c') /\
  inv S (c_mods c') (c_dels c') (J ++ map (fun kv => JSet (kp ++ [fst kv]) (snd kv)) kvs).
Proof.
  induction kvs as [|[k v] kvs IH]; intros c J Hk HL HI Hc; simpl.
  - rewrite app_nil_r. split; assumption.
  - simpl in Hk. apply andb_true_iff in Hk as [Hk1 Hk2].
    destruct v as [x|vk]; [|discriminate].
    unfold leaf_in in Hk1. destruct (shape_at (kp ++ [k]) S) as [[y|]|] eqn:ES; try discriminate.
    replace (J ++ JSet (kp ++ [k]) (Leaf x) :: map (fun kv => JSet (kp ++ [fst kv]) (snd kv)) kvs)
      with ((J ++ [JSet (kp ++ [k]) (Leaf x)]) ++ map (fun kv => JSet (kp ++ [fst kv]) (snd kv)) kvs)
      by (rewrite <- app_assoc; reflexivity).
    apply IH; [assumption | | |].
    + unfold track_set. rewrite lower_set_tracking. exact HL.
    + unfold track_set. destruct c; simpl in *.
      eapply inv_write; [eassumption | eassumption | apply clear_upto_above; assumption].
    + unfold track_set. destruct c; simpl in *. apply clear_upto_excise; [|assumption].
      apply (inv_wfD _ _ _ _ HI).
Qed.

(** * One step *)
Theorem step_good S fs c J o : is_node S = true -> good S c J -> op_ok S o = true ->
  good S (fst (step fs c o)) (J ++ events_of c o) /\ benign (snd (step fs c o)).
Proof.
  intros HS HG Hok.
  assert (Hsame : forall out, benign out -> good S c (J ++ []) /\ benign out).
  { intros out Hb. rewrite app_nil_r. split; assumption. }
  destruct o; simpl in Hok; try discriminate; unfold step, step_with, events_of.
  - (* Get *)
    destruct (nav fl (c_cache c) kp) as [d|e] eqn:Hn; simpl.
    + destruct (get k d); simpl; apply Hsame; [intros e H; discriminate | apply miss_benign].
    + apply Hsame. eapply nav_err_benign; eassumption.
  - (* SetV *)
    destruct v as [x|vk]; [|discriminate].
    destruct (nav fl (c_cache c) kp) as [d0|e] eqn:Hn; simpl.
    + rewrite excise_not_blocked by (eapply nav_clear_above; eassumption).
      destruct (step_write S c J fl kp k x ONone HS HG Hok d0 Hn) as [d [Er Hg]].
      unfold merged. rewrite Er. simpl. split; [exact Hg | intros e H; discriminate].
    + apply Hsame. eapply nav_err_benign; eassumption.
  - (* Del *)
    destruct (nav fl (c_cache c) kp) as [d0|e] eqn:Hn; simpl.
    + unfold has. destruct (get k d0) eqn:G; simpl.
      * rewrite del_not_blocked by (eapply nav_clear_above; eassumption).
        destruct (step_delete S c J fl kp k ONone HS HG d0 Hn) as [d [Er Hg]].
        unfold merged. rewrite Er. simpl. split; [exact Hg | intros e H; discriminate].
      * apply Hsame. apply miss_benign.
    + apply Hsame. eapply nav_err_benign; eassumption.
  - (* Pop *)
    destruct (nav fl (c_cache c) kp) as [d0|e] eqn:Hn; simpl.
    + unfold has. destruct (get k d0) eqn:G; simpl.
      * rewrite del_not_blocked by (eapply nav_clear_above; eassumption).
        destruct (step_delete S c J fl kp k (OVal t) HS HG d0 Hn) as [d [Er Hg]].
        unfold merged. rewrite Er. simpl. split; [exact Hg | intros e H; discriminate].
      * destruct dflt; simpl; apply Hsame; intros e H; inversion H; auto.
    + apply Hsame. eapply nav_err_benign; eassumption.
  - (* PopItem *)
    destruct (nav fl (c_cache c) kp) as [d0|e] eqn:Hn; simpl.
    + destruct (last_item d0) as [[k t]|] eqn:G; simpl.
      * rewrite del_not_blocked by (eapply nav_clear_above; eassumption).
        destruct (step_delete S c J fl kp k (OPair k t) HS HG d0 Hn) as [d [Er Hg]].
        unfold merged. rewrite Er. simpl. split; [exact Hg | intros e H; discriminate].
      * apply Hsame. intros e H; inversion H; auto.
    + apply Hsame. eapply nav_err_benign; eassumption.
  - (* Clear *)
    destruct (nav fl (c_cache c) kp) as [d0|e] eqn:Hn; simpl.
    + pose proof (nav_clear_upto S c J fl kp d0 HS HG Hn) as Hcu.
      destruct (keys d0) as [|k0 ks0] eqn:Ek.
      * simpl. apply Hsame. intros e H; discriminate.
      * rewrite del_not_blocked by (apply clear_upto_above; assumption).
        destruct HG as [HL HI HC].
        destruct (fold_clear S kp (k0 :: ks0) c J HL HI Hcu) as [HL' HI'].
        destruct (remerge_good S _ _ ONone HS HL' HI') as [d [Er Hg]].
        cbn [fold_left] in Er, Hg. cbn [fold_left].
        unfold merged. rewrite Er. simpl. split; [exact Hg | intros e H; discriminate].
    + apply Hsame. eapply nav_err_benign; eassumption.
  - (* SetDefault *)
    destruct (nav fl (c_cache c) kp) as [d0|e] eqn:Hn; simpl.
    + unfold has. destruct (get k d0) eqn:G; simpl.
      * apply Hsame. intros e H; discriminate.
      * destruct dflt as [[x|vk]|]; try discriminate.
        -- rewrite excise_not_blocked by (eapply nav_clear_above; eassumption).
           destruct (step_write S c J fl kp k x (OVal (Leaf x)) HS HG Hok d0 Hn) as [d [Er Hg]].
           unfold merged. rewrite Er. simpl. split; [exact Hg | intros e H; discriminate].
        -- rewrite excise_not_blocked by (eapply nav_clear_above; eassumption).
           destruct (step_write S c J fl kp k VNone (OVal (Leaf VNone)) HS HG Hok d0 Hn) as [d [Er Hg]].
           unfold merged. rewrite Er. simpl. split; [exact Hg | intros e H; discriminate].
    + apply Hsame. eapply nav_err_benign; eassumption.
  - (* Update *)
    destruct (nav fl (c_cache c) kp) as [d0|e] eqn:Hn; simpl.
    + pose proof (nav_clear_upto S c J fl kp d0 HS HG Hn) as Hcu.
      destruct kvs as [|kv kvs'].
      * simpl. apply Hsame. intros e H; discriminate.
      * rewrite excise_not_blocked by (apply clear_upto_above; assumption).
        destruct HG as [HL HI HC].
        destruct (fold_update S kp (kv :: kvs') c J Hok HL HI Hcu) as [HL' HI'].
        destruct (remerge_good S _ _ ONone HS HL' HI') as [d [Er Hg]].
        cbn [fold_left] in Er, Hg. cbn [fold_left].
        unfold merged. rewrite Er. simpl. split; [exact Hg | intros e H; discriminate].
    + apply Hsame. eapply nav_err_benign; eassumption.
  - (* Contains *)
    destruct (nav fl (c_cache c) kp) as [d|e] eqn:Hn; simpl; apply Hsame;
      [intros e H; discriminate | eapply nav_err_benign; eassumption].
  - (* Len *)
    destruct (nav fl (c_cache c) kp) as [d|e] eqn:Hn; simpl; apply Hsame;
      [intros e H; discriminate | eapply nav_err_benign; eassumption].
  - (* Keys *)
    destruct (nav fl (c_cache c) kp) as [d|e] eqn:Hn; simpl; apply Hsame;
      [intros e H; discriminate | eapply nav_err_benign; eassumption].
  - (* LoadDefaults *)
    destruct (step_reload S c J (set_defaults c t) t HS HG (level_okb_ok S t Hok)) as [d [Er Hg]]; [auto|].
    unfold merged. rewrite Er. simpl. rewrite app_nil_r. split; [exact Hg | intros e H; discriminate].
  - (* LoadOverrides *)
    destruct (step_reload S c J (set_overrides c t) t HS HG (level_okb_ok S t Hok)) as [d [Er Hg]]; [auto|].
    unfold merged. rewrite Er. simpl. rewrite app_nil_r. split; [exact Hg | intros e H; discriminate].
  - (* LoadCollection *)
    destruct (step_reload S c J (set_collection c t) t HS HG (level_okb_ok S t Hok)) as [d [Er Hg]]; [auto|].
    unfold merged. rewrite Er. simpl. rewrite app_nil_r. split; [exact Hg | intros e H; discriminate].
  - (* LoadShellEnv *)
    rewrite app_nil_r. destruct HG as [HL HI HC].
    assert (HL0 : Forall (level_ok S) (lower (set_env c (Node [])))).
    { assert (Henv : level_ok S (Node [])).
      { split; [reflexivity|]. split; [reflexivity | apply conforms_empty; exact HS]. }
      unfold lower in *. lower_inv HL. destruct c; simpl in *.
      repeat (first [assumption | apply Forall_cons | apply Forall_nil]). }
    assert (HI0 : inv S (c_mods (set_env c (Node []))) (c_dels (set_env c (Node []))) J) by (destruct c; exact HI).
    destruct (remerge_good S (set_env c (Node [])) J ONone HS HL0 HI0) as [d1 [Er1 Hg1]]. rewrite Er1.
    destruct (good_cache_conforms S _ J HS Hg1) as [Wc1 Cc1].
    destruct (load (Node (c_cache (set_cache (set_env c (Node [])) d1))) (c_env_prefix (set_cache (set_env c (Node [])) d1)) env) as [dd|e] eqn:El.
    + destruct (load_level_ok S _ _ _ dd HS Wc1 Cc1 El) as [Wdd Cdd].
      destruct Hg1 as [HLa HIa HCa].
      destruct (remerge_good S (set_env (set_cache (set_env c (Node [])) d1) (Node dd)) J ONone HS) as [d2 [Er2 Hg2]].
      * unfold lower in *. lower_inv HLa. destruct c; simpl in *.
        repeat (constructor; try assumption).
      * destruct c; exact HIa.
      * unfold merged. rewrite Er2. simpl. split; [exact Hg2 | intros e H; discriminate].
    + simpl. split; [exact Hg1|]. intros e' H. inversion H; subst e'.
      destruct (load_err_kind _ _ _ _ Wc1 El) as [ -> | [ -> | -> ] ]; auto 10.
  - (* View *)
    destruct (nav fl (c_cache c) kp) as [d|e] eqn:Hn; simpl; apply Hsame;
      [intros e H; discriminate | eapply nav_err_benign; eassumption].
  - (* EqD *)
    destruct (nav fl (c_cache c) kp) as [d|e] eqn:Hn; simpl; apply Hsame;
      [intros e H; discriminate | eapply nav_err_benign; eassumption].
  - (* GetM *)
    destruct (nav fl (c_cache c) kp) as [d|e] eqn:Hn; simpl.
    + destruct (get k d); simpl; apply Hsame; intros e H; discriminate.
    + apply Hsame. eapply nav_err_benign; eassumption.
  - (* UpdateBoth: the mapping, then the keyword arguments *)
    destruct (nav fl (c_cache c) kp) as [d0|e] eqn:Hn; simpl.
    + pose proof (nav_clear_upto S c J fl kp d0 HS HG Hn) as Hcu.
      unfold do_update. destruct (kvs ++ kw) as [|kv kvs'] eqn:Ek.
      * simpl. apply Hsame. intros e H; discriminate.
      * rewrite excise_not_blocked by (apply clear_upto_above; assumption).
        destruct HG as [HL HI HC].
        destruct (fold_update S kp (kv :: kvs') c J Hok HL HI Hcu) as [HL' HI'].
        destruct (remerge_good S _ _ ONone HS HL' HI') as [d [Er Hg]].
        rewrite Er. simpl. split; [exact Hg | intros e H; discriminate].
    + apply Hsame. eapply nav_err_benign; eassumption.
Qed.

(** * Histories *)
Fixpoint journal (fs : fsys) (c : cfg) (ops : list op) : list event :=
  match ops with
  | [] => []
  | o :: rest =>
      events_of c o ++
      (if abnormal (snd (step fs c o)) then [] else journal fs (fst (step fs c o)) rest)
  end.

Theorem run_good S fs : is_node S = true -> forall ops c J,
  good S c J -> forallb (op_ok S) ops = true ->
  good S (fst (run fs c ops)) (J ++ journal fs c ops) /\
  Forall (fun ov => benign (fst ov)) (snd (run fs c ops)).
Proof.
  intros HS. induction ops as [|o rest IH]; intros c J HG Hok.
  - simpl. rewrite app_nil_r. split; [assumption | constructor].
  - simpl in Hok. apply andb_true_iff in Hok as [Ho Hr].
    destruct (step_good S fs c J o HS HG Ho) as [Hg Hb].
    cbn [run journal]. destruct (step fs c o) as [c' out] eqn:Es. simpl in Hg, Hb.
    cbn [fst snd]. destruct (abnormal out).
    + simpl. rewrite app_nil_r. split; [assumption | constructor; [assumption | constructor]].
    + destruct (IH c' (J ++ events_of c o) Hg Hr) as [Hg' Hb'].
      destruct (run fs c' rest) as [c'' tr] eqn:Er. simpl in *.
      rewrite app_assoc. split; [assumption | constructor; assumption].
Qed.

(** * A boolean entry condition: a freshly built (or freshly re-merged) state
    with no edits yet *)
Definition is_empty (d : dict) : bool := match d with [] => true | _ => false end.

Definition result_dict_is (r : result dict) (d : dict) : bool :=
  match r with Ok d' => tree_eqb (Node d') (Node d) | Err _ => false end.

Definition good0 (S : tree) (c : cfg) : bool :=
  forallb (level_okb S) (lower c) && is_empty (c_mods c) && is_empty (c_dels c) &&
  result_dict_is (merge c) (c_cache c).

Lemma good0_good S c : is_node S = true -> good0 S c = true -> good S c [].
Proof.
  intros HS H. unfold good0 in H.
  apply andb_true_iff in H as [H H4]. apply andb_true_iff in H as [H H3].
  apply andb_true_iff in H as [H1 H2].
  constructor.
  - rewrite forallb_forall in H1. apply Forall_forall. intros l Hin. apply level_okb_ok. auto.
  - destruct (c_mods c); [|discriminate]. destruct (c_dels c); [|discriminate].
    apply inv_init. assumption.
  - unfold result_dict_is in H4. destruct (merge c) as [d|]; [|discriminate].
    change (tree_eqb (Node d) (Node (c_cache c)) = true) in H4.
    apply tree_eqb_eq in H4. congruence.
Qed.

Theorem refines_nested_dict : forall S fs c0 ops,
  is_node S = true -> good0 S c0 = true -> forallb (op_ok S) ops = true ->
  let c := fst (run fs c0 ops) in
  exists X, merge_all (lower c) [] = Ok X /\ wf (Node X) = true /\
            sim (Node (c_cache c)) (Node (replay (Node X) (journal fs c0 ops))).
Proof.
  intros S fs c0 ops HS H0 Hok c.
  destruct (run_good S fs HS ops c0 [] (good0_good S c0 HS H0) Hok) as [Hg _].
  destruct (good_view S c _ HS Hg) as [X [EX [WX [Hs _]]]].
  exists X. auto.
Qed.

Theorem no_internal_error : forall S fs c0 ops,
  is_node S = true -> good0 S c0 = true -> forallb (op_ok S) ops = true ->
  Forall (fun ov => benign (fst ov)) (snd (run fs c0 ops)).
Proof.
  intros S fs c0 ops HS H0 Hok.
  exact (proj2 (run_good S fs HS ops c0 [] (good0_good S c0 HS H0) Hok)).
Qed.

(** Read-back corollaries on a good state. *)
Corollary written_leaf_reads_back : forall S fs c J fl kp k x d0,
  is_node S = true -> good S c J -> leaf_in S (kp ++ [k]) = true ->
  nav fl (c_cache c) kp = Ok d0 ->
  shape_at (kp ++ [k]) (Node (c_cache (fst (step fs c (SetV fl kp k (Leaf x)))))) = Some (SLeaf x).
Proof.
  intros S fs c J fl kp k x d0 HS HG HL Hn.
  destruct (step_good S fs c J (SetV fl kp k (Leaf x)) HS HG HL) as [Hg _].
  destruct (good_view S _ _ HS Hg) as [X [_ [WX [Hs _]]]].
  rewrite Hs. unfold events_of. rewrite Hn. rewrite replay_snoc. cbn [apply_event].
  assert (Hp : kp ++ [k] <> []) by (destruct kp; discriminate).
  rewrite <- (app_nil_r (kp ++ [k])) at 1. rewrite set_path_at by assumption. reflexivity.
Qed.

Corollary deleted_key_is_absent : forall S fs c J fl kp k d0 t,
  is_node S = true -> good S c J -> nav fl (c_cache c) kp = Ok d0 -> get k d0 = Some t ->
  forall r, shape_at ((kp ++ [k]) ++ r) (Node (c_cache (fst (step fs c (Del fl kp k))))) = None.
Proof.
  intros S fs c J fl kp k d0 t HS HG Hn Gk r.
  destruct (step_good S fs c J (Del fl kp k) HS HG eq_refl) as [Hg _].
  destruct (good_view S _ _ HS Hg) as [X [_ [WX [Hs _]]]].
  rewrite Hs. unfold events_of. rewrite Hn. unfold has. rewrite Gk. rewrite replay_snoc. cbn [apply_event].
  assert (Hp : kp ++ [k] <> []) by (destruct kp; discriminate).
  rewrite del_path_shape; [rewrite is_prefix_app; reflexivity | assumption |].
  apply wf_replay; [assumption|]. apply (inv_wfJ _ _ _ _ (g_inv _ _ _ HG)).
Qed.
