(** C20, historical: the model of FilesystemLoader.find *before* a51b5ff (the
    walk over the prefixes of the start string as given, "" taken for a missing
    directory) and the three refutations it gave rise to (F-C20, F-C20b,
    F-C20c, all fixed by a51b5ff). *)
From InvokeVerif Require Import Model.LoaderModel Spec.C20Spec Proofs.C20_loader.

Fixpoint walk_old (fs : fsys) (name : string) (paths : list string) (x : nat) : find_res :=
  let path := join "/" (firstn x paths) in
  let module := (name ++ ".py")%string in
  match listdir fs path with
  | None => FNotFound
  | Some entries =>
      if mem module entries then FSpec (path_join path module) false
      else if mem name entries &&
              path_exists fs (path_join (path_join path name) "__init__.py")
      then FSpec (path_join (path_join path name) "__init__.py") true
      else match x with
           | O => FNone
           | S x' => walk_old fs name paths x'
           end
  end.

Definition find_old (fs : fsys) (name start : string) : find_res :=
  let paths := split_char sep start in
  walk_old fs name paths (List.length paths).

Definition load_old (fs : fsys) (cwd name start : string) : load_res :=
  finish cwd (find_old fs name start).

(** F-C20: tasks.py in "/" was not found from /a *)
Lemma root_historical_refutes :
  load_old fs_root "/" "tasks" "/a" = NotFound /\
  expected fs_root "tasks" (abs_comps "/" "/a") = Some ("/tasks.py", "/") /\
  spec_ok fs_root "/" "/a" "tasks" (obs_of (load_old fs_root "/" "tasks" "/a")) = false.
Proof. repeat split. Qed.

(** F-C20b: relative start "d1" from cwd /w holding tasks.py: not found *)
Definition fs_rel_old : fsys :=
  mkFs [("/w/d1", []); ("/w", ["tasks.py"]); ("/", []); ("d1", [])] [].

Lemma relative_historical_refutes :
  load_old fs_rel_old "/w" "tasks" "d1" = NotFound /\
  expected fs_rel_old "tasks" (abs_comps "/w" "d1") = Some ("/w/tasks.py", "/w") /\
  spec_ok fs_rel_old "/w" "d1" "tasks" (obs_of (load_old fs_rel_old "/w" "tasks" "d1")) = false.
Proof. repeat split. Qed.

(** F-C20c: start "/a/b/.." (= /a) loaded /a/b/tasks.py *)
Definition fs_dotdot_old : fsys :=
  mkFs [("/a/b/..", []); ("/a/b", ["tasks.py"]); ("/a", []); ("/", [])] [].

Lemma dotdot_historical_refutes :
  load_old fs_dotdot_old "/" "tasks" "/a/b/.." = Loaded "/a/b/tasks.py" "/a/b" /\
  expected fs_dotdot_old "tasks" (abs_comps "/" "/a/b/..") = None /\
  spec_ok fs_dotdot_old "/" "/a/b/.." "tasks" (obs_of (load_old fs_dotdot_old "/" "tasks" "/a/b/..")) = false.
Proof. repeat split. Qed.
