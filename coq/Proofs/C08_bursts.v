(** C08: poll granularity of the wait loop (Model/RunnerBursts.v). *)
From Coq Require Import Lia Bool.
From InvokeVerif Require Import Model.RunnerSM Model.RunnerBursts Spec.C08Spec Proofs.RunnerSM_facts Proofs.C08_sm.

(** * one event per burst is the plain script *)
Lemma step_burst_single c s e : step_burst c s [e] = step c s e.
Proof. unfold step_burst. destruct (in_wait (fst s) && forallb plain [e]); reflexivity. Qed.

Lemma burst_events_singletons c script : forall s,
  run_burst_events c s (map (fun e => [e]) script) = run_events c s script.
Proof.
  induction script as [|e r IH]; intros s; [reflexivity|].
  cbn [map]. unfold run_burst_events, run_events in *. cbn [fold_left].
  rewrite step_burst_single. apply IH.
Qed.

Theorem run_bursts_singletons c script : run_bursts c (group script []) = run_sm c script.
Proof. unfold run_bursts, run_sm. cbn [group]. rewrite burst_events_singletons. reflexivity. Qed.

(** * "reaped" never goes back *)
Lemma apply_ev_reaped_mono c s e :
  s_reaped (fst s) = true -> s_reaped (fst (apply_ev c s e)) = true.
Proof.
  destruct s as [k n]. cbn [fst]. intros H. unfold apply_ev. cbn [fst snd].
  destruct (negb (running k)); [exact H|].
  destruct e as [w|w|code|code| |w x|]; cbn [fst];
  repeat match goal with
  | |- context [match ?w with WOut => _ | WIn => _ | WErr => _ end] => is_var w; destruct w
  | |- context [if is_run ?x then _ else _] => destruct (is_run x)
  | |- context [match s_proc k with _ => _ end] => destruct (s_proc k)
  | |- context [match s_timer k with _ => _ end] => destruct (s_timer k)
  | |- context [match s_pc k with _ => _ end] => destruct (s_pc k) eqn:?
  end; cbn [fst]; try exact H;
  try (match goal with |- context [leave_wait c ?a ?b] =>
         destruct (leave_wait_fields c a b) as (A & _); cbn [fst] in A; rewrite A; reflexivity end).
  destruct w; exact H.
Qed.

Lemma advance_reaped_mono c s : s_reaped (fst s) = true -> s_reaped (fst (advance c s)) = true.
Proof.
  intros H. unfold advance. destruct (s_pc (fst s)); try exact H.
  - destruct (s_proc (fst s)).
    + destruct (leave_wait_fields c (set_reaped (fst s), snd s) false) as (A & _). cbn [fst] in A. rewrite A. reflexivity.
    + destruct (any_dead (fst s)); [|exact H].
      destruct (leave_wait_fields c s false) as (A & _). rewrite A. exact H.
  - destruct (run_joins_fields c todo s cur echild) as (A & _). rewrite A. exact H.
Qed.

Lemma note_reaped_mono c s e : s_reaped (fst s) = true -> s_reaped (fst (note c s e)) = true.
Proof. intros H. unfold note. cbn [fst]. apply apply_ev_reaped_mono. exact H. Qed.

Lemma step_reaped_mono c s e : s_reaped (fst s) = true -> s_reaped (fst (step c s e)) = true.
Proof. intros H. unfold step. apply advance_reaped_mono. cbn [fst]. apply apply_ev_reaped_mono. exact H. Qed.

Lemma fold_reaped_mono {A} (f : st -> A -> st) :
  (forall s a, s_reaped (fst s) = true -> s_reaped (fst (f s a)) = true) ->
  forall l s, s_reaped (fst s) = true -> s_reaped (fst (fold_left f l s)) = true.
Proof. intros F l. induction l as [|a r IH]; intros s H; [exact H|]. cbn [fold_left]. apply IH, F, H. Qed.

Lemma step_burst_reaped_mono c s b : s_reaped (fst s) = true -> s_reaped (fst (step_burst c s b)) = true.
Proof.
  intros H. unfold step_burst. destruct (in_wait (fst s) && forallb plain b).
  - apply advance_reaped_mono. apply fold_reaped_mono; [apply note_reaped_mono|exact H].
  - apply fold_reaped_mono; [apply step_reaped_mono|exact H].
Qed.

(** * the poll comes first: a burst in which the process ends is followed by a reaping poll *)
Lemma advance_reaps c s :
  s_pc (fst s) = PWait -> s_proc (fst s) <> None -> s_reaped (fst (advance c s)) = true.
Proof.
  intros P Q. unfold advance. rewrite P. destruct (s_proc (fst s)); [|congruence].
  destruct (leave_wait_fields c (set_reaped (fst s), snd s) false) as (A & _). cbn [fst] in A. rewrite A. reflexivity.
Qed.

Definition is_exit (e : ev) : bool := match e with EExit _ => true | _ => false end.

(** plain events leave the main thread where it is and never bring the process back *)
Lemma note_plain c s e :
  plain e = true -> s_pc (fst s) = PWait ->
  s_pc (fst (note c s e)) = PWait /\
  (s_proc (fst s) <> None \/ is_exit e = true -> s_proc (fst (note c s e)) <> None).
Proof.
  destruct s as [k n]. cbn [fst]. intros Pl P. unfold note, apply_ev. cbn [fst snd].
  assert (R : running k = true) by (unfold running; rewrite P; reflexivity). rewrite R. cbn [negb].
  destruct e as [w|w|code|code| |w x|]; try discriminate Pl; cbn [fst];
  repeat match goal with
  | |- context [match ?w with WOut => _ | WIn => _ | WErr => _ end] => is_var w; destruct w
  | |- context [if is_run ?x then _ else _] => destruct (is_run x)
  | |- context [match s_proc k with _ => _ end] => destruct (s_proc k) eqn:?
  | |- context [match s_timer k with _ => _ end] => destruct (s_timer k)
  | |- context [wset k ?w _] => is_var w; destruct w
  end; cbn [fst set_proc set_timer wset s_pc s_proc is_exit]; try discriminate Pl;
  (split; [exact P|]); intros [Q|Q]; congruence.
Qed.

Lemma notes_plain c b : forall s,
  forallb plain b = true -> s_pc (fst s) = PWait ->
  s_pc (fst (fold_left (note c) b s)) = PWait /\
  (s_proc (fst s) <> None \/ existsb is_exit b = true -> s_proc (fst (fold_left (note c) b s)) <> None).
Proof.
  induction b as [|e r IH]; intros s Pl P.
  - cbn. split; [exact P|]. intros [Q|Q]; [exact Q|discriminate Q].
  - cbn [forallb] in Pl. apply andb_true_iff in Pl. destruct Pl as [Pe Pr].
    destruct (note_plain c s e Pe P) as (P1 & Q1).
    cbn [fold_left]. destruct (IH (note c s e) Pr P1) as (P2 & Q2). split; [exact P2|].
    cbn [existsb]. intros [Q|Q].
    + apply Q2. left. apply Q1. left. exact Q.
    + apply orb_true_iff in Q. destruct Q as [Q|Q].
      * apply Q2. left. apply Q1. right. exact Q.
      * apply Q2. right. exact Q.
Qed.

(** the wait loop is still waiting, the burst is made of plain events and the
    process ends in it (or had ended): whatever else happens in that burst --
    worker deaths included -- the next iteration polls first and reaps *)
Theorem burst_reaps c s b :
  in_wait (fst s) = true -> forallb plain b = true ->
  (s_proc (fst s) <> None \/ existsb is_exit b = true) ->
  s_reaped (fst (step_burst c s b)) = true.
Proof.
  intros W Pl Q. unfold step_burst. rewrite W, Pl. cbn [andb].
  assert (P : s_pc (fst s) = PWait) by (unfold in_wait in W; destruct (s_pc (fst s)); congruence).
  destruct (notes_plain c b s Pl P) as (P1 & Q1). apply advance_reaps; auto.
Qed.

(** ... and it stays reaped until run()/join() is over *)
Theorem run_bursts_end_reaped c pre b post :
  in_wait (fst (run_burst_events c (advance c (init c)) pre)) = true ->
  forallb plain b = true -> existsb is_exit b = true ->
  s_reaped (fst (run_bursts c (pre ++ b :: post))) = true.
Proof.
  intros W Pl Q. unfold run_bursts. apply drain_reaped.
  unfold run_burst_events in *. rewrite fold_left_app. cbn [fold_left].
  apply fold_reaped_mono; [intros; apply step_burst_reaped_mono; assumption|].
  apply burst_reaps; auto.
Qed.

(** the two granularities side by side (pty, stdout worker dies, exit 0):
    same poll interval -> reaped; one iteration apart -> the F-C08d zombie *)
Lemma burst_witness :
  let c := mkCfg true false false false false false false false in
  let d := EExc WOut XOther in
  observe (run_bursts c [[d; EExit 0%Z]]) =
    mkSmObs (Some OThreadException) 0 0 0 1 true [] false false true 0 0 [(WOut, false)] /\
  o_reaped (observe (run_bursts c [[EExit 0%Z; d]])) = true /\
  o_reaped (observe (run_bursts c [[d]; [EExit 0%Z]])) = false /\
  in_wait (fst (run_burst_events c (advance c (init c)) [])) = true.
Proof. vm_compute. auto. Qed.
