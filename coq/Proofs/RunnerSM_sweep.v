(** Finite sweeps of the flagship statements "the model satisfies the executable
    spec" for C08 and C14 (tests by computation, NOT the properties: bounded
    script length, finite event alphabet). *)
From InvokeVerif Require Import Corr.RunnerCorr.
From InvokeVerif Require Spec.C08Spec Spec.C14Spec.

Fixpoint scripts_upto (alphabet : list ev) (n : nat) : list (list ev) :=
  match n with
  | O => [[]]
  | S m => [] :: flat_map (fun e => map (cons e) (scripts_upto alphabet m)) alphabet
  end.

Definition bools := [false; true].

Definition configs (with_holds : bool) : list cfg :=
  flat_map (fun pty => flat_map (fun i => flat_map (fun t => flat_map (fun w =>
  flat_map (fun ho => flat_map (fun he =>
    [mkCfg pty i t w false false ho he; mkCfg pty i t w false true ho he])
  (if with_holds then bools else [false])) (if with_holds then bools else [false]))
  bools) bools) bools) bools.

Definition alphabet08 : list ev :=
  [EChunk WOut; EEof WOut; EEof WErr; EExit 0; EExit 3; EExitKbd 0; ETimer; EKbd;
   EExc WOut XOther; EExc WOut XWatcher; EExc WIn XOther; EExc WErr XOther; EExc WErr XWatcher].

Definition alphabet14 : list ev :=
  [EChunk WOut; EChunk WErr; EEof WOut; EEof WErr; EExit 0; EExit 3; ETimer].

(** C08: outside the three catalogued defect regions the model meets the spec
    (F-C08c, the stdin-worker death, is fixed and no longer excluded) *)
Definition guard08 (c : cfg) (script : list ev) : bool :=
  (* F-C08a *) negb (c_start_fail c && c_pty c) &&
  (* F-C08b *) negb (c_pty c && existsb (fun e => match e with EExitKbd _ => true | _ => false end) script) &&
  (* F-C08d *) match C08Spec.death_while_running c script with
               | Some _ => negb (C08Spec.process_ends c script && C08Spec.fair c)
               | None => true
               end.

Definition ok08 (c : cfg) (script : list ev) : bool :=
  implb (guard08 c script) (C08Spec.spec_ok c script (observe (run_sm c script))).

(** C14: outside the two catalogued defect regions *)
Definition guard14 (c : cfg) (script : list ev) : bool :=
  (* F-C14a: the timer expires after the exit *)
  negb (c_timeout c &&
        match C14Spec.first_of script with
        | C14Spec.FinishedFirst => existsb (fun e => match e with ETimer => true | _ => false end) script
        | _ => false
        end) &&
  (* F-C14b: expiry while running and a held pipe *)
  negb (c_timeout c && (c_hold_out c || c_hold_err c) &&
        match C14Spec.first_of script with C14Spec.ExpiredWhileRunning => true | _ => false end).

Definition ok14 (c : cfg) (script : list ev) : bool :=
  implb (guard14 c script) (C14Spec.spec_ok c script (observe (run_sm c script))).

Definition sweep (ok : cfg -> list ev -> bool) (cs : list cfg) (ss : list (list ev)) : bool :=
  forallb (fun c => forallb (ok c) ss) cs.

Lemma sweep08_3 : sweep ok08 (configs true) (scripts_upto alphabet08 3) = true.
Proof. vm_compute. reflexivity. Qed.

Lemma sweep14_4 : sweep ok14 (configs true) (scripts_upto alphabet14 4) = true.
Proof. vm_compute. reflexivity. Qed.

Lemma sweep_sizes :
  List.length (configs true) = 128 /\ List.length (scripts_upto alphabet08 3) = 2380 /\
  List.length (scripts_upto alphabet14 4) = 2801.
Proof. vm_compute. auto. Qed.
