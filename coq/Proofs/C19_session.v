(** C19: facts about the session model, refutation witnesses, bounded sweep. *)
From InvokeVerif Require Import Model.SessionModel Spec.C19Spec Corr.C19Corr.

(** * which calls carry [called_as] *)
Definition root_task (c : scall) : nat := match c with SCall t _ _ => t end.

Lemma sexpand_unfold ca t pre post :
  sexpand ca (SCall t pre post) =
  flat_map (sexpand None) pre ++ (t, ca) :: flat_map (sexpand None) post.
Proof. reflexivity. Qed.

Section ScallInd.
  Variable P : scall -> Prop.
  Hypothesis H : forall t pre post, Forall P pre -> Forall P post -> P (SCall t pre post).
  Fixpoint scall_ind' (c : scall) : P c :=
    match c with
    | SCall t pre post =>
        H t pre post
          ((fix go (l : list scall) : Forall P l :=
              match l with [] => Forall_nil _ | x :: l' => Forall_cons x (scall_ind' x) (go l') end) pre)
          ((fix go (l : list scall) : Forall P l :=
              match l with [] => Forall_nil _ | x :: l' => Forall_cons x (scall_ind' x) (go l') end) post)
    end.
End ScallInd.

(** pre- and post-tasks (at any depth) are calls without a name *)
Lemma sexpand_none c : forall t ca, In (t, ca) (sexpand None c) -> ca = None.
Proof.
  induction c as [t0 pre post IHpre IHpost] using scall_ind'. intros t ca HIn.
  rewrite sexpand_unfold in HIn. apply in_app_or in HIn.
  assert (forall l, Forall (fun c => forall t ca, In (t, ca) (sexpand None c) -> ca = None) l ->
                    In (t, ca) (flat_map (sexpand None) l) -> ca = None) as Hl.
  { intros l HF Hin. apply in_flat_map in Hin. destruct Hin as [x [Hx Hin]].
    rewrite Forall_forall in HF. eapply HF; eauto. }
  destruct HIn as [HIn|[HIn|HIn]].
  - apply (Hl pre IHpre HIn).
  - inversion HIn; reflexivity.
  - apply (Hl post IHpost HIn).
Qed.

(** only the requested task itself is called by the requested name *)
Lemma called_as_only_direct c n t n' :
  In (t, Some n') (sexpand (Some n) c) -> t = root_task c /\ n' = n.
Proof.
  destruct c as [t0 pre post]. rewrite sexpand_unfold. intros HIn.
  apply in_app_or in HIn.
  assert (forall l, In (t, Some n') (flat_map (sexpand None) l) -> False) as Hl.
  { intros l Hin. apply in_flat_map in Hin. destruct Hin as [x [_ Hin]].
    apply sexpand_none in Hin. discriminate. }
  destruct HIn as [HIn|[HIn|HIn]].
  - exfalso; eapply Hl; eauto.
  - inversion HIn; subst. auto.
  - exfalso; eapply Hl; eauto.
Qed.

(** the implicitly chosen default task (and its hooks) has no name either *)
Lemma default_call_unnamed dflt dd t ca :
  In (t, ca) (session_calls [] (Some dflt) dd) -> ca = None.
Proof.
  unfold session_calls. intros HIn.
  assert (forall l kept, (forall x, In x kept -> snd x = None) -> (forall x, In x l -> snd x = None) ->
                         forall x, In x (sdedupe_from kept l) -> snd x = None) as Hd.
  { induction l as [|c l IH]; intros kept Hk Hl x Hx; [apply Hk; exact Hx|].
    cbn [sdedupe_from] in Hx. destruct (existsb _ kept).
    - apply (IH kept Hk (fun y Hy => Hl y (or_intror Hy)) x Hx).
    - apply (IH (kept ++ [c])) with (x := x); [| |exact Hx].
      + intros y Hy. apply in_app_or in Hy. destruct Hy as [Hy|[<-|[]]]; [apply Hk; exact Hy | apply Hl; left; reflexivity].
      + intros y Hy. apply Hl; right; exact Hy. }
  assert (forall x, In x (sexpand None dflt) -> snd x = None) as He.
  { intros [t' ca'] Hx. simpl. eapply sexpand_none; eauto. }
  destruct dd.
  - apply (Hd _ [] (fun x (F : In x []) => match F with end) He (t, ca) HIn).
  - apply (He (t, ca) HIn).
Qed.

(** * what the per-call reload does to the levels *)
Lemma load_collection_effect fs c t :
  let c' := fst (step fs c (LoadCollection t)) in
  c_collection c' = t /\ c_mods c' = c_mods c /\ c_dels c' = c_dels c /\
  c_defaults c' = c_defaults c /\ c_overrides c' = c_overrides c /\ c_env c' = c_env c.
Proof.
  unfold step, step_with, merged, remerge.
  destruct (merge (set_collection c t)); cbn; repeat split; reflexivity.
Qed.

Lemma load_shell_env_effect fs c e :
  let c' := fst (step fs c (LoadShellEnv e)) in
  c_collection c' = c_collection c /\ c_mods c' = c_mods c /\ c_dels c' = c_dels c /\
  c_defaults c' = c_defaults c /\ c_overrides c' = c_overrides c.
Proof.
  unfold step, step_with, merged, remerge.
  destruct (merge (set_env c (Node []))) as [d|er]; cbn.
  - destruct (load (Node d) (c_env_prefix c) e) as [d'|er']; cbn.
    + destruct (merge (set_env (set_cache (set_env c (Node [])) d) (Node d'))); cbn; repeat split; reflexivity.
    + repeat split; reflexivity.
  - repeat split; reflexivity.
Qed.

(** the reload of the environment level forgets the previous one altogether
    (since /repo 150639c the crawl reads a merge without the old [_env]): the
    whole step is independent of the environment level it finds *)
Lemma env_reload_forgets_old_env fs c e old :
  step fs (set_env c old) (LoadShellEnv e) = step fs c (LoadShellEnv e).
Proof. destruct c. reflexivity. Qed.

(** * Witnesses and sweeps *)
Definition tk (i : nat) (n : string) := mkTask i n [] false.
Definition kx (x : Z) (extra : list (string * tree)) : tree :=
  Node [("k", Node (("x", Leaf (VInt x)) :: extra))].

Definition ns_script : item :=
  ISub None true (kx 0 [("top", Leaf (VInt 1))])
       [ITask (tk 0 "t0") None [] (Some true);
        ISub (Some "a") true (kx 1 [("a", Leaf (VInt 1))]) [ITask (tk 1 "t1") None [] (Some true)] None false;
        ISub (Some "b") true (kx 2 []) [ITask (tk 2 "t2") None [] None] None false]
       None false.

Definition ns_tree : coll :=
  match build ns_script with Ok c => c | Err _ => new_coll None true end.

Definition init0 : init_args := mkInit (Node [("k", Node [("x", Leaf (VInt (-1))); ("d", Leaf (VInt 0))])])
                                       (Node []) None None false.

Definition judge (bodies : list (nat * list op)) (reqs : list (string * scall)) (dflt : option scall)
           (envs : list (list (string * string))) : bool :=
  spec_ok ns_tree (i_defaults init0) (i_overrides init0) (body_of bodies) envs
          (session ns_tree init0 bodies reqs dflt true envs).

Definition leaf_call (t : nat) := SCall t [] [].

(** F-C19: t0 has the pre-task t1, which lives in [a]: inside t1's body the
    settings of [a] are missing *)
Lemma refuted_hook :
  build ns_script = Ok ns_tree /\
  judge [] [("t0", SCall 0 [leaf_call 1] [])] None [[]] = false /\
  (exists v0 v1, session ns_tree init0 [] [("t0", SCall 0 [leaf_call 1] [])] None true [[]]
                 = Ok ([(1, v0, [], v0); (0, v1, [], v1)], None) /\
                 leaf_at ["k"; "a"] (Node v0) = None /\ leaf_at ["k"; "x"] (Node v0) = Some (VInt 0)) /\
  (* requested directly, the same task sees them *)
  judge [] [("a.t1", leaf_call 1)] None [[]] = true.
Proof.
  split; [vm_compute; reflexivity|]. split; [vm_compute; reflexivity|].
  split; [|vm_compute; reflexivity].
  eexists. eexists. split; [vm_compute; reflexivity|]. split; vm_compute; reflexivity.
Qed.

(** the implicitly chosen default task of a sub-collection: same thing *)
Definition ns_script_d : item :=
  ISub None true (kx 0 [])
       [ISub (Some "a") true (kx 1 [("a", Leaf (VInt 1))]) [ITask (tk 1 "t1") None [] (Some true)] None true]
       None false.

Lemma refuted_default_task :
  exists c, build ns_script_d = Ok c /\
    spec_ok c (Node []) (Node []) (fun _ => []) [[]]
            (session c (mkInit (Node []) (Node []) None None false) [] [] (Some (leaf_call 1)) true [[]]) = false /\
    spec_ok c (Node []) (Node []) (fun _ => []) [[]]
            (session c (mkInit (Node []) (Node []) None None false) [] [("a", leaf_call 1)] None true [[]]) = true.
Proof. eexists. split; [vm_compute; reflexivity|]. split; vm_compute; reflexivity. Qed.

(** The former witness of F-C19b (repaired in /repo by 150639c): with
    INVOKE_K_A set, `sub.first second`, only [sub] configuring [k.a].  The
    environment level computed for [first] used to survive the reload and
    re-create [k.a = 5] for [second]; now [second] sees nothing of it and the
    session meets the specification. *)
Definition ns_script_e : item :=
  ISub None true (Node [])
       [ISub (Some "sub") true (Node [("k", Node [("a", Leaf (VInt 1))])])
             [ITask (tk 1 "first") None [] None] None false;
        ITask (tk 2 "second") None [] None]
       None false.

Lemma stale_env_gone :
  exists c, build ns_script_e = Ok c /\
    let i := mkInit (Node []) (Node []) None None false in
    let reqs := [("sub.first", leaf_call 1); ("second", leaf_call 2)] in
    spec_ok c (Node []) (Node []) (fun _ => []) [[("INVOKE_K_A", "5")]]
            (session c i [] reqs None true [[("INVOKE_K_A", "5")]]) = true /\
    (exists v1 v2, session c i [] reqs None true [[("INVOKE_K_A", "5")]]
                   = Ok ([(1, v1, [], v1); (2, v2, [], v2)], None) /\
                   leaf_at ["k"; "a"] (Node v1) = Some (VInt 5) /\
                   leaf_at ["k"; "a"] (Node v2) = None).
Proof.
  eexists. split; [vm_compute; reflexivity|]. cbv zeta. split; [vm_compute; reflexivity|].
  eexists. eexists. split; [vm_compute; reflexivity|]. split; vm_compute; reflexivity.
Qed.

(** sweep: every sequence of 1-2 direct requests over four names, eight of
    three, x seven first-body edits x four environment schedules *)
Definition names5 : list (string * scall) :=
  [("t0", leaf_call 0); ("a.t1", leaf_call 1); ("b.t2", leaf_call 2); ("a", leaf_call 1)].

Definition edits : list (list op) :=
  [ [];
    [SetV Item ["k"] "x" (Leaf (VInt 9))];
    [Del Item ["k"] "x"];
    [Del Attr [] "k"];
    [SetV Item ["k"] "n" (Leaf (VInt 5)); Del Item ["k"] "top"; Get Item ["k"] "a"];
    [SetV Attr ["k"] "a" (Leaf (VInt 3)); Del Item ["k"] "a"; SetV Item ["k"] "a" (Leaf (VInt 4))];
    [Pop Item ["k"] "x" None; SetV Item ["k"] "x" (Leaf (VStr "s"))] ].

Definition env_schedules : list (list (list (string * string))) :=
  [ [[]]; [[("INVOKE_K_X", "7")]]; [[]; [("INVOKE_K_X", "7"); ("INVOKE_K_D", "3")]];
    [[("INVOKE_K_X", "7")]; []; [("INVOKE_K_TOP", "2")]];
    [[("INVOKE_K_A", "5")]] ].

Definition req_seqs : list (list (string * scall)) :=
  map (fun a => [a]) names5 ++
  flat_map (fun a => map (fun b => [a; b]) names5) names5 ++
  map (fun a => [("b.t2", leaf_call 2); a; ("t0", leaf_call 0)]) names5 ++
  map (fun a => [("a", leaf_call 1); ("t0", leaf_call 0); a]) names5.

Definition sweep : bool :=
  forallb (fun reqs =>
    forallb (fun ed =>
      forallb (fun envs =>
        (* the edits are made by whichever task runs first *)
        judge (match reqs with (_, SCall t _ _) :: _ => [(t, ed)] | [] => [] end) reqs None envs)
      env_schedules) edits) req_seqs.

Lemma view_bounded : sweep = true.
Proof. vm_compute. reflexivity. Qed.

Lemma sweep_size : List.length req_seqs = 28 /\ List.length edits = 7 /\ List.length env_schedules = 5.
Proof. vm_compute. auto. Qed.

(** * the collection level a directly requested call gets *)
From InvokeVerif Require Import Spec.C17Spec Proofs.C17_path.

Lemma named_call_level ns fs c0 n t cfgs :
  ns_wf ns = true -> ns_canon ns = true ->
  ref_path ns (segs_of n) = Some (t, cfgs) -> all_compatible cfgs = true ->
  exists d,
    configuration ns n = Ok d /\
    (forall p, leaf_at p (Node d) = first_some (map (fun g => leaf_at p (Node g)) cfgs)) /\
    let c1 := fst (step fs c0 (LoadCollection (Node d))) in
    c_collection c1 = Node d /\ c_mods c1 = c_mods c0 /\ c_dels c1 = c_dels c0.
Proof.
  intros Hwf Hcan Href Hall.
  destruct (path_deep_merge ns n t cfgs Hwf Hcan Href Hall) as [d [Hd [_ Hp]]].
  exists d. unfold configuration. rewrite Hd. split; [reflexivity|]. split; [exact Hp|].
  destruct (load_collection_effect fs c0 (Node d)) as [H1 [H2 [H3 _]]]. auto.
Qed.

(** * F-C19c: a body creates a setting whose variable name another setting has *)
Definition ns_script_c : item :=
  ISub None true (Node [("db", Node [("host", Leaf (VStr "localhost"))])])
       [ITask (tk 1 "first") None [] None; ITask (tk 2 "second") None [] None] None false.

Definition clash_bodies : list (nat * list op) := [(1, [SetV Item [] "db_host" (Leaf (VStr "x"))])].

(** `first second`, no environment variable set: [first] writes db_host; the
    reload before [second] refuses (AmbiguousEnvVar), [second] never runs and
    the error escapes execute().  Judged: not as specified.  The same session
    without the write, and the same write of a name nothing else answers to,
    are fine. *)
Lemma refuted_env_name_clash :
  exists c, build ns_script_c = Ok c /\
    let i := mkInit (Node []) (Node []) None None false in
    let reqs := [("first", leaf_call 1); ("second", leaf_call 2)] in
    (exists v0 v1, session c i clash_bodies reqs None true [[]] = Ok ([(1, v0, [ONone], v1)], Some EAmbigEnv) /\
                   leaf_at ["db_host"] (Node v1) = Some (VStr "x") /\
                   leaf_at ["db"; "host"] (Node v1) = Some (VStr "localhost")) /\
    C19Spec.spec_ok c (Node []) (Node []) (body_of clash_bodies) [[]] (session c i clash_bodies reqs None true [[]]) = false /\
    C19Spec.spec_ok c (Node []) (Node []) (body_of []) [[]] (session c i [] reqs None true [[]]) = true /\
    (let other := [(1, [SetV Item [] "db_port" (Leaf (VStr "x"))])] in
     C19Spec.spec_ok c (Node []) (Node []) (body_of other) [[]] (session c i other reqs None true [[]]) = true) /\
    (* with the variable actually set the refusal is the documented one (C16): outside the statement *)
    C19Spec.spec_ok c (Node []) (Node []) (body_of clash_bodies) [[("INVOKE_DB_HOST", "h")]]
            (session c i clash_bodies reqs None true [[("INVOKE_DB_HOST", "h")]]) = true.
Proof.
  eexists. split; [vm_compute; reflexivity|]. cbv zeta.
  split; [eexists; eexists; split; [vm_compute; reflexivity|]; split; vm_compute; reflexivity|].
  repeat split; vm_compute; reflexivity.
Qed.
