(** C09: small-scope sweep of the whole executable specification (a test, not
    the property): every signature with at most two parameters over an
    8-name vocabulary x 8 default kinds (a float among them) x {default options, no auto short
    flags, first parameter iterable+optional}. *)
From InvokeVerif Require Import Model.SigCtxModel Spec.C09Spec.

Definition vocab : list string := ["a"; "b"; "ab"; "a_b"; "ab_c"; "_a"; "no_a"; "_"].
Definition kinds : list pdefault :=
  [DEmpty; DNone; DStr "x"; DInt 5; DBool true; DBool false; DList []; DOther "float" "1.5"].

Definition params1 : list param := flat_map (fun n => map (mkParam n) kinds) vocab.

Definition decos (ps : list param) : list deco :=
  let first := match ps with p :: _ => [p_name p] | [] => [] end in
  [mkDeco None [] [] [] true; mkDeco None [] [] [] false;
   mkDeco None first first [] true; mkDeco (Some (rev (map p_name ps))) [] [] first true].

Definition small_sigs : list tsig :=
  flat_map (fun ps => map (mkSig ps) (decos ps))
    ([] :: map (fun p => [p]) params1 ++
     flat_map (fun p => map (fun q => [p; q]) params1) params1).

Definition judged (s : tsig) : bool := implb (guard s) (spec_ok s (sig_cli s)).

Lemma small_sweep : forallb judged small_sigs = true.
Proof. vm_compute. reflexivity. Qed.

Lemma small_sweep_nonvacuous :
  N.leb 6486 (N.of_nat (List.length (filter guard small_sigs))) = true.
Proof. vm_compute. reflexivity. Qed.

Lemma spec_bounded s : In s small_sigs -> guard s = true -> spec_ok s (sig_cli s) = true.
Proof.
  intros H G. pose proof (proj1 (forallb_forall _ _) small_sweep s H) as J.
  unfold judged in J. now rewrite G in J.
Qed.
