(** C01 proof, part 6: the partial round-trip theorem. *)
From InvokeVerif Require Import Corr.C01Corr Proofs.ListFacts Proofs.C07_fuel
     Proofs.C01_steps Proofs.C01_tokens Proofs.C01_lookup Proofs.C01_occ Proofs.C01_roundtrip.
From Coq Require Import Lia.

(** The fragment: a well-formed parser whose initial context needs no
    positional; at least one call; every call names its task (name or alias),
    the task satisfies [ctx_guard] and every item is a simple occurrence. *)
Definition simple_guard (cs : list ctxspec) (ic : ctxspec) (inv : invocation) : bool :=
  parser_ok cs && negb (has_missing (init_ctx ic))
  && match inv with [] => false | _ => true end
  && forallb (call_simple cs) inv.

(** ** no token of a simple spelling is the remainder sentinel *)

Lemma split_ddash_clean : forall l, Forall (fun t => t <> "--") l -> split_ddash l = (l, []).
Proof.
  induction l as [|t l IH]; intros H; [reflexivity|]. inversion H as [|? ? Ht Hl]; subst.
  simpl. destruct (String.eqb t "--") eqn:E; [apply String.eqb_eq in E; contradiction|].
  rewrite (IH Hl). reflexivity.
Qed.

Lemma plain_not_ddash t : plain t = true -> t <> "--".
Proof. intros P E. subst. discriminate P. Qed.

Lemma clean_not_ddash t : clean_flag t = true -> t <> "--".
Proof.
  unfold clean_flag. rewrite !andb_true_iff, negb_true_iff. intros [_ E] H. subst. discriminate E.
Qed.

Lemma eq_form_not_ddash fl s : (fl ++ String "=" s)%string <> "--".
Proof.
  intros E. pose proof (contains_char_concat "=" fl s) as C. rewrite E in C. discriminate C.
Qed.

Lemma spell_occ_clean c given o :
  ctx_guard c = true -> occ_simple c given o = true ->
  Forall (fun t => t <> "--") (spell_occ c o).
Proof.
  intros G Os. destruct (guard_parts c G) as [_ [_ [Cl _]]].
  unfold occ_simple in Os. unfold spell_occ.
  destruct (nth_error (cx_args c) (o_arg o)) as [a|] eqn:Na; [|discriminate].
  apply andb_true_iff in Os. destruct Os as [Lk Os]. apply Nat.ltb_lt in Lk.
  assert (Ct : clean_flag (flag_of a (o_name o)) = true).
  { apply Cl. eapply in_all_spellings; [exact Na|]. unfold spellings_of. apply in_or_app. left.
    apply flag_of_in. exact Lk. }
  destruct (o_form o); try discriminate; destruct (o_val o) as [b|n|s|]; try discriminate.
  - repeat constructor. apply clean_not_ddash. exact Ct.
  - destruct b; [discriminate|]. rewrite !andb_true_iff in Os. destruct Os as [_ Iv].
    destruct (inverse_of a) as [sv|] eqn:Iva; [|discriminate].
    assert (sv = to_flag ("no-" ++ main_name a)).
    { unfold inverse_of in Iva. destruct (a_kind a); try discriminate.
      destruct (a_default a); try discriminate. destruct b; try discriminate. congruence. }
    subst sv. repeat constructor. apply clean_not_ddash. apply Cl.
    eapply in_all_spellings; [exact Na|]. unfold spellings_of. rewrite Iva.
    apply in_or_app. right. left. reflexivity.
  - rewrite !andb_true_iff in Os. destruct Os as [[[[_ _] Pl] _] _].
    repeat constructor; [apply clean_not_ddash; exact Ct | apply plain_not_ddash; exact Pl].
  - repeat constructor. change (("=" ++ s)%string) with (String "=" s). apply eq_form_not_ddash.
Qed.

Lemma spell_items_clean c : forall items given,
  ctx_guard c = true -> items_simple c given items = true ->
  Forall (fun t => t <> "--") (flat_map (spell_item c) items).
Proof.
  induction items as [|it items IH]; intros given G Is; [constructor|].
  destruct it as [o|l]; [|discriminate]. simpl in Is. apply andb_true_iff in Is. destruct Is as [Os Is].
  cbn [flat_map spell_item]. apply Forall_app. split; [eapply spell_occ_clean; eauto | eapply IH; eauto].
Qed.

Lemma spell_clean cs : forall inv,
  forallb (call_simple cs) inv = true -> Forall (fun t => t <> "--") (spell cs inv).
Proof.
  induction inv as [|k rest IH]; intros H; [constructor|].
  simpl in H. apply andb_true_iff in H. destruct H as [Ck Cr].
  unfold spell. cbn [flat_map]. apply Forall_app. split; [|apply IH; exact Cr].
  unfold call_simple in Ck. unfold spell_call.
  destruct (nth_error cs (k_task k)) as [c|]; [|discriminate].
  rewrite !andb_true_iff in Ck. destruct Ck as [[[_ Pl] G] Is].
  constructor; [apply plain_not_ddash; exact Pl | eapply spell_items_clean; eauto].
Qed.

Lemma forall2_map_eq {A B} (f g : A -> B) : forall ks,
  Forall2 (fun k o => o = f k) ks (map g ks) -> map g ks = map f ks.
Proof.
  induction ks as [|k ks IH]; intros H; [reflexivity|].
  cbn [map] in *. inversion H as [|? ? ? ? E T]; subst. rewrite E, (IH T). reflexivity.
Qed.

(** ** The theorem *)

Theorem spell_roundtrip_simple cs ic inv :
  simple_guard cs ic inv = true ->
  exists r,
    parser_parse cs (Some ic) false (spell cs inv) = Ok r /\
    hd_error (pr_ctxs r) = Some (init_ctx ic) /\
    map obs_of_ctx (tl (pr_ctxs r)) = expected cs inv /\
    pr_unparsed r = [] /\ pr_remainder r = "".
Proof.
  unfold simple_guard. rewrite !andb_true_iff, negb_true_iff.
  intros [[[Pok Hi] Ne] Cs].
  destruct inv as [|k rest]; [discriminate|]. clear Ne.
  pose proof (spell_clean cs (k :: rest) Cs) as Cl.
  simpl in Cs. apply andb_true_iff in Cs. destruct Cs as [Ck Cr].
  pose proof Ck as Ck'. unfold call_simple in Ck'.
  destruct (nth_error cs (k_task k)) as [c|] eqn:N; [|discriminate].
  rewrite !andb_true_iff in Ck'. destruct Ck' as [[[Nm Pl] G] Is].
  unfold plain in Pl. rewrite negb_true_iff in Pl.
  set (p := mkP cs (Some ic) false). set (i0 := init_ctx ic).
  (* first task name *)
  pose proof (step_first_task p i0 (k_as k) c Hi Pl (named_find cs ic Pok k c N Nm)) as S0.
  assert (I0 : inert (MS i0 [] (init_ctx c) None false)) by exact I.
  destruct (call_items_steps cs ic k c [] None false N Ck I0) as [fl1 [got1 [S1 [I1 [Hm1 Ob1]]]]].
  destruct (calls_steps cs ic Pok rest [] (final_ctx cs k) fl1 got1 Cr I1 Hm1)
    as [fl2 [got2 [S2 [I2 [Hm2 Fa]]]]].
  set (dn := fst (run_calls cs [] (final_ctx cs k) rest)) in *.
  set (cu := snd (run_calls cs [] (final_ctx cs k) rest)) in *.
  destruct (finish_MS i0 dn cu fl2 got2 I2 Hm2) as [m' [Fi [Rc Un]]].
  assert (St : steps p (M0 i0) (spell cs (k :: rest)) (MS i0 dn cu fl2 got2)).
  { unfold spell. cbn [flat_map]. unfold spell_call at 1. rewrite N. cbn [app].
    econstructor; [exact S0|]. cbn [app]. eapply steps_app; [exact S1 | exact S2]. }
  pose proof (split_ddash_clean _ Cl) as Sd.
  assert (St' : steps p (M0 i0) (fst (split_ddash (spell cs (k :: rest)))) (MS i0 dn cu fl2 got2))
    by (rewrite Sd; exact St).
  pose proof (steps_parse p (spell cs (k :: rest)) (M0 i0) _ m'
                          (new_machine_M0 cs ic false Hi) St' Fi) as P.
  rewrite Sd in P. cbn [snd join] in P.
  eexists. split; [|split; [|split; [|split]]].
  - unfold parser_parse. rewrite Pok. exact P.
  - cbn [pr_ctxs]. rewrite Rc. reflexivity.
  - cbn [pr_ctxs]. rewrite Rc. cbn [tl].
    pose proof (run_calls_spec cs rest [] (final_ctx cs k)) as Rs. fold dn cu in Rs. rewrite Rs.
    cbn [app map expected]. f_equal; [exact Ob1|].
    rewrite map_map. apply (forall2_map_eq (expected_call cs) (fun k => obs_of_ctx (final_ctx cs k))).
    exact Fa.
  - cbn [pr_unparsed]. exact Un.
  - reflexivity.
Qed.

(** ** The same in the flagship shape: the model satisfies [spec_ok] *)

Lemma aval_eqb_refl v : aval_eqb v v = true.
Proof.
  destruct v as [|s|z|b|l]; simpl; auto using String.eqb_refl, Z.eqb_refl.
  - destruct b; reflexivity.
  - apply (list_eqb_eq String.eqb); [intros; apply String.eqb_eq | reflexivity].
Qed.

Lemma kwargs_eqb_refl d : kwargs_eqb d d = true.
Proof.
  unfold kwargs_eqb. induction d as [|[k v] d IH]; simpl; [reflexivity|].
  rewrite String.eqb_refl, aval_eqb_refl, IH. reflexivity.
Qed.

Lemma octxs_eqb_refl l : list_eqb octx_eqb l l = true.
Proof.
  induction l as [|[n kw] l IH]; simpl; [reflexivity|].
  unfold octx_eqb at 1. simpl. rewrite kwargs_eqb_refl, IH.
  destruct n; simpl; [rewrite String.eqb_refl|]; reflexivity.
Qed.

Theorem model_roundtrip_simple cs inv :
  simple_guard cs core_ctx inv = true -> model_roundtrip cs inv = true.
Proof.
  intros G. destruct (spell_roundtrip_simple cs core_ctx inv G) as [r [P [Hd [Tl [Un Rm]]]]].
  unfold model_roundtrip, spec_ok, model_parse. cbn [initial_of]. rewrite P.
  destruct (admissible cs inv); [|reflexivity].
  unfold obs_of_presult. cbn [o_ctxs o_unparsed o_remainder].
  destruct (pr_ctxs r) as [|c0 tasks]; [discriminate Hd|].
  cbn [map tl] in *. rewrite Tl, Un, Rm, octxs_eqb_refl. reflexivity.
Qed.

(** ** Non-vacuity *)
Definition ex_cs : list ctxspec :=
  [mkCtx (Some "build") ["b"]
     [mkArg ["name"; "n"] KStr (AStr "x") false false false None;
      mkArg ["jobs"; "j"] KInt (AInt 1%Z) false false false None;
      mkArg ["clean"; "c"] KBool (ABool false) false false false None;
      mkArg ["color"] KBool (ABool true) false false false None;
      mkArg ["inc-dir"; "i"] KList (AList []) false false false (Some "inc_dir")];
   mkCtx (Some "deploy") []
     [mkArg ["target"; "t"] KStr ANone false false false None]].

Definition ex_inv : invocation :=
  [mkCall 0 "b" [One (mkOcc 4 1 FNext (VS "a")); One (mkOcc 2 0 FBare (VB true));
                 One (mkOcc 1 0 FEq (VS "4")); One (mkOcc 4 0 FEq (VS "b"));
                 One (mkOcc 3 0 FInv (VB false)); One (mkOcc 0 1 FNext (VS "deploy"))];
   mkCall 1 "deploy" [One (mkOcc 0 1 FEq (VS "prod"))];
   mkCall 0 "build" []].

Lemma example_guard :
  simple_guard ex_cs core_ctx ex_inv = true /\ admissible ex_cs ex_inv = true /\
  spell ex_cs ex_inv = ["b"; "-i"; "a"; "--clean"; "--jobs=4"; "--inc-dir=b"; "--no-color";
                        "-n"; "deploy"; "deploy"; "-t=prod"; "build"].
Proof. repeat split; vm_compute; reflexivity. Qed.
