(** C01, wide instance, part 3: value agreement ([vals_ok]) and "no -- token"
    for every covered occurrence form. *)
From InvokeVerif Require Import Model.ParserModel Corr.C01Corr Proofs.ListFacts Proofs.C07_fuel
     Proofs.C01_steps Proofs.C01_tokens Proofs.C01_lookup Proofs.C01_occ Proofs.C01_roundtrip
     Proofs.C01_final
     Proofs.C01_form_glued Proofs.C01_form_counter Proofs.C01_form_pos Proofs.C01_form_optional
     Proofs.C01_occ_nm Proofs.C01_form_glued_nm Proofs.C01_form_counter_nm Proofs.C01_inv
     Proofs.C01_wide.
From Coq Require Import Lia.

(** ** a text value set on a value argument *)
Lemma run_occ_vals_str args o s r r' os :
  nth_error args (o_arg o) = Some r -> o_val o = VS s ->
  takes_value (r_spec r) = true ->
  set_value r (IStr s) true = Ok r' ->
  vals_ok os args -> vals_ok (os ++ [o]) (run_occ args o).
Proof.
  intros Nr Vo Tv SV V. unfold run_occ, occ_input. rewrite Nr, Vo, SV.
  intros j rj Nj. destruct (Nat.eq_dec (o_arg o) j) as [<-|Ne].
  - rewrite (nth_error_upd_nth_same _ _ _ _ Nr) in Nj. injection Nj as <-.
    destruct (set_value_props _ _ _ _ SV) as [Sp _].
    rewrite Sp, vafter_snoc. unfold vstep. rewrite Nat.eqb_refl. rewrite <- (V _ _ Nr).
    apply set_value_agrees.
    + unfold occ_input. now rewrite Vo.
    + unfold takes_value in Tv. destruct (a_kind (r_spec r)); try discriminate;
        destruct (a_incrementable (r_spec r)); try discriminate; reflexivity.
    + rewrite Vo. unfold takes_value in Tv. destruct (a_kind (r_spec r)); try discriminate.
  - rewrite (nth_error_upd_nth_other _ _ _ _ Ne) in Nj. rewrite vafter_snoc. unfold vstep.
    destruct (Nat.eqb (o_arg o) j) eqn:E; [apply Nat.eqb_eq in E; congruence|]. now apply V.
Qed.

(** ** counters: n bumps = + n *)
Lemma bump_countable v : countable v = true -> bump v = AInt (aval_to_Z v + 1)%Z.
Proof. destruct v as [|s|z|[|]|l]; try discriminate; reflexivity. Qed.

Lemma iter_occ_counter o : forall n args r,
  nth_error args (o_arg o) = Some r -> occ_input o = IBool true ->
  a_incrementable (r_spec r) = true -> countable (arg_value r) = true ->
  exists rn, nth_error (iter_occ n args o) (o_arg o) = Some rn /\ r_spec rn = r_spec r /\
             (forall j, j <> o_arg o -> nth_error (iter_occ n args o) j = nth_error args j) /\
             match n with
             | O => arg_value rn = arg_value r
             | S _ => arg_value rn = AInt (aval_to_Z (arg_value r) + Z.of_nat n)%Z
             end.
Proof.
  induction n as [|n IH]; intros args r Nr Hv Hi Hc.
  - exists r. cbn [iter_occ]. auto.
  - cbn [iter_occ].
    assert (E : run_occ args o = upd_nth (o_arg o) (mkRArg (r_spec r) true (bump (arg_value r))) args).
    { unfold run_occ. now rewrite Nr, Hv, (set_value_counter r Hi Hc). }
    set (r1 := mkRArg (r_spec r) true (bump (arg_value r))) in *.
    assert (N1 : nth_error (run_occ args o) (o_arg o) = Some r1)
      by (rewrite E; eapply nth_error_upd_nth_same; eauto).
    assert (V1 : arg_value r1 = AInt (aval_to_Z (arg_value r) + 1)%Z).
    { unfold arg_value at 1, r1. cbn [r_val r_spec]. rewrite (bump_countable _ Hc). reflexivity. }
    destruct (IH (run_occ args o) r1 N1 Hv Hi) as [rn [Nn [Sn [Fr Vn]]]].
    { rewrite V1. reflexivity. }
    exists rn. split; [exact Nn|]. split; [exact Sn|]. split.
    + intros j Hj. rewrite (Fr j Hj), E. apply nth_error_upd_nth_other. congruence.
    + destruct n as [|n'].
      * rewrite Vn, V1. reflexivity.
      * rewrite Vn, V1. cbn [aval_to_Z]. f_equal. lia.
Qed.

Lemma iter_occ_vals args o n r os :
  nth_error args (o_arg o) = Some r -> o_val o = VN n -> 1 <= n ->
  a_incrementable (r_spec r) = true -> countable (arg_value r) = true ->
  vals_ok os args -> vals_ok (os ++ [o]) (iter_occ n args o).
Proof.
  intros Nr Vo Hn Hi Hc V.
  assert (Hv : occ_input o = IBool true) by (unfold occ_input; now rewrite Vo).
  destruct (iter_occ_counter o n args r Nr Hv Hi Hc) as [rn [Nn [Sn [Fr Vn]]]].
  intros j rj Nj. rewrite vafter_snoc. unfold vstep.
  destruct (Nat.eq_dec (o_arg o) j) as [<-|Ne].
  - rewrite Nn in Nj. injection Nj as <-. rewrite Nat.eqb_refl, Sn, <- (V _ _ Nr).
    unfold apply_occ. rewrite Vo. destruct n as [|n']; [lia|]. exact Vn.
  - destruct (Nat.eqb (o_arg o) j) eqn:E; [apply Nat.eqb_eq in E; congruence|].
    rewrite (Fr j) in Nj by congruence. now apply V.
Qed.

Section WideVals.
Variable cs : list ctxspec.

Lemma first_missing_not_given : forall specs k given i,
  first_missing_from k specs given = Some i -> mem_nat i given = false.
Proof.
  induction specs as [|a specs IH]; intros k given i; cbn [first_missing_from]; [discriminate|].
  destruct (required_positional a && negb (existsb (Nat.eqb k) given)) eqn:E.
  - intros [= <-]. apply andb_true_iff in E. destruct E as [_ E]. now apply negb_true_iff in E.
  - apply IH.
Qed.

(** value agreement of one occurrence *)
Theorem one_vals c given o args os :
  guard_w c = true -> occ_wide cs c given o = true -> Inv_w c given args ->
  vals_ok os args -> vals_ok (os ++ [o]) (run_one args o).
Proof.
  intros G Os Iw V. pose proof Iw as [St [Co Gt]]. destruct (guard_w_parts c G) as [Gn _].
  pose proof (sn_shape _ _ _ St) as Sh.
  (* the common path for text values *)
  assert (Str : forall a s, nth_error (cx_args c) (o_arg o) = Some a -> o_val o = VS s ->
            takes_value a = true -> castable a s = true ->
            vals_ok (os ++ [o]) (run_one args o)).
  { intros a s Na Vo Tv Hint.
    destruct (nth_error_map_inv r_spec args (o_arg o) a) as [r [Nr Sr]]; [rewrite Sh; exact Na|].
    assert (Tv' : takes_value (r_spec r) = true) by (rewrite Sr; exact Tv).
    destruct (set_value_str r s Tv') as [r' [SV _]].
    { rewrite Sr. exact Hint. }
    { intros K. eapply (sn_list _ _ _ St); eauto. }
    unfold run_one. rewrite Vo. eapply run_occ_vals_str; eauto. }
  unfold occ_wide in Os. rewrite !orb_true_iff in Os.
  destruct Os as [[[[Os|Os]|Os]|Os]|Os].
  - (* simple *)
    destruct (simple_cases c given o Os) as [a [Na [[b [Vo _]]|[s [Vo [_ [Tv Hint]]]]]]].
    + unfold run_one. rewrite Vo. now apply (run_occ_vals_nm c given).
    + now apply (Str a s).
  - (* glued *)
    unfold occ_glued in Os. destruct (nth_error (cx_args c) (o_arg o)) as [a|] eqn:Na; [|discriminate].
    apply andb_true_iff in Os. destruct Os as [_ Os].
    destruct (o_form o); try discriminate. destruct (o_val o) as [b|n|s|] eqn:Vo; try discriminate.
    rewrite !andb_true_iff in Os. destruct Os as [[[[[[[Tv _] _] _] _] _] Hint] _].
    apply (Str a s eq_refl eq_refl Tv). exact Hint.
  - (* counter *)
    unfold occ_counter in Os. destruct (nth_error (cx_args c) (o_arg o)) as [a|] eqn:Na; [|discriminate].
    rewrite !andb_true_iff in Os. destruct Os as [[[_ Hinc] _] Os].
    destruct (nth_error_map_inv r_spec args (o_arg o) a) as [r [Nr Sr]]; [rewrite Sh; exact Na|].
    assert (Hi : a_incrementable (r_spec r) = true) by (rewrite Sr; exact Hinc).
    assert (Hc : countable (arg_value r) = true) by (eapply Co; eauto).
    assert (Vn : exists n, o_val o = VN n /\ 1 <= n).
    { destruct (o_form o); try discriminate; destruct (o_val o) as [b|n|s|]; try discriminate;
        exists n; split; auto.
      - now apply Nat.leb_le.
      - apply andb_true_iff in Os. destruct Os as [Os _]. now apply Nat.leb_le. }
    destruct Vn as [n [Vo Hn]]. unfold run_one. rewrite Vo.
    eapply iter_occ_vals; eauto.
  - (* positional *)
    unfold occ_pos_w in Os. rewrite !andb_true_iff in Os. destruct Os as [[Op _] _].
    unfold occ_positional in Op. destruct (nth_error (cx_args c) (o_arg o)) as [a|] eqn:Na; [|discriminate].
    destruct (o_form o); try discriminate. destruct (o_val o) as [b|n|s|] eqn:Vo; try discriminate.
    rewrite !andb_true_iff in Op. destruct Op as [[[_ Tv] _] Hint].
    apply (Str a s eq_refl eq_refl Tv). exact Hint.
  - (* optional flag with its value *)
    unfold occ_optval in Os. destruct (nth_error (cx_args c) (o_arg o)) as [a|] eqn:Na; [|discriminate].
    apply andb_true_iff in Os. destruct Os as [_ Os].
    destruct (o_form o); try discriminate; destruct (o_val o) as [b|n|s|] eqn:Vo; try discriminate;
      rewrite !andb_true_iff in Os; destruct Os as [[[[[[[Tv _] _] _] _] Hint] _] _];
      apply (Str a s eq_refl eq_refl Tv); exact Hint.
Qed.
End WideVals.
