(** C16, the view after the load -- generic part, at the level of shapes.

    A level [e] whose defined paths are all defined, with the same kind, in the
    configuration [t] it was computed against ([sub e t]; this is what
    "never creates settings" gives for the environment level) can be inserted
    anywhere in the merge order: the merge still succeeds, and the view changes
    only at the leaves [e] names that no higher level defines.  Reuses the
    config engineer's [merge_all_shape] (C03) and [obliterate_shape] (C06). *)
From InvokeVerif Require Import Common.Tree Common.StrUtil Model.MergeModel Model.ConfigModel
     Spec.C03Spec Proofs.ListFacts Proofs.TreeFacts Proofs.C03_merge Proofs.C03_levels
     Proofs.C06_shapes Proofs.C16_env.
From InvokeVerif Require Spec.C16Spec.

(** * 1. Paths: [lookup], [leaf_at], [defined_in], [C16Spec.all_paths] vs [shape_at] *)

Lemma lookup_app : forall p r t,
  lookup (p ++ r) t = match lookup p t with Some y => lookup r y | None => None end.
Proof.
  induction p as [|k p IH]; intros r t; [reflexivity|].
  simpl. destruct t as [v|kids]; [reflexivity|].
  destruct (get k kids) as [c|]; [apply IH | reflexivity].
Qed.

Lemma leaf_at_shape p t x : leaf_at p t = Some x <-> shape_at p t = Some (SLeaf x).
Proof.
  unfold leaf_at, shape_at. destruct (lookup p t) as [[v|kids]|]; simpl; split; intros H;
    try discriminate; inversion H; reflexivity.
Qed.

Lemma leaf_at_none_shape p t :
  leaf_at p t = None <-> (shape_at p t = None \/ shape_at p t = Some SNode).
Proof.
  unfold leaf_at, shape_at. destruct (lookup p t) as [[v|kids]|]; simpl; split; intros H;
    auto; try discriminate; destruct H; discriminate.
Qed.

Lemma defined_in_shape p t :
  C16Spec.defined_in p t = match shape_at p t with Some _ => true | None => false end.
Proof. unfold C16Spec.defined_in, shape_at. destruct (lookup p t); reflexivity. Qed.

Lemma existsb_defined p hi :
  existsb (C16Spec.defined_in p) hi = match oracle p hi with Some _ => true | None => false end.
Proof.
  induction hi as [|l rest IH]; [reflexivity|].
  cbn [existsb oracle]. rewrite IH, defined_in_shape.
  destruct (oracle p rest); [apply orb_true_r | apply orb_false_r].
Qed.

Definition all_paths16_kids (kids : dict) : list path :=
  flat_map (fun kc => [fst kc] :: map (cons (fst kc)) (C16Spec.all_paths (snd kc))) kids.

Lemma all_paths16_Node kids : C16Spec.all_paths (Node kids) = all_paths16_kids kids.
Proof.
  cbn [C16Spec.all_paths]. unfold all_paths16_kids.
  induction kids as [|[k c] kids IH]; [reflexivity|].
  cbn [flat_map fst snd]. rewrite <- IH. reflexivity.
Qed.

(** The listed paths of a well-formed tree are exactly the non-empty defined paths. *)
Lemma all_paths16_iff : forall t, wf t = true ->
  forall p, In p (C16Spec.all_paths t) <-> p <> [] /\ shape_at p t <> None.
Proof.
  induction t as [v | kids IH] using tree_ind'; intros Hwf p.
  - simpl. split; [intros [] | intros [Hne H]]. destruct p; [congruence|]. apply H. reflexivity.
  - apply wf_Node_inv in Hwf as [ND Hk]. rewrite Forall_forall in IH, Hk.
    rewrite all_paths16_Node. unfold all_paths16_kids. rewrite in_flat_map. split.
    + intros [[k c] [Hin Hp]]. cbn [fst snd] in Hp.
      pose proof (in_get _ _ _ ND Hin) as G. destruct Hp as [Hp | Hp].
      * subst p. split; [discriminate|]. rewrite shape_at_cons_Node, G. discriminate.
      * apply in_map_iff in Hp as [q [Eq Hq]]. subst p. split; [discriminate|].
        rewrite shape_at_cons_Node, G.
        apply (IH (k, c) Hin (Hk (k, c) Hin) q). exact Hq.
    + intros [Hne H]. destruct p as [|k q]; [congruence|].
      rewrite shape_at_cons_Node in H. destruct (get k kids) as [c|] eqn:G; [|congruence].
      pose proof (get_in _ _ _ G) as Hin. exists (k, c). split; [assumption|]. cbn [fst snd].
      destruct q as [|k' q']; [left; reflexivity|]. right. apply in_map.
      apply (IH (k, c) Hin (Hk (k, c) Hin)). split; [discriminate | exact H].
Qed.

Lemma path_in_iff p l : C16Spec.path_in p l = true <-> In p l.
Proof.
  unfold C16Spec.path_in. rewrite existsb_exists. split.
  - intros [q [Hq E]]. apply path_eqb_eq in E. subst q. exact Hq.
  - intros H. exists p. split; [assumption | apply path_eqb_eq; reflexivity].
Qed.

Lemma subset_paths_intro a b : (forall p, In p a -> In p b) -> C16Spec.subset_paths a b = true.
Proof.
  intros H. unfold C16Spec.subset_paths. apply forallb_forall. intros p Hp.
  apply path_in_iff. apply H. exact Hp.
Qed.

(** * 2. The oracle over an appended list, and where its answer comes from *)

Lemma oracle_app p a b : oracle p (a ++ b) = orelse (oracle p b) (oracle p a).
Proof.
  induction a as [|l a IH]; simpl.
  - rewrite orelse_none_r. reflexivity.
  - rewrite IH. destruct (oracle p b); simpl; [reflexivity|]. destruct (oracle p a); reflexivity.
Qed.

Lemma oracle_in p ls s : oracle p ls = Some s -> exists L, In L ls /\ shape_at p L = Some s.
Proof.
  induction ls as [|l rest IH]; simpl; [discriminate|].
  destruct (oracle p rest) as [s'|].
  - intros H. destruct (IH H) as [L [HL E]]. exists L. auto.
  - intros H. exists l. auto.
Qed.

(** * 3. Kinds; a level that only names what exists *)

Definition same_kind (a b : shape) : Prop :=
  match a, b with
  | SLeaf _, SLeaf _ => True
  | SNode, SNode => True
  | _, _ => False
  end.

(** every non-root path [e] defines is defined in [t], with the same kind *)
Definition sub (e t : tree) : Prop :=
  forall p s, p <> [] -> shape_at p e = Some s ->
    exists s', shape_at p t = Some s' /\ same_kind s s'.

Lemma kind_ok_refl a : kind_ok a a.
Proof. destruct a as [[?|]|]; exact I. Qed.

Lemma agree_refl a : agree a a.
Proof. intros p. apply kind_ok_refl. Qed.

Lemma kind_ok_same_kind s s' b : same_kind s s' -> kind_ok (Some s') b -> kind_ok (Some s) b.
Proof. destruct s, s', b as [[?|]|]; simpl; auto. Qed.

(** A non-empty-sections tree has a leaf under every defined non-root path. *)
Lemma ne_has_leaf : forall c, ne c = true -> exists r w, leaf_at r c = Some w.
Proof.
  induction c as [v | kids IH] using tree_ind'; intros H.
  - exists [], v. reflexivity.
  - destruct kids as [|[k c] rest]; [discriminate|].
    change (ne (Node ((k, c) :: rest))) with (no_empty_sections (Node ((k, c) :: rest))) in H.
    rewrite no_empty_Node in H. cbn [forallb snd] in H. apply andb_true_iff in H as [Hc _].
    inversion IH as [|? ? IHc _]; subst. cbn [snd] in IHc.
    destruct (IHc Hc) as [r [w E]]. exists (k :: r), w.
    rewrite leaf_at_cons. cbn [get]. rewrite String.eqb_refl. exact E.
Qed.

Lemma nes_lookup : forall p t c,
  no_empty_sections t = true -> p <> [] -> lookup p t = Some c -> ne c = true.
Proof.
  induction p as [|k p IH]; intros t c Ht Hne L; [congruence|].
  destruct t as [v|kids]; [discriminate|]. simpl in L.
  destruct (get k kids) as [c0|] eqn:G; [|discriminate].
  rewrite no_empty_Node, forallb_forall in Ht.
  pose proof (Ht (k, c0) (get_in _ _ _ G)) as Hc0. cbn [snd] in Hc0.
  destruct p as [|k' p'].
  - simpl in L. inversion L; subst. exact Hc0.
  - apply (IH c0 c); [|discriminate | exact L].
    destruct c0 as [v|[|x l]]; [discriminate | discriminate | exact Hc0].
Qed.

(** "Never creates" (stated on leaves) gives [sub] for a well-formed level
    without empty sections. *)
Lemma sub_of_leaves e t :
  wf e = true -> no_empty_sections e = true -> wf t = true ->
  (forall q w, In (q, w) (leaf_paths e) -> exists old, In (q, old) (leaf_paths t)) ->
  sub e t.
Proof.
  intros We Ne Wt Hl p s Hp Hs.
  unfold shape_at in Hs. destruct (lookup p e) as [c|] eqn:L; [|discriminate].
  inversion Hs; subst s. clear Hs.
  pose proof (nes_lookup p e c Ne Hp L) as Hc.
  destruct (ne_has_leaf c Hc) as [r [w Er]].
  assert (Epr : leaf_at (p ++ r) e = Some w).
  { unfold leaf_at in *. rewrite lookup_app, L. exact Er. }
  apply (leaf_paths_leaf_at e We) in Epr. destruct (Hl _ _ Epr) as [old Hold].
  apply (leaf_paths_leaf_at t Wt) in Hold. unfold leaf_at in Hold.
  rewrite lookup_app in Hold. unfold shape_at.
  destruct (lookup p t) as [y|]; [|discriminate].
  exists (shape_of y). split; [reflexivity|].
  destruct c as [v|ck].
  - rewrite leaf_at_Leaf in Er. destruct r; [|discriminate]. simpl in Hold.
    destruct y; [exact I | discriminate].
  - destruct r as [|k r]; [discriminate|]. destruct y; [discriminate | exact I].
Qed.

(** * 3b. A merge that succeeded was a merge of type-consistent levels

    (converse of the C03 guard: [merge_dicts] raises exactly on a leaf/section
    clash, so from the success of the sequential merge one can read off that the
    levels agree pairwise -- no separate type-consistency guard is needed) *)

Lemma agree_leaves x y : agree (Leaf x) (Leaf y).
Proof. intros [|k p]; exact I. Qed.

Definition agree_IH (u : tree) : Prop :=
  wf u = true -> forall base m, wf (Node base) = true -> is_node u = true ->
  merge_dicts base u = Ok m -> agree (Node base) u.

Lemma merge_list_agree us :
  Forall (fun kt => agree_IH (snd kt)) us ->
  NoDup (keys us) -> Forall (fun kt => wf (snd kt) = true) us ->
  forall base m, wf (Node base) = true -> merge_list us base = Ok m ->
    forall k v bv, get k us = Some v -> get k base = Some bv -> agree bv v.
Proof.
  induction us as [|[k0 v0] rest IHl]; intros HIH ND Hwf base m Hb E k v bv Gu Gb;
    [discriminate|].
  inversion HIH as [|? ? IH0 HIHr]; subst. cbn [snd] in IH0.
  inversion ND as [|? ? Hnin NDr]; subst.
  inversion Hwf as [|? ? Hwf0 Hwfr]; subst. cbn [snd] in Hwf0.
  cbn [merge_list] in E. destruct (merge_step base k0 v0) as [b'|] eqn:Es; [|discriminate].
  (* the first step succeeded: agreement at k0, and the new base is well-formed *)
  assert (H0 : (forall bv0, get k0 base = Some bv0 -> agree bv0 v0) /\
               exists r0, b' = set k0 r0 base /\ wf r0 = true).
  { unfold merge_step in Es. destruct (get k0 base) as [bv0|] eqn:G0.
    - destruct v0 as [x|vk], bv0 as [y|bk]; try discriminate.
      + inversion Es; subst b'. split.
        * intros ? H; inversion H; subst. apply agree_leaves.
        * exists (Leaf x). split; reflexivity.
      + destruct (merge_dicts bk (Node vk)) as [m0|] eqn:Em; [|discriminate].
        inversion Es; subst b'.
        pose proof (wf_get _ _ _ Hb G0) as Wbk.
        pose proof (IH0 Hwf0 bk m0 Wbk eq_refl Em) as Hag.
        split.
        * intros ? H; inversion H; subst. exact Hag.
        * exists (Node m0). split; [reflexivity|].
          destruct (merge_lookup bk vk Wbk Hwf0 Hag) as [m1 [E1 [W1 _]]].
          rewrite Em in E1. inversion E1; subst. exact W1.
    - split; [intros ? H; discriminate|]. destruct v0 as [x|vk].
      + inversion Es; subst b'. exists (Leaf x). split; reflexivity.
      + destruct (merge_dicts [] (Node vk)) as [m0|] eqn:Em; [|discriminate].
        inversion Es; subst b'. exists (Node m0). split; [reflexivity|].
        destruct (merge_lookup [] vk eq_refl Hwf0 (agree_empty_node vk)) as [m1 [E1 [W1 _]]].
        rewrite Em in E1. inversion E1; subst. exact W1. }
  destruct H0 as [Hag0 [r0 [-> W0]]].
  cbn [get] in Gu. destruct (String.eqb k k0) eqn:Ek.
  - apply String.eqb_eq in Ek; subst k. inversion Gu; subst v. apply Hag0. exact Gb.
  - apply (IHl HIHr NDr Hwfr (set k0 r0 base) m (wf_Node_set _ _ _ W0 Hb) E k v bv Gu).
    rewrite get_set, Ek. exact Gb.
Qed.

Theorem merge_agree : forall u, agree_IH u.
Proof.
  induction u as [v | us IH] using tree_ind'; intros Hwf base m Hb Hn E; [discriminate|].
  rewrite merge_dicts_Node in E. apply wf_Node_inv in Hwf as [ND Hk].
  pose proof (merge_list_agree us IH ND Hk base m Hb E) as H.
  intros [|k p]; [exact I|].
  rewrite !shape_at_cons_Node.
  destruct (get k base) as [bv|] eqn:Gb; [|exact I].
  destruct (get k us) as [v|] eqn:Gu; [|destruct (shape_at p bv) as [[?|]|]; exact I].
  exact (H k v bv Gu Gb p).
Qed.

Lemma merge_all_agree : forall ls acc m,
  wf (Node acc) = true ->
  (forall l, In l ls -> wf l = true /\ is_node l = true) ->
  merge_all ls acc = Ok m ->
  (forall l, In l ls -> agree (Node acc) l) /\
  (forall a b, In a ls -> In b ls -> agree a b).
Proof.
  induction ls as [|l rest IH]; intros acc m Hacc Hl E.
  - split; [intros ? [] | intros ? ? []].
  - destruct (Hl l (or_introl eq_refl)) as [Wl Nl].
    cbn [merge_all] in E. destruct (merge_dicts acc l) as [a1|] eqn:E1; [|discriminate].
    pose proof (merge_agree l Wl acc a1 Hacc Nl E1) as Al.
    destruct l as [v|us]; [discriminate|].
    destruct (merge_lookup acc us Hacc Wl Al) as [m1 [E1' [W1 S1]]].
    rewrite E1 in E1'. inversion E1'; subst m1.
    destruct (IH a1 m W1 (fun l' H => Hl l' (or_intror H)) E) as [Ha1 Hp].
    assert (Hacc' : forall l', In l' rest -> agree (Node acc) l').
    { intros l' Hin p. pose proof (Ha1 l' Hin p) as H1. rewrite S1 in H1.
      pose proof (Al p) as H2.
      destruct (shape_at p (Node us)) as [[?|]|], (shape_at p (Node acc)) as [[?|]|],
               (shape_at p l') as [[?|]|]; simpl in *; auto. }
    assert (Hl' : forall l', In l' rest -> agree (Node us) l').
    { intros l' Hin p. pose proof (Ha1 l' Hin p) as H1. rewrite S1 in H1.
      destruct (shape_at p (Node us)) as [[?|]|]; simpl in *; auto. }
    split.
    + intros l' [<-|Hin]; [exact Al | apply Hacc'; exact Hin].
    + intros a b [<-|Ha] [<-|Hb].
      * apply agree_refl.
      * apply Hl'; assumption.
      * apply agree_sym, Hl'; assumption.
      * apply Hp; assumption.
Qed.

(** * 4. Inserting such a level into the merge *)

Lemma in_mid {A} (a : A) lo x hi : In a (lo ++ x :: hi) <-> a = x \/ In a (lo ++ hi).
Proof. rewrite !in_app_iff. simpl. intuition. Qed.

Lemma shape_root_Node d : shape_at [] (Node d) = Some SNode.
Proof. reflexivity. Qed.

Lemma agree_empty_isnode l : is_node l = true -> agree (Node []) l.
Proof. destruct l; [discriminate|]. intros _. apply agree_empty_node. Qed.

(** merge of agreeing well-formed section levels from the empty dict *)
Lemma merge_all_oracle ls :
  (forall l, In l ls -> wf l = true /\ is_node l = true) ->
  (forall a b, In a ls -> In b ls -> agree a b) ->
  exists m, merge_all ls [] = Ok m /\ wf (Node m) = true /\
            forall p, p <> [] -> shape_at p (Node m) = oracle p ls.
Proof.
  intros Hl Hpair.
  destruct (merge_all_shape ls [] eq_refl) as [m [Em [Wm Sm]]].
  - intros l Hin. destruct (Hl l Hin) as [W N]. split; [assumption|]. split; [assumption|].
    apply agree_empty_isnode; assumption.
  - exact Hpair.
  - exists m. split; [assumption|]. split; [assumption|]. intros p Hp.
    rewrite Sm, shape_at_empty by assumption. apply orelse_none_r.
Qed.

Section Insert.
  Variables (lo hi : list tree) (e D : tree) (d0 : dict).
  Hypothesis Hl : forall l, In l (lo ++ hi) -> wf l = true /\ is_node l = true.
  Hypothesis Hpair : forall a b, In a (lo ++ hi) -> In b (lo ++ hi) -> agree a b.
  Hypothesis HD : wf D = true.
  Hypothesis We : wf e = true.
  Hypothesis Ne : is_node e = true.
  Hypothesis E0 : merge_all (lo ++ hi) [] = Ok d0.
  Hypothesis Hsub : sub e (Node (obliterate d0 D)).

  Let t := Node (obliterate d0 D).

  Lemma pre_shape :
    wf t = true /\
    forall q, q <> [] ->
      shape_at q t = if maskedt D q then None else orelse (oracle q hi) (oracle q lo).
  Proof.
    destruct (merge_all_oracle (lo ++ hi) Hl Hpair) as [m [Em [Wm Sm]]].
    rewrite E0 in Em. inversion Em; subst m.
    destruct (obliterate_shape D HD d0 Wm) as [Wt St]. split; [exact Wt|].
    intros q Hq. unfold t. rewrite St, Sm, oracle_app by assumption. reflexivity.
  Qed.

  Lemma env_agrees : forall l, In l (lo ++ hi) -> agree e l.
  Proof.
    intros l Hin p. destruct (Hl l Hin) as [_ Nl].
    destruct p as [|k p'].
    - destruct e; [discriminate|]. destruct l; [discriminate|]. exact I.
    - set (p := k :: p'). assert (Hp : p <> []) by discriminate.
      destruct (shape_at p e) as [s|] eqn:Es; [|exact I].
      destruct (Hsub p s Hp Es) as [s' [Et Hk]].
      destruct pre_shape as [_ St]. fold t in Et. rewrite (St p Hp) in Et.
      destruct (maskedt D p); [discriminate|].
      rewrite <- oracle_app in Et. apply oracle_in in Et as [L [HL EL]].
      pose proof (Hpair L l HL Hin p) as Hag. rewrite EL in Hag.
      exact (kind_ok_same_kind s s' _ Hk Hag).
  Qed.

  (** the merge with [e] inserted cannot fail, and the view is as predicted *)
  Lemma insert_shape :
    exists d1, merge_all (lo ++ e :: hi) [] = Ok d1 /\
      wf (Node (obliterate d1 D)) = true /\
      forall q, q <> [] ->
        shape_at q (Node (obliterate d1 D)) =
        if maskedt D q then None
        else orelse (oracle q hi) (orelse (shape_at q e) (oracle q lo)).
  Proof.
    destruct (merge_all_oracle (lo ++ e :: hi)) as [m [Em [Wm Sm]]].
    - intros l Hin. apply in_mid in Hin as [->|Hin]; [split; assumption | apply Hl; assumption].
    - intros a b Ha Hb. apply in_mid in Ha as [->|Ha]; apply in_mid in Hb as [->|Hb].
      + apply agree_refl.
      + apply env_agrees; assumption.
      + apply agree_sym, env_agrees; assumption.
      + apply Hpair; assumption.
    - exists m. split; [assumption|].
      destruct (obliterate_shape D HD m Wm) as [Wv Sv]. split; [exact Wv|].
      intros q Hq. rewrite Sv, Sm, oracle_app by assumption. rewrite oracle_cons, orelse_assoc. reflexivity.
  Qed.
End Insert.

(** * 5. From the two shape descriptions to the executable [spec_view] *)

Section Assemble.
  Variables (hi : list tree) (d : dict) (t v : tree).
  Variable m : path -> bool.
  Variable A : path -> option shape.
  Hypothesis Wt : wf t = true.
  Hypothesis Wv : wf v = true.
  Hypothesis Nt : is_node t = true.
  Hypothesis Hsub : sub (Node d) t.
  Hypothesis St : forall q, q <> [] ->
    shape_at q t = if m q then None else orelse (oracle q hi) (A q).
  Hypothesis Sv : forall q, q <> [] ->
    shape_at q v = if m q then None else orelse (oracle q hi) (orelse (shape_at q (Node d)) (A q)).

  Lemma same_defined q : q <> [] -> (shape_at q v = None <-> shape_at q t = None).
  Proof.
    intros Hq. pose proof (St q Hq) as E1. pose proof (Sv q Hq) as E2.
    destruct (m q); [rewrite E1, E2; tauto|].
    destruct (oracle q hi) as [s|]; [rewrite E1, E2; simpl; split; discriminate|].
    simpl in E1, E2.
    destruct (shape_at q (Node d)) as [s|] eqn:Ee; [|rewrite E1, E2; tauto].
    destruct (Hsub q s Hq Ee) as [s' [Et _]]. simpl in E2. rewrite E2, Et. split; discriminate.
  Qed.

  Lemma leaf_reads p x :
    p <> [] -> shape_at p t = Some (SLeaf x) ->
    leaf_at p v = Some (match leaf_at p (Node d) with
                        | Some w => if existsb (C16Spec.defined_in p) hi then x else w
                        | None => x
                        end).
  Proof.
    intros Hp Et. apply leaf_at_shape.
    pose proof (St p Hp) as E1. pose proof (Sv p Hp) as E2. rewrite Et in E1.
    rewrite existsb_defined.
    destruct (m p); [discriminate|].
    destruct (oracle p hi) as [s|].
    - simpl in E1, E2. rewrite E2, <- E1. destruct (leaf_at p (Node d)); reflexivity.
    - simpl in E1, E2. destruct (leaf_at p (Node d)) as [w|] eqn:El.
      + apply leaf_at_shape in El. rewrite El in E2. exact E2.
      + apply leaf_at_none_shape in El as [El|El].
        * rewrite El in E2. simpl in E2. rewrite E2, <- E1. reflexivity.
        * destruct (Hsub p SNode Hp El) as [s' [Et' Hk]]. rewrite Et in Et'.
          inversion Et'; subst s'. destruct Hk.
  Qed.

  Theorem spec_view_intro : C16Spec.spec_view t hi d v = true.
  Proof.
    unfold C16Spec.spec_view. rewrite !andb_true_iff. split; [split|].
    - apply subset_paths_intro. intros p Hp.
      apply (all_paths16_iff v Wv) in Hp as [Hne Hd]. apply (all_paths16_iff t Wt).
      split; [assumption|]. intros H. apply Hd. apply same_defined; assumption.
    - apply subset_paths_intro. intros p Hp.
      apply (all_paths16_iff t Wt) in Hp as [Hne Hd]. apply (all_paths16_iff v Wv).
      split; [assumption|]. intros H. apply Hd. apply same_defined; assumption.
    - apply forallb_forall. intros [p x] Hin. cbn [fst snd].
      apply (leaf_paths_leaf_at t Wt) in Hin.
      assert (Hp : p <> []).
      { intros ->. destruct t; [discriminate | discriminate]. }
      apply leaf_at_shape in Hin. rewrite (leaf_reads p x Hp Hin).
      unfold C16Spec.opt_value_eqb. apply value_eqb_eq. reflexivity.
  Qed.
End Assemble.
