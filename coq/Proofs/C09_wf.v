(** Proofs for C09: well-formed signatures give statically sane arguments with
    pairwise distinct names (taken_names argument), hence the closed form. *)
From InvokeVerif Require Import Model.SigCtxModel Spec.C09Spec Proofs.C09_facts Proofs.C09_sig Proofs.C09_ctx.
From Coq Require Import Lia Permutation.

Lemma all_chars_contains f a s : all_chars f s = true -> f a = false -> contains_char a s = false.
Proof.
  induction s as [|c s IH]; simpl; [reflexivity|].
  intros H Fa. apply andb_true_iff in H. destruct H as [H1 H2].
  rewrite (IH H2 Fa). destruct (Ascii.eqb c a) eqn:E; [|reflexivity].
  apply Ascii.eqb_eq in E. subst. congruence.
Qed.

Lemma ident_no_dash n : ident_ok n = true -> contains_char dash n = false.
Proof.
  unfold ident_ok. intros H. apply andb_true_iff in H. destruct H as [_ H].
  apply (all_chars_contains _ _ _ H). reflexivity.
Qed.

Lemma contains_neq c a s : contains_char c s = true -> contains_char a s = false -> Ascii.eqb c a = false.
Proof.
  intros H1 H2. destruct (Ascii.eqb c a) eqn:E; [|reflexivity].
  apply Ascii.eqb_eq in E. subst. congruence.
Qed.

(** * static facts of one argument *)
Lemma static_arg_opts dc pos p taken :
  ident_ok (p_name p) = true ->
  let a := arg_opts dc pos p taken in
  a_names a <> [] /\ NoDup (a_names a) /\ Forall clean (a_names a) /\
  Forall (fun n => contains_char us n = true) (attrs_of a) /\
  attrs_of a = (if contains_char us (p_name p) then [p_name p] else []).
Proof.
  intros Hid a.
  assert (Cd : clean (dashed (p_name p))).
  { split; [apply translate_no_us | apply translate_not_dash, ident_no_dash, Hid]. }
  assert (At : attrs_of a = (if contains_char us (p_name p) then [p_name p] else [])).
  { unfold attrs_of, a. rewrite attr_arg_opts. destruct (contains_char us (p_name p)) eqn:E; [|reflexivity].
    destruct (p_name p); [discriminate | reflexivity]. }
  destruct (names_arg_opts dc pos p taken) as [E|[c (E & _ & H1 & H2 & _ & H3)]]; fold a in E; rewrite E.
  - repeat split; try discriminate.
    + constructor; [simpl; tauto | constructor].
    + now constructor.
    + rewrite At. destruct (contains_char us (p_name p)) eqn:Eu; constructor; [assumption | constructor].
    + assumption.
  - repeat split; try discriminate.
    + constructor; [|constructor; [simpl; tauto | constructor]].
      simpl. intros [C|[]]. now apply H2.
    + constructor; [assumption|]. constructor; [|constructor]. split.
      * simpl. rewrite orb_false_r. apply (contains_neq _ _ _ H3). apply Cd.
      * intros C. injection C as ->. discriminate.
    + rewrite At. destruct (contains_char us (p_name p)) eqn:Eu; constructor; [assumption | constructor].
    + assumption.
Qed.

Lemma nodup_flat_filter {A} (f : A -> bool) (g : A -> string) l :
  NoDup (map g l) -> NoDup (flat_map (fun x => if f x then [g x] else []) l).
Proof.
  induction l as [|a l IH]; simpl; intros ND; [constructor|].
  inversion ND as [|? ? N1 N2]; subst. destruct (f a); simpl; [|now apply IH].
  constructor; [|now apply IH]. intros C. apply N1.
  apply in_flat_map in C. destruct C as [x [Hx C]]. destruct (f x); [|destruct C].
  destruct C as [<-|[]]. now apply in_map.
Qed.

Lemma static_build dc pos ps : forall taken,
  Forall (fun p => ident_ok (p_name p) = true) ps -> NoDup (map p_name ps) ->
  static_ok (build_args dc pos ps taken).
Proof.
  intros taken F ND.
  assert (At : forall taken, flat_map attrs_of (build_args dc pos ps taken) =
               flat_map (fun p => if contains_char us (p_name p) then [p_name p] else []) ps).
  { clear ND. induction ps as [|p ps IH]; intros t; simpl; [reflexivity|].
    inversion F as [|? ? Hp F']; subst.
    destruct (static_arg_opts dc pos p t Hp) as (_ & _ & _ & _ & E). now rewrite E, IH. }
  constructor.
  5:{ rewrite At. now apply nodup_flat_filter. }
  all: clear At ND; revert taken; induction ps as [|p ps IH]; intros t; simpl; constructor;
    inversion F as [|? ? Hp F']; subst; try (now apply IH);
    destruct (static_arg_opts dc pos p t Hp) as (H1 & H2 & H3 & H4 & _); assumption.
Qed.

Lemma static_perm l l' : Permutation l l' -> static_ok l -> static_ok l'.
Proof.
  intros P [S1 S2 S3 S4 S5]. constructor.
  - now apply (Permutation_Forall P).
  - now apply (Permutation_Forall P).
  - now apply (Permutation_Forall P).
  - now apply (Permutation_Forall P).
  - eapply Permutation_NoDup; [apply Permutation_flat_map, P | assumption].
Qed.

Lemma forallb_Forall {A} (f : A -> bool) l : forallb f l = true -> Forall (fun x => f x = true) l.
Proof. intros H. apply Forall_forall. now apply forallb_forall. Qed.

Lemma wf_sig_parts s : wf_sig s = true ->
  NoDup (map p_name (s_params s)) /\
  Forall (fun p => ident_ok (p_name p) = true) (s_params s) /\
  NoDup (map (fun p => dashed (p_name p)) (s_params s)).
Proof.
  unfold wf_sig, dashed_clash. intros H.
  apply andb_true_iff in H. destruct H as [H H3]. apply andb_true_iff in H. destruct H as [H1 H2].
  apply negb_true_iff in H1, H3. repeat split.
  - now apply has_dup_NoDup.
  - now apply forallb_Forall.
  - now apply has_dup_NoDup.
Qed.

Theorem static_get_arguments s : wf_sig s = true -> static_ok (get_arguments s).
Proof.
  intros W. destruct (wf_sig_parts s W) as (W1 & W2 & _).
  eapply static_perm; [apply Permutation_sym, get_arguments_perm|].
  now apply static_build.
Qed.

(** * the taken_names argument: names never collide.  Since d208a4d
    taken_names also holds every parameter's dashed spelling, so an automatic
    short flag can never be a later parameter's command-line name. *)
Section Build.
  Variable dc : deco.
  Variable pos : list string.
  Variable all : list param.
  Hypothesis Hdash : NoDup (map (fun p => dashed (p_name p)) all).

  Definition is_short (x : string) : Prop :=
    ~ In x (map (fun p => dashed (p_name p)) all).

  Lemma build_nodup : forall ps pre taken seen,
    all = pre ++ ps ->
    incl (map (fun p => dashed (p_name p)) all) taken -> incl seen taken -> NoDup seen ->
    (forall x, In x seen -> In x (map (fun p => dashed (p_name p)) pre) \/ is_short x) ->
    NoDup (seen ++ flat_map a_names (build_args dc pos ps taken)).
  Proof.
    induction ps as [|p ps IH]; intros pre taken seen Hall Ht Hs ND Hseen; cbn [build_args flat_map].
    - now rewrite app_nil_r.
    - set (a := arg_opts dc pos p taken). set (d := dashed (p_name p)).
      assert (Hp : In p all) by (rewrite Hall; apply in_or_app; right; now left).
      assert (Dall : In d (map (fun p => dashed (p_name p)) all))
        by (unfold d; apply in_map_iff; now exists p).
      assert (Dfresh : ~ In d seen).
      { intros C. destruct (Hseen _ C) as [C'|Nin].
        - rewrite Hall, map_app in Hdash. simpl in Hdash.
          apply (NoDup_app_disjoint _ _ d Hdash); [now left | assumption].
        - now apply Nin. }
      assert (Hall' : all = (pre ++ [p]) ++ ps) by now rewrite <- app_assoc.
      assert (Seen' : forall x, In x seen ->
                In x (map (fun p => dashed (p_name p)) (pre ++ [p])) \/ is_short x).
      { intros x Hx. destruct (Hseen x Hx) as [H|H]; [left|now right].
        rewrite map_app. apply in_or_app. now left. }
      assert (Dnew : In d (map (fun p => dashed (p_name p)) (pre ++ [p]))).
      { rewrite map_app. apply in_or_app. right. now left. }
      destruct (names_arg_opts dc pos p taken) as [E|[c (E & Au & H1 & H2 & H4 & H3)]];
        fold a d in E |- *; rewrite E.
      + replace (seen ++ [d] ++ flat_map a_names (build_args dc pos ps (taken ++ [d])))
          with ((seen ++ [d]) ++ flat_map a_names (build_args dc pos ps (taken ++ [d])))
          by now rewrite <- app_assoc.
        apply (IH (pre ++ [p])); auto.
        * now apply incl_appl.
        * apply incl_app; [now apply incl_appl | apply incl_appr, incl_refl].
        * apply NoDup_app_intro'; [assumption | constructor; [simpl; tauto | constructor] |].
          intros x Hx [<-|[]]. now apply Dfresh.
        * intros x Hx. apply in_app_iff in Hx. destruct Hx as [Hx|[<-|[]]]; [now apply Seen' | now left].
      + fold d in H2. set (cs := String c EmptyString) in *.
        assert (Cfresh : ~ In cs taken) by now apply mem_false_notin.
        replace (seen ++ [d; cs] ++ flat_map a_names (build_args dc pos ps (taken ++ [d; cs])))
          with ((seen ++ [d; cs]) ++ flat_map a_names (build_args dc pos ps (taken ++ [d; cs])))
          by now rewrite <- app_assoc.
        apply (IH (pre ++ [p])); auto.
        * now apply incl_appl.
        * apply incl_app; [now apply incl_appl | apply incl_appr, incl_refl].
        * apply NoDup_app_intro'; [assumption | |].
          -- constructor; [|constructor; [simpl; tauto | constructor]].
             simpl. intros [C|[]]. now apply H2.
          -- intros x Hx [<-|[<-|[]]]; [now apply Dfresh | apply Cfresh; now apply Hs].
        * intros x Hx. apply in_app_iff in Hx.
          destruct Hx as [Hx|[<-|[<-|[]]]]; [now apply Seen' | now left |].
          right. intros C. apply Cfresh. now apply Ht.
  Qed.
End Build.

Theorem names_distinct s :
  wf_sig s = true -> NoDup (flat_map a_names (get_arguments s)).
Proof.
  intros W. destruct (wf_sig_parts s W) as (_ & _ & W3).
  eapply Permutation_NoDup;
    [apply Permutation_flat_map, Permutation_sym, get_arguments_perm|].
  apply (build_nodup (s_deco s) (fill_implicit_positionals s) (s_params s) W3 (s_params s) []
           (map p_name (s_params s) ++ map (fun p => translate_underscores (p_name p)) (s_params s)) []);
    auto; try (apply incl_appr, incl_refl); try constructor; intros x [].
Qed.

(** Under the guards the task is accepted and its tables have the closed form. *)
Theorem sig_ctx_closed_form s :
  wf_sig s = true ->
  add_args empty_ctx (get_arguments s) = Ok (T (get_arguments s)).
Proof.
  intros W. apply add_args_closed_form, good_of_static.
  - now apply static_get_arguments.
  - now apply names_distinct.
Qed.

(** Whenever a well-formed signature is accepted, the closed form holds. *)
Theorem sig_ctx_ok_closed_form s c :
  wf_sig s = true -> add_args empty_ctx (get_arguments s) = Ok c ->
  good (get_arguments s) /\ c = T (get_arguments s).
Proof.
  intros W H. destruct (add_args_ok_iff _ _ (static_get_arguments s W) H) as [ND ->].
  split; [|reflexivity]. apply good_of_static; [now apply static_get_arguments | assumption].
Qed.
