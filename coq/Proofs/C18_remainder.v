(** C18: "everything after a bare -- is preserved verbatim as the remainder and
    influences nothing else" -- through both passes of Program, for EVERY
    command line (whatever the last token before "--" is: a bare optional-value
    flag such as --list / -l / --help / -h / a cluster ending in one, a flag
    still waiting for its value, nothing at all), and the model judged by the
    two remainder clauses S1 / S4 of Spec/C18Spec.v. *)
From InvokeVerif Require Import Corr.C18Corr Proofs.C07_fuel Proofs.C18_parser.
From InvokeVerif Require Import Proofs.C01_final.
From Coq Require Import Lia.

(** ** The split at the first "--" *)

Lemma split_ddash_trailing argv rem :
  fst (split_ddash (argv ++ "--" :: rem)) = fst (split_ddash argv).
Proof.
  induction argv as [|t l IH]; simpl; [reflexivity|].
  destruct (String.eqb t "--"); [reflexivity|].
  destruct (split_ddash (l ++ "--" :: rem)) as [b r], (split_ddash l) as [b' r'].
  simpl in *. congruence.
Qed.

Lemma split_ddash_before argv : fst (split_ddash argv) = before_ddash argv.
Proof.
  induction argv as [|t l IH]; simpl; [reflexivity|].
  destruct (String.eqb t "--"); [reflexivity|].
  destruct (split_ddash l). simpl in *. congruence.
Qed.

Lemma split_ddash_after argv : snd (split_ddash argv) = after_ddash argv.
Proof.
  induction argv as [|t l IH]; simpl; [reflexivity|].
  destruct (String.eqb t "--"); [reflexivity|].
  destruct (split_ddash l). simpl in *. congruence.
Qed.

(** [parse_argv] as a function of the two halves of the split *)
Definition parse_body (p : parser) (body : list string) : result machine :=
  match new_machine p with
  | Err e => Err e
  | Ok m =>
      match loop p (body_fuel body) m body with
      | None => Err EOther
      | Some (Err e) => Err e
      | Some (Ok m) => finish m
      end
  end.

Lemma parse_argv_split p argv :
  parse_argv p argv =
  match parse_body p (fst (split_ddash argv)) with
  | Err e => Err e
  | Ok m => Ok (mkRes (result_ctxs m) (m_unparsed m) (join " " (snd (split_ddash argv))))
  end.
Proof.
  unfold parse_argv, parse_argv_fuel, parse_body.
  destruct (split_ddash argv) as [body rem]. cbn [fst snd].
  destruct (new_machine p) as [m|]; [|reflexivity].
  destruct (loop p (body_fuel body) m body) as [[m'|]|]; try reflexivity.
  destruct (finish m'); reflexivity.
Qed.

(** ** Parser level, any command line (also one that already contains "--") *)
Theorem trailing_remainder_inert p argv rem :
  match parse_argv p (argv ++ "--" :: rem), parse_argv p argv with
  | Ok r1, Ok r2 => pr_ctxs r1 = pr_ctxs r2 /\ pr_unparsed r1 = pr_unparsed r2
  | Err e1, Err e2 => e1 = e2
  | _, _ => False
  end.
Proof.
  rewrite !parse_argv_split, split_ddash_trailing.
  destruct (parse_body p (fst (split_ddash argv))); simpl; auto.
Qed.

Theorem remainder_is_after_first_ddash p argv r :
  parse_argv p argv = Ok r -> pr_remainder r = join " " (after_ddash argv).
Proof.
  rewrite parse_argv_split, split_ddash_after.
  destruct (parse_body p (fst (split_ddash argv))); [|discriminate]. intros [= <-]. reflexivity.
Qed.

(** ** Program level *)

Lemma program_parse_unfold core tasks argv :
  program_parse core tasks argv =
  match parse_argv (mkP [] (Some core) true) argv with
  | Err e => Err e
  | Ok r1 =>
      match pr_ctxs r1 with
      | [] => Err EOther
      | c0 :: _ =>
          match parser_parse tasks (Some core) false (pr_unparsed r1) with
          | Err e => Err e
          | Ok r2 =>
              match pr_ctxs r2 with
              | [] => Err EOther
              | via :: ts => Ok (mkProg (update_core (rc_args c0) (rc_args via))
                                        (pr_unparsed r1) (pr_remainder r1) ts)
              end
          end
      end
  end.
Proof. reflexivity. Qed.

(** two first-pass results that agree on contexts and unparsed tokens give
    program results that agree on everything but the remainder *)
Lemma program_parse_congr core tasks a1 a2 :
  match parse_argv (mkP [] (Some core) true) a1, parse_argv (mkP [] (Some core) true) a2 with
  | Ok r1, Ok r2 => pr_ctxs r1 = pr_ctxs r2 /\ pr_unparsed r1 = pr_unparsed r2
  | Err e1, Err e2 => e1 = e2
  | _, _ => False
  end ->
  match program_parse core tasks a1, program_parse core tasks a2 with
  | Ok r1, Ok r2 => pg_core r1 = pg_core r2 /\ pg_unparsed r1 = pg_unparsed r2 /\
                    pg_tasks r1 = pg_tasks r2
  | Err e1, Err e2 => e1 = e2
  | _, _ => False
  end.
Proof.
  rewrite !program_parse_unfold.
  destruct (parse_argv _ a1) as [r1|e1], (parse_argv _ a2) as [r2|e2]; try tauto.
  intros [C U]. rewrite C, U.
  destruct (pr_ctxs r2); [reflexivity|].
  destruct (parser_parse tasks (Some core) false (pr_unparsed r2)) as [q|]; [|reflexivity].
  destruct (pr_ctxs q); simpl; auto.
Qed.

(** any command line: appending "--" and a remainder changes nothing but
    [remainder] *)
Theorem program_trailing_remainder_inert core tasks argv rem :
  match program_parse core tasks (argv ++ "--" :: rem), program_parse core tasks argv with
  | Ok r1, Ok r2 => pg_core r1 = pg_core r2 /\ pg_unparsed r1 = pg_unparsed r2 /\
                    pg_tasks r1 = pg_tasks r2
  | Err e1, Err e2 => e1 = e2
  | _, _ => False
  end.
Proof. apply program_parse_congr, trailing_remainder_inert. Qed.

Theorem program_remainder_is_after_first_ddash core tasks argv r :
  program_parse core tasks argv = Ok r -> pg_remainder r = join " " (after_ddash argv).
Proof.
  rewrite program_parse_unfold.
  destruct (parse_argv (mkP [] (Some core) true) argv) as [r1|] eqn:P1; [|discriminate].
  pose proof (remainder_is_after_first_ddash _ _ _ P1) as R.
  destruct (pr_ctxs r1); [discriminate|].
  destruct (parser_parse tasks (Some core) false (pr_unparsed r1)) as [r2|]; [|discriminate].
  destruct (pr_ctxs r2); [discriminate|]. intros [= <-]. exact R.
Qed.

Lemma after_ddash_none body : no_ddash body = true -> after_ddash body = [].
Proof.
  induction body as [|t l IH]; simpl; [reflexivity|].
  rewrite andb_true_iff, negb_true_iff. intros [E H]. rewrite E. exact (IH H).
Qed.

Lemma after_ddash_app body rem : no_ddash body = true -> after_ddash (body ++ "--" :: rem) = rem.
Proof.
  induction body as [|t l IH]; simpl; [reflexivity|].
  rewrite andb_true_iff, negb_true_iff. intros [E H]. rewrite E. exact (IH H).
Qed.

(** the decomposition form: [body] free of "--" *)
Theorem program_remainder_influences_nothing core tasks body rem :
  no_ddash body = true ->
  match program_parse core tasks (body ++ "--" :: rem), program_parse core tasks body with
  | Ok r1, Ok r2 => pg_core r1 = pg_core r2 /\ pg_unparsed r1 = pg_unparsed r2 /\
                    pg_tasks r1 = pg_tasks r2 /\
                    pg_remainder r1 = join " " rem /\ pg_remainder r2 = ""
  | Err e1, Err e2 => e1 = e2
  | _, _ => False
  end.
Proof.
  intros N. pose proof (program_trailing_remainder_inert core tasks body rem) as H.
  destruct (program_parse core tasks (body ++ "--" :: rem)) as [r1|] eqn:P1,
           (program_parse core tasks body) as [r2|] eqn:P2; try exact H.
  destruct H as [A [B C]]. repeat split; auto.
  - rewrite (program_remainder_is_after_first_ddash _ _ _ _ P1), (after_ddash_app _ _ N). reflexivity.
  - rewrite (program_remainder_is_after_first_ddash _ _ _ _ P2), (after_ddash_none _ N). reflexivity.
Qed.

(** ** The model judged by the remainder clauses of the specification *)

Lemma model_program_ok cs argv o :
  model_program cs argv = Ok o ->
  exists r, program_parse core_ctx cs argv = Ok r /\ o = gobs_of r.
Proof.
  unfold model_program. destruct (program_parse core_ctx cs argv) as [r|]; [|discriminate].
  intros [= <-]. eauto.
Qed.

(** S1 on the model, every command line *)
Theorem model_s1 cs argv o :
  model_program cs argv = Ok o -> s1_remainder argv o = true.
Proof.
  intros H. destruct (model_program_ok _ _ _ H) as [r [P ->]].
  unfold s1_remainder, gobs_of. cbn [g_remainder].
  rewrite (program_remainder_is_after_first_ddash _ _ _ _ P). apply String.eqb_refl.
Qed.

Lemma placed_argv_some groups opt j r :
  placed_argv groups opt j (Some r) = placed_argv groups opt j None ++ "--" :: r.
Proof. unfold placed_argv. rewrite app_nil_r, <- !app_assoc. reflexivity. Qed.

Lemma str_list_eqb_refl (l : list string) : list_eqb String.eqb l l = true.
Proof. induction l as [|x l IH]; simpl; [reflexivity|]. rewrite String.eqb_refl. exact IH. Qed.

Lemma err_eqb_refl e : err_eqb e e = true.
Proof. apply err_eqb_eq. reflexivity. Qed.

(** S4 on the model, every case: all groups, options, placements, remainders *)
Theorem model_s4 cs groups opt j rem :
  s4_remainder_inert rem (model_program cs (placed_argv groups opt j None))
                         (model_program cs (placed_argv groups opt j rem)) = true.
Proof.
  destruct rem as [r|]; [|reflexivity]. unfold s4_remainder_inert.
  rewrite placed_argv_some. set (a := placed_argv groups opt j None).
  pose proof (program_trailing_remainder_inert core_ctx cs a r) as H.
  unfold model_program.
  destruct (program_parse core_ctx cs (a ++ "--" :: r)) as [r1|e1],
           (program_parse core_ctx cs a) as [r2|e2]; try contradiction.
  - destruct H as [A [B C]]. unfold gobs_of. cbn [g_core g_unparsed g_tasks].
    rewrite A, B, C, kwargs_eqb_refl, str_list_eqb_refl, octxs_eqb_refl. reflexivity.
  - subst. apply err_eqb_refl.
Qed.

(** both remainder clauses at once, in the shape of the flagship statement *)
Theorem model_remainder_clauses cs groups opt j rem :
  match model_program cs (placed_argv groups opt j rem) with
  | Ok o => s1_remainder (placed_argv groups opt j rem) o
  | Err _ => true
  end
  && s4_remainder_inert rem (model_program cs (placed_argv groups opt j None))
                            (model_program cs (placed_argv groups opt j rem)) = true.
Proof.
  rewrite model_s4, andb_true_r.
  destruct (model_program cs (placed_argv groups opt j rem)) eqn:E; [|reflexivity].
  exact (model_s1 _ _ _ E).
Qed.

(** ** A bare optional-value core flag right before "--"

    [--list], [-l], [--help], [-h] and the clusters [-wl], [-eh] before the
    first task, followed by "--" and ANY remainder (task names and flags
    included), for ANY set of tasks the parser accepts: the option is given
    without a value (True), nothing is handed to the task pass, no task is
    called, and the remainder is the tokens after "--" verbatim. *)
Definition bare_before_ddash (tok opt_name : string) : Prop :=
  forall tasks rem, parser_ok tasks = true ->
  exists r, program_parse core_ctx tasks (tok :: "--" :: rem) = Ok r /\
            core_value (pg_core r) opt_name = ABool true /\
            pg_unparsed r = [] /\ pg_tasks r = [] /\ pg_remainder r = join " " rem.

Lemma bare_before_ddash_of tok opt_name :
  no_ddash [tok] = true ->
  (forall tasks, parser_ok tasks = true ->
     exists r, program_parse core_ctx tasks [tok] = Ok r /\
               core_value (pg_core r) opt_name = ABool true /\
               pg_unparsed r = [] /\ pg_tasks r = []) ->
  bare_before_ddash tok opt_name.
Proof.
  intros N H tasks rem PO. destruct (H tasks PO) as [r2 [P2 [V [U T]]]].
  pose proof (program_remainder_influences_nothing core_ctx tasks [tok] rem N) as I.
  change ([tok] ++ "--" :: rem) with (tok :: "--" :: rem) in I. rewrite P2 in I.
  destruct (program_parse core_ctx tasks (tok :: "--" :: rem)) as [r1|]; [|contradiction].
  destruct I as [A [B [C [D _]]]]. exists r1. rewrite A, B, C. auto.
Qed.

Lemma single_token_program tok tasks :
  parser_ok tasks = true ->
  program_parse core_ctx tasks [tok] =
  match parse_argv (mkP [] (Some core_ctx) true) [tok] with
  | Err e => Err e
  | Ok r1 =>
      match pr_ctxs r1 with
      | [] => Err EOther
      | c0 :: _ =>
          match parse_argv (mkP tasks (Some core_ctx) false) (pr_unparsed r1) with
          | Err e => Err e
          | Ok r2 =>
              match pr_ctxs r2 with
              | [] => Err EOther
              | via :: ts => Ok (mkProg (update_core (rc_args c0) (rc_args via))
                                        (pr_unparsed r1) (pr_remainder r1) ts)
              end
          end
      end
  end.
Proof. intros PO. rewrite program_parse_unfold. unfold parser_parse. rewrite PO. reflexivity. Qed.

(** the task pass over an empty token list does not look at the task contexts *)
Lemma empty_task_pass tasks :
  parse_argv (mkP tasks (Some core_ctx) false) [] = parse_argv (mkP [] (Some core_ctx) false) [].
Proof. reflexivity. Qed.

Ltac bare_tac :=
  apply bare_before_ddash_of; [reflexivity|];
  intros tasks PO; rewrite (single_token_program _ tasks PO);
  match goal with
  | |- context [parse_argv (mkP [] (Some core_ctx) true) ?a] =>
      let v := eval vm_compute in (parse_argv (mkP [] (Some core_ctx) true) a) in
      change (parse_argv (mkP [] (Some core_ctx) true) a) with v
  end;
  cbn [pr_ctxs pr_unparsed pr_remainder]; rewrite empty_task_pass;
  match goal with
  | |- context [parse_argv (mkP [] (Some core_ctx) false) []] =>
      let v := eval vm_compute in (parse_argv (mkP [] (Some core_ctx) false) []) in
      change (parse_argv (mkP [] (Some core_ctx) false) []) with v
  end;
  cbn [pr_ctxs]; eexists; split; [reflexivity|];
  repeat split; vm_compute; reflexivity.

Theorem bare_optional_before_ddash :
  bare_before_ddash "--list" "list" /\ bare_before_ddash "-l" "list" /\
  bare_before_ddash "--help" "help" /\ bare_before_ddash "-h" "help" /\
  bare_before_ddash "-wl" "list" /\ bare_before_ddash "-eh" "help".
Proof. repeat split; bare_tac. Qed.

(** ... and a flag that REQUIRES a value directly before "--" is the documented
    error ("needed value and was not given one"), with or without remainder:
    "--" is never taken as the value. *)
Lemma core_pass_err core tasks argv e :
  parse_argv (mkP [] (Some core) true) argv = Err e -> program_parse core tasks argv = Err e.
Proof. intros H. rewrite program_parse_unfold, H. reflexivity. Qed.

Theorem value_flag_before_ddash_is_error : forall tasks rem,
  program_parse core_ctx tasks ("--hide" :: "--" :: rem) = Err EParse /\
  program_parse core_ctx tasks ("-f" :: "--" :: rem) = Err EParse /\
  program_parse core_ctx tasks ("-T" :: "--" :: rem) = Err EParse.
Proof.
  intros tasks rem.
  assert (H : forall tok, no_ddash [tok] = true ->
                parse_argv (mkP [] (Some core_ctx) true) [tok] = Err EParse ->
                program_parse core_ctx tasks (tok :: "--" :: rem) = Err EParse).
  { intros tok N E. pose proof (core_pass_err core_ctx tasks [tok] EParse E) as E'.
    pose proof (program_remainder_influences_nothing core_ctx tasks [tok] rem N) as I.
    change ([tok] ++ "--" :: rem) with (tok :: "--" :: rem) in I. rewrite E' in I.
    destruct (program_parse core_ctx tasks (tok :: "--" :: rem)); [contradiction|]. congruence. }
  repeat split; apply H; vm_compute; reflexivity.
Qed.
