(** C18 x C15: from the parsed core values (Program.args, my [g_core]) to the
    *overrides* configuration level of Model/ProgramModel.v ([overrides_of],
    Program.update_config), and the placement corollary: a core prefix placed
    anywhere admissible yields the same overrides tree. *)
From InvokeVerif Require Import Corr.C18Corr Spec.C01Spec Proofs.C01_final Proofs.C18_placement
     Proofs.C18_program Proofs.C18_values Proofs.C18_program_values.
From InvokeVerif Require Model.ProgramTypes Model.ProgramModel.

Definition core_bool (kv : list (string * aval)) (k : string) : bool :=
  match kw_get k kv with Some v => py_truthy v | None => false end.

Definition core_str (kv : list (string * aval)) (k : string) : option string :=
  match kw_get k kv with Some (AStr s) => Some s | _ => None end.

Definition core_int (kv : list (string * aval)) (k : string) : option Z :=
  match kw_get k kv with Some (AInt z) => Some z | _ => None end.

(** [self.args] as [update_config] reads it.  The sudo password is what
    getpass() returns -- an input of ProgramModel, not a parse result: [pw]. *)
Definition coreargs_of (kv : list (string * aval)) (pw : option string) : ProgramTypes.coreargs :=
  ProgramTypes.mkArgs (core_bool kv "warn-only") (core_bool kv "pty") (core_str kv "hide")
                      (core_bool kv "echo") (core_bool kv "dry") (core_bool kv "no-dedupe")
                      (core_int kv "command-timeout")
                      (if core_bool kv "prompt-for-sudo-password" then pw else None)
                      (core_str kv "config").

Definition overrides_from (g : gobs) (pw : option string) : tree :=
  ProgramModel.overrides_of (coreargs_of (g_core g) pw).

Theorem prefix_placement_same_overrides cs ic os calls1 t asn items1 items2 calls2 c pw :
  let inv := calls1 ++ mkCall t asn (items1 ++ items2) :: calls2 in
  simple_guard cs ic inv = true ->
  nth_error cs t = Some c ->
  forallb (copt_free cs c) os = true ->
  copts_ok cs (rc_args (init_ctx ic)) os = true ->
  exists gf gp,
    prog_obs ic cs (flat_map spell_copt os ++ spell cs inv) = Ok gf /\
    prog_obs ic cs (spell cs calls1 ++ (asn :: flat_map (spell_item c) items1)
                    ++ flat_map spell_copt os
                    ++ flat_map (spell_item c) items2 ++ spell cs calls2) = Ok gp /\
    overrides_from gf pw = overrides_from gp pw /\
    ProgramModel.runtime_path_of (coreargs_of (g_core gf) pw) None
      = ProgramModel.runtime_path_of (coreargs_of (g_core gp) pw) None /\
    g_tasks gf = g_tasks gp.
Proof.
  intros inv G N Free Ok'.
  destruct (program_prefix_placement_equiv cs ic os calls1 t asn items1 items2 calls2 c G N Free Ok')
    as [gf [gp [Pf [Pp [Ec [Et _]]]]]].
  exists gf, gp. unfold overrides_from. rewrite Ec. auto.
Qed.

(** a concrete instance: -e and -T 5 moved into the first call give the
    overrides {run: {echo: True}, tasks: {}, sudo: {}, timeouts: {command: 5}} *)
Example overrides_example :
  exists gp,
    prog_obs core_ctx ex_cs ["b"; "-i"; "a"; "-e"; "-T"; "5"; "--clean"; "deploy"; "-t=prod"] = Ok gp /\
    overrides_from gp None =
      Node [("run", Node [("echo", Leaf (VBool true))]); ("tasks", Node []); ("sudo", Node []);
            ("timeouts", Node [("command", Leaf (VInt 5))])].
Proof. eexists. split; vm_compute; reflexivity. Qed.
