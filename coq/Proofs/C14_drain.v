(** F-C14e on the model of the stdin worker's exit rule: the number of iterations the
    worker makes after the command has finished is the amount of input still queued,
    plus one -- finite for a finite queue, but above every bound for a long enough one. *)
From InvokeVerif Require Import Model.StdinDrainModel.
From Coq Require Import Lia.

Definition all_data (q : list rd) : bool := forallb is_data q.

Lemma drain_all_data q : all_data q = true ->
  iterations_after_finish q = S (List.length q) /\ forwarded_after_finish q = List.length q.
Proof.
  induction q as [|r q IH]; [split; reflexivity|]. unfold all_data. cbn [forallb]. intros H.
  apply andb_prop in H. destruct H as [A B]. destruct r; try discriminate.
  destruct (IH B) as [I F]. cbn [iterations_after_finish forwarded_after_finish List.length].
  rewrite I, F. split; reflexivity.
Qed.

Lemma all_data_repeat n : all_data (repeat RData n) = true.
Proof. induction n as [|n IH]; [reflexivity|]. exact IH. Qed.

(** for a finite queue the loop does end: after exactly one iteration per queued unit and one more *)
Lemma drain_terminates q : all_data q = true -> iterations_after_finish q = S (List.length q).
Proof. intros H. apply (drain_all_data q H). Qed.

(** ... and every queued unit is forwarded to the finished command on the way *)
Lemma drain_forwards_all q : all_data q = true -> forwarded_after_finish q = List.length q.
Proof. intros H. apply (drain_all_data q H). Qed.

(** whatever follows, the loop is left by the first read that is not a unit of input *)
Lemma drain_stops_at_first_gap q r rest :
  all_data q = true -> is_data r = false ->
  iterations_after_finish (q ++ r :: rest) = S (List.length q).
Proof.
  induction q as [|x q IH]; intros A G.
  - destruct r; try discriminate; reflexivity.
  - unfold all_data in A. cbn [forallb] in A. apply andb_prop in A. destruct A as [A B].
    destruct x; try discriminate. cbn [app iterations_after_finish List.length]. rewrite (IH B G). reflexivity.
Qed.

(** no bound on the worker's iterations after the command is gone holds for all finite queues *)
Lemma prompt_pending_refuted : forall b, exists q,
  all_data q = true /\ b < iterations_after_finish q /\ forwarded_after_finish q = S b.
Proof.
  intros b. exists (repeat RData (S b)). pose proof (all_data_repeat (S b)) as A.
  destruct (drain_all_data _ A) as [I F]. rewrite repeat_length in I, F.
  split; [exact A|]. split; [rewrite I; lia | exact F].
Qed.
