(** C16: the model of Environment.load satisfies the executable spec. *)
From InvokeVerif Require Import Common.Tree Common.StrUtil Model.MergeModel Model.EnvModel
     Spec.C16Spec Proofs.ListFacts Proofs.TreeFacts.

(** * 1. The crawl computes one entry per leaf, or reports a collision *)

Definition mk_entry (pre : path) (pv : path * value) : entry :=
  (env_var (pre ++ fst pv), (pre ++ fst pv, snd pv)).

Definition entries_at (pre : path) (t : tree) : list entry :=
  map (mk_entry pre) (leaf_paths t).

Definition entries_kids (pre : path) (kids : dict) : list entry :=
  flat_map (fun kc => entries_at (pre ++ [fst kc]) (snd kc)) kids.

Definition K (es : list entry) : list string := map fst es.

Fixpoint crawl_kids (rp : path) (kids : dict) (acc : list entry) : result (list entry) :=
  match kids with
  | [] => Ok acc
  | (k, c) :: rest =>
      match crawl (k :: rp) c with
      | Err e => Err e
      | Ok crawled =>
          if existsb (fun e => mem (fst e) (map fst acc)) crawled
          then Err EAmbigEnv
          else crawl_kids rp rest (acc ++ crawled)
      end
  end.

Lemma crawl_Node rp kids : crawl rp (Node kids) = crawl_kids rp kids [].
Proof.
  cbn [crawl]. generalize (@nil entry) as acc.
  induction kids as [|[k c] rest IH]; intros acc; [reflexivity|].
  cbn [crawl_kids]. destruct (crawl (k :: rp) c) as [crawled|e]; [|reflexivity].
  destruct (existsb (fun e => mem (fst e) (map fst acc)) crawled); [reflexivity | apply IH].
Qed.

Lemma map_flat_map {A B C} (g : B -> C) (f : A -> list B) l :
  map g (flat_map f l) = flat_map (fun x => map g (f x)) l.
Proof. induction l as [|x l IH]; simpl; [reflexivity | rewrite map_app, IH; reflexivity]. Qed.

Lemma entries_at_Node pre kids : entries_at pre (Node kids) = entries_kids pre kids.
Proof.
  unfold entries_at, entries_kids. rewrite leaf_paths_Node. unfold leaf_paths_kids.
  rewrite map_flat_map. apply flat_map_ext. intros [k c]. cbn [fst snd].
  rewrite map_map. apply map_ext. intros [p v]. unfold mk_entry. simpl.
  rewrite <- app_assoc. reflexivity.
Qed.

Definition crawl_char (t : tree) : Prop :=
  forall rp, crawl rp t =
    if nodupb (K (entries_at (rev rp) t)) then Ok (entries_at (rev rp) t) else Err EAmbigEnv.

Lemma K_app a b : K (a ++ b) = K a ++ K b.
Proof. apply map_app. Qed.

Lemma crawl_kids_char rp kids :
  Forall (fun kc => crawl_char (snd kc)) kids ->
  forall acc, nodupb (K acc) = true ->
  crawl_kids rp kids acc =
    if nodupb (K (acc ++ entries_kids (rev rp) kids))
    then Ok (acc ++ entries_kids (rev rp) kids) else Err EAmbigEnv.
Proof.
  induction kids as [|[k c] rest IH]; intros HF acc Hacc.
  - simpl. unfold entries_kids. simpl. rewrite app_nil_r, Hacc. reflexivity.
  - inversion HF as [|? ? Hc Hrest]; subst. simpl in Hc.
    cbn [crawl_kids]. rewrite (Hc (k :: rp)). cbn [rev].
    unfold entries_kids. cbn [flat_map fst snd].
    fold (entries_kids (rev rp) rest).
    set (Ec := entries_at (rev rp ++ [k]) c). set (Er := entries_kids (rev rp) rest).
    rewrite !K_app, !nodupb_app, Hacc.
    destruct (nodupb (K Ec)) eqn:Nc.
    + (* child fine: the overlap test *)
      assert (Eov : existsb (fun e => mem (fst e) (map fst acc)) Ec
                    = existsb (fun x => mem x (K acc)) (K Ec)).
      { unfold K. rewrite existsb_map. reflexivity. }
      rewrite Eov. rewrite existsb_app.
      destruct (existsb (fun x => mem x (K acc)) (K Ec)) eqn:Ov.
      * repeat match goal with
               | |- context [nodupb ?x] => destruct (nodupb x)
               | |- context [existsb ?f ?x] => destruct (existsb f x)
               end; reflexivity.
      * rewrite (IH Hrest (acc ++ Ec)).
        2:{ rewrite K_app, nodupb_app, Hacc, Nc, Ov. reflexivity. }
        fold Er. rewrite !K_app, !nodupb_app, Hacc, Nc, Ov.
        rewrite <- app_assoc.
        assert (Es : existsb (fun x => mem x (K acc ++ K Ec)) (K Er)
                     = existsb (fun x => mem x (K acc)) (K Er) || existsb (fun x => mem x (K Ec)) (K Er)).
        { rewrite <- existsb_orb. apply existsb_ext_eq. intros x. apply mem_app. }
        rewrite Es. simpl.
        destruct (nodupb (K Er)), (existsb (fun x => mem x (K acc)) (K Er)),
          (existsb (fun x => mem x (K Ec)) (K Er)); reflexivity.
    + repeat match goal with
             | |- context [nodupb ?x] => destruct (nodupb x)
             | |- context [existsb ?f ?x] => destruct (existsb f x)
             end; reflexivity.
Qed.

Lemma crawl_characterised : forall t, crawl_char t.
Proof.
  induction t as [v | kids IH] using tree_ind'; intros rp.
  - simpl. unfold entries_at, mk_entry. simpl. rewrite app_nil_r. reflexivity.
  - rewrite crawl_Node, entries_at_Node.
    rewrite (crawl_kids_char rp kids IH []) by reflexivity. reflexivity.
Qed.

(** * 2. [ambiguous] is exactly "the variable names are not pairwise distinct" *)

Lemma var_name_env_var p : var_name p = env_var p.
Proof. reflexivity. Qed.

Lemma K_entries_root t : K (entries_at [] t) = map var_name (map fst (leaf_paths t)).
Proof.
  unfold K, entries_at. rewrite !map_map. apply map_ext. intros [p v]. reflexivity.
Qed.

Lemma ambiguous_char t :
  wf t = true -> ambiguous t = negb (nodupb (map var_name (map fst (leaf_paths t)))).
Proof.
  intros Hwf. pose proof (wf_leaf_paths_NoDup t Hwf) as ND.
  unfold ambiguous. set (ps := map fst (leaf_paths t)) in *.
  destruct (nodupb (map var_name ps)) eqn:N; simpl.
  - (* no two distinct paths share a name *)
    destruct (existsb _ ps) eqn:E; [|reflexivity]. exfalso.
    apply existsb_exists in E as [p [Hp E]]. apply existsb_exists in E as [q [Hq E]].
    apply andb_true_iff in E as [E1 E2]. apply negb_true_iff in E1. apply String.eqb_eq in E2.
    assert (p = q) by (eapply nodupb_map_inj; eauto). subst q.
    assert (path_eqb p p = true) by (apply path_eqb_eq; reflexivity). congruence.
  - destruct (existsb _ ps) eqn:E; [reflexivity|]. exfalso.
    assert (nodupb (map var_name ps) = true); [|congruence].
    apply inj_nodupb_map; [assumption|]. intros p q Hp Hq Epq.
    destruct (path_eqb p q) eqn:Eb; [apply path_eqb_eq; assumption|]. exfalso.
    assert (existsb (fun p0 => existsb (fun q0 => negb (path_eqb p0 q0) &&
              String.eqb (var_name p0) (var_name q0)) ps) ps = true); [|congruence].
    apply existsb_exists. exists p. split; [assumption|].
    apply existsb_exists. exists q. split; [assumption|].
    rewrite Eb, Epq, String.eqb_refl. reflexivity.
Qed.

Theorem crawl_root t :
  wf t = true ->
  crawl [] t = if ambiguous t then Err EAmbigEnv else Ok (entries_at [] t).
Proof.
  intros Hwf. rewrite (crawl_characterised t []). simpl rev.
  rewrite K_entries_root, (ambiguous_char t Hwf).
  destruct (nodupb _); reflexivity.
Qed.

(** * 3. Applying the variables *)

Lemma env_get_lookup name e : env_get name e = lookup_env name e.
Proof.
  unfold lookup_env. induction e as [|[n v] e IH]; simpl; [reflexivity|].
  destruct (String.eqb name n); [reflexivity | exact IH].
Qed.

Lemma cast_convert old s : cast old s = convert old s.
Proof.
  destruct old; simpl; try reflexivity.
  destruct (String.eqb s "") eqn:E1, (String.eqb s "0") eqn:E2; reflexivity.
Qed.

(** what one leaf contributes, as in the spec *)
Definition sel (pfx : string) (env : environ) (pv : path * value) : list (path * value * string) :=
  match lookup_env (pfx ++ var_name (fst pv)) env with
  | Some s => [(fst pv, snd pv, s)]
  | None => []
  end.

Lemma applicable_eq t pfx env : applicable t pfx env = flat_map (sel pfx env) (leaf_paths t).
Proof. reflexivity. Qed.

Fixpoint apply_app (a : list (path * value * string)) (data : dict) : result dict :=
  match a with
  | [] => Ok data
  | (p, old, s) :: rest =>
      match convert old s with
      | Ok v => apply_app rest (path_set data p v)
      | Err e => Err e
      end
  end.

Lemma apply_vars_app pfx env lp data :
  apply_vars pfx env (map (mk_entry []) lp) data = apply_app (flat_map (sel pfx env) lp) data.
Proof.
  revert data. induction lp as [|[p old] lp IH]; intros data; [reflexivity|].
  cbn [map mk_entry fst snd app flat_map apply_vars]. unfold sel at 1. cbn [fst snd].
  rewrite env_get_lookup. change (env_var p) with (var_name p).
  destruct (lookup_env (pfx ++ var_name p) env) as [s|]; cbn [app apply_app].
  - rewrite cast_convert. destruct (convert old s); [apply IH | reflexivity].
  - apply IH.
Qed.

Definition conv_of (a : list (path * value * string)) : list (path * result value) :=
  map (fun x => (fst (fst x), convert (snd (fst x)) (snd x))) a.

Definition want_of (conv : list (path * result value)) : list (path * value) :=
  flat_map (fun pc => match snd pc with Ok v => [(fst pc, v)] | Err _ => [] end) conv.

Lemma apply_app_err a : forall data,
  existsb (fun pc => is_err (snd pc)) (conv_of a) = true ->
  exists e, apply_app a data = Err e /\
    existsb (fun pc => match snd pc with Err e' => err_eqb e e' | Ok _ => false end) (conv_of a) = true.
Proof.
  induction a as [|[[p old] s] a IH]; intros data H; [discriminate|].
  cbn [conv_of map fst snd existsb apply_app] in *.
  destruct (convert old s) as [v|e] eqn:C.
  - simpl in H. destruct (IH (path_set data p v) H) as [e [E1 E2]].
    exists e. split; [assumption|]. simpl. exact E2.
  - exists e. split; [reflexivity|]. simpl.
    assert (err_eqb e e = true) as -> by (apply err_eqb_eq; reflexivity). reflexivity.
Qed.

Lemma apply_app_ok a : forall data,
  existsb (fun pc => is_err (snd pc)) (conv_of a) = false ->
  apply_app a data =
    Ok (fold_left (fun d pv => path_set d (fst pv) (snd pv)) (want_of (conv_of a)) data).
Proof.
  induction a as [|[[p old] s] a IH]; intros data H; [reflexivity|].
  cbn [conv_of map fst snd existsb apply_app want_of flat_map] in *.
  destruct (convert old s) as [v|e] eqn:C; simpl in H; [|discriminate].
  cbn [app fold_left fst snd]. apply IH. exact H.
Qed.

(** ** [path_set] adds exactly one leaf when the path is unrelated to the leaves present *)

Lemma leaf_at_cons k q kids :
  leaf_at (k :: q) (Node kids) = match get k kids with Some c => leaf_at q c | None => None end.
Proof. unfold leaf_at. simpl. destruct (get k kids); reflexivity. Qed.

Lemma leaf_at_nil_Node kids : leaf_at [] (Node kids) = None.
Proof. reflexivity. Qed.

Lemma leaf_at_Leaf q v : leaf_at q (Leaf v) = match q with [] => Some v | _ => None end.
Proof. destruct q; reflexivity. Qed.

Definition unrelated (p : path) (d : dict) : Prop :=
  forall q w, leaf_at q (Node d) = Some w -> ~ prefix p q /\ ~ prefix q p.

Lemma unrelated_nil p : unrelated p [].
Proof. intros q w H. destruct q; discriminate. Qed.

Lemma path_set_leaf_at : forall p d v q,
  p <> [] -> unrelated p d ->
  leaf_at q (Node (path_set d p v)) = if path_eqb q p then Some v else leaf_at q (Node d).
Proof.
  induction p as [|k p IH]; intros d v q Hne Hun; [congruence|].
  destruct p as [|k' p'].
  - (* last component *)
    cbn [path_set]. destruct q as [|k2 q].
    + simpl. reflexivity.
    + rewrite !leaf_at_cons. destruct (String.eqb k2 k) eqn:E.
      * apply String.eqb_eq in E; subst k2. rewrite get_set_same, leaf_at_Leaf.
        destruct q as [|k3 q].
        -- assert (path_eqb [k] [k] = true) as -> by (apply path_eqb_eq; reflexivity). reflexivity.
        -- assert (path_eqb (k :: k3 :: q) [k] = false) as ->.
           { destruct (path_eqb (k :: k3 :: q) [k]) eqn:Ep; [apply path_eqb_eq in Ep; discriminate | reflexivity]. }
           destruct (get k d) as [c|] eqn:G; [|reflexivity].
           destruct (leaf_at (k3 :: q) c) as [w|] eqn:L; [|reflexivity]. exfalso.
           assert (leaf_at (k :: k3 :: q) (Node d) = Some w) as Hl by (rewrite leaf_at_cons, G; exact L).
           destruct (Hun _ _ Hl) as [H1 _]. apply H1. exists (k3 :: q). reflexivity.
      * apply String.eqb_neq in E. rewrite get_set_other by assumption.
        assert (path_eqb (k2 :: q) [k] = false) as ->.
        { destruct (path_eqb (k2 :: q) [k]) eqn:Ep; [apply path_eqb_eq in Ep; inversion Ep; congruence | reflexivity]. }
        reflexivity.
  - (* descend *)
    change (path_set d (k :: k' :: p') v) with
      (match get k d with
       | Some (Node kids) => set k (Node (path_set kids (k' :: p') v)) d
       | _ => set k (Node (path_set [] (k' :: p') v)) d
       end).
    assert (Hsub : forall kids, get k d = Some (Node kids) -> unrelated (k' :: p') kids).
    { intros kids G q' w Hl.
      assert (leaf_at (k :: q') (Node d) = Some w) as Hl2 by (rewrite leaf_at_cons, G; exact Hl).
      destruct (Hun _ _ Hl2) as [H1 H2]. split; intros Hp.
      - apply H1. apply prefix_cons. auto.
      - apply H2. apply prefix_cons. auto. }
    destruct q as [|k2 q].
    + destruct (get k d) as [[x|kids]|]; reflexivity.
    + destruct (String.eqb k2 k) eqn:E.
      * apply String.eqb_eq in E; subst k2.
        assert (Epe : path_eqb (k :: q) (k :: k' :: p') = path_eqb q (k' :: p')).
        { unfold path_eqb. simpl. rewrite String.eqb_refl. reflexivity. }
        rewrite Epe. rewrite leaf_at_cons.
        destruct (get k d) as [[x|kids]|] eqn:G.
        -- (* a leaf at [k] would be a prefix of p *)
           exfalso. assert (leaf_at [k] (Node d) = Some x) as Hl by (rewrite leaf_at_cons, G; reflexivity).
           destruct (Hun _ _ Hl) as [_ H2]. apply H2. exists (k' :: p'). reflexivity.
        -- rewrite get_set_same. rewrite (IH kids v q) by (try discriminate; auto).
           rewrite leaf_at_cons, G. reflexivity.
        -- rewrite get_set_same. rewrite (IH [] v q) by (try discriminate; apply unrelated_nil).
           rewrite leaf_at_cons, G. destruct (path_eqb q (k' :: p')); [reflexivity|].
           destruct q; reflexivity.
      * apply String.eqb_neq in E.
        assert (path_eqb (k2 :: q) (k :: k' :: p') = false) as ->.
        { destruct (path_eqb (k2 :: q) (k :: k' :: p')) eqn:Ep; [apply path_eqb_eq in Ep; inversion Ep; congruence | reflexivity]. }
        rewrite !leaf_at_cons.
        destruct (get k d) as [[x|kids]|]; rewrite get_set_other by assumption; reflexivity.
Qed.

(** ** well-formedness and absence of empty sections are preserved *)

Lemma in_set k c k2 c2 d : In (k2, c2) (set k c d) -> (k2, c2) = (k, c) \/ In (k2, c2) d.
Proof.
  induction d as [|[k' c'] d IH]; simpl.
  - intros [H|[]]; left; symmetry; exact H.
  - destruct (String.eqb k k') eqn:E; simpl.
    + apply String.eqb_eq in E; subst k'. intros [H|H]; [left; symmetry; exact H | right; right; exact H].
    + intros [H|H]; [right; left; exact H|]. destruct (IH H) as [H1|H1]; [left; exact H1 | right; right; exact H1].
Qed.

Lemma wf_set k c d : wf (Node d) = true -> wf c = true -> wf (Node (set k c d)) = true.
Proof.
  intros Hd Hc. apply wf_Node_inv in Hd as [ND HF]. apply wf_Node_intro.
  - apply NoDup_keys_set; assumption.
  - rewrite Forall_forall in *. intros [k2 c2] Hin. apply in_set in Hin as [E|Hin].
    + inversion E; subst. exact Hc.
    + apply (HF _ Hin).
Qed.

Lemma wf_get k c d : wf (Node d) = true -> get k d = Some c -> wf c = true.
Proof.
  intros Hd G. apply wf_Node_inv in Hd as [_ HF]. rewrite Forall_forall in HF.
  apply (HF (k, c)). apply get_in; assumption.
Qed.

Lemma path_set_wf : forall p d v, wf (Node d) = true -> wf (Node (path_set d p v)) = true.
Proof.
  induction p as [|k p IH]; intros d v Hd; [exact Hd|].
  destruct p as [|k' p'].
  - cbn [path_set]. apply wf_set; [assumption | reflexivity].
  - change (path_set d (k :: k' :: p') v) with
      (match get k d with
       | Some (Node kids) => set k (Node (path_set kids (k' :: p') v)) d
       | _ => set k (Node (path_set [] (k' :: p') v)) d
       end).
    destruct (get k d) as [[x|kids]|] eqn:G; apply wf_set; try assumption; apply IH;
      try reflexivity. apply (wf_get k _ d Hd G).
Qed.

Definition ne (c : tree) : bool := match c with Node [] => false | _ => no_empty_sections c end.

Lemma no_empty_Node kids : no_empty_sections (Node kids) = forallb (fun kc => ne (snd kc)) kids.
Proof.
  cbn [no_empty_sections]. induction kids as [|[k c] kids IH]; [reflexivity|].
  cbn [forallb snd]. rewrite <- IH. unfold ne. destruct c as [x|[|y l]]; reflexivity.
Qed.

Lemma no_empty_set k c d :
  no_empty_sections (Node d) = true -> ne c = true -> no_empty_sections (Node (set k c d)) = true.
Proof.
  rewrite !no_empty_Node, !forallb_forall. intros Hd Hc [k2 c2] Hin.
  apply in_set in Hin as [E|Hin]; [inversion E; subst; exact Hc | apply (Hd _ Hin)].
Qed.

Lemma set_nonempty k c d : set k c d <> [].
Proof. destruct d as [|[k' c'] d]; simpl; [discriminate|]. destruct (String.eqb k k'); discriminate. Qed.

Lemma path_set_nonempty p d v : p <> [] -> path_set d p v <> [].
Proof.
  destruct p as [|k [|k' p']]; intros H; [congruence | apply set_nonempty |].
  change (path_set d (k :: k' :: p') v) with
      (match get k d with
       | Some (Node kids) => set k (Node (path_set kids (k' :: p') v)) d
       | _ => set k (Node (path_set [] (k' :: p') v)) d
       end).
  destruct (get k d) as [[x|kids]|]; apply set_nonempty.
Qed.

Lemma ne_nonempty_node l : l <> [] -> ne (Node l) = no_empty_sections (Node l).
Proof. destruct l; [congruence | reflexivity]. Qed.

Lemma path_set_no_empty : forall p d v,
  p <> [] -> no_empty_sections (Node d) = true -> no_empty_sections (Node (path_set d p v)) = true.
Proof.
  induction p as [|k p IH]; intros d v Hne Hd; [congruence|].
  destruct p as [|k' p'].
  - cbn [path_set]. apply no_empty_set; [assumption | reflexivity].
  - change (path_set d (k :: k' :: p') v) with
      (match get k d with
       | Some (Node kids) => set k (Node (path_set kids (k' :: p') v)) d
       | _ => set k (Node (path_set [] (k' :: p') v)) d
       end).
    assert (Hnil : no_empty_sections (Node []) = true) by reflexivity.
    destruct (get k d) as [[x|kids]|] eqn:G; apply no_empty_set; try assumption;
      rewrite ne_nonempty_node by (apply path_set_nonempty; discriminate);
      apply IH; try discriminate; try assumption.
    rewrite no_empty_Node, forallb_forall in Hd. apply get_in in G. specialize (Hd _ G).
    simpl in Hd. destruct kids; [discriminate | exact Hd].
Qed.

(** ** the fold over the settings to apply *)

Definition pset (d : dict) (pv : path * value) : dict := path_set d (fst pv) (snd pv).

Definition prefix_free (l : list (path * value)) : Prop :=
  NoDup (map fst l) /\
  (forall p q, In p (map fst l) -> In q (map fst l) -> prefix p q -> p = q) /\
  (forall p, In p (map fst l) -> p <> []).

Lemma fold_pset_inv : forall todo done d,
  prefix_free (done ++ todo) ->
  wf (Node d) = true -> no_empty_sections (Node d) = true ->
  (forall q w, leaf_at q (Node d) = Some w <-> In (q, w) done) ->
  let d' := fold_left pset todo d in
  wf (Node d') = true /\ no_empty_sections (Node d') = true /\
  (forall q w, leaf_at q (Node d') = Some w <-> In (q, w) (done ++ todo)).
Proof.
  induction todo as [|[p v] todo IH]; intros done d PF Hwf Hne Hinv.
  - simpl. rewrite app_nil_r. auto.
  - cbn [fold_left]. unfold pset at 2. cbn [fst snd].
    destruct PF as [ND [PFx NE]].
    assert (Hp_in : In p (map fst (done ++ (p, v) :: todo))).
    { rewrite map_app, in_app_iff. right; left; reflexivity. }
    assert (Hp_ne : p <> []) by (apply NE; exact Hp_in).
    assert (Hp_notdone : ~ In p (map fst done)).
    { rewrite map_app in ND. simpl in ND. apply NoDup_remove_2 in ND.
      intros H. apply ND. rewrite in_app_iff. left; exact H. }
    assert (Hun : unrelated p d).
    { intros q w Hl. apply Hinv in Hl.
      assert (Hq_done : In q (map fst done)) by (change q with (fst (q, w)); apply in_map; exact Hl).
      assert (Hq_in : In q (map fst (done ++ (p, v) :: todo))).
      { rewrite map_app, in_app_iff. left; exact Hq_done. }
      split; intros Hpre.
      - apply (PFx p q Hp_in Hq_in) in Hpre. subst q. contradiction.
      - apply (PFx q p Hq_in Hp_in) in Hpre. subst q. contradiction. }
    specialize (IH (done ++ [(p, v)]) (path_set d p v)).
    rewrite <- app_assoc in IH. simpl in IH. apply IH.
    + split; [exact ND | split; assumption].
    + apply path_set_wf; assumption.
    + apply path_set_no_empty; assumption.
    + intros q w. rewrite (path_set_leaf_at p d v q Hp_ne Hun).
      rewrite in_app_iff. destruct (path_eqb q p) eqn:E.
      * apply path_eqb_eq in E. subst q. split.
        -- intros H; inversion H; subst. right; left; reflexivity.
        -- intros [H|[H|[]]].
           ++ exfalso. apply Hp_notdone. change p with (fst (p, w)). apply in_map; exact H.
           ++ inversion H; reflexivity.
      * rewrite Hinv. split; [intros H; left; exact H|].
        intros [H|[H|[]]]; [exact H|]. inversion H; subst.
        assert (path_eqb q q = true) by (apply path_eqb_eq; reflexivity). congruence.
Qed.

(** the settings to apply form a prefix-free set of non-empty paths *)
Lemma want_paths_sub t pfx env :
  forall p, In p (map fst (want_of (conv_of (applicable t pfx env)))) ->
            In p (map fst (leaf_paths t)).
Proof.
  intros p H. apply in_map_iff in H as [[p' v] [E H]]. simpl in E; subst p'.
  unfold want_of in H. apply in_flat_map in H as [[p2 r] [H2 H3]].
  simpl in H3. destruct r as [v2|e]; [|contradiction]. destruct H3 as [H3|[]]. inversion H3; subst.
  unfold conv_of in H2. apply in_map_iff in H2 as [[[p3 old] s] [E3 H4]]. simpl in E3. inversion E3; subst.
  rewrite applicable_eq in H4. apply in_flat_map in H4 as [[p5 o5] [H5 H6]].
  unfold sel in H6. simpl in H6. destruct (lookup_env _ env); [|contradiction].
  destruct H6 as [H6|[]]. inversion H6; subst.
  change p with (fst (p, old)). apply in_map. exact H5.
Qed.

Lemma NoDup_map_flat_map_sub {A B} (f : A -> list B) (g : A -> path) (h : B -> path) l :
  (forall a b, In b (f a) -> h b = g a) ->
  (forall a, List.length (f a) <= 1) ->
  NoDup (map g l) -> NoDup (map h (flat_map f l)).
Proof.
  intros Hh Hlen. induction l as [|a l IH]; simpl; intros ND; [constructor|].
  inversion ND as [|? ? Hx ND']; subst. rewrite map_app. apply NoDup_app_intro.
  - specialize (Hlen a). destruct (f a) as [|b [|b2 r]]; simpl in *; try lia;
      [constructor | constructor; [intros [] | constructor]].
  - apply IH; assumption.
  - intros p Hp Hp2. apply in_map_iff in Hp as [b [Eb Hb]]. rewrite (Hh a b Hb) in Eb. subst p.
    apply Hx. apply in_map_iff in Hp2 as [b2 [Eb2 Hb2]]. apply in_flat_map in Hb2 as [a2 [Ha2 Hb2]].
    rewrite (Hh a2 b2 Hb2) in Eb2. rewrite <- Eb2. apply in_map. exact Ha2.
Qed.

Lemma want_as_flat_map t pfx env :
  want_of (conv_of (applicable t pfx env)) =
  flat_map (fun pv => match lookup_env (pfx ++ var_name (fst pv)) env with
                      | Some s => match convert (snd pv) s with Ok v => [(fst pv, v)] | Err _ => [] end
                      | None => []
                      end) (leaf_paths t).
Proof.
  rewrite applicable_eq. induction (leaf_paths t) as [|[p old] l IH]; [reflexivity|].
  cbn [flat_map]. unfold conv_of, want_of in *. rewrite map_app, flat_map_app, IH. f_equal.
  unfold sel. cbn [fst snd]. destruct (lookup_env (pfx ++ var_name p) env) as [s|]; [|reflexivity].
  cbn [map flat_map fst snd]. destruct (convert old s); reflexivity.
Qed.

Lemma want_prefix_free kids pfx env :
  wf (Node kids) = true ->
  prefix_free (want_of (conv_of (applicable (Node kids) pfx env))).
Proof.
  intros Hwf. set (t := Node kids) in *. split; [|split].
  - rewrite want_as_flat_map.
    apply NoDup_map_flat_map_sub with (g := fst).
    + intros [p old] [q v] H. simpl in *. destruct (lookup_env _ env); [|contradiction].
      destruct (convert old s); [|contradiction]. destruct H as [H|[]]. inversion H; reflexivity.
    + intros [p old]. simpl. destruct (lookup_env _ env); [|simpl; lia].
      destruct (convert old s); simpl; lia.
    + apply wf_leaf_paths_NoDup; assumption.
  - intros p q Hp Hq Hpre. apply want_paths_sub in Hp, Hq.
    apply in_map_iff in Hp as [[p' v] [Ep Hp]]. apply in_map_iff in Hq as [[q' w] [Eq Hq]].
    simpl in *; subst p' q'.
    apply (leaf_paths_leaf_at t Hwf) in Hp, Hq.
    eapply leaf_at_prefix_eq; eauto.
  - intros p Hp. apply want_paths_sub in Hp. apply in_map_iff in Hp as [[p' v] [Ep Hp]].
    simpl in Ep; subst p'. apply (leaf_paths_leaf_at t Hwf) in Hp. intros ->. discriminate.
Qed.

Lemma subset_pv_intro l1 l2 : (forall x, In x l1 -> In x l2) -> subset_pv l1 l2 = true.
Proof.
  intros H. unfold subset_pv. apply forallb_forall. intros x Hx. apply existsb_exists.
  exists x. split; [apply H; exact Hx|]. unfold pv_eqb.
  assert (path_eqb (fst x) (fst x) = true) as -> by (apply path_eqb_eq; reflexivity).
  assert (value_eqb (snd x) (snd x) = true) as -> by (apply value_eqb_eq; reflexivity).
  reflexivity.
Qed.

(** * 4. The model satisfies the specification *)

Theorem load_meets_spec kids pfx env :
  wf (Node kids) = true ->
  spec_ok (Node kids) pfx env (load (Node kids) pfx env) = true.
Proof.
  intros Hwf. unfold spec_ok, load. rewrite (crawl_root _ Hwf).
  destruct (ambiguous (Node kids)); [reflexivity|].
  unfold entries_at. rewrite apply_vars_app. rewrite <- applicable_eq.
  set (app := applicable (Node kids) pfx env).
  change (map (fun x => (fst (fst x), convert (snd (fst x)) (snd x))) app) with (conv_of app).
  destruct (existsb (fun pc => is_err (snd pc)) (conv_of app)) eqn:Eerr.
  - destruct (apply_app_err app [] Eerr) as [e [E1 E2]]. rewrite E1. exact E2.
  - rewrite (apply_app_ok app [] Eerr).
    change (flat_map (fun pc => match snd pc with Ok v => [(fst pc, v)] | Err _ => [] end) (conv_of app))
      with (want_of (conv_of app)).
    set (want := want_of (conv_of app)).
    pose proof (want_prefix_free kids pfx env Hwf) as PF. fold app in PF. fold want in PF.
    destruct (fold_pset_inv want [] [] PF eq_refl eq_refl) as [W [NE L]].
    { intros q w. split; [intros H; destruct q; discriminate | intros []]. }
    change (fun d pv => path_set d (fst pv) (snd pv)) with pset.
    simpl in L. rewrite W, NE. simpl.
    apply andb_true_iff; split; apply subset_pv_intro; intros [q w] H.
    + apply (leaf_paths_leaf_at _ W). apply L. exact H.
    + apply L. apply (leaf_paths_leaf_at _ W). exact H.
Qed.

(** * 5. Readable corollaries *)

Lemma convert_err_kind old s e : convert old s = Err e -> e = EValue \/ e = EUncastable.
Proof.
  destruct old; simpl; try discriminate.
  - destruct (parse_int s); [discriminate | intros H; inversion H; auto].
  - intros H; inversion H; auto.
  - intros H; inversion H; auto.
Qed.

Lemma apply_app_not_ambig a : forall d, apply_app a d <> Err EAmbigEnv.
Proof.
  induction a as [|[[p old] s] a IH]; intros d; [discriminate|].
  cbn [apply_app]. destruct (convert old s) as [v|e] eqn:C; [apply IH|].
  apply convert_err_kind in C as [->| ->]; discriminate.
Qed.

Definition collide (t : tree) : Prop :=
  exists p q, In p (map fst (leaf_paths t)) /\ In q (map fst (leaf_paths t)) /\
              p <> q /\ var_name p = var_name q.

Lemma ambiguous_collide t : ambiguous t = true <-> collide t.
Proof.
  unfold ambiguous, collide. rewrite existsb_exists. split.
  - intros [p [Hp H]]. apply existsb_exists in H as [q [Hq H]].
    apply andb_true_iff in H as [H1 H2]. exists p, q. repeat split; try assumption.
    + intros ->. apply negb_true_iff in H1.
      assert (path_eqb q q = true) by (apply path_eqb_eq; reflexivity). congruence.
    + apply String.eqb_eq; exact H2.
  - intros [p [q [Hp [Hq [Hne E]]]]]. exists p. split; [assumption|].
    apply existsb_exists. exists q. split; [assumption|].
    rewrite E, String.eqb_refl, andb_true_r. apply negb_true_iff.
    destruct (path_eqb p q) eqn:Eb; [apply path_eqb_eq in Eb; contradiction | reflexivity].
Qed.

Theorem load_ambiguous_iff kids pfx env :
  wf (Node kids) = true ->
  (load (Node kids) pfx env = Err EAmbigEnv <-> collide (Node kids)).
Proof.
  intros Hwf. rewrite <- ambiguous_collide. unfold load. rewrite (crawl_root _ Hwf).
  destruct (ambiguous (Node kids)); [tauto|].
  unfold entries_at. rewrite apply_vars_app. split; [|discriminate].
  intros H. exfalso. eapply apply_app_not_ambig; eauto.
Qed.

(** what [spec_ok] implies about an accepted outcome: nothing new is created,
    and every setting in the result comes from a named, convertible variable *)
Lemma pv_eqb_eq a b : pv_eqb a b = true -> a = b.
Proof.
  destruct a, b. unfold pv_eqb. simpl. intros H. apply andb_true_iff in H as [H1 H2].
  apply path_eqb_eq in H1. apply value_eqb_eq in H2. congruence.
Qed.

Lemma subset_pv_elim l1 l2 : subset_pv l1 l2 = true -> forall x, In x l1 -> In x l2.
Proof.
  unfold subset_pv. rewrite forallb_forall. intros H x Hx. specialize (H x Hx).
  apply existsb_exists in H as [y [Hy E]]. apply pv_eqb_eq in E. subst y. exact Hy.
Qed.

Theorem spec_never_creates t pfx env d :
  spec_ok t pfx env (Ok d) = true ->
  forall q w, In (q, w) (leaf_paths (Node d)) ->
    exists old s, In (q, old) (leaf_paths t) /\ lookup_env (pfx ++ var_name q) env = Some s /\
                  convert old s = Ok w.
Proof.
  unfold spec_ok. destruct (ambiguous t); [discriminate|].
  change (map (fun x => (fst (fst x), convert (snd (fst x)) (snd x))) (applicable t pfx env))
    with (conv_of (applicable t pfx env)).
  destruct (existsb (fun pc => is_err (snd pc)) (conv_of (applicable t pfx env))); [discriminate|].
  change (flat_map (fun pc => match snd pc with Ok v => [(fst pc, v)] | Err _ => [] end)
                   (conv_of (applicable t pfx env)))
    with (want_of (conv_of (applicable t pfx env))).
  intros H q w Hin. apply andb_true_iff in H as [H Hsub2]. apply andb_true_iff in H as [_ Hsub1].
  apply (subset_pv_elim _ _ Hsub2) in Hin. rewrite want_as_flat_map in Hin.
  apply in_flat_map in Hin as [[p old] [Hp Hm]]. simpl in Hm.
  destruct (lookup_env (pfx ++ var_name p) env) as [s|] eqn:L; [|contradiction].
  destruct (convert old s) as [v|e] eqn:C; [|contradiction].
  destruct Hm as [Hm|[]]. inversion Hm; subst. exists old, s. auto.
Qed.

Theorem load_never_creates kids pfx env d :
  wf (Node kids) = true -> load (Node kids) pfx env = Ok d ->
  forall q w, In (q, w) (leaf_paths (Node d)) ->
    exists old s, In (q, old) (leaf_paths (Node kids)) /\
                  lookup_env (pfx ++ var_name q) env = Some s /\ convert old s = Ok w.
Proof.
  intros Hwf Hl. apply (spec_never_creates (Node kids) pfx env d).
  rewrite <- Hl. apply load_meets_spec; assumption.
Qed.

(** every named, convertible setting is applied *)
Theorem load_applies_all kids pfx env d :
  wf (Node kids) = true -> load (Node kids) pfx env = Ok d ->
  forall q old s, In (q, old) (leaf_paths (Node kids)) ->
    lookup_env (pfx ++ var_name q) env = Some s ->
    exists w, convert old s = Ok w /\ In (q, w) (leaf_paths (Node d)).
Proof.
  intros Hwf Hl q old s Hq Hs.
  pose proof (load_meets_spec kids pfx env Hwf) as Sp. rewrite Hl in Sp.
  unfold spec_ok in Sp. destruct (ambiguous (Node kids)); [discriminate|].
  change (map (fun x => (fst (fst x), convert (snd (fst x)) (snd x))) (applicable (Node kids) pfx env))
    with (conv_of (applicable (Node kids) pfx env)) in Sp.
  destruct (existsb (fun pc => is_err (snd pc)) (conv_of (applicable (Node kids) pfx env))) eqn:Eerr;
    [discriminate|].
  change (flat_map (fun pc => match snd pc with Ok v => [(fst pc, v)] | Err _ => [] end)
                   (conv_of (applicable (Node kids) pfx env)))
    with (want_of (conv_of (applicable (Node kids) pfx env))) in Sp.
  apply andb_true_iff in Sp as [Sp _]. apply andb_true_iff in Sp as [_ Hsub1].
  assert (Hc : exists w, convert old s = Ok w).
  { destruct (convert old s) as [w|e] eqn:C; [eauto|]. exfalso.
    assert (existsb (fun pc => is_err (snd pc)) (conv_of (applicable (Node kids) pfx env)) = true); [|congruence].
    apply existsb_exists. exists (q, Err e). split; [|reflexivity].
    unfold conv_of. apply in_map_iff. exists (q, old, s). simpl. rewrite C. split; [reflexivity|].
    rewrite applicable_eq. apply in_flat_map. exists (q, old). split; [assumption|].
    unfold sel. simpl. rewrite Hs. left; reflexivity. }
  destruct Hc as [w C]. exists w. split; [assumption|].
  apply (subset_pv_elim _ _ Hsub1). rewrite want_as_flat_map. apply in_flat_map.
  exists (q, old). split; [assumption|]. simpl. rewrite Hs, C. left; reflexivity.
Qed.

(** variables that name no setting are ignored *)
Lemma apply_vars_ext pfx env env' vars : forall d,
  (forall e, In e vars -> env_get (pfx ++ fst e) env = env_get (pfx ++ fst e) env') ->
  apply_vars pfx env vars d = apply_vars pfx env' vars d.
Proof.
  induction vars as [|[var [p old]] vars IH]; intros d H; [reflexivity|].
  cbn [apply_vars]. pose proof (H (var, (p, old)) (or_introl eq_refl)) as H0. cbn [fst] in H0.
  rewrite <- H0. destruct (env_get (pfx ++ var) env) as [s|].
  - destruct (cast old s); [|reflexivity]. apply IH. intros e He. apply H. right; exact He.
  - apply IH. intros e He. apply H. right; exact He.
Qed.

Theorem load_unrelated_ignored kids pfx env env' :
  wf (Node kids) = true ->
  (forall p, In p (map fst (leaf_paths (Node kids))) ->
             lookup_env (pfx ++ var_name p) env = lookup_env (pfx ++ var_name p) env') ->
  load (Node kids) pfx env = load (Node kids) pfx env'.
Proof.
  intros Hwf H. unfold load. rewrite (crawl_root _ Hwf).
  destruct (ambiguous (Node kids)); [reflexivity|].
  apply apply_vars_ext. intros [var [p old]] He. unfold entries_at in He.
  apply in_map_iff in He as [[p0 v0] [E Hin]]. unfold mk_entry in E. simpl in E.
  inversion E as [[Ev Ep Eo]]. subst var p old. cbn [fst]. rewrite !env_get_lookup.
  change (env_var p0) with (var_name p0). apply H. apply (in_map fst _ _ Hin).
Qed.

Theorem cast_table :
  (forall b s, cast (VBool b) s = Ok (VBool (negb (String.eqb s "" || String.eqb s "0")))) /\
  (forall x s, cast (VStr x) s = Ok (VStr s)) /\
  (forall s, cast VNone s = Ok (VStr s)) /\
  (forall l s, cast (VList l) s = Err EUncastable) /\
  (forall l s, cast (VTuple l) s = Err EUncastable) /\
  (forall z s, cast (VInt z) s = match parse_int s with Some n => Ok (VInt n) | None => Err EValue end).
Proof.
  repeat split; try reflexivity.
  intros b s. simpl. destruct (String.eqb s "0"), (String.eqb s ""); reflexivity.
Qed.
