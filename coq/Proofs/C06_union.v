(** The specification's deep union of the levels shows, at every path, what the
    model's merge of the same levels shows (for type-consistent levels); and
    replaying a journal respects "shows the same at every path". *)
From InvokeVerif Require Import Common.Tree Common.StrUtil Model.MergeModel Model.ConfigModel
     Spec.C03Spec Spec.C06Spec Proofs.ListFacts Proofs.TreeFacts Proofs.C03_merge Proofs.C03_levels
     Proofs.C06_shapes Proofs.C06_track.

Definition ov_val (bv : option tree) (v : tree) : tree :=
  match bv with Some va => overlay va v | None => v end.

Fixpoint ov_list (l : list (string * tree)) (acc : dict) : dict :=
  match l with
  | [] => acc
  | (k, vb) :: l' => ov_list l' (set k (ov_val (get k acc) vb) acc)
  end.

Lemma overlay_Node ka kb : overlay (Node ka) (Node kb) = Node (ov_list kb ka).
Proof.
  reflexivity.
Qed.

Definition ov_IH (b : tree) : Prop :=
  wf b = true -> forall a, wf a = true -> agree a b ->
  wf (overlay a b) = true /\
  forall q, shape_at q (overlay a b) = orelse (shape_at q b) (shape_at q a).

Lemma ov_list_spec us :
  Forall (fun kt => ov_IH (snd kt)) us -> NoDup (keys us) ->
  Forall (fun kt => wf (snd kt) = true) us ->
  forall base, wf (Node base) = true ->
    (forall k v bv, get k us = Some v -> get k base = Some bv -> agree bv v) ->
    wf (Node (ov_list us base)) = true /\
    forall k, match get k us with
              | Some v => exists r, get k (ov_list us base) = Some r /\
                           forall q, shape_at q r = orelse (shape_at q v) (shape_opt q (get k base))
              | None => get k (ov_list us base) = get k base
              end.
Proof.
  induction us as [|[k0 v0] rest IHl]; intros HIH ND Hwf base Hb Hag.
  - simpl. split; [assumption|]. intros k; reflexivity.
  - inversion HIH as [|? ? IH0 HIHr]; subst. simpl in IH0.
    inversion ND as [|? ? Hnin NDr]; subst.
    inversion Hwf as [|? ? Hwf0 Hwfr]; subst. simpl in Hwf0.
    cbn [ov_list].
    assert (Hstep : wf (ov_val (get k0 base) v0) = true /\
              forall q, shape_at q (ov_val (get k0 base) v0) =
                        orelse (shape_at q v0) (shape_opt q (get k0 base))).
    { unfold ov_val. destruct (get k0 base) as [bv|] eqn:G.
      - apply IH0; [assumption | eapply wf_get; eassumption |].
        apply (Hag k0 v0 bv); [simpl; rewrite String.eqb_refl; reflexivity | exact G].
      - split; [assumption|]. intros q. simpl. rewrite orelse_none_r. reflexivity. }
    destruct Hstep as [W0 S0].
    assert (Hb' : wf (Node (set k0 (ov_val (get k0 base) v0) base)) = true)
      by (apply wf_Node_set; assumption).
    destruct (IHl HIHr NDr Hwfr _ Hb') as [Wm Sm].
    { intros k v bv Gk Gb. rewrite get_set in Gb.
      destruct (String.eqb k k0) eqn:E.
      - apply String.eqb_eq in E; subst. exfalso. apply Hnin. eapply get_in_keys; eassumption.
      - apply (Hag k v bv); [simpl; rewrite E; exact Gk | exact Gb]. }
    split; [assumption|].
    intros k. simpl. destruct (String.eqb k k0) eqn:E.
    + apply String.eqb_eq in E; subst k.
      assert (Gr : get k0 rest = None) by (apply get_none_not_in; exact Hnin).
      specialize (Sm k0). rewrite Gr in Sm. eexists. split; [|exact S0].
      rewrite Sm, get_set, String.eqb_refl. reflexivity.
    + specialize (Sm k). rewrite get_set, E in Sm. exact Sm.
Qed.

Theorem overlay_shape : forall b, ov_IH b.
Proof.
  induction b as [v | us IH] using tree_ind'; intros Hwf a Ha Hag.
  - simpl. split; [reflexivity|]. intros [|k q]; [reflexivity|].
    pose proof (Hag []) as H0. destruct a as [w|ka]; [reflexivity | contradiction].
  - destruct a as [w|ka]; [exfalso; exact (Hag [])|].
    rewrite overlay_Node. apply wf_Node_inv in Hwf as [ND Hk].
    destruct (ov_list_spec us IH ND Hk ka Ha) as [W S].
    + intros k v bv Gu Gb. eapply agree_child; eassumption.
    + split; [assumption|]. intros [|k q]; [reflexivity|].
      rewrite !shape_at_cons_Node'. specialize (S k).
      destruct (get k us) as [v|].
      * destruct S as [r [Gr Sr]]. rewrite Gr. simpl. apply Sr.
      * rewrite S. reflexivity.
Qed.

Lemma union_shape : forall ls acc,
  wf acc = true -> is_node acc = true ->
  (forall l, In l ls -> wf l = true /\ is_node l = true /\ agree acc l) ->
  (forall a b, In a ls -> In b ls -> agree a b) ->
  wf (fold_left overlay ls acc) = true /\ is_node (fold_left overlay ls acc) = true /\
  forall q, shape_at q (fold_left overlay ls acc) = orelse (oracle q ls) (shape_at q acc).
Proof.
  induction ls as [|l rest IH]; intros acc Wa Na Hl Hpair.
  - simpl. split; [assumption|]. split; [assumption|]. intros q; reflexivity.
  - destruct (Hl l (or_introl eq_refl)) as [Wl [Nl Al]].
    destruct (overlay_shape l Wl acc Wa Al) as [W1 S1].
    assert (N1 : is_node (overlay acc l) = true).
    { destruct l as [|us]; [discriminate|]. destruct acc as [|ka]; [discriminate|].
      rewrite overlay_Node. reflexivity. }
    cbn [fold_left]. destruct (IH (overlay acc l) W1 N1) as [Wm [Nm Sm]].
    + intros l' Hin. destruct (Hl l' (or_intror Hin)) as [W' [N' A']].
      split; [assumption|]. split; [assumption|]. intros q. rewrite S1.
      pose proof (Hpair l l' (or_introl eq_refl) (or_intror Hin) q) as Hp.
      pose proof (A' q) as Ha. destruct (shape_at q l); simpl; assumption.
    + intros a b Ha Hb. apply Hpair; right; assumption.
    + split; [assumption|]. split; [assumption|].
      intros q. rewrite Sm, S1, oracle_cons, orelse_assoc. reflexivity.
Qed.

(** The spec's union of the levels and the model's merge of the levels show the
    same at every path. *)
Theorem union_sim_merge : forall ls X,
  (forall l, In l ls -> wf l = true /\ is_node l = true) ->
  (forall a b, In a ls -> In b ls -> agree a b) ->
  merge_all ls [] = Ok X -> sim (union_of ls) (Node X).
Proof.
  intros ls X Hl Hpair EX q.
  destruct (union_shape ls (Node []) eq_refl eq_refl) as [_ [_ Su]]; [| exact Hpair |].
  { intros l Hin. destruct (Hl l Hin) as [W N]. split; [assumption|]. split; [assumption|].
    destruct l; [discriminate|]. apply agree_empty_node. }
  destruct (merge_all_shape ls [] eq_refl) as [m [Em [_ Sm]]]; [| exact Hpair |].
  { intros l Hin. destruct (Hl l Hin) as [W N]. split; [assumption|]. split; [assumption|].
    destruct l; [discriminate|]. apply agree_empty_node. }
  rewrite EX in Em. inversion Em; subst m. unfold union_of. rewrite Su, Sm. reflexivity.
Qed.

(** * replay respects [sim] *)
Lemma shape_set_path_by_cases p d v q : p <> [] ->
  shape_at q (Node (set_path d p v)) =
  if is_prefix p q then shape_at (skipn (List.length p) q) v
  else if is_prefix q p then Some SNode
  else shape_at q (Node d).
Proof.
  intros Hp. destruct (path_cases p q) as [[r ->]|[[r [Hr E]]|[N1 N2]]].
  - rewrite is_prefix_app, set_path_at by assumption.
    rewrite skipn_app, skipn_all, Nat.sub_diag. reflexivity.
  - assert (Hpq : is_prefix p q = false).
    { destruct (is_prefix p q) eqn:Epq; [|reflexivity]. apply is_prefix_iff in Epq as [r2 E2].
      rewrite E2, <- app_assoc in E. apply (f_equal (@List.length string)) in E.
      rewrite !app_length in E. destruct r; [congruence|]. simpl in E. lia. }
    rewrite Hpq. subst p. rewrite is_prefix_app, set_path_prefix by assumption. reflexivity.
  - rewrite N1, N2. apply set_path_other; assumption.
Qed.

Lemma apply_event_sim a b e : wf (Node a) = true -> wf (Node b) = true -> event_wf e ->
  sim (Node a) (Node b) -> sim (Node (apply_event a e)) (Node (apply_event b e)).
Proof.
  intros Wa Wb He H q. destruct e as [p v|p]; simpl in *.
  - destruct He as [Hp _]. rewrite !shape_set_path_by_cases by assumption. rewrite (H q). reflexivity.
  - rewrite !del_path_shape by assumption. rewrite (H q). reflexivity.
Qed.

Lemma replay_sim : forall J a b, wf (Node a) = true -> wf (Node b) = true -> Forall event_wf J ->
  sim (Node a) (Node b) -> sim (Node (replay (Node a) J)) (Node (replay (Node b) J)).
Proof.
  unfold replay. induction J as [|e J IH]; intros a b Wa Wb HJ H; [exact H|].
  inversion HJ; subst. simpl. apply IH; try assumption.
  - apply wf_apply_event; assumption.
  - apply wf_apply_event; assumption.
  - apply apply_event_sim; assumption.
Qed.
