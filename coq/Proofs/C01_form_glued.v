(** C01, spelling form "-nvalue" (a value glued to a short flag): the token is
    split into the flag and the rest, the rest is handled as the flag's value.
    Same shape as [occ_steps] (Proofs/C01_occ.v). *)
From InvokeVerif Require Import Model.ParserModel Corr.C01Corr Proofs.ListFacts Proofs.C07_fuel
     Proofs.C01_steps Proofs.C01_tokens Proofs.C01_lookup Proofs.C01_occ.
From Coq Require Import Lia.

Lemma contains_char_app a x y :
  contains_char a (x ++ y) = contains_char a x || contains_char a y.
Proof.
  induction x as [|c x IH]; simpl; [reflexivity|]. rewrite IH. apply orb_assoc.
Qed.

(** a clean short flag is "-c" with c <> "-" *)
Lemma short_clean_shape tok :
  clean_flag tok = true -> String.length tok = 2 ->
  exists c, tok = String "-" (String c EmptyString) /\ Ascii.eqb c "-" = false.
Proof.
  unfold clean_flag. rewrite !andb_true_iff, !negb_true_iff. intros [[[D E] L] N] Len.
  destruct tok as [|a [|c [|d tok]]]; try discriminate.
  cbn [starts_with] in D. destruct (Ascii.eqb "-" a) eqn:Ea; [|cbn in D; discriminate D].
  apply Ascii.eqb_eq in Ea. subst a. exists c. split; [reflexivity|].
  destruct (Ascii.eqb c "-") eqn:Ec; [|reflexivity].
  apply Ascii.eqb_eq in Ec. subst c. discriminate.
Qed.

Lemma glued_presplit m tok s c i r :
  clean_flag tok = true -> String.length tok = 2 ->
  contains_char "=" s = false -> s <> EmptyString ->
  m_unparsed m = [] -> m_st m = SContext -> cur_ctx m = Some c ->
  find_flag (rc_args c) tok = Some i -> nth_error (rc_args c) i = Some r ->
  takes_value (r_spec r) = true ->
  presplit m (tok ++ s) = Ok (tok, [s]).
Proof.
  intros C Len Eq Ne U St Cc F N Tv.
  destruct (short_clean_shape tok C Len) as [ch [-> Hch]].
  unfold clean_flag in C. rewrite !andb_true_iff, !negb_true_iff in C. destruct C as [[[_ E] _] _].
  unfold presplit, is_flag, is_long_flag. rewrite U.
  cbn [append starts_with]. rewrite Ascii.eqb_refl. cbn [andb].
  change (String "-" (String ch s)) with (String "-" (String ch EmptyString) ++ s)%string.
  rewrite contains_char_app, E, Eq. cbn [orb].
  cbn [append starts_with].
  assert (Hd : Ascii.eqb "-" ch = false).
  { destruct (Ascii.eqb "-" ch) eqn:X; [|reflexivity]. apply Ascii.eqb_eq in X. subst ch. discriminate. }
  rewrite Hd. cbn [andb negb].
  destruct s as [|d s]; [now elim Ne|].
  cbn [String.length Nat.ltb Nat.leb take drop]. rewrite Cc, F, N, Tv, St. reflexivity.
Qed.

Section Glued.
Variable p : parser.
Variable i0 : rctx.
Variable done : list rctx.
Variable cur : rctx.
Let kk := S (List.length done).
Let args := rc_args cur.

Lemma step_glued_flag fl got tok s i r :
  inert (MS i0 done cur fl got) -> clean_flag tok = true -> String.length tok = 2 ->
  contains_char "=" s = false -> s <> EmptyString ->
  find_flag args tok = Some i -> nth_error args i = Some r ->
  takes_value (r_spec r) = true ->
  step p (MS i0 done cur fl got) (tok ++ s) = Ok (MS i0 done cur (Some (kk, i)) false, [s]).
Proof.
  intros I C Len Eq Ne F N Tv. unfold step, bind.
  rewrite (glued_presplit (MS i0 done cur fl got) tok s cur i r C Len Eq Ne eq_refl eq_refl
             (MS_cur i0 done cur fl got) F N Tv).
  rewrite (inert_rollback _ _ _ I). cbn [fst snd].
  rewrite (handle_value_flag p i0 done cur fl got tok i r I F N Tv). reflexivity.
Qed.
End Glued.

(** ** occurrence level *)

(** "-nvalue": short name, non-optional value argument, value plain, non-empty
    and without "=" (F-C01b) *)
Definition occ_glued (c : ctxspec) (given : list nat) (o : occ) : bool :=
  match nth_error (cx_args c) (o_arg o) with
  | None => false
  | Some a =>
      Nat.ltb (o_name o) (List.length (a_names a)) &&
      match o_form o, o_val o with
      | FGlued, VS s =>
          takes_value a && negb (a_optional a) && plain s
          && negb (String.eqb s "") && negb (contains_char "=" s)
          && Nat.eqb (String.length (flag_of a (o_name o))) 2
          && castable a s
          && (akind_eqb (a_kind a) KList || negb (mem_nat (o_arg o) given))
      | _, _ => false
      end
  end.

Lemma occ_glued_steps (cs : list ctxspec) p i0 c given o done cur fl got :
  ctx_guard c = true -> occ_glued c given o = true ->
  st_ok c given (rc_args cur) -> inert (MS i0 done cur fl got) ->
  exists fl' got',
    steps p (MS i0 done cur fl got) (spell_occ c o)
            (MS i0 done (with_args cur (run_occ (rc_args cur) o)) fl' got') /\
    inert (MS i0 done (with_args cur (run_occ (rc_args cur) o)) fl' got') /\
    st_ok c (o_arg o :: given) (run_occ (rc_args cur) o).
Proof.
  intros G Os St I.
  destruct (guard_parts c G) as [ND [Nn [Cl Ld]]].
  unfold occ_glued in Os. unfold spell_occ, run_occ.
  destruct (nth_error (cx_args c) (o_arg o)) as [a|] eqn:Na; [|discriminate].
  apply andb_true_iff in Os. destruct Os as [Lk Os]. apply Nat.ltb_lt in Lk.
  pose proof (so_shape _ _ _ St) as Sh.
  assert (Nr : exists r, nth_error (rc_args cur) (o_arg o) = Some r /\ r_spec r = a).
  { apply nth_error_map_inv. rewrite Sh. exact Na. }
  destruct Nr as [r [Nr Sr]]. rewrite Nr.
  set (tok := flag_of a (o_name o)) in *.
  assert (Tin : In tok (arg_flags a)) by (apply flag_of_in; exact Lk).
  assert (Ctok : clean_flag tok = true).
  { apply Cl. eapply in_all_spellings; [exact Na|]. unfold spellings_of. apply in_or_app. left. exact Tin. }
  assert (Ftok : find_flag (rc_args cur) tok = Some (o_arg o)).
  { rewrite find_flag_args, Sh. eapply find_flag_spec_unique; eauto. }
  destruct (o_form o) eqn:Fo; try discriminate. destruct (o_val o) as [b|n|s|] eqn:Vo; try discriminate.
  rewrite !andb_true_iff, !negb_true_iff in Os.
  destruct Os as [[[[[[[Tv No] Pl] Hne] Heq] Hlen] Hint] Hg].
  unfold plain in Pl. rewrite negb_true_iff in Pl.
  apply String.eqb_neq in Hne. apply Nat.eqb_eq in Hlen.
  assert (Tv' : takes_value (r_spec r) = true) by (rewrite Sr; exact Tv).
  assert (No' : a_optional (r_spec r) = false) by (rewrite Sr; exact No).
  destruct (set_value_str r s Tv') as [r' [SV [Sp [Rw [Nnone Hl]]]]].
  { rewrite Sr. exact Hint. }
  { intros K. eapply (so_list _ _ _ St); eauto. }
  unfold occ_input. rewrite Vo, SV. unfold text_of.
  exists (Some (S (List.length done), o_arg o)), true.
  assert (W : (if akind_eqb (a_kind (r_spec r)) KList && negb false then true else negb (r_raw r)) = true).
  { rewrite Sr. destruct (akind_eqb (a_kind a) KList) eqn:KL; [reflexivity|].
    simpl in Hg. simpl. rewrite negb_true_iff.
    eapply (so_raw _ _ _ St); eauto.
    - rewrite Sr. intros K. rewrite K in KL. discriminate.
    - rewrite negb_true_iff in Hg. exact Hg. }
  split; [|split].
  - eapply steps_pushed.
    + apply (step_glued_flag p i0 done cur fl got tok s (o_arg o) r I Ctok Hlen Heq Hne Ftok Nr Tv').
    + apply (step_value p i0 done cur false s (o_arg o) r r' Nr Tv' No' W Pl SV).
  - apply inert_after; [congruence | exact Rw | rewrite andb_false_r; reflexivity].
  - eapply st_ok_after_set; eauto.
    + intros _ _. unfold mem_nat. simpl. rewrite Nat.eqb_refl. reflexivity.
    + intros j. unfold mem_nat. simpl. rewrite orb_false_iff. tauto.
Qed.
