(** C03: the model's run of EVERY load script is accepted by the whole
    executable specification (the level contents the spec reads off the script
    are the ones the model ends up with; the view is the oracle's; the
    environment level is what the environment names; the suffixes read are the
    first existing ones). *)
From Coq Require Import Lia.
From InvokeVerif Require Import Common.Tree Common.StrUtil Model.MergeModel Model.EnvModel
     Model.ConfigModel Spec.C03Spec Proofs.ListFacts Proofs.TreeFacts Proofs.C03_merge
     Proofs.C03_levels Proofs.C03_order Proofs.C03_script Corr.C03Corr Proofs.C03_envclause.

Local Opaque try_suffixes mem.

(** * I/O failures of a call, as a function of the level fields *)
Definition located_bad (fs : fsys) (f : found) (loc : option string) : bool :=
  match f, loc with
  | FNone, Some l => match try_suffixes fs l file_suffixes with LFail => true | _ => false end
  | _, _ => false
  end.

Definition runtime_bad (fs : fsys) (f : found) (p : option (string * string)) : bool :=
  match f, p with
  | FNone, Some (stem, sfx) =>
      negb (mem sfx file_suffixes) ||
      match fs_get fs stem sfx with Some FIOErr => true | _ => false end
  | _, _ => false
  end.

Definition io_bad (fs : fsys) (c : cfg) (o : op) : bool :=
  match undefer o with
  | LoadSystem => located_bad fs (c_sys_found c) (c_sys_loc c)
  | LoadUser => located_bad fs (c_user_found c) (c_user_loc c)
  | LoadProject => located_bad fs (c_proj_found c) (c_proj_loc c)
  | LoadRuntime => runtime_bad fs (c_rt_found c) (c_rt_path c)
  | _ => false
  end.

Lemma io_bad_cache fs c d o : io_bad fs (set_cache c d) o = io_bad fs c o.
Proof. destruct o, c; reflexivity. Qed.

(** A failing call raises (and leaves the state alone). *)
Lemma io_bad_step fs c o : script_op o = true -> io_bad fs c o = true ->
  step fs c o = (c, OErr EOther).
Proof.
  intros Hs H. destruct o; try discriminate; unfold io_bad in H; cbn [undefer] in H;
    unfold step, step_with, with_flag, load_system, load_user, load_project, load_located, load_runtime;
    unfold located_bad, runtime_bad in H.
  all: try (destruct (c_sys_found c); try discriminate; destruct (c_sys_loc c); try discriminate;
            destruct (try_suffixes fs s file_suffixes); try discriminate; reflexivity).
  all: try (destruct (c_user_found c); try discriminate; destruct (c_user_loc c); try discriminate;
            destruct (try_suffixes fs s file_suffixes); try discriminate; reflexivity).
  all: try (destruct (c_proj_found c); try discriminate; destruct (c_proj_loc c); try discriminate;
            destruct (try_suffixes fs s file_suffixes); try discriminate; reflexivity).
  all: destruct (c_rt_found c); try discriminate; destruct (c_rt_path c) as [[stem sfx]|]; try discriminate;
    destruct (negb (mem sfx file_suffixes)); [reflexivity|];
    destruct (fs_get fs stem sfx) as [[t|]|]; try discriminate; reflexivity.
Qed.

(** A call that does not fail on I/O: no merge, or a merge that succeeds, or a
    merge that fails (then that is the exception). *)
Definition step_cases (fs : fsys) (c : cfg) (o : op) : Prop :=
  let c1 := pure_step fs c o in
  step fs c o = (c1, ONone) \/
  (exists d, merge c1 = Ok d /\ step fs c o = (set_cache c1 d, ONone)) \/
  (exists e, merge c1 = Err e /\ snd (step fs c o) = OErr e).

Lemma remerge_cases c1 :
  (exists d, merge c1 = Ok d /\ remerge c1 ONone = (set_cache c1 d, ONone)) \/
  (exists e, merge c1 = Err e /\ snd (remerge c1 ONone) = OErr e).
Proof.
  unfold remerge. destruct (merge c1) as [d|e]; [left; exists d | right; exists e]; auto.
Qed.

Ltac finish_remerge c1 :=
  destruct (remerge_cases c1) as [[d [Em Er]]|[e [Em Er]]];
  [ right; left; exists d; split; [exact Em|]; rewrite Er; reflexivity
  | right; right; exists e; split; [exact Em|]; destruct (remerge c1 ONone); exact Er ].

Lemma load_located_nomerge fs c fnd loc upd old :
  located_bad fs fnd loc = false ->
  load_located fs c fnd loc upd old false =
  (match located_upd fs fnd loc old with Some (t, f, s) => upd c t f s | None => c end, ONone, false).
Proof.
  unfold load_located, located_upd, located_bad. intros H.
  destruct fnd; try reflexivity. destruct loc as [l|]; try reflexivity.
  destruct (try_suffixes fs l file_suffixes); try discriminate; reflexivity.
Qed.

Lemma load_runtime_nomerge fs c :
  runtime_bad fs (c_rt_found c) (c_rt_path c) = false ->
  load_runtime fs c false =
  (match runtime_upd fs (c_rt_found c) (c_rt_path c) with Some (t, f, _) => set_runtime c t f | None => c end,
   ONone, false).
Proof.
  unfold load_runtime, runtime_upd, runtime_bad. intros H.
  destruct (c_rt_found c); try reflexivity. destruct (c_rt_path c) as [[stem sfx]|]; try reflexivity.
  destruct (negb (mem sfx file_suffixes)); [discriminate|]. cbn [orb] in H.
  destruct (fs_get fs stem sfx) as [[t|]|]; try discriminate; try reflexivity.
  destruct (String.eqb sfx "py"); reflexivity.
Qed.

Lemma step_script_cases fs c o : script_op o = true -> io_bad fs c o = false -> step_cases fs c o.
Proof.
  intros Hs H. unfold step_cases. cbv zeta.
  destruct o; try discriminate; unfold io_bad in H; cbn [undefer] in H;
    unfold step, step_with, merged, with_flag, pure_step, load_pure, guard, setter; cbn [undefer].
  - finish_remerge (set_defaults c t).
  - finish_remerge (set_overrides c t).
  - finish_remerge (set_collection c t).
  - unfold load_system, load_located, located_upd, located_bad in *.
    destruct (c_sys_found c); try (left; reflexivity). destruct (c_sys_loc c) as [l|]; try (left; reflexivity).
    destruct (try_suffixes fs l file_suffixes); try discriminate; [|left; reflexivity].
    cbn [fst snd]. finish_remerge (set_system c t FTrue (Some sfx)).
  - unfold load_user, load_located, located_upd, located_bad in *.
    destruct (c_user_found c); try (left; reflexivity). destruct (c_user_loc c) as [l|]; try (left; reflexivity).
    destruct (try_suffixes fs l file_suffixes); try discriminate; [|left; reflexivity].
    cbn [fst snd]. finish_remerge (set_user c t FTrue (Some sfx)).
  - unfold load_project, load_located, located_upd, located_bad in *.
    destruct (c_proj_found c); try (left; reflexivity). destruct (c_proj_loc c) as [l|]; try (left; reflexivity).
    destruct (try_suffixes fs l file_suffixes); try discriminate; [|left; reflexivity].
    cbn [fst snd]. finish_remerge (set_project c t FTrue (Some sfx)).
  - unfold load_runtime, runtime_upd, runtime_bad in *.
    destruct (c_rt_found c); try (left; reflexivity). destruct (c_rt_path c) as [[stem sfx]|]; try (left; reflexivity).
    destruct (negb (mem sfx file_suffixes)); [discriminate|]. cbn [orb] in H.
    destruct (fs_get fs stem sfx) as [[t|]|]; try discriminate.
    + cbn [fst snd]. finish_remerge (set_runtime c t FTrue).
    + destruct (String.eqb sfx "py"); cbn [fst snd].
      * finish_remerge (set_runtime c (Node []) FTrue).
      * finish_remerge c.
  - left; reflexivity.
  - left; reflexivity.
  - left; reflexivity.
  - left; reflexivity.
  - left; reflexivity.
  - unfold load_system. rewrite load_located_nomerge by exact H. left; reflexivity.
  - unfold load_user. rewrite load_located_nomerge by exact H. left; reflexivity.
  - unfold load_project. rewrite load_located_nomerge by exact H. left; reflexivity.
  - rewrite load_runtime_nomerge by exact H. left; reflexivity.
  - finish_remerge c.
Qed.

(** * No I/O failure along a fold *)
Fixpoint no_bad (fs : fsys) (c : cfg) (ops : list op) : bool :=
  match ops with
  | [] => true
  | o :: r => negb (io_bad fs c o) && no_bad fs (pure_step fs c o) r
  end.

Lemma no_bad_app fs : forall a c b,
  no_bad fs c (a ++ b) = no_bad fs c a && no_bad fs (apply_script fs c a) b.
Proof.
  induction a as [|o a IH]; intros c b; [reflexivity|].
  simpl. rewrite IH, andb_assoc. reflexivity.
Qed.

Lemma after_last_snoc f ops o :
  after_last f (ops ++ [o]) = if f o then [] else after_last f ops ++ [o].
Proof.
  induction ops as [|x ops IH]; simpl.
  - destruct (f o); reflexivity.
  - rewrite existsb_app. simpl. rewrite orb_false_r. rewrite IH.
    destruct (existsb f ops) eqn:E1; simpl.
    + destruct (f o); reflexivity.
    + destruct (f o) eqn:E2; simpl; [reflexivity|].
      destruct (f x); reflexivity.
Qed.

Lemma not_LFail_next fs t l :
  fst (fst t) = FNone -> try_suffixes fs l file_suffixes <> LFail ->
  fst (fst (located_next fs t (Some l))) <> FNone.
Proof.
  destruct t as [[f d] s]. simpl. intros -> H. unfold located_next, located_upd.
  destruct (try_suffixes fs l file_suffixes); simpl; congruence.
Qed.

(** system / user: once a load call for the level is in the script, its first
    existing candidate was readable *)
Lemma located_loaded_ok fs (is_it : op -> bool) (get3 : cfg -> triple) (getloc : cfg -> option string)
      (l : string) :
  (forall c o, script_op o = true -> getloc (pure_step fs c o) = getloc c) ->
  (forall c o, script_op o = true ->
     get3 (pure_step fs c o) = if is_it (undefer o) then located_next fs (get3 c) (getloc c) else get3 c) ->
  (forall c o, is_it (undefer o) = true -> io_bad fs c o = located_bad fs (fst (fst (get3 c))) (getloc c)) ->
  forall ops c, forallb script_op ops = true -> no_bad fs c ops = true -> getloc c = Some l ->
    (fst (fst (get3 c)) = FNone \/ try_suffixes fs l file_suffixes <> LFail) ->
    existsb is_it (map undefer ops) = true -> try_suffixes fs l file_suffixes <> LFail.
Proof.
  intros Hloc Hstep Hbad. induction ops as [|o rest IH]; intros c HF Hnb Hl Hinv Hex; [discriminate|].
  simpl in HF, Hnb, Hex. apply andb_true_iff in HF as [Ho HF']. apply andb_true_iff in Hnb as [Hb Hnb'].
  apply negb_true_iff in Hb.
  destruct (is_it (undefer o)) eqn:Ei.
  - destruct Hinv as [Hf|Hok]; [|exact Hok].
    rewrite (Hbad c o Ei), Hl, Hf in Hb. unfold located_bad in Hb.
    destruct (try_suffixes fs l file_suffixes); try discriminate; congruence.
  - simpl in Hex. apply (IH (pure_step fs c o) HF' Hnb').
    + rewrite Hloc by exact Ho. exact Hl.
    + rewrite Hstep by exact Ho. rewrite Ei. exact Hinv.
    + exact Hex.
Qed.

Lemma forallb_snoc {A} (f : A -> bool) l x : forallb f (l ++ [x]) = forallb f l && f x.
Proof. rewrite forallb_app. simpl. rewrite andb_true_r. reflexivity. Qed.

(** project: a load call after the last re-pointing found a readable candidate *)
Lemma prj_inv fs c0 : forall all,
  forallb script_op all = true -> no_bad fs c0 all = true -> c_proj_found c0 = FNone ->
  let c := apply_script fs c0 all in
  (forall l, c_proj_loc c = Some l -> c_proj_found c <> FNone -> try_suffixes fs l file_suffixes <> LFail) /\
  (existsb isPrj (after_last isSetP (map undefer all)) = true ->
   forall l, c_proj_loc c = Some l -> c_proj_found c <> FNone).
Proof.
  induction all as [|o a IH] using rev_ind; intros HF Hnb H0; cbv zeta.
  - simpl. split; [intros l _ Hf; congruence | discriminate].
  - rewrite forallb_snoc in HF. apply andb_true_iff in HF as [HFa Ho].
    rewrite no_bad_app in Hnb. apply andb_true_iff in Hnb as [Hnba Hb].
    simpl in Hb. rewrite andb_true_r in Hb. apply negb_true_iff in Hb.
    destruct (IH HFa Hnba H0) as [I2 I1]. clear IH.
    rewrite apply_script_app. set (c := apply_script fs c0 a) in *.
    change (apply_script fs c [o]) with (pure_step fs c o).
    fields fs c o Ho.
    rewrite map_app. cbn [map]. rewrite after_last_snoc.
    assert (Hfound : c_proj_found (pure_step fs c o) = fst (fst (prj3 (pure_step fs c o)))) by reflexivity.
    rewrite Hfound, Hp3, Hpl. clear Hfound Hp3 Hpl Hd Ho0 Hc He Hm Hdl Hsl Hul Hpf Hrp Hs3 Hu3 Hr2.
    unfold io_bad in Hb.
    destruct o; try discriminate; cbn [undefer isSetP isPrj fst prj3 blank3] in *;
      try (rewrite existsb_app; cbn [existsb isPrj orb]; rewrite orb_false_r; split; [exact I2 | exact I1]).
    + (* LoadProject *)
      split.
      * intros l Hl Hf. destruct (c_proj_found c) eqn:Ef.
        -- unfold located_bad in Hb. rewrite Hl in Hb.
           destruct (try_suffixes fs l file_suffixes); try discriminate; congruence.
        -- apply (I2 l Hl). congruence.
        -- apply (I2 l Hl). congruence.
      * intros _ l Hl. destruct (c_proj_found c) eqn:Ef.
        -- unfold located_bad in Hb. rewrite Hl in Hb. unfold located_next, located_upd, prj3. rewrite Hl, Ef.
           destruct (try_suffixes fs l file_suffixes); try discriminate; simpl; congruence.
        -- unfold located_next, located_upd, prj3. rewrite Ef. simpl. congruence.
        -- unfold located_next, located_upd, prj3. rewrite Ef. simpl. congruence.
    + (* SetProjectLocation *)
      split; [|discriminate]. intros l0 _ Hf. exfalso. apply Hf. reflexivity.
    + (* LoadProjectD *)
      split.
      * intros l Hl Hf. destruct (c_proj_found c) eqn:Ef.
        -- unfold located_bad in Hb. rewrite Hl in Hb.
           destruct (try_suffixes fs l file_suffixes); try discriminate; congruence.
        -- apply (I2 l Hl). congruence.
        -- apply (I2 l Hl). congruence.
      * intros _ l Hl. destruct (c_proj_found c) eqn:Ef.
        -- unfold located_bad in Hb. rewrite Hl in Hb. unfold located_next, located_upd, prj3. rewrite Hl, Ef.
           destruct (try_suffixes fs l file_suffixes); try discriminate; simpl; congruence.
        -- unfold located_next, located_upd, prj3. rewrite Ef. simpl. congruence.
        -- unfold located_next, located_upd, prj3. rewrite Ef. simpl. congruence.
Qed.

(** runtime: a load call after the last re-pointing met a loadable path *)
Lemma rt_inv fs c0 : forall all,
  forallb script_op all = true -> no_bad fs c0 all = true -> c_rt_found c0 = FNone ->
  let c := apply_script fs c0 all in
  (c_rt_found c <> FNone -> runtime_bad fs FNone (c_rt_path c) = false) /\
  (existsb isRt (after_last isSetR (map undefer all)) = true ->
   runtime_bad fs FNone (c_rt_path c) = false).
Proof.
  induction all as [|o a IH] using rev_ind; intros HF Hnb H0; cbv zeta.
  - simpl. split; [intros Hf; congruence | discriminate].
  - rewrite forallb_snoc in HF. apply andb_true_iff in HF as [HFa Ho].
    rewrite no_bad_app in Hnb. apply andb_true_iff in Hnb as [Hnba Hb].
    simpl in Hb. rewrite andb_true_r in Hb. apply negb_true_iff in Hb.
    destruct (IH HFa Hnba H0) as [I2 I1]. clear IH.
    rewrite apply_script_app. set (c := apply_script fs c0 a) in *.
    change (apply_script fs c [o]) with (pure_step fs c o).
    fields fs c o Ho.
    rewrite map_app. cbn [map]. rewrite after_last_snoc.
    assert (Hfound : c_rt_found (pure_step fs c o) = fst (rt2 (pure_step fs c o))) by reflexivity.
    rewrite Hfound, Hr2, Hrp. clear Hfound Hp3 Hpl Hd Ho0 Hc He Hm Hdl Hsl Hul Hpf Hrp Hs3 Hu3 Hr2.
    unfold io_bad in Hb.
    destruct o; try discriminate; cbn [undefer isSetR isRt fst rt2] in *;
      try (rewrite existsb_app; cbn [existsb isRt orb]; rewrite orb_false_r; split; [exact I2 | exact I1]).
    + (* LoadRuntime *)
      assert (G : runtime_bad fs FNone (c_rt_path c) = false).
      { destruct (c_rt_found c) eqn:Ef; [exact Hb | apply I2; congruence | apply I2; congruence]. }
      split; intros _; exact G.
    + (* SetRuntimePath *)
      split; [|discriminate]. intros Hf. exfalso. apply Hf. reflexivity.
    + (* LoadRuntimeD *)
      assert (G : runtime_bad fs FNone (c_rt_path c) = false).
      { destruct (c_rt_found c) eqn:Ef; [exact Hb | apply I2; congruence | apply I2; congruence]. }
      split; intros _; exact G.
Qed.

(** * What the specification reads off the script vs. the model's level fields *)
Definition part3 (t : triple) : tree := norm (file_part (fst (fst t)) (snd (fst t))).
Definition part2 (t : found * tree) : tree := norm (file_part (fst t) (snd t)).

Definition sfx_agrees (want got : option string) : Prop :=
  match want with Some w => got = Some w | None => True end.

Lemma located_corr fs l :
  let m := located_next fs blank3 (Some l) in
  let s := located fs true (Some l) in
  (try_suffixes fs l file_suffixes = LFail -> snd (fst s) = true) /\
  (try_suffixes fs l file_suffixes <> LFail ->
   part3 m = fst (fst s) /\ snd (fst s) = false /\ sfx_agrees (snd s) (snd m)).
Proof.
  cbv zeta. unfold located_next, located_upd, blank3, located, part3. rewrite first_suffix_only.
  destruct (first_existing fs l) as [[s [t|]]|]; simpl; split; try congruence; intros _; auto.
Qed.

Lemma located_none fs (b : bool) :
  located_next fs blank3 None = blank3 /\ located fs b None = (Node [], false, None).
Proof. split; [reflexivity | destruct b; reflexivity]. Qed.

Lemma located_unloaded fs loc : located fs false loc = (Node [], false, None).
Proof. reflexivity. Qed.

Definition rt_spec (fs : fsys) (loaded : bool) (p : option (string * string)) : tree * bool :=
  match loaded, p with
  | true, Some (stem, sfx) =>
      if negb (mem sfx doc_suffixes) then (Node [], true)
      else match fs_get fs stem sfx with
           | Some (FData t) => (norm t, false)
           | Some FIOErr => (Node [], true)
           | None => (Node [], false)
           end
  | _, _ => (Node [], false)
  end.

Lemma rt_corr fs p :
  let m := rt_next fs (FNone, Node []) p in
  let s := rt_spec fs true p in
  snd s = runtime_bad fs FNone p /\
  (runtime_bad fs FNone p = false -> part2 m = fst s).
Proof.
  cbv zeta. unfold rt_next, runtime_upd, rt_spec, runtime_bad, part2.
  destruct p as [[stem sfx]|]; [|split; reflexivity].
  change doc_suffixes with file_suffixes. cbn [fst].
  destruct (negb (mem sfx file_suffixes)); [split; [reflexivity|discriminate]|].
  destruct (fs_get fs stem sfx) as [[t|]|]; simpl; split; try reflexivity; try discriminate.
  intros _. destruct (String.eqb sfx "py"); reflexivity.
Qed.

Lemma fixed_loc_corr fs (is_it : op -> bool) (get3 : cfg -> triple) (getloc : cfg -> option string)
      (l : string) (c0 : cfg) (W : list op) :
  (forall c o, script_op o = true -> getloc (pure_step fs c o) = getloc c) ->
  (forall c o, script_op o = true ->
     get3 (pure_step fs c o) = if is_it (undefer o) then located_next fs (get3 c) (getloc c) else get3 c) ->
  (forall c o, is_it (undefer o) = true -> io_bad fs c o = located_bad fs (fst (fst (get3 c))) (getloc c)) ->
  (get3 (apply_script fs c0 W) =
   if existsb is_it (map undefer W) then located_next fs (get3 c0) (getloc c0) else get3 c0) ->
  get3 c0 = blank3 -> getloc c0 = Some l ->
  forallb script_op W = true -> no_bad fs c0 W = true ->
  let sy := located fs (existsb is_it (map undefer W)) (Some l) in
  part3 (get3 (apply_script fs c0 W)) = fst (fst sy) /\ snd (fst sy) = false /\
  sfx_agrees (snd sy) (snd (get3 (apply_script fs c0 W))).
Proof.
  intros Hloc Hstep Hbad Hfold Hb Hl HF Hnb. cbv zeta. rewrite Hfold, Hb, Hl.
  destruct (existsb is_it (map undefer W)) eqn:E.
  - assert (Hok : try_suffixes fs l file_suffixes <> LFail).
    { apply (located_loaded_ok fs is_it get3 getloc l Hloc Hstep Hbad W c0 HF Hnb Hl); [|exact E].
      left. rewrite Hb. reflexivity. }
    destruct (located_corr fs l) as [_ H]. exact (H Hok).
  - rewrite located_unloaded. repeat split; reflexivity.
Qed.

Definition init_ops (i : init_args) : list op := if i_lazy i then [] else [LoadSystemD; LoadUserD].
Definition b0 (i : init_args) : cfg :=
  blank (i_defaults i) (i_overrides i) (Some "sys") (Some "usr") (i_proj i) (i_rt i) "INVOKE_".

Lemma init_ops_script i : forallb script_op (init_ops i) = true.
Proof. unfold init_ops. destruct (i_lazy i); reflexivity. Qed.

Lemma after_last_cons_other (f g : op -> bool) x l :
  f x = false -> g x = false -> existsb g (after_last f (x :: l)) = existsb g (after_last f l).
Proof.
  intros Hf Hg. simpl. destruct (existsb f l) eqn:E; [reflexivity|].
  rewrite Hf, (after_last_none f l E). simpl. rewrite Hg. reflexivity.
Qed.

Lemma sys_corr fs i ops :
  forallb script_op ops = true -> no_bad fs (b0 i) (init_ops i ++ ops) = true ->
  let c := apply_script fs (b0 i) (init_ops i ++ ops) in
  let sy := located fs (negb (i_lazy i) || existsb isSys (map undefer ops)) (Some "sys") in
  part3 (sys3 c) = fst (fst sy) /\ snd (fst sy) = false /\ sfx_agrees (snd sy) (c_sys_sfx c).
Proof.
  intros HF Hnb. cbv zeta.
  assert (HW : forallb script_op (init_ops i ++ ops) = true)
    by (rewrite forallb_app, init_ops_script, HF; reflexivity).
  assert (Ex : existsb isSys (map undefer (init_ops i ++ ops)) =
               negb (i_lazy i) || existsb isSys (map undefer ops))
    by (unfold init_ops; destruct (i_lazy i); reflexivity).
  rewrite <- Ex.
  apply (fixed_loc_corr fs isSys sys3 c_sys_loc "sys" (b0 i) (init_ops i ++ ops)); try assumption; try reflexivity.
  - intros c o Ho. fields fs c o Ho. exact Hsl.
  - intros c o Ho. fields fs c o Ho. rewrite Hs3. destruct (undefer o); reflexivity.
  - intros c o Ho. unfold io_bad. destruct (undefer o); try discriminate. reflexivity.
  - apply fold_sys. exact HW.
Qed.

Lemma usr_corr fs i ops :
  forallb script_op ops = true -> no_bad fs (b0 i) (init_ops i ++ ops) = true ->
  let c := apply_script fs (b0 i) (init_ops i ++ ops) in
  let sy := located fs (negb (i_lazy i) || existsb isUsr (map undefer ops)) (Some "usr") in
  part3 (usr3 c) = fst (fst sy) /\ snd (fst sy) = false /\ sfx_agrees (snd sy) (c_user_sfx c).
Proof.
  intros HF Hnb. cbv zeta.
  assert (HW : forallb script_op (init_ops i ++ ops) = true)
    by (rewrite forallb_app, init_ops_script, HF; reflexivity).
  assert (Ex : existsb isUsr (map undefer (init_ops i ++ ops)) =
               negb (i_lazy i) || existsb isUsr (map undefer ops))
    by (unfold init_ops; destruct (i_lazy i); reflexivity).
  rewrite <- Ex.
  apply (fixed_loc_corr fs isUsr usr3 c_user_loc "usr" (b0 i) (init_ops i ++ ops)); try assumption; try reflexivity.
  - intros c o Ho. fields fs c o Ho. exact Hul.
  - intros c o Ho. fields fs c o Ho. rewrite Hu3. destruct (undefer o); reflexivity.
  - intros c o Ho. unfold io_bad. destruct (undefer o); try discriminate. reflexivity.
  - apply fold_usr. exact HW.
Qed.

Lemma init_prefix_last {A} (f : op -> option A) i ops d :
  f LoadSystem = None -> f LoadUser = None ->
  last_of f (map undefer (init_ops i ++ ops)) d = last_of f (map undefer ops) d.
Proof.
  intros H1 H2. unfold init_ops. destruct (i_lazy i); [reflexivity|].
  cbn [app map undefer]. rewrite !last_of_cons, H1, H2. reflexivity.
Qed.

Lemma init_prefix_after (f g : op -> bool) i ops :
  f LoadSystem = false -> f LoadUser = false -> g LoadSystem = false -> g LoadUser = false ->
  existsb g (after_last f (map undefer (init_ops i ++ ops))) = existsb g (after_last f (map undefer ops)).
Proof.
  intros. unfold init_ops. destruct (i_lazy i); [reflexivity|].
  cbn [app map undefer]. rewrite !after_last_cons_other by assumption. reflexivity.
Qed.

Lemma prj_corr fs i ops :
  forallb script_op ops = true -> no_bad fs (b0 i) (init_ops i ++ ops) = true ->
  let c := apply_script fs (b0 i) (init_ops i ++ ops) in
  let u := map undefer ops in
  let pr := located fs (existsb isPrj (after_last isSetP u)) (last_of fP u (i_proj i)) in
  part3 (prj3 c) = fst (fst pr) /\ snd (fst pr) = false /\ sfx_agrees (snd pr) (c_proj_sfx c).
Proof.
  intros HF Hnb. cbv zeta.
  assert (HW : forallb script_op (init_ops i ++ ops) = true)
    by (rewrite forallb_app, init_ops_script, HF; reflexivity).
  destruct (prj_inv fs (b0 i) (init_ops i ++ ops) HW Hnb eq_refl) as [I2 I1]. cbv zeta in I1, I2.
  destruct (fold_simple fs (init_ops i ++ ops) (b0 i) HW) as [_ [_ [_ [Hpl _]]]]. cbv zeta in Hpl.
  change (c_proj_sfx (apply_script fs (b0 i) (init_ops i ++ ops)))
    with (snd (prj3 (apply_script fs (b0 i) (init_ops i ++ ops)))).
  assert (Hfnd : c_proj_found (apply_script fs (b0 i) (init_ops i ++ ops)) =
                 fst (fst (prj3 (apply_script fs (b0 i) (init_ops i ++ ops))))) by reflexivity.
  rewrite Hfnd in I1, I2. clear Hfnd.
  rewrite (fold_prj fs _ _ HW) in *. unfold prj_closed in *.
  rewrite init_prefix_after in * by reflexivity.
  rewrite init_prefix_last in * by reflexivity.
  change (c_proj_loc (b0 i)) with (i_proj i) in *. rewrite Hpl in I1, I2.
  replace (if existsb isSetP (map undefer (init_ops i ++ ops)) then blank3 else prj3 (b0 i)) with blank3 in *
    by (destruct (existsb isSetP (map undefer (init_ops i ++ ops))); reflexivity).
  destruct (existsb isPrj (after_last isSetP (map undefer ops))) eqn:E.
  - destruct (last_of fP (map undefer ops) (i_proj i)) as [l|] eqn:El.
    + assert (Hok : try_suffixes fs l file_suffixes <> LFail).
      { apply (I2 l eq_refl). apply (I1 eq_refl l eq_refl). }
      destruct (located_corr fs l) as [_ H]. exact (H Hok).
    + repeat split; reflexivity.
  - rewrite located_unloaded. repeat split; reflexivity.
Qed.

Lemma rt_corr_script fs i ops :
  forallb script_op ops = true -> no_bad fs (b0 i) (init_ops i ++ ops) = true ->
  let c := apply_script fs (b0 i) (init_ops i ++ ops) in
  let u := map undefer ops in
  let rt := rt_spec fs (existsb isRt (after_last isSetR u)) (last_of fR u (i_rt i)) in
  part2 (rt2 c) = fst rt /\ snd rt = false.
Proof.
  intros HF Hnb. cbv zeta.
  assert (HW : forallb script_op (init_ops i ++ ops) = true)
    by (rewrite forallb_app, init_ops_script, HF; reflexivity).
  destruct (rt_inv fs (b0 i) (init_ops i ++ ops) HW Hnb eq_refl) as [_ I1]. cbv zeta in I1.
  destruct (fold_simple fs (init_ops i ++ ops) (b0 i) HW) as [_ [_ [_ [_ [Hrp _]]]]]. cbv zeta in Hrp.
  rewrite (fold_rt fs _ _ HW). unfold rt_closed.
  rewrite init_prefix_after in * by reflexivity.
  rewrite Hrp in I1. rewrite init_prefix_last in * by reflexivity.
  change (c_rt_path (b0 i)) with (i_rt i) in *.
  replace (if existsb isSetR (map undefer (init_ops i ++ ops)) then (FNone, Node []) else rt2 (b0 i))
    with (FNone, Node [] : tree) by (destruct (existsb isSetR (map undefer (init_ops i ++ ops))); reflexivity).
  destruct (existsb isRt (after_last isSetR (map undefer ops))) eqn:E.
  - specialize (I1 eq_refl).
    destruct (rt_corr fs (last_of fR (map undefer ops) (i_rt i))) as [H1 H2]. cbv zeta in H1, H2.
    split; [apply H2; exact I1 | rewrite H1; exact I1].
  - split; reflexivity.
Qed.

(** The level lists, side by side. *)
Definition model_levels (c : cfg) : list tree :=
  [norm (c_defaults c); norm (c_collection c); part3 (sys3 c); part3 (usr3 c); part3 (prj3 c);
   norm (c_env c); part2 (rt2 c); norm (c_overrides c); Node (c_mods c)].

Lemma model_levels_eq c : map norm (levels_of c) = model_levels c.
Proof. reflexivity. Qed.

Lemma supplied_rt fs i ops :
  let u := map undefer ops in
  s_runtime (supplied_of fs i ops) = fst (rt_spec fs (existsb isRt (after_last isSetR u)) (last_of fR u (i_rt i))) /\
  s_unreadable (supplied_of fs i ops) =
    snd (fst (located fs (negb (i_lazy i) || existsb isSys u) (Some "sys"))) ||
    snd (fst (located fs (negb (i_lazy i) || existsb isUsr u) (Some "usr"))) ||
    snd (fst (located fs (existsb isPrj (after_last isSetP u)) (last_of fP u (i_proj i)))) ||
    snd (rt_spec fs (existsb isRt (after_last isSetR u)) (last_of fR u (i_rt i))).
Proof. split; reflexivity. Qed.

Definition fE (o : op) : option (option (list (string * string))) :=
  match o with LoadShellEnv e => Some (Some e) | _ => None end.

Lemma no_env_in_script ops d : forallb script_op ops = true -> last_of fE (map undefer ops) d = d.
Proof.
  revert d. induction ops as [|o r IH]; intros d H; [reflexivity|].
  simpl in H. apply andb_true_iff in H as [Ho Hr]. cbn [map]. rewrite last_of_cons, (IH _ Hr).
  destruct o; try reflexivity; discriminate.
Qed.

Lemma corr_levels fs i ops :
  forallb script_op ops = true -> no_bad fs (b0 i) (init_ops i ++ ops) = true ->
  let c := apply_script fs (b0 i) (init_ops i ++ ops) in
  let S := supplied_of fs i ops in
  model_levels c = levels9 S (Node []) ++ [Node []] /\
  s_unreadable S = false /\
  sfx_ok (s_sfx S) [c_sys_sfx c; c_user_sfx c; c_proj_sfx c] = true /\
  s_env S = None /\ c_env c = Node [] /\ c_dels c = [] /\ c_env_prefix c = "INVOKE_".
Proof.
  intros HF Hnb. cbv zeta.
  assert (HW : forallb script_op (init_ops i ++ ops) = true)
    by (rewrite forallb_app, init_ops_script, HF; reflexivity).
  destruct (sys_corr fs i ops HF Hnb) as [S1 [S2 S3]].
  destruct (usr_corr fs i ops HF Hnb) as [U1 [U2 U3]].
  destruct (prj_corr fs i ops HF Hnb) as [P1 [P2 P3]].
  destruct (rt_corr_script fs i ops HF Hnb) as [R1 R2]. cbv zeta in *.
  destruct (fold_simple fs (init_ops i ++ ops) (b0 i) HW)
    as [Hd [Ho [Hc [_ [_ [He [Hm [Hdl [_ [_ Hpf]]]]]]]]]]. cbv zeta in *.
  destruct (supplied_rt fs i ops) as [Q1 Q2]. cbv zeta in Q1, Q2.
  split; [|split; [|split; [|split; [|split; [|split]]]]].
  - unfold model_levels, levels9, below_env, above_env. cbn [app].
    rewrite S1, U1, P1, R1, Hd, Ho, Hc, He, Hm, Q1.
    rewrite !init_prefix_last by reflexivity. reflexivity.
  - rewrite Q2, S2, U2, P2, R2. reflexivity.
  - change (s_sfx (supplied_of fs i ops)) with
      [snd (located fs (negb (i_lazy i) || existsb isSys (map undefer ops)) (Some "sys"));
       snd (located fs (negb (i_lazy i) || existsb isUsr (map undefer ops)) (Some "usr"));
       snd (located fs (existsb isPrj (after_last isSetP (map undefer ops)))
                    (last_of fP (map undefer ops) (i_proj i)))].
    unfold sfx_agrees in S3, U3, P3. unfold sfx_ok.
    destruct (snd (located fs (negb (i_lazy i) || existsb isSys (map undefer ops)) (Some "sys")));
      [rewrite S3, String.eqb_refl|];
    (destruct (snd (located fs (negb (i_lazy i) || existsb isUsr (map undefer ops)) (Some "usr")));
      [rewrite U3, String.eqb_refl|]);
    (destruct (snd (located fs (existsb isPrj (after_last isSetP (map undefer ops)))
                    (last_of fP (map undefer ops) (i_proj i))));
      [rewrite P3, String.eqb_refl|]); reflexivity.
  - change (s_env (supplied_of fs i ops)) with (last_of fE (map undefer ops) None).
    apply no_env_in_script. exact HF.
  - rewrite He. reflexivity.
  - rewrite Hdl. reflexivity.
  - rewrite Hpf. reflexivity.
Qed.

(** The failing direction: a call that fails on I/O makes the specification's
    reading of the script up to and including it "unreadable". *)
Lemma located_bad_inv fs f loc : located_bad fs f loc = true ->
  f = FNone /\ exists l, loc = Some l /\ try_suffixes fs l file_suffixes = LFail.
Proof.
  unfold located_bad. destruct f; try discriminate. destruct loc as [l|]; try discriminate.
  destruct (try_suffixes fs l file_suffixes) eqn:E; try discriminate. intros _. split; [reflexivity|].
  exists l. split; [reflexivity | exact E].
Qed.

Lemma runtime_bad_inv fs f p : runtime_bad fs f p = true -> runtime_bad fs FNone p = true.
Proof. unfold runtime_bad. destruct f; try discriminate. auto. Qed.

Lemma last_of_snoc {A} (f : op -> option A) l o d :
  last_of f (l ++ [o]) d = match f o with Some a => a | None => last_of f l d end.
Proof. unfold last_of. rewrite fold_left_app. reflexivity. Qed.

Lemma bad_unreadable fs i done o :
  forallb script_op done = true -> script_op o = true ->
  io_bad fs (apply_script fs (b0 i) (init_ops i ++ done)) o = true ->
  s_unreadable (supplied_of fs i (done ++ [o])) = true.
Proof.
  intros HF Ho Hb.
  assert (HW : forallb script_op (init_ops i ++ done) = true)
    by (rewrite forallb_app, init_ops_script, HF; reflexivity).
  destruct (fold_simple fs (init_ops i ++ done) (b0 i) HW)
    as [_ [_ [_ [Hpl [Hrp [_ [_ [_ [Hsl [Hul _]]]]]]]]]]. cbv zeta in *.
  rewrite init_prefix_last in Hpl by reflexivity. rewrite init_prefix_last in Hrp by reflexivity.
  change (c_proj_loc (b0 i)) with (i_proj i) in Hpl. change (c_rt_path (b0 i)) with (i_rt i) in Hrp.
  destruct (supplied_rt fs i (done ++ [o])) as [_ Q2]. cbv zeta in Q2. rewrite Q2. clear Q2.
  rewrite map_app. cbn [map]. rewrite !after_last_snoc, !existsb_app, !last_of_snoc.
  unfold io_bad in Hb.
  destruct o; try discriminate; cbn [undefer isSys isUsr isPrj isRt isSetP isSetR fP fR existsb orb] in *.
  1, 5: apply located_bad_inv in Hb as [_ [l [El Hl]]]; rewrite Hsl in El; inversion El; subst l;
    rewrite !orb_true_r; destruct (located_corr fs "sys") as [H _]; cbv zeta in H; rewrite (H Hl); reflexivity.
  1, 4: apply located_bad_inv in Hb as [_ [l [El Hl]]]; rewrite Hul in El; inversion El; subst l;
    rewrite !orb_true_r; destruct (located_corr fs "usr") as [H _]; cbv zeta in H; rewrite (H Hl);
    rewrite !orb_true_r; reflexivity.
  1, 3: apply located_bad_inv in Hb as [_ [l [El Hl]]]; rewrite Hpl in El;
    rewrite existsb_app; cbn [existsb isPrj orb]; rewrite !orb_true_r; rewrite El;
    destruct (located_corr fs l) as [H _]; cbv zeta in H; rewrite (H Hl);
    rewrite !orb_true_r; reflexivity.
  1, 2: apply runtime_bad_inv in Hb; rewrite Hrp in Hb;
    rewrite !existsb_app; cbn [existsb isRt isPrj orb]; rewrite !orb_true_r;
    destruct (rt_corr fs (last_of fR (map undefer done) (i_rt i))) as [H _]; cbv zeta in H;
    rewrite H, Hb; rewrite !orb_true_r; reflexivity.
Qed.

(** * Executing a script: the state after the calls, or the first exception *)
Fixpoint exec (fs : fsys) (c : cfg) (ops : list op) : result cfg :=
  match ops with
  | [] => Ok c
  | o :: r => match step fs c o with
              | (_, OErr e) => Err e
              | (c', _) => exec fs c' r
              end
  end.

Lemma exec_cons fs c o r :
  exec fs c (o :: r) =
  if is_err_out (snd (step fs c o))
  then match snd (step fs c o) with OErr e => Err e | _ => Ok c end
  else exec fs (fst (step fs c o)) r.
Proof. simpl. destruct (step fs c o) as [c' out]. destruct out; reflexivity. Qed.

Lemma exec_app fs : forall a c b,
  exec fs c (a ++ b) = match exec fs c a with Ok c' => exec fs c' b | Err e => Err e end.
Proof.
  induction a as [|o a IH]; intros c b; [reflexivity|].
  cbn [app exec]. destruct (step fs c o) as [c' out]. destruct out; try apply IH. reflexivity.
Qed.

(** The correspondence record's [model_out], via [exec]. *)
Lemma run_exec fs : forall ops c,
  (let '(cf, tr) := run fs c ops in
   match first_err tr with Some e => Err e | None => Ok (snap_of cf) end) =
  match exec fs c ops with Ok cf => Ok (snap_of cf) | Err e => Err e end.
Proof.
  induction ops as [|o r IH]; intros c; [reflexivity|].
  cbn [run exec]. destruct (step fs c o) as [c' out]. specialize (IH c').
  destruct out; cbn [abnormal]; try (destruct (run fs c' r) as [c'' tr]; cbn [first_err]; exact IH).
  destruct e; try reflexivity; destruct (run fs c' r) as [c'' tr]; reflexivity.
Qed.

Lemma model_out_exec fs i ops x y :
  model_out (mk fs i ops x y) =
  match start fs i with
  | Err e => Err e
  | Ok c0 => match exec fs c0 ops with Ok cf => Ok (snap_of cf) | Err e => Err e end
  end.
Proof.
  unfold model_out. cbn [c_fs c_init c_ops]. destruct (start fs i) as [c0|e]; [|reflexivity].
  pose proof (run_exec fs ops c0) as H. destruct (run fs c0 ops) as [cf tr]. exact H.
Qed.

(** A failing execution fails at some call, after a clean prefix. *)
Lemma exec_fails fs : forall ops c e, exec fs c ops = Err e ->
  exists done o rest cd, ops = done ++ o :: rest /\ exec fs c done = Ok cd /\
                         snd (step fs cd o) = OErr e /\
                         List.length (run_states fs c ops) = List.length done.
Proof.
  induction ops as [|o r IH]; intros c e H; [discriminate|].
  cbn [exec run_states] in *. destruct (step fs c o) as [c' out] eqn:Es.
  destruct out; try (destruct (IH c' e H) as [done [o' [rest [cd [E1 [E2 [E3 E4]]]]]]];
                     exists (o :: done), o', rest, cd; subst r; cbn [exec app]; rewrite Es;
                     repeat split; try assumption; cbn [List.length]; f_equal; exact E4).
  inversion H; subst e0. exists [], o, r, c. rewrite Es. repeat split.
Qed.

Lemma run_states_clean fs : forall ops c cf, exec fs c ops = Ok cf ->
  List.length (run_states fs c ops) = List.length ops.
Proof.
  induction ops as [|o r IH]; intros c cf H; [reflexivity|].
  cbn [exec run_states] in *. destruct (step fs c o) as [c' out].
  destruct out; try discriminate; cbn [List.length]; f_equal; eapply IH; exact H.
Qed.

(** One non-failing script call. *)
Lemma step_ok_script fs c o :
  script_op o = true -> is_err_out (snd (step fs c o)) = false ->
  io_bad fs c o = false /\ strip (fst (step fs c o)) = pure_step fs (strip c) o.
Proof.
  intros Ho Hne. split.
  - destruct (io_bad fs c o) eqn:B; [|reflexivity].
    rewrite (io_bad_step fs c o Ho B) in Hne. discriminate.
  - rewrite (step_script_strip fs c o Ho). unfold strip. rewrite pure_step_cache. reflexivity.
Qed.

Lemma exec_script fs : forall ops c c', forallb script_op ops = true -> exec fs c ops = Ok c' ->
  strip c' = apply_script fs (strip c) ops /\ no_bad fs (strip c) ops = true.
Proof.
  induction ops as [|o r IH]; intros c c' HF H.
  - inversion H; subst. split; reflexivity.
  - simpl in HF. apply andb_true_iff in HF as [Ho Hr]. rewrite exec_cons in H.
    destruct (is_err_out (snd (step fs c o))) eqn:Ee.
    + destruct (snd (step fs c o)); discriminate.
    + destruct (step_ok_script fs c o Ho Ee) as [B S].
      destruct (IH _ _ Hr H) as [I1 I2]. rewrite S in I1, I2.
      split; [exact I1|]. cbn [no_bad]. unfold strip at 1. rewrite io_bad_cache, B. exact I2.
Qed.

(** * Construction *)
Lemma step_deferred fs c o : is_deferred o = true -> io_bad fs c o = false ->
  step fs c o = (pure_step fs c o, ONone).
Proof.
  intros Hd H. destruct o; try discriminate; unfold io_bad in H; cbn [undefer] in H;
    unfold step, step_with, with_flag, pure_step, load_pure, guard, setter; cbn [undefer]; try reflexivity.
  - unfold load_system. rewrite load_located_nomerge by exact H. reflexivity.
  - unfold load_user. rewrite load_located_nomerge by exact H. reflexivity.
  - unfold load_project. rewrite load_located_nomerge by exact H. reflexivity.
  - rewrite load_runtime_nomerge by exact H. reflexivity.
Qed.

Lemma start_eq fs i :
  start fs i = match exec fs (b0 i) (init_ops i) with
               | Err e => Err e
               | Ok c => match merge c with Ok d => Ok (set_cache c d) | Err e => Err e end
               end.
Proof.
  unfold start, init, init_ops. fold (b0 i). destruct (i_lazy i); [reflexivity|].
  cbn [exec]. unfold step at 1. unfold step_with, with_flag.
  destruct (load_system fs (b0 i) false) as [[c1 o1] f1]. cbn [fst snd].
  assert (E : forall X, match (if f1 then Merged (c_cache (b0 i)) else NoChange) with
                        | LocalOnly l => (set_cache c1 l, o1) | _ => X end = X)
    by (intros X; destruct f1; reflexivity).
  rewrite E. clear E.
  destruct o1; try reflexivity;
    (unfold step at 1; unfold step_with, with_flag;
     destruct (load_user fs c1 false) as [[c2 o2] f2]; cbn [fst snd];
     assert (E : forall X, match (if f2 then Merged (c_cache c1) else NoChange) with
                           | LocalOnly l => (set_cache c2 l, o2) | _ => X end = X)
       by (intros X; destruct f2; reflexivity);
     rewrite E; clear E; destruct o2; reflexivity).
Qed.

(** * The view is up to date for settled scripts *)
Lemma found_after fs c o :
  script_op o = true -> is_err_out (snd (step fs c o)) = false ->
  let c1 := fst (step fs c o) in
  (isPrj (undefer o) = false -> isSetP o = false -> c_proj_found c1 = c_proj_found c) /\
  (isRt (undefer o) = false -> isSetR o = false -> c_rt_found c1 = c_rt_found c) /\
  (isSetP o = true -> c_proj_found c1 = FNone) /\
  (isSetR o = true -> c_rt_found c1 = FNone).
Proof.
  intros Ho Hne. cbv zeta. destruct (step_ok_script fs c o Ho Hne) as [_ S].
  assert (E1 : c_proj_found (fst (step fs c o)) = fst (fst (prj3 (strip (fst (step fs c o)))))) by reflexivity.
  assert (E2 : c_rt_found (fst (step fs c o)) = fst (rt2 (strip (fst (step fs c o))))) by reflexivity.
  rewrite E1, E2, S. clear E1 E2 S.
  fields fs (strip c) o Ho. rewrite Hp3, Hr2.
  repeat split; intros; destruct o; try discriminate; reflexivity.
Qed.

Lemma step_setP fs c l :
  step fs c (SetProjectLocation l) = (set_project (set_proj_loc c l) (Node []) FNone None, ONone).
Proof. reflexivity. Qed.
Lemma step_setR fs c p :
  step fs c (SetRuntimePath p) = (set_runtime (set_rt_path c p) (Node []) FNone, ONone).
Proof. reflexivity. Qed.

Lemma cache_ok_setP c l : c_proj_found c = FNone -> cache_ok c ->
  cache_ok (set_project (set_proj_loc c l) (Node []) FNone None).
Proof.
  unfold cache_ok, merge, merge_levels, levels_of, level_list. destruct c; simpl. intros ->. auto.
Qed.
Lemma cache_ok_setR c p : c_rt_found c = FNone -> cache_ok c ->
  cache_ok (set_runtime (set_rt_path c p) (Node []) FNone).
Proof.
  unfold cache_ok, merge, merge_levels, levels_of, level_list. destruct c; simpl. intros ->. auto.
Qed.

Lemma sync_run fs : forall ops c c' lp lr,
  cache_ok c -> (lp = false -> c_proj_found c = FNone) -> (lr = false -> c_rt_found c = FNone) ->
  forallb script_op ops = true -> existsb is_deferred ops = false -> repoints lp lr ops = false ->
  exec fs c ops = Ok c' -> cache_ok c'.
Proof.
  induction ops as [|o r IH]; intros c c' lp lr Hc Hp Hr HF Hd Hrp H.
  - inversion H; subst. exact Hc.
  - simpl in HF. apply andb_true_iff in HF as [Ho HF']. simpl in Hd. apply orb_false_iff in Hd as [Hdo Hd'].
    rewrite exec_cons in H. destruct (is_err_out (snd (step fs c o))) eqn:Ee;
      [destruct (snd (step fs c o)); discriminate|].
    destruct (found_after fs c o Ho Ee) as [F1 [F2 [F3 F4]]]. cbv zeta in *.
    destruct (is_set_op o) eqn:Eset.
    + destruct o; try discriminate; cbn [repoints undefer] in Hrp; apply orb_false_iff in Hrp as [Hl Hrp'].
      * refine (IH _ c' false lr _ _ _ HF' Hd' Hrp' H).
        -- rewrite step_setP. cbn [fst]. apply cache_ok_setP; auto.
        -- intros _. apply F3. reflexivity.
        -- intros E. rewrite F2 by reflexivity. auto.
      * refine (IH _ c' lp false _ _ _ HF' Hd' Hrp' H).
        -- rewrite step_setR. cbn [fst]. apply cache_ok_setR; auto.
        -- intros E. rewrite F1 by reflexivity. auto.
        -- intros _. apply F4. reflexivity.
    + assert (Hpl : is_plain_load o = true).
      { unfold is_plain_load. unfold script_op in Ho. rewrite Eset, orb_false_r in Ho. rewrite Ho, Hdo. reflexivity. }
      pose proof (cache_ok_step_load fs c o Hpl Hc Ee) as Hc1.
      destruct o; try discriminate; cbn [repoints undefer] in Hrp.
      all: try (refine (IH _ c' lp lr Hc1 _ _ HF' Hd' Hrp H);
                [intros E; rewrite F1 by reflexivity; auto | intros E; rewrite F2 by reflexivity; auto]).
      * refine (IH _ c' true lr Hc1 _ _ HF' Hd' Hrp H); [discriminate|].
        intros E; rewrite F2 by reflexivity; auto.
      * refine (IH _ c' lp true Hc1 _ _ HF' Hd' Hrp H); [|discriminate].
        intros E; rewrite F1 by reflexivity; auto.
Qed.

Lemma settled_cache fs c0 done c :
  cache_ok c0 -> c_proj_found c0 = FNone -> c_rt_found c0 = FNone ->
  forallb script_op done = true -> settled done = true -> exec fs c0 done = Ok c -> cache_ok c.
Proof.
  intros Hc Hp Hr HF Hs H. unfold settled in Hs. apply orb_true_iff in Hs as [Hs|Hs].
  - apply negb_true_iff, orb_false_iff in Hs as [Hd Hrp].
    apply (sync_run fs done c0 c false false); auto.
  - destruct done as [|x done'] using rev_ind; [inversion H; subst; exact Hc|]. clear IHdone'.
    rewrite last_last in Hs. rewrite forallb_snoc in HF. apply andb_true_iff in HF as [_ Hx].
    destruct x; try discriminate.
    rewrite exec_app in H. destruct (exec fs c0 done') as [cb|]; [|discriminate].
    cbn [exec] in H. rewrite step_merge_eq in H.
    pose proof (cache_ok_remerge cb ONone) as Hk. destruct (remerge cb ONone) as [c1 out].
    destruct out; try discriminate; inversion H; subst; apply Hk; reflexivity.
Qed.

Lemma start_ok_facts fs i c0 : start fs i = Ok c0 ->
  strip c0 = apply_script fs (b0 i) (init_ops i) /\ no_bad fs (b0 i) (init_ops i) = true /\
  cache_ok c0 /\ c_proj_found c0 = FNone /\ c_rt_found c0 = FNone.
Proof.
  rewrite start_eq. destruct (exec fs (b0 i) (init_ops i)) as [c|] eqn:E; [|discriminate].
  destruct (merge c) as [d|] eqn:Em; [|discriminate]. intros H; inversion H; subst c0. clear H.
  destruct (exec_script fs _ _ _ (init_ops_script i) E) as [S NB]. change (strip (b0 i)) with (b0 i) in *.
  rewrite strip_set_cache. split; [exact S|]. split; [exact NB|]. split.
  - unfold cache_ok. rewrite merge_set_cache. destruct c; exact Em.
  - assert (E1 : c_proj_found (set_cache c d) = fst (fst (prj3 (strip c)))) by reflexivity.
    assert (E2 : c_rt_found (set_cache c d) = fst (rt2 (strip c))) by reflexivity.
    rewrite E1, E2, S, (fold_prj fs _ _ (init_ops_script i)), (fold_rt fs _ _ (init_ops_script i)).
    unfold init_ops. destruct (i_lazy i); split; reflexivity.
Qed.

Lemma merge_model_levels c : c_dels c = [] -> merge c = merge_all (model_levels c) [].
Proof.
  intros Hd. unfold merge, merge_levels. rewrite <- model_levels_eq, merge_all_norm, Hd.
  destruct (merge_all (levels_of c) []); reflexivity.
Qed.

Lemma norm_node t : is_node (norm t) = true.
Proof. destruct t; reflexivity. Qed.

Lemma levels8_nodes fs i ops : forallb is_node (levels8 (supplied_of fs i ops)) = true.
Proof.
  assert (L : forall b loc, is_node (fst (fst (located fs b loc))) = true).
  { intros b loc. unfold located. destruct b; [|reflexivity]. destruct loc as [l|]; [|reflexivity].
    destruct (first_existing fs l) as [[s [t|]]|]; try reflexivity. apply norm_node. }
  unfold levels8, below_env, above_env, supplied_of. cbn [app forallb s_defaults s_collection s_system
    s_user s_project s_runtime s_overrides].
  rewrite !norm_node, !L. cbn [andb].
  match goal with |- is_node (fst ?x) && true = true => assert (R : is_node (fst x) = true) end.
  { destruct (has_op _ _); [|reflexivity]. destruct (last_of _ _ (i_rt i)) as [[stem sfx]|]; [|reflexivity].
    destruct (negb (mem sfx doc_suffixes)); [reflexivity|].
    destruct (fs_get fs stem sfx) as [[t|]|]; try reflexivity. apply norm_node. }
  rewrite R. reflexivity.
Qed.

Lemma supplied_env_snoc fs i body env :
  let S := supplied_of fs i (body ++ [LoadShellEnv env]) in
  let Sb := supplied_of fs i body in
  below_env S = below_env Sb /\ above_env S = above_env Sb /\
  s_unreadable S = s_unreadable Sb /\ s_sfx S = s_sfx Sb /\ s_env S = Some env.
Proof.
  cbv zeta. unfold supplied_of, has_op. rewrite map_app. cbn [map undefer].
  rewrite !last_of_snoc, !after_last_snoc. cbv beta iota. rewrite !existsb_app.
  cbn [existsb orb]. rewrite !orb_false_r. repeat split; reflexivity.
Qed.

(** * The state after a clean run of script calls *)
Definition at_state (fs : fsys) (i : init_args) (done : list op) (c : cfg) : Prop :=
  strip c = apply_script fs (b0 i) (init_ops i ++ done) /\
  no_bad fs (b0 i) (init_ops i ++ done) = true /\ forallb script_op done = true.

Lemma reach_state fs i c0 done c :
  start fs i = Ok c0 -> forallb script_op done = true -> exec fs c0 done = Ok c ->
  at_state fs i done c.
Proof.
  intros Hs HF H. destruct (start_ok_facts fs i c0 Hs) as [S0 [NB0 _]].
  destruct (exec_script fs done c0 c HF H) as [S NB]. rewrite S0 in S, NB.
  unfold at_state. rewrite apply_script_app, no_bad_app, NB0, NB. auto.
Qed.

Definition tc_ok (S : supplied) : bool := levels_tc (levels8 S) && forallb wf (levels8 S).

Lemma at_state_levels fs i done c : at_state fs i done c ->
  let S := supplied_of fs i done in
  model_levels c = levels9 S (Node []) ++ [Node []] /\
  s_unreadable S = false /\
  sfx_ok (s_sfx S) [c_sys_sfx c; c_user_sfx c; c_proj_sfx c] = true /\
  s_env S = None /\ c_env c = Node [] /\ c_dels c = [] /\ c_env_prefix c = "INVOKE_".
Proof.
  intros [Hs [Hnb HF]]. pose proof (corr_levels fs i done HF Hnb) as H. cbv zeta in *.
  rewrite <- Hs in H. exact H.
Qed.

Lemma at_state_merge fs i done c : at_state fs i done c ->
  let S := supplied_of fs i done in
  tc_ok S = true ->
  exists d0, merge c = Ok d0 /\
             merge_all (below_env S ++ Node [] :: above_env S ++ [Node []]) [] = Ok d0 /\
             wf (Node d0) = true /\
             (forall q, q <> [] -> shape_at q (Node d0) = oracle q (levels8 S)) /\
             view_ok (levels9 S (Node [])) (Node d0) = true.
Proof.
  intros Hat. cbv zeta. intros Htc. unfold tc_ok in Htc. apply andb_true_iff in Htc as [Htc Hwf].
  destruct (at_state_levels fs i done c Hat) as [Hml [_ [_ [_ [_ [Hdl _]]]]]]. cbv zeta in Hml.
  set (S := supplied_of fs i done) in *.
  assert (Hne : below_env S <> []) by discriminate.
  destruct (pre_merge (below_env S) (above_env S) Hne Hwf (levels8_nodes fs i done) Htc)
    as [d0 [E0 [W0 [S0 V0]]]].
  exists d0. rewrite (merge_model_levels c Hdl), Hml. repeat split; assumption.
Qed.

Lemma set_env_same c t : c_env c = t -> set_env c t = c.
Proof. destruct c; simpl. intros <-. reflexivity. Qed.

Lemma model_levels_set_env c e d0 :
  model_levels (set_env (set_cache c d0) e) =
  firstn 5 (model_levels c) ++ norm e :: skipn 6 (model_levels c).
Proof. reflexivity. Qed.

(** load_shell_env() after a clean run of script calls *)
Lemma env_step fs i done c env c' out : at_state fs i done c ->
  let S := supplied_of fs i done in
  tc_ok S = true ->
  step fs c (LoadShellEnv env) = (c', out) ->
  match out with
  | OErr e => env_outcome_ok "INVOKE_" env (levels8 S) (Err e) = true
  | _ => env_outcome_ok "INVOKE_" env (levels8 S) (Ok (c_env c')) = true /\
         view_ok (levels9 S (c_env c')) (Node (c_cache c')) = true /\
         [c_sys_sfx c'; c_user_sfx c'; c_proj_sfx c'] = [c_sys_sfx c; c_user_sfx c; c_proj_sfx c]
  end.
Proof.
  intros Hat. cbv zeta. intros Htc Hstep.
  destruct (at_state_levels fs i done c Hat) as [Hml [_ [_ [_ [He [Hdl Hpf]]]]]]. cbv zeta in Hml.
  destruct (at_state_merge fs i done c Hat Htc) as [d0 [Em [E0 [W0 [S0 _]]]]].
  set (S := supplied_of fs i done) in *.
  pose proof Htc as Htc'. unfold tc_ok in Htc'. apply andb_true_iff in Htc' as [Htc' Hwf].
  assert (Hne : below_env S <> []) by discriminate.
  rewrite step_env_eq, (set_env_same c _ He) in Hstep. unfold remerge at 1 in Hstep. rewrite Em in Hstep.
  change (c_cache (set_cache c d0)) with d0 in Hstep.
  change (c_env_prefix (set_cache c d0)) with (c_env_prefix c) in Hstep. rewrite Hpf in Hstep.
  pose proof (env_clause (below_env S) (above_env S) Hne Hwf (levels8_nodes fs i done) Htc' d0
                         "INVOKE_" env W0 S0) as Hclause.
  destruct (load (Node d0) "INVOKE_" env) as [d|e] eqn:El.
  - destruct (post_merge (below_env S) (above_env S) Hne Hwf (levels8_nodes fs i done) Htc' d0
                         "INVOKE_" env d E0 El) as [d1 [E1 V1]].
    assert (Em1 : merge (set_env (set_cache c d0) (Node d)) = Ok d1).
    { rewrite merge_model_levels by exact Hdl. rewrite <- E1. f_equal.
      rewrite model_levels_set_env, Hml. reflexivity. }
    unfold remerge in Hstep. rewrite Em1 in Hstep. inversion Hstep; subst c' out. clear Hstep.
    cbn [c_env c_cache set_cache set_env]. split; [exact Hclause|]. split; [exact V1 | reflexivity].
  - inversion Hstep; subst c' out. exact Hclause.
Qed.

(** * Shapes of well-formed scripts *)
Lemma wf_order_shape : forall ops, wf_order ops = true ->
  forallb script_op ops = true \/
  exists body env, ops = body ++ [LoadShellEnv env] /\ forallb script_op body = true.
Proof.
  induction ops as [|o r IH]; intros H; [left; reflexivity|].
  destruct r as [|o2 r'].
  - cbn [wf_order] in H. destruct (script_op o) eqn:Es.
    + left. simpl. rewrite Es. reflexivity.
    + unfold script_op in Es. rewrite Es in H. cbn [orb] in H.
      destruct o; try discriminate.
      match goal with |- context [LoadShellEnv ?e] => right; exists [], e; split; reflexivity end.
  - change (wf_order (o :: o2 :: r')) with ((is_load_op o || is_set_op o) && wf_order (o2 :: r')) in H.
    apply andb_true_iff in H as [Ho Hr]. destruct (IH Hr) as [HF | [body [env [E HF]]]].
    + left. cbn [forallb]. unfold script_op at 1. rewrite Ho. exact HF.
    + right. exists (o :: body), env. rewrite E. split; [reflexivity|].
      cbn [forallb]. unfold script_op at 1. rewrite Ho. exact HF.
Qed.

Lemma wf_order_snoc done o : wf_order (done ++ [o]) = true ->
  forallb script_op done = true /\ (script_op o = true \/ exists env, o = LoadShellEnv env).
Proof.
  intros H. destruct (wf_order_shape _ H) as [HF | [body [env [E HF]]]].
  - rewrite forallb_snoc in HF. apply andb_true_iff in HF as [H1 H2]. auto.
  - apply app_inj_tail in E as [-> ->]. split; [exact HF|]. right. exists env. reflexivity.
Qed.

Lemma spec_ok_unfold fs i ops pfx obs :
  spec_ok fs i ops pfx obs =
  if negb (wf_script ops) then true else
  let s := supplied_of fs i ops in
  if negb (tc_ok s) then true else
  if s_unreadable s then match obs with Err EOther => true | _ => false end
  else
    match obs with
    | Err e => match s_env s with
               | Some env => env_outcome_ok pfx env (levels8 s) (Err e)
               | None => false
               end
    | Ok (view, envl, sfxs) =>
        match s_env s with
        | Some env => env_outcome_ok pfx env (levels8 s) (Ok envl)
        | None => tree_eqb envl (Node [])
        end && sfx_ok (s_sfx s) sfxs && view_ok (levels9 s envl) view
    end.
Proof. reflexivity. Qed.

(** * Every clean prefix of a run is accepted *)
Lemma prefix_ok fs i c0 done c :
  start fs i = Ok c0 -> exec fs c0 done = Ok c ->
  spec_ok fs i done "INVOKE_" (Ok (snap_of c)) = true.
Proof.
  intros Hs H. rewrite spec_ok_unfold. destruct (wf_script done) eqn:Hw; [|reflexivity]. cbn [negb].
  unfold wf_script in Hw. apply andb_true_iff in Hw as [Hwo Hset]. cbv zeta.
  destruct (wf_order_shape done Hwo) as [HF | [body [env [E HF]]]].
  - destruct (tc_ok (supplied_of fs i done)) eqn:Htc; [|reflexivity]. cbn [negb].
    pose proof (reach_state fs i c0 done c Hs HF H) as Hat.
    destruct (at_state_levels fs i done c Hat) as [_ [Hun [Hsfx [Hen [He _]]]]]. cbv zeta in *.
    destruct (at_state_merge fs i done c Hat Htc) as [d0 [Em [_ [_ [_ V0]]]]].
    destruct (start_ok_facts fs i c0 Hs) as [_ [_ [Hc0 [Hp0 Hr0]]]].
    pose proof (settled_cache fs c0 done c Hc0 Hp0 Hr0 HF Hset H) as Hck. unfold cache_ok in Hck.
    rewrite Em in Hck. inversion Hck; subst d0.
    rewrite Hun. unfold snap_of. rewrite Hen, He, Hsfx, V0. reflexivity.
  - subst done. rewrite exec_app in H. destruct (exec fs c0 body) as [cb|] eqn:Eb; [|discriminate].
    pose proof (reach_state fs i c0 body cb Hs HF Eb) as Hat.
    destruct (supplied_env_snoc fs i body env) as [Q1 [Q2 [Q3 [Q4 Q5]]]]. cbv zeta in *.
    assert (Qtc : tc_ok (supplied_of fs i (body ++ [LoadShellEnv env])) = tc_ok (supplied_of fs i body))
      by (unfold tc_ok, levels8; rewrite Q1, Q2; reflexivity).
    rewrite Qtc. destruct (tc_ok (supplied_of fs i body)) eqn:Htc; [|reflexivity]. cbn [negb].
    destruct (at_state_levels fs i body cb Hat) as [_ [Hun [Hsfx _]]]. cbv zeta in *.
    rewrite Q3, Hun, Q5, Q4. unfold levels9, levels8. rewrite Q1, Q2.
    cbn [exec] in H. destruct (step fs cb (LoadShellEnv env)) as [c' out] eqn:Es.
    pose proof (env_step fs i body cb env c' out Hat Htc Es) as Hstep.
    destruct out; try discriminate; inversion H; subst c'; destruct Hstep as [K1 [K2 K3]];
      unfold snap_of; rewrite K3, Hsfx; unfold levels8 in K1; rewrite K1; unfold levels9 in K2;
      rewrite K2; reflexivity.
Qed.

(** * The call that raised *)
Lemma fail_ok fs i c0 done c o e :
  start fs i = Ok c0 -> exec fs c0 done = Ok c -> snd (step fs c o) = OErr e ->
  spec_ok fs i (done ++ [o]) "INVOKE_" (Err e) = true.
Proof.
  intros Hs H He. rewrite spec_ok_unfold. destruct (wf_script (done ++ [o])) eqn:Hw; [|reflexivity].
  cbn [negb]. unfold wf_script in Hw. apply andb_true_iff in Hw as [Hwo _]. cbv zeta.
  destruct (wf_order_snoc done o Hwo) as [HF [Ho | [env ->]]].
  - pose proof (reach_state fs i c0 done c Hs HF H) as Hat. pose proof Hat as [Hst [Hnb _]].
    destruct (io_bad fs c o) eqn:B.
    + rewrite (io_bad_step fs c o Ho B) in He. inversion He; subst e.
      assert (Hun : s_unreadable (supplied_of fs i (done ++ [o])) = true).
      { apply bad_unreadable; try assumption. rewrite <- Hst. unfold strip. rewrite io_bad_cache. exact B. }
      rewrite Hun. destruct (tc_ok _); reflexivity.
    + destruct (tc_ok (supplied_of fs i (done ++ [o]))) eqn:Htc; [|reflexivity]. exfalso.
      destruct (step_script_cases fs c o Ho B) as [E | [[d [_ E]] | [e' [Em E]]]];
        try (rewrite E in He; discriminate).
      assert (Hat' : at_state fs i (done ++ [o]) (pure_step fs c o)).
      { unfold at_state. rewrite app_assoc, apply_script_app, no_bad_app, Hnb, <- Hst, forallb_snoc, HF, Ho.
        cbn [no_bad apply_script fold_left]. unfold strip at 3. rewrite io_bad_cache, B.
        unfold strip. rewrite pure_step_cache. auto. }
      destruct (at_state_merge fs i _ _ Hat' Htc) as [d0 [Em' _]]. congruence.
  - pose proof (reach_state fs i c0 done c Hs HF H) as Hat.
    destruct (supplied_env_snoc fs i done env) as [Q1 [Q2 [Q3 [Q4 Q5]]]]. cbv zeta in *.
    assert (Qtc : tc_ok (supplied_of fs i (done ++ [LoadShellEnv env])) = tc_ok (supplied_of fs i done))
      by (unfold tc_ok, levels8; rewrite Q1, Q2; reflexivity).
    rewrite Qtc. destruct (tc_ok (supplied_of fs i done)) eqn:Htc; [|reflexivity]. cbn [negb].
    destruct (at_state_levels fs i done c Hat) as [_ [Hun _]]. cbv zeta in *.
    rewrite Q3, Hun, Q5. unfold levels8. rewrite Q1, Q2.
    destruct (step fs c (LoadShellEnv env)) as [c' out] eqn:Es. cbn [snd] in He. subst out.
    exact (env_step fs i done c env c' (OErr e) Hat Htc Es).
Qed.

(** * The constructor raised *)
Lemma start_fail_ok fs i e : start fs i = Err e -> spec_ok fs i [] "INVOKE_" (Err e) = true.
Proof.
  intros Hs. rewrite spec_ok_unfold. cbn [wf_script wf_order settled existsb repoints orb negb andb]. cbv zeta.
  rewrite start_eq in Hs.
  destruct (exec fs (b0 i) (init_ops i)) as [c|e'] eqn:E.
  - (* the files were read; the merge failed: the levels are not type-consistent *)
    destruct (tc_ok (supplied_of fs i [])) eqn:Htc; [|reflexivity]. exfalso.
    destruct (exec_script fs _ _ _ (init_ops_script i) E) as [S NB]. change (strip (b0 i)) with (b0 i) in *.
    assert (Hat : at_state fs i [] c).
    { unfold at_state. rewrite app_nil_r. auto. }
    destruct (at_state_merge fs i [] c Hat Htc) as [d0 [Em _]]. rewrite Em in Hs. discriminate.
  - (* a system / user file could not be read *)
    inversion Hs; subst e'. clear Hs.
    destruct (exec_fails fs _ _ _ E) as [done [o [rest [cd [E1 [E2 [E3 _]]]]]]].
    assert (HFi : forallb script_op (done ++ o :: rest) = true) by (rewrite <- E1; apply init_ops_script).
    rewrite forallb_app in HFi. apply andb_true_iff in HFi as [HFd HFo]. cbn [forallb] in HFo.
    apply andb_true_iff in HFo as [Ho _].
    assert (Hdef : is_deferred o = true).
    { unfold init_ops in E1. destruct (i_lazy i); [destruct done; discriminate|].
      destruct done as [|x [|y [|z done]]]; inversion E1; subst; reflexivity. }
    destruct (io_bad fs cd o) eqn:B; [|rewrite (step_deferred fs cd o Hdef B) in E3; discriminate].
    rewrite (io_bad_step fs cd o Ho B) in E3. inversion E3; subst e.
    assert (Hun : s_unreadable (supplied_of fs i []) = true).
    { destruct (exec_script fs _ _ _ HFd E2) as [S _]. change (strip (b0 i)) with (b0 i) in S.
      rewrite <- (io_bad_cache fs cd [] o) in B. fold (strip cd) in B. rewrite S in B.
      destruct (supplied_rt fs i []) as [_ Q]. cbv zeta in Q. rewrite Q. clear Q.
      unfold init_ops in E1. destruct (i_lazy i); [destruct done; discriminate|]. cbn [negb orb].
      destruct done as [|x [|y [|z done]]]; inversion E1; subst; unfold io_bad in B; cbn [undefer] in B;
        apply located_bad_inv in B as [_ [l [El Hl]]].
      - inversion El; subst l. destruct (located_corr fs "sys") as [K _]. cbv zeta in K. rewrite (K Hl). reflexivity.
      - assert (Hul : c_user_loc (apply_script fs (b0 i) [LoadSystemD]) = Some "usr").
        { destruct (fold_simple fs [LoadSystemD] (b0 i) eq_refl) as [_ [_ [_ [_ [_ [_ [_ [_ [_ [K _]]]]]]]]]]. exact K. }
        rewrite Hul in El. inversion El; subst l.
        destruct (located_corr fs "usr") as [K _]. cbv zeta in K. rewrite (K Hl). rewrite !orb_true_r. reflexivity. }
    rewrite Hun. destruct (tc_ok _); reflexivity.
Qed.

(** An unreadable system / user file at construction: whatever script follows,
    the specification reads "unreadable". *)
Lemma start_io_fail_any fs i e : exec fs (b0 i) (init_ops i) = Err e ->
  e = EOther /\ forall ops', s_unreadable (supplied_of fs i ops') = true.
Proof.
  intros E.
  destruct (exec_fails fs _ _ _ E) as [done [o [rest [cd [E1 [E2 [E3 _]]]]]]].
  assert (HFi : forallb script_op (done ++ o :: rest) = true) by (rewrite <- E1; apply init_ops_script).
  rewrite forallb_app in HFi. apply andb_true_iff in HFi as [HFd HFo]. cbn [forallb] in HFo.
  apply andb_true_iff in HFo as [Ho _].
  assert (Hdef : is_deferred o = true).
  { unfold init_ops in E1. destruct (i_lazy i); [destruct done; discriminate|].
    destruct done as [|x [|y [|z done]]]; inversion E1; subst; reflexivity. }
  destruct (io_bad fs cd o) eqn:B; [|rewrite (step_deferred fs cd o Hdef B) in E3; discriminate].
  rewrite (io_bad_step fs cd o Ho B) in E3. inversion E3; subst e. split; [reflexivity|]. intros ops'.
  destruct (exec_script fs _ _ _ HFd E2) as [S _]. change (strip (b0 i)) with (b0 i) in S.
  rewrite <- (io_bad_cache fs cd [] o) in B. fold (strip cd) in B. rewrite S in B.
  destruct (supplied_rt fs i ops') as [_ Q]. cbv zeta in Q. rewrite Q. clear Q.
  unfold init_ops in E1. destruct (i_lazy i); [destruct done; discriminate|]. cbn [negb orb].
  destruct done as [|x [|y [|z done]]]; inversion E1; subst; unfold io_bad in B; cbn [undefer] in B;
    apply located_bad_inv in B as [_ [l [El Hl]]].
  - inversion El; subst l. destruct (located_corr fs "sys") as [K _]. cbv zeta in K. rewrite (K Hl). reflexivity.
  - assert (Hul : c_user_loc (apply_script fs (b0 i) [LoadSystemD]) = Some "usr").
    { destruct (fold_simple fs [LoadSystemD] (b0 i) eq_refl) as [_ [_ [_ [_ [_ [_ [_ [_ [_ [K _]]]]]]]]]]. exact K. }
    rewrite Hul in El. inversion El; subst l.
    destruct (located_corr fs "usr") as [K _]. cbv zeta in K. rewrite (K Hl). rewrite !orb_true_r. reflexivity.
Qed.

(** * Assembly: the correspondence record built from the model's own run *)
Definition model_case (fs : fsys) (i : init_args) (ops : list op) : case :=
  let c := mk fs i ops (Err EOther) [] in
  mk fs i ops (model_out c) (model_mids c).

Lemma mids_ok fs i c0 : start fs i = Ok c0 -> forall rest done c,
  exec fs c0 done = Ok c ->
  spec_mids fs i done rest (map snap_of (run_states fs c rest)) = true.
Proof.
  intros Hs. induction rest as [|o r IH]; intros done c H; [reflexivity|].
  cbn [run_states]. destruct (step fs c o) as [c' out] eqn:Es.
  assert (Hex : forall x, x <> OErr EOther -> (forall e, out <> OErr e) -> exec fs c0 (done ++ [o]) = Ok c').
  { intros _ _ Hne. rewrite exec_app, H. cbn [exec]. rewrite Es. destruct out; try reflexivity.
    exfalso. apply (Hne e). reflexivity. }
  destruct out; try reflexivity;
    (cbn [map spec_mids]; apply andb_true_iff; split;
     [apply (prefix_ok fs i c0 _ c' Hs) | apply IH];
     apply (Hex ONone); discriminate).
Qed.

Theorem whole_script_meets_spec fs i ops c0 :
  start fs i = Ok c0 -> spec_loads (model_case fs i ops) = true.
Proof.
  intros Hs. unfold spec_loads, model_case, ops_run. cbn [c_fs c_init c_ops c_obs c_mids].
  apply andb_true_iff. split.
  - rewrite model_out_exec, Hs. unfold model_mids. cbn [c_fs c_init c_ops]. rewrite Hs.
    destruct (exec fs c0 ops) as [cf|e] eqn:E.
    + apply (prefix_ok fs i c0 ops cf Hs E).
    + destruct (exec_fails fs ops c0 e E) as [done [o [rest [cd [E1 [E2 [E3 E4]]]]]]].
      rewrite map_length, E4, E1.
      replace (firstn (S (List.length done)) (done ++ o :: rest)) with (done ++ [o]).
      * apply (fail_ok fs i c0 done cd o e Hs E2 E3).
      * change (o :: rest) with ([o] ++ rest). rewrite app_assoc.
        replace (S (List.length done)) with (List.length (done ++ [o]) + 0)
          by (rewrite app_length; simpl; rewrite Nat.add_0_r; apply Nat.add_1_r).
        rewrite firstn_app_2. simpl. rewrite app_nil_r. reflexivity.
  - unfold model_mids. cbn [c_fs c_init c_ops]. rewrite Hs.
    apply (mids_ok fs i c0 Hs ops [] c0). reflexivity.
Qed.

(** The constructor raised: the empty script is judged. *)
Theorem constructor_failure_meets_spec fs i e :
  start fs i = Err e -> spec_ok fs i [] "INVOKE_" (Err e) = true.
Proof. exact (start_fail_ok fs i e). Qed.

(** The constructor raised on an unreadable system / user file: the record of
    ANY script is accepted (no call of the script ran). *)
Theorem constructor_io_failure_any_script fs i ops e :
  exec fs (b0 i) (init_ops i) = Err e -> spec_loads (model_case fs i ops) = true.
Proof.
  intros E. destruct (start_io_fail_any fs i e E) as [-> Hun].
  assert (Hs : start fs i = Err EOther) by (rewrite start_eq, E; reflexivity).
  unfold spec_loads, model_case, ops_run, model_mids. cbn [c_fs c_init c_ops c_obs c_mids].
  rewrite model_out_exec, Hs. cbn [List.length map spec_mids].
  assert (T : forall l, spec_mids fs i [] l [] = true) by (intros l; destruct l; reflexivity).
  rewrite T, andb_true_r, spec_ok_unfold.
  destruct (wf_script (firstn 1 ops)); [|reflexivity]. cbn [negb]. cbv zeta.
  rewrite Hun. destruct (tc_ok _); reflexivity.
Qed.
