(** C03: the model's run of EVERY load script is accepted by the whole
    executable specification (the level contents the spec reads off the script
    are the ones the model ends up with; the view is the oracle's; the
    environment level is what the environment names; the suffixes read are the
    first existing ones). *)
From Coq Require Import Lia.
From InvokeVerif Require Import Common.Tree Common.StrUtil Model.MergeModel Model.EnvModel
     Model.ConfigModel Spec.C03Spec Proofs.ListFacts Proofs.TreeFacts Proofs.C03_merge
     Proofs.C03_levels Proofs.C03_order Proofs.C03_script.

Local Opaque try_suffixes mem.

(** * I/O failures of a call, as a function of the level fields *)
Definition located_bad (fs : fsys) (f : found) (loc : option string) : bool :=
  match f, loc with
  | FNone, Some l => match try_suffixes fs l file_suffixes with LFail => true | _ => false end
  | _, _ => false
  end.

Definition runtime_bad (fs : fsys) (f : found) (p : option (string * string)) : bool :=
  match f, p with
  | FNone, Some (stem, sfx) =>
      negb (mem sfx file_suffixes) ||
      match fs_get fs stem sfx with Some FIOErr => true | _ => false end
  | _, _ => false
  end.

Definition io_bad (fs : fsys) (c : cfg) (o : op) : bool :=
  match undefer o with
  | LoadSystem => located_bad fs (c_sys_found c) (c_sys_loc c)
  | LoadUser => located_bad fs (c_user_found c) (c_user_loc c)
  | LoadProject => located_bad fs (c_proj_found c) (c_proj_loc c)
  | LoadRuntime => runtime_bad fs (c_rt_found c) (c_rt_path c)
  | _ => false
  end.

Lemma io_bad_cache fs c d o : io_bad fs (set_cache c d) o = io_bad fs c o.
Proof. destruct o, c; reflexivity. Qed.

(** A failing call raises (and leaves the state alone). *)
Lemma io_bad_step fs c o : script_op o = true -> io_bad fs c o = true ->
  step fs c o = (c, OErr EOther).
Proof.
  intros Hs H. destruct o; try discriminate; unfold io_bad in H; cbn [undefer] in H;
    unfold step, step_with, with_flag, load_system, load_user, load_project, load_located, load_runtime;
    unfold located_bad, runtime_bad in H.
  all: try (destruct (c_sys_found c); try discriminate; destruct (c_sys_loc c); try discriminate;
            destruct (try_suffixes fs s file_suffixes); try discriminate; reflexivity).
  all: try (destruct (c_user_found c); try discriminate; destruct (c_user_loc c); try discriminate;
            destruct (try_suffixes fs s file_suffixes); try discriminate; reflexivity).
  all: try (destruct (c_proj_found c); try discriminate; destruct (c_proj_loc c); try discriminate;
            destruct (try_suffixes fs s file_suffixes); try discriminate; reflexivity).
  all: destruct (c_rt_found c); try discriminate; destruct (c_rt_path c) as [[stem sfx]|]; try discriminate;
    destruct (negb (mem sfx file_suffixes)); [reflexivity|];
    destruct (fs_get fs stem sfx) as [[t|]|]; try discriminate; reflexivity.
Qed.

(** A call that does not fail on I/O: no merge, or a merge that succeeds, or a
    merge that fails (then that is the exception). *)
Definition step_cases (fs : fsys) (c : cfg) (o : op) : Prop :=
  let c1 := pure_step fs c o in
  step fs c o = (c1, ONone) \/
  (exists d, merge c1 = Ok d /\ step fs c o = (set_cache c1 d, ONone)) \/
  (exists e, merge c1 = Err e /\ snd (step fs c o) = OErr e).

Lemma remerge_cases c1 :
  (exists d, merge c1 = Ok d /\ remerge c1 ONone = (set_cache c1 d, ONone)) \/
  (exists e, merge c1 = Err e /\ snd (remerge c1 ONone) = OErr e).
Proof.
  unfold remerge. destruct (merge c1) as [d|e]; [left; exists d | right; exists e]; auto.
Qed.

Ltac finish_remerge c1 :=
  destruct (remerge_cases c1) as [[d [Em Er]]|[e [Em Er]]];
  [ right; left; exists d; split; [exact Em|]; rewrite Er; reflexivity
  | right; right; exists e; split; [exact Em|]; destruct (remerge c1 ONone); exact Er ].

Lemma load_located_nomerge fs c fnd loc upd old :
  located_bad fs fnd loc = false ->
  load_located fs c fnd loc upd old false =
  (match located_upd fs fnd loc old with Some (t, f, s) => upd c t f s | None => c end, ONone, false).
Proof.
  unfold load_located, located_upd, located_bad. intros H.
  destruct fnd; try reflexivity. destruct loc as [l|]; try reflexivity.
  destruct (try_suffixes fs l file_suffixes); try discriminate; reflexivity.
Qed.

Lemma load_runtime_nomerge fs c :
  runtime_bad fs (c_rt_found c) (c_rt_path c) = false ->
  load_runtime fs c false =
  (match runtime_upd fs (c_rt_found c) (c_rt_path c) with Some (t, f, _) => set_runtime c t f | None => c end,
   ONone, false).
Proof.
  unfold load_runtime, runtime_upd, runtime_bad. intros H.
  destruct (c_rt_found c); try reflexivity. destruct (c_rt_path c) as [[stem sfx]|]; try reflexivity.
  destruct (negb (mem sfx file_suffixes)); [discriminate|]. cbn [orb] in H.
  destruct (fs_get fs stem sfx) as [[t|]|]; try discriminate; try reflexivity.
  destruct (String.eqb sfx "py"); reflexivity.
Qed.

Lemma step_script_cases fs c o : script_op o = true -> io_bad fs c o = false -> step_cases fs c o.
Proof.
  intros Hs H. unfold step_cases. cbv zeta.
  destruct o; try discriminate; unfold io_bad in H; cbn [undefer] in H;
    unfold step, step_with, merged, with_flag, pure_step, load_pure, guard, setter; cbn [undefer].
  - finish_remerge (set_defaults c t).
  - finish_remerge (set_overrides c t).
  - finish_remerge (set_collection c t).
  - unfold load_system, load_located, located_upd, located_bad in *.
    destruct (c_sys_found c); try (left; reflexivity). destruct (c_sys_loc c) as [l|]; try (left; reflexivity).
    destruct (try_suffixes fs l file_suffixes); try discriminate; [|left; reflexivity].
    cbn [fst snd]. finish_remerge (set_system c t FTrue (Some sfx)).
  - unfold load_user, load_located, located_upd, located_bad in *.
    destruct (c_user_found c); try (left; reflexivity). destruct (c_user_loc c) as [l|]; try (left; reflexivity).
    destruct (try_suffixes fs l file_suffixes); try discriminate; [|left; reflexivity].
    cbn [fst snd]. finish_remerge (set_user c t FTrue (Some sfx)).
  - unfold load_project, load_located, located_upd, located_bad in *.
    destruct (c_proj_found c); try (left; reflexivity). destruct (c_proj_loc c) as [l|]; try (left; reflexivity).
    destruct (try_suffixes fs l file_suffixes); try discriminate; [|left; reflexivity].
    cbn [fst snd]. finish_remerge (set_project c t FTrue (Some sfx)).
  - unfold load_runtime, runtime_upd, runtime_bad in *.
    destruct (c_rt_found c); try (left; reflexivity). destruct (c_rt_path c) as [[stem sfx]|]; try (left; reflexivity).
    destruct (negb (mem sfx file_suffixes)); [discriminate|]. cbn [orb] in H.
    destruct (fs_get fs stem sfx) as [[t|]|]; try discriminate.
    + cbn [fst snd]. finish_remerge (set_runtime c t FTrue).
    + destruct (String.eqb sfx "py"); cbn [fst snd].
      * finish_remerge (set_runtime c (Node []) FTrue).
      * finish_remerge c.
  - left; reflexivity.
  - left; reflexivity.
  - left; reflexivity.
  - left; reflexivity.
  - left; reflexivity.
  - unfold load_system. rewrite load_located_nomerge by exact H. left; reflexivity.
  - unfold load_user. rewrite load_located_nomerge by exact H. left; reflexivity.
  - unfold load_project. rewrite load_located_nomerge by exact H. left; reflexivity.
  - rewrite load_runtime_nomerge by exact H. left; reflexivity.
  - finish_remerge c.
Qed.

(** * No I/O failure along a fold *)
Fixpoint no_bad (fs : fsys) (c : cfg) (ops : list op) : bool :=
  match ops with
  | [] => true
  | o :: r => negb (io_bad fs c o) && no_bad fs (pure_step fs c o) r
  end.

Lemma no_bad_app fs : forall a c b,
  no_bad fs c (a ++ b) = no_bad fs c a && no_bad fs (apply_script fs c a) b.
Proof.
  induction a as [|o a IH]; intros c b; [reflexivity|].
  simpl. rewrite IH, andb_assoc. reflexivity.
Qed.

Lemma after_last_snoc f ops o :
  after_last f (ops ++ [o]) = if f o then [] else after_last f ops ++ [o].
Proof.
  induction ops as [|x ops IH]; simpl.
  - destruct (f o); reflexivity.
  - rewrite existsb_app. simpl. rewrite orb_false_r. rewrite IH.
    destruct (existsb f ops) eqn:E1; simpl.
    + destruct (f o); reflexivity.
    + destruct (f o) eqn:E2; simpl; [reflexivity|].
      destruct (f x); reflexivity.
Qed.

Lemma not_LFail_next fs t l :
  fst (fst t) = FNone -> try_suffixes fs l file_suffixes <> LFail ->
  fst (fst (located_next fs t (Some l))) <> FNone.
Proof.
  destruct t as [[f d] s]. simpl. intros -> H. unfold located_next, located_upd.
  destruct (try_suffixes fs l file_suffixes); simpl; congruence.
Qed.

(** system / user: once a load call for the level is in the script, its first
    existing candidate was readable *)
Lemma located_loaded_ok fs (is_it : op -> bool) (get3 : cfg -> triple) (getloc : cfg -> option string)
      (l : string) :
  (forall c o, script_op o = true -> getloc (pure_step fs c o) = getloc c) ->
  (forall c o, script_op o = true ->
     get3 (pure_step fs c o) = if is_it (undefer o) then located_next fs (get3 c) (getloc c) else get3 c) ->
  (forall c o, is_it (undefer o) = true -> io_bad fs c o = located_bad fs (fst (fst (get3 c))) (getloc c)) ->
  forall ops c, forallb script_op ops = true -> no_bad fs c ops = true -> getloc c = Some l ->
    (fst (fst (get3 c)) = FNone \/ try_suffixes fs l file_suffixes <> LFail) ->
    existsb is_it (map undefer ops) = true -> try_suffixes fs l file_suffixes <> LFail.
Proof.
  intros Hloc Hstep Hbad. induction ops as [|o rest IH]; intros c HF Hnb Hl Hinv Hex; [discriminate|].
  simpl in HF, Hnb, Hex. apply andb_true_iff in HF as [Ho HF']. apply andb_true_iff in Hnb as [Hb Hnb'].
  apply negb_true_iff in Hb.
  destruct (is_it (undefer o)) eqn:Ei.
  - destruct Hinv as [Hf|Hok]; [|exact Hok].
    rewrite (Hbad c o Ei), Hl, Hf in Hb. unfold located_bad in Hb.
    destruct (try_suffixes fs l file_suffixes); try discriminate; congruence.
  - simpl in Hex. apply (IH (pure_step fs c o) HF' Hnb').
    + rewrite Hloc by exact Ho. exact Hl.
    + rewrite Hstep by exact Ho. rewrite Ei. exact Hinv.
    + exact Hex.
Qed.

Lemma forallb_snoc {A} (f : A -> bool) l x : forallb f (l ++ [x]) = forallb f l && f x.
Proof. rewrite forallb_app. simpl. rewrite andb_true_r. reflexivity. Qed.

(** project: a load call after the last re-pointing found a readable candidate *)
Lemma prj_inv fs c0 : forall all,
  forallb script_op all = true -> no_bad fs c0 all = true -> c_proj_found c0 = FNone ->
  let c := apply_script fs c0 all in
  (forall l, c_proj_loc c = Some l -> c_proj_found c <> FNone -> try_suffixes fs l file_suffixes <> LFail) /\
  (existsb isPrj (after_last isSetP (map undefer all)) = true ->
   forall l, c_proj_loc c = Some l -> c_proj_found c <> FNone).
Proof.
  induction all as [|o a IH] using rev_ind; intros HF Hnb H0; cbv zeta.
  - simpl. split; [intros l _ Hf; congruence | discriminate].
  - rewrite forallb_snoc in HF. apply andb_true_iff in HF as [HFa Ho].
    rewrite no_bad_app in Hnb. apply andb_true_iff in Hnb as [Hnba Hb].
    simpl in Hb. rewrite andb_true_r in Hb. apply negb_true_iff in Hb.
    destruct (IH HFa Hnba H0) as [I2 I1]. clear IH.
    rewrite apply_script_app. set (c := apply_script fs c0 a) in *.
    change (apply_script fs c [o]) with (pure_step fs c o).
    fields fs c o Ho.
    rewrite map_app. cbn [map]. rewrite after_last_snoc.
    assert (Hfound : c_proj_found (pure_step fs c o) = fst (fst (prj3 (pure_step fs c o)))) by reflexivity.
    rewrite Hfound, Hp3, Hpl. clear Hfound Hp3 Hpl Hd Ho0 Hc He Hm Hdl Hsl Hul Hpf Hrp Hs3 Hu3 Hr2.
    unfold io_bad in Hb.
    destruct o; try discriminate; cbn [undefer isSetP isPrj fst prj3 blank3] in *;
      try (rewrite existsb_app; cbn [existsb isPrj orb]; rewrite orb_false_r; split; [exact I2 | exact I1]).
    + (* LoadProject *)
      split.
      * intros l Hl Hf. destruct (c_proj_found c) eqn:Ef.
        -- unfold located_bad in Hb. rewrite Hl in Hb.
           destruct (try_suffixes fs l file_suffixes); try discriminate; congruence.
        -- apply (I2 l Hl). congruence.
        -- apply (I2 l Hl). congruence.
      * intros _ l Hl. destruct (c_proj_found c) eqn:Ef.
        -- unfold located_bad in Hb. rewrite Hl in Hb. unfold located_next, located_upd, prj3. rewrite Hl, Ef.
           destruct (try_suffixes fs l file_suffixes); try discriminate; simpl; congruence.
        -- unfold located_next, located_upd, prj3. rewrite Ef. simpl. congruence.
        -- unfold located_next, located_upd, prj3. rewrite Ef. simpl. congruence.
    + (* SetProjectLocation *)
      split; [|discriminate]. intros l0 _ Hf. exfalso. apply Hf. reflexivity.
    + (* LoadProjectD *)
      split.
      * intros l Hl Hf. destruct (c_proj_found c) eqn:Ef.
        -- unfold located_bad in Hb. rewrite Hl in Hb.
           destruct (try_suffixes fs l file_suffixes); try discriminate; congruence.
        -- apply (I2 l Hl). congruence.
        -- apply (I2 l Hl). congruence.
      * intros _ l Hl. destruct (c_proj_found c) eqn:Ef.
        -- unfold located_bad in Hb. rewrite Hl in Hb. unfold located_next, located_upd, prj3. rewrite Hl, Ef.
           destruct (try_suffixes fs l file_suffixes); try discriminate; simpl; congruence.
        -- unfold located_next, located_upd, prj3. rewrite Ef. simpl. congruence.
        -- unfold located_next, located_upd, prj3. rewrite Ef. simpl. congruence.
Qed.
