(** String-level facts about [Collection.transform] and dotted paths:
    transform works segment by segment, is idempotent, the later of two
    transforms wins, and [partition]/[split] at dots agree.  Used by C17, C10. *)
From InvokeVerif Require Import Model.CollModel.

Definition dot : ascii := ".".
Definition dotfree (s : string) : bool := negb (contains_char "." s).

(** ** one character of [transform_aux] *)
Definition prot (prev : option ascii) : bool :=
  match prev with None => true | Some p => Ascii.eqb p "." end.
Definition hd_prot (s : string) : bool :=
  match s with EmptyString => true | String nx _ => Ascii.eqb nx "." end.
Definition elig (prev : option ascii) (s' : string) : bool := negb (prot prev) && negb (hd_prot s').
Definition tc (f t : ascii) (e : bool) (c : ascii) : ascii := if Ascii.eqb c f && e then t else c.

Lemma transform_aux_cons f t prev c s' :
  transform_aux f t prev (String c s') =
  String (tc f t (elig prev s') c) (transform_aux f t (Some c) s').
Proof.
  cbn [transform_aux]. f_equal. unfold tc, elig, prot, hd_prot.
  destruct prev as [p|]; destruct s' as [|nx s'']; cbn;
    rewrite ?andb_false_r, ?andb_true_r; try reflexivity.
  rewrite andb_assoc. reflexivity.
Qed.

(** the two rewriting directions *)
Definition dirs (f t : ascii) : Prop := (f = "_"%char /\ t = "-"%char) \/ (f = "-"%char /\ t = "_"%char).

Lemma tc_dot f t e c : dirs f t -> Ascii.eqb (tc f t e c) "." = Ascii.eqb c ".".
Proof.
  intros D. unfold tc. destruct (Ascii.eqb c f) eqn:E; simpl; [|reflexivity].
  destruct e; [|reflexivity].
  apply Ascii.eqb_eq in E; subst c. destruct D as [[-> ->]|[-> ->]]; reflexivity.
Qed.

Lemma hd_prot_transform f t prev s : dirs f t -> hd_prot (transform_aux f t prev s) = hd_prot s.
Proof.
  intros D. destruct s as [|c s']; [reflexivity|].
  rewrite transform_aux_cons. cbn [hd_prot]. apply tc_dot; exact D.
Qed.

Lemma transform_aux_prot f t p1 p2 s :
  prot p1 = prot p2 -> transform_aux f t p1 s = transform_aux f t p2 s.
Proof.
  intros H. destruct s as [|c s']; [reflexivity|].
  rewrite !transform_aux_cons. unfold elig. rewrite H. reflexivity.
Qed.

Lemma tc_tc f1 t1 f2 t2 e c : dirs f1 t1 -> dirs f2 t2 ->
  tc f1 t1 e (tc f2 t2 e c) = tc f1 t1 e c.
Proof.
  intros D1 D2. unfold tc. destruct e; rewrite ?andb_false_r, ?andb_true_r; [|reflexivity].
  destruct D1 as [[-> ->]|[-> ->]]; destruct D2 as [[-> ->]|[-> ->]];
    destruct (Ascii.eqb c "_") eqn:E1; destruct (Ascii.eqb c "-") eqn:E2;
    try (apply Ascii.eqb_eq in E1; subst c); try (apply Ascii.eqb_eq in E2; subst c);
    try discriminate; cbn; rewrite ?E1, ?E2; reflexivity.
Qed.

(** ** the later transform wins (hence idempotence) *)
Lemma transform_aux_absorb f1 t1 f2 t2 : dirs f1 t1 -> dirs f2 t2 ->
  forall s p p', prot p = prot p' ->
    transform_aux f1 t1 p' (transform_aux f2 t2 p s) = transform_aux f1 t1 p s.
Proof.
  intros D1 D2. induction s as [|c s' IH]; intros p p' Hp; [reflexivity|].
  rewrite (transform_aux_cons f2), !transform_aux_cons.
  f_equal.
  - unfold elig. rewrite (hd_prot_transform f2 t2 _ _ D2), <- Hp.
    apply tc_tc; assumption.
  - apply IH. cbn [prot]. symmetry. apply tc_dot; exact D2.
Qed.

Lemma dirs_of (ad : bool) : dirs (if ad then "_" else "-")%char (if ad then "-" else "_")%char.
Proof. destruct ad; [left | right]; split; reflexivity. Qed.

Lemma transform_as_aux (ad : bool) s :
  transform ad s = transform_aux (if ad then "_" else "-")%char (if ad then "-" else "_")%char None s.
Proof. destruct ad; reflexivity. Qed.

Lemma transform_absorb a b s : transform a (transform b s) = transform a s.
Proof.
  rewrite !transform_as_aux.
  apply transform_aux_absorb; [apply dirs_of | apply dirs_of | reflexivity].
Qed.

Lemma transform_idem ad s : transform ad (transform ad s) = transform ad s.
Proof. apply transform_absorb. Qed.

Lemma transform_empty ad s : transform ad s = "" <-> s = "".
Proof.
  rewrite transform_as_aux. destruct s as [|c s']; [tauto|].
  rewrite transform_aux_cons. split; discriminate.
Qed.

Lemma transform_nil ad : transform ad "" = "".
Proof. destruct ad; reflexivity. Qed.

(** ** dots: contains / partition / split *)
Lemma contains_transform_aux f t : dirs f t -> forall s p,
  contains_char "." (transform_aux f t p s) = contains_char "." s.
Proof.
  intros D. induction s as [|c s' IH]; intros p; [reflexivity|].
  rewrite transform_aux_cons. cbn [contains_char]. rewrite IH, (tc_dot _ _ _ _ D). reflexivity.
Qed.

Lemma contains_transform ad s : contains_char "." (transform ad s) = contains_char "." s.
Proof. rewrite transform_as_aux. apply contains_transform_aux, dirs_of. Qed.

Lemma split_nonempty a s : split_char a s <> [].
Proof.
  destruct s as [|c s']; simpl; [discriminate|].
  destruct (Ascii.eqb c a); [discriminate|]. destruct (split_char a s'); discriminate.
Qed.

Lemma split_cons_dot s' : split_char "." (String "." s') = "" :: split_char "." s'.
Proof. reflexivity. Qed.

Lemma split_cons_other c s' : Ascii.eqb c "." = false ->
  split_char "." (String c s') =
  match split_char "." s' with [] => [String c ""] | x :: l => String c x :: l end.
Proof. intros H. cbn [split_char]. rewrite H. reflexivity. Qed.

(** [transform] acts on each dot-separated segment separately *)
Lemma split_transform_aux f t : dirs f t -> forall s p,
  split_char "." (transform_aux f t p s) =
  match split_char "." s with
  | [] => []
  | x :: l => transform_aux f t p x :: map (transform_aux f t None) l
  end.
Proof.
  intros D. induction s as [|c s' IH]; intros p; [reflexivity|].
  rewrite transform_aux_cons.
  destruct (Ascii.eqb c ".") eqn:E.
  - assert (tc f t (elig p s') c = c) as Htc.
    { unfold tc. apply Ascii.eqb_eq in E; subst c.
      destruct D as [[-> ->]|[-> ->]]; reflexivity. }
    rewrite Htc. apply Ascii.eqb_eq in E; subst c.
    rewrite !split_cons_dot, IH.
    destruct (split_char "." s') as [|x l] eqn:Es; [exfalso; eapply split_nonempty; eauto|].
    cbn [map]. f_equal. f_equal. apply transform_aux_prot. reflexivity.
  - assert (Ascii.eqb (tc f t (elig p s') c) "." = false) as E' by (rewrite tc_dot; assumption).
    rewrite (split_cons_other _ _ E'), (split_cons_other _ _ E), IH.
    destruct (split_char "." s') as [|x l] eqn:Es; [exfalso; eapply split_nonempty; eauto|].
    rewrite transform_aux_cons. f_equal. f_equal. f_equal.
    unfold elig. f_equal. f_equal.
    (* the character after c: in s' and in its first segment *)
    destruct s' as [|nx s'']; [simpl in Es; inversion Es; subst; reflexivity|].
    destruct (Ascii.eqb nx ".") eqn:En.
    + apply Ascii.eqb_eq in En; subst nx. rewrite split_cons_dot in Es. inversion Es; subst.
      reflexivity.
    + rewrite (split_cons_other _ _ En) in Es.
      destruct (split_char "." s'') as [|x' l']; inversion Es; subst; simpl; rewrite En; reflexivity.
Qed.

Lemma split_transform ad s :
  split_char "." (transform ad s) = map (transform ad) (split_char "." s).
Proof.
  rewrite transform_as_aux, (split_transform_aux _ _ (dirs_of ad)).
  destruct (split_char "." s) as [|x l] eqn:Es; [reflexivity|].
  cbn [map]. rewrite !transform_as_aux. f_equal.
  apply map_ext. intros y. rewrite transform_as_aux. reflexivity.
Qed.

(** [partition] at the first dot vs [split] *)
Lemma partition_split s :
  match partition_char "." s with
  | (a, true, r) => split_char "." s = a :: split_char "." r /\ contains_char "." s = true
  | (a, false, _) => split_char "." s = [a] /\ a = s /\ contains_char "." s = false
  end.
Proof.
  induction s as [|c s' IH]; [simpl; auto|].
  cbn [partition_char contains_char].
  destruct (Ascii.eqb c ".") eqn:E.
  - apply Ascii.eqb_eq in E; subst c. split; reflexivity.
  - destruct (partition_char "." s') as [[a fl] r].
    rewrite (split_cons_other _ _ E). destruct fl.
    + destruct IH as [H1 H2]. rewrite H1. split; [reflexivity | exact H2].
    + destruct IH as [H1 [H2 H3]]. rewrite H1. subst a. split; [reflexivity|]. split; [reflexivity|exact H3].
Qed.

Lemma split_dotfree s : contains_char "." s = false -> split_char "." s = [s].
Proof.
  intros H. pose proof (partition_split s) as P.
  destruct (partition_char "." s) as [[a fl] r]. destruct fl.
  - destruct P as [_ P]. congruence.
  - destruct P as [P1 [P2 _]]. subst a. exact P1.
Qed.

(** segments produced by [split] contain no dot *)
Lemma split_segments_dotfree s : Forall (fun x => contains_char "." x = false) (split_char "." s).
Proof.
  induction s as [|c s' IH]; [constructor; [reflexivity|constructor]|].
  destruct (Ascii.eqb c ".") eqn:E.
  - apply Ascii.eqb_eq in E; subst c. rewrite split_cons_dot. constructor; [reflexivity|exact IH].
  - rewrite (split_cons_other _ _ E).
    destruct (split_char "." s') as [|x l]; [constructor; [simpl; rewrite E; reflexivity|constructor]|].
    inversion IH; subst. constructor; [simpl; rewrite E; assumption | assumption].
Qed.

(** ** join / split *)
Lemma join_cons2 sep x y l : join sep (x :: y :: l) = (x ++ sep ++ join sep (y :: l))%string.
Proof. reflexivity. Qed.

Lemma split_append_dot x r : contains_char "." x = false ->
  split_char "." (x ++ "." ++ r)%string = x :: split_char "." r.
Proof.
  induction x as [|c x IH]; intros H; [reflexivity|].
  cbn [contains_char] in H. apply orb_false_iff in H as [H1 H2].
  change ((String c x ++ "." ++ r)%string) with (String c (x ++ "." ++ r)%string).
  rewrite (split_cons_other _ _ H1), (IH H2). reflexivity.
Qed.

Lemma split_join segs : segs <> [] -> Forall (fun x => contains_char "." x = false) segs ->
  split_char "." (join "." segs) = segs.
Proof.
  induction segs as [|x l IH]; intros Hne HF; [congruence|].
  inversion HF as [|? ? Hx Hl]; subst.
  destruct l as [|y l'].
  - simpl. apply split_dotfree; exact Hx.
  - rewrite join_cons2, (split_append_dot _ _ Hx), IH; [reflexivity | discriminate | exact Hl].
Qed.

Lemma join_split s : join "." (split_char "." s) = s.
Proof.
  induction s as [|c s' IH]; [reflexivity|].
  destruct (Ascii.eqb c ".") eqn:E.
  - apply Ascii.eqb_eq in E; subst c. rewrite split_cons_dot.
    destruct (split_char "." s') as [|x l] eqn:Es; [exfalso; eapply split_nonempty; eauto|].
    rewrite join_cons2, IH. reflexivity.
  - rewrite (split_cons_other _ _ E).
    destruct (split_char "." s') as [|x l] eqn:Es; [exfalso; eapply split_nonempty; eauto|].
    destruct l as [|y l']; simpl in *; rewrite <- IH; reflexivity.
Qed.

(** [transform] commutes with dotted-path composition *)
Lemma transform_join ad segs : segs <> [] -> Forall (fun x => contains_char "." x = false) segs ->
  transform ad (join "." segs) = join "." (map (transform ad) segs).
Proof.
  intros Hne HF.
  rewrite <- (join_split (transform ad (join "." segs))), split_transform, split_join by assumption.
  reflexivity.
Qed.
