(** C01, wide instance, part 1: the per-task static guard, the state invariant
    kept between two items (st_nm + counters + which value arguments were
    given), and form-independent facts about [run_occ]. *)
From InvokeVerif Require Import Model.ParserModel Corr.C01Corr Proofs.ListFacts Proofs.C07_fuel
     Proofs.C01_steps Proofs.C01_tokens Proofs.C01_lookup Proofs.C01_occ Proofs.C01_roundtrip
     Proofs.C01_form_counter Proofs.C01_occ_nm.
From Coq Require Import Lia.

(** ** static guard *)
Definition counter_default_ok (a : argspec) : bool :=
  negb (a_incrementable a) || countable (a_default a).

(** a positional whose default is None must be able to receive a value *)
Definition pos_sane (a : argspec) : bool :=
  negb (a_positional a && aval_is_none (a_default a) && negb (takes_value a)).

Definition guard_w (c : ctxspec) : bool :=
  ctx_guard_nm c && forallb counter_default_ok (cx_args c) && forallb pos_sane (cx_args c).

(** ** invariant *)
Record given_track (given : list nat) (args : list rarg) : Prop := {
  gt_none : forall j r, nth_error args j = Some r -> takes_value (r_spec r) = true ->
                        a_kind (r_spec r) <> KList -> mem_nat j given = false -> r_val r = ANone;
  gt_some : forall j r, nth_error args j = Some r -> takes_value (r_spec r) = true ->
                        mem_nat j given = true -> aval_is_none (r_val r) = false
}.

Definition Inv_w (c : ctxspec) (given : list nat) (args : list rarg) : Prop :=
  st_nm c given args /\ counters_ok args /\ given_track given args.

Lemma guard_w_parts c : guard_w c = true ->
  ctx_guard_nm c = true /\
  (forall a, In a (cx_args c) -> counter_default_ok a = true) /\
  (forall a, In a (cx_args c) -> pos_sane a = true).
Proof.
  unfold guard_w. rewrite !andb_true_iff. intros [[G C] P]. split; [exact G|].
  split; intros a Ha; [exact (proj1 (forallb_forall _ _) C a Ha) | exact (proj1 (forallb_forall _ _) P a Ha)].
Qed.

Lemma init_st_nm c : ctx_guard_nm c = true -> st_nm c [] (map init_arg (cx_args c)).
Proof.
  intros G. destruct (guard_parts_nm c G) as [_ [_ [_ Ld]]]. split.
  - rewrite map_map. simpl. apply map_id.
  - intros i r N K. apply nth_error_In in N. apply in_map_iff in N. destruct N as [a [<- Ha]].
    simpl in K. unfold init_arg, init_value. cbn [r_val].
    specialize (Ld a Ha). unfold list_default_ok in Ld. rewrite K in Ld.
    apply andb_true_iff in Ld. destruct Ld as [Ni _]. rewrite negb_true_iff in Ni.
    rewrite Ni, K. eauto.
  - intros i r N Tv K _. apply nth_error_In in N. apply in_map_iff in N. destruct N as [a [<- Ha]].
    simpl in *. unfold init_arg, init_value. cbn [r_raw]. unfold takes_value in Tv.
    destruct (a_kind a); try congruence; destruct (a_incrementable a); try discriminate; reflexivity.
Qed.

Lemma Inv_w_init c : guard_w c = true -> Inv_w c [] (map init_arg (cx_args c)).
Proof.
  intros G. destruct (guard_w_parts c G) as [Gn [Cd _]]. split; [now apply init_st_nm|]. split.
  - apply (counters_ok_init c). apply forallb_forall. intros a Ha. exact (Cd a Ha).
  - split.
    + intros j r N Tv K _. apply nth_error_In in N. apply in_map_iff in N. destruct N as [a [<- Ha]].
      cbn [r_spec init_arg r_val] in *. unfold init_value. unfold takes_value in Tv.
      destruct (a_kind a); try congruence; destruct (a_incrementable a); try discriminate; reflexivity.
    + intros j r _ _ H. discriminate H.
Qed.

(** ** missing positionals, dynamically and statically *)
Lemma missing_pointwise c given args j r :
  guard_w c = true -> Inv_w c given args -> nth_error args j = Some r ->
  (a_positional (r_spec r) && aval_is_none (arg_value r))
  = (required_positional (r_spec r) && negb (mem_nat j given)).
Proof.
  intros G [St [_ Gt]] N. destruct (guard_w_parts c G) as [Gn [_ Ps]].
  destruct (guard_parts_nm c Gn) as [_ [_ [_ Ld]]].
  assert (Ha : In (r_spec r) (cx_args c)).
  { rewrite <- (sn_shape _ _ _ St). apply in_map. eapply nth_error_In; eauto. }
  pose proof (Ps _ Ha) as P. pose proof (Ld _ Ha) as L.
  unfold pos_sane in P. unfold required_positional.
  destruct (a_positional (r_spec r)) eqn:Hp; [|reflexivity]. cbn [andb] in *.
  unfold arg_value.
  destruct (aval_is_none (a_default (r_spec r))) eqn:Dn.
  - cbn [andb negb] in P. rewrite negb_involutive in P. rewrite P. cbn [andb].
    destruct (akind_eqb (a_kind (r_spec r)) KList) eqn:Kl.
    + assert (K : a_kind (r_spec r) = KList) by (destruct (a_kind (r_spec r)); try discriminate; reflexivity).
      destruct (sn_list _ _ _ St j r N K) as [l El]. rewrite El. reflexivity.
    + assert (K : a_kind (r_spec r) <> KList) by (intros K; rewrite K in Kl; discriminate).
      cbn [negb andb]. destruct (mem_nat j given) eqn:M.
      * pose proof (gt_some _ _ Gt j r N P M) as E. rewrite E. cbn [negb]. exact E.
      * pose proof (gt_none _ _ Gt j r N P K M) as E. rewrite E. cbn [aval_is_none negb]. exact Dn.
  - cbn [andb]. destruct (aval_is_none (r_val r)) eqn:E; [exact Dn | exact E].
Qed.

Lemma missing_first_gen : forall args specs k given,
  map r_spec args = specs ->
  (forall j r, nth_error args j = Some r ->
     (a_positional (r_spec r) && aval_is_none (arg_value r))
     = (required_positional (r_spec r) && negb (mem_nat (k + j) given))) ->
  first_missing_from k specs given = hd_error (missing_from k args).
Proof.
  induction args as [|r args IH]; intros specs k given <- H; [reflexivity|].
  cbn [map first_missing_from missing_from].
  pose proof (H 0 r eq_refl) as H0. rewrite Nat.add_0_r in H0.
  unfold mem_nat in H0. rewrite H0.
  destruct (required_positional (r_spec r) && negb (existsb (Nat.eqb k) given)); [reflexivity|].
  apply IH; [reflexivity|]. intros j rj Nj. specialize (H (S j) rj Nj).
  now rewrite Nat.add_succ_r in H.
Qed.

Lemma missing_first c given args :
  guard_w c = true -> Inv_w c given args ->
  first_missing c given = hd_error (missing_positional args).
Proof.
  intros G I. unfold first_missing, missing_positional. apply missing_first_gen.
  - destruct I as [St _]. exact (sn_shape _ _ _ St).
  - intros j r N. cbn [plus]. eapply missing_pointwise; eauto.
Qed.

Lemma missing_from_none : forall args k,
  hd_error (missing_from k args) = None ->
  existsb (fun r => a_positional (r_spec r) && aval_is_none (arg_value r)) args = false.
Proof.
  induction args as [|x args IH]; intros k H; [reflexivity|]. cbn [missing_from existsb] in *.
  destruct (a_positional (r_spec x) && aval_is_none (arg_value x)); [discriminate H|].
  cbn [orb]. now apply (IH (S k)).
Qed.

Lemma no_missing_of_end c given args :
  guard_w c = true -> Inv_w c given args -> first_missing c given = None -> no_missing args = true.
Proof.
  intros G I E. rewrite (missing_first c given args G I) in E.
  unfold no_missing. apply negb_true_iff. now apply (missing_from_none args 0).
Qed.

Lemma has_missing_false cur c given :
  guard_w c = true -> Inv_w c given (rc_args cur) -> first_missing c given = None ->
  has_missing cur = false.
Proof.
  intros G I E. pose proof (no_missing_of_end c given _ G I E) as N.
  unfold no_missing in N. apply negb_true_iff in N. exact N.
Qed.

(** ** what a successful [set_value] guarantees *)
Lemma set_value_props r v cast r' :
  set_value r v cast = Ok r' ->
  r_spec r' = r_spec r /\ r_raw r' = true /\
  (a_incrementable (r_spec r) = true -> countable (arg_value r') = true).
Proof.
  unfold set_value. destruct (new_value r v cast) as [x|] eqn:E; [|discriminate].
  intros [= <-]. cbn [r_spec r_raw]. split; [reflexivity|]. split; [reflexivity|].
  intros Hi. unfold new_value in E. rewrite Hi in E. unfold arg_value at 1. cbn [r_val r_spec].
  destruct (arg_value r); try discriminate; injection E as <-; reflexivity.
Qed.

Lemma set_value_str_some r s r' :
  set_value r (IStr s) true = Ok r' -> takes_value (r_spec r) = true ->
  aval_is_none (r_val r') = false.
Proof.
  unfold set_value, new_value, takes_value. intros H Tv.
  destruct (a_kind (r_spec r)) eqn:K; try discriminate;
    destruct (a_incrementable (r_spec r)); try discriminate; cbn in H.
  - injection H as <-. reflexivity.
  - destruct (parse_int s); [|discriminate]. injection H as <-. reflexivity.
  - destruct (arg_value r); try discriminate. injection H as <-. reflexivity.
  - destruct (cast_other ko_default ko_table s); try discriminate. injection H as <-. reflexivity.
Qed.

(** counters survive any [run_occ] *)
Lemma counters_ok_run_occ args o : counters_ok args -> counters_ok (run_occ args o).
Proof.
  intros Co. unfold run_occ. destruct (nth_error args (o_arg o)) as [r|] eqn:N; [|exact Co].
  destruct (set_value r (occ_input o) true) as [r'|] eqn:SV; [|exact Co].
  destruct (set_value_props _ _ _ _ SV) as [Sp [_ Hc]].
  eapply counters_ok_upd; eauto. rewrite Sp. exact Hc.
Qed.

(** the bookkeeping of given value arguments after updating argument [i] *)
Lemma given_track_upd given given' args i r r' :
  given_track given args -> nth_error args i = Some r -> r_spec r' = r_spec r ->
  (takes_value (r_spec r) = true -> mem_nat i given' = true /\ aval_is_none (r_val r') = false) ->
  (forall j, j <> i -> mem_nat j given' = mem_nat j given) ->
  given_track given' (upd_nth i r' args).
Proof.
  intros [Gn Gs] N Sp Hi Ho. split.
  - intros j rj Nj Tv K M. destruct (Nat.eq_dec i j) as [<-|Ne].
    + rewrite (nth_error_upd_nth_same _ _ _ _ N) in Nj. injection Nj as <-.
      rewrite Sp in Tv. destruct (Hi Tv) as [M' _]. congruence.
    + rewrite (nth_error_upd_nth_other _ _ _ _ Ne) in Nj.
      eapply Gn; eauto. rewrite <- (Ho j); auto.
  - intros j rj Nj Tv M. destruct (Nat.eq_dec i j) as [<-|Ne].
    + rewrite (nth_error_upd_nth_same _ _ _ _ N) in Nj. injection Nj as <-.
      rewrite Sp in Tv. now destruct (Hi Tv).
    + rewrite (nth_error_upd_nth_other _ _ _ _ Ne) in Nj.
      eapply Gs; eauto. rewrite <- (Ho j); auto.
Qed.

Lemma mem_nat_cons i j l : mem_nat j (i :: l) = Nat.eqb j i || mem_nat j l.
Proof. reflexivity. Qed.

Lemma mem_nat_cons_other i j l : j <> i -> mem_nat j (i :: l) = mem_nat j l.
Proof.
  intros H. rewrite mem_nat_cons. destruct (Nat.eqb j i) eqn:E; [apply Nat.eqb_eq in E; congruence | reflexivity].
Qed.

Lemma mem_nat_cons_same i l : mem_nat i (i :: l) = true.
Proof. rewrite mem_nat_cons, Nat.eqb_refl. reflexivity. Qed.
