(** Shapes (leaf value / section / nothing at a path) of the results of the
    dict-editing functions used by the config model and by the nested-dict
    reference: set_path, del_path (= excise), obliterate. *)
From InvokeVerif Require Import Common.Tree Common.StrUtil Model.MergeModel Model.ConfigModel
     Spec.C03Spec Spec.C06Spec Proofs.ListFacts Proofs.TreeFacts Proofs.C03_merge.

(** Two trees that show the same thing at every path (dict equality up to key
    order, empty sections included). *)
Definition sim (a b : tree) : Prop := forall q, shape_at q a = shape_at q b.

Lemma sim_refl a : sim a a.
Proof. intros q; reflexivity. Qed.

Lemma sim_trans a b c : sim a b -> sim b c -> sim a c.
Proof. intros H1 H2 q. rewrite H1. apply H2. Qed.

Lemma sim_sym a b : sim a b -> sim b a.
Proof. intros H q. symmetry. apply H. Qed.

(** * prefixes *)
Lemma is_prefix_iff p q : is_prefix p q = true <-> exists r, q = p ++ r.
Proof.
  revert q. induction p as [|a p IH]; intros q; simpl.
  - split; [intros _; exists q; reflexivity | reflexivity].
  - destruct q as [|b q]; [split; [discriminate | intros [r E]; discriminate]|].
    rewrite andb_true_iff, String.eqb_eq, IH. split.
    + intros [-> [r ->]]. exists r. reflexivity.
    + intros [r E]. inversion E; subst. split; [reflexivity | exists r; reflexivity].
Qed.

Lemma is_prefix_refl p : is_prefix p p = true.
Proof. apply is_prefix_iff. exists []. rewrite app_nil_r. reflexivity. Qed.

Lemma is_prefix_app p r : is_prefix p (p ++ r) = true.
Proof. apply is_prefix_iff. exists r. reflexivity. Qed.

(** * wf is kept *)
Lemma NoDup_keys_remove k d : NoDup (keys d) -> NoDup (keys (remove k d)).
Proof.
  induction d as [|[k' t'] d IH]; simpl; intros ND; [constructor|].
  inversion ND as [|? ? Hn ND']; subst. destruct (String.eqb k k'); [assumption|].
  simpl. constructor; [|apply IH; assumption].
  intros Hin. apply Hn. clear -Hin. induction d as [|[k2 t2] d IH2]; simpl in *; [contradiction|].
  destruct (String.eqb k k2); simpl in *; [right; assumption|].
  destruct Hin as [H|H]; [left; assumption | right; apply IH2; assumption].
Qed.

Lemma wf_kids_remove k d : wf_kids d = true -> wf_kids (remove k d) = true.
Proof.
  unfold wf_kids. induction d as [|[k' t'] d IH]; simpl; intros H; [reflexivity|].
  apply andb_true_iff in H as [H1 H2]. destruct (String.eqb k k'); [assumption|].
  simpl. rewrite H1, IH; auto.
Qed.

Lemma wf_Node_remove k d : wf (Node d) = true -> wf (Node (remove k d)) = true.
Proof.
  rewrite !wf_Node, !andb_true_iff, !nodupb_NoDup. intros [H1 H2]. split.
  - apply NoDup_keys_remove; assumption.
  - apply wf_kids_remove; assumption.
Qed.

Lemma wf_NoDup d : wf (Node d) = true -> NoDup (keys d).
Proof. intros H. apply wf_Node_inv in H. tauto. Qed.

Lemma get_remove k k' d : NoDup (keys d) ->
  get k (remove k' d) = if String.eqb k k' then None else get k d.
Proof.
  intros ND. destruct (String.eqb k k') eqn:E.
  - apply String.eqb_eq in E; subst. apply get_remove_same; assumption.
  - apply String.eqb_neq in E. apply get_remove_other; assumption.
Qed.

Lemma wf_set_path : forall p d v, wf (Node d) = true -> wf v = true -> wf (Node (set_path d p v)) = true.
Proof.
  induction p as [|k p IH]; intros d v Hd Hv; [exact Hd|].
  destruct p as [|k2 p'].
  - simpl. apply wf_Node_set; assumption.
  - cbn [set_path]. destruct (get k d) as [[x|kids]|] eqn:G.
    + apply wf_Node_set; [|assumption]. apply IH; [reflexivity | assumption].
    + apply wf_Node_set; [|assumption]. apply IH; [eapply wf_get; eassumption | assumption].
    + apply wf_Node_set; [|assumption]. apply IH; [reflexivity | assumption].
Qed.

Lemma wf_del_path : forall p d, wf (Node d) = true -> wf (Node (del_path d p)) = true.
Proof.
  induction p as [|k p IH]; intros d Hd; [exact Hd|].
  destruct p as [|k2 p'].
  - simpl. apply wf_Node_remove; assumption.
  - cbn [del_path]. destruct (get k d) as [[x|kids]|] eqn:G; try assumption.
    apply wf_Node_set; [|assumption]. apply IH. eapply wf_get; eassumption.
Qed.

(** * set_path *)
Lemma set_path_cons k p d v : p <> [] ->
  set_path d (k :: p) v =
  set k (Node (set_path (match get k d with Some (Node kids) => kids | _ => [] end) p v)) d.
Proof.
  intros Hp. destruct p as [|k2 p']; [congruence|]. cbn [set_path].
  destruct (get k d) as [[x|kids]|]; reflexivity.
Qed.

(** At and below the written path: the written value. *)
Lemma set_path_at : forall p d v r, p <> [] ->
  shape_at (p ++ r) (Node (set_path d p v)) = shape_at r v.
Proof.
  induction p as [|k p IH]; intros d v r Hp; [congruence|].
  destruct p as [|k2 p'].
  - simpl app. cbn [set_path]. rewrite shape_at_cons_Node, get_set_same. reflexivity.
  - rewrite set_path_cons by congruence.
    change ((k :: k2 :: p') ++ r) with (k :: ((k2 :: p') ++ r)).
    rewrite shape_at_cons_Node, get_set_same. apply IH. congruence.
Qed.

(** Proper prefixes of the written path are sections. *)
Lemma set_path_prefix : forall q r d v, r <> [] ->
  shape_at q (Node (set_path d (q ++ r) v)) = Some SNode.
Proof.
  induction q as [|k q IH]; intros r d v Hr; [reflexivity|].
  assert (Hne : q ++ r <> []) by (destruct q; simpl; [assumption | congruence]).
  simpl app. rewrite set_path_cons by exact Hne.
  rewrite shape_at_cons_Node, get_set_same. apply IH. exact Hr.
Qed.

(** Paths that are neither below nor above the written path are untouched. *)
Lemma set_path_other : forall p d v q,
  is_prefix p q = false -> is_prefix q p = false ->
  shape_at q (Node (set_path d p v)) = shape_at q (Node d).
Proof.
  induction p as [|k p IH]; intros d v q H1 H2; [discriminate|].
  destruct q as [|k' q]; [discriminate|].
  simpl in H1, H2.
  destruct (String.eqb k k') eqn:E.
  - apply String.eqb_eq in E; subst k'. rewrite String.eqb_refl in H2. simpl in H1, H2.
    destruct p as [|k2 p'].
    + discriminate.
    + rewrite set_path_cons by congruence. rewrite !shape_at_cons_Node, get_set_same.
      destruct (get k d) as [[x|kids]|] eqn:G.
      * rewrite IH by assumption. destruct q; [discriminate|]. reflexivity.
      * apply IH; assumption.
      * rewrite IH by assumption. destruct q; [discriminate|]. reflexivity.
  - assert (Hne : k' <> k) by (intros ->; rewrite String.eqb_refl in E; discriminate).
    destruct p as [|k2 p'].
    + cbn [set_path]. rewrite !shape_at_cons_Node, get_set_other by assumption. reflexivity.
    + rewrite set_path_cons by congruence.
      rewrite !shape_at_cons_Node, get_set_other by assumption. reflexivity.
Qed.

(** * del_path *)
Lemma excise_is_del_path : forall p d, excise d p = del_path d p.
Proof.
  induction p as [|k p IH]; intros d; [reflexivity|].
  destruct p as [|k2 p']; [reflexivity|].
  cbn [excise del_path]. destruct (get k d) as [[x|kids]|]; try reflexivity.
Qed.

Lemma del_path_shape : forall p d q, p <> [] -> wf (Node d) = true ->
  shape_at q (Node (del_path d p)) = if is_prefix p q then None else shape_at q (Node d).
Proof.
  induction p as [|k p IH]; intros d q Hp Hd; [congruence|].
  destruct q as [|k' q]; [reflexivity|].
  simpl is_prefix. destruct p as [|k2 p'].
  - cbn [del_path]. rewrite !shape_at_cons_Node, get_remove by (apply wf_NoDup; assumption).
    rewrite String.eqb_sym. destruct (String.eqb k k'); reflexivity.
  - cbn [del_path]. destruct (String.eqb k k') eqn:E.
    + apply String.eqb_eq in E; subst k'. simpl andb.
      destruct (get k d) as [[x|kids]|] eqn:G.
      * rewrite shape_at_cons_Node, G.
        match goal with |- _ = if ?b then _ else _ => destruct b eqn:Eb end; [|reflexivity].
        destruct q; [discriminate | reflexivity].
      * rewrite !shape_at_cons_Node, get_set_same, G.
        apply IH; [congruence | eapply wf_get; eassumption].
      * rewrite shape_at_cons_Node, G.
        match goal with |- _ = if ?b then _ else _ => destruct b end; reflexivity.
    + simpl andb. assert (Hne : k' <> k) by (intros ->; rewrite String.eqb_refl in E; discriminate).
      destruct (get k d) as [[x|kids]|] eqn:G; try reflexivity.
      rewrite !shape_at_cons_Node, get_set_other by assumption. reflexivity.
Qed.

(** * obliterate *)
Definition obl_step (base : dict) (k : string) (v : tree) : dict :=
  match v with
  | Node _ => match get k base with
              | Some (Node bk) => set k (Node (obliterate bk v)) base
              | _ => base
              end
  | Leaf _ => remove k base
  end.

Fixpoint obl_list (ds : list (string * tree)) (base : dict) : dict :=
  match ds with
  | [] => base
  | (k, v) :: rest => obl_list rest (obl_step base k v)
  end.

Lemma obliterate_Node ds base : obliterate base (Node ds) = obl_list ds base.
Proof.
  cbn [obliterate]. revert base. induction ds as [|[k v] rest IH]; intros base; [reflexivity|].
  cbn [obl_list]. unfold obl_step. destruct v as [x|vk].
  - apply IH.
  - destruct (get k base) as [[y|bk]|]; apply IH.
Qed.

(** A path is masked when the deletions tree has a mark ([None] leaf) at one of
    its non-empty prefixes. *)
Fixpoint masked (D : dict) (q : path) : bool :=
  match q with
  | [] => false
  | k :: q' =>
      match get k D with
      | Some (Leaf _) => true
      | Some (Node dk) => masked dk q'
      | None => false
      end
  end.

Definition maskedt (t : tree) (q : path) : bool :=
  match t with Node d => masked d q | Leaf _ => false end.

Definition obl_IH (dt : tree) : Prop :=
  wf dt = true -> forall X, wf (Node X) = true ->
  wf (Node (obliterate X dt)) = true /\
  forall q, shape_at q (Node (obliterate X dt)) = if maskedt dt q then None else shape_at q (Node X).

Lemma obl_list_spec ds :
  Forall (fun kt => obl_IH (snd kt)) ds -> NoDup (keys ds) ->
  Forall (fun kt => wf (snd kt) = true) ds ->
  forall base, wf (Node base) = true ->
    wf (Node (obl_list ds base)) = true /\
    forall k, get k (obl_list ds base) =
              match get k ds with
              | Some (Leaf _) => None
              | Some (Node dk) => match get k base with
                                  | Some (Node bk) => Some (Node (obliterate bk (Node dk)))
                                  | other => other
                                  end
              | None => get k base
              end.
Proof.
  induction ds as [|[k0 v0] rest IHl]; intros HIH ND Hwf base Hb.
  - simpl. split; [assumption | reflexivity].
  - inversion HIH as [|? ? IH0 HIHr]; subst. inversion ND as [|? ? Hnin NDr]; subst.
    inversion Hwf as [|? ? Hw0 Hwr]; subst. simpl in IH0, Hw0.
    cbn [obl_list].
    assert (Hb' : wf (Node (obl_step base k0 v0)) = true).
    { unfold obl_step. destruct v0 as [x|vk]; [apply wf_Node_remove; assumption|].
      destruct (get k0 base) as [[y|bk]|] eqn:G; try assumption.
      apply wf_Node_set; [|assumption].
      apply (IH0 Hw0 bk). exact (wf_get k0 base _ Hb G). }
    destruct (IHl HIHr NDr Hwr _ Hb') as [Wm Sm]. split; [assumption|].
    intros k. rewrite Sm. simpl.
    assert (Gr : get k0 rest = None) by (apply get_none_not_in; exact Hnin).
    destruct (String.eqb k k0) eqn:E.
    + apply String.eqb_eq in E; subst k. rewrite Gr. unfold obl_step.
      destruct v0 as [x|vk].
      * apply get_remove_same. apply wf_NoDup; assumption.
      * destruct (get k0 base) as [[y|bk]|] eqn:G; try assumption.
        apply get_set_same.
    + assert (Hne : k <> k0) by (intros ->; rewrite String.eqb_refl in E; discriminate).
      assert (Gs : get k (obl_step base k0 v0) = get k base).
      { unfold obl_step. destruct v0 as [x|vk].
        - apply get_remove_other; assumption.
        - destruct (get k0 base) as [[y|bk]|]; try reflexivity. apply get_set_other; assumption. }
      rewrite Gs. reflexivity.
Qed.

Theorem obliterate_shape : forall dt, obl_IH dt.
Proof.
  induction dt as [v | ds IH] using tree_ind'; intros Hwf X HX.
  - simpl. split; [assumption | reflexivity].
  - rewrite obliterate_Node. apply wf_Node_inv in Hwf as [ND Hk].
    destruct (obl_list_spec ds IH ND Hk X HX) as [W S]. split; [assumption|].
    intros [|k q]; [reflexivity|].
    rewrite !shape_at_cons_Node, S. simpl.
    destruct (get k ds) as [[x|dk]|] eqn:G; try reflexivity.
    destruct (get k X) as [[y|bk]|] eqn:GX.
    + destruct (masked dk q) eqn:Em; [|reflexivity].
      destruct q; [discriminate | reflexivity].
    + rewrite Forall_forall in IH, Hk.
      assert (Hin : In (k, Node dk) ds) by (apply get_in; assumption).
      destruct (IH (k, Node dk) Hin (Hk (k, Node dk) Hin) bk) as [_ Sq];
        [exact (wf_get k X _ HX GX)|].
      simpl. apply Sq.
    + destruct (masked dk q); reflexivity.
Qed.

Corollary obliterate_shape_dict : forall D X, wf (Node D) = true -> wf (Node X) = true ->
  wf (Node (obliterate X (Node D))) = true /\
  forall q, shape_at q (Node (obliterate X (Node D))) = if masked D q then None else shape_at q (Node X).
Proof. intros D X HD HX. exact (obliterate_shape (Node D) HD X HX). Qed.

(** [masked] in terms of shapes of the deletions tree. *)
Lemma masked_cons D k q :
  masked D (k :: q) = match shape_at [k] (Node D) with
                      | Some (SLeaf _) => true
                      | Some SNode => match get k D with Some (Node dk) => masked dk q | _ => false end
                      | None => false
                      end.
Proof.
  rewrite shape_at_cons_Node. simpl. destruct (get k D) as [[x|dk]|]; reflexivity.
Qed.
