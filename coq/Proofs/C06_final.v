(** C06: the partial refinement theorem stated against the specification's own
    reference base (the deep union of the current lower levels). *)
From InvokeVerif Require Import Common.Tree Common.StrUtil Model.MergeModel Model.ConfigModel
     Spec.C03Spec Spec.C06Spec Proofs.ListFacts Proofs.TreeFacts Proofs.C03_merge Proofs.C03_levels
     Proofs.C06_shapes Proofs.C06_track Proofs.C06_refine Proofs.C06_union.

Theorem refines_nested_dict_union : forall S fs c0 ops,
  is_node S = true -> good0 S c0 = true -> forallb (op_ok S) ops = true ->
  let c := fst (run fs c0 ops) in
  sim (Node (c_cache c)) (Node (replay (union_of (lower c)) (journal fs c0 ops))).
Proof.
  intros S fs c0 ops HS H0 Hok c.
  destruct (run_good S fs HS ops c0 [] (good0_good S c0 HS H0) Hok) as [Hg _].
  fold c in Hg. simpl in Hg.
  destruct (good_view S c _ HS Hg) as [X [EX [WX [Hs _]]]].
  pose proof (g_lower _ _ _ Hg) as HL. rewrite Forall_forall in HL.
  assert (Hl : forall l, In l (lower c) -> wf l = true /\ is_node l = true).
  { intros l Hin. destruct (HL l Hin) as [W [N _]]. auto. }
  assert (Hp : forall a b, In a (lower c) -> In b (lower c) -> agree a b).
  { intros a b Ha Hb. eapply conforms_agree; [apply (HL a Ha) | apply (HL b Hb)]. }
  pose proof (union_sim_merge (lower c) X Hl Hp EX) as Hu.
  destruct (union_shape (lower c) (Node []) eq_refl eq_refl) as [Wu [Nu _]]; [| exact Hp |].
  { intros l Hin. destruct (Hl l Hin) as [W N]. split; [assumption|]. split; [assumption|].
    destruct l; [discriminate|]. apply agree_empty_node. }
  fold (union_of (lower c)) in Wu, Nu.
  destruct (union_of (lower c)) as [v|u] eqn:Eu; [discriminate|].
  eapply sim_trans; [exact Hs|]. apply sim_sym.
  apply replay_sim; try assumption.
  apply (inv_wfJ _ _ _ _ (g_inv _ _ _ Hg)).
Qed.
