(** C07: well-formed command lines do not raise (corollaries of the C01 round trip). *)
From InvokeVerif Require Import Model.ParserModel.
From InvokeVerif Require Spec.C01Spec Proofs.C01_final Proofs.C01_wide_final2.

Lemma no_error_simple cs ic inv :
  C01_final.simple_guard cs ic inv = true ->
  exists r, parser_parse cs (Some ic) false (C01Spec.spell cs inv) = Ok r.
Proof.
  intros G. destruct (C01_final.spell_roundtrip_simple cs ic inv G) as [r [P _]]. eauto.
Qed.

Lemma no_error_wide cs ic inv :
  parser_ok cs = true -> C01_wide_final2.guard_wide_x cs ic inv = true ->
  exists r, parser_parse cs (Some ic) false (C01Spec.spell cs inv) = Ok r.
Proof.
  intros Pk G. destruct (C01_wide_final2.spell_roundtrip_wide_x cs ic inv Pk G) as [r [P _]]. eauto.
Qed.
