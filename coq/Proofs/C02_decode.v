(** C02 layer 1: the byte transducer of Utf8Model against the look-ahead
    reference decoder of C02Spec, and decoding across read boundaries. *)
From InvokeVerif Require Import Model.Utf8Model Spec.C02Spec.
From Coq Require Import Lia ZifyBool.
Local Open Scope N_scope.

(** * Running the transducer over a concatenation *)

Lemma dfin_app e st a b :
  dfin e st (a ++ b) = snd (drun e st a) ++ dfin e (fst (drun e st a)) b.
Proof.
  revert st. induction a as [|x a IH]; intros st; cbn [app drun dfin fst snd].
  - reflexivity.
  - rewrite IH. rewrite app_assoc. reflexivity.
Qed.

Lemma dfin_drun e st a : dfin e st a = snd (drun e st a) ++ dflush (fst (drun e st a)).
Proof.
  rewrite <- (app_nil_r a) at 1. rewrite dfin_app. reflexivity.
Qed.

Lemma drun_app e st a b :
  drun e st (a ++ b) =
  (fst (drun e (fst (drun e st a)) b), snd (drun e st a) ++ snd (drun e (fst (drun e st a)) b)).
Proof.
  revert st. induction a as [|x a IH]; intros st; cbn [app drun fst snd].
  - destruct (drun e st b); reflexivity.
  - rewrite IH. cbn [fst snd]. rewrite app_assoc. reflexivity.
Qed.

Lemma is_init_eq st : dstate_is_init st = true -> st = DInit.
Proof. destruct st; [reflexivity | discriminate]. Qed.

(** A read that ends in the initial state decodes independently of what follows. *)
Lemma decode_all_app_initial e a b :
  ends_initial e a = true -> decode_all e (a ++ b) = decode_all e a ++ decode_all e b.
Proof.
  unfold ends_initial, decode_all. intros H. apply is_init_eq in H.
  rewrite dfin_app, (dfin_drun e DInit a), H. cbn [dflush]. rewrite app_nil_r. reflexivity.
Qed.

(** * Chunked decoding: partial, refuted, stateless encodings, repaired *)

Lemma cuts_cons2 e c c' r :
  cuts_at_initial e (c :: c' :: r) = ends_initial e c && cuts_at_initial e (c' :: r).
Proof. reflexivity. Qed.

Lemma chunked_decode_partial e chunks :
  cuts_at_initial e chunks = true ->
  List.concat (decode_chunks e chunks) = decode_all e (List.concat chunks).
Proof.
  unfold decode_chunks.
  induction chunks as [|c r IH]; intros H.
  - reflexivity.
  - destruct r as [|c' r'].
    + cbn. rewrite !app_nil_r. reflexivity.
    + rewrite cuts_cons2 in H. apply andb_true_iff in H. destruct H as [H1 H2].
      change (List.concat (map (decode_all e) (c :: c' :: r')))
        with (decode_all e c ++ List.concat (map (decode_all e) (c' :: r'))).
      rewrite (IH H2).
      change (List.concat (c :: c' :: r')) with (c ++ List.concat (c' :: r')).
      rewrite decode_all_app_initial by exact H1. reflexivity.
Qed.

Lemma chunked_decode_refuted :
  exists chunks, List.concat (decode_chunks Utf8 chunks) <> decode_all Utf8 (List.concat chunks).
Proof. exists [[195]; [169]]. vm_compute. discriminate. Qed.

Lemma stateless_init e st b : e <> Utf8 -> fst (dstep e st b) = DInit.
Proof. destruct e; intros H; [congruence | reflexivity | reflexivity]. Qed.

Lemma stateless_drun e bs : e <> Utf8 -> fst (drun e DInit bs) = DInit.
Proof.
  intros H. assert (G : forall st, st = DInit -> fst (drun e st bs) = DInit).
  { induction bs as [|b r IH]; intros st Hst; cbn [drun fst].
    - exact Hst.
    - apply IH. apply stateless_init. exact H. }
  apply G. reflexivity.
Qed.

Lemma stateless_cuts e chunks : e <> Utf8 -> cuts_at_initial e chunks = true.
Proof.
  intros H. induction chunks as [|c r IH]; [reflexivity|].
  destruct r as [|c' r']; [reflexivity|].
  rewrite cuts_cons2, IH. unfold ends_initial. rewrite stateless_drun by exact H. reflexivity.
Qed.

Lemma chunked_decode_stateless e chunks :
  e <> Utf8 -> List.concat (decode_chunks e chunks) = decode_all e (List.concat chunks).
Proof. intros H. apply chunked_decode_partial. apply stateless_cuts. exact H. Qed.

(** Repaired variant: one decoder threaded through the reads, flushed at EOF. *)
Lemma chunked_decode_inc e st chunks :
  List.concat (decode_chunks_inc e st chunks) = dfin e st (List.concat chunks).
Proof.
  revert st. induction chunks as [|c r IH]; intros st.
  - cbn. rewrite app_nil_r. reflexivity.
  - cbn [decode_chunks_inc List.concat]. rewrite dfin_app. rewrite <- IH. reflexivity.
Qed.

Lemma chunked_decode_repaired e chunks :
  List.concat (decode_chunks_inc e DInit chunks) = decode_all e (List.concat chunks).
Proof. apply chunked_decode_inc. Qed.

(** ... and therefore independent of where the cuts fall. *)
Lemma repaired_chunking_irrelevant e c1 c2 :
  List.concat c1 = List.concat c2 ->
  List.concat (decode_chunks_inc e DInit c1) = List.concat (decode_chunks_inc e DInit c2).
Proof. intros H. rewrite !chunked_decode_repaired, H. reflexivity. Qed.

(** * The transducer computes the reference decoding *)

Ltac split_cmp :=
  repeat (match goal with
          | |- context [N.ltb ?a ?b] => destruct (N.ltb_spec a b)
          | |- context [N.leb ?a ?b] => destruct (N.leb_spec a b)
          | |- context [N.eqb ?a ?b] => destruct (N.eqb_spec a b)
          end; cbn [andb orb negb]; try (exfalso; lia)).

Lemma start_lead b :
  start b = if b <? 128 then (DInit, [b])
            else match lead b with
                 | None => (DInit, [REPL])
                 | Some (n, v, lo, hi) => (DPend n v lo hi, [])
                 end.
Proof.
  unfold start, lead, in_range. split_cmp; try reflexivity; subst; reflexivity.
Qed.

Lemma lead_n b n v lo hi : lead b = Some (n, v, lo, hi) -> n = 1%nat \/ n = 2%nat \/ n = 3%nat.
Proof.
  unfold lead. repeat match goal with |- context [if ?c then _ else _] => destruct c end;
    intros H; inversion H; auto; discriminate.
Qed.

Lemma utf8_ref_cons b0 r0 :
  utf8_ref (b0 :: r0) =
  if b0 <? 128 then b0 :: utf8_ref r0
  else match lead b0 with
       | None => REPL :: utf8_ref r0
       | Some (n, v, lo, hi) =>
           match r0 with
           | [] => [REPL]
           | b1 :: r1 =>
               if negb (in_range lo hi b1) then REPL :: utf8_ref r0
               else match n with
                    | 1%nat => (v * 64 + cbits b1) :: utf8_ref r1
                    | _ =>
                        match r1 with
                        | [] => [REPL]
                        | b2 :: r2 =>
                            if negb (is_cont b2) then REPL :: utf8_ref r1
                            else match n with
                                 | 2%nat => ((v * 64 + cbits b1) * 64 + cbits b2) :: utf8_ref r2
                                 | _ =>
                                     match r2 with
                                     | [] => [REPL]
                                     | b3 :: r3 =>
                                         if negb (is_cont b3) then REPL :: utf8_ref r2
                                         else (((v * 64 + cbits b1) * 64 + cbits b2) * 64 + cbits b3)
                                                :: utf8_ref r3
                                     end
                                 end
                        end
                    end
           end
       end.
Proof. destruct r0 as [|b1 [|b2 [|b3 r3]]]; reflexivity. Qed.

(** A byte outside the admissible range ends the pending sequence with one
    U+FFFD and is then looked at afresh. *)
Lemma pend_reject n v lo hi b r :
  in_range lo hi b = false ->
  dfin Utf8 (DPend n v lo hi) (b :: r) = REPL :: dfin Utf8 DInit (b :: r).
Proof. intros H. cbn [dfin dstep ustep]. rewrite H. reflexivity. Qed.

Lemma pend_accept_last v lo hi b r :
  in_range lo hi b = true ->
  dfin Utf8 (DPend 1 v lo hi) (b :: r) = (v * 64 + cbits b) :: dfin Utf8 DInit r.
Proof. intros H. cbn [dfin dstep ustep]. rewrite H. reflexivity. Qed.

Lemma pend_accept_more k v lo hi b r :
  in_range lo hi b = true ->
  dfin Utf8 (DPend (S (S k)) v lo hi) (b :: r) = dfin Utf8 (DPend (S k) (v * 64 + cbits b) 128 191) r.
Proof. intros H. cbn [dfin dstep ustep]. rewrite H. reflexivity. Qed.

Lemma init_step b r :
  dfin Utf8 DInit (b :: r) = snd (start b) ++ dfin Utf8 (fst (start b)) r.
Proof. reflexivity. Qed.

Lemma utf8_transducer_is_reference_n :
  forall n bs, (List.length bs <= n)%nat -> dfin Utf8 DInit bs = utf8_ref bs.
Proof.
  induction n as [|n IH]; intros bs Hlen.
  - destruct bs; [reflexivity | cbn in Hlen; lia].
  - destruct bs as [|b0 r0]; [reflexivity|].
    cbn [List.length] in Hlen.
    rewrite init_step, utf8_ref_cons, start_lead.
    destruct (b0 <? 128).
    { cbn [fst snd app]. rewrite IH by lia. reflexivity. }
    destruct (lead b0) as [[[[k v] lo] hi]|] eqn:HL.
    2:{ cbn [fst snd app]. rewrite IH by lia. reflexivity. }
    cbn [fst snd app].
    destruct r0 as [|b1 r1]; [reflexivity|]. cbn [List.length] in Hlen.
    destruct (in_range lo hi b1) eqn:R1; cbn [negb].
    2:{ rewrite pend_reject by exact R1. rewrite IH by (cbn [List.length]; lia). reflexivity. }
    destruct (lead_n _ _ _ _ _ HL) as [K|[K|K]]; subst k.
    + rewrite pend_accept_last by exact R1. rewrite IH by lia. reflexivity.
    + rewrite pend_accept_more by exact R1.
      destruct r1 as [|b2 r2]; [reflexivity|]. cbn [List.length] in Hlen.
      unfold is_cont. destruct (in_range 128 191 b2) eqn:R2; cbn [negb].
      * rewrite pend_accept_last by exact R2. rewrite IH by lia. reflexivity.
      * rewrite pend_reject by exact R2. rewrite IH by (cbn [List.length]; lia). reflexivity.
    + rewrite pend_accept_more by exact R1.
      destruct r1 as [|b2 r2]; [reflexivity|]. cbn [List.length] in Hlen.
      unfold is_cont. destruct (in_range 128 191 b2) eqn:R2; cbn [negb].
      2:{ rewrite pend_reject by exact R2. rewrite IH by (cbn [List.length]; lia). reflexivity. }
      rewrite pend_accept_more by exact R2.
      destruct r2 as [|b3 r3]; [reflexivity|]. cbn [List.length] in Hlen.
      destruct (in_range 128 191 b3) eqn:R3; cbn [negb].
      * rewrite pend_accept_last by exact R3. rewrite IH by lia. reflexivity.
      * rewrite pend_reject by exact R3. rewrite IH by (cbn [List.length]; lia). reflexivity.
Qed.

Lemma stateless_dfin_latin1 bs : dfin Latin1 DInit bs = bs.
Proof. induction bs as [|b r IH]; [reflexivity|]. cbn [dfin dstep fst snd app]. rewrite IH. reflexivity. Qed.

Lemma stateless_dfin_ascii bs :
  dfin Ascii DInit bs = map (fun b => if b <? 128 then b else REPL) bs.
Proof. induction bs as [|b r IH]; [reflexivity|]. cbn [dfin dstep fst snd app map]. rewrite IH. reflexivity. Qed.

(** The model decoder IS the reference decoder, for every byte string. *)
Theorem decoder_is_reference e bs : decode_all e bs = ref_decode e bs.
Proof.
  unfold decode_all. destruct e; cbn [ref_decode].
  - apply (utf8_transducer_is_reference_n (List.length bs)). lia.
  - apply stateless_dfin_latin1.
  - apply stateless_dfin_ascii.
Qed.
