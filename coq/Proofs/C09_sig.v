(** Proofs for C09 (signature -> CLI). *)
From InvokeVerif Require Import Model.SigCtxModel Spec.C09Spec.
From Coq Require Import Lia Permutation.

Lemma arg_name_arg_opts dc pos p taken : arg_name (arg_opts dc pos p taken) = p_name p.
Proof.
  unfold arg_opts, arg_name; cbn.
  destruct (contains_char us (p_name p)); reflexivity.
Qed.
