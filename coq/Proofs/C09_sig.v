(** Proofs for C09: structure of Task.get_arguments' output. *)
From InvokeVerif Require Import Model.SigCtxModel Spec.C09Spec Proofs.C09_facts.
From Coq Require Import Lia Permutation.

Definition main_of (a : argspec) : string := hd "" (a_names a).
Definition nicks_of (a : argspec) : list string := tl (a_names a).

Ltac undash :=
  repeat match goal with
         | |- context [dashed ?x] => change (dashed x) with (translate_underscores x)
         end.

(** * arg_opts: one argument's shape *)
Lemma arg_name_arg_opts dc pos p taken : arg_name (arg_opts dc pos p taken) = p_name p.
Proof.
  unfold arg_opts, arg_name; cbn.
  destruct (contains_char us (p_name p)); reflexivity.
Qed.

Lemma first_free_char_spec dname taken rest cs :
  first_free_char dname rest taken = Some cs ->
  exists c, cs = String c EmptyString /\ Ascii.eqb c dash = false /\ cs <> dname /\
            mem cs taken = false /\ contains_char c rest = true.
Proof.
  induction rest as [|c r IH]; cbn [first_free_char contains_char]; [discriminate|].
  destruct (Ascii.eqb c dash) eqn:Ed.
  - intros H. destruct (IH H) as [c' (H1 & H2 & H3 & H4 & H5)].
    exists c'. repeat split; auto. rewrite H5. apply orb_true_r.
  - destruct (String.eqb (String c "") dname || mem (String c "") taken) eqn:E.
    + intros H. destruct (IH H) as [c' (H1 & H2 & H3 & H4 & H5)].
      exists c'. repeat split; auto. rewrite H5. apply orb_true_r.
    + intros H; injection H as <-. apply orb_false_iff in E. destruct E as [E1 E2].
      exists c. repeat split; auto.
      * now apply String.eqb_neq.
      * now rewrite Ascii.eqb_refl.
Qed.

(** main name = dashed form of the parameter name, always *)
Lemma main_of_arg_opts dc pos p taken :
  main_of (arg_opts dc pos p taken) = dashed (p_name p).
Proof.
  unfold arg_opts, main_of; cbn. undash.
  destruct (contains_char us (p_name p)) eqn:E; [reflexivity | now rewrite translate_id].
Qed.

Lemma names_arg_opts dc pos p taken :
  a_names (arg_opts dc pos p taken) = [dashed (p_name p)] \/
  exists c, a_names (arg_opts dc pos p taken) = [dashed (p_name p); String c EmptyString] /\
            d_auto_short dc = true /\
            Ascii.eqb c dash = false /\ String c EmptyString <> dashed (p_name p) /\
            mem (String c EmptyString) taken = false /\
            contains_char c (dashed (p_name p)) = true.
Proof.
  pose proof (main_of_arg_opts dc pos p taken) as Hm.
  unfold arg_opts, main_of in *; cbn in *.
  set (dn := if contains_char us (p_name p) then translate_underscores (p_name p) else p_name p) in *.
  rewrite <- Hm.
  destruct (d_auto_short dc); [|now left].
  destruct (first_free_char dn dn taken) as [cs|] eqn:E; [|now left].
  right. destruct (first_free_char_spec _ _ _ _ E) as [c (H1 & H2 & H3 & H4 & H5)].
  subst cs. exists c. repeat split; auto.
Qed.

Lemma attr_arg_opts dc pos p taken :
  a_attr_name (arg_opts dc pos p taken) =
  if contains_char us (p_name p) then Some (p_name p) else None.
Proof. reflexivity. Qed.

(** * get_arguments: a permutation of the per-parameter arguments *)
Lemma extract_perm nm l x r : extract nm l = Some (x, r) -> Permutation (x :: r) l.
Proof.
  revert x r. induction l as [|a l IH]; simpl; intros x r; [discriminate|].
  destruct (String.eqb (arg_name a) nm).
  - intros H; injection H as <- <-. apply Permutation_refl.
  - destruct (extract nm l) as [[x' r']|]; [|discriminate].
    intros H; injection H as <- <-.
    eapply perm_trans; [apply perm_swap|]. apply perm_skip. now apply IH.
Qed.

Lemma move_front_perm nm l : Permutation (move_front nm l) l.
Proof.
  unfold move_front. destruct (extract nm l) as [[x r]|] eqn:E;
    [now apply extract_perm in E | apply Permutation_refl].
Qed.

Lemma reorder_perm pos args : Permutation (reorder pos args) args.
Proof.
  unfold reorder. generalize (rev pos) as l. intros l. revert args.
  induction l as [|n l IH]; intros args; simpl; [apply Permutation_refl|].
  eapply perm_trans; [apply IH | apply move_front_perm].
Qed.

Lemma build_args_names dc pos ps : forall taken,
  map arg_name (build_args dc pos ps taken) = map p_name ps.
Proof.
  induction ps as [|p ps IH]; intros taken; simpl; [reflexivity|].
  now rewrite arg_name_arg_opts, IH.
Qed.

Lemma get_arguments_perm s :
  Permutation (get_arguments s)
    (build_args (s_deco s) (fill_implicit_positionals s) (s_params s)
                (map p_name (s_params s) ++ map (fun p => translate_underscores (p_name p)) (s_params s))).
Proof. apply reorder_perm. Qed.

Lemma one_arg_per_param s :
  Permutation (map arg_name (get_arguments s)) (map p_name (s_params s)).
Proof.
  eapply perm_trans; [apply Permutation_map, get_arguments_perm|].
  rewrite build_args_names. apply Permutation_refl.
Qed.

Lemma build_args_in dc pos ps : forall taken a,
  In a (build_args dc pos ps taken) ->
  exists p taken', In p ps /\ a = arg_opts dc pos p taken'.
Proof.
  induction ps as [|p ps IH]; intros taken a; simpl; [tauto|].
  intros [H|H].
  - exists p, taken. split; [now left | now symmetry].
  - destruct (IH _ _ H) as [p' [t' [H1 H2]]]. exists p', t'. split; [now right | assumption].
Qed.

Lemma get_arguments_in s a :
  In a (get_arguments s) ->
  exists p taken, In p (s_params s) /\ a = arg_opts (s_deco s) (fill_implicit_positionals s) p taken.
Proof.
  intros H. apply (Permutation_in _ (get_arguments_perm s)) in H.
  now apply build_args_in in H.
Qed.

(** * long flag *)
Lemma long_flag_of_arg s a :
  In a (get_arguments s) ->
  main_of a = dashed (arg_name a) /\ to_flag (main_of a) = long_flag (arg_name a).
Proof.
  intros H. destruct (get_arguments_in _ _ H) as [p [t [_ ->]]].
  rewrite main_of_arg_opts, arg_name_arg_opts. split; [reflexivity|].
  unfold to_flag, long_flag. undash. now rewrite translate_idem.
Qed.

Lemma long_flag_wellformed n :
  has_core n = true ->
  (exists c, long_flag n = String "-" (String c EmptyString)) \/
  (exists d, long_flag n = ("--" ++ d)%string /\ 2 <= String.length d).
Proof.
  unfold has_core, long_flag. intros H. apply negb_true_iff, String.eqb_neq in H.
  destruct (dashed n) as [|c [|c' d]] eqn:E; [now elim H | |].
  - left. now exists c.
  - right. exists (String c (String c' d)). split; [reflexivity | simpl; lia].
Qed.

(** * at most one short flag *)
Lemma at_most_one_short s a :
  In a (get_arguments s) ->
  a_names a = [main_of a] \/
  exists c, a_names a = [main_of a; String c EmptyString] /\ Ascii.eqb c dash = false /\
            String c EmptyString <> main_of a /\ contains_char c (main_of a) = true.
Proof.
  intros H. destruct (get_arguments_in _ _ H) as [p [t [_ ->]]].
  rewrite main_of_arg_opts.
  destruct (names_arg_opts (s_deco s) (fill_implicit_positionals s) p t) as [E|[c (E & _ & H1 & H2 & _ & H3)]].
  - now left.
  - right. exists c. auto.
Qed.

(** * kinds *)
Lemma kind_arg_opts s pos p taken k :
  expected_kind s p = Some k -> a_kind (arg_opts (s_deco s) pos p taken) = k.
Proof.
  unfold expected_kind, arg_opts; cbn.
  destruct (p_default p); cbn;
    destruct (mem (p_name p) (d_iterable (s_deco s)));
    destruct (mem (p_name p) (d_optional (s_deco s))); cbn; intros H; congruence.
Qed.

Lemma bool_takes_no_value s pos p taken :
  expected_kind s p = Some KBool -> takes_value (arg_opts (s_deco s) pos p taken) = false.
Proof.
  intros H. unfold takes_value. now rewrite (kind_arg_opts _ _ _ _ _ H).
Qed.

Lemma inverse_iff_default_true s pos p taken :
  is_true_bool (arg_opts (s_deco s) pos p taken) = wants_inverse s p.
Proof.
  unfold wants_inverse, is_true_bool, arg_opts; cbn.
  destruct (p_default p) as [| | | |[|]| |]; cbn;
    destruct (mem (p_name p) (d_iterable (s_deco s)));
    destruct (mem (p_name p) (d_optional (s_deco s))); cbn; reflexivity.
Qed.

(** value of an unmentioned parameter *)
Lemma fresh_value_arg_opts s pos p taken :
  match p_default p with
  | DEmpty => True
  | d => fresh_value (arg_opts (s_deco s) pos p taken) = to_aval d \/
         (listish s p = true /\ fresh_value (arg_opts (s_deco s) pos p taken) = AList [])
  end.
Proof.
  unfold fresh_value, initial_value, listish, arg_opts; cbn.
  destruct (p_default p) as [| |x|z|b|l|ty rp]; cbn; auto;
    destruct (mem (p_name p) (d_iterable (s_deco s)));
    destruct (mem (p_name p) (d_optional (s_deco s)));
    destruct (mem (p_name p) (d_incrementable (s_deco s))); cbn; auto;
    try (destruct b; cbn; auto); try (destruct l; cbn; auto).
Qed.

(** the value type by name, for every kind of default (float, tuple, ... included) *)
Lemma kind_name_expected s p nm :
  expected_kind_name s p = Some nm -> kind_name (s_deco s) p = nm.
Proof.
  unfold expected_kind_name, kind_name, type_name.
  destruct (p_default p) as [| |x|z|b|l|ty rp]; cbn;
    destruct (mem (p_name p) (d_iterable (s_deco s)));
    destruct (mem (p_name p) (d_optional (s_deco s))); cbn; intros H; try congruence;
    destruct (String.eqb ty "bool"); congruence.
Qed.
