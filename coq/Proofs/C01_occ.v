(** C01 proof, part 4: the fragment of spelling scripts covered by the partial
    theorem, the model-side meaning of one occurrence ([run_occ]), and the
    lemma that the tokens of one occurrence drive the machine from a quiescent
    state to a quiescent state in which exactly that argument was updated. *)
From InvokeVerif Require Import Corr.C01Corr Proofs.ListFacts Proofs.C07_fuel
     Proofs.C01_steps Proofs.C01_tokens Proofs.C01_lookup.
From Coq Require Import Lia.

Definition mem_nat (i : nat) (l : list nat) : bool := existsb (Nat.eqb i) l.

Definition list_default_ok (a : argspec) : bool :=
  match a_kind a with
  | KList => negb (a_incrementable a)
             && match a_default a with AList (_ :: _) => false | _ => true end
  | _ => true
  end.

(** static guard on a task: distinct well-formed spellings, distinct parameter
    names, no required positional, no non-empty list default (F-C01a) *)
Definition ctx_guard (c : ctxspec) : bool :=
  wf_args (cx_args c)
  && forallb clean_flag (all_spellings (cx_args c))
  && nodupb (map arg_name (cx_args c))
  && negb (has_missing (init_ctx c))
  && forallb list_default_ok (cx_args c).

Definition is_value_form (o : occ) : bool :=
  match o_form o with FNext | FEq => true | _ => false end.

(** the covered occurrence forms: --flag / --no-flag for booleans;
    "--flag value" and "--flag=value" (long or short name) for non-optional
    value arguments, the value not starting with "-" *)
Definition occ_simple (c : ctxspec) (given : list nat) (o : occ) : bool :=
  match nth_error (cx_args c) (o_arg o) with
  | None => false
  | Some a =>
      Nat.ltb (o_name o) (List.length (a_names a)) &&
      match o_form o, o_val o with
      | FBare, VB true => akind_eqb (a_kind a) KBool && negb (a_incrementable a)
      | FInv, VB false =>
          akind_eqb (a_kind a) KBool && negb (a_incrementable a)
          && match inverse_of a with Some _ => true | None => false end
      | FNext, VS s | FEq, VS s =>
          takes_value a && negb (a_optional a) && plain s
          && castable a s
          && (akind_eqb (a_kind a) KList || negb (mem_nat (o_arg o) given))
      | _, _ => false
      end
  end.

Definition given_after (given : list nat) (o : occ) : list nat :=
  if is_value_form o then o_arg o :: given else given.

Fixpoint items_simple (c : ctxspec) (given : list nat) (items : list item) : bool :=
  match items with
  | [] => true
  | One o :: rest => occ_simple c given o && items_simple c (given_after given o) rest
  | Cluster _ :: _ => false
  end.

(** ** model-side meaning of an occurrence *)
Definition occ_input (o : occ) : inval :=
  match o_val o with VB b => IBool b | VS s => IStr s | _ => IBool true end.

Definition run_occ (args : list rarg) (o : occ) : list rarg :=
  match nth_error args (o_arg o) with
  | Some r => match set_value r (occ_input o) true with
              | Ok r' => upd_nth (o_arg o) r' args
              | Err _ => args
              end
  | None => args
  end.

Definition no_missing (args : list rarg) : bool :=
  negb (existsb (fun r => a_positional (r_spec r) && aval_is_none (arg_value r)) args).

(** what is known about the arguments of the task being filled *)
Record st_ok (c : ctxspec) (given : list nat) (args : list rarg) : Prop := {
  so_shape : map r_spec args = cx_args c;
  so_list : forall i r, nth_error args i = Some r -> a_kind (r_spec r) = KList ->
                        exists l, r_val r = AList l;
  so_raw : forall i r, nth_error args i = Some r -> takes_value (r_spec r) = true ->
                       a_kind (r_spec r) <> KList -> mem_nat i given = false -> r_raw r = false;
  so_miss : no_missing args = true
}.

Lemma nth_error_map_inv {A B} (f : A -> B) l i b :
  nth_error (map f l) i = Some b -> exists a, nth_error l i = Some a /\ f a = b.
Proof.
  revert i; induction l as [|x l IH]; intros [|i]; simpl; try discriminate.
  - intros [= <-]. eauto.
  - apply IH.
Qed.

Lemma map_upd_same {A B} (g : A -> B) n x y l :
  nth_error l n = Some y -> g x = g y -> map g (upd_nth n x l) = map g l.
Proof.
  revert n; induction l as [|z l IH]; intros [|n]; simpl; try discriminate.
  - intros [= ->] E. rewrite E. reflexivity.
  - intros H E. rewrite (IH n H E). reflexivity.
Qed.

Lemma existsb_upd_nth {A} (q : A -> bool) n x l :
  existsb q l = false -> q x = false -> existsb q (upd_nth n x l) = false.
Proof.
  revert n; induction l as [|y l IH]; intros [|n]; simpl; auto;
    rewrite !orb_false_iff; intros [H1 H2] Hx; auto.
Qed.

(** [set_value] with a string on a value argument in a good state *)
Lemma set_value_str r s :
  takes_value (r_spec r) = true ->
  castable (r_spec r) s = true ->
  (a_kind (r_spec r) = KList -> exists l, r_val r = AList l) ->
  exists r', set_value r (IStr s) true = Ok r' /\ r_spec r' = r_spec r /\ r_raw r' = true /\
             aval_is_none (r_val r') = false /\
             (a_kind (r_spec r) = KList -> exists l, r_val r' = AList l).
Proof.
  intros Tv Hi Hl. unfold takes_value in Tv. unfold castable in Hi. unfold set_value, new_value.
  destruct (a_kind (r_spec r)) eqn:K; try discriminate.
  - destruct (a_incrementable (r_spec r)); [discriminate|]. simpl.
    eexists. split; [reflexivity|]. repeat split; try reflexivity. intros Kx; discriminate Kx.
  - destruct (a_incrementable (r_spec r)); [discriminate|]. simpl.
    destruct (parse_int s); [|discriminate].
    eexists. split; [reflexivity|]. repeat split; try reflexivity. intros Kx; discriminate Kx.
  - destruct (a_incrementable (r_spec r)); [discriminate|].
    destruct (Hl eq_refl) as [l El]. unfold arg_value. rewrite El. simpl.
    eexists. split; [reflexivity|]. repeat split; try reflexivity. intros _. eexists. reflexivity.
  - destruct (a_incrementable (r_spec r)); [discriminate|]. simpl.
    destruct (cast_other ko_default ko_table s); try discriminate.
    eexists. split; [reflexivity|]. repeat split; try reflexivity. intros Kx; discriminate Kx.
Qed.

Lemma steps_one p m t m' : step p m t = Ok (m', []) -> steps p m [t] m'.
Proof. intros H. econstructor; [exact H | apply steps_nil]. Qed.

Lemma steps_two p m t m1 s m2 :
  step p m t = Ok (m1, []) -> step p m1 s = Ok (m2, []) -> steps p m [t; s] m2.
Proof. intros H1 H2. econstructor; [exact H1|]. cbn [app]. apply steps_one. exact H2. Qed.

Lemma steps_pushed p m t m1 s m2 :
  step p m t = Ok (m1, [s]) -> step p m1 s = Ok (m2, []) -> steps p m [t] m2.
Proof. intros H1 H2. econstructor; [exact H1|]. cbn [app]. apply steps_one. exact H2. Qed.

Section Occ.
Variable cs : list ctxspec.
Variable p : parser.
Variable i0 : rctx.

Lemma guard_parts c :
  ctx_guard c = true ->
  nodupb (all_spellings (cx_args c)) = true /\
  (forall a, In a (cx_args c) -> a_names a <> []) /\
  (forall x, In x (all_spellings (cx_args c)) -> clean_flag x = true) /\
  (forall a, In a (cx_args c) -> list_default_ok a = true).
Proof.
  unfold ctx_guard, wf_args. rewrite !andb_true_iff. intros [[[[[W1 W2] C] _] _] L].
  repeat split; auto.
  - intros a Ha E. rewrite forallb_forall in W1. specialize (W1 a Ha). rewrite E in W1. discriminate.
  - rewrite forallb_forall in C. exact C.
  - rewrite forallb_forall in L. exact L.
Qed.

Lemma flag_of_in a k : k < List.length (a_names a) -> In (flag_of a k) (arg_flags a).
Proof. intros H. unfold flag_of, arg_flags. apply in_map. apply nth_In. exact H. Qed.

Lemma st_ok_after_set c given args i r r' given' :
  st_ok c given args -> nth_error args i = Some r ->
  r_spec r' = r_spec r -> aval_is_none (r_val r') = false ->
  (a_kind (r_spec r) = KList -> exists l, r_val r' = AList l) ->
  (takes_value (r_spec r) = true -> a_kind (r_spec r) <> KList -> mem_nat i given' = true) ->
  (forall j, mem_nat j given' = false -> mem_nat j given = false) ->
  st_ok c given' (upd_nth i r' args).
Proof.
  intros [Sh Li Ra Mi] N Sp Nn Hl Hg Hsub. split.
  - rewrite <- Sh. eapply map_upd_same; eauto.
  - intros j rj Nj Kj. destruct (Nat.eq_dec i j) as [<-|Ne].
    + rewrite (nth_error_upd_nth_same _ _ _ _ N) in Nj. injection Nj as <-.
      rewrite Sp in Kj. auto.
    + rewrite (nth_error_upd_nth_other _ _ _ _ Ne) in Nj. eauto.
  - intros j rj Nj Tj Kj Gj. destruct (Nat.eq_dec i j) as [<-|Ne].
    + rewrite (nth_error_upd_nth_same _ _ _ _ N) in Nj. injection Nj as <-.
      rewrite Sp in Tj, Kj. rewrite (Hg Tj Kj) in Gj. discriminate.
    + rewrite (nth_error_upd_nth_other _ _ _ _ Ne) in Nj. eapply Ra; eauto.
  - unfold no_missing in *. rewrite negb_true_iff in *.
    apply existsb_upd_nth; [exact Mi|]. unfold arg_value. rewrite Nn, Nn. apply andb_false_r.
Qed.

Lemma inert_after i0' done cur i r' got :
  nth_error (rc_args cur) i <> None ->
  r_raw r' = true ->
  (needs_value r' && negb got) = false ->
  inert (MS i0' done (upd_cur cur i r') (Some (S (List.length done), i)) got).
Proof.
  intros N R K. unfold inert. cbn [m_flag MS]. exists r'. split; [|split; [exact R | exact K]].
  rewrite MS_get_arg_cur. unfold upd_cur, with_args. cbn [rc_args].
  destruct (nth_error (rc_args cur) i) as [r|] eqn:E; [|congruence].
  eapply nth_error_upd_nth_same; eauto.
Qed.

(** The tokens of one (simple) occurrence. *)
Lemma occ_steps c given o done cur fl got :
  p_ctxs p = cs ->
  ctx_guard c = true -> occ_simple c given o = true ->
  st_ok c given (rc_args cur) -> inert (MS i0 done cur fl got) ->
  exists fl' got',
    steps p (MS i0 done cur fl got) (spell_occ c o)
            (MS i0 done (with_args cur (run_occ (rc_args cur) o)) fl' got') /\
    inert (MS i0 done (with_args cur (run_occ (rc_args cur) o)) fl' got') /\
    st_ok c (given_after given o) (run_occ (rc_args cur) o).
Proof.
  intros Pc G Os St I.
  destruct (guard_parts c G) as [ND [Nn [Cl Ld]]].
  unfold occ_simple in Os. unfold spell_occ, run_occ.
  destruct (nth_error (cx_args c) (o_arg o)) as [a|] eqn:Na; [|discriminate].
  apply andb_true_iff in Os. destruct Os as [Lk Os]. apply Nat.ltb_lt in Lk.
  pose proof (so_shape _ _ _ St) as Sh.
  assert (Nr : exists r, nth_error (rc_args cur) (o_arg o) = Some r /\ r_spec r = a).
  { apply nth_error_map_inv. rewrite Sh. exact Na. }
  destruct Nr as [r [Nr Sr]]. rewrite Nr.
  set (tok := flag_of a (o_name o)).
  assert (Tin : In tok (arg_flags a)) by (apply flag_of_in; exact Lk).
  assert (Ctok : clean_flag tok = true).
  { apply Cl. eapply in_all_spellings; [exact Na|]. unfold spellings_of. apply in_or_app. left. exact Tin. }
  assert (Ftok : find_flag (rc_args cur) tok = Some (o_arg o)).
  { rewrite find_flag_args, Sh. eapply find_flag_spec_unique; eauto. }
  assert (Ain : In a (cx_args c)) by (eapply nth_error_In; eauto).
  destruct (o_form o) eqn:Fo; try discriminate; destruct (o_val o) as [b|n|s|] eqn:Vo; try discriminate.
  - (* FBare, VB true *)
    destruct b; [|discriminate]. rewrite !andb_true_iff, negb_true_iff in Os. destruct Os as [Kb Ninc].
    assert (Kb' : a_kind (r_spec r) = KBool) by (rewrite Sr; destruct (a_kind a); try discriminate; reflexivity).
    assert (Ni' : a_incrementable (r_spec r) = false) by (rewrite Sr; exact Ninc).
    unfold occ_input. rewrite Vo. unfold set_value, new_value. rewrite Ni', Kb'. cbn [cast_kind].
    exists (Some (S (List.length done), o_arg o)), false.
    split; [|split].
    + apply steps_one.
      apply (step_bool_flag p i0 done cur fl got tok (o_arg o) r I Ctok Ftok Nr Kb' Ni').
    + apply inert_after; [congruence | reflexivity | rewrite needs_value_bool; [reflexivity | exact Kb']].
    + unfold given_after, is_value_form. rewrite Fo.
      eapply st_ok_after_set; eauto.
      * intros K. rewrite Kb' in K. discriminate.
      * intros T. unfold takes_value in T. rewrite Kb' in T. discriminate.
  - (* FInv, VB false *)
    destruct b; [discriminate|]. rewrite !andb_true_iff, negb_true_iff in Os.
    destruct Os as [[Kb Ninc] Iv].
    destruct (inverse_of a) as [sv|] eqn:Iva; [|discriminate].
    assert (Kb' : a_kind (r_spec r) = KBool) by (rewrite Sr; destruct (a_kind a); try discriminate; reflexivity).
    assert (Ni' : a_incrementable (r_spec r) = false) by (rewrite Sr; exact Ninc).
    assert (Esv : sv = to_flag ("no-" ++ main_name a)).
    { unfold inverse_of in Iva. destruct (a_kind a); try discriminate.
      destruct (a_default a); try discriminate. destruct b; try discriminate. congruence. }
    rewrite <- Esv.
    assert (Csv : clean_flag sv = true).
    { apply Cl. eapply in_all_spellings; [exact Na|]. unfold spellings_of. rewrite Iva.
      apply in_or_app. right. left. reflexivity. }
    assert (Fnone : find_flag (rc_args cur) sv = None).
    { rewrite find_flag_args, Sh. eapply find_flag_spec_none_inverse; eauto. }
    assert (Finv : find_inverse (rc_args cur) sv = Some (to_flag (main_name a))).
    { eapply find_inverse_args; eauto. }
    assert (Ftgt : find_flag (rc_args cur) (to_flag (main_name a)) = Some (o_arg o)).
    { rewrite find_flag_args, Sh. eapply find_flag_spec_unique; eauto. apply main_flag_in. auto. }
    unfold occ_input. rewrite Vo. unfold set_value, new_value. rewrite Ni', Kb'. cbn [cast_kind].
    exists (Some (S (List.length done), o_arg o)), false.
    split; [|split].
    + apply steps_one.
      apply (step_inverse_flag p i0 done cur fl got sv _ (o_arg o) r I Csv Fnone Finv Ftgt Nr Kb' Ni').
    + apply inert_after; [congruence | reflexivity | rewrite needs_value_bool; [reflexivity | exact Kb']].
    + unfold given_after, is_value_form. rewrite Fo.
      eapply st_ok_after_set; eauto.
      * intros K. rewrite Kb' in K. discriminate.
      * intros T. unfold takes_value in T. rewrite Kb' in T. discriminate.
  - (* FNext, VS s *)
    rewrite !andb_true_iff, negb_true_iff in Os. destruct Os as [[[[Tv No] Pl] Hint] Hg].
    unfold plain in Pl. rewrite negb_true_iff in Pl.
    assert (Tv' : takes_value (r_spec r) = true) by (rewrite Sr; exact Tv).
    assert (No' : a_optional (r_spec r) = false) by (rewrite Sr; exact No).
    destruct (set_value_str r s Tv') as [r' [SV [Sp [Rw [Nnone Hl]]]]].
    { rewrite Sr. exact Hint. }
    { intros K. eapply (so_list _ _ _ St); eauto. }
    unfold occ_input. rewrite Vo, SV. unfold text_of.
    exists (Some (S (List.length done), o_arg o)), true.
    assert (W : forall g, g = false ->
               (if akind_eqb (a_kind (r_spec r)) KList && negb g then true else negb (r_raw r)) = true).
    { intros g ->. rewrite Sr. destruct (akind_eqb (a_kind a) KList) eqn:KL; [reflexivity|].
      simpl in Hg. simpl. rewrite negb_true_iff.
      eapply (so_raw _ _ _ St); eauto.
      - rewrite Sr. intros K. rewrite K in KL. discriminate.
      - rewrite negb_true_iff in Hg. exact Hg. }
    split; [|split].
    + eapply steps_two.
      * apply (step_value_flag p i0 done cur fl got tok (o_arg o) r I Ctok Ftok Nr Tv').
      * apply (step_value p i0 done cur false s (o_arg o) r r' Nr Tv' No' (W false eq_refl) Pl SV).
    + apply inert_after; [congruence | exact Rw | rewrite andb_false_r; reflexivity].
    + unfold given_after, is_value_form. rewrite Fo.
      eapply st_ok_after_set; eauto.
      * intros _ _. unfold mem_nat. simpl. rewrite Nat.eqb_refl. reflexivity.
      * intros j. unfold mem_nat. simpl. rewrite orb_false_iff. tauto.
  - (* FEq, VS s *)
    rewrite !andb_true_iff, negb_true_iff in Os. destruct Os as [[[[Tv No] Pl] Hint] Hg].
    unfold plain in Pl. rewrite negb_true_iff in Pl.
    assert (Tv' : takes_value (r_spec r) = true) by (rewrite Sr; exact Tv).
    assert (No' : a_optional (r_spec r) = false) by (rewrite Sr; exact No).
    destruct (set_value_str r s Tv') as [r' [SV [Sp [Rw [Nnone Hl]]]]].
    { rewrite Sr. exact Hint. }
    { intros K. eapply (so_list _ _ _ St); eauto. }
    unfold occ_input. rewrite Vo, SV. unfold text_of.
    exists (Some (S (List.length done), o_arg o)), true.
    assert (W : (if akind_eqb (a_kind (r_spec r)) KList && negb false then true else negb (r_raw r)) = true).
    { rewrite Sr. destruct (akind_eqb (a_kind a) KList) eqn:KL; [reflexivity|].
      simpl in Hg. simpl. rewrite negb_true_iff.
      eapply (so_raw _ _ _ St); eauto.
      - rewrite Sr. intros K. rewrite K in KL. discriminate.
      - rewrite negb_true_iff in Hg. exact Hg. }
    split; [|split].
    + change ((tok ++ "=" ++ s)%string) with ((tok ++ String "=" s)%string).
      eapply steps_pushed.
      * apply (step_eq_flag p i0 done cur fl got tok s (o_arg o) r I Ctok Ftok Nr Tv').
      * apply (step_value p i0 done cur false s (o_arg o) r r' Nr Tv' No' W Pl SV).
    + apply inert_after; [congruence | exact Rw | rewrite andb_false_r; reflexivity].
    + unfold given_after, is_value_form. rewrite Fo.
      eapply st_ok_after_set; eauto.
      * intros _ _. unfold mem_nat. simpl. rewrite Nat.eqb_refl. reflexivity.
      * intros j. unfold mem_nat. simpl. rewrite orb_false_iff. tauto.
Qed.

End Occ.
