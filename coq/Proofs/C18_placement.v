(** C18, placement of a boolean core flag inside a task's argument list:
    end-to-end theorem at the level of the task-parsing pass, for simple
    invocations (the C01 fragment).  Built on the quiescence/step lemmas of
    Proofs/Parser_steps.v; the composition lemmas of C01_roundtrip.v are
    repeated here for an ARBITRARY initial runtime context [i0], because the
    core flag changes it in mid-parse. *)
From InvokeVerif Require Import Corr.C01Corr Proofs.ListFacts Proofs.C07_fuel
     Proofs.C01_steps Proofs.C01_tokens Proofs.C01_lookup Proofs.C01_occ Proofs.C01_roundtrip
     Proofs.C01_final.
From Coq Require Import Lia.

Section AnyInitial.
Variable cs : list ctxspec.
Variable p : parser.
Hypothesis Pcs : p_ctxs p = cs.
Variable i0 : rctx.

(** all items of a call *)
Lemma items_steps_any c : forall items given done cur fl got os,
  ctx_guard c = true -> items_simple c given items = true ->
  st_ok c given (rc_args cur) -> vals_ok os (rc_args cur) ->
  inert (MS i0 done cur fl got) ->
  exists fl' got' given',
    let args' := fold_left run_occ (flat_map occs_of items) (rc_args cur) in
    steps p (MS i0 done cur fl got) (flat_map (spell_item c) items)
            (MS i0 done (with_args cur args') fl' got') /\
    inert (MS i0 done (with_args cur args') fl' got') /\
    st_ok c given' args' /\ vals_ok (os ++ flat_map occs_of items) args'.
Proof.
  induction items as [|it items IH]; intros given done cur fl got os G Is St V I.
  - exists fl, got, given. simpl. rewrite app_nil_r.
    replace (with_args cur (rc_args cur)) with cur by (destruct cur; reflexivity).
    split; [apply steps_nil|]. auto.
  - destruct it as [o|l]; [|discriminate]. simpl in Is. apply andb_true_iff in Is.
    destruct Is as [Os Is].
    destruct (occ_steps cs p i0 c given o done cur fl got Pcs G Os St I)
      as [fl1 [got1 [S1 [I1 St1]]]].
    pose proof (run_occ_vals c given o (rc_args cur) os G Os St V) as V1.
    set (cur1 := with_args cur (run_occ (rc_args cur) o)) in *.
    destruct (IH (given_after given o) done cur1 fl1 got1 (os ++ [o]) G Is St1 V1 I1)
      as [fl2 [got2 [given2 [S2 [I2 [St2 V2]]]]]].
    exists fl2, got2, given2. cbn [flat_map occs_of spell_item app fold_left].
    unfold cur1 in *. cbn [rc_args with_args] in *.
    split; [eapply steps_app; eauto|]. split; [exact I2|]. split; [exact St2|].
    rewrite <- app_assoc in V2. exact V2.
Qed.

(** after the task-name token: the items of call [k] *)
Lemma call_items_steps_any k c done fl got :
  nth_error cs (k_task k) = Some c -> call_simple cs k = true ->
  inert (MS i0 done (init_ctx c) fl got) ->
  exists fl' got',
    steps p (MS i0 done (init_ctx c) fl got) (flat_map (spell_item c) (k_items k))
            (MS i0 done (final_ctx cs k) fl' got') /\
    inert (MS i0 done (final_ctx cs k) fl' got') /\
    has_missing (final_ctx cs k) = false /\
    obs_of_ctx (final_ctx cs k) = expected_call cs k.
Proof.
  intros N Cs I. unfold call_simple in Cs. rewrite N in Cs. rewrite !andb_true_iff in Cs.
  destruct Cs as [[[Nm Pl] G] Is].
  destruct (items_steps_any c (k_items k) [] done (init_ctx c) fl got [] G Is (init_st_ok c G)
                        (init_vals_ok c G) I) as [fl' [got' [given' [S [I' [St V]]]]]].
  cbn zeta in *. cbn [rc_args init_ctx] in *.
  assert (E : with_args (init_ctx c) (fold_left run_occ (flat_map occs_of (k_items k))
                                                 (map init_arg (cx_args c))) = final_ctx cs k).
  { unfold final_ctx, final_args, call_occs. rewrite N. reflexivity. }
  change (mkRCtx (cx_name c) (cx_aliases c) (map init_arg (cx_args c))) with (init_ctx c) in *.
  rewrite E in *.
  exists fl', got'. split; [exact S|]. split; [exact I'|]. split.
  - rewrite <- E. apply has_missing_with_args. exact (so_miss _ _ _ St).
  - unfold obs_of_ctx, expected_call. rewrite N. rewrite <- E.
    unfold with_args. cbn [rc_name init_ctx]. f_equal.
    rewrite as_kwargs_nodup.
    + apply kwargs_expected; [exact (so_shape _ _ _ St)|].
      intros j r Nj. simpl in V. rewrite (V j r Nj). cbn [plus].
      destruct (guard_parts c G) as [_ [_ [_ Ld]]].
      symmetry. apply value_after_vafter. intros _ K. apply declared_default_list; [|exact K].
      apply Ld. apply nth_error_In in Nj.
      pose proof (so_shape _ _ _ St) as Sh. rewrite <- Sh. apply in_map. exact Nj.
    + unfold ctx_guard in G. rewrite !andb_true_iff in G. destruct G as [[[_ Nd] _] _].
      rewrite <- (so_shape _ _ _ St) in Nd. rewrite map_map in Nd. exact Nd.
Qed.

Hypothesis Nf : forall k c, nth_error cs (k_task k) = Some c -> ctx_named (k_as k) c = true ->
  find_ctx (p_ctxs p) (k_as k) = Some c.

(** a chain of further calls *)
Lemma calls_steps_any : forall calls done cur fl got,
  forallb (call_simple cs) calls = true ->
  inert (MS i0 done cur fl got) -> has_missing cur = false ->
  exists fl' got',
    steps p (MS i0 done cur fl got) (spell cs calls)
            (MS i0 (fst (run_calls cs done cur calls)) (snd (run_calls cs done cur calls)) fl' got') /\
    inert (MS i0 (fst (run_calls cs done cur calls)) (snd (run_calls cs done cur calls)) fl' got') /\
    has_missing (snd (run_calls cs done cur calls)) = false /\
    Forall2 (fun k o => o = expected_call cs k) calls (map (fun k => obs_of_ctx (final_ctx cs k)) calls).
Proof.
  induction calls as [|k rest IH]; intros done cur fl got Cs I Hm.
  - exists fl, got. simpl. split; [apply steps_nil|]. auto.
  - simpl in Cs. apply andb_true_iff in Cs. destruct Cs as [Ck Cr].
    pose proof Ck as Ck'. unfold call_simple in Ck'.
    destruct (nth_error cs (k_task k)) as [c|] eqn:N; [|discriminate].
    rewrite !andb_true_iff in Ck'. destruct Ck' as [[[Nm Pl] G] Is].
    unfold plain in Pl. rewrite negb_true_iff in Pl.
    pose proof (step_task_name p i0 done cur fl got (k_as k) c I Hm Pl (Nf k c N Nm)) as S0.
    assert (I1 : inert (MS i0 (done ++ [cur]) (init_ctx c) fl got)) by (apply inert_snoc; exact I).
    destruct (call_items_steps_any k c (done ++ [cur]) fl got N Ck I1) as [fl1 [got1 [S1 [I2 [Hm1 Ob]]]]].
    destruct (IH (done ++ [cur]) (final_ctx cs k) fl1 got1 Cr I2 Hm1) as [fl2 [got2 [S2 [I3 [Hm2 Fa]]]]].
    exists fl2, got2. cbn [run_calls]. split; [|split; [exact I3 | split; [exact Hm2|]]].
    + unfold spell. cbn [flat_map]. unfold spell_call at 1. rewrite N. cbn [app].
      econstructor; [exact S0|]. cbn [app]. eapply steps_app; [exact S1 | exact S2].
    + cbn [map]. constructor; [exact Ob | exact Fa].
Qed.

End AnyInitial.

(** ** The core flag itself *)

Lemma inert_quiet_like m : inert m ->
  waiting m = false /\ complete_flag m = Ok m /\ (forall p v, check_ambiguity p v m = Ok m).
Proof.
  intros I. split; [apply inert_waiting; exact I|]. split; [apply inert_complete_flag; exact I|].
  intros p v. apply inert_check_ambiguity. exact I.
Qed.

Definition set_core (i0 : rctx) (i : nat) (r : rarg) : rctx :=
  with_args i0 (upd_nth i (mkRArg (r_spec r) true (ABool true)) (rc_args i0)).

(** inside a task's argument list *)
Lemma step_core_bool_flag p i0 done cur fl got tok i r :
  inert (MS i0 done cur fl got) -> has_missing cur = false ->
  clean_flag tok = true ->
  find_flag (rc_args cur) tok = None -> find_inverse (rc_args cur) tok = None ->
  is_ctx_name (p_ctxs p) tok = false ->
  find_flag (rc_args i0) tok = Some i -> nth_error (rc_args i0) i = Some r ->
  a_kind (r_spec r) = KBool -> a_incrementable (r_spec r) = false ->
  String.eqb (arg_name (r_spec r)) "help" = false ->
  step p (MS i0 done cur fl got) tok
  = Ok (MS (set_core i0 i r) done cur (Some (0, i)) false, []) /\
  inert (MS (set_core i0 i r) done cur (Some (0, i)) false).
Proof.
  intros I Hm C F FI Nn Fi N Kb Ninc Nh. split.
  - unfold step, bind.
    rewrite (clean_flag_presplit (MS i0 done cur fl got) _ C eq_refl), (inert_rollback _ _ _ I).
    cbn [fst snd]. unfold handle. cbn [m_st MS pstate_eqb]. rewrite MS_cur.
    cbn [ctx_has_flag ctx_has_inverse]. rewrite F, FI, (inert_waiting _ I), Hm, Nn.
    rewrite MS_init, Fi, N, Nh.
    unfold switch_to_flag, bind.
    rewrite (inert_check_ambiguity p tok _ I), (inert_complete_flag _ I), MS_cur.
    cbn [m_cur MS]. rewrite F, MS_init, Fi.
    change (set_flag (MS i0 done cur fl got) (Some (0, i)) false) with (MS i0 done cur (Some (0, i)) false).
    assert (GA : get_arg (MS i0 done cur (Some (0, i)) false) (0, i) = Some r).
    { unfold get_arg, get_ctx. cbn [fst snd m_ctxs MS nth_error]. exact N. }
    rewrite GA. unfold takes_value. rewrite Kb.
    unfold set_arg_value. rewrite GA. unfold set_value, new_value. rewrite Ninc, Kb.
    cbn [cast_kind negb]. unfold put_arg, get_ctx. cbn [fst snd m_ctxs MS nth_error upd_nth].
    reflexivity.
  - unfold inert. cbn [m_flag MS]. eexists. split; [|split].
    + unfold get_arg, get_ctx. cbn [fst snd m_ctxs MS nth_error set_core with_args rc_args].
      eapply nth_error_upd_nth_same; eauto.
    + reflexivity.
    + rewrite needs_value_bool; [reflexivity | exact Kb].
Qed.

(** the machine before the first task name, with an arbitrary (inert) flag *)
Definition MI (i0 : rctx) (fl : option (nat * nat)) (got : bool) : machine :=
  mkM [i0] true (Some 0) [0] fl got SContext [].

Lemma MI_M0 i0 : MI i0 None false = M0 i0.
Proof. reflexivity. Qed.

(** before the first task: the flag belongs to the current (= initial) context *)
Lemma step_core_bool_flag_front p i0 tok i r :
  clean_flag tok = true ->
  find_flag (rc_args i0) tok = Some i -> nth_error (rc_args i0) i = Some r ->
  a_kind (r_spec r) = KBool -> a_incrementable (r_spec r) = false ->
  step p (M0 i0) tok = Ok (MI (set_core i0 i r) (Some (0, i)) false, []) /\
  inert (MI (set_core i0 i r) (Some (0, i)) false).
Proof.
  intros C Fi N Kb Ninc. split.
  - unfold step, bind. rewrite (clean_flag_presplit (M0 i0) _ C eq_refl).
    unfold rollback, waiting, flag_arg. cbn [m_flag M0 fst snd].
    unfold handle, cur_ctx, get_ctx. cbn [m_st M0 pstate_eqb m_cur m_ctxs nth_error ctx_has_flag].
    rewrite Fi. unfold switch_to_flag, bind, check_ambiguity, complete_flag, flag_arg.
    cbn [m_flag M0]. unfold cur_ctx, get_ctx. cbn [m_cur m_ctxs M0 nth_error]. rewrite Fi.
    cbv zeta. unfold get_arg, get_ctx. cbn [set_flag m_ctxs M0 fst snd nth_error]. rewrite N.
    unfold takes_value. rewrite Kb. unfold set_arg_value, get_arg, get_ctx.
    cbn [m_ctxs set_flag M0 fst snd nth_error]. rewrite N.
    unfold set_value, new_value. rewrite Ninc, Kb. cbn [cast_kind negb].
    unfold put_arg, get_ctx. cbn [fst snd m_ctxs set_flag M0 nth_error upd_nth]. reflexivity.
  - unfold inert. cbn [m_flag MI]. eexists. split; [|split].
    + unfold get_arg, get_ctx. cbn [fst snd m_ctxs MI nth_error set_core with_args rc_args].
      eapply nth_error_upd_nth_same; eauto.
    + reflexivity.
    + rewrite needs_value_bool; [reflexivity | exact Kb].
Qed.

Lemma step_first_task_inert p i0 fl got tok c' :
  inert (MI i0 fl got) ->
  has_missing i0 = false -> starts_with "-" tok = false ->
  find_ctx (p_ctxs p) tok = Some c' ->
  step p (MI i0 fl got) tok = Ok (MS i0 [] (init_ctx c') fl got, []) /\
  inert (MS i0 [] (init_ctx c') fl got).
Proof.
  intros I Hm P Fc. split.
  - unfold step, bind. rewrite (plain_presplit _ _ P), (inert_rollback _ _ _ I). cbn [fst snd].
    assert (Nm : is_ctx_name (p_ctxs p) tok = true).
    { unfold is_ctx_name. apply existsb_exists. unfold find_ctx in Fc. apply find_some in Fc.
      destruct Fc as [A B]. eauto. }
    unfold handle. cbn [m_st MI pstate_eqb]. unfold cur_ctx, get_ctx. cbn [m_cur m_ctxs MI nth_error].
    cbn [ctx_has_flag ctx_has_inverse].
    rewrite (plain_not_flag (rc_args i0) tok P), (plain_not_inverse (rc_args i0) tok P).
    rewrite (inert_waiting _ I), Hm, Nm.
    unfold see_context, transition. cbn [m_st MI pstate_eqb].
    change (set_state (MI i0 fl got) SContext) with (MI i0 fl got).
    unfold enter_state, bind. rewrite (inert_complete_flag _ I).
    unfold complete_context, cur_ctx, get_ctx. cbn [m_cur m_ctxs MI nth_error m_res existsb Nat.eqb orb].
    rewrite Hm. unfold switch_to_context. rewrite Fc. reflexivity.
  - revert I. unfold inert. cbn [m_flag MI MS]. destruct fl as [ref|]; [|auto].
    intros [r [G H]]. exists r. split; [|exact H].
    revert G. unfold get_arg, get_ctx. cbn [m_ctxs MI MS].
    destruct ref as [[|k] j]; cbn [fst snd nth_error app]; [auto|].
    destruct k; discriminate.
Qed.

(** ** Runs of whole calls from a "ready" machine *)

Section Ready.
Variable cs : list ctxspec.
Variable ic : ctxspec.
Hypothesis Pok : parser_ok cs = true.
Let p := mkP cs (Some ic) false.

(** [ready i0 m dall]: between two calls -- either before the first task name
    ([dall] = []) or after a complete call; [dall] lists the task contexts so far. *)
Inductive ready (i0 : rctx) : machine -> list rctx -> Prop :=
| ready_start fl got : inert (MI i0 fl got) -> has_missing i0 = false -> ready i0 (MI i0 fl got) []
| ready_after done cur fl got :
    inert (MS i0 done cur fl got) -> has_missing cur = false -> has_missing i0 = false ->
    ready i0 (MS i0 done cur fl got) (done ++ [cur]).

Lemma Nf_p : forall k c, nth_error cs (k_task k) = Some c -> ctx_named (k_as k) c = true ->
  find_ctx (p_ctxs p) (k_as k) = Some c.
Proof. intros k c N H. exact (named_find cs ic Pok k c N H). Qed.

Lemma ready_task_name i0 m dall tok c :
  ready i0 m dall -> starts_with "-" tok = false -> find_ctx cs tok = Some c ->
  exists fl got, step p m tok = Ok (MS i0 dall (init_ctx c) fl got, []) /\
                 inert (MS i0 dall (init_ctx c) fl got).
Proof.
  intros R P Fc. destruct R as [fl got I Hm | done cur fl got I Hm _].
  - exists fl, got. apply (step_first_task_inert p i0 fl got tok c I Hm P Fc).
  - exists fl, got. split.
    + apply (step_task_name p i0 done cur fl got tok c I Hm P Fc).
    + apply inert_snoc. exact I.
Qed.

Lemma ready_missing i0 m dall : ready i0 m dall -> has_missing i0 = false.
Proof. destruct 1; assumption. Qed.

Lemma calls_from_ready i0 : forall calls m dall,
  ready i0 m dall -> forallb (call_simple cs) calls = true ->
  exists m', steps p m (spell cs calls) m' /\
             ready i0 m' (dall ++ map (final_ctx cs) calls) /\
             map (fun k => obs_of_ctx (final_ctx cs k)) calls = map (expected_call cs) calls.
Proof.
  induction calls as [|k rest IH]; intros m dall R Cs.
  - exists m. simpl. rewrite app_nil_r. split; [apply steps_nil|]. auto.
  - simpl in Cs. apply andb_true_iff in Cs. destruct Cs as [Ck Cr].
    pose proof Ck as Ck'. unfold call_simple in Ck'.
    destruct (nth_error cs (k_task k)) as [c|] eqn:N; [|discriminate].
    rewrite !andb_true_iff in Ck'. destruct Ck' as [[[Nm Pl] G] Is].
    unfold plain in Pl. rewrite negb_true_iff in Pl.
    destruct (ready_task_name i0 m dall (k_as k) c R Pl (Nf_p k c N Nm)) as [fl [got [S0 I1]]].
    destruct (call_items_steps_any cs p eq_refl i0 k c dall fl got N Ck I1)
      as [fl1 [got1 [S1 [I2 [Hm1 Ob]]]]].
    assert (R1 : ready i0 (MS i0 dall (final_ctx cs k) fl1 got1) (dall ++ [final_ctx cs k])).
    { constructor; auto. eapply ready_missing; eauto. }
    destruct (IH _ _ R1 Cr) as [m' [S2 [R2 Ob2]]].
    exists m'. split; [|split].
    + unfold spell. cbn [flat_map]. unfold spell_call at 1. rewrite N. cbn [app].
      econstructor; [exact S0|]. cbn [app]. eapply steps_app; [exact S1 | exact S2].
    + cbn [map]. rewrite <- app_assoc in R2. exact R2.
    + cbn [map]. rewrite Ob, Ob2. reflexivity.
Qed.

Lemma finish_ready i0 m dall :
  ready i0 m dall -> dall <> [] ->
  exists m', finish m = Ok m' /\ result_ctxs m' = i0 :: dall /\ m_unparsed m' = [].
Proof.
  intros R Ne. destruct R as [fl got I Hm | done cur fl got I Hm _]; [congruence|].
  apply finish_MS; assumption.
Qed.

End Ready.

(** ** Explicit bookkeeping of the arguments given so far *)

Definition given_items (given : list nat) (items : list item) : list nat :=
  fold_left (fun g it => match it with One o => given_after g o | Cluster _ => g end) items given.

Lemma items_simple_app c : forall a given b,
  items_simple c given (a ++ b) = items_simple c given a && items_simple c (given_items given a) b.
Proof.
  induction a as [|it a IH]; intros given b; [reflexivity|].
  destruct it as [o|l]; [|reflexivity]. cbn [app items_simple given_items fold_left].
  rewrite IH, andb_assoc. reflexivity.
Qed.

Lemma items_steps_explicit cs p (Pcs : p_ctxs p = cs) i0 c : forall items given done cur fl got os,
  ctx_guard c = true -> items_simple c given items = true ->
  st_ok c given (rc_args cur) -> vals_ok os (rc_args cur) ->
  inert (MS i0 done cur fl got) ->
  exists fl' got',
    let args' := fold_left run_occ (flat_map occs_of items) (rc_args cur) in
    steps p (MS i0 done cur fl got) (flat_map (spell_item c) items)
            (MS i0 done (with_args cur args') fl' got') /\
    inert (MS i0 done (with_args cur args') fl' got') /\
    st_ok c (given_items given items) args' /\ vals_ok (os ++ flat_map occs_of items) args'.
Proof.
  induction items as [|it items IH]; intros given done cur fl got os G Is St V I.
  - exists fl, got. simpl. rewrite app_nil_r.
    replace (with_args cur (rc_args cur)) with cur by (destruct cur; reflexivity).
    split; [apply steps_nil|]. auto.
  - destruct it as [o|l]; [|discriminate]. simpl in Is. apply andb_true_iff in Is.
    destruct Is as [Os Is].
    destruct (occ_steps cs p i0 c given o done cur fl got Pcs G Os St I)
      as [fl1 [got1 [S1 [I1 St1]]]].
    pose proof (run_occ_vals c given o (rc_args cur) os G Os St V) as V1.
    set (cur1 := with_args cur (run_occ (rc_args cur) o)) in *.
    destruct (IH (given_after given o) done cur1 fl1 got1 (os ++ [o]) G Is St1 V1 I1)
      as [fl2 [got2 [S2 [I2 [St2 V2]]]]].
    exists fl2, got2. cbn [flat_map occs_of spell_item app fold_left given_items].
    unfold cur1 in *. cbn [rc_args with_args] in *.
    split; [eapply steps_app; eauto|]. split; [exact I2|]. split; [exact St2|].
    rewrite <- app_assoc in V2. exact V2.
Qed.

Lemma has_missing_set_core i0 i r :
  has_missing i0 = false -> has_missing (set_core i0 i r) = false.
Proof.
  unfold has_missing, set_core, with_args. cbn [rc_args]. intros H.
  apply existsb_upd_nth; [exact H|]. unfold arg_value. cbn [r_val aval_is_none]. apply andb_false_r.
Qed.

(** ** From a run to the result of [parser_parse] *)
Lemma parse_of_run cs ic argv i0' m dall :
  parser_ok cs = true -> has_missing (init_ctx ic) = false ->
  Forall (fun t => t <> "--") argv ->
  steps (mkP cs (Some ic) false) (M0 (init_ctx ic)) argv m ->
  ready i0' m dall -> dall <> [] ->
  exists r, parser_parse cs (Some ic) false argv = Ok r /\
            pr_ctxs r = i0' :: dall /\ pr_unparsed r = [] /\ pr_remainder r = "".
Proof.
  intros Pok Hi Cl St R Ne.
  destruct (finish_ready i0' m dall R Ne) as [m' [Fi [Rc Un]]].
  pose proof (split_ddash_clean _ Cl) as Sd.
  assert (St' : steps (mkP cs (Some ic) false) (M0 (init_ctx ic)) (fst (split_ddash argv)) m)
    by (rewrite Sd; exact St).
  pose proof (steps_parse _ argv _ _ m' (new_machine_M0 cs ic false Hi) St' Fi) as P.
  rewrite Sd in P. cbn [snd join] in P.
  eexists. split; [unfold parser_parse; rewrite Pok; exact P|].
  cbn [pr_ctxs pr_unparsed pr_remainder]. auto.
Qed.

(** ** The placement theorems *)

Section Placement.
Variable cs : list ctxspec.
Variable ic : ctxspec.
Let p := mkP cs (Some ic) false.
Let i0 := init_ctx ic.

(** the core flag: an exact spelling of a boolean (non-help) option of the
    initial context *)
Variable tok : string.
Variable i : nat.
Variable r : rarg.
Hypothesis Ctok : clean_flag tok = true.
Hypothesis Fi : find_flag (rc_args i0) tok = Some i.
Hypothesis Ni : nth_error (rc_args i0) i = Some r.
Hypothesis Kb : a_kind (r_spec r) = KBool.
Hypothesis Ninc : a_incrementable (r_spec r) = false.
Hypothesis Nh : String.eqb (arg_name (r_spec r)) "help" = false.

(** Front placement: the option first, then the invocation. *)
Theorem core_flag_front inv :
  simple_guard cs ic inv = true ->
  exists res,
    parser_parse cs (Some ic) false (tok :: spell cs inv) = Ok res /\
    pr_ctxs res = set_core i0 i r :: map (final_ctx cs) inv /\
    map obs_of_ctx (tl (pr_ctxs res)) = expected cs inv /\
    pr_unparsed res = [] /\ pr_remainder res = "".
Proof.
  unfold simple_guard. rewrite !andb_true_iff, negb_true_iff. intros [[[Pok Hi] Ne] Cs].
  destruct (step_core_bool_flag_front p i0 tok i r Ctok Fi Ni Kb Ninc) as [S0 I0].
  assert (R0 : ready (set_core i0 i r) (MI (set_core i0 i r) (Some (0, i)) false) []).
  { constructor; [exact I0 | apply has_missing_set_core; exact Hi]. }
  destruct (calls_from_ready cs ic Pok (set_core i0 i r) inv _ [] R0 Cs) as [m' [S1 [R1 Ob]]].
  cbn [app] in R1.
  assert (St : steps p (M0 i0) (tok :: spell cs inv) m').
  { econstructor; [exact S0|]. cbn [app]. exact S1. }
  assert (Cl : Forall (fun t => t <> "--") (tok :: spell cs inv)).
  { constructor; [apply clean_not_ddash; exact Ctok | apply spell_clean; exact Cs]. }
  destruct (parse_of_run cs ic _ _ m' _ Pok Hi Cl St R1) as [res [P [Rc [Un Rm]]]].
  { destruct inv; [discriminate|]. discriminate. }
  exists res. split; [exact P|]. split; [exact Rc|]. rewrite Rc. cbn [tl].
  rewrite map_map. unfold expected. auto.
Qed.

(** Placement inside the argument list of a call: after any complete item. *)
Theorem core_flag_placed calls1 t asn items1 items2 calls2 c :
  let inv := calls1 ++ mkCall t asn (items1 ++ items2) :: calls2 in
  simple_guard cs ic inv = true ->
  nth_error cs t = Some c ->
  (* not shadowed by the task, not a task name *)
  find_flag_spec (cx_args c) tok = None ->
  find (is_inverse_of tok) (cx_args c) = None ->
  is_ctx_name cs tok = false ->
  exists res,
    parser_parse cs (Some ic) false
      (spell cs calls1 ++ (asn :: flat_map (spell_item c) items1)
       ++ tok :: flat_map (spell_item c) items2 ++ spell cs calls2) = Ok res /\
    pr_ctxs res = set_core i0 i r :: map (final_ctx cs) inv /\
    map obs_of_ctx (tl (pr_ctxs res)) = expected cs inv /\
    pr_unparsed res = [] /\ pr_remainder res = "".
Proof.
  intros inv. unfold simple_guard. rewrite !andb_true_iff, negb_true_iff.
  intros [[[Pok Hi] _] Cs] N Fs Finv Nn.
  unfold inv in Cs. rewrite forallb_app in Cs. apply andb_true_iff in Cs. destruct Cs as [C1 Ck].
  cbn [forallb] in Ck. apply andb_true_iff in Ck. destruct Ck as [Ck C2].
  set (k := mkCall t asn (items1 ++ items2)) in *.
  pose proof Ck as Ck'. unfold call_simple in Ck'. cbn [k_task k] in Ck'. rewrite N in Ck'.
  rewrite !andb_true_iff in Ck'. destruct Ck' as [[[Nm Pl] G] Is]. cbn [k_as k_items k] in *.
  unfold plain in Pl. rewrite negb_true_iff in Pl.
  rewrite items_simple_app in Is. apply andb_true_iff in Is. destruct Is as [Is1 Is2].
  (* calls before *)
  assert (R0 : ready i0 (MI i0 None false) []) by (constructor; [exact I | exact Hi]).
  destruct (calls_from_ready cs ic Pok i0 calls1 _ [] R0 C1) as [m1 [S1 [R1 Ob1]]]. cbn [app] in R1.
  (* the task name *)
  destruct (ready_task_name cs ic i0 m1 _ asn c R1 Pl (Nf_p cs ic Pok k c N Nm)) as [fl [got [S2 I2]]].
  set (d1 := map (final_ctx cs) calls1) in *.
  (* items before the flag *)
  destruct (items_steps_explicit cs p eq_refl i0 c items1 [] d1 (init_ctx c) fl got [] G Is1
              (init_st_ok c G) (init_vals_ok c G) I2) as [fl1 [got1 [S3 [I3 [St3 V3]]]]].
  cbn zeta in *. cbn [rc_args init_ctx app] in *.
  change (mkRCtx (cx_name c) (cx_aliases c) (map init_arg (cx_args c))) with (init_ctx c) in *.
  set (args1 := fold_left run_occ (flat_map occs_of items1) (map init_arg (cx_args c))) in *.
  set (cur1 := with_args (init_ctx c) args1) in *.
  (* the core flag *)
  assert (F1 : find_flag (rc_args cur1) tok = None).
  { cbn [rc_args cur1 with_args]. rewrite find_flag_args, (so_shape _ _ _ St3). exact Fs. }
  assert (F2 : find_inverse (rc_args cur1) tok = None).
  { cbn [rc_args cur1 with_args]. unfold find_inverse.
    pose proof (find_map_spec args1 (is_inverse_of tok)) as E. rewrite (so_shape _ _ _ St3), Finv in E.
    destruct (find (fun r0 => is_inverse_of tok (r_spec r0)) args1); [discriminate E | reflexivity]. }
  assert (Hm1 : has_missing cur1 = false) by (apply has_missing_with_args; exact (so_miss _ _ _ St3)).
  destruct (step_core_bool_flag p i0 d1 cur1 fl1 got1 tok i r I3 Hm1 Ctok F1 F2 Nn Fi Ni Kb Ninc Nh)
    as [S4 I4].
  set (i0' := set_core i0 i r) in *.
  (* items after the flag, with the modified initial context *)
  destruct (items_steps_explicit cs p eq_refl i0' c items2 (given_items [] items1) d1 cur1
              (Some (0, i)) false (flat_map occs_of items1) G Is2 St3 V3 I4)
    as [fl2 [got2 [S5 [I5 [St5 V5]]]]].
  cbn zeta in *. cbn [rc_args cur1 with_args] in *.
  set (args2 := fold_left run_occ (flat_map occs_of items2) args1) in *.
  assert (Ef : with_args cur1 args2 = final_ctx cs k).
  { unfold final_ctx, final_args, call_occs. cbn [k_task k_items k]. rewrite N.
    rewrite flat_map_app, fold_left_app. reflexivity. }
  change (with_args (with_args (init_ctx c) args1) args2) with (with_args cur1 args2) in *.
  rewrite Ef in *.
  assert (Hm2 : has_missing (final_ctx cs k) = false).
  { rewrite <- Ef. apply has_missing_with_args. exact (so_miss _ _ _ St5). }
  assert (R5 : ready i0' (MS i0' d1 (final_ctx cs k) fl2 got2) (d1 ++ [final_ctx cs k])).
  { constructor; [exact I5 | exact Hm2 | apply has_missing_set_core; exact Hi]. }
  (* calls after *)
  destruct (calls_from_ready cs ic Pok i0' calls2 _ _ R5 C2) as [m6 [S6 [R6 Ob6]]].
  (* the expected value of call k: path-independent *)
  destruct (call_items_steps_any cs p eq_refl i0 k c d1 fl got N Ck I2) as [_ [_ [_ [_ [_ Obk]]]]].
  (* assemble the run *)
  assert (St : steps p (M0 i0)
                 (spell cs calls1 ++ (asn :: flat_map (spell_item c) items1)
                  ++ tok :: flat_map (spell_item c) items2 ++ spell cs calls2) m6).
  { eapply steps_app; [exact S1|]. cbn [app].
    econstructor; [exact S2|]. cbn [app].
    eapply steps_app; [exact S3|].
    econstructor; [exact S4|]. cbn [app].
    eapply steps_app; [exact S5 | exact S6]. }
  assert (Cl : Forall (fun x => x <> "--")
                 (spell cs calls1 ++ (asn :: flat_map (spell_item c) items1)
                  ++ tok :: flat_map (spell_item c) items2 ++ spell cs calls2)).
  { apply Forall_app. split; [apply spell_clean; exact C1|]. cbn [app].
    constructor; [intros E; subst asn; discriminate Pl|].
    apply Forall_app. split; [eapply spell_items_clean; eauto|].
    constructor; [apply clean_not_ddash; exact Ctok|].
    apply Forall_app. split; [eapply spell_items_clean; eauto | apply spell_clean; exact C2]. }
  destruct (parse_of_run cs ic _ _ m6 _ Pok Hi Cl St R6) as [res [P [Rc [Un Rm]]]].
  { destruct d1; discriminate. }
  exists res. split; [exact P|].
  assert (Eall : (d1 ++ [final_ctx cs k]) ++ map (final_ctx cs) calls2 = map (final_ctx cs) inv).
  { unfold inv, d1. rewrite map_app. cbn [map]. rewrite <- app_assoc. reflexivity. }
  split; [rewrite Rc, Eall; reflexivity|]. split; [|auto].
  rewrite Rc. cbn [tl]. rewrite Eall. unfold inv, expected. rewrite !map_app. cbn [map].
  rewrite !map_map in *. rewrite Ob1, Obk, Ob6. reflexivity.
Qed.

(** Placement equivalence (task-parsing pass): wherever the boolean core flag
    stands -- first, or after any complete item of any call -- the parse result
    is the same: the same core value, the same task calls. *)
Corollary core_flag_placement_equiv calls1 t asn items1 items2 calls2 c :
  let inv := calls1 ++ mkCall t asn (items1 ++ items2) :: calls2 in
  simple_guard cs ic inv = true ->
  nth_error cs t = Some c ->
  find_flag_spec (cx_args c) tok = None ->
  find (is_inverse_of tok) (cx_args c) = None ->
  is_ctx_name cs tok = false ->
  exists res,
    parser_parse cs (Some ic) false (tok :: spell cs inv) = Ok res /\
    parser_parse cs (Some ic) false
      (spell cs calls1 ++ (asn :: flat_map (spell_item c) items1)
       ++ tok :: flat_map (spell_item c) items2 ++ spell cs calls2) = Ok res /\
    map obs_of_ctx (tl (pr_ctxs res)) = expected cs inv.
Proof.
  intros inv G N Fs Finv Nn.
  destruct (core_flag_front inv G) as [r1 [P1 [C1 [O1 [U1 M1]]]]].
  destruct (core_flag_placed calls1 t asn items1 items2 calls2 c G N Fs Finv Nn)
    as [r2 [P2 [C2 [O2 [U2 M2]]]]].
  fold inv in C2.
  assert (r1 = r2).
  { destruct r1, r2. cbn in *. congruence. }
  subst r2. exists r1. auto.
Qed.

End Placement.
