(** C12, output delivered as bytes (Model/WatchBytesModel.v, Spec/C12BytesSpec.v). *)
From InvokeVerif Require Import Model.Utf8Model.
From InvokeVerif Require Import Model.WatchModel Model.WatchBytesModel Spec.C12Spec Spec.C12BytesSpec
     Proofs.C12_regex Proofs.C12_watch.

Definition event_eqb (a b : event) : bool := Bool.eqb (fst a) (fst b) && String.eqb (snd a) (snd b).

Lemma event_eqb_eq a b : event_eqb a b = true <-> a = b.
Proof.
  destruct a as [s x], b as [t y]. unfold event_eqb. cbn [fst snd].
  rewrite Bool.andb_true_iff, Bool.eqb_true_iff, String.eqb_eq.
  split; [intros [-> ->]; reflexivity | intros H; inversion H; auto].
Qed.

(** guard: on this schedule the per-stream decoders deliver exactly the whole characters
    each read completes *)
Definition decoders_agree (sched : list event) : bool :=
  list_eqb event_eqb (text_events (decoded sched)) (text_sched [] [] sched).

Lemma bytes_meets_spec_partial ws sched how :
  decoders_agree sched = true ->
  spec_ok_bytes ws sched how (fst (run_bytes current ws sched)) (snd (run_bytes current ws sched))
                (outcome_exn how (snd (run_bytes current ws sched))) = true.
Proof.
  intros H. apply (proj1 (list_eqb_eq event_eqb event_eqb_eq _ _)) in H.
  unfold spec_ok_bytes, run_bytes. rewrite <- H. apply current_meets_spec.
Qed.

(** each stream's pieces are those of its own decoder run over its own reads *)
Definition of_stream (sid : bool) {A} (l : list (bool * A)) : list A :=
  map snd (filter (fun e => Bool.eqb (fst e) sid) l).

Lemma own_decoder sid sched : forall so se,
  of_stream sid (fst (decode_sched so se sched)) =
  fst (decode_stream (if sid then se else so) (of_stream sid sched)).
Proof.
  unfold of_stream. induction sched as [|[s c] rest IH]; intros so se; [reflexivity|].
  cbn [decode_sched].
  destruct (decode_sched (if s then so else fst (drun Utf8 (if s then se else so) (bytes_of_string c)))
                         (if s then fst (drun Utf8 (if s then se else so) (bytes_of_string c)) else se) rest)
    as [evs fin] eqn:E.
  cbn [fst filter map snd].
  specialize (IH (if s then so else fst (drun Utf8 (if s then se else so) (bytes_of_string c)))
                 (if s then fst (drun Utf8 (if s then se else so) (bytes_of_string c)) else se)).
  rewrite E in IH. cbn [fst] in IH.
  destruct s, sid; cbn [Bool.eqb fst snd map filter decode_stream] in *.
  - rewrite IH. destruct (decode_stream _ _). reflexivity.
  - exact IH.
  - exact IH.
  - rewrite IH. destruct (decode_stream _ _). reflexivity.
Qed.

Lemma stream_pieces_independent sid s1 s2 :
  of_stream sid s1 = of_stream sid s2 ->
  of_stream sid (decoded s1) = of_stream sid (decoded s2).
Proof. intros H. unfold decoded. rewrite !own_decoder, H. reflexivity. Qed.

(** a string given by its character codes (bytes of a chunk / code points of a text) *)
Definition codes (l : list nat) : string := string_of_list_ascii (map ascii_of_nat l).
