(** C03: the model's run of EVERY script with edits after its load calls is
    accepted by the modification-history part of the executable specification
    (Spec/C03ModSpec.v). *)
From Coq Require Import Lia.
From InvokeVerif Require Import Common.Tree Common.StrUtil Model.MergeModel Model.EnvModel
     Model.ConfigModel Spec.C03Spec Spec.C06Spec Spec.C03ModSpec Proofs.ListFacts Proofs.TreeFacts
     Proofs.C03_merge Proofs.C03_levels Proofs.C03_order Proofs.C03_script Corr.C03Corr
     Proofs.C03_envclause Proofs.C03_whole Proofs.C06_shapes Proofs.C06_track Proofs.C06_refine
     Proofs.C16_view_shapes.

Local Opaque try_suffixes mem.

(** * Deletions as a list of paths *)
Lemma masked_by_app D1 D2 q : masked_by (D1 ++ D2) q = masked_by D1 q || masked_by D2 q.
Proof. unfold masked_by. apply existsb_app. Qed.

Lemma masked_by_snoc D p q : masked_by (D ++ [p]) q = masked_by D q || is_prefix p q.
Proof. rewrite masked_by_app. unfold masked_by at 2. simpl. rewrite orb_false_r. reflexivity. Qed.

Lemma is_prefix_trans a b c : is_prefix a b = true -> is_prefix b c = true -> is_prefix a c = true.
Proof.
  rewrite !is_prefix_iff. intros [r1 ->] [r2 ->]. exists (r1 ++ r2). rewrite app_assoc. reflexivity.
Qed.

Lemma prefixes_comparable : forall a b q, is_prefix a q = true -> is_prefix b q = true ->
  is_prefix a b = true \/ is_prefix b a = true.
Proof.
  induction a as [|x a IH]; intros b q Ha Hb; [left; reflexivity|].
  destruct b as [|y b]; [right; reflexivity|].
  destruct q as [|z q]; [discriminate|]. simpl in Ha, Hb.
  apply andb_true_iff in Ha as [Ex Ha]. apply andb_true_iff in Hb as [Ey Hb].
  apply String.eqb_eq in Ex. apply String.eqb_eq in Ey. subst x y. simpl. rewrite String.eqb_refl. simpl.
  eapply IH; eassumption.
Qed.

(** Un-deleting [p]: with no deletion recorded at a proper prefix of [p]. *)
Lemma masked_by_filter p q : forall D,
  (forall d r, In d D -> r <> [] -> p = d ++ r -> False) ->
  masked_by (filter (fun d => negb (is_prefix p d)) D) q =
  if is_prefix p q then false else masked_by D q.
Proof.
  induction D as [|d D IH]; intros H.
  - simpl. destruct (is_prefix p q); reflexivity.
  - assert (H' : forall d0 r, In d0 D -> r <> [] -> p = d0 ++ r -> False)
      by (intros d0 r Hin; apply H; right; exact Hin).
    specialize (IH H'). cbn [filter]. destruct (is_prefix p d) eqn:Epd; cbn [negb].
    + rewrite IH. destruct (is_prefix p q) eqn:Epq; [reflexivity|].
      unfold masked_by at 2. cbn [existsb]. fold (masked_by D q).
      destruct (is_prefix d q) eqn:Edq; [|reflexivity].
      rewrite (is_prefix_trans p d q Epd Edq) in Epq. discriminate.
    + unfold masked_by at 1. cbn [existsb]. fold (masked_by (filter (fun d0 => negb (is_prefix p d0)) D) q).
      rewrite IH. unfold masked_by at 2. cbn [existsb]. fold (masked_by D q).
      destruct (is_prefix p q) eqn:Epq; [|reflexivity].
      rewrite orb_false_r. destruct (is_prefix d q) eqn:Edq; [|reflexivity]. exfalso.
      destruct (prefixes_comparable d p q Edq Epq) as [Hdp|Hpd]; [|congruence].
      apply is_prefix_iff in Hdp as [r E]. destruct r as [|x r].
      * rewrite app_nil_r in E. subst d. rewrite is_prefix_refl in Epd. discriminate.
      * apply (H d (x :: r)); [left; reflexivity | discriminate | exact E].
Qed.

(** * merge() with modifications and deletions *)
Lemma model_levels_split c : model_levels c = firstn 8 (model_levels c) ++ [Node (c_mods c)].
Proof. reflexivity. Qed.

Lemma merge_masked c L :
  firstn 8 (model_levels c) = L ->
  wf (Node (c_dels c)) = true ->
  levels_tc (L ++ [Node (c_mods c)]) = true -> forallb wf (L ++ [Node (c_mods c)]) = true ->
  forallb is_node (L ++ [Node (c_mods c)]) = true ->
  exists d, merge c = Ok d /\ wf (Node d) = true /\
    forall q, shape_at q (Node d) =
              if masked (c_dels c) q then None else oracle q (L ++ [Node (c_mods c)]).
Proof.
  intros HL WD Htc Hwf Hn.
  destruct (highest_level_wins (L ++ [Node (c_mods c)])) as [m [Em [Wm Sm]]]; try assumption.
  { destruct L; discriminate. }
  destruct (obliterate_shape_dict (c_dels c) m WD Wm) as [Wo So].
  exists (obliterate m (Node (c_dels c))). split.
  - unfold merge, merge_levels. rewrite <- merge_all_norm, model_levels_eq, model_levels_split, HL, Em.
    reflexivity.
  - split; [exact Wo|]. intros q. rewrite So, Sm. reflexivity.
Qed.

(** * The representation invariant *)
Record minv (S : supplied) (envl : tree) (c : cfg) (st : mstate) : Prop := mkMinv {
  mi_levels : firstn 8 (model_levels c) = levels9 S envl;
  mi_mods : c_mods c = ms_mods st;
  mi_wfD : wf (Node (c_dels c)) = true;
  mi_mask : forall q, masked (c_dels c) q = masked_by (ms_dels st) q;
  mi_wfC : wf (Node (c_cache c)) = true;
  mi_view : forall q, shape_at q (Node (c_cache c)) =
                      if masked_by (ms_dels st) q then None else oracle q (all_levels S st envl);
  mi_env : c_env c = envl;
  mi_scope : scope_now S st envl = true
}.

Definition same_frame (c c' : cfg) : Prop :=
  c_env c' = c_env c /\
  [c_sys_sfx c'; c_user_sfx c'; c_proj_sfx c'] = [c_sys_sfx c; c_user_sfx c; c_proj_sfx c].

Lemma same_frame_refl c : same_frame c c.
Proof. split; reflexivity. Qed.

Lemma same_frame_tracked c M D d : same_frame c (set_cache (set_tracking c M D) d).
Proof. destruct c; split; reflexivity. Qed.

Lemma scope_parts S st envl : scope_now S st envl = true ->
  levels_tc (all_levels S st envl) = true /\ forallb wf (all_levels S st envl) = true /\
  forallb is_node (all_levels S st envl) = true.
Proof.
  unfold scope_now. cbv zeta. intros H. apply andb_true_iff in H as [H H3].
  apply andb_true_iff in H as [H1 H2]. auto.
Qed.

Lemma remerge_frame c o : exists d, fst (remerge c o) = set_cache c d.
Proof. unfold remerge. destruct (merge c) as [d|e]; [exists d | exists []]; reflexivity. Qed.

(** Tracked edits, then [merge()]. *)
Lemma remerge_tracked S envl c st M' Dt' st' out0 :
  minv S envl c st ->
  ms_mods st' = M' -> wf (Node Dt') = true ->
  (forall q, masked Dt' q = masked_by (ms_dels st') q) ->
  scope_now S st' envl = true ->
  exists d, remerge (set_tracking c M' Dt') out0 = (set_cache (set_tracking c M' Dt') d, out0) /\
            minv S envl (set_cache (set_tracking c M' Dt') d) st'.
Proof.
  intros I EM WD HM Hsc. destruct (scope_parts _ _ _ Hsc) as [Htc [Hwf Hn]].
  set (c1 := set_tracking c M' Dt').
  assert (L1 : firstn 8 (model_levels c1) = levels9 S envl).
  { rewrite <- (mi_levels _ _ _ _ I). unfold c1. destruct c; reflexivity. }
  assert (M1 : c_mods c1 = M') by (unfold c1; destruct c; reflexivity).
  assert (D1 : c_dels c1 = Dt') by (unfold c1; destruct c; reflexivity).
  unfold all_levels in Htc, Hwf, Hn. rewrite EM in Htc, Hwf, Hn.
  destruct (merge_masked c1 (levels9 S envl) L1) as [d [Em [Wd Sd]]];
    try (rewrite ?M1, ?D1; assumption).
  exists d. split; [unfold remerge; rewrite Em; reflexivity|].
  constructor.
  - rewrite <- L1. unfold c1. destruct c; reflexivity.
  - rewrite EM, <- M1. unfold c1. destruct c; reflexivity.
  - replace (c_dels (set_cache c1 d)) with Dt' by (unfold c1; destruct c; reflexivity). exact WD.
  - replace (c_dels (set_cache c1 d)) with Dt' by (unfold c1; destruct c; reflexivity). exact HM.
  - replace (c_cache (set_cache c1 d)) with d by (unfold c1; destruct c; reflexivity). exact Wd.
  - replace (c_cache (set_cache c1 d)) with d by (unfold c1; destruct c; reflexivity).
    intros q. rewrite Sd, D1, M1, HM. unfold all_levels. rewrite EM. reflexivity.
  - rewrite <- (mi_env _ _ _ _ I). unfold c1. destruct c; reflexivity.
  - exact Hsc.
Qed.

(** * Several tracked edits below one section, before the merge *)
Definition noleaf (M : dict) (kp : path) : Prop :=
  forall q r, kp = q ++ r -> q <> [] -> forall x, shape_at q (Node M) <> Some (SLeaf x).

Record pinv (c0 : cfg) (kp : path) (c1 : cfg) (st1 : mstate) : Prop := mkPinv {
  pi_frame : c1 = set_tracking c0 (c_mods c1) (c_dels c1);
  pi_mods : c_mods c1 = ms_mods st1;
  pi_wfD : wf (Node (c_dels c1)) = true;
  pi_mask : forall q, masked (c_dels c1) q = masked_by (ms_dels st1) q;
  pi_clear : clear_upto (c_dels c1) kp;
  pi_noleaf : noleaf (c_mods c1) kp
}.

Lemma oracle_last q L X : oracle q (L ++ [X]) = orelse (shape_at q X) (oracle q L).
Proof. rewrite oracle_app. simpl. reflexivity. Qed.

Lemma pinv_init S envl c st fl kp d0 :
  minv S envl c st -> nav fl (c_cache c) kp = Ok d0 -> pinv c kp c st.
Proof.
  intros I Hn. constructor.
  - destruct c; reflexivity.
  - exact (mi_mods _ _ _ _ I).
  - exact (mi_wfD _ _ _ _ I).
  - exact (mi_mask _ _ _ _ I).
  - intros q r E. pose proof (nav_shapes fl kp _ _ Hn q r E) as Hq.
    rewrite (mi_view _ _ _ _ I), <- (mi_mask _ _ _ _ I) in Hq.
    destruct (masked (c_dels c) q); [discriminate | reflexivity].
  - intros q r E Hq x Hs. pose proof (nav_shapes fl kp _ _ Hn q r E) as Hv.
    rewrite (mi_view _ _ _ _ I) in Hv. destruct (masked_by (ms_dels st) q); [discriminate|].
    unfold all_levels in Hv. rewrite oracle_last, <- (mi_mods _ _ _ _ I), Hs in Hv. discriminate.
Qed.

Lemma pinv_dels_clean kp c0 c1 st1 k : pinv c0 kp c1 st1 ->
  forall d r, In d (ms_dels st1) -> r <> [] -> kp ++ [k] = d ++ r -> False.
Proof.
  intros P d r Hin Hr E.
  destruct (app_snoc_prefix d r kp k E Hr) as [r' E'].
  pose proof (pi_clear _ _ _ _ P d r' E') as Hc. rewrite (pi_mask _ _ _ _ P) in Hc.
  unfold masked_by in Hc. assert (Ht : existsb (fun d0 => is_prefix d0 d) (ms_dels st1) = true).
  { apply existsb_exists. exists d. split; [exact Hin | apply is_prefix_refl]. }
  congruence.
Qed.

Lemma pinv_write c0 kp c1 st1 k v : pinv c0 kp c1 st1 ->
  pinv c0 kp (track_set c1 kp k v) (ms_write st1 (kp ++ [k]) v).
Proof.
  intros P. pose proof P as [F EM WD HM HC HL].
  assert (Hp : kp ++ [k] <> []) by (destruct kp; discriminate).
  assert (EM' : mod_set (c_mods c1) kp k v = set_path (c_mods c1) (kp ++ [k]) v)
    by (apply mod_set_set_path; exact HL).
  assert (ETS : track_set c1 kp k v =
                set_tracking c0 (set_path (c_mods c1) (kp ++ [k]) v) (del_path (c_dels c1) (kp ++ [k]))).
  { unfold track_set. rewrite EM', excise_is_del_path. rewrite F at 1. destruct c0; reflexivity. }
  rewrite ETS.
  assert (M2 : c_mods (set_tracking c0 (set_path (c_mods c1) (kp ++ [k]) v) (del_path (c_dels c1) (kp ++ [k])))
               = set_path (c_mods c1) (kp ++ [k]) v) by (destruct c0; reflexivity).
  assert (D2 : c_dels (set_tracking c0 (set_path (c_mods c1) (kp ++ [k]) v) (del_path (c_dels c1) (kp ++ [k])))
               = del_path (c_dels c1) (kp ++ [k])) by (destruct c0; reflexivity).
  constructor; rewrite ?M2, ?D2.
  - reflexivity.
  - cbn [ms_write ms_mods]. rewrite EM. reflexivity.
  - apply wf_del_path. exact WD.
  - intros q. rewrite masked_del_path by (try assumption; apply clear_upto_above; exact HC).
    cbn [ms_write ms_dels]. rewrite masked_by_filter by (exact (pinv_dels_clean kp c0 c1 st1 k P)).
    rewrite HM. reflexivity.
  - rewrite <- excise_is_del_path. apply clear_upto_excise; assumption.
  - intros q r E Hq x. rewrite E, <- app_assoc, set_path_prefix by (destruct r; discriminate).
    discriminate.
Qed.

Lemma pinv_delete c0 kp c1 st1 k : pinv c0 kp c1 st1 ->
  pinv c0 kp (track_del c1 kp k) (ms_delete st1 (kp ++ [k])).
Proof.
  intros P. pose proof P as [F EM WD HM HC HL].
  assert (Hp : kp ++ [k] <> []) by (destruct kp; discriminate).
  assert (ETD : track_del c1 kp k =
                set_tracking c0 (c_mods c1) (set_path (c_dels c1) (kp ++ [k]) mark)).
  { unfold track_del. rewrite del_mark_set_path by (apply clear_upto_above; exact HC).
    rewrite F at 1. destruct c0; reflexivity. }
  rewrite ETD.
  assert (M2 : c_mods (set_tracking c0 (c_mods c1) (set_path (c_dels c1) (kp ++ [k]) mark)) = c_mods c1)
    by (destruct c0; reflexivity).
  assert (D2 : c_dels (set_tracking c0 (c_mods c1) (set_path (c_dels c1) (kp ++ [k]) mark))
               = set_path (c_dels c1) (kp ++ [k]) mark) by (destruct c0; reflexivity).
  constructor; rewrite ?M2, ?D2.
  - reflexivity.
  - exact EM.
  - apply wf_set_path; [exact WD | reflexivity].
  - intros q. rewrite masked_set_mark by (try assumption; apply clear_upto_above; exact HC).
    cbn [ms_delete ms_dels]. rewrite masked_by_snoc, HM. apply orb_comm.
  - apply clear_upto_mark. exact HC.
  - exact HL.
Qed.

Lemma pinv_finish S envl c st kp c1 st1 out0 :
  minv S envl c st -> pinv c kp c1 st1 -> scope_now S st1 envl = true ->
  exists d, remerge c1 out0 = (set_cache c1 d, out0) /\ minv S envl (set_cache c1 d) st1.
Proof.
  intros I P Hsc. rewrite (pi_frame _ _ _ _ P).
  apply (remerge_tracked S envl c st (c_mods c1) (c_dels c1) st1 out0 I).
  - symmetry. exact (pi_mods _ _ _ _ P).
  - exact (pi_wfD _ _ _ _ P).
  - exact (pi_mask _ _ _ _ P).
  - exact Hsc.
Qed.

Lemma pinv_frame c kp c1 st1 o : pinv c kp c1 st1 -> same_frame c (fst (remerge c1 o)).
Proof.
  intros P. destruct (remerge_frame c1 o) as [d ->]. rewrite (pi_frame _ _ _ _ P).
  apply same_frame_tracked.
Qed.

Lemma fold_writes c0 kp : forall kvs c1 st1, pinv c0 kp c1 st1 ->
  pinv c0 kp (fold_left (fun c' kv => track_set c' kp (fst kv) (snd kv)) kvs c1)
             (fold_left (fun s kv => ms_write s (kp ++ [fst kv]) (snd kv)) kvs st1).
Proof.
  induction kvs as [|[k v] kvs IH]; intros c1 st1 P; [exact P|].
  cbn [fold_left fst snd]. apply IH. apply pinv_write. exact P.
Qed.

Lemma fold_deletes c0 kp : forall ks c1 st1, pinv c0 kp c1 st1 ->
  pinv c0 kp (fold_left (fun c' k => track_del c' kp k) ks c1)
             (fold_left (fun s k => ms_delete s (kp ++ [k])) ks st1).
Proof.
  induction ks as [|k ks IH]; intros c1 st1 P; [exact P|].
  cbn [fold_left]. apply IH. apply pinv_delete. exact P.
Qed.

(** * One edit: the model against [mod_step] *)
Lemma walk_nav fl d kp : walk fl d kp = nav fl d kp.
Proof. reflexivity. Qed.

Lemma nav_get fl : forall kp d d0 k t, nav fl d kp = Ok d0 -> get k d0 = Some t ->
  shape_at (kp ++ [k]) (Node d) = Some (shape_of t).
Proof.
  induction kp as [|s kp IH]; intros d d0 k t H G.
  - inversion H; subst d0. simpl app. rewrite shape_at_cons_Node, G. apply shape_at_nil.
  - simpl in H. simpl app. rewrite shape_at_cons_Node.
    destruct (get s d) as [[x|kids]|]; try discriminate. eapply IH; eassumption.
Qed.

Lemma nav_wf fl : forall kp d d0, wf (Node d) = true -> nav fl d kp = Ok d0 -> wf (Node d0) = true.
Proof.
  induction kp as [|s kp IH]; intros d d0 W H.
  - inversion H; subst; exact W.
  - simpl in H. destruct (get s d) as [[x|kids]|] eqn:G; try discriminate.
    apply (IH kids d0); [exact (wf_get s d _ W G) | exact H].
Qed.

Lemma has_at_shape t p : has_at t p = match shape_at p t with Some _ => true | None => false end.
Proof. unfold has_at, shape_at. destruct (lookup p t); reflexivity. Qed.

Lemma finish_step S envl c st kp c1 st1 out0 :
  is_err_out out0 = false -> minv S envl c st -> pinv c kp c1 st1 ->
  same_frame c (fst (remerge c1 out0)) /\
  (scope_now S st1 envl = true ->
   is_err_out (snd (remerge c1 out0)) = false /\ minv S envl (fst (remerge c1 out0)) st1).
Proof.
  intros Ho I P. split; [eapply pinv_frame; exact P|]. intros Hsc.
  destruct (pinv_finish S envl c st kp c1 st1 out0 I P Hsc) as [d [E I']].
  rewrite E. split; [exact Ho | exact I'].
Qed.

Lemma step_merged fs c o (r : cfg * outcome) l :
  step_with (c_cache c) fs c o = merged r l -> step fs c o = r.
Proof. unfold step, merged. intros ->. destruct r; reflexivity. Qed.

Lemma step_nochange fs c o out :
  step_with (c_cache c) fs c o = (c, out, NoChange) -> step fs c o = (c, out).
Proof. unfold step. intros ->. reflexivity. Qed.

Lemma last_item_in : forall d k t, last_item d = Some (k, t) -> In k (keys d).
Proof.
  induction d as [|[k0 t0] d IH]; intros k t H; [discriminate|].
  destruct d as [|kt d'].
  - inversion H; subst. left; reflexivity.
  - right. apply (IH k t). exact H.
Qed.

Lemma last_item_some : forall d, d <> [] -> exists k t, last_item d = Some (k, t).
Proof.
  induction d as [|[k0 t0] d IH]; intros H; [congruence|].
  destruct d as [|kt d'].
  - exists k0, t0. reflexivity.
  - destruct IH as [k [t E]]; [discriminate|]. exists k, t. exact E.
Qed.

Lemma filter_unique (f : string -> bool) k : forall l, NoDup l -> In k l ->
  (forall x, In x l -> f x = String.eqb k x) -> filter f l = [k].
Proof.
  induction l as [|x l IH]; intros ND Hin Hf; [destruct Hin|].
  inversion ND as [|? ? Hnin ND']; subst. cbn [filter]. rewrite (Hf x (or_introl eq_refl)).
  destruct (String.eqb k x) eqn:E.
  - apply String.eqb_eq in E; subst x. f_equal.
    assert (Hnone : forall y, In y l -> f y = false).
    { intros y Hy. rewrite (Hf y (or_intror Hy)). apply String.eqb_neq. intros ->. contradiction. }
    clear -Hnone. induction l as [|y l IH]; [reflexivity|]. cbn [filter].
    rewrite (Hnone y (or_introl eq_refl)). apply IH. intros z Hz. apply Hnone. right; exact Hz.
  - destruct Hin as [->|Hin]; [rewrite String.eqb_refl in E; discriminate|].
    apply IH; [exact ND' | exact Hin | intros y Hy; apply Hf; right; exact Hy].
Qed.

Lemma is_prefix_snoc_snoc kp k k' : is_prefix (kp ++ [k]) (kp ++ [k']) = String.eqb k k'.
Proof.
  induction kp as [|s kp IH]; simpl.
  - rewrite andb_true_r. reflexivity.
  - rewrite String.eqb_refl. exact IH.
Qed.

Lemma scope_delete S st p envl : scope_now S (ms_delete st p) envl = scope_now S st envl.
Proof. reflexivity. Qed.

Lemma sim_step fs S envl c st o next :
  minv S envl c st ->
  (next = None \/ next = Some (Node (c_cache (fst (step fs c o))))) ->
  match mod_step st (Node (c_cache c)) next o with
  | XOut => True
  | XErr e => snd (step fs c o) = OErr e
  | XRet => next = None /\ is_err_out (snd (step fs c o)) = false
  | XOk st' => same_frame c (fst (step fs c o)) /\
               (scope_now S st' envl = true ->
                is_err_out (snd (step fs c o)) = false /\ minv S envl (fst (step fs c o)) st')
  | XBad => False
  end.
Proof.
  intros HI Hnext.
  assert (Hsame : same_frame c c /\
                  (scope_now S st envl = true -> is_err_out (OVal (Leaf VNone)) = false /\ minv S envl c st))
    by (split; [apply same_frame_refl | intros _; split; [reflexivity | exact HI]]).
  destruct o; try exact Logic.I; cbn [mod_step]; unfold nav_view; cbn [dict_of]; rewrite ?walk_nav.
  - (* SetV *)
    destruct (nav fl (c_cache c) kp) as [d0|e] eqn:Hn.
    + pose proof (pinv_init S envl c st fl kp d0 HI Hn) as P.
      assert (Es : step fs c (SetV fl kp k v) = remerge (track_set c kp k v) ONone).
      { eapply step_merged. unfold step_with. rewrite Hn.
        rewrite excise_not_blocked by (apply clear_upto_above; exact (pi_clear _ _ _ _ P)). reflexivity. }
      rewrite Es. apply (finish_step S envl c st kp); [reflexivity | exact HI | apply pinv_write; exact P].
    + unfold step, step_with. rewrite Hn. reflexivity.
  - (* Del *)
    destruct (nav fl (c_cache c) kp) as [d0|e] eqn:Hn.
    + pose proof (pinv_init S envl c st fl kp d0 HI Hn) as P. unfold has.
      destruct (get k d0) as [t|] eqn:G.
      * assert (Es : step fs c (Del fl kp k) = remerge (track_del c kp k) ONone).
        { eapply step_merged. unfold step_with. rewrite Hn, G.
          rewrite del_not_blocked by (apply clear_upto_above; exact (pi_clear _ _ _ _ P)). reflexivity. }
        rewrite Es. apply (finish_step S envl c st kp); [reflexivity | exact HI | apply pinv_delete; exact P].
      * unfold step, step_with. rewrite Hn, G. reflexivity.
    + unfold step, step_with. rewrite Hn. reflexivity.
  - (* Pop *)
    destruct (nav fl (c_cache c) kp) as [d0|e] eqn:Hn.
    + pose proof (pinv_init S envl c st fl kp d0 HI Hn) as P. unfold has.
      destruct (get k d0) as [t|] eqn:G.
      * assert (Es : step fs c (Pop fl kp k dflt) = remerge (track_del c kp k) (OVal t)).
        { eapply step_merged. unfold step_with. rewrite Hn, G.
          rewrite del_not_blocked by (apply clear_upto_above; exact (pi_clear _ _ _ _ P)). reflexivity. }
        rewrite Es. apply (finish_step S envl c st kp); [reflexivity | exact HI | apply pinv_delete; exact P].
      * destruct dflt as [dv|].
        -- assert (Es : step fs c (Pop fl kp k (Some dv)) = (c, OVal dv)).
           { apply step_nochange. unfold step_with. rewrite Hn, G. reflexivity. }
           rewrite Es. split; [apply same_frame_refl | intros _; split; [reflexivity | exact HI]].
        -- unfold step, step_with. rewrite Hn, G. reflexivity.
    + unfold step, step_with. rewrite Hn. reflexivity.
  - (* PopItem *)
    destruct (nav fl (c_cache c) kp) as [d0|e] eqn:Hn.
    + pose proof (pinv_init S envl c st fl kp d0 HI Hn) as P.
      destruct d0 as [|kt0 d0'] eqn:Ed0.
      * unfold step, step_with. rewrite Hn. reflexivity.
      * rewrite <- Ed0 in *.
        destruct (last_item_some d0) as [k [t EL]]; [rewrite Ed0; discriminate|].
        assert (Es : step fs c (PopItem fl kp) = remerge (track_del c kp k) (OPair k t)).
        { eapply step_merged. unfold step_with. rewrite Hn, EL.
          rewrite del_not_blocked by (apply clear_upto_above; exact (pi_clear _ _ _ _ P)). reflexivity. }
        rewrite Es in *.
        destruct (finish_step S envl c st kp (track_del c kp k) (ms_delete st (kp ++ [k])) (OPair k t)
                              eq_refl HI (pinv_delete _ _ _ _ k P)) as [SF Hfin].
        rewrite scope_delete in Hfin. destruct (Hfin (mi_scope _ _ _ _ HI)) as [Hne I'].
        destruct Hnext as [-> | ->]; [split; [reflexivity | exact Hne]|].
        assert (Hf : filter (fun k' => negb (has_at (Node (c_cache (fst (remerge (track_del c kp k) (OPair k t)))))
                                                    (kp ++ [k']))) (keys d0) = [k]).
        { apply filter_unique.
          - apply wf_NoDup. exact (nav_wf fl kp _ _ (mi_wfC _ _ _ _ HI) Hn).
          - exact (last_item_in d0 k t EL).
          - intros x Hx. rewrite has_at_shape, (mi_view _ _ _ _ I'). cbn [ms_delete ms_dels].
            rewrite masked_by_snoc, is_prefix_snoc_snoc.
            assert (Hold : exists s, shape_at (kp ++ [x]) (Node (c_cache c)) = Some s).
            { destruct (get x d0) as [tx|] eqn:Gx.
              - eexists. exact (nav_get fl kp _ _ x tx Hn Gx).
              - apply get_none_not_in in Gx. contradiction. }
            destruct Hold as [s Hs]. rewrite (mi_view _ _ _ _ HI) in Hs.
            destruct (masked_by (ms_dels st) (kp ++ [x])); [discriminate|]. cbn [orb].
            unfold all_levels in *. cbn [ms_delete ms_mods]. rewrite Hs.
            destruct (String.eqb k x); reflexivity. }
        rewrite Hf. split; [exact SF | intros _; split; [exact Hne | exact I']].
    + unfold step, step_with. rewrite Hn. reflexivity.
  - (* Clear *)
    destruct (nav fl (c_cache c) kp) as [d0|e] eqn:Hn.
    + pose proof (pinv_init S envl c st fl kp d0 HI Hn) as P.
      destruct (keys d0) as [|k0 ks] eqn:Ek.
      * assert (Es : step fs c (Clear fl kp) = (c, ONone)).
        { apply step_nochange. unfold step_with. rewrite Hn, Ek. reflexivity. }
        rewrite Es. cbn [fold_left]. split; [apply same_frame_refl | intros _; split; [reflexivity | exact HI]].
      * assert (Es : step fs c (Clear fl kp) =
                     remerge (fold_left (fun c' k => track_del c' kp k) (k0 :: ks) c) ONone).
        { eapply step_merged. unfold step_with. rewrite Hn, Ek.
          rewrite del_not_blocked by (apply clear_upto_above; exact (pi_clear _ _ _ _ P)). reflexivity. }
        rewrite Es. apply (finish_step S envl c st kp); [reflexivity | exact HI | apply fold_deletes; exact P].
    + unfold step, step_with. rewrite Hn. reflexivity.
  - (* SetDefault *)
    destruct (nav fl (c_cache c) kp) as [d0|e] eqn:Hn.
    + pose proof (pinv_init S envl c st fl kp d0 HI Hn) as P. unfold has.
      destruct (get k d0) as [t|] eqn:G.
      * assert (Es : step fs c (SetDefault fl kp k dflt) = (c, OVal t)).
        { apply step_nochange. unfold step_with. rewrite Hn, G. reflexivity. }
        rewrite Es. split; [apply same_frame_refl | intros _; split; [reflexivity | exact HI]].
      * assert (Es : step fs c (SetDefault fl kp k dflt) =
                     remerge (track_set c kp k (dflt_value dflt)) (OVal (dflt_value dflt))).
        { destruct dflt as [dv|]; eapply step_merged; unfold step_with; rewrite Hn, G;
            rewrite excise_not_blocked by (apply clear_upto_above; exact (pi_clear _ _ _ _ P));
            reflexivity. }
        rewrite Es. apply (finish_step S envl c st kp); [reflexivity | exact HI | apply pinv_write; exact P].
    + unfold step, step_with. rewrite Hn. reflexivity.
  - (* Update *)
    destruct (nav fl (c_cache c) kp) as [d0|e] eqn:Hn.
    + pose proof (pinv_init S envl c st fl kp d0 HI Hn) as P.
      destruct kvs as [|kv kvs'] eqn:Ekv.
      * assert (Es : step fs c (Update fl kp []) = (c, ONone)).
        { apply step_nochange. unfold step_with. rewrite Hn. reflexivity. }
        rewrite Es. cbn [fold_left]. split; [apply same_frame_refl | intros _; split; [reflexivity | exact HI]].
      * assert (Es : step fs c (Update fl kp (kv :: kvs')) =
                     remerge (fold_left (fun c' kv0 => track_set c' kp (fst kv0) (snd kv0)) (kv :: kvs') c) ONone).
        { eapply step_merged. unfold step_with. rewrite Hn.
          rewrite excise_not_blocked by (apply clear_upto_above; exact (pi_clear _ _ _ _ P)). reflexivity. }
        rewrite Es. apply (finish_step S envl c st kp); [reflexivity | exact HI | apply fold_writes; exact P].
    + unfold step, step_with. rewrite Hn. reflexivity.
  - (* Merge *)
    rewrite step_merge_eq.
    apply (finish_step S envl c st []); [reflexivity | exact HI |].
    apply (pinv_init S envl c st Item [] (c_cache c) HI). reflexivity.
Qed.

(** * The edits of a script *)
Lemma mview_of_minv S envl c st : minv S envl c st ->
  mview_ok (all_levels S st envl) (ms_dels st) (ms_unsure st) (Node (c_cache c)) = true.
Proof.
  intros HI. unfold mview_ok. rewrite (mi_wfC _ _ _ _ HI). cbn [andb].
  apply forallb_forall. intros p _. rewrite (mi_view _ _ _ _ HI), shape_eqb_refl. reflexivity.
Qed.

Definition final_of (r : result cfg) : option err :=
  match r with Ok _ => None | Err e => Some e end.

Lemma judge_ok fs S envl sfxs :
  env_part_ok "INVOKE_" S envl = true -> sfx_ok (s_sfx S) sfxs = true ->
  forall mods c st, minv S envl c st -> [c_sys_sfx c; c_user_sfx c; c_proj_sfx c] = sfxs ->
  judge_mods "INVOKE_" S st (snap_of c) mods (map snap_of (run_states fs c mods))
             (final_of (exec fs c mods)) = true.
Proof.
  intros He Hs. induction mods as [|o rest IH]; intros c st HI Hsf; [reflexivity|].
  cbn [judge_mods]. unfold snap_of at 1. cbn [run_states exec].
  destruct (step fs c o) as [c' out] eqn:Es.
  assert (Hret : is_err_out out = false ->
    match mod_step st (Node (c_cache c)) (Some (Node (c_cache c'))) o with
    | XOut => true
    | XOk st' =>
        if negb (env_part_ok "INVOKE_" S (c_env c')) then false
        else if negb (scope_now S st' (c_env c')) then true
             else snap_ok "INVOKE_" S st' (snap_of c') &&
                  judge_mods "INVOKE_" S st' (snap_of c') rest (map snap_of (run_states fs c' rest))
                             (final_of (exec fs c' rest))
    | _ => false
    end = true).
  { intros Hne.
    pose proof (sim_step fs S envl c st o (Some (Node (c_cache c'))) HI) as H.
    rewrite Es in H. cbn [fst snd] in H. specialize (H (or_intror eq_refl)).
    destruct (mod_step st (Node (c_cache c)) (Some (Node (c_cache c'))) o) as [|e| |st'|].
    - reflexivity.
    - rewrite H in Hne. discriminate.
    - destruct H as [H _]. discriminate.
    - destruct H as [[SFe SFs] Hfin]. rewrite SFe, (mi_env _ _ _ _ HI), He. cbn [negb].
      destruct (scope_now S st' envl) eqn:Esc; [|reflexivity]. cbn [negb].
      destruct (Hfin eq_refl) as [_ HI'].
      apply andb_true_iff. split.
      + unfold snap_ok, snap_of. rewrite (mi_env _ _ _ _ HI'), He, SFs, Hsf, Hs. cbn [andb].
        apply mview_of_minv. exact HI'.
      + apply IH; [exact HI' | rewrite SFs; exact Hsf].
    - contradiction. }
  destruct out as [| t | k t | b | n | l | e];
    try (cbn [map]; unfold snap_of at 1; apply Hret; reflexivity).
  cbn [map final_of].
  pose proof (sim_step fs S envl c st o None HI (or_introl eq_refl)) as H.
  rewrite Es in H. cbn [fst snd] in H.
  destruct (mod_step st (Node (c_cache c)) None o) as [|e'| |st'|].
  - reflexivity.
  - inversion H; subst. apply err_eqb_eq. reflexivity.
  - destruct H as [_ H]. discriminate.
  - destruct H as [_ Hfin]. rewrite (mi_env _ _ _ _ HI).
    destruct (scope_now S st' envl) eqn:Esc; [|reflexivity].
    destruct (Hfin eq_refl) as [H _]. discriminate.
  - contradiction.
Qed.

(** * The state the edits start from: after a settled load script *)
Lemma model_levels_set_cache c d : model_levels (set_cache c d) = model_levels c.
Proof. destruct c; reflexivity. Qed.

Lemma loads_end fs i c0 loads c :
  start fs i = Ok c0 -> exec fs c0 loads = Ok c -> wf_script loads = true ->
  tc_ok (supplied_of fs i loads) = true ->
  firstn 8 (model_levels c) = levels9 (supplied_of fs i loads) (c_env c) /\
  c_mods c = [] /\ c_dels c = [] /\ cache_ok c.
Proof.
  intros Hs H Hw Htc. unfold wf_script in Hw. apply andb_true_iff in Hw as [Hwo Hset].
  destruct (wf_order_shape loads Hwo) as [HF | [body [env [E HF]]]].
  - pose proof (reach_state fs i c0 loads c Hs HF H) as Hat.
    destruct (at_state_levels fs i loads c Hat) as [Hml [_ [_ [_ [He [Hdl _]]]]]]. cbv zeta in Hml.
    destruct (start_ok_facts fs i c0 Hs) as [_ [_ [Hc0 [Hp0 Hr0]]]].
    pose proof (settled_cache fs c0 loads c Hc0 Hp0 Hr0 HF Hset H) as Hck.
    split; [|split; [|split; [exact Hdl | exact Hck]]].
    + rewrite Hml, He. reflexivity.
    + apply (f_equal (fun l => nth 8 l (Leaf VNone))) in Hml. cbn in Hml. inversion Hml. reflexivity.
  - subst loads. rewrite exec_app in H. destruct (exec fs c0 body) as [cb|] eqn:Eb; [|discriminate].
    pose proof (reach_state fs i c0 body cb Hs HF Eb) as Hat.
    destruct (supplied_env_snoc fs i body env) as [Q1 [Q2 _]]. cbv zeta in Q1, Q2.
    assert (Qtc : tc_ok (supplied_of fs i (body ++ [LoadShellEnv env])) = tc_ok (supplied_of fs i body))
      by (unfold tc_ok, levels8; rewrite Q1, Q2; reflexivity).
    rewrite Qtc in Htc.
    destruct (at_state_levels fs i body cb Hat) as [Hml [_ [_ [_ [He [Hdl _]]]]]]. cbv zeta in Hml.
    destruct (at_state_merge fs i body cb Hat Htc) as [d0 [Em _]].
    cbn [exec] in H. rewrite step_env_eq, (set_env_same cb _ He) in H.
    unfold remerge at 1 in H. rewrite Em in H.
    destruct (load (Node (c_cache (set_cache cb d0))) (c_env_prefix (set_cache cb d0)) env) as [d|e];
      [|discriminate].
    unfold remerge in H. destruct (merge (set_env (set_cache cb d0) (Node d))) as [d1|e] eqn:Em1;
      [|discriminate].
    inversion H; subst c. clear H.
    split; [|split; [|split]].
    + rewrite model_levels_set_cache, model_levels_set_env, Hml.
      unfold levels9. rewrite Q1, Q2. destruct cb; reflexivity.
    + replace (c_mods (set_cache (set_env (set_cache cb d0) (Node d)) d1)) with (c_mods cb)
        by (destruct cb; reflexivity).
      apply (f_equal (fun l => nth 8 l (Leaf VNone))) in Hml. cbn in Hml. inversion Hml. reflexivity.
    + replace (c_dels (set_cache (set_env (set_cache cb d0) (Node d)) d1)) with (c_dels cb)
        by (destruct cb; reflexivity).
      exact Hdl.
    + unfold cache_ok. rewrite merge_set_cache, Em1. destruct cb; reflexivity.
Qed.

Lemma loads_end_checks fs i c0 loads c :
  start fs i = Ok c0 -> exec fs c0 loads = Ok c -> wf_script loads = true ->
  tc_ok (supplied_of fs i loads) = true -> s_unreadable (supplied_of fs i loads) = false ->
  env_part_ok "INVOKE_" (supplied_of fs i loads) (c_env c) = true /\
  sfx_ok (s_sfx (supplied_of fs i loads)) [c_sys_sfx c; c_user_sfx c; c_proj_sfx c] = true.
Proof.
  intros Hs H Hw Htc Hun. pose proof (prefix_ok fs i c0 loads c Hs H) as Hp.
  rewrite spec_ok_unfold, Hw in Hp. cbn [negb] in Hp. cbv zeta in Hp. rewrite Htc, Hun in Hp.
  cbn [negb] in Hp. unfold snap_of in Hp.
  apply andb_true_iff in Hp as [Hp _]. apply andb_true_iff in Hp as [Hp1 Hp2].
  split; [exact Hp1 | exact Hp2].
Qed.

(** The invariant holds where the edits start. *)
Lemma start_minv fs i c0 loads c :
  start fs i = Ok c0 -> exec fs c0 loads = Ok c -> wf_script loads = true ->
  tc_ok (supplied_of fs i loads) = true ->
  scope_now (supplied_of fs i loads) ms0 (c_env c) = true ->
  minv (supplied_of fs i loads) (c_env c) c ms0.
Proof.
  intros Hs H Hw Htc Hsc.
  destruct (loads_end fs i c0 loads c Hs H Hw Htc) as [HL [HM [HD HC]]].
  destruct (scope_parts _ _ _ Hsc) as [T1 [T2 T3]]. unfold all_levels in T1, T2, T3. cbn [ms0 ms_mods] in T1, T2, T3.
  assert (WD : wf (Node (c_dels c)) = true) by (rewrite HD; reflexivity).
  destruct (merge_masked c (levels9 (supplied_of fs i loads) (c_env c)) HL WD) as [d [Em [Wd Sd]]];
    try (rewrite HM; assumption).
  unfold cache_ok in HC. rewrite HC in Em. inversion Em; subst d.
  constructor; try assumption; try reflexivity.
  - rewrite HD. intros q. apply masked_nil.
  - intros q. rewrite Sd, HD, masked_nil, HM. reflexivity.
Qed.

Lemma enter_ok fs i c0 loads c mods :
  start fs i = Ok c0 -> exec fs c0 loads = Ok c ->
  enter_mods fs i "INVOKE_" loads (snap_of c) mods (map snap_of (run_states fs c mods))
             (final_of (exec fs c mods)) = true.
Proof.
  intros Hs H. unfold enter_mods, enter_with.
  destruct (wf_script loads) eqn:Hw; [|reflexivity]. cbn [negb]. cbv zeta.
  change (levels_tc (levels8 (supplied_of fs i loads)) && forallb wf (levels8 (supplied_of fs i loads)))
    with (tc_ok (supplied_of fs i loads)).
  destruct (tc_ok (supplied_of fs i loads)) eqn:Htc; [|reflexivity]. cbn [negb].
  destruct (s_unreadable (supplied_of fs i loads)) eqn:Hun; [reflexivity|].
  unfold snap_of at 1.
  destruct (scope_now (supplied_of fs i loads) ms0 (c_env c)) eqn:Hsc; [|reflexivity]. cbn [negb].
  destruct (loads_end_checks fs i c0 loads c Hs H Hw Htc Hun) as [He Hsx].
  change (Node (c_cache c), c_env c, [c_sys_sfx c; c_user_sfx c; c_proj_sfx c]) with (snap_of c).
  apply (judge_ok fs (supplied_of fs i loads) (c_env c) [c_sys_sfx c; c_user_sfx c; c_proj_sfx c] He Hsx);
    [|reflexivity].
  apply (start_minv fs i c0 loads c Hs H Hw Htc Hsc).
Qed.

(** * Walking to the first edit *)
Lemma find_ok fs i c0 : start fs i = Ok c0 -> forall rest done c prev final,
  exec fs c0 done = Ok c -> (prev = None \/ prev = Some (snap_of c)) ->
  final = final_of (exec fs c rest) ->
  find_mods true (fun loads pv mods ms => enter_mods fs i "INVOKE_" loads pv mods ms final)
            done rest prev (map snap_of (run_states fs c rest)) = true.
Proof.
  intros Hs. induction rest as [|o rest IH]; intros done c prev final H Hp Hf; [reflexivity|].
  cbn [find_mods]. destruct (is_mod_op o) eqn:Eo.
  - destruct Hp as [->| ->]; [reflexivity|]. rewrite Hf. apply (enter_ok fs i c0 done c (o :: rest) Hs H).
  - cbn [run_states exec] in *. destruct (step fs c o) as [c' out] eqn:Es.
    assert (Hgo : is_err_out out = false -> exec fs c0 (done ++ [o]) = Ok c').
    { intros Hne. rewrite exec_app, H. cbn [exec]. rewrite Es. destruct out; try reflexivity; discriminate. }
    destruct out; try reflexivity;
      (cbn [map]; apply IH; [apply Hgo; reflexivity | right; reflexivity | exact Hf]).
Qed.

Lemma find_no_mids K : forall ops done, find_mods true K done ops None [] = true.
Proof.
  intros ops done. destruct ops as [|o r]; [reflexivity|]. cbn [find_mods]. destruct (is_mod_op o); reflexivity.
Qed.

(** * Assembly *)
Theorem mods_meet_spec fs i ops c0 :
  start fs i = Ok c0 -> spec_mods (model_case fs i ops) = true.
Proof.
  intros Hs. unfold spec_mods, model_case, spec_mods_ok. cbn [c_fs c_init c_ops c_obs c_mids].
  rewrite model_out_exec, Hs. unfold model_mids. cbn [c_fs c_init c_ops]. rewrite Hs.
  apply (find_ok fs i c0 Hs ops [] c0 None); [reflexivity | left; reflexivity|].
  destruct (exec fs c0 ops); reflexivity.
Qed.

Theorem whole_script_with_edits_meets_spec fs i ops c0 :
  start fs i = Ok c0 -> spec (model_case fs i ops) = true.
Proof.
  intros Hs. unfold spec. rewrite (whole_script_meets_spec fs i ops c0 Hs), (mods_meet_spec fs i ops c0 Hs).
  reflexivity.
Qed.

Theorem constructor_io_failure_any_script_edits fs i ops e :
  exec fs (b0 i) (init_ops i) = Err e -> spec (model_case fs i ops) = true.
Proof.
  intros E. unfold spec. rewrite (constructor_io_failure_any_script fs i ops e E). cbn [andb].
  assert (Hs : start fs i = Err e) by (rewrite start_eq, E; reflexivity).
  unfold spec_mods, model_case, spec_mods_ok, model_mids. cbn [c_fs c_init c_ops c_obs c_mids].
  rewrite Hs. apply find_no_mids.
Qed.

(** * Readable corollaries *)
(** After a clean run of a settled, in-scope load script followed by edits that
    stay inside the quantifier, the view shows at every path nothing where a
    deletion in force covers it, else the oracle's answer over the ten levels. *)
Theorem edited_view_is_oracle S envl c st : minv S envl c st ->
  forall q, shape_at q (Node (c_cache c)) =
            if masked_by (ms_dels st) q then None else oracle q (all_levels S st envl).
Proof. intros HI. exact (mi_view _ _ _ _ HI). Qed.

(** What the modifications level defines and no deletion covers is visible
    with the value it gives. *)
Theorem modifications_visible S envl c st q s : minv S envl c st ->
  shape_at q (Node (ms_mods st)) = Some s -> masked_by (ms_dels st) q = false ->
  shape_at q (Node (c_cache c)) = Some s.
Proof.
  intros HI Hs Hm. rewrite (mi_view _ _ _ _ HI), Hm. unfold all_levels. rewrite oracle_last, Hs. reflexivity.
Qed.
