(** C03: what a script of load / re-pointing calls does to the level fields,
    as a fold of pure updates; and what that fold amounts to in closed form
    (the level contents the specification reads off the script). *)
From InvokeVerif Require Import Common.Tree Common.StrUtil Model.MergeModel Model.ConfigModel
     Spec.C03Spec Proofs.C03_order.

Local Opaque try_suffixes mem.

(** * One call, cache aside *)
Definition pure_step (fs : fsys) (c : cfg) (o : op) : cfg :=
  match o with
  | SetProjectLocation loc => set_project (set_proj_loc c loc) (Node []) FNone None
  | SetRuntimePath p => set_runtime (set_rt_path c p) (Node []) FNone
  | _ => load_pure fs c o
  end.

Definition script_op (o : op) : bool := is_load_op o || is_set_op o.

Lemma pure_step_cache fs c d o : pure_step fs (set_cache c d) o = set_cache (pure_step fs c o) d.
Proof.
  destruct o; try apply load_pure_cache; destruct c; reflexivity.
Qed.

Lemma step_script_strip fs c o :
  script_op o = true -> strip (fst (step fs c o)) = strip (pure_step fs c o).
Proof.
  intros H. unfold script_op in H. destruct (is_set_op o) eqn:Es.
  - destruct o; try discriminate; reflexivity.
  - rewrite orb_false_r in H. rewrite (step_load_strip fs c o H).
    destruct o; try reflexivity; discriminate.
Qed.

Definition apply_script (fs : fsys) (c : cfg) (ops : list op) : cfg :=
  fold_left (pure_step fs) ops c.

Lemma apply_script_app fs c a b : apply_script fs c (a ++ b) = apply_script fs (apply_script fs c a) b.
Proof. unfold apply_script. apply fold_left_app. Qed.

(** A clean run of a script leaves exactly the fold, cache aside. *)
Lemma run_script fs ops : forall c,
  forallb script_op ops = true -> clean (snd (run fs c ops)) = true ->
  strip (fst (run fs c ops)) = apply_script fs (strip c) ops.
Proof.
  induction ops as [|o rest IH]; intros c HF Hclean; [reflexivity|].
  simpl in HF. apply andb_true_iff in HF as [Ho HF'].
  simpl in *. destruct (step fs c o) as [c' out] eqn:Es.
  destruct (abnormal out) eqn:Ea.
  - simpl in Hclean. apply abnormal_is_err in Ea. rewrite Ea in Hclean. discriminate.
  - destruct (run fs c' rest) as [c'' tr] eqn:Er. simpl in *.
    apply andb_true_iff in Hclean as [Hout Htr].
    specialize (IH c' HF'). rewrite Er in IH. simpl in IH. rewrite (IH Htr).
    unfold apply_script. simpl. f_equal.
    pose proof (step_script_strip fs c o Ho) as H. rewrite Es in H. simpl in H.
    rewrite H. unfold strip. rewrite pure_step_cache. reflexivity.
Qed.

(** * The level fields after one call *)
Definition triple := (found * tree * option string)%type.

Definition located_next (fs : fsys) (t : triple) (loc : option string) : triple :=
  let '(f, d, s) := t in
  match located_upd fs f loc d with
  | Some (d', f', s') => (f', d', s')
  | None => t
  end.

Definition rt_next (fs : fsys) (t : found * tree) (p : option (string * string)) : found * tree :=
  match runtime_upd fs (fst t) p with
  | Some (d', f', _) => (f', d')
  | None => t
  end.

Definition sys3 (c : cfg) : triple := (c_sys_found c, c_system c, c_sys_sfx c).
Definition usr3 (c : cfg) : triple := (c_user_found c, c_user c, c_user_sfx c).
Definition prj3 (c : cfg) : triple := (c_proj_found c, c_project c, c_proj_sfx c).
Definition rt2 (c : cfg) : found * tree := (c_rt_found c, c_runtime c).

Definition blank3 : triple := (FNone, Node [], None).

Lemma pure_step_fields fs c o : script_op o = true ->
  let c' := pure_step fs c o in
  c_defaults c' = match undefer o with LoadDefaults t => t | _ => c_defaults c end /\
  c_overrides c' = match undefer o with LoadOverrides t => t | _ => c_overrides c end /\
  c_collection c' = match undefer o with LoadCollection t => t | _ => c_collection c end /\
  c_env c' = c_env c /\ c_mods c' = c_mods c /\ c_dels c' = c_dels c /\
  c_sys_loc c' = c_sys_loc c /\ c_user_loc c' = c_user_loc c /\ c_env_prefix c' = c_env_prefix c /\
  c_proj_loc c' = match o with SetProjectLocation l => l | _ => c_proj_loc c end /\
  c_rt_path c' = match o with SetRuntimePath p => p | _ => c_rt_path c end /\
  sys3 c' = match undefer o with LoadSystem => located_next fs (sys3 c) (c_sys_loc c) | _ => sys3 c end /\
  usr3 c' = match undefer o with LoadUser => located_next fs (usr3 c) (c_user_loc c) | _ => usr3 c end /\
  prj3 c' = match undefer o with
            | LoadProject => located_next fs (prj3 c) (c_proj_loc c)
            | SetProjectLocation _ => blank3
            | _ => prj3 c
            end /\
  rt2 c' = match undefer o with
           | LoadRuntime => rt_next fs (rt2 c) (c_rt_path c)
           | SetRuntimePath _ => (FNone, Node [])
           | _ => rt2 c
           end.
Proof.
  intros H. destruct o; try discriminate; destruct c; cbv zeta;
    unfold pure_step, load_pure, guard, setter, sys3, usr3, prj3, rt2, located_next, rt_next, blank3;
    simpl;
    repeat match goal with
           | |- context [match located_upd ?a ?b ?c ?d with _ => _ end] => destruct (located_upd a b c d) as [[[? ?] ?]|]
           | |- context [match runtime_upd ?a ?b ?c with _ => _ end] => destruct (runtime_upd a b c) as [[[? ?] ?]|]
           end;
    simpl; repeat split; reflexivity.
Qed.

(** * Closed forms of the fold *)
Definition fD (o : op) : option tree := match o with LoadDefaults t => Some t | _ => None end.
Definition fO (o : op) : option tree := match o with LoadOverrides t => Some t | _ => None end.
Definition fC (o : op) : option tree := match o with LoadCollection t => Some t | _ => None end.
Definition fP (o : op) : option (option string) := match o with SetProjectLocation l => Some l | _ => None end.
Definition fR (o : op) : option (option (string * string)) := match o with SetRuntimePath p => Some p | _ => None end.
Definition isSys (o : op) : bool := match o with LoadSystem => true | _ => false end.
Definition isUsr (o : op) : bool := match o with LoadUser => true | _ => false end.
Definition isPrj (o : op) : bool := match o with LoadProject => true | _ => false end.
Definition isRt (o : op) : bool := match o with LoadRuntime => true | _ => false end.
Definition isSetP (o : op) : bool := match o with SetProjectLocation _ => true | _ => false end.
Definition isSetR (o : op) : bool := match o with SetRuntimePath _ => true | _ => false end.

Lemma last_of_cons {A} (f : op -> option A) o l d :
  last_of f (o :: l) d = last_of f l (match f o with Some a => a | None => d end).
Proof. reflexivity. Qed.

Lemma script_op_undefer o : script_op o = true -> script_op (undefer o) = true.
Proof. destruct o; simpl; auto. Qed.

Ltac fields fs c o Ho :=
  let H := fresh "HF" in
  pose proof (pure_step_fields fs c o Ho) as H; cbv zeta in H;
  destruct H as [?Hd [?Ho [?Hc [?He [?Hm [?Hdl [?Hsl [?Hul [?Hpf [?Hpl [?Hrp [?Hs3 [?Hu3 [?Hp3 ?Hr2]]]]]]]]]]]]]].

Lemma fold_simple fs : forall ops c, forallb script_op ops = true ->
  let c' := apply_script fs c ops in
  c_defaults c' = last_of fD (map undefer ops) (c_defaults c) /\
  c_overrides c' = last_of fO (map undefer ops) (c_overrides c) /\
  c_collection c' = last_of fC (map undefer ops) (c_collection c) /\
  c_proj_loc c' = last_of fP (map undefer ops) (c_proj_loc c) /\
  c_rt_path c' = last_of fR (map undefer ops) (c_rt_path c) /\
  c_env c' = c_env c /\ c_mods c' = c_mods c /\ c_dels c' = c_dels c /\
  c_sys_loc c' = c_sys_loc c /\ c_user_loc c' = c_user_loc c /\ c_env_prefix c' = c_env_prefix c.
Proof.
  induction ops as [|o rest IH]; intros c H; [cbv zeta; simpl; repeat split; reflexivity|].
  simpl in H. apply andb_true_iff in H as [Ho Hr]. fields fs c o Ho.
  specialize (IH (pure_step fs c o) Hr). cbv zeta in IH.
  destruct IH as [I1 [I2 [I3 [I4 [I5 [I6 [I7 [I8 [I9 [I10 I11]]]]]]]]]].
  cbv zeta. unfold apply_script in *. cbn [fold_left map]. rewrite !last_of_cons.
  rewrite I1, I2, I3, I4, I5, I6, I7, I8, I9, I10, I11, Hd, Ho0, Hc, He, Hm, Hdl, Hsl, Hul, Hpf, Hpl, Hrp.
  repeat split; try reflexivity; destruct o; try reflexivity; discriminate.
Qed.

Lemma located_next_idem fs t loc : located_next fs (located_next fs t loc) loc = located_next fs t loc.
Proof.
  destruct t as [[f d] s]. unfold located_next, located_upd.
  destruct f; try reflexivity. destruct loc as [l|]; try reflexivity.
  destruct (try_suffixes fs l file_suffixes); reflexivity.
Qed.

Lemma rt_next_idem fs t p : rt_next fs (rt_next fs t p) p = rt_next fs t p.
Proof.
  destruct t as [f d]. unfold rt_next, runtime_upd. simpl.
  destruct f; try reflexivity. destruct p as [[stem sfx]|]; try reflexivity.
  destruct (negb (mem sfx file_suffixes)); try reflexivity.
  destruct (fs_get fs stem sfx) as [[t|]|]; try reflexivity.
  destruct (String.eqb sfx "py"); reflexivity.
Qed.

(** system / user: the location never changes *)
Lemma fold_sys fs : forall ops c, forallb script_op ops = true ->
  sys3 (apply_script fs c ops) =
  if existsb isSys (map undefer ops) then located_next fs (sys3 c) (c_sys_loc c) else sys3 c.
Proof.
  induction ops as [|o rest IH]; intros c H; [reflexivity|].
  simpl in H. apply andb_true_iff in H as [Ho Hr]. fields fs c o Ho.
  unfold apply_script in *. cbn [fold_left map existsb]. rewrite (IH _ Hr), Hs3, Hsl.
  destruct (undefer o) eqn:Eu; cbn [isSys orb]; try reflexivity.
  rewrite located_next_idem. destruct (existsb isSys (map undefer rest)); reflexivity.
Qed.

Lemma fold_usr fs : forall ops c, forallb script_op ops = true ->
  usr3 (apply_script fs c ops) =
  if existsb isUsr (map undefer ops) then located_next fs (usr3 c) (c_user_loc c) else usr3 c.
Proof.
  induction ops as [|o rest IH]; intros c H; [reflexivity|].
  simpl in H. apply andb_true_iff in H as [Ho Hr]. fields fs c o Ho.
  unfold apply_script in *. cbn [fold_left map existsb]. rewrite (IH _ Hr), Hu3, Hul.
  destruct (undefer o) eqn:Eu; cbn [isUsr orb]; try reflexivity.
  rewrite located_next_idem. destruct (existsb isUsr (map undefer rest)); reflexivity.
Qed.

Lemma after_last_none f ops : existsb f ops = false -> after_last f ops = ops.
Proof.
  induction ops as [|o rest IH]; [reflexivity|]. simpl. intros H.
  apply orb_false_iff in H as [Ho Hr]. rewrite Hr, Ho. reflexivity.
Qed.

Lemma last_of_fP_none ops d : existsb isSetP ops = false -> last_of fP ops d = d.
Proof.
  revert d. induction ops as [|o rest IH]; intros d H; [reflexivity|].
  simpl in H. apply orb_false_iff in H as [Ho Hr]. rewrite last_of_cons, (IH _ Hr).
  destruct o; try reflexivity; discriminate.
Qed.

Lemma last_of_fR_none ops d : existsb isSetR ops = false -> last_of fR ops d = d.
Proof.
  revert d. induction ops as [|o rest IH]; intros d H; [reflexivity|].
  simpl in H. apply orb_false_iff in H as [Ho Hr]. rewrite last_of_cons, (IH _ Hr).
  destruct o; try reflexivity; discriminate.
Qed.

(** project: re-pointing empties the level and forgets earlier loads *)
Definition prj_closed (fs : fsys) (c : cfg) (uops : list op) : triple :=
  let base := if existsb isSetP uops then blank3 else prj3 c in
  if existsb isPrj (after_last isSetP uops)
  then located_next fs base (last_of fP uops (c_proj_loc c))
  else base.

Lemma fold_prj fs : forall ops c, forallb script_op ops = true ->
  prj3 (apply_script fs c ops) = prj_closed fs c (map undefer ops).
Proof.
  induction ops as [|o rest IH]; intros c H; [reflexivity|].
  simpl in H. apply andb_true_iff in H as [Ho Hr]. fields fs c o Ho.
  unfold apply_script in *. cbn [fold_left map]. rewrite (IH _ Hr).
  unfold prj_closed. cbn [existsb after_last]. rewrite last_of_cons, Hp3, Hpl.
  set (ur := map undefer rest).
  destruct (existsb isSetP ur) eqn:Es.
  - (* a later re-pointing decides everything *)
    rewrite orb_true_r. destruct o; try discriminate; reflexivity.
  - rewrite (after_last_none isSetP ur Es), orb_false_r.
    destruct o; try discriminate; cbn [undefer isSetP isPrj fP existsb orb];
      rewrite ?(last_of_fP_none ur _ Es); try reflexivity.
    + (* LoadProject *)
      rewrite located_next_idem. destruct (existsb isPrj ur); reflexivity.
    + (* LoadProjectD *)
      rewrite located_next_idem. destruct (existsb isPrj ur); reflexivity.
Qed.

Definition rt_closed (fs : fsys) (c : cfg) (uops : list op) : found * tree :=
  let base := if existsb isSetR uops then (FNone, Node []) else rt2 c in
  if existsb isRt (after_last isSetR uops)
  then rt_next fs base (last_of fR uops (c_rt_path c))
  else base.

Lemma fold_rt fs : forall ops c, forallb script_op ops = true ->
  rt2 (apply_script fs c ops) = rt_closed fs c (map undefer ops).
Proof.
  induction ops as [|o rest IH]; intros c H; [reflexivity|].
  simpl in H. apply andb_true_iff in H as [Ho Hr]. fields fs c o Ho.
  unfold apply_script in *. cbn [fold_left map]. rewrite (IH _ Hr).
  unfold rt_closed. cbn [existsb after_last]. rewrite last_of_cons, Hr2, Hrp.
  set (ur := map undefer rest).
  destruct (existsb isSetR ur) eqn:Es.
  - rewrite orb_true_r. destruct o; try discriminate; reflexivity.
  - rewrite (after_last_none isSetR ur Es), orb_false_r.
    destruct o; try discriminate; cbn [undefer isSetR isRt fR existsb orb];
      rewrite ?(last_of_fR_none ur _ Es); try reflexivity.
    + rewrite rt_next_idem. destruct (existsb isRt ur); reflexivity.
    + rewrite rt_next_idem. destruct (existsb isRt ur); reflexivity.
Qed.
