(** C01, wide instance, clusters: one token "-abc" of short booleans and
    stacked counters, optionally ending in a (non-optional) value flag whose
    value is the next token.  The cluster parses like its members written
    separately ([cluster_unfold]); the members are then handled one by one
    with [one_steps] / [one_vals]. *)
From InvokeVerif Require Import Model.ParserModel Corr.C01Corr Proofs.ListFacts Proofs.C07_fuel
     Proofs.C01_steps Proofs.C01_tokens Proofs.C01_lookup Proofs.C01_occ Proofs.C01_roundtrip
     Proofs.C01_final
     Proofs.C01_form_glued Proofs.C01_form_counter Proofs.C01_form_cluster
     Proofs.C01_occ_nm Proofs.C01_inv Proofs.C01_wide Proofs.C01_wide_vals.
From Coq Require Import Lia.

(** ** strings and their letters *)
Notation las := list_ascii_of_string.

Lemma las_app a b : las (a ++ b) = las a ++ las b.
Proof. induction a as [|c a IH]; simpl; [reflexivity | now rewrite IH]. Qed.

Lemma las_concat ls : las (String.concat "" ls) = flat_map las ls.
Proof.
  induction ls as [|x [|y ls] IH]; [reflexivity | simpl; now rewrite app_nil_r |].
  change (String.concat "" (x :: y :: ls)) with (x ++ "" ++ String.concat "" (y :: ls))%string.
  rewrite las_app. cbn [append]. rewrite IH. reflexivity.
Qed.

Lemma las_repeat_str c n : las (repeat_str (String c EmptyString) n) = repeat c n.
Proof. induction n as [|n IH]; [reflexivity|]. cbn. now rewrite IH. Qed.

Lemma las_cons s ch tl : las s = ch :: tl -> exists rest, s = String ch rest /\ las rest = tl.
Proof. destruct s as [|c s]; simpl; [discriminate|]. intros [= -> <-]. eauto. Qed.

Lemma contains_of_las a s : forallb (fun c => negb (Ascii.eqb c a)) (las s) = true -> contains_char a s = false.
Proof.
  induction s as [|c s IH]; simpl; [reflexivity|]. intros H. apply andb_true_iff in H.
  destruct H as [H1 H2]. apply negb_true_iff in H1. now rewrite H1, IH.
Qed.

Lemma map_repeat' {A B} (f : A -> B) x n : map f (repeat x n) = repeat (f x) n.
Proof. induction n as [|n IH]; simpl; [reflexivity | now rewrite IH]. Qed.

Lemma dash_each_las s : dash_each s = map short_of (las s).
Proof. reflexivity. Qed.

(** ** members *)

(** the member written on its own: a stacked counter becomes a repeated one *)
Definition sep (o : occ) : occ :=
  match o_form o with
  | FStack => mkOcc (o_arg o) (o_name o) FRep (o_val o)
  | _ => o
  end.

Lemma run_occ_ext args o o' : o_arg o = o_arg o' -> o_val o = o_val o' -> run_occ args o = run_occ args o'.
Proof. intros A V. unfold run_occ, occ_input. now rewrite A, V. Qed.

Lemma iter_occ_ext o o' : o_arg o = o_arg o' -> o_val o = o_val o' ->
  forall n args, iter_occ n args o = iter_occ n args o'.
Proof.
  intros A V. induction n as [|n IH]; intros args; [reflexivity|]. cbn [iter_occ].
  now rewrite (run_occ_ext args o o' A V), IH.
Qed.

Lemma run_one_sep args o : run_one args (sep o) = run_one args o.
Proof.
  unfold sep. destruct (o_form o); try reflexivity.
  unfold run_one. cbn [o_val]. destruct (o_val o) eqn:V;
    first [apply iter_occ_ext | apply run_occ_ext]; cbn [o_arg o_val]; auto.
Qed.

Lemma one_given_sep given o : one_given given (sep o) = one_given given o.
Proof.
  unfold sep. destruct (o_form o) eqn:F; try reflexivity.
  unfold one_given. cbn [o_val o_form]. rewrite F. destruct (o_val o); reflexivity.
Qed.

Definition member_letter (c : ctxspec) (o : occ) : option ascii :=
  match nth_error (cx_args c) (o_arg o) with
  | Some a => match flag_of a (o_name o) with
              | String c0 (String ch EmptyString) => if Ascii.eqb c0 "-" then Some ch else None
              | _ => None
              end
  | None => None
  end.

Definition member_chars (c : ctxspec) (o : occ) : list ascii :=
  match member_letter c o with
  | Some ch => match o_form o with FStack => repeat ch (count_of (o_val o)) | _ => [ch] end
  | None => []
  end.

(** a cluster member: short name; a boolean, a stacked counter or a
    (non-optional) value flag given as "next token" *)
Definition member_ok (cs : list ctxspec) (c : ctxspec) (given : list nat) (o : occ) : bool :=
  (occ_simple c given o || occ_counter c o)
  && match member_letter c o with Some _ => true | None => false end
  && match o_form o, o_val o with
     | FBare, VB true | FStack, VN _ | FNext, VS _ => true
     | _, _ => false
     end.

Fixpoint members_ok (cs : list ctxspec) (c : ctxspec) (given : list nat) (l : list occ) : bool :=
  match l with
  | [] => true
  | o :: l' =>
      member_ok cs c given o
      && (match l' with [] => true | _ => negb (oform_eqb (o_form o) FNext) end)
      && members_ok cs c (one_given given o) l'
  end.

Definition cluster_ok_w (cs : list ctxspec) (c : ctxspec) (given : list nat) (l : list occ) : bool :=
  Nat.leb 2 (List.length l) && members_ok cs c given l.

Lemma member_letter_flag c o ch :
  member_letter c o = Some ch ->
  exists a, nth_error (cx_args c) (o_arg o) = Some a /\ flag_of a (o_name o) = short_of ch.
Proof.
  unfold member_letter. destruct (nth_error (cx_args c) (o_arg o)) as [a|]; [|discriminate].
  destruct (flag_of a (o_name o)) as [|c0 [|c1 [|c2 s]]] eqn:E; try discriminate.
  destruct (Ascii.eqb c0 "-") eqn:E0; [|discriminate].
  apply Ascii.eqb_eq in E0. subst c0. intros [= <-]. exists a. auto.
Qed.

(** tokens and letters of a member *)
Lemma member_tokens cs c given o :
  member_ok cs c given o = true ->
  spell_occ c (sep o) = map short_of (member_chars c o) ++ cluster_tail o /\
  las (cluster_letters c o) = member_chars c o /\
  member_chars c o <> [].
Proof.
  unfold member_ok. rewrite !andb_true_iff. intros [[Ok Hl] Hf].
  destruct (member_letter c o) as [ch|] eqn:Ml; [|discriminate].
  destruct (member_letter_flag c o ch Ml) as [a [Na Fl]].
  unfold member_chars, cluster_letters, cluster_tail, spell_occ, sep. rewrite Ml.
  destruct (o_form o) eqn:Fo; try discriminate; destruct (o_val o) as [b|n|s|] eqn:Vo; try discriminate.
  - destruct b; [|discriminate]. rewrite Na, Fo, Fl. cbn. repeat split. discriminate.
  - cbn [o_arg o_name o_form o_val]. rewrite Na, Fl. cbn [count_of short_letter short_of drop].
    rewrite las_repeat_str, app_nil_r, map_repeat'. repeat split.
    (* n >= 1 from occ_counter / occ_simple *)
    apply orb_true_iff in Ok. destruct Ok as [Ok|Ok].
    + unfold occ_simple in Ok. rewrite Na, Fo in Ok. rewrite andb_false_r in Ok. discriminate.
    + unfold occ_counter in Ok. rewrite Na, Fo, Vo in Ok. rewrite !andb_true_iff in Ok.
      destruct Ok as [_ [Hn _]]. apply Nat.leb_le in Hn. destruct n; [lia | discriminate].
  - rewrite Na, Fo, Fl. cbn. repeat split. discriminate.
Qed.

(** only the last member may have a tail: the separate tokens are the letters
    as short flags followed by that tail *)
Lemma members_tokens cs c : forall l given,
  members_ok cs c given l = true ->
  flat_map (fun o => spell_occ c (sep o)) l
  = map short_of (flat_map (member_chars c) l) ++ flat_map cluster_tail l.
Proof.
  induction l as [|o l IH]; intros given H; [reflexivity|].
  cbn [members_ok] in H. rewrite !andb_true_iff in H. destruct H as [[Mo Hlast] Hl].
  destruct (member_tokens cs c given o Mo) as [E _].
  cbn [flat_map]. rewrite E, (IH _ Hl), map_app, <- !app_assoc. f_equal.
  destruct l as [|o' l'].
  - cbn. now rewrite !app_nil_r.
  - assert (T : cluster_tail o = []).
    { unfold cluster_tail. apply negb_true_iff in Hlast. destruct (o_form o); try reflexivity. discriminate. }
    rewrite T. reflexivity.
Qed.

Lemma members_letters cs c : forall l given,
  members_ok cs c given l = true ->
  las (String.concat "" (map (cluster_letters c) l)) = flat_map (member_chars c) l.
Proof.
  intros l given H. rewrite las_concat, flat_map_concat_map, map_map, <- flat_map_concat_map.
  revert given H. induction l as [|o l IH]; intros given H; [reflexivity|].
  cbn [members_ok] in H. rewrite !andb_true_iff in H. destruct H as [[Mo _] Hl].
  destruct (member_tokens cs c given o Mo) as [_ [E _]].
  cbn [flat_map]. now rewrite E, (IH _ Hl).
Qed.

Section ClusterSteps.
Variable cs : list ctxspec.
Variable p : parser.
Hypothesis Pcs : p_ctxs p = cs.
Variable i0 : rctx.

Lemma member_wide c given o :
  member_ok cs c given o = true ->
  occ_wide cs c given (sep o) = true /\ occ_wide cs c given o = true.
Proof.
  unfold member_ok. rewrite !andb_true_iff. intros [[Ok _] Hf].
  apply orb_true_iff in Ok. destruct Ok as [Ok|Ok].
  - assert (E : sep o = o).
    { unfold sep. destruct (o_form o) eqn:Fo; try reflexivity.
      unfold occ_simple in Ok. destruct (nth_error (cx_args c) (o_arg o)); [|discriminate].
      rewrite Fo, andb_false_r in Ok. discriminate. }
    rewrite E. unfold occ_wide. rewrite Ok. auto.
  - split; [|unfold occ_wide; rewrite Ok, !orb_true_r; reflexivity].
    assert (Oc : occ_counter c (sep o) = true).
    { unfold sep. destruct (o_form o) eqn:Fo; try exact Ok.
      unfold occ_counter in *. cbn [o_arg o_name o_form o_val].
      destruct (nth_error (cx_args c) (o_arg o)); [|discriminate].
      rewrite Fo in Ok. rewrite !andb_true_iff in *. destruct Ok as [A B]. split; [exact A|].
      destruct (o_val o); try discriminate. apply andb_true_iff in B. tauto. }
    unfold occ_wide. rewrite Oc, !orb_true_r. reflexivity.
Qed.

(** the invariant after one occurrence (pure version of [one_steps]) *)
Lemma one_inv c given o args :
  guard_w c = true -> occ_wide cs c given o = true -> Inv_w c given args ->
  Inv_w c (one_given given o) (run_one args o).
Proof.
  intros G Os Iw.
  destruct (one_steps cs p Pcs i0 c given o [] (mkRCtx None [] args) None false G Os Iw I)
    as [_ [_ [_ [_ H]]]]. exact H.
Qed.

Lemma members_steps c : forall l given done cur fl got,
  guard_w c = true -> members_ok cs c given l = true ->
  Inv_w c given (rc_args cur) -> inert (MS i0 done cur fl got) ->
  exists fl' got',
    steps p (MS i0 done cur fl got) (flat_map (fun o => spell_occ c (sep o)) l)
            (MS i0 done (with_args cur (fold_left run_one l (rc_args cur))) fl' got') /\
    inert (MS i0 done (with_args cur (fold_left run_one l (rc_args cur))) fl' got') /\
    Inv_w c (fold_left one_given l given) (fold_left run_one l (rc_args cur)).
Proof.
  induction l as [|o l IH]; intros given done cur fl got G H Iw I.
  - exists fl, got. cbn [flat_map fold_left].
    replace (with_args cur (rc_args cur)) with cur by (destruct cur; reflexivity).
    split; [apply steps_nil|]. auto.
  - cbn [members_ok] in H. rewrite !andb_true_iff in H. destruct H as [[Mo _] Hl].
    destruct (member_wide c given o Mo) as [Ws _].
    destruct (one_steps cs p Pcs i0 c given (sep o) done cur fl got G Ws Iw I) as [fl1 [got1 [S1 [I1 Iw1]]]].
    rewrite run_one_sep in S1, I1, Iw1. rewrite one_given_sep in Iw1.
    set (cur1 := with_args cur (run_one (rc_args cur) o)) in *.
    destruct (IH (one_given given o) done cur1 fl1 got1 G Hl Iw1 I1) as [fl2 [got2 [S2 [I2 Iw2]]]].
    exists fl2, got2. cbn [flat_map fold_left].
    unfold cur1 in *. cbn [rc_args with_args] in *.
    split; [eapply steps_app; eauto|]. auto.
Qed.

Lemma members_vals c : forall l given args os,
  guard_w c = true -> members_ok cs c given l = true -> Inv_w c given args ->
  vals_ok os args -> vals_ok (os ++ l) (fold_left run_one l args).
Proof.
  induction l as [|o l IH]; intros given args os G H Iw V.
  - now rewrite app_nil_r.
  - cbn [members_ok] in H. rewrite !andb_true_iff in H. destruct H as [[Mo _] Hl].
    destruct (member_wide c given o Mo) as [_ Wo].
    pose proof (one_vals cs c given o args os G Wo Iw V) as V1.
    pose proof (one_inv c given o args G Wo Iw) as Iw1.
    cbn [fold_left]. replace (os ++ o :: l) with ((os ++ [o]) ++ l) by now rewrite <- app_assoc.
    now apply (IH (one_given given o)).
Qed.

(** every letter of a cluster comes from a clean short flag *)
Lemma member_clean c given o ch :
  guard_w c = true -> member_ok cs c given o = true -> In ch (member_chars c o) ->
  clean_flag (short_of ch) = true.
Proof.
  intros G Mo Hin. destruct (guard_w_parts c G) as [Gn _].
  destruct (guard_parts_nm c Gn) as [_ [_ [Cl _]]].
  unfold member_ok in Mo. rewrite !andb_true_iff in Mo. destruct Mo as [[Ok Hl] _].
  unfold member_chars in Hin. destruct (member_letter c o) as [c0|] eqn:Ml; [|destruct Hin].
  destruct (member_letter_flag c o c0 Ml) as [a [Na Fl]].
  assert (ch = c0).
  { destruct (o_form o); try (destruct Hin as [<-|[]]; reflexivity).
    now apply repeat_spec in Hin. }
  subst c0. rewrite <- Fl. apply Cl. eapply in_all_spellings; [exact Na|].
  unfold spellings_of. apply in_or_app. left. apply flag_of_in.
  apply orb_true_iff in Ok. destruct Ok as [Ok|Ok].
  - unfold occ_simple in Ok. rewrite Na in Ok. apply andb_true_iff in Ok. destruct Ok as [Lk _].
    now apply Nat.ltb_lt.
  - unfold occ_counter in Ok. rewrite Na in Ok. rewrite !andb_true_iff in Ok.
    destruct Ok as [[[Lk _] _] _]. now apply Nat.ltb_lt.
Qed.

Lemma members_clean c : forall l given ch,
  guard_w c = true -> members_ok cs c given l = true -> In ch (flat_map (member_chars c) l) ->
  clean_flag (short_of ch) = true.
Proof.
  induction l as [|o l IH]; intros given ch G H Hin; [destruct Hin|].
  cbn [members_ok] in H. rewrite !andb_true_iff in H. destruct H as [[Mo _] Hl].
  cbn [flat_map] in Hin. apply in_app_iff in Hin. destruct Hin as [Hin|Hin].
  - now apply (member_clean c given o).
  - now apply (IH (one_given given o)).
Qed.
End ClusterSteps.
