(** C13, the "kind of input stream" dimension: real (non-terminal) text streams --
    in-memory, regular file, pipe, duck-typed object with a descriptor -- of ANY
    length.  What the command receives is the encoding of the stream's whole text,
    whatever the kind and whenever the command finishes. *)
From InvokeVerif Require Import Corr.C13Corr Proofs.C02_decode Proofs.C13_stdin.
From Coq Require Import Lia.
Local Open Scope N_scope.

Definition one (c : N) : sread := SData [c].
Definition ones (t : text) : list sread := map one t ++ [SEof].

(** * The reads of a non-terminal stream: one character each, then the empty value *)

Lemma reads_of_one : forall t f, (List.length t <= f)%nat -> reads_of 1 f t = map one t.
Proof.
  induction t as [|c t IH]; intros f L.
  - destruct f; reflexivity.
  - destruct f as [|f]; [cbn in L; lia|].
    cbn [reads_of firstn skipn map]. rewrite IH by (cbn in L; lia). reflexivity.
Qed.

Lemma stream_reads_ones k t : stream_reads k t = ones t.
Proof.
  unfold stream_reads, ones.
  replace (read_size k false 0) with 1%nat by (destruct k; reflexivity).
  rewrite reads_of_one by lia. reflexivity.
Qed.

(** The kind plays no role in the reads at all. *)
Lemma real_script_kind_irrelevant k1 k2 p t : real_script k1 p t = real_script k2 p t.
Proof. unfold real_script. rewrite !stream_reads_ones. reflexivity. Qed.

(** * When the command finishes plays no role either (always-ready stream, read to its end) *)

Lemma finish_anywhere e pty echo : forall t p closed,
  handle_stdin MText e pty echo closed false (insert_finish p (ones t)) =
  handle_stdin MText e pty echo closed true (ones t).
Proof.
  unfold insert_finish, ones.
  induction t as [|c t IH]; intros p closed.
  - destruct p as [|p]; [reflexivity|].
    cbn [map app firstn skipn]. rewrite firstn_nil, skipn_nil.
    cbn. destruct pty, closed; reflexivity.
  - destruct p as [|p]; [reflexivity|].
    cbn [map app firstn skipn one handle_stdin unit_text].
    destruct (encode e [c]); [|reflexivity]. rewrite IH. reflexivity.
Qed.

(** * What is delivered: every character, once, in order *)

Lemma deliverable_ones fin t : deliverable fin (ones t) = map (fun c => [c]) t.
Proof.
  unfold ones. induction t as [|c t IH].
  - destruct fin; reflexivity.
  - cbn [map app one deliverable]. rewrite IH. reflexivity.
Qed.

Lemma eof_reached_ones fin t : eof_reached fin (ones t) = true.
Proof. unfold ones. induction t as [|c t IH]; [reflexivity | exact IH]. Qed.

Lemma wf_ones e t : wf_script MText e (ones t) = true.
Proof. unfold ones, wf_script. rewrite forallb_app. cbn. rewrite andb_true_r.
       induction t as [|c t IH]; [reflexivity | exact IH]. Qed.

Lemma concat_singletons (t : text) : List.concat (map (fun c => [c]) t) = t.
Proof. induction t as [|c t IH]; [reflexivity|]. cbn. rewrite IH. reflexivity. Qed.

Lemma texts_of_singletons e t : texts_of MText e (map (fun c => [c]) t) = map (fun c => [c]) t.
Proof. unfold texts_of. cbn [unit_text]. apply map_id. Qed.

Lemma encodable_chars e t w :
  encode e t = Some w ->
  forallb (encodable e) (map (fun c => [c]) t) = true /\
  List.concat (map (enc_or_nil e) (map (fun c => [c]) t)) = w.
Proof.
  intros E.
  destruct (forallb (encodable e) (map (fun c => [c]) t)) eqn:F.
  - split; [reflexivity|].
    pose proof (encode_concat_some e _ F) as S. rewrite concat_singletons, E in S.
    injection S as S. symmetry. exact S.
  - pose proof (encode_concat_none e _ F) as S. rewrite concat_singletons, E in S. discriminate.
Qed.

(** The loop on a real stream whose text is encodable: the text is written
    character by character, the child's stdin closed once (no pty), the loop left. *)
Lemma handle_real_stream e pty echo p t w :
  encode e t = Some w ->
  handle_stdin MText e pty echo false false (insert_finish p (ones t)) =
  mkSout (map (enc_or_nil e) (map (fun c => [c]) t)) (if pty then 0 else 1)%nat
         (if echo then map (fun c => [c]) t else []) true false.
Proof.
  intros E. destruct (encodable_chars e t w E) as [F _].
  rewrite finish_anywhere.
  rewrite (handle_stdin_shape MText e pty echo (ones t) false true (wf_ones e t))
    by (rewrite deliverable_ones, texts_of_singletons; exact F).
  rewrite deliverable_ones, texts_of_singletons, eof_reached_ones, orb_false_r.
  reflexivity.
Qed.

(** Received = encode(text), for a text of any length; closed once; echoed when wanted. *)
Lemma real_stream_receives_whole_text k e echo pty p t w :
  encode e t = Some w ->
  stdin_model (real_in k e echo pty p t) =
  mkSobs (Some w) (if pty then 0 else 1)%nat (if echo_wanted echo pty false then t else []) true (Some []).
Proof.
  intros E. unfold stdin_model, real_in, real_script.
  cbn [si_stream si_enc si_pty si_script si_echo si_responses encode_all].
  rewrite stream_reads_ones, (handle_real_stream e pty _ p t w E).
  cbn [so_died so_writes so_closes so_echo so_terminated].
  destruct (encodable_chars e t w E) as [_ C]. rewrite C, echo_table.
  destruct (echo_wanted echo pty false); [rewrite concat_singletons|]; reflexivity.
Qed.

(** Unguarded: neither the kind of stream nor the moment the command finishes
    changes anything the command or the output stream sees (also when the worker
    dies of an unencodable character). *)
Lemma real_stream_independent k1 k2 e echo pty p q t :
  stdin_model (real_in k1 e echo pty p t) = stdin_model (real_in k2 e echo pty q t).
Proof.
  unfold stdin_model, real_in, real_script.
  cbn [si_stream si_enc si_pty si_script si_echo si_responses].
  rewrite !stream_reads_ones, !finish_anywhere. reflexivity.
Qed.

(** * Against the spec, which is told only "this text, then EOF; the command finishes" *)

Lemma whole_text_deliverable t : List.concat (deliverable false (whole_text_script t)) = t.
Proof. destruct t as [|c t]; [reflexivity|]. cbn. rewrite app_nil_r. reflexivity. Qed.

Lemma whole_text_eof t : eof_reached false (whole_text_script t) = true.
Proof. destruct t; reflexivity. Qed.

Lemma whole_text_finishes t : finishes (whole_text_script t) = true.
Proof. destruct t; reflexivity. Qed.

Definition spec_view (e : enc) (echo : option bool) (pty : bool) (t : text) : stdin_in :=
  mkSin e (Some (MText, false)) echo pty (whole_text_script t) [].

Lemma real_stream_meets_spec k e echo pty p t :
  spec_in (spec_view e echo pty t) (stdin_model (real_in k e echo pty p t)) = true.
Proof.
  unfold spec_in, spec_view, spec_ok.
  cbn [si_enc si_stream si_echo si_pty si_script si_responses stream_text].
  rewrite whole_text_deliverable, whole_text_eof, whole_text_finishes.
  destruct (encode e t) as [w|] eqn:E.
  - rewrite (real_stream_receives_whole_text k e echo pty p t w E).
    cbn [sb_received sb_closes sb_echo sb_terminated sb_responses List.concat encode].
    rewrite !opt_bytes_eqb_refl, text_eqb_refl.
    destruct pty; reflexivity.
  - unfold stdin_model, real_in. cbn [si_stream si_enc si_responses encode_all sb_responses List.concat encode].
    reflexivity.
Qed.

(** The same at the level of the checked cases: a real-stream case is judged by
    [corr] on [real_in] and by [spec] on [spec_view]. *)
Lemma real_case_views i k p t d cl sl o :
  si_stream i = Some (MText, false) -> si_responses i = [] ->
  model_in (mk i (Some (mkReal k p t)) d cl sl o) = real_in k (si_enc i) (si_echo i) (si_pty i) p t /\
  spec_input (mk i (Some (mkReal k p t)) d cl sl o) = spec_view (si_enc i) (si_echo i) (si_pty i) t.
Proof.
  intros S R. unfold model_in, spec_input, with_script, real_in, spec_view.
  cbn [c_real c_in r_kind r_finish_at r_text]. rewrite S, R. split; reflexivity.
Qed.

Lemma real_case_model_meets_spec i k p t :
  si_stream i = Some (MText, false) -> si_responses i = [] ->
  let o := stdin_model (real_in k (si_enc i) (si_echo i) (si_pty i) p t) in
  corr (mk i (Some (mkReal k p t)) true true true o) = true /\
  spec (mk i (Some (mkReal k p t)) true true true o) = true.
Proof.
  intros S R o. unfold corr, spec.
  destruct (real_case_views i k p t true true true o S R) as [M V]. rewrite M, V.
  cbn [c_done c_close_last c_silent c_obs andb]. split.
  - unfold sobs_eqb. fold o.
    rewrite !opt_bytes_eqb_refl, Nat.eqb_refl, text_eqb_refl, Bool.eqb_reflx. reflexivity.
  - apply real_stream_meets_spec.
Qed.
