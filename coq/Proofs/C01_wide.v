(** C01, wide instance of the generic composition (Proofs/C01_generic2.v):
    single-occurrence items in the forms
      --flag / --no-flag / "--name value" / "--name=value"   (Proofs/C01_occ_nm.v)
      "-nvalue"                                               (glued)
      counters repeated or stacked                            (FRep / FStack)
      positionals given by position                           (FPos)
      optional-value flags given with their value             (FNext / FEq)
    over tasks that may have required positionals.  Invariant: [Inv_w]
    (Proofs/C01_inv.v). *)
From InvokeVerif Require Import Model.ParserModel Corr.C01Corr Proofs.ListFacts Proofs.C07_fuel
     Proofs.C01_steps Proofs.C01_tokens Proofs.C01_lookup Proofs.C01_occ Proofs.C01_roundtrip
     Proofs.C01_form_glued Proofs.C01_form_counter Proofs.C01_form_pos Proofs.C01_form_optional
     Proofs.C01_occ_nm Proofs.C01_form_glued_nm Proofs.C01_form_counter_nm Proofs.C01_inv.
From Coq Require Import Lia.

(** my record [st_ok_nm] (C01_form_pos) and [st_nm] (C01_occ_nm) are the same *)
Lemma st_nm_to_pos c given args : st_nm c given args -> C01_form_pos.st_ok_nm c given args.
Proof. intros [A B C]. exact (C01_form_pos.Build_st_ok_nm c given args A B C). Qed.

Lemma st_nm_of_pos c given args : C01_form_pos.st_ok_nm c given args -> st_nm c given args.
Proof. intros [A B C]. exact (Build_st_nm c given args A B C). Qed.

Definition is_val_form (f : oform) : bool :=
  match f with FNext | FEq | FGlued | FPos => true | _ => false end.

Definition one_given (given : list nat) (o : occ) : list nat :=
  match o_val o with
  | VS _ => if is_val_form (o_form o) then o_arg o :: given else given
  | _ => given
  end.

Definition run_one (args : list rarg) (o : occ) : list rarg :=
  match o_val o with
  | VN n => iter_occ n args o
  | _ => run_occ args o
  end.

Definition opt_nat_eqb (a : option nat) (b : option nat) : bool :=
  match a, b with
  | Some x, Some y => Nat.eqb x y
  | None, None => true
  | _, _ => false
  end.

Section Wide.
Variable cs : list ctxspec.
(** any parser over [cs] and ANY state [i0] of the initial context (the core
    options seen so far may already have modified it: C18) *)
Variable p : parser.
Hypothesis Pcs : p_ctxs p = cs.
Variable i0 : rctx.

(** positional by position: the first required positional still missing *)
Definition occ_pos_w (c : ctxspec) (given : list nat) (o : occ) : bool :=
  occ_positional c o
  && match nth_error (cx_args c) (o_arg o) with Some a => negb (a_optional a) | None => false end
  && opt_nat_eqb (first_missing c given) (Some (o_arg o)).

(** optional-value flag given with its value as "--flag value" / "--flag=value" *)
Definition occ_optval (c : ctxspec) (given : list nat) (o : occ) : bool :=
  match nth_error (cx_args c) (o_arg o) with
  | None => false
  | Some a =>
      Nat.ltb (o_name o) (List.length (a_names a)) &&
      match o_form o, o_val o with
      | FNext, VS s | FEq, VS s =>
          takes_value a && a_optional a && plain s
          && negb (akind_eqb (a_kind a) KList)
          && negb (is_ctx_name cs s)
          && castable a s
          && negb (mem_nat (o_arg o) given)
          && opt_nat_eqb (first_missing c given) None
      | _, _ => false
      end
  end.

Definition occ_wide (c : ctxspec) (given : list nat) (o : occ) : bool :=
  occ_simple c given o || occ_glued c given o || occ_counter c o
  || occ_pos_w c given o || occ_optval c given o.

(** ** bookkeeping lemmas for [run_occ] *)
Lemma given_track_value c given args o s :
  st_nm c given args -> given_track given args ->
  o_val o = VS s ->
  (forall a, nth_error (cx_args c) (o_arg o) = Some a ->
     takes_value a = true /\ castable a s = true) ->
  given_track (o_arg o :: given) (run_occ args o).
Proof.
  intros St Gt Vo Ha. unfold run_occ.
  destruct (nth_error args (o_arg o)) as [r|] eqn:Nr.
  2:{ (* no such argument: nothing to track at that index *)
      split.
      - intros j rj Nj Tv K M. rewrite mem_nat_cons in M. apply orb_false_iff in M.
        eapply (gt_none _ _ Gt); eauto. tauto.
      - intros j rj Nj Tv M. rewrite mem_nat_cons in M. apply orb_true_iff in M.
        destruct M as [M|M]; [apply Nat.eqb_eq in M; subst j; congruence|].
        eapply (gt_some _ _ Gt); eauto. }
  assert (Na : nth_error (cx_args c) (o_arg o) = Some (r_spec r)).
  { rewrite <- (sn_shape _ _ _ St). now apply map_nth_error. }
  destruct (Ha _ Na) as [Tv Hint].
  destruct (set_value_str r s Tv Hint) as [r' [SV [Sp [Rw [Nn _]]]]].
  { intros K. eapply (sn_list _ _ _ St); eauto. }
  unfold occ_input. rewrite Vo, SV.
  eapply given_track_upd; eauto.
  - intros _. split; [apply mem_nat_cons_same | exact Nn].
  - intros j Hj. now apply mem_nat_cons_other.
Qed.

Lemma run_occ_shape args o : map r_spec (run_occ args o) = map r_spec args.
Proof.
  unfold run_occ. destruct (nth_error args (o_arg o)) as [r|] eqn:Nr; [|reflexivity].
  destruct (set_value r (occ_input o) true) as [r'|] eqn:SV; [|reflexivity].
  destruct (set_value_props _ _ _ _ SV) as [Sp _]. eapply map_upd_same; eauto.
Qed.

Lemma given_track_novalue c given args o :
  map r_spec args = cx_args c -> given_track given args ->
  (forall a, nth_error (cx_args c) (o_arg o) = Some a -> takes_value a = false) ->
  given_track given (run_occ args o).
Proof.
  intros Sh Gt Ha. unfold run_occ.
  destruct (nth_error args (o_arg o)) as [r|] eqn:Nr; [|exact Gt].
  assert (Na : nth_error (cx_args c) (o_arg o) = Some (r_spec r)).
  { rewrite <- Sh. now apply map_nth_error. }
  destruct (set_value r (occ_input o) true) as [r'|] eqn:SV; [|exact Gt].
  destruct (set_value_props _ _ _ _ SV) as [Sp _].
  eapply given_track_upd; eauto.
  intros Tv. rewrite (Ha _ Na) in Tv. discriminate.
Qed.

Lemma given_track_iter c given o : forall n args,
  map r_spec args = cx_args c -> given_track given args ->
  (forall a, nth_error (cx_args c) (o_arg o) = Some a -> takes_value a = false) ->
  given_track given (iter_occ n args o).
Proof.
  induction n as [|n IH]; intros args Sh Gt Ha; [exact Gt|]. cbn [iter_occ].
  apply IH; auto; [now rewrite run_occ_shape | now apply (given_track_novalue c)].
Qed.

(** ** the shapes inside [occ_simple] *)
Lemma simple_cases c given o :
  occ_simple c given o = true ->
  exists a, nth_error (cx_args c) (o_arg o) = Some a /\
    ((exists b, o_val o = VB b /\ (o_form o = FBare \/ o_form o = FInv) /\ takes_value a = false) \/
     (exists s, o_val o = VS s /\ (o_form o = FNext \/ o_form o = FEq) /\ takes_value a = true /\
                castable a s = true)).
Proof.
  unfold occ_simple. destruct (nth_error (cx_args c) (o_arg o)) as [a|]; [|discriminate].
  intros H. apply andb_true_iff in H. destruct H as [_ H]. exists a. split; [reflexivity|].
  destruct (o_form o); try discriminate; destruct (o_val o) as [b|n|s|]; try discriminate.
  - left. exists b. destruct b; [|discriminate]. rewrite !andb_true_iff in H. destruct H as [K _].
    repeat split; auto. unfold takes_value. destruct (a_kind a); try discriminate. reflexivity.
  - left. exists b. destruct b; [discriminate|]. rewrite !andb_true_iff in H. destruct H as [[K _] _].
    repeat split; auto. unfold takes_value. destruct (a_kind a); try discriminate. reflexivity.
  - right. exists s. rewrite !andb_true_iff in H. destruct H as [[[[Tv _] _] Hi] _].
    repeat split; auto.
  - right. exists s. rewrite !andb_true_iff in H. destruct H as [[[[Tv _] _] Hi] _].
    repeat split; auto.
Qed.

(** ** machine steps of one occurrence, any covered form *)
Lemma one_steps_simple c given o done cur fl got :
  guard_w c = true -> occ_simple c given o = true ->
  Inv_w c given (rc_args cur) -> inert (MS i0 done cur fl got) ->
  exists fl' got',
    steps p (MS i0 done cur fl got) (spell_occ c o)
            (MS i0 done (with_args cur (run_one (rc_args cur) o)) fl' got') /\
    inert (MS i0 done (with_args cur (run_one (rc_args cur) o)) fl' got') /\
    Inv_w c (one_given given o) (run_one (rc_args cur) o).
Proof.
  intros G Os [St [Co Gt]] I. destruct (guard_w_parts c G) as [Gn _].
  destruct (occ_steps_nm cs p i0 c given o done cur fl got Pcs Gn Os St I) as [fl' [got' [S [I' St']]]].
  destruct (simple_cases c given o Os) as [a [Na [[b [Vo [Fo Tv]]]|[s [Vo [Fo [Tv Hint]]]]]]].
  - assert (E1 : run_one (rc_args cur) o = run_occ (rc_args cur) o) by (unfold run_one; now rewrite Vo).
    assert (E2 : one_given given o = given) by (unfold one_given; now rewrite Vo).
    assert (E3 : given_after given o = given)
      by (unfold given_after, is_value_form; destruct Fo as [-> | ->]; reflexivity).
    rewrite E1, E2. rewrite E3 in St'. exists fl', got'. split; [exact S|]. split; [exact I'|].
    split; [exact St'|]. split; [now apply counters_ok_run_occ|].
    apply (given_track_novalue c); auto; [exact (sn_shape _ _ _ St)|].
    intros a' Na'. rewrite Na in Na'. now injection Na' as <-.
  - assert (E1 : run_one (rc_args cur) o = run_occ (rc_args cur) o) by (unfold run_one; now rewrite Vo).
    assert (E2 : one_given given o = o_arg o :: given)
      by (unfold one_given; rewrite Vo; destruct Fo as [-> | ->]; reflexivity).
    assert (E3 : given_after given o = o_arg o :: given)
      by (unfold given_after, is_value_form; destruct Fo as [-> | ->]; reflexivity).
    rewrite E1, E2. rewrite E3 in St'. exists fl', got'. split; [exact S|]. split; [exact I'|].
    split; [exact St'|]. split; [now apply counters_ok_run_occ|].
    apply (given_track_value c given _ o s St Gt Vo).
    intros a' Na'. rewrite Na in Na'. injection Na' as <-. auto.
Qed.
Lemma one_steps_glued c given o done cur fl got :
  guard_w c = true -> occ_glued c given o = true ->
  Inv_w c given (rc_args cur) -> inert (MS i0 done cur fl got) ->
  exists fl' got',
    steps p (MS i0 done cur fl got) (spell_occ c o)
            (MS i0 done (with_args cur (run_one (rc_args cur) o)) fl' got') /\
    inert (MS i0 done (with_args cur (run_one (rc_args cur) o)) fl' got') /\
    Inv_w c (one_given given o) (run_one (rc_args cur) o).
Proof.
  intros G Os [St [Co Gt]] I. destruct (guard_w_parts c G) as [Gn _].
  destruct (occ_glued_steps_nm p i0 c given o done cur fl got Gn Os St I) as [fl' [got' [S [I' St']]]].
  unfold occ_glued in Os. destruct (nth_error (cx_args c) (o_arg o)) as [a|] eqn:Na; [|discriminate].
  apply andb_true_iff in Os. destruct Os as [_ Os].
  destruct (o_form o) eqn:Fo; try discriminate. destruct (o_val o) as [b|n|s|] eqn:Vo; try discriminate.
  rewrite !andb_true_iff in Os. destruct Os as [[[[[[[Tv _] _] _] _] _] Hint] _].
  assert (E1 : run_one (rc_args cur) o = run_occ (rc_args cur) o) by (unfold run_one; now rewrite Vo).
  assert (E2 : one_given given o = o_arg o :: given) by (unfold one_given; now rewrite Vo, Fo).
  rewrite E1, E2. exists fl', got'. split; [exact S|]. split; [exact I'|].
  split; [exact St'|]. split; [now apply counters_ok_run_occ|].
  apply (given_track_value c given _ o s St Gt Vo).
  intros a' Na'. rewrite Na in Na'. injection Na' as <-. split; [exact Tv | exact Hint].
Qed.

Lemma one_steps_counter c given o done cur fl got :
  guard_w c = true -> occ_counter c o = true ->
  Inv_w c given (rc_args cur) -> inert (MS i0 done cur fl got) ->
  exists fl' got',
    steps p (MS i0 done cur fl got) (spell_occ c o)
            (MS i0 done (with_args cur (run_one (rc_args cur) o)) fl' got') /\
    inert (MS i0 done (with_args cur (run_one (rc_args cur) o)) fl' got') /\
    Inv_w c (one_given given o) (run_one (rc_args cur) o).
Proof.
  intros G Os [St [Co Gt]] I. destruct (guard_w_parts c G) as [Gn _].
  destruct (occ_counter_steps_nm p i0 c given o done cur fl got Gn Os St Co I)
    as [fl' [got' [S [I' [St' Co']]]]].
  unfold occ_counter in Os. destruct (nth_error (cx_args c) (o_arg o)) as [a|] eqn:Na; [|discriminate].
  rewrite !andb_true_iff in Os. destruct Os as [[[_ Hinc] _] Os].
  assert (Vn : exists n, o_val o = VN n).
  { destruct (o_form o); try discriminate; destruct (o_val o) as [b|n|s|]; try discriminate; eauto. }
  destruct Vn as [n Vo].
  assert (E1 : run_one (rc_args cur) o = iter_occ (count_of (o_val o)) (rc_args cur) o)
    by (unfold run_one; now rewrite Vo).
  assert (E2 : one_given given o = given) by (unfold one_given; now rewrite Vo).
  rewrite E1, E2. exists fl', got'. split; [exact S|]. split; [exact I'|].
  split; [exact St'|]. split; [exact Co'|].
  apply (given_track_iter c); auto; [exact (sn_shape _ _ _ St)|].
  intros a' Na'. rewrite Na in Na'. injection Na' as <-. now apply takes_value_counter.
Qed.

Lemma opt_nat_eqb_eq a b : opt_nat_eqb a b = true -> a = b.
Proof.
  destruct a, b; simpl; try discriminate; try reflexivity. intros H. apply Nat.eqb_eq in H. now subst.
Qed.

Lemma one_steps_pos c given o done cur fl got :
  guard_w c = true -> occ_pos_w c given o = true ->
  Inv_w c given (rc_args cur) -> inert (MS i0 done cur fl got) ->
  exists fl' got',
    steps p (MS i0 done cur fl got) (spell_occ c o)
            (MS i0 done (with_args cur (run_one (rc_args cur) o)) fl' got') /\
    inert (MS i0 done (with_args cur (run_one (rc_args cur) o)) fl' got') /\
    Inv_w c (one_given given o) (run_one (rc_args cur) o).
Proof.
  intros G Os Iw I. pose proof Iw as [St [Co Gt]].
  unfold occ_pos_w in Os. rewrite !andb_true_iff in Os. destruct Os as [[Op _] Fm].
  apply opt_nat_eqb_eq in Fm. rewrite (missing_first c given _ G Iw) in Fm.
  destruct (missing_positional (rc_args cur)) as [|i rest] eqn:Hm; [discriminate|].
  cbn [hd_error] in Fm. injection Fm as ->.
  destruct (occ_positional_steps p i0 c given o done cur fl got rest Op (st_nm_to_pos _ _ _ St) I Hm)
    as [S [I' [St' _]]].
  unfold occ_positional in Op. destruct (nth_error (cx_args c) (o_arg o)) as [a|] eqn:Na; [|discriminate].
  destruct (o_form o) eqn:Fo; try discriminate. destruct (o_val o) as [b|n|s|] eqn:Vo; try discriminate.
  rewrite !andb_true_iff in Op. destruct Op as [[[_ Tv] _] Hint].
  assert (E1 : run_one (rc_args cur) o = run_occ (rc_args cur) o) by (unfold run_one; now rewrite Vo).
  assert (E2 : one_given given o = o_arg o :: given) by (unfold one_given; now rewrite Vo, Fo).
  rewrite E1, E2. exists fl, got. split; [exact S|]. split; [exact I'|].
  split; [now apply st_nm_of_pos|]. split; [now apply counters_ok_run_occ|].
  apply (given_track_value c given _ o s St Gt Vo).
  intros a' Na'. rewrite Na in Na'. injection Na' as <-. split; [exact Tv | exact Hint].
Qed.
Lemma one_steps_optval c given o done cur fl got :
  guard_w c = true -> occ_optval c given o = true ->
  Inv_w c given (rc_args cur) -> inert (MS i0 done cur fl got) ->
  exists fl' got',
    steps p (MS i0 done cur fl got) (spell_occ c o)
            (MS i0 done (with_args cur (run_one (rc_args cur) o)) fl' got') /\
    inert (MS i0 done (with_args cur (run_one (rc_args cur) o)) fl' got') /\
    Inv_w c (one_given given o) (run_one (rc_args cur) o).
Proof.
  intros G Os Iw I. pose proof Iw as [St [Co Gt]]. destruct (guard_w_parts c G) as [Gn _].
  destruct (guard_parts_nm c Gn) as [ND [Nn [Cl Ld]]].
  unfold occ_optval in Os. unfold spell_occ.
  destruct (nth_error (cx_args c) (o_arg o)) as [a|] eqn:Na; [|discriminate].
  apply andb_true_iff in Os. destruct Os as [Lk Os]. apply Nat.ltb_lt in Lk.
  pose proof (sn_shape _ _ _ St) as Sh.
  assert (Nr : exists r, nth_error (rc_args cur) (o_arg o) = Some r /\ r_spec r = a).
  { apply nth_error_map_inv. rewrite Sh. exact Na. }
  destruct Nr as [r [Nr Sr]].
  set (tok := flag_of a (o_name o)) in *.
  assert (Tin : In tok (arg_flags a)) by (apply flag_of_in; exact Lk).
  assert (Ctok : clean_flag tok = true).
  { apply Cl. eapply in_all_spellings; [exact Na|]. unfold spellings_of. apply in_or_app. left. exact Tin. }
  assert (Ftok : find_flag (rc_args cur) tok = Some (o_arg o)).
  { rewrite find_flag_args, Sh. eapply find_flag_spec_unique; eauto. }
  assert (Common : forall s, o_val o = VS s ->
            takes_value a && a_optional a && plain s && negb (akind_eqb (a_kind a) KList)
            && negb (is_ctx_name cs s) && castable a s
            && negb (mem_nat (o_arg o) given) && opt_nat_eqb (first_missing c given) None = true ->
            (is_val_form (o_form o) = true) ->
            (forall r', set_value r (IStr s) true = Ok r' ->
               steps p (MS i0 done cur fl got)
                     (match o_form o with FNext => [tok; s] | _ => [(tok ++ "=" ++ s)%string] end)
                     (MS i0 done (upd_cur cur (o_arg o) r') (Some (S (List.length done), o_arg o)) true)) ->
            exists fl' got',
              steps p (MS i0 done cur fl got)
                    (match o_form o with FNext => [tok; s] | _ => [(tok ++ "=" ++ s)%string] end)
                    (MS i0 done (with_args cur (run_one (rc_args cur) o)) fl' got') /\
              inert (MS i0 done (with_args cur (run_one (rc_args cur) o)) fl' got') /\
              Inv_w c (one_given given o) (run_one (rc_args cur) o)).
  { intros s Vo H Hvf Hsteps. rewrite !andb_true_iff, !negb_true_iff in H.
    destruct H as [[[[[[[Tv Op] Pl] Nl] Nc] Hint] Ng] Fm].
    assert (Tv' : takes_value (r_spec r) = true) by (rewrite Sr; exact Tv).
    destruct (set_value_str r s Tv') as [r' [SV [Sp [Rw [Nnone Hl]]]]].
    { rewrite Sr. exact Hint. }
    { intros K. eapply (sn_list _ _ _ St); eauto. }
    assert (E1 : run_one (rc_args cur) o = upd_nth (o_arg o) r' (rc_args cur)).
    { unfold run_one, run_occ, occ_input. now rewrite Vo, Nr, SV. }
    assert (E2 : one_given given o = o_arg o :: given) by (unfold one_given; now rewrite Vo, Hvf).
    rewrite E1, E2. exists (Some (S (List.length done), o_arg o)), true.
    split; [exact (Hsteps r' SV)|]. split.
    - apply inert_after; [congruence | exact Rw | rewrite andb_false_r; reflexivity].
    - split; [|split].
      + eapply st_nm_after_set; eauto.
        * intros _ _. apply mem_nat_cons_same.
        * intros j. rewrite mem_nat_cons. intros M. apply orb_false_iff in M. tauto.
      + eapply counters_ok_upd; eauto. intros Hi. rewrite Sp, Sr in Hi.
        rewrite (takes_value_counter _ Hi) in Tv. discriminate.
      + eapply given_track_upd; eauto.
        * intros _. split; [apply mem_nat_cons_same | exact Nnone].
        * intros j Hj. now apply mem_nat_cons_other. }
  (* the two spellings *)
  assert (Pend : forall s, o_val o = VS s ->
            takes_value a && a_optional a && plain s && negb (akind_eqb (a_kind a) KList)
            && negb (is_ctx_name cs s) && castable a s
            && negb (mem_nat (o_arg o) given) && opt_nat_eqb (first_missing c given) None = true ->
            forall r', set_value r (IStr s) true = Ok r' ->
            step p (MS i0 done cur (Some (S (List.length done), o_arg o)) false) s
            = Ok (MS i0 done (upd_cur cur (o_arg o) r') (Some (S (List.length done), o_arg o)) true, [])).
  { intros s Vo H r' SV. rewrite !andb_true_iff, !negb_true_iff in H.
    destruct H as [[[[[[[Tv Op] Pl] Nl] Nc] Hint] Ng] Fm].
    unfold plain in Pl. rewrite negb_true_iff in Pl.
    apply opt_nat_eqb_eq in Fm.
    assert (Raw : r_raw r = false).
    { eapply (sn_raw _ _ _ St); eauto; rewrite Sr; auto.
      intros K. rewrite K in Nl. discriminate. }
    apply (step_value_optional p i0 done cur (o_arg o) r Nr); auto; try (rewrite Sr; assumption);
      try (rewrite Pcs; assumption).
    eapply has_missing_false; eauto. }
  destruct (o_form o) eqn:Fo; try discriminate; destruct (o_val o) as [b|n|s|] eqn:Vo; try discriminate.
  - (* "--flag value" *)
    apply (Common s eq_refl Os eq_refl). intros r' SV.
    assert (Tv' : takes_value (r_spec r) = true).
    { rewrite Sr. rewrite !andb_true_iff in Os. tauto. }
    eapply steps_two.
    + apply (step_value_flag p i0 done cur fl got tok (o_arg o) r I Ctok Ftok Nr Tv').
    + exact (Pend s eq_refl Os r' SV).
  - (* "--flag=value" *)
    apply (Common s eq_refl Os eq_refl). intros r' SV.
    assert (Tv' : takes_value (r_spec r) = true).
    { rewrite Sr. rewrite !andb_true_iff in Os. tauto. }
    change ((tok ++ "=" ++ s)%string) with ((tok ++ String "=" s)%string).
    eapply steps_pushed.
    + apply (step_eq_flag p i0 done cur fl got tok s (o_arg o) r I Ctok Ftok Nr Tv').
    + exact (Pend s eq_refl Os r' SV).
Qed.

(** all covered forms *)
Theorem one_steps c given o done cur fl got :
  guard_w c = true -> occ_wide c given o = true ->
  Inv_w c given (rc_args cur) -> inert (MS i0 done cur fl got) ->
  exists fl' got',
    steps p (MS i0 done cur fl got) (spell_occ c o)
            (MS i0 done (with_args cur (run_one (rc_args cur) o)) fl' got') /\
    inert (MS i0 done (with_args cur (run_one (rc_args cur) o)) fl' got') /\
    Inv_w c (one_given given o) (run_one (rc_args cur) o).
Proof.
  intros G Os Iw I. unfold occ_wide in Os. rewrite !orb_true_iff in Os.
  destruct Os as [[[[Os|Os]|Os]|Os]|Os].
  - now apply one_steps_simple.
  - now apply one_steps_glued.
  - now apply one_steps_counter.
  - now apply one_steps_pos.
  - now apply one_steps_optval.
Qed.
End Wide.
