(** C10/C17: trees built from dot-free non-empty names are canonical; the
    specification's [normalized] is the fixed points of [transform]. *)
From Coq Require Import Lia.
From InvokeVerif Require Import Model.CollModel Spec.C17Spec Spec.C10Spec Proofs.CollStrings Proofs.C17_path.

(** * names a script may use: dot-free and non-empty *)
Definition plain (s : string) : bool := negb (contains_char "." s) && negb (String.eqb s "").

Definition plain_opt (o : option string) : bool := match o with Some s => plain s | None => true end.

Fixpoint names_plain (it : item) : bool :=
  match it with
  | ITask t n als _ => plain (t_name t) && plain_opt n && forallb plain (t_aliases t) && forallb plain als
  | ISub cn _ _ items bn _ =>
      plain_opt cn && plain_opt bn &&
      (fix go (l : list item) : bool := match l with [] => true | i :: l' => names_plain i && go l' end) items
  | IMod mn _ nsitem bn _ => plain mn && plain_opt bn && names_plain nsitem
  end.

Lemma plain_spec s : plain s = true <-> contains_char "." s = false /\ s <> "".
Proof.
  unfold plain. rewrite andb_true_iff, !negb_true_iff. split; intros [H1 H2]; split; auto.
  - apply String.eqb_neq; exact H2.
  - apply String.eqb_neq; exact H2.
Qed.

Lemma plain_transform ad s : plain s = true -> plain (transform ad s) = true.
Proof.
  rewrite !plain_spec. intros [H1 H2]. split; [rewrite contains_transform; exact H1|].
  intros H. apply transform_empty in H. contradiction.
Qed.

Lemma key_ok_transform ad s : plain s = true -> key_ok ad (transform ad s) = true.
Proof.
  intros H. pose proof (plain_transform ad s H) as P. apply plain_spec in P. destruct P as [P1 P2].
  unfold key_ok. rewrite transform_idem, String.eqb_refl, P1. cbn.
  apply negb_true_iff, String.eqb_neq; exact P2.
Qed.

Lemma key_ok_plain ad k : key_ok ad k = true -> plain k = true.
Proof. intros H. apply key_ok_spec in H. apply plain_spec. tauto. Qed.

(** * the invariant of built trees *)
(** keys canonical (as [ns_canon]) + alias targets canonical + own name plain *)
Fixpoint canon' (c : coll) : bool :=
  match c with
  | Coll cn tasks aliases subs _ ad _ =>
      plain_opt cn &&
      forallb (key_ok ad) (akeys tasks ++ akeys aliases ++ akeys subs) &&
      forallb (key_ok ad) (map snd aliases) &&
      (fix go (l : list (string * coll)) : bool :=
         match l with [] => true | (_, sc) :: l' => canon' sc && go l' end) subs
  end.

Lemma canon'_unfold cn tasks aliases subs d ad g :
  canon' (Coll cn tasks aliases subs d ad g) =
  plain_opt cn && forallb (key_ok ad) (akeys tasks ++ akeys aliases ++ akeys subs) &&
  forallb (key_ok ad) (map snd aliases) && forallb (fun kc => canon' (snd kc)) subs.
Proof.
  cbn [canon']. f_equal. induction subs as [|[k sc] l IH]; [reflexivity|].
  cbn [forallb snd]. rewrite IH. reflexivity.
Qed.

Lemma canon'_ns_canon : forall c, canon' c = true -> ns_canon c = true.
Proof.
  induction c as [n t a subs d ad g IH] using coll_ind'. rewrite canon'_unfold, ns_canon_unfold.
  rewrite !andb_true_iff. intros [[[_ H1] _] H2]. split; [exact H1|].
  rewrite forallb_forall in *. rewrite Forall_forall in IH.
  intros kc Hin. apply IH; [exact Hin | apply H2; exact Hin].
Qed.

(** * association-list updates *)
Lemma akeys_aset {A} k (v : A) l x : In x (akeys (aset k v l)) -> x = k \/ In x (akeys l).
Proof.
  induction l as [|[k' v'] l IH]; cbn [aset akeys map fst]; [intros [H|[]]; auto|].
  destruct (String.eqb k k') eqn:E; cbn [map fst].
  - intros [H|H]; [right; left; exact H | right; right; exact H].
  - intros [H|H]; [right; left; exact H|]. destruct (IH H); [left | right; right]; assumption.
Qed.

Lemma vals_aset k (v : string) l x : In x (map snd (aset k v l)) -> x = v \/ In x (map snd l).
Proof.
  induction l as [|[k' v'] l IH]; cbn [aset map snd]; [intros [H|[]]; auto|].
  destruct (String.eqb k k') eqn:E; cbn [map snd].
  - intros [H|H]; [left; auto | right; right; exact H].
  - intros [H|H]; [right; left; exact H|]. destruct (IH H); [left | right; right]; assumption.
Qed.

Lemma subs_aset k (v : coll) l x : In x (map snd (aset k v l)) -> x = v \/ In x (map snd l).
Proof.
  induction l as [|[k' v'] l IH]; cbn [aset map snd]; [intros [H|[]]; auto|].
  destruct (String.eqb k k') eqn:E; cbn [map snd].
  - intros [H|H]; [left; auto | right; right; exact H].
  - intros [H|H]; [right; left; exact H|]. destruct (IH H); [left | right; right]; assumption.
Qed.

Lemma resolve_in fuel als k k' : resolve fuel als k = Some k' -> k' = k \/ In k' (map snd als).
Proof.
  revert k. induction fuel as [|f IH]; intros k H; [discriminate|].
  cbn [resolve] in H. destruct (assoc k als) as [target|] eqn:E.
  - destruct (IH _ H) as [->|Hin]; [|right; exact Hin].
    right. clear -E. induction als as [|[a b] als IH]; [discriminate|].
    cbn [assoc] in E. destruct (String.eqb k a); [inversion E; left; reflexivity | right; apply IH; exact E].
  - inversion H; left; reflexivity.
Qed.

Lemma forallb_app_iff {A} (f : A -> bool) l1 l2 :
  forallb f (l1 ++ l2) = true <-> forallb f l1 = true /\ forallb f l2 = true.
Proof. rewrite forallb_app, andb_true_iff. tauto. Qed.

(** * add_task / add_collection / configure / reimport preserve the invariant *)
Lemma fold_aliases_ok ad name1 : forall l aliases,
  forallb plain l = true -> key_ok ad name1 = true ->
  forallb (key_ok ad) (akeys aliases) = true -> forallb (key_ok ad) (map snd aliases) = true ->
  forallb (key_ok ad) (akeys (fold_left (fun acc a => aset (transform ad a) name1 acc) l aliases)) = true /\
  forallb (key_ok ad) (map snd (fold_left (fun acc a => aset (transform ad a) name1 acc) l aliases)) = true.
Proof.
  induction l as [|a l IH]; intros aliases Hpl Hk1 Hka Hv; [split; assumption|].
  cbn [fold_left]. cbn [forallb] in Hpl. apply andb_true_iff in Hpl as [Hpa Hpl].
  apply (IH _ Hpl Hk1).
  - apply forallb_forall. intros x Hx. apply akeys_aset in Hx. destruct Hx as [->|Hx].
    + apply key_ok_transform; exact Hpa.
    + rewrite forallb_forall in Hka. apply Hka; exact Hx.
  - apply forallb_forall. intros x Hx. apply vals_aset in Hx. destruct Hx as [->|Hx].
    + exact Hk1.
    + rewrite forallb_forall in Hv. apply Hv; exact Hx.
Qed.

Lemma add_task_canon c t n als d c' :
  canon' c = true -> plain (t_name t) = true -> plain_opt n = true ->
  forallb plain (t_aliases t) = true -> forallb plain als = true ->
  add_task c t n als d = Ok c' -> canon' c' = true.
Proof.
  destruct c as [cn tasks aliases subs dflt ad cfg]. intros Hc Ht Hn Ha1 Ha2 H.
  rewrite canon'_unfold in Hc. rewrite !andb_true_iff in Hc. destruct Hc as [[[Hcn Hk] Hv] Hs].
  apply forallb_app_iff in Hk as [Hkt Hk]. apply forallb_app_iff in Hk as [Hka Hks].
  cbn [add_task] in H.
  set (name0 := match n with Some x => x | None => t_name t end) in *.
  assert (plain name0 = true) as Hp0 by (unfold name0; destruct n; [exact Hn | exact Ht]).
  set (name1 := transform ad name0) in *.
  assert (key_ok ad name1 = true) as Hk1 by (apply key_ok_transform; exact Hp0).
  destruct (has_key name1 subs); [discriminate|].
  unfold lex_set, lex_resolve in H.
  destruct (resolve (S (List.length aliases)) aliases name1) as [k'|] eqn:Er; [|discriminate].
  assert (key_ok ad k' = true) as Hk'.
  { destruct (resolve_in _ _ _ _ Er) as [->|Hin]; [exact Hk1|].
    rewrite forallb_forall in Hv. apply Hv; exact Hin. }
  set (aliases' := fold_left (fun acc a => aset (transform ad a) name1 acc) (t_aliases t ++ als) aliases) in *.
  assert (forallb (key_ok ad) (akeys aliases') = true /\ forallb (key_ok ad) (map snd aliases') = true) as [Hka' Hv'].
  { unfold aliases'. apply fold_aliases_ok; try assumption.
    apply forallb_app_iff; split; assumption. }
  assert (forallb (key_ok ad) (akeys (aset k' t tasks)) = true) as Hkt'.
  { apply forallb_forall. intros x Hx. apply akeys_aset in Hx. destruct Hx as [->|Hx]; [exact Hk'|].
    rewrite forallb_forall in Hkt. apply Hkt; exact Hx. }
  assert (forall dd, canon' (Coll cn (aset k' t tasks) aliases' subs dd ad cfg) = true) as Hfin.
  { intros dd. rewrite canon'_unfold, !andb_true_iff. repeat split; try assumption.
    apply forallb_app_iff. split; [exact Hkt'|]. apply forallb_app_iff. split; assumption. }
  destruct (match d with Some b => b | None => t_default t end).
  - destruct (truthy dflt); [discriminate|]. inversion H; subst. apply Hfin.
  - inversion H; subst. apply Hfin.
Qed.

Lemma add_collection_canon c sc n d c' :
  canon' c = true -> canon' sc = true -> plain_opt n = true ->
  add_collection c sc n d = Ok c' -> canon' c' = true.
Proof.
  destruct c as [cn tasks aliases subs dflt ad cfg]. intros Hc Hsc Hn H.
  rewrite canon'_unfold in Hc. rewrite !andb_true_iff in Hc. destruct Hc as [[[Hcn Hk] Hv] Hs].
  apply forallb_app_iff in Hk as [Hkt Hk]. apply forallb_app_iff in Hk as [Hka Hks].
  cbn [add_collection] in H.
  assert (plain_opt (c_name sc) = true) as Hscn.
  { destruct sc as [scn ? ? ? ? ? ?]. rewrite canon'_unfold in Hsc. rewrite !andb_true_iff in Hsc.
    cbn [c_name]. tauto. }
  destruct (if truthy n then n else c_name sc) as [n0|] eqn:En; [|discriminate].
  assert (plain n0 = true) as Hp0.
  { destruct (truthy n); [subst n; exact Hn | rewrite En in Hscn; exact Hscn]. }
  destruct (String.eqb n0 ""); [discriminate|].
  destruct (lex_contains tasks aliases (transform ad n0)) as [[|]|]; try discriminate.
  assert (forall dd, canon' (Coll cn tasks aliases (aset (transform ad n0) sc subs) dd ad cfg) = true) as Hfin.
  { intros dd. rewrite canon'_unfold, !andb_true_iff. repeat split; try assumption.
    - apply forallb_app_iff. split; [exact Hkt|]. apply forallb_app_iff. split; [exact Hka|].
      apply forallb_forall. intros x Hx. apply akeys_aset in Hx. destruct Hx as [->|Hx].
      + apply key_ok_transform; exact Hp0.
      + rewrite forallb_forall in Hks. apply Hks; exact Hx.
    - apply forallb_forall. intros [k v] Hx. cbn [snd].
      assert (In v (map snd (aset (transform ad n0) sc subs))) as Hv'
        by (change v with (snd (k, v)); apply in_map; exact Hx).
      apply subs_aset in Hv'. destruct Hv' as [->|Hv']; [exact Hsc|].
      apply in_map_iff in Hv'. destruct Hv' as [[k2 v2] [E Hin]]. cbn [snd] in E. subst v2.
      rewrite forallb_forall in Hs. apply (Hs _ Hin). }
  destruct d.
  - destruct (truthy dflt); [discriminate|]. inversion H; subst. apply Hfin.
  - inversion H; subst. apply Hfin.
Qed.

Lemma configure_canon c t c' : canon' c = true -> configure c t = Ok c' -> canon' c' = true.
Proof.
  destruct c as [cn tasks aliases subs dflt ad cfg]. intros Hc H. cbn [configure] in H.
  destruct (merge_dicts cfg t); [|discriminate]. inversion H; subst.
  rewrite canon'_unfold in *. exact Hc.
Qed.

Lemma rekey_keys {A} ad : forall (d acc : list (string * A)) x,
  In x (akeys (fold_left (fun acc kv => aset (transform ad (fst kv)) (snd kv) acc) d acc)) ->
  In x (akeys acc) \/ exists k, In k (akeys d) /\ x = transform ad k.
Proof.
  induction d as [|[k v] d IH]; intros acc x H; [left; exact H|].
  cbn [fold_left] in H. destruct (IH _ _ H) as [H1|[k2 [H1 H2]]].
  - apply akeys_aset in H1. cbn [fst] in H1. destruct H1 as [->|H1]; [|left; exact H1].
    right. exists k. split; [left; reflexivity | reflexivity].
  - right. exists k2. split; [right; exact H1 | exact H2].
Qed.

Lemma rekey_vals ad : forall (d acc : list (string * coll)) x,
  In x (map snd (fold_left (fun acc kv => aset (transform ad (fst kv)) (snd kv) acc) d acc)) ->
  In x (map snd acc) \/ In x (map snd d).
Proof.
  induction d as [|[k v] d IH]; intros acc x H; [left; exact H|].
  cbn [fold_left] in H. destruct (IH _ _ H) as [H1|H1].
  - apply subs_aset in H1. cbn [snd] in H1. destruct H1 as [->|H1]; [right; left; reflexivity | left; exact H1].
  - right; right; exact H1.
Qed.

Lemma realias_ok ad : forall (d acc : list (string * string)),
  forallb plain (akeys d) = true -> forallb plain (map snd d) = true ->
  forallb (key_ok ad) (akeys acc) = true -> forallb (key_ok ad) (map snd acc) = true ->
  let r := fold_left (fun acc kv => aset (transform ad (fst kv)) (transform ad (snd kv)) acc) d acc in
  forallb (key_ok ad) (akeys r) = true /\ forallb (key_ok ad) (map snd r) = true.
Proof.
  induction d as [|[k v] d IH]; intros acc Hk Hv Ak Av; [split; assumption|].
  cbn [fold_left]. cbn [akeys map fst snd forallb] in Hk, Hv.
  apply andb_true_iff in Hk as [Hk1 Hk]. apply andb_true_iff in Hv as [Hv1 Hv].
  apply IH; try assumption.
  - apply forallb_forall. intros x Hx. apply akeys_aset in Hx. cbn [fst] in Hx. destruct Hx as [->|Hx].
    + apply key_ok_transform; exact Hk1.
    + rewrite forallb_forall in Ak. apply Ak; exact Hx.
  - apply forallb_forall. intros x Hx. apply vals_aset in Hx. cbn [snd] in Hx. destruct Hx as [->|Hx].
    + apply key_ok_transform; exact Hv1.
    + rewrite forallb_forall in Av. apply Av; exact Hx.
Qed.

Lemma reimport_canon e c mn ad c' :
  canon' c = true -> plain mn = true -> reimport e c mn ad = Ok c' -> canon' c' = true.
Proof.
  intros Hc Hm H. unfold reimport in H.
  set (ad' := match ad with Some b => b | None => true end) in *.
  destruct e.
  - inversion H; subst. unfold new_coll. rewrite canon'_unfold. cbn.
    rewrite (plain_transform ad' mn Hm). reflexivity.
  - destruct c as [cn tasks aliases subs dflt ad0 cfg].
    destruct (copy_dict (Node cfg)); [|discriminate]. inversion H; subst; clear H.
    rewrite canon'_unfold in Hc. rewrite !andb_true_iff in Hc. destruct Hc as [[[Hcn Hk] Hv] Hs].
    apply forallb_app_iff in Hk as [Hkt Hk]. apply forallb_app_iff in Hk as [Hka Hks].
    assert (forall (l : list string), forallb (key_ok ad0) l = true -> forallb plain l = true) as Hpl.
    { intros l Hl. apply forallb_forall. intros x Hx. rewrite forallb_forall in Hl.
      apply (key_ok_plain ad0), Hl; exact Hx. }
    destruct (realias_ok ad' aliases [] (Hpl _ Hka) (Hpl _ Hv) eq_refl eq_refl) as [Ra Rv].
    rewrite canon'_unfold, !andb_true_iff. repeat split.
    + unfold first_truthy. destruct (truthy cn) eqn:Et.
      * destruct cn as [x|]; [|discriminate]. cbn. apply plain_transform; exact Hcn.
      * cbn. apply plain_transform; exact Hm.
    + apply forallb_app_iff. split; [|apply forallb_app_iff; split; [exact Ra|]].
      * apply forallb_forall. intros x Hx. unfold rekey in Hx. apply rekey_keys in Hx.
        destruct Hx as [[]|[k [Hk1 ->]]]. apply key_ok_transform.
        rewrite forallb_forall in Hkt. apply (key_ok_plain ad0), Hkt; exact Hk1.
      * apply forallb_forall. intros x Hx. unfold rekey in Hx. apply rekey_keys in Hx.
        destruct Hx as [[]|[k [Hk1 ->]]]. apply key_ok_transform.
        rewrite forallb_forall in Hks. apply (key_ok_plain ad0), Hks; exact Hk1.
    + exact Rv.
    + apply forallb_forall. intros [k v] Hx. cbn [snd].
      assert (In v (map snd (rekey ad' subs))) as Hv' by (change v with (snd (k, v)); apply in_map; exact Hx).
      unfold rekey in Hv'. apply rekey_vals in Hv'. destruct Hv' as [[]|Hv'].
      apply in_map_iff in Hv'. destruct Hv' as [[k2 v2] [E Hin]]. cbn [snd] in E. subst v2.
      rewrite forallb_forall in Hs. apply (Hs _ Hin).
Qed.

(** * the build loop *)
Fixpoint build_items (l : list item) (c : coll) {struct l} : result coll :=
  match l with
  | [] => Ok c
  | it' :: l' =>
      match it' with
      | ITask t n al d =>
          match add_task c t n al d with Ok c' => build_items l' c' | Err e => Err e end
      | ISub _ _ _ _ bn d =>
          match build it' with
          | Ok sc => match add_collection c sc bn d with Ok c' => build_items l' c' | Err e => Err e end
          | Err e => Err e
          end
      | IMod _ _ _ bn d =>
          match build it' with
          | Ok sc => match add_collection c sc bn d with Ok c' => build_items l' c' | Err e => Err e end
          | Err e => Err e
          end
      end
  end.

Lemma build_ISub cn ad cfg items bn d :
  build (ISub cn ad cfg items bn d) =
  match build_items items (new_coll cn ad) with Ok c => configure c cfg | Err e => Err e end.
Proof.
  unfold build. cbn [build_with].
  assert (forall l c,
    (fix go (l : list item) (c : coll) {struct l} : result coll :=
       match l with
       | [] => Ok c
       | it' :: l' =>
           match it' with
           | ITask t n al d0 =>
               match add_task c t n al d0 with Ok c' => go l' c' | Err e => Err e end
           | ISub _ _ _ _ bn0 d0 | IMod _ _ _ bn0 d0 =>
               match build_with names_empty it' with
               | Ok sc => match add_collection c sc bn0 d0 with Ok c' => go l' c' | Err e => Err e end
               | Err e => Err e
               end
           end
       end) l c = build_items l c) as Hgo.
  { induction l as [|i l IH]; intros c; [reflexivity|].
    cbn [build_items]. destruct i as [t n al d0 | a b0 c0 d0 bn0 e0 | mn a0 nsi bn0 d0].
    - destruct (add_task c t n al d0); [apply IH | reflexivity].
    - fold (build (ISub a b0 c0 d0 bn0 e0)). destruct (build (ISub a b0 c0 d0 bn0 e0)) as [sc|]; [|reflexivity].
      destruct (add_collection c sc bn0 e0); [apply IH | reflexivity].
    - fold (build (IMod mn a0 nsi bn0 d0)). destruct (build (IMod mn a0 nsi bn0 d0)) as [sc|]; [|reflexivity].
      destruct (add_collection c sc bn0 d0); [apply IH | reflexivity]. }
  rewrite Hgo. reflexivity.
Qed.

Lemma build_IMod mn ad nsitem bn d :
  build (IMod mn ad nsitem bn d) =
  match build nsitem with Ok c => reimport (names_empty c) c mn ad | Err e => Err e end.
Proof. reflexivity. Qed.

Section ItemInd.
  Variable P : item -> Prop.
  Hypothesis HT : forall t n a d, P (ITask t n a d).
  Hypothesis HS : forall cn ad cfg items bn d, Forall P items -> P (ISub cn ad cfg items bn d).
  Hypothesis HM : forall mn ad nsitem bn d, P nsitem -> P (IMod mn ad nsitem bn d).
  Fixpoint item_ind' (it : item) : P it :=
    match it with
    | ITask t n a d => HT t n a d
    | ISub cn ad cfg items bn d =>
        HS cn ad cfg items bn d
           ((fix go (l : list item) : Forall P l :=
               match l with [] => Forall_nil _ | x :: l' => Forall_cons x (item_ind' x) (go l') end) items)
    | IMod mn ad nsitem bn d => HM mn ad nsitem bn d (item_ind' nsitem)
    end.
End ItemInd.

Lemma names_plain_ISub cn ad cfg items bn d :
  names_plain (ISub cn ad cfg items bn d) = plain_opt cn && plain_opt bn && forallb names_plain items.
Proof.
  reflexivity.
Qed.

Definition bind_of (it : item) : option string :=
  match it with ITask _ n _ _ => n | ISub _ _ _ _ bn _ => bn | IMod _ _ _ bn _ => bn end.

(** every tree built from plain names satisfies the invariant *)
Lemma build_canon' : forall it, names_plain it = true -> forall c, build it = Ok c -> canon' c = true.
Proof.
  induction it as [t n a d | cn ad cfg items bn d IH | mn ad nsitem bn d IH] using item_ind';
    intros Hp c Hb.
  - discriminate.
  - rewrite build_ISub in Hb. rewrite names_plain_ISub in Hp.
    rewrite !andb_true_iff in Hp. destruct Hp as [[Hcn Hbn] Hit].
    destruct (build_items items (new_coll cn ad)) as [c1|] eqn:Eb; [|discriminate].
    apply (configure_canon c1 cfg c); [|exact Hb].
    assert (canon' (new_coll cn ad) = true) as H0.
    { unfold new_coll. rewrite canon'_unfold. cbn. rewrite !andb_true_r.
      destruct cn as [x|]; [cbn; apply plain_transform; exact Hcn | reflexivity]. }
    clear Hb. revert H0 Eb. generalize (new_coll cn ad) as c0.
    induction items as [|i l IHl]; intros c0 H0 Eb.
    + inversion Eb; subst; exact H0.
    + inversion IH as [|? ? IHi IHrest]; subst.
      cbn [forallb] in Hit. apply andb_true_iff in Hit as [Hpi Hpl].
      cbn [build_items] in Eb.
      destruct i as [t n al d0 | a b0 c2 d0 bn0 e0 | mn0 a0 nsi bn0 d0].
      * destruct (add_task c0 t n al d0) as [c'|] eqn:Ea; [|discriminate].
        cbn [names_plain] in Hpi. rewrite !andb_true_iff in Hpi. destruct Hpi as [[[P1 P2] P3] P4].
        apply (IHl IHrest Hpl c'); [|exact Eb].
        apply (add_task_canon c0 t n al d0 c' H0 P1 P2 P3 P4 Ea).
      * destruct (build (ISub a b0 c2 d0 bn0 e0)) as [sc|] eqn:Es; [|discriminate].
        destruct (add_collection c0 sc bn0 e0) as [c'|] eqn:Ea; [|discriminate].
        apply (IHl IHrest Hpl c'); [|exact Eb].
        assert (plain_opt bn0 = true) as Hb0
          by (rewrite names_plain_ISub in Hpi; rewrite !andb_true_iff in Hpi; tauto).
        apply (add_collection_canon c0 sc bn0 e0 c' H0 (IHi Hpi sc eq_refl) Hb0 Ea).
      * destruct (build (IMod mn0 a0 nsi bn0 d0)) as [sc|] eqn:Es; [|discriminate].
        destruct (add_collection c0 sc bn0 d0) as [c'|] eqn:Ea; [|discriminate].
        apply (IHl IHrest Hpl c'); [|exact Eb].
        assert (plain_opt bn0 = true) as Hb0
          by (cbn [names_plain] in Hpi; rewrite !andb_true_iff in Hpi; tauto).
        apply (add_collection_canon c0 sc bn0 d0 c' H0 (IHi Hpi sc eq_refl) Hb0 Ea).
  - rewrite build_IMod in Hb. cbn [names_plain] in Hp. rewrite !andb_true_iff in Hp.
    destruct Hp as [[Hm Hbn] Hns].
    destruct (build nsitem) as [c1|] eqn:Eb; [|discriminate].
    eapply reimport_canon; [apply (IH Hns c1 eq_refl) | exact Hm | exact Hb].
Qed.

Lemma build_canonical it c : names_plain it = true -> build it = Ok c -> ns_canon c = true.
Proof. intros Hp Hb. apply canon'_ns_canon. eapply build_canon'; eauto. Qed.

(** * normalised names *)
Definition fch (ad : bool) : ascii := if ad then "_"%char else "-"%char.
Definition tch (ad : bool) : ascii := if ad then "-"%char else "_"%char.

Definition init_str (s : string) : string := take (String.length s - 1) s.

Lemma init_cons c s : s <> "" -> init_str (String c s) = String c (init_str s).
Proof.
  intros H. unfold init_str. destruct s as [|c2 s']; [congruence|].
  cbn [String.length]. rewrite !Nat.sub_succ, !Nat.sub_0_r. reflexivity.
Qed.

Lemma string_tail a x y : String a x = String a y -> x = y.
Proof. intros H. injection H as H1. exact H1. Qed.

Lemma fch_ne_tch ad : Ascii.eqb (tch ad) (fch ad) = false.
Proof. destruct ad; reflexivity. Qed.

(** a dot-free string after a non-dot character is left alone iff the
    rewritten character occurs at most as its last character *)
Lemma aux_fixed ad : forall s p,
  contains_char "." s = false -> Ascii.eqb p "." = false ->
  (transform_aux (fch ad) (tch ad) (Some p) s = s <-> contains_char (fch ad) (init_str s) = false).
Proof.
  induction s as [|c s IH]; intros p Hdf Hp; [simpl; tauto|].
  cbn [contains_char] in Hdf. apply orb_false_iff in Hdf as [Hc Hs].
  rewrite transform_aux_cons.
  destruct s as [|c2 s'].
  - unfold elig, hd_prot, tc. rewrite !andb_false_r. cbn. split; reflexivity.
  - rewrite init_cons by discriminate. cbn [contains_char].
    assert (elig (Some p) (String c2 s') = true) as He.
    { unfold elig, prot, hd_prot. rewrite Hp. cbn [contains_char] in Hs.
      apply orb_false_iff in Hs as [Hc2 _]. rewrite Hc2. reflexivity. }
    rewrite He. unfold tc. rewrite andb_true_r.
    specialize (IH c Hs Hc).
    destruct (Ascii.eqb c (fch ad)) eqn:E.
    + cbn [orb]. split; [|discriminate]. intros H. inversion H as [[H1 H2]].
      apply Ascii.eqb_eq in E. subst c. pose proof (fch_ne_tch ad) as F.
      rewrite H1, Ascii.eqb_refl in F. discriminate.
    + cbn [orb]. rewrite <- IH. split; intros H; [apply string_tail in H; exact H | rewrite H; reflexivity].
Qed.

Lemma seg_fixed ad seg : contains_char "." seg = false ->
  (transform ad seg = seg <-> contains_char (fch ad) (interior seg) = false).
Proof.
  intros Hdf. rewrite transform_as_aux. fold (fch ad) (tch ad).
  destruct seg as [|c s]; [simpl; tauto|].
  rewrite transform_aux_cons. unfold elig at 1. cbn [prot negb andb]. unfold tc at 1. rewrite andb_false_r.
  cbn [contains_char] in Hdf. apply orb_false_iff in Hdf as [Hc Hs].
  assert (interior (String c s) = init_str s) as Hi.
  { unfold interior, init_str. cbn [String.length]. rewrite Nat.sub_succ, Nat.sub_0_r.
    destruct s as [|c2 s']; [reflexivity|]. cbn [String.length take drop].
    rewrite Nat.sub_succ, Nat.sub_0_r. reflexivity. }
  rewrite Hi, <- (aux_fixed ad s c Hs Hc).
  split; intros H; [apply string_tail in H; exact H | rewrite H; reflexivity].
Qed.

Lemma map_fixed {A} (f : A -> A) l : map f l = l <-> Forall (fun x => f x = x) l.
Proof.
  induction l as [|x l IH]; [split; constructor|].
  cbn [map]. split; intros H.
  - injection H as H1 H2. constructor; [exact H1 | apply IH; exact H2].
  - inversion H as [|? ? H1 H2]; subst. rewrite H1. f_equal. apply IH; exact H2.
Qed.

(** the specification's notion of a normalised name is the fixed points of the
    implementation's [transform] *)
Lemma normalized_iff_fixed ad n : normalized ad n = true <-> transform ad n = n.
Proof.
  unfold normalized. rewrite forallb_forall.
  pose proof (split_segments_dotfree n) as Hdf. rewrite Forall_forall in Hdf.
  split.
  - intros H. rewrite <- (join_split (transform ad n)), split_transform.
    assert (map (transform ad) (split_char "." n) = split_char "." n) as Hm.
    { apply map_fixed. apply Forall_forall. intros seg Hin.
      apply (seg_fixed ad seg (Hdf seg Hin)). specialize (H seg Hin).
      apply negb_true_iff in H. destruct ad; exact H. }
    rewrite Hm. apply join_split.
  - intros H seg Hin.
    assert (map (transform ad) (split_char "." n) = split_char "." n) as Hm.
    { rewrite <- split_transform, H. reflexivity. }
    apply map_fixed in Hm. rewrite Forall_forall in Hm.
    apply negb_true_iff. pose proof (proj1 (seg_fixed ad seg (Hdf seg Hin)) (Hm seg Hin)) as R.
    destruct ad; exact R.
Qed.
