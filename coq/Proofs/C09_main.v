(** Proofs for C09: the property-level statements about [sig_cli]. *)
From InvokeVerif Require Import Model.SigCtxModel Spec.C09Spec
     Proofs.C09_facts Proofs.C09_sig Proofs.C09_ctx Proofs.C09_wf.
From Coq Require Import Lia Permutation.

Lemma sig_cli_ok s o :
  sig_cli s = Ok o ->
  exists c, add_args empty_ctx (get_arguments s) = Ok c /\
            o = mkCli (get_arguments s) (x_flags c) (x_flag_aliases c) (x_inverse c)
                      (x_positional c) (as_kwargs c) (bind_ok (s_params s) (as_kwargs c))
                      (map (kind_name_of_arg s) (get_arguments s)) (map takes_value (get_arguments s)).
Proof.
  unfold sig_cli. destruct (add_args empty_ctx (get_arguments s)) as [c|e]; [|discriminate].
  intros H; injection H as <-. now exists c.
Qed.

(** * accepted (outside F-C09c) *)
Theorem accepts s : wf_sig s = true -> exists o, sig_cli s = Ok o.
Proof.
  intros W. unfold sig_cli. rewrite (sig_ctx_closed_form s W). eexists. reflexivity.
Qed.

(** * all flag spellings distinct *)
Lemma names_perm l : Forall (fun a => a_names a <> []) l ->
  Permutation (flat_map a_names l) (map main_of l ++ flat_map nicks_of l).
Proof.
  intros F. induction l as [|a l IH]; simpl; [apply Permutation_refl|].
  inversion F as [|? ? Na F']; subst. rewrite (names_split a Na) at 1. simpl. apply perm_skip.
  eapply perm_trans; [apply Permutation_app_head, (IH F')|].
  rewrite !app_assoc. apply Permutation_app_tail.
  eapply perm_trans; [apply Permutation_app_comm|].
  apply Permutation_refl.
Qed.

Theorem flags_distinct_thm s o :
  wf_sig s = true -> sig_cli s = Ok o -> NoDup (all_spellings o).
Proof.
  intros W H. destruct (sig_cli_ok _ _ H) as [c [Hc ->]].
  destruct (sig_ctx_ok_closed_form s c W Hc) as [G ->].
  unfold all_spellings. cbn [o_flags o_flag_aliases T x_flags x_flag_aliases].
  rewrite keys_T_flags, keys_T_fal, <- map_app.
  eapply Permutation_NoDup; [apply Permutation_map, names_perm, (g_nonempty _ G)|].
  apply (g_flags _ G).
Qed.

(** * kwargs *)
Lemma as_kwargs_fold l : forall acc,
  NoDup (map fst acc ++ map arg_name l) ->
  fold_left (fun ret ka => aset (arg_name (snd ka)) (fresh_value (snd ka)) ret) (T_args l) acc =
  acc ++ map (fun a => (arg_name a, fresh_value a)) l.
Proof.
  induction l as [|a l IH]; intros acc ND; simpl; [now rewrite app_nil_r|].
  rewrite aset_fresh.
  2:{ apply (NoDup_app_disjoint _ _ _ ND). now left. }
  rewrite IH; [now rewrite <- app_assoc|].
  rewrite map_app. simpl. rewrite <- app_assoc. exact ND.
Qed.

Lemma as_kwargs_T l : NoDup (map arg_name l) ->
  as_kwargs (T l) = map (fun a => (arg_name a, fresh_value a)) l.
Proof. intros ND. unfold as_kwargs. cbn [x_args T]. now rewrite as_kwargs_fold. Qed.

Lemma arg_names_nodup s : wf_sig s = true -> NoDup (map arg_name (get_arguments s)).
Proof.
  intros W. destruct (wf_sig_parts s W) as (W1 & _ & _).
  eapply Permutation_NoDup; [apply Permutation_sym, one_arg_per_param | assumption].
Qed.

Theorem kwargs_bind s o :
  wf_sig s = true -> sig_cli s = Ok o ->
  o_kwargs o = map (fun a => (arg_name a, fresh_value a)) (get_arguments s) /\
  Permutation (map fst (o_kwargs o)) (map p_name (s_params s)) /\
  o_binds o = true.
Proof.
  intros W H. destruct (sig_cli_ok _ _ H) as [c [Hc ->]].
  destruct (sig_ctx_ok_closed_form s c W Hc) as [G ->].
  cbn [o_kwargs o_binds]. rewrite (as_kwargs_T _ (arg_names_nodup s W)).
  assert (K : map fst (map (fun a => (arg_name a, fresh_value a)) (get_arguments s)) =
              map arg_name (get_arguments s)) by (rewrite map_map; reflexivity).
  split; [reflexivity|]. split.
  - rewrite K. apply one_arg_per_param.
  - unfold bind_ok. rewrite K. apply andb_true_iff. split; apply forallb_forall.
    + intros kv Hkv. apply mem_In. apply in_map_iff in Hkv. destruct Hkv as [a [<- Ha]]. simpl.
      apply (Permutation_in _ (one_arg_per_param s)). now apply in_map.
    + intros p Hp. destruct (p_default p); try reflexivity. apply mem_In.
      apply (Permutation_in _ (Permutation_sym (one_arg_per_param s))). now apply in_map.
Qed.

(** the value each parameter carries *)
Theorem kwargs_values s o p :
  wf_sig s = true -> sig_cli s = Ok o -> In p (s_params s) ->
  exists v, aget (p_name p) (o_kwargs o) = Some v /\
    match p_default p with
    | DEmpty => True
    | d => v = to_aval d \/ (listish s p = true /\ v = AList [])
    end.
Proof.
  intros W H Hp. destruct (kwargs_bind s o W H) as (K & _ & _).
  assert (Hn : In (p_name p) (map arg_name (get_arguments s))).
  { apply (Permutation_in _ (Permutation_sym (one_arg_per_param s))). now apply in_map. }
  apply in_map_iff in Hn. destruct Hn as [a [En Ha]].
  destruct (get_arguments_in _ _ Ha) as [p' [t [Hp' Ea]]].
  assert (p' = p).
  { destruct (wf_sig_parts s W) as (W1 & _ & _).
    rewrite Ea, arg_name_arg_opts in En.
    clear - W1 Hp Hp' En. induction (s_params s) as [|q l IH]; [destruct Hp|].
    simpl in W1. inversion W1 as [|? ? N1 N2]; subst.
    destruct Hp as [->|Hp], Hp' as [->|Hp']; auto.
    - elim N1. rewrite <- En. now apply in_map.
    - elim N1. rewrite En. now apply in_map. }
  subst p'. exists (fresh_value a). split.
  - rewrite K. apply aget_nodup_in.
    + rewrite map_map. simpl. now apply arg_names_nodup.
    + apply in_map_iff. exists a. now rewrite En.
  - rewrite Ea. apply fresh_value_arg_opts.
Qed.

(** * refutation witnesses (the three known findings) *)
Definition deco0 : deco := mkDeco None [] [] [] true.

Definition sig_underscore : tsig := mkSig [mkParam "_" DEmpty] deco0.
Definition sig_steal : tsig := mkSig [mkParam "ab" DEmpty; mkParam "_a" DEmpty] deco0.
Definition sig_inverse : tsig := mkSig [mkParam "a" (DBool true); mkParam "no_a" (DBool false)] deco0.

Lemma underscore_refutes :
  wf_sig sig_underscore = true /\
  exists o, sig_cli sig_underscore = Ok o /\ map fst (o_flags o) = ["--"] /\
            flags_wellformed sig_underscore o = false.
Proof. split; [reflexivity|]. eexists. split; [reflexivity|]. split; reflexivity. Qed.

(** F-C09c is repaired (d208a4d): (ab, _a) is accepted, ab gets "-b", _a keeps "-a" *)
Lemma steal_fixed :
  wf_sig sig_steal = true /\
  exists o, sig_cli sig_steal = Ok o /\ all_spellings o = ["--ab"; "-a"; "-b"] /\
            spec_ok sig_steal (Ok o) = true.
Proof. split; [reflexivity|]. eexists. split; [reflexivity|]. split; reflexivity. Qed.

(** historical: the model of the code before d208a4d (taken_names without the
    dashed spellings) refused that signature *)
Definition get_arguments_before_d208a4d (s : tsig) : list argspec :=
  let pos := fill_implicit_positionals s in
  reorder pos (build_args (s_deco s) pos (s_params s) (map p_name (s_params s))).

Lemma steal_historical_refutes :
  wf_sig sig_steal = true /\ all_have_core sig_steal = true /\
  add_args empty_ctx (get_arguments_before_d208a4d sig_steal) = Err EValue.
Proof. repeat split. Qed.

Lemma inverse_refutes :
  wf_sig sig_inverse = true /\ all_have_core sig_inverse = true /\
  exists o, sig_cli sig_inverse = Ok o /\ flags_distinct o = false /\
            In "--no-a" (map fst (o_flags o)) /\ In "--no-a" (map fst (o_inverse o)).
Proof.
  repeat split. eexists. split; [reflexivity|]. split; [reflexivity|]. split; simpl; tauto.
Qed.

(** The '-' repair: (a, a_b) no longer yields the flag "--". *)
Lemma dash_fix_example :
  exists o, sig_cli (mkSig [mkParam "a" DEmpty; mkParam "a_b" DEmpty] deco0) = Ok o /\
            all_spellings o = ["-a"; "--a-b"; "-b"] /\
            spec_ok (mkSig [mkParam "a" DEmpty; mkParam "a_b" DEmpty] deco0) (Ok o) = true.
Proof. eexists. split; [reflexivity|]. split; reflexivity. Qed.
