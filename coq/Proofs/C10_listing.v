(** C10, the listings, any depth.

    [flat_rows] / [nested_rows] (Model/CollModel.v) are compared with a
    reference flattening [tnt] that carries, for every binding of a task in
    the tree, its primary dotted name, the identity of the task and the names
    it also answers to.  [tnt] is [C10_parser.tn] plus the task identities
    ([tnt_tn]); it is also the specification's [flat_expected] up to the order
    of aliases ([tnt_expected]).

    Main statements (all general in the tree, any depth):
    - [flat_listing]: the flat listing is, up to the order of the lines, one
      line per entry of [tnt c]: same dotted name, same task, the same aliases
      up to order.  Guard: [ns_wf c] and [ns_canon c] only.
    - [nested_listing]: the nested listing read back with the specification's
      [nested_shown] is, up to the order of lines, [rel_entries c []].
    - [flat_listed_once], [flat_listed_accepted], [flat_listed_task]: inside
      [deep_guard] (uniform auto-dash, no binding-time aliases, no default
      sub-collection below the root ...: the guard that excludes F-C10b/c/d)
      every task is listed exactly once, and every name the listing displays
      is accepted by the parser registry, runs the task the line stands for,
      and [coll[name]] is that task. *)
From Coq Require Import Lia Permutation.
From InvokeVerif Require Import Model.CollModel Spec.C17Spec Spec.C10Spec Corr.C10Corr.
From InvokeVerif Require Import Proofs.CollStrings Proofs.C17_merge Proofs.C17_path Proofs.C10_build
     Proofs.C10_flat Proofs.C10_deep Proofs.C10_names Proofs.C10_token Proofs.C10_parser.

(** * sorting is a permutation *)
Lemma insert_by_perm {A} (key : A -> string) x l : Permutation (insert_by key x l) (x :: l).
Proof.
  induction l as [|y l IH]; cbn [insert_by]; [reflexivity|].
  destruct (String.ltb (key x) (key y)); [reflexivity|].
  rewrite IH. apply perm_swap.
Qed.

Lemma sort_by_perm {A} (key : A -> string) l : Permutation (sort_by key l) l.
Proof.
  unfold sort_by.
  assert (forall acc, Permutation (fold_left (fun acc x => insert_by key x acc) l acc) (l ++ acc)) as H.
  { induction l as [|x l IH]; intros acc; cbn [fold_left app]; [reflexivity|].
    rewrite IH, insert_by_perm. symmetry. apply Permutation_middle. }
  rewrite H, app_nil_r. reflexivity.
Qed.

Lemma flat_map_perm {A B} (f : A -> list B) l1 l2 :
  Permutation l1 l2 -> Permutation (flat_map f l1) (flat_map f l2).
Proof.
  induction 1; cbn [flat_map].
  - reflexivity.
  - apply Permutation_app_head; assumption.
  - rewrite !app_assoc. apply Permutation_app_tail, Permutation_app_comm.
  - etransitivity; eassumption.
Qed.

(** * fetching a sub-collection by its key *)
Fixpoint pick {B} (G : coll -> B) (d : B) (l : list (string * coll)) (k : string) : B :=
  match l with
  | [] => d
  | (k', sc) :: l' => if String.eqb k k' then G sc else pick G d l' k
  end.

Lemma pick_assoc {B} (G : coll -> B) d l k :
  pick G d l k = match assoc k l with Some sc => G sc | None => d end.
Proof.
  induction l as [|[k' sc] l IH]; cbn [pick assoc]; [reflexivity|].
  destruct (String.eqb k k'); [reflexivity | exact IH].
Qed.

(** visiting the keys of an association list without repeated keys, in any
    order, visits its elements *)
Lemma visit_keys {B} (F : string -> coll -> list B) (subs : list (string * coll)) :
  NoDup (akeys subs) ->
  flat_map (fun k => pick (F k) [] subs k) (akeys subs) = flat_map (fun kc => F (fst kc) (snd kc)) subs.
Proof.
  intros ND.
  assert (forall l, (forall kc, In kc l -> In kc subs) ->
            flat_map (fun k => pick (F k) [] subs k) (akeys l) =
            flat_map (fun kc => F (fst kc) (snd kc)) l) as H.
  { induction l as [|[k sc] l IH]; intros Hsub; [reflexivity|].
    cbn [akeys map fst flat_map snd]. f_equal.
    - rewrite pick_assoc, (assoc_in_nodup k sc subs ND); [reflexivity | apply Hsub; left; reflexivity].
    - apply IH. intros kc H. apply Hsub; right; exact H. }
  apply H. auto.
Qed.

(** * dotted names *)
Definition pdot (anc : list string) (s : string) : string :=
  match anc with [] => s | _ => (join "." anc ++ "." ++ s)%string end.

Lemma str_app_assoc (a b c : string) : ((a ++ b) ++ c = a ++ (b ++ c))%string.
Proof. induction a as [|ch a IH]; [reflexivity|]. cbn. rewrite IH. reflexivity. Qed.

Lemma join_snoc l x : l <> [] -> join "." (l ++ [x]) = (join "." l ++ "." ++ x)%string.
Proof.
  induction l as [|y l IH]; intros H; [contradiction|].
  destruct l as [|z l]; [reflexivity|].
  change (join "." ((y :: z :: l) ++ [x])) with (y ++ "." ++ join "." ((z :: l) ++ [x]))%string.
  rewrite IH by discriminate.
  change (join "." (y :: z :: l)) with (y ++ "." ++ join "." (z :: l))%string.
  rewrite !str_app_assoc. reflexivity.
Qed.

Lemma pdot_join anc s : pdot anc s = join "." (anc ++ [s]).
Proof.
  unfold pdot. destruct anc as [|a l]; [reflexivity|]. rewrite join_snoc by discriminate. reflexivity.
Qed.

Lemma pdot_pfx anc cn x : pdot anc (dot_pfx cn x) = pdot (anc ++ [cn]) x.
Proof.
  unfold dot_pfx. rewrite (pdot_join (anc ++ [cn]) x), join_snoc by (destruct anc; discriminate).
  rewrite <- pdot_join. unfold pdot. destruct anc as [|a l]; [reflexivity|].
  rewrite !str_app_assoc. reflexivity.
Qed.

Lemma pdot_self anc cn : pdot anc cn = join "." (anc ++ [cn]).
Proof. apply pdot_join. Qed.

Lemma contains_dot_pfx cn x : contains_char "." (dot_pfx cn x) = true.
Proof.
  unfold dot_pfx. induction cn as [|ch cn IH]; [reflexivity|].
  simpl in *. rewrite IH. apply orb_true_r.
Qed.

(** * list helpers *)
Lemma Forall2_map_same {A B C} (R : B -> C -> Prop) (f : A -> B) (g : A -> C) l :
  (forall x, In x l -> R (f x) (g x)) -> Forall2 R (map f l) (map g l).
Proof.
  induction l as [|x l IH]; intros H; cbn [map]; constructor.
  - apply H; left; reflexivity.
  - apply IH. intros y Hy. apply H; right; exact Hy.
Qed.

Lemma Forall2_flat_map_same {A B C} (R : B -> C -> Prop) (f : A -> list B) (g : A -> list C) l :
  (forall x, In x l -> Forall2 R (f x) (g x)) -> Forall2 R (flat_map f l) (flat_map g l).
Proof.
  induction l as [|x l IH]; intros H; cbn [flat_map]; [constructor|].
  apply Forall2_app.
  - apply H; left; reflexivity.
  - apply IH. intros y Hy. apply H; right; exact Hy.
Qed.

Lemma Forall2_map_right {A B C} (R : A -> C -> Prop) (g : B -> C) l1 l2 :
  Forall2 (fun a b => R a (g b)) l1 l2 -> Forall2 R l1 (map g l2).
Proof. induction 1; cbn [map]; constructor; assumption. Qed.

Lemma Forall2_map_left {A B C} (R : C -> B -> Prop) (f : A -> C) l1 l2 :
  Forall2 (fun a b => R (f a) b) l1 l2 -> Forall2 R (map f l1) l2.
Proof. induction 1; cbn [map]; constructor; assumption. Qed.

Lemma Forall2_weaken {A B} (R R' : A -> B -> Prop) l1 l2 :
  (forall a b, R a b -> R' a b) -> Forall2 R l1 l2 -> Forall2 R' l1 l2.
Proof. intros H. induction 1; constructor; auto. Qed.

Lemma flat_map_perm_pointwise {A B} (f g : A -> list B) l :
  (forall x, In x l -> Permutation (f x) (g x)) -> Permutation (flat_map f l) (flat_map g l).
Proof.
  induction l as [|x l IH]; intros H; cbn [flat_map]; [reflexivity|].
  apply Permutation_app.
  - apply H; left; reflexivity.
  - apply IH. intros y Hy. apply H; right; exact Hy.
Qed.

(** * the reference flattening with task identities *)
Definition lentry := (string * nat * list string)%type.
Definition le_name (e : lentry) : string := fst (fst e).
Definition le_task (e : lentry) : nat := snd (fst e).
Definition le_aliases (e : lentry) : list string := snd e.

Definition own_entries (ad : bool) (tasks : list (string * taskinfo)) : list lentry :=
  map (fun kt => (fst kt, t_id (snd kt), map (transform ad) (t_aliases (snd kt)))) tasks.

Definition le_sub (cn : string) (sc : coll) (e : lentry) : lentry :=
  (dot_pfx cn (le_name e), le_task e,
   map (dot_pfx cn) (le_aliases e) ++
   (if opt_str_eqb (c_default sc) (Some (le_name e)) then [cn] else [])).

Fixpoint tnt (c : coll) : list lentry :=
  match c with
  | Coll _ tasks _ subs _ ad _ =>
      own_entries ad tasks ++
      (fix go (l : list (string * coll)) : list lentry :=
         match l with
         | [] => []
         | (cn, sc) :: l' => map (le_sub cn sc) (tnt sc) ++ go l'
         end) subs
  end.

Lemma tnt_unfold n tasks aliases subs d ad g :
  tnt (Coll n tasks aliases subs d ad g) =
  own_entries ad tasks ++ flat_map (fun kc => map (le_sub (fst kc) (snd kc)) (tnt (snd kc))) subs.
Proof.
  cbn [tnt]. f_equal. induction subs as [|[cn sc] l IH]; [reflexivity|].
  cbn [flat_map fst snd]. rewrite IH. reflexivity.
Qed.

(** forgetting the identities gives the flattening the parser registry is
    built from *)
Lemma tnt_tn : forall c, map (fun e => (le_name e, le_aliases e)) (tnt c) = tn c.
Proof.
  induction c as [n tasks aliases subs dflt ad cfg IH] using coll_ind'.
  rewrite tnt_unfold, tn_unfold, map_app. f_equal.
  - unfold own_entries, own_names. rewrite map_map. reflexivity.
  - induction IH as [|[cn sc] l Hx _ IHl]; [reflexivity|].
    cbn [flat_map fst snd] in *. rewrite map_app, IHl. f_equal.
    rewrite <- Hx. unfold tn_sub. rewrite !map_map. reflexivity.
Qed.

(** * the listing functions, unfolded *)
Definition task_row (anc : list string) (dflt : option string) (ad : bool)
           (kt : string * taskinfo) : row :=
  let als := map (fun a => pdot anc (transform ad a)) (sort_by (fun x => x) (t_aliases (snd kt))) in
  let als' := match anc with
              | [] => als
              | _ => if is_default dflt (fst kt) then join "." anc :: als else als
              end in
  (0, pdot anc (fst kt), als', Some (t_id (snd kt))).

Lemma flat_rows_unfold n tasks aliases subs dflt ad cfg anc :
  flat_rows (Coll n tasks aliases subs dflt ad cfg) anc =
  map (task_row anc dflt ad) (sort_by fst tasks) ++
  flat_map (fun k => pick (fun sc => flat_rows sc (anc ++ [k])) [] subs k)
           (sort_by (fun x => x) (akeys subs)).
Proof.
  cbn [flat_rows]. f_equal. apply flat_map_ext. intros k.
  induction subs as [|[k' sc] l IH]; [reflexivity|].
  cbn [pick]. destruct (String.eqb k k'); [reflexivity | exact IH].
Qed.

(** the same lines, in the order of the tree *)
Fixpoint ref_rows (c : coll) (anc : list string) {struct c} : list row :=
  match c with
  | Coll _ tasks _ subs dflt ad _ =>
      map (task_row anc dflt ad) tasks ++
      (fix go (l : list (string * coll)) : list row :=
         match l with
         | [] => []
         | (k, sc) :: l' => ref_rows sc (anc ++ [k]) ++ go l'
         end) subs
  end.

Lemma ref_rows_unfold n tasks aliases subs dflt ad cfg anc :
  ref_rows (Coll n tasks aliases subs dflt ad cfg) anc =
  map (task_row anc dflt ad) tasks ++
  flat_map (fun kc => ref_rows (snd kc) (anc ++ [fst kc])) subs.
Proof.
  cbn [ref_rows]. f_equal. induction subs as [|[cn sc] l IH]; [reflexivity|].
  cbn [flat_map fst snd]. rewrite IH. reflexivity.
Qed.

Lemma wf_subs_nodup n tasks aliases subs dflt ad cfg :
  ns_wf (Coll n tasks aliases subs dflt ad cfg) = true ->
  NoDup (akeys tasks ++ akeys aliases ++ akeys subs) /\
  (forall kc, In kc subs -> ns_wf (snd kc) = true).
Proof.
  rewrite ns_wf_unfold, !andb_true_iff. intros [[[[H1 _] _] _] H2].
  apply nodupb_NoDup in H1. rewrite forallb_forall in H2. auto.
Qed.

Lemma flat_perm : forall c, ns_wf c = true -> forall anc, Permutation (flat_rows c anc) (ref_rows c anc).
Proof.
  induction c as [n tasks aliases subs dflt ad cfg IH] using coll_ind'.
  intros Hwf anc. destruct (wf_subs_nodup _ _ _ _ _ _ _ Hwf) as [ND Hsubs].
  rewrite Forall_forall in IH.
  rewrite flat_rows_unfold, ref_rows_unfold. apply Permutation_app.
  - apply Permutation_map, sort_by_perm.
  - rewrite (flat_map_perm _ _ _ (sort_by_perm (fun x => x) (akeys subs))).
    rewrite (visit_keys (fun k sc => flat_rows sc (anc ++ [k]))).
    + apply flat_map_perm_pointwise. intros kc Hkc. apply IH; [exact Hkc | apply Hsubs; exact Hkc].
    + apply NoDup_app_r in ND. apply NoDup_app_r in ND. exact ND.
Qed.

(** * one line per entry *)
Definition row_for (anc : list string) (dflt : option string) (r : row) (e : lentry) : Prop :=
  r_depth r = 0 /\ r_name r = pdot anc (le_name e) /\ r_task r = Some (le_task e) /\
  Permutation (r_aliases r)
    (map (pdot anc) (le_aliases e) ++
     match anc with
     | [] => []
     | _ => if is_default dflt (le_name e) then [join "." anc] else []
     end).

Lemma default_dotfree n tasks aliases subs d ad cfg :
  ns_wf (Coll n tasks aliases subs (Some d) ad cfg) = true ->
  ns_canon (Coll n tasks aliases subs (Some d) ad cfg) = true ->
  contains_char "." d = false.
Proof.
  rewrite ns_wf_unfold, ns_canon_unfold, !andb_true_iff. intros [[[[_ _] Hm] _] _] [Hk _].
  rewrite forallb_forall in Hk.
  apply orb_true_iff in Hm. destruct Hm as [Hm|Hm]; apply mem_In in Hm.
  - apply (key_ok_spec ad d), Hk. apply in_or_app; left; exact Hm.
  - apply (key_ok_spec ad d), Hk. apply in_or_app; right. apply in_or_app; right; exact Hm.
Qed.

Lemma ref_rows_tnt : forall c, ns_wf c = true -> ns_canon c = true ->
  forall anc, Forall2 (row_for anc (c_default c)) (ref_rows c anc) (tnt c).
Proof.
  induction c as [n tasks aliases subs dflt ad cfg IH] using coll_ind'.
  intros Hwf Hcan anc. pose proof Hwf as Hwf0. pose proof Hcan as Hcan0.
  destruct (wf_subs_nodup _ _ _ _ _ _ _ Hwf) as [ND Hsubs].
  rewrite ns_canon_unfold in Hcan. apply andb_true_iff in Hcan as [_ Hcsubs].
  rewrite forallb_forall in Hcsubs. rewrite Forall_forall in IH.
  rewrite ref_rows_unfold, tnt_unfold. cbn [c_default]. apply Forall2_app.
  - unfold own_entries. apply Forall2_map_same. intros [k t] _.
    unfold row_for, task_row, r_depth, r_name, r_task, r_aliases, le_name, le_task, le_aliases.
    cbn [fst snd]. repeat split.
    rewrite map_map.
    assert (Permutation (map (fun a => pdot anc (transform ad a)) (sort_by (fun x => x) (t_aliases t)))
                        (map (fun a => pdot anc (transform ad a)) (t_aliases t))) as HP
      by (apply Permutation_map, sort_by_perm).
    destruct anc as [|a0 anc0].
    + rewrite app_nil_r. exact HP.
    + destruct (is_default dflt k).
      * rewrite HP. apply Permutation_cons_append.
      * rewrite app_nil_r. exact HP.
  - apply Forall2_flat_map_same. intros [cn sc] Hkc. cbn [fst snd].
    apply Forall2_map_right.
    pose proof (IH _ Hkc (Hsubs _ Hkc) (Hcsubs _ Hkc) (anc ++ [cn])) as H. cbn [snd] in H.
    revert H. apply Forall2_weaken. intros r e [Hd [Hn [Ht Ha]]].
    unfold row_for, le_sub, le_name, le_task, le_aliases in *. cbn [fst snd].
    repeat split; try assumption.
    + rewrite pdot_pfx. exact Hn.
    + rewrite Ha. clear Ha.
      assert (is_default dflt (dot_pfx cn (fst (fst e))) = false) as Hnd.
      { unfold is_default. destruct dflt as [d|]; [|reflexivity]. cbn [opt_str_eqb].
        apply String.eqb_neq. intros E.
        pose proof (default_dotfree _ _ _ _ _ _ _ Hwf0 Hcan0) as Hd0.
        rewrite E, contains_dot_pfx in Hd0. discriminate. }
      rewrite Hnd.
      assert (match anc with [] => [] | _ :: _ => @nil string end = []) as E0 by (destruct anc; reflexivity).
      rewrite E0, app_nil_r, map_app, map_map.
      rewrite (map_ext (fun x => pdot anc (dot_pfx cn x)) (pdot (anc ++ [cn])))
        by (intros x; apply pdot_pfx).
      apply Permutation_app_head.
      unfold is_default.
      destruct (anc ++ [cn]) as [|a1 l1] eqn:Eanc; [destruct anc; discriminate|]. rewrite <- Eanc.
      destruct (opt_str_eqb (c_default sc) (Some (fst (fst e)))); [|reflexivity].
      cbn [map]. rewrite pdot_join. reflexivity.
Qed.

(** the flat listing, as a relation between lists *)
Definition listing_lines (R : row -> lentry -> Prop) (rows : list row) (ents : list lentry) : Prop :=
  exists rows', Permutation rows rows' /\ Forall2 R rows' ents.

Definition flat_line (r : row) (e : lentry) : Prop :=
  r_depth r = 0 /\ r_name r = le_name e /\ r_task r = Some (le_task e) /\
  Permutation (r_aliases r) (le_aliases e).

Theorem flat_listing c :
  ns_wf c = true -> ns_canon c = true -> listing_lines flat_line (flat_rows c []) (tnt c).
Proof.
  intros Hwf Hcan. exists (ref_rows c []). split; [apply flat_perm; exact Hwf|].
  pose proof (ref_rows_tnt c Hwf Hcan []) as H. revert H. apply Forall2_weaken.
  intros r e [Hd [Hn [Ht Ha]]]. unfold flat_line. repeat split; try assumption.
  rewrite Ha, app_nil_r. cbn [pdot]. rewrite map_id. reflexivity.
Qed.

(** * the primary name of an entry resolves to the entry's task *)
Lemma primary_resolves : forall c, ns_wf c = true -> ns_canon c = true ->
  forall e, In e (tnt c) ->
  exists t cfgs, ref_path c (split_char "." (le_name e)) = Some (t, cfgs) /\ t_id t = le_task e.
Proof.
  induction c as [nm tasks aliases subs dflt ad cfg IH] using coll_ind'.
  intros Hwf Hcan e HIn.
  destruct (wf_subs_nodup _ _ _ _ _ _ _ Hwf) as [Hnd1 Hwsubs].
  rewrite ns_canon_unfold in Hcan. apply andb_true_iff in Hcan as [Hkeys Hcsubs].
  rewrite forallb_forall in Hkeys, Hcsubs. rewrite Forall_forall in IH.
  assert (NoDup (akeys tasks)) as NDt by (apply (NoDup_app_l _ _ Hnd1)).
  rewrite tnt_unfold in HIn. apply in_app_or in HIn. destruct HIn as [HIn|HIn].
  - unfold own_entries in HIn. apply in_map_iff in HIn. destruct HIn as [[k t] [E HIn]]. subst e.
    unfold le_name, le_task. cbn [fst snd].
    assert (In k (akeys tasks)) as Hk by (change k with (fst (k, t)); apply in_map; exact HIn).
    assert (contains_char "." k = false) as Hd.
    { apply (key_ok_spec ad k), Hkeys. apply in_or_app; left; exact Hk. }
    exists t. rewrite (split_dotfree k Hd), ref_unfold. unfold ref_step, sub_ref.
    assert (assoc k subs = None) as Hs.
    { apply assoc_none. apply (task_not_sub tasks aliases subs Hnd1 k Hk). }
    rewrite Hs. unfold task_here. cbn [c_tasks c_aliases].
    rewrite (assoc_in_nodup k t tasks NDt HIn). eauto.
  - apply in_flat_map in HIn. destruct HIn as [[cn sc] [Hkc HIn]]. cbn [fst snd] in HIn.
    apply in_map_iff in HIn. destruct HIn as [e0 [E He0]]. subst e.
    destruct (IH _ Hkc (Hwsubs _ Hkc) (Hcsubs _ Hkc) e0 He0) as [t [cfgs' [Hr Hid]]].
    exists t. unfold le_sub, le_name, le_task in *. cbn [fst snd] in *.
    assert (In cn (akeys subs)) as Hcn by (change cn with (fst (cn, sc)); apply in_map; exact Hkc).
    assert (contains_char "." cn = false) as Hcd.
    { apply (key_ok_spec ad cn), Hkeys. apply in_or_app; right. apply in_or_app; right; exact Hcn. }
    assert (NoDup (akeys subs)) as NDs by (apply NoDup_app_r in Hnd1; apply NoDup_app_r in Hnd1; exact Hnd1).
    assert (assoc cn subs = Some sc) as Hs by (apply assoc_in_nodup; assumption).
    rewrite (split_pfx cn _ Hcd), ref_unfold. unfold ref_step.
    destruct (split_char "." (fst (fst e0))) as [|y l] eqn:Es; [exfalso; eapply split_nonempty; eauto|].
    unfold sub_ref. rewrite Hs, Hr. cbn [ref_push]. eauto.
Qed.

Lemma Forall2_in_l {A B} (R : A -> B -> Prop) l1 l2 a :
  Forall2 R l1 l2 -> In a l1 -> exists b, In b l2 /\ R a b.
Proof.
  induction 1 as [|x y l1 l2 Hxy _ IH]; intros HIn; [contradiction|].
  destruct HIn as [<-|HIn]; [exists y; split; [left; reflexivity | exact Hxy]|].
  destruct (IH HIn) as [b [Hb Hr]]. exists b. split; [right; exact Hb | exact Hr].
Qed.

Lemma Forall2_in_r {A B} (R : A -> B -> Prop) l1 l2 b :
  Forall2 R l1 l2 -> In b l2 -> exists a, In a l1 /\ R a b.
Proof.
  induction 1 as [|x y l1 l2 Hxy _ IH]; intros HIn; [contradiction|].
  destruct HIn as [<-|HIn]; [exists x; split; [left; reflexivity | exact Hxy]|].
  destruct (IH HIn) as [a [Ha Hr]]. exists a. split; [right; exact Ha | exact Hr].
Qed.

Lemma Forall2_flat_map_perm {A B C} (f : A -> list C) (g : B -> list C) (R : A -> B -> Prop) l1 l2 :
  (forall a b, R a b -> Permutation (f a) (g b)) ->
  Forall2 R l1 l2 -> Permutation (flat_map f l1) (flat_map g l2).
Proof.
  intros H. induction 1; cbn [flat_map]; [reflexivity|]. apply Permutation_app; auto.
Qed.

Lemma Forall2_map_eq {A B C} (f : A -> C) (g : B -> C) (R : A -> B -> Prop) l1 l2 :
  (forall a b, R a b -> f a = g b) -> Forall2 R l1 l2 -> map f l1 = map g l2.
Proof. intros H. induction 1; cbn [map]; [reflexivity|]. f_equal; auto. Qed.

(** * inside the guard: what the command line does with a listed name *)
Theorem listed_name_accepted c :
  deep_guard c = true ->
  forall e, In e (tnt c) -> forall m, In m (le_name e :: le_aliases e) ->
    canonical (c_auto_dash c) m = true /\
    (exists t, getitem c m = Ok t /\ t_id t = le_task e) /\
    accepted (model_nobs c m) = true /\
    cli_run c m = Ok (Some (le_task e)).
Proof.
  intros G e He m Hm. pose proof G as G0.
  unfold deep_guard in G. rewrite !andb_true_iff in G.
  destruct G as [[[[[[Hu Hwf] Hcan] Hat] Hnd] Hcd] Hnn].
  set (ad := c_auto_dash c) in *.
  set (pa := (le_name e, le_aliases e)).
  assert (In pa (tn c)) as Hpa.
  { rewrite <- tnt_tn. apply (in_map (fun e => (le_name e, le_aliases e))). exact He. }
  assert (forall m0, In m0 (all_names (tn c)) -> canonical ad m0 = true) as Hcanon.
  { intros m0 Hm0. unfold canonical. pose proof (tn_nonempty_segs ad c Hu Hcan Hat m0 Hm0) as Hs.
    unfold nonempty_segs in Hs. rewrite Hs. cbn [andb].
    apply normalized_iff_fixed. apply in_all_names in Hm0. destruct Hm0 as [pa0 [Hpa0 Hm0]].
    destruct (tn_fixed ad c Hu Hcan pa0 Hpa0) as [F1 F2]. destruct Hm0 as [<-|Hm0]; [exact F1 | apply F2; exact Hm0]. }
  assert (canonical ad m = true) as Hc.
  { apply Hcanon. apply in_all_names. exists pa. split; [exact Hpa | exact Hm]. }
  destruct (entries_resolve ad c Hu Hwf Hcan Hat pa Hpa) as [t Ht].
  destruct (primary_resolves c Hwf Hcan e He) as [t' [cfgs' [Hr' Hid]]].
  destruct (Ht (le_name e) (or_introl eq_refl)) as [cfgs0 Hr0]. rewrite Hr0 in Hr'.
  injection Hr' as -> _.
  destruct (Ht m Hm) as [cfgs Hr].
  assert (getitem c m = Ok t') as Hg.
  { apply (lookup_iff_reference c m t' Hu Hwf Hcan Hcd Hc). eauto. }
  assert (m <> "") as Hne by (apply (canonical_nonempty ad); exact Hc).
  pose proof (deep_names_agree c m G0 Hne) as Hok.
  unfold name_ok in Hok. apply andb_true_iff in Hok as [Hacc Hrun].
  fold ad in Hacc. rewrite Hc in Hacc.
  assert (resolves (model_nobs c m) = true) as Hres.
  { unfold resolves, model_nobs. cbn [o_contains]. unfold contains. rewrite Hg. reflexivity. }
  rewrite Hres in Hacc. cbn [andb] in Hacc. apply Bool.eqb_prop in Hacc.
  split; [exact Hc|]. split; [exists t'; split; [exact Hg | exact Hid]|]. split; [exact Hacc|].
  rewrite Hacc in Hrun. unfold model_nobs in Hrun. cbn [o_ran o_getitem] in Hrun. rewrite Hg in Hrun.
  destruct (cli_run c m) as [[i|]|err]; try discriminate.
  apply Nat.eqb_eq in Hrun. subst i. rewrite Hid. reflexivity.
Qed.

(** * the flat listing inside the guard *)
Definition row_names (r : row) : list string := r_name r :: r_aliases r.
Definition entry_names (e : lentry) : list string := le_name e :: le_aliases e.

Lemma flat_line_names r e : flat_line r e -> Permutation (row_names r) (entry_names e).
Proof. intros [_ [Hn [_ Ha]]]. unfold row_names, entry_names. rewrite Hn. apply perm_skip, Ha. Qed.

Lemma all_names_tnt c : all_names (tn c) = flat_map entry_names (tnt c).
Proof.
  rewrite <- tnt_tn. unfold all_names. induction (tnt c) as [|e l IH]; [reflexivity|].
  cbn [map flat_map fst snd]. rewrite IH. reflexivity.
Qed.

(** every line stands for an entry and every entry has its line: names are
    listed exactly once, and no displayed name (primary or alias) occurs twice
    anywhere in the listing *)
Theorem flat_listed_once c :
  deep_guard c = true ->
  Permutation (map r_name (flat_rows c [])) (map le_name (tnt c)) /\
  NoDup (map le_name (tnt c)) /\
  NoDup (flat_map row_names (flat_rows c [])) /\
  (forall e, In e (tnt c) -> exists r, In r (flat_rows c []) /\ flat_line r e) /\
  (forall r, In r (flat_rows c []) -> exists e, In e (tnt c) /\ flat_line r e).
Proof.
  intros G. unfold deep_guard in G. rewrite !andb_true_iff in G.
  destruct G as [[[[[[Hu Hwf] Hcan] Hat] Hnd] Hcd] Hnn]. apply nodupb_NoDup in Hnn.
  destruct (flat_listing c Hwf Hcan) as [rows' [HP HF]].
  assert (map le_name (tnt c) = map fst (tn c)) as Hprims.
  { rewrite <- tnt_tn, map_map. reflexivity. }
  repeat split.
  - rewrite (Permutation_map r_name HP).
    rewrite (Forall2_map_eq r_name le_name flat_line rows' (tnt c)); [reflexivity | | exact HF].
    intros a b [_ [H _]]. exact H.
  - rewrite Hprims. apply prims_nodup; exact Hnn.
  - apply (Permutation_NoDup (l := all_names (tn c))); [|exact Hnn].
    rewrite all_names_tnt. symmetry. rewrite (flat_map_perm row_names _ _ HP).
    apply (Forall2_flat_map_perm row_names entry_names flat_line); [apply flat_line_names | exact HF].
  - intros e He. destruct (Forall2_in_r _ _ _ e HF He) as [r [Hr Hl]].
    exists r. split; [apply (Permutation_in r (Permutation_sym HP)); exact Hr | exact Hl].
  - intros r Hr. apply (Permutation_in r HP) in Hr.
    destruct (Forall2_in_l _ _ _ r HF Hr) as [e [He Hl]]. eauto.
Qed.

(** every name a line of the flat listing displays is accepted by the parser
    registry, runs the task the line stands for, and looks up to that task *)
Theorem flat_listed_accepted c :
  deep_guard c = true ->
  forall r, In r (flat_rows c []) -> forall m, In m (row_names r) ->
    canonical (c_auto_dash c) m = true /\
    accepted (model_nobs c m) = true /\
    cli_run c m = Ok (r_task r) /\
    exists t, getitem c m = Ok t /\ r_task r = Some (t_id t).
Proof.
  intros G r Hr m Hm.
  destruct (flat_listed_once c G) as [_ [_ [_ [_ Hrows]]]].
  destruct (Hrows r Hr) as [e [He Hl]].
  pose proof (Permutation_in m (flat_line_names r e Hl) Hm) as Hm'.
  destruct (listed_name_accepted c G e He m Hm') as [Hc [[t [Hg Hid]] [Hacc Hrun]]].
  destruct Hl as [_ [_ [Ht _]]].
  split; [exact Hc|]. split; [exact Hacc|]. split; [rewrite Ht; exact Hrun|].
  exists t. split; [exact Hg | rewrite Ht, Hid; reflexivity].
Qed.

(** * the nested listing *)
(** string facts for reading the display back ([strip_dot], [strip_star]) *)
Lemma rev_aux_app a b acc : string_rev_aux (a ++ b) acc = string_rev_aux b (string_rev_aux a acc).
Proof. revert acc. induction a as [|ch a IH]; intros acc; [reflexivity|]. cbn. apply IH. Qed.

Lemma rev_aux_rev s : forall acc acc2,
  string_rev_aux (string_rev_aux s acc) acc2 = string_rev_aux acc (s ++ acc2)%string.
Proof. induction s as [|ch s IH]; intros acc acc2; [reflexivity|]. cbn. rewrite IH. reflexivity. Qed.

Lemma str_app_nil_r (s : string) : (s ++ "")%string = s.
Proof. induction s as [|ch s IH]; [reflexivity|]. cbn. rewrite IH. reflexivity. Qed.

Lemma string_rev_involutive s : string_rev (string_rev s) = s.
Proof. unfold string_rev. rewrite rev_aux_rev. cbn. apply str_app_nil_r. Qed.

Lemma strip_star_starred k : strip_star (k ++ "*") = k.
Proof.
  unfold strip_star. unfold string_rev at 1. rewrite rev_aux_app. cbn [string_rev_aux].
  fold (string_rev k). apply string_rev_involutive.
Qed.

(** a name that does not end in '*' *)
Definition nostar (k : string) : bool :=
  match string_rev k with String "*" _ => false | _ => true end.

Lemma strip_star_plain k : nostar k = true -> strip_star k = k.
Proof.
  unfold nostar, strip_star. destruct (string_rev k) as [|ch r]; [reflexivity|].
  destruct (Ascii.eqb ch "*") eqn:E.
  - apply Ascii.eqb_eq in E. subst ch. discriminate.
  - intros _. destruct ch as [[] [] [] [] [] [] [] []]; try reflexivity. discriminate.
Qed.

Definition nrel (anc : list string) (s : string) : string :=
  match anc with [] => s | _ => ("." ++ s)%string end.

Lemma strip_dot_nrel anc s : contains_char "." s = false -> strip_dot (nrel anc s) = s.
Proof.
  intros H. unfold nrel. destruct anc; [|reflexivity].
  destruct s as [|ch s]; [reflexivity|]. cbn [contains_char] in H. apply orb_false_iff in H as [H _].
  unfold strip_dot. destruct ch as [[] [] [] [] [] [] [] []]; try reflexivity. discriminate.
Qed.

Lemma strip_dot_nrel_star anc s :
  contains_char "." s = false -> s <> "" -> strip_dot (nrel anc s ++ "*") = (s ++ "*")%string.
Proof.
  intros H Hne. unfold nrel. destruct anc; [|reflexivity].
  destruct s as [|ch s]; [contradiction|]. cbn [contains_char] in H. apply orb_false_iff in H as [H _].
  cbn [append]. unfold strip_dot. destruct ch as [[] [] [] [] [] [] [] []]; try reflexivity. discriminate.
Qed.

Definition ntask_row (anc : list string) (dflt : option string) (ad : bool)
           (kt : string * taskinfo) : row :=
  (List.length anc,
   (if is_default dflt (fst kt) then (nrel anc (fst kt) ++ "*")%string else nrel anc (fst kt)),
   map (fun a => nrel anc (transform ad a)) (sort_by (fun x => x) (t_aliases (snd kt))),
   Some (t_id (snd kt))).

Lemma nested_rows_unfold n tasks aliases subs dflt ad cfg anc :
  nested_rows (Coll n tasks aliases subs dflt ad cfg) anc =
  map (ntask_row anc dflt ad) (sort_by fst tasks) ++
  flat_map (fun k => (List.length anc, nrel anc k, [], None) ::
                     pick (fun sc => nested_rows sc (anc ++ [k])) [] subs k)
           (sort_by (fun x => x) (akeys subs)).
Proof.
  cbn [nested_rows]. f_equal. apply flat_map_ext. intros k. f_equal.
  induction subs as [|[k' sc] l IH]; [reflexivity|].
  cbn [pick]. destruct (String.eqb k k'); [reflexivity | exact IH].
Qed.

(** what the nested display says, in display order: collection path, binding
    key, task, the task's own aliases *)
Definition nentry (anc : list string) (ad : bool) (kt : string * taskinfo) : entry :=
  (anc, fst kt, t_id (snd kt), map (transform ad) (sort_by (fun x => x) (t_aliases (snd kt)))).

Fixpoint nshown (c : coll) (anc : list string) {struct c} : list entry :=
  match c with
  | Coll _ tasks _ subs _ ad _ =>
      map (nentry anc ad) (sort_by fst tasks) ++
      flat_map (fun k =>
                  (fix find (l : list (string * coll)) {struct l} : list entry :=
                     match l with
                     | [] => []
                     | (k', sc) :: l' => if String.eqb k k' then nshown sc (anc ++ [k]) else find l'
                     end) subs)
               (sort_by (fun x => x) (akeys subs))
  end.

Lemma nshown_unfold n tasks aliases subs dflt ad cfg anc :
  nshown (Coll n tasks aliases subs dflt ad cfg) anc =
  map (nentry anc ad) (sort_by fst tasks) ++
  flat_map (fun k => pick (fun sc => nshown sc (anc ++ [k])) [] subs k)
           (sort_by (fun x => x) (akeys subs)).
Proof.
  cbn [nshown]. f_equal. apply flat_map_ext. intros k.
  induction subs as [|[k' sc] l IH]; [reflexivity|].
  cbn [pick]. destruct (String.eqb k k'); [reflexivity | exact IH].
Qed.

(** the same entries in the order of the tree *)
Fixpoint rel_entries (c : coll) (anc : list string) {struct c} : list entry :=
  match c with
  | Coll _ tasks _ subs _ ad _ =>
      map (nentry anc ad) tasks ++
      (fix go (l : list (string * coll)) : list entry :=
         match l with
         | [] => []
         | (k, sc) :: l' => rel_entries sc (anc ++ [k]) ++ go l'
         end) subs
  end.

Lemma rel_entries_unfold n tasks aliases subs dflt ad cfg anc :
  rel_entries (Coll n tasks aliases subs dflt ad cfg) anc =
  map (nentry anc ad) tasks ++ flat_map (fun kc => rel_entries (snd kc) (anc ++ [fst kc])) subs.
Proof.
  cbn [rel_entries]. f_equal. induction subs as [|[cn sc] l IH]; [reflexivity|].
  cbn [flat_map fst snd]. rewrite IH. reflexivity.
Qed.

Lemma nshown_perm : forall c, ns_wf c = true -> forall anc, Permutation (nshown c anc) (rel_entries c anc).
Proof.
  induction c as [n tasks aliases subs dflt ad cfg IH] using coll_ind'.
  intros Hwf anc. destruct (wf_subs_nodup _ _ _ _ _ _ _ Hwf) as [ND Hsubs].
  rewrite Forall_forall in IH.
  rewrite nshown_unfold, rel_entries_unfold. apply Permutation_app.
  - apply Permutation_map, sort_by_perm.
  - rewrite (flat_map_perm _ _ _ (sort_by_perm (fun x => x) (akeys subs))).
    rewrite (visit_keys (fun k sc => nshown sc (anc ++ [k]))).
    + apply flat_map_perm_pointwise. intros kc Hkc. apply IH; [exact Hkc | apply Hsubs; exact Hkc].
    + apply NoDup_app_r in ND. apply NoDup_app_r in ND. exact ND.
Qed.

(** keys the nested display can be read back from: no task key ends in '*'
    (the marker of the default task), and own aliases are dot-free after
    normalisation *)
Fixpoint readable (c : coll) : bool :=
  match c with
  | Coll _ tasks _ subs _ ad _ =>
      forallb (fun kt => nostar (fst kt) &&
                         forallb (fun a => negb (contains_char "." (transform ad a))) (t_aliases (snd kt)))
              tasks &&
      (fix go (l : list (string * coll)) : bool :=
         match l with [] => true | (_, sc) :: l' => readable sc && go l' end) subs
  end.

Lemma readable_unfold n tasks aliases subs dflt ad cfg :
  readable (Coll n tasks aliases subs dflt ad cfg) =
  forallb (fun kt => nostar (fst kt) &&
                     forallb (fun a => negb (contains_char "." (transform ad a))) (t_aliases (snd kt)))
          tasks &&
  forallb (fun kc => readable (snd kc)) subs.
Proof.
  cbn [readable]. f_equal. induction subs as [|[k sc] l IH]; [reflexivity|].
  cbn [forallb snd]. rewrite IH. reflexivity.
Qed.

Lemma firstn_prefix {A} (l1 l2 cur : list A) :
  firstn (List.length (l1 ++ l2)) cur = l1 ++ l2 -> firstn (List.length l1) cur = l1.
Proof.
  revert cur. induction l1 as [|x l1 IH]; intros cur H; [reflexivity|].
  destruct cur as [|y cur]; [discriminate|]. cbn in H |- *. injection H as -> H.
  f_equal. apply IH. exact H.
Qed.

Lemma firstn_exact {A} (l1 l2 : list A) : firstn (List.length l1) (l1 ++ l2) = l1.
Proof. induction l1 as [|x l1 IH]; [reflexivity|]. cbn. rewrite IH. reflexivity. Qed.

(** reading the task lines of one collection *)
Lemma read_task_rows anc dflt ad cur :
  firstn (List.length anc) cur = anc ->
  forall l rest,
  (forall kt, In kt l ->
     contains_char "." (fst kt) = false /\ fst kt <> "" /\ nostar (fst kt) = true /\
     forall a, In a (t_aliases (snd kt)) -> contains_char "." (transform ad a) = false) ->
  nested_shown (map (ntask_row anc dflt ad) l ++ rest) cur =
  map (nentry anc ad) l ++ nested_shown rest cur.
Proof.
  intros Hcur. induction l as [|[k t] l IH]; intros rest Hok; [reflexivity|].
  destruct (Hok (k, t) (or_introl eq_refl)) as [Hd [Hne [Hns Hal]]]. cbn [fst snd] in *.
  cbn [map app]. cbn [nested_shown ntask_row r_task r_depth r_name r_aliases fst snd].
  rewrite Hcur. rewrite IH by (intros kt H; apply Hok; right; exact H).
  f_equal. unfold nentry. cbn [fst snd]. f_equal; [f_equal; f_equal|].
  - destruct (is_default dflt k).
    + rewrite (strip_dot_nrel_star anc k Hd Hne). apply strip_star_starred.
    + rewrite (strip_dot_nrel anc k Hd). apply strip_star_plain; exact Hns.
  - rewrite map_map. apply map_ext_in. intros a Ha. apply strip_dot_nrel. apply Hal.
    apply (Permutation_in a (sort_by_perm (fun x => x) (t_aliases t))). exact Ha.
Qed.

Lemma assoc_of_key {A} k (l : list (string * A)) :
  In k (akeys l) -> exists v, assoc k l = Some v /\ In (k, v) l.
Proof.
  induction l as [|[k' v'] l IH]; intros H; [contradiction|].
  cbn [assoc]. destruct (String.eqb k k') eqn:E.
  - apply String.eqb_eq in E. subst k'. exists v'. split; [reflexivity | left; reflexivity].
  - destruct H as [H|H]; [cbn [fst] in H; subst k'; rewrite String.eqb_refl in E; discriminate|].
    destruct (IH H) as [v [Hv HIn]]. exists v. split; [exact Hv | right; exact HIn].
Qed.

(** reading the nested display of a whole collection: the scopes
    [nested_shown] reconstructs are the collection paths *)
Lemma nested_read : forall c, ns_canon c = true -> readable c = true ->
  forall anc cur rest, firstn (List.length anc) cur = anc ->
  exists cur', firstn (List.length anc) cur' = anc /\
    nested_shown (nested_rows c anc ++ rest) cur = nshown c anc ++ nested_shown rest cur'.
Proof.
  induction c as [n tasks aliases subs dflt ad cfg IH] using coll_ind'.
  intros Hcan Hrd anc cur rest Hcur.
  rewrite ns_canon_unfold in Hcan. apply andb_true_iff in Hcan as [Hkeys Hcsubs].
  rewrite readable_unfold in Hrd. apply andb_true_iff in Hrd as [Hrt Hrsubs].
  rewrite forallb_forall in Hkeys, Hcsubs, Hrt, Hrsubs. rewrite Forall_forall in IH.
  rewrite nested_rows_unfold, nshown_unfold, <- !app_assoc.
  rewrite (read_task_rows anc dflt ad cur Hcur).
  2:{ intros [k t] Hkt. apply (Permutation_in _ (sort_by_perm fst tasks)) in Hkt. cbn [fst snd].
      assert (In k (akeys tasks)) as Hk by (change k with (fst (k, t)); apply in_map; exact Hkt).
      destruct (key_ok_spec ad k (Hkeys k (in_or_app _ _ _ (or_introl Hk)))) as [_ [Hd Hne]].
      pose proof (Hrt _ Hkt) as Hr. cbn [fst snd] in Hr. apply andb_true_iff in Hr as [Hns Hal].
      rewrite forallb_forall in Hal.
      repeat split; try assumption.
      intros a Ha. apply negb_true_iff. apply Hal; exact Ha. }
  assert (forall ks, (forall k, In k ks -> In k (akeys subs)) ->
          forall cur0 rest0, firstn (List.length anc) cur0 = anc ->
          exists cur', firstn (List.length anc) cur' = anc /\
            nested_shown
              (flat_map (fun k => (List.length anc, nrel anc k, [], None) ::
                                  pick (fun sc => nested_rows sc (anc ++ [k])) [] subs k) ks ++ rest0) cur0 =
            flat_map (fun k => pick (fun sc => nshown sc (anc ++ [k])) [] subs k) ks ++
            nested_shown rest0 cur') as Hblocks.
  { induction ks as [|k ks IHks]; intros Hks cur0 rest0 Hcur0.
    - exists cur0. split; [exact Hcur0 | reflexivity].
    - cbn [flat_map]. rewrite <- !app_assoc. cbn [app].
      cbn [nested_shown r_task r_depth r_name snd fst]. rewrite Hcur0.
      assert (In k (akeys subs)) as Hk by (apply Hks; left; reflexivity).
      destruct (assoc_of_key k subs Hk) as [sc [Has Hkc]].
      assert (contains_char "." k = false) as Hd.
      { apply (key_ok_spec ad k), Hkeys. apply in_or_app; right. apply in_or_app; right; exact Hk. }
      rewrite (strip_dot_nrel anc k Hd), !pick_assoc, Has.
      destruct (IH _ Hkc (Hcsubs _ Hkc) (Hrsubs _ Hkc) (anc ++ [k]) (anc ++ [k])
                   (flat_map (fun k0 => (List.length anc, nrel anc k0, [], None) ::
                                        pick (fun sc0 => nested_rows sc0 (anc ++ [k0])) [] subs k0) ks ++ rest0))
        as [cur2 [Hcur2 Heq]].
      { rewrite <- (app_nil_r (anc ++ [k])) at 2. apply firstn_exact. }
      cbn [snd] in Heq.
      apply firstn_prefix in Hcur2.
      destruct (IHks (fun k0 H => Hks k0 (or_intror H)) cur2 rest0 Hcur2) as [cur3 [Hcur3 Heq3]].
      exists cur3. split; [exact Hcur3|]. etransitivity; [exact Heq|]. rewrite <- app_assoc. f_equal. exact Heq3. }
  destruct (Hblocks (sort_by (fun x => x) (akeys subs))
                    (fun k H => Permutation_in k (sort_by_perm (fun x => x) (akeys subs)) H)
                    cur rest Hcur) as [cur' [Hc' Heq]].
  exists cur'. split; [exact Hc'|]. rewrite <- app_assoc. f_equal. exact Heq.
Qed.

(** the nested listing, read back the way the specification reads it, shows
    exactly the bindings of the tree: collection path, binding key, task and
    the task's own (normalised) aliases, each once *)
Theorem nested_listing c :
  ns_wf c = true -> ns_canon c = true -> readable c = true ->
  Permutation (nested_shown (nested_rows c []) []) (rel_entries c []).
Proof.
  intros Hwf Hcan Hrd.
  destruct (nested_read c Hcan Hrd [] [] [] eq_refl) as [cur' [_ Heq]].
  rewrite app_nil_r in Heq. rewrite Heq. cbn [nested_shown]. rewrite app_nil_r.
  apply nshown_perm; exact Hwf.
Qed.

(** * the entries are the specification's bindings *)
Lemma bindings_unfold n tasks aliases subs dflt ad cfg path :
  bindings (Coll n tasks aliases subs dflt ad cfg) path =
  map (fun kt => ((path, fst kt, t_id (snd kt),
                   map fst (filter (fun a => String.eqb (snd a) (fst kt)) aliases)),
                  opt_str_eqb dflt (Some (fst kt)))) tasks ++
  flat_map (fun kc => bindings (snd kc) (path ++ [fst kc])) subs.
Proof.
  cbn [bindings]. f_equal. induction subs as [|[cn sc] l IH]; [reflexivity|].
  cbn [flat_map fst snd]. rewrite IH. reflexivity.
Qed.

(** same place, same key, same task, the same alias names *)
Definition entry_agrees (a b : entry) : Prop :=
  fst (fst (fst a)) = fst (fst (fst b)) /\ snd (fst (fst a)) = snd (fst (fst b)) /\
  snd (fst a) = snd (fst b) /\ (forall x, In x (snd a) <-> In x (snd b)).

Lemma rel_entries_bindings : forall c, ns_wf c = true -> alias_table_own c = true ->
  forall path, Forall2 entry_agrees (rel_entries c path) (map fst (bindings c path)).
Proof.
  induction c as [n tasks aliases subs dflt ad cfg IH] using coll_ind'.
  intros Hwf Hat path. destruct (wf_subs_nodup _ _ _ _ _ _ _ Hwf) as [ND Hwsubs].
  assert (NoDup (akeys tasks)) as NDt by (apply (NoDup_app_l _ _ ND)).
  rewrite alias_table_own_unfold in Hat. apply andb_true_iff in Hat as [Hat Hatsubs].
  apply andb_true_iff in Hat as [Hbound Honly].
  rewrite forallb_forall in Hbound, Honly, Hatsubs. rewrite Forall_forall in IH.
  rewrite rel_entries_unfold, bindings_unfold, map_app. apply Forall2_app.
  - rewrite map_map. apply Forall2_map_same. intros [k t] Hkt. cbn [fst snd].
    unfold entry_agrees, nentry. cbn [fst snd]. repeat split.
    + intros Hx. apply in_map_iff in Hx. destruct Hx as [a [<- Ha]].
      apply (Permutation_in a (sort_by_perm (fun x => x) (t_aliases t))) in Ha.
      assert (In (transform ad a, k) (own_pairs ad tasks)) as Hop.
      { unfold own_pairs. apply in_flat_map. exists (k, t). split; [exact Hkt|].
        cbn [fst snd]. apply in_map_iff. exists a. split; [reflexivity | exact Ha]. }
      pose proof (Hbound _ Hop) as Hb. cbn [fst snd] in Hb.
      destruct (assoc (transform ad a) aliases) as [k'|] eqn:Ea; [|discriminate].
      cbn in Hb. apply String.eqb_eq in Hb. subst k'. apply assoc_In in Ea.
      apply in_map_iff. exists (transform ad a, k). split; [reflexivity|].
      apply filter_In. split; [exact Ea | cbn [snd]; apply String.eqb_refl].
    + intros Hx. apply in_map_iff in Hx. destruct Hx as [[x' k'] [E Hx]]. cbn [fst] in E. subst x'.
      apply filter_In in Hx. destruct Hx as [Hx Hk]. cbn [snd] in Hk. apply String.eqb_eq in Hk. subst k'.
      pose proof (Honly _ Hx) as Ho. apply existsb_exists in Ho. destruct Ho as [[x' k'] [Hq Heq]].
      cbn [fst snd] in Heq. apply andb_true_iff in Heq as [E1 E2].
      apply String.eqb_eq in E1, E2. subst x' k'.
      unfold own_pairs in Hq. apply in_flat_map in Hq. destruct Hq as [[k2 t2] [Hkt2 Hq]].
      cbn [fst snd] in Hq. apply in_map_iff in Hq. destruct Hq as [a [E Ha]].
      injection E as Ex Ek. subst k2.
      assert (t2 = t) as ->.
      { pose proof (assoc_in_nodup k t tasks NDt Hkt) as A1.
        pose proof (assoc_in_nodup k t2 tasks NDt Hkt2) as A2. congruence. }
      rewrite <- Ex. apply in_map.
      apply (Permutation_in a (Permutation_sym (sort_by_perm (fun x => x) (t_aliases t)))). exact Ha.
  - assert (forall l, (forall kc, In kc l -> In kc subs) ->
              Forall2 entry_agrees
                (flat_map (fun kc => rel_entries (snd kc) (path ++ [fst kc])) l)
                (map fst (flat_map (fun kc => bindings (snd kc) (path ++ [fst kc])) l))) as H.
    { induction l as [|kc l IHl]; intros Hl; [constructor|].
      cbn [flat_map]. rewrite map_app. apply Forall2_app.
      - apply IH; [apply Hl; left; reflexivity | apply Hwsubs, Hl; left; reflexivity
                   | apply Hatsubs, Hl; left; reflexivity].
      - apply IHl. intros x Hx. apply Hl; right; exact Hx. }
    apply H. auto.
Qed.

Theorem nested_listing_spec c :
  ns_wf c = true -> ns_canon c = true -> readable c = true -> alias_table_own c = true ->
  exists ents, Permutation (nested_shown (nested_rows c []) []) ents /\
               Forall2 entry_agrees ents (rel_expected c).
Proof.
  intros Hwf Hcan Hrd Hat. exists (rel_entries c []). split.
  - apply nested_listing; assumption.
  - apply rel_entries_bindings; assumption.
Qed.

(** * the reference flattening is the specification's [flat_expected] *)
Lemma own_alias_set n tasks aliases subs dflt ad cfg k t :
  ns_wf (Coll n tasks aliases subs dflt ad cfg) = true ->
  alias_table_own (Coll n tasks aliases subs dflt ad cfg) = true ->
  In (k, t) tasks ->
  forall x, In x (map (transform ad) (t_aliases t)) <->
            In x (map fst (filter (fun a => String.eqb (snd a) k) aliases)).
Proof.
  intros Hwf Hat Hkt. destruct (wf_subs_nodup _ _ _ _ _ _ _ Hwf) as [ND _].
  assert (NoDup (akeys tasks)) as NDt by (apply (NoDup_app_l _ _ ND)).
  rewrite alias_table_own_unfold in Hat. apply andb_true_iff in Hat as [Hat _].
  apply andb_true_iff in Hat as [Hbound Honly]. rewrite forallb_forall in Hbound, Honly.
  intros x. split.
  - intros Hx. apply in_map_iff in Hx. destruct Hx as [a [<- Ha]].
    assert (In (transform ad a, k) (own_pairs ad tasks)) as Hop.
    { unfold own_pairs. apply in_flat_map. exists (k, t). split; [exact Hkt|].
      cbn [fst snd]. apply in_map_iff. exists a. split; [reflexivity | exact Ha]. }
    pose proof (Hbound _ Hop) as Hb. cbn [fst snd] in Hb.
    destruct (assoc (transform ad a) aliases) as [k'|] eqn:Ea; [|discriminate].
    cbn in Hb. apply String.eqb_eq in Hb. subst k'. apply assoc_In in Ea.
    apply in_map_iff. exists (transform ad a, k). split; [reflexivity|].
    apply filter_In. split; [exact Ea | cbn [snd]; apply String.eqb_refl].
  - intros Hx. apply in_map_iff in Hx. destruct Hx as [[x' k'] [E Hx]]. cbn [fst] in E. subst x'.
    apply filter_In in Hx. destruct Hx as [Hx Hk]. cbn [snd] in Hk. apply String.eqb_eq in Hk. subst k'.
    pose proof (Honly _ Hx) as Ho. apply existsb_exists in Ho. destruct Ho as [[x' k'] [Hq Heq]].
    cbn [fst snd] in Heq. apply andb_true_iff in Heq as [E1 E2].
    apply String.eqb_eq in E1, E2. subst x' k'.
    unfold own_pairs in Hq. apply in_flat_map in Hq. destruct Hq as [[k2 t2] [Hkt2 Hq]].
    cbn [fst snd] in Hq. apply in_map_iff in Hq. destruct Hq as [a [E Ha]].
    injection E as Ex Ek. subst k2.
    assert (t2 = t) as ->.
    { pose proof (assoc_in_nodup k t tasks NDt Hkt) as A1.
      pose proof (assoc_in_nodup k t2 tasks NDt Hkt2) as A2. congruence. }
    rewrite <- Ex. apply in_map. exact Ha.
Qed.

Lemma join_cons x l : l <> [] -> join "." (x :: l) = dot_pfx x (join "." l).
Proof. destruct l; [contradiction | reflexivity]. Qed.

Definition tnt_agrees (dflt : option string) (path : list string) (e : lentry) (eb : entry * bool) : Prop :=
  exists rel,
    fst (fst (fst (fst eb))) = path ++ rel /\
    le_name e = join "." (rel ++ [snd (fst (fst (fst eb)))]) /\
    le_task e = snd (fst (fst eb)) /\
    (forall x, In x (le_aliases e) <->
               (In x (map (dotted rel) (snd (fst eb))) \/
                (snd eb = true /\ rel <> [] /\ x = join "." rel))) /\
    (rel = [] -> snd eb = opt_str_eqb dflt (Some (snd (fst (fst (fst eb)))))) /\
    (rel <> [] -> contains_char "." (le_name e) = true).

Lemma tnt_bindings : forall c, ns_wf c = true -> ns_canon c = true -> alias_table_own c = true ->
  forall path, Forall2 (tnt_agrees (c_default c) path) (tnt c) (bindings c path).
Proof.
  induction c as [n tasks aliases subs dflt ad cfg IH] using coll_ind'.
  intros Hwf Hcan Hat path. pose proof Hwf as Hwf0. pose proof Hat as Hat0.
  destruct (wf_subs_nodup _ _ _ _ _ _ _ Hwf) as [ND Hwsubs].
  rewrite ns_canon_unfold in Hcan. apply andb_true_iff in Hcan as [Hkeys Hcsubs].
  rewrite alias_table_own_unfold in Hat. apply andb_true_iff in Hat as [_ Hatsubs].
  rewrite forallb_forall in Hkeys, Hcsubs, Hatsubs. rewrite Forall_forall in IH.
  rewrite tnt_unfold, bindings_unfold. cbn [c_default]. apply Forall2_app.
  - unfold own_entries. apply Forall2_map_same. intros [k t] Hkt.
    exists []. unfold le_name, le_task, le_aliases. cbn [fst snd].
    rewrite app_nil_r. repeat split; try reflexivity; try contradiction.
    + intros Hx. left.
      rewrite (map_ext (dotted []) (fun a => a)) by reflexivity. rewrite map_id.
      apply (own_alias_set _ _ _ _ _ _ _ k t Hwf0 Hat0 Hkt). exact Hx.
    + intros [Hx|[_ [Hx _]]]; [|contradiction].
      rewrite (map_ext (dotted []) (fun a => a)) in Hx by reflexivity. rewrite map_id in Hx.
      apply (own_alias_set _ _ _ _ _ _ _ k t Hwf0 Hat0 Hkt). exact Hx.
  - apply Forall2_flat_map_same. intros [cn sc] Hkc. cbn [fst snd].
    apply Forall2_map_left.
    pose proof (IH _ Hkc (Hwsubs _ Hkc) (Hcsubs _ Hkc) (Hatsubs _ Hkc) (path ++ [cn])) as H.
    cbn [snd] in H. revert H. apply Forall2_weaken.
    intros e0 eb [rel' [Hp [Hn [Ht [Ha [Hd0 Hdot]]]]]].
    exists (cn :: rel').
    assert (opt_str_eqb (c_default sc) (Some (le_name e0)) = true <-> (rel' = [] /\ snd eb = true)) as Hdef.
    { destruct rel' as [|r0 rl].
      - rewrite (Hd0 eq_refl), Hn. cbn [app join]. tauto.
      - split; [|intros [E _]; discriminate]. intros E. exfalso.
        pose proof (Hdot ltac:(discriminate)) as Hc.
        destruct (c_default sc) as [dd|] eqn:Edd; [|discriminate]. cbn in E. apply String.eqb_eq in E.
        pose proof (Hwsubs _ Hkc) as Hw. pose proof (Hcsubs _ Hkc) as Hcn. cbn [snd] in Hw, Hcn.
        destruct sc as [n2 t2 a2 s2 d2 ad2 g2]. cbn [c_default] in Edd. subst d2.
        pose proof (default_dotfree _ _ _ _ _ _ _ Hw Hcn) as Hdd. rewrite E, Hc in Hdd. discriminate. }
    unfold le_sub. unfold le_name, le_task, le_aliases in *. cbn [fst snd] in *.
    split; [rewrite Hp, <- app_assoc; reflexivity|].
    split; [rewrite Hn; symmetry; apply (join_cons cn (rel' ++ [snd (fst (fst (fst eb)))]));
            destruct rel'; discriminate|].
    split; [exact Ht|].
    split; [|split; [intros E; discriminate | intros _; apply contains_dot_pfx]].
    intros x. rewrite in_app_iff. split.
    + intros [Hx|Hx].
      * apply in_map_iff in Hx. destruct Hx as [y [<- Hy]]. apply Ha in Hy.
        destruct Hy as [Hy|[Hd [Hr Hy]]].
        -- left. apply in_map_iff in Hy. destruct Hy as [a [<- Hal]].
           apply in_map_iff. exists a. split; [|exact Hal].
           unfold dotted. apply (join_cons cn (rel' ++ [a])). destruct rel'; discriminate.
        -- right. split; [exact Hd|]. split; [discriminate|]. subst y.
           symmetry. apply join_cons. exact Hr.
      * destruct (opt_str_eqb (c_default sc) (Some (fst (fst e0)))) eqn:Ed; [|contradiction].
        destruct Hx as [<-|[]]. destruct (proj1 Hdef eq_refl) as [-> Hd].
        right. split; [exact Hd|]. split; [discriminate | reflexivity].
    + intros [Hx|[Hd [_ Hx]]].
      * left. apply in_map_iff in Hx. destruct Hx as [a [<- Hal]].
        apply in_map_iff. exists (dotted rel' a). split.
        -- unfold dotted. symmetry. apply (join_cons cn (rel' ++ [a])). destruct rel'; discriminate.
        -- apply Ha. left. apply in_map; exact Hal.
      * destruct rel' as [|r0 rl].
        -- right. rewrite (proj2 Hdef (conj eq_refl Hd)). left. symmetry. exact Hx.
        -- left. apply in_map_iff. exists (join "." (r0 :: rl)). split.
           ++ rewrite Hx. symmetry. apply join_cons. discriminate.
           ++ apply Ha. right. split; [exact Hd|]. split; [discriminate | reflexivity].
Qed.

(** the entries of [tnt c] are, one for one and in the same order, the
    specification's [flat_expected c]: same dotted name, same task, the same
    alias names *)
Definition flat_agrees (e : lentry) (x : entry) : Prop :=
  fst (fst (fst x)) = [] /\ snd (fst (fst x)) = le_name e /\ snd (fst x) = le_task e /\
  (forall a, In a (le_aliases e) <-> In a (snd x)).

Definition flat_of1 (eb : entry * bool) : entry :=
  let '((path, key, tid, als), dflt) := eb in
  (([] : list string), dotted path key, tid,
   map (dotted path) als ++
   (if (dflt : bool) then match path with [] => [] | _ => [join "." path] end else [])).

Lemma flat_expected_eq c : flat_expected c = map flat_of1 (bindings c []).
Proof. reflexivity. Qed.

Theorem tnt_expected c :
  ns_wf c = true -> ns_canon c = true -> alias_table_own c = true ->
  Forall2 flat_agrees (tnt c) (flat_expected c).
Proof.
  intros Hwf Hcan Hat. rewrite flat_expected_eq. apply Forall2_map_right.
  pose proof (tnt_bindings c Hwf Hcan Hat []) as H. revert H. apply Forall2_weaken.
  intros e [[[[p key] tid] als] d] [rel [Hp [Hn [Ht [Ha _]]]]]. cbn [fst snd app] in *. subst p.
  unfold flat_agrees, flat_of1. cbn [fst snd]. repeat split.
  - symmetry. exact Hn.
  - symmetry. exact Ht.
  - intros Hx. apply Ha in Hx. apply in_or_app. destruct Hx as [Hx|[-> [Hr ->]]]; [left; exact Hx|].
    right. destruct rel; [contradiction | left; reflexivity].
  - intros Hx. apply Ha. apply in_app_or in Hx. destruct Hx as [Hx|Hx]; [left; exact Hx|].
    right. destruct d; [|contradiction]. destruct rel as [|r0 rl]; [contradiction|].
    destruct Hx as [<-|[]]. split; [reflexivity|]. split; [discriminate | reflexivity].
Qed.

(** * the JSON listing ([Collection.serialized]) *)
Definition jtask_row (depth : nat) (ad : bool) (t : taskinfo) : row :=
  (S depth, transform ad (t_name t), map (transform ad) (t_aliases t), Some (t_id t)).

Definition jorder (subs : list (string * coll)) : list (string * string) :=
  sort_by fst (map (fun kc => (ostr (c_name (snd kc)), fst kc)) subs).

Lemma json_rows_unfold nm tasks aliases subs dflt ad cfg depth :
  json_rows (Coll nm tasks aliases subs dflt ad cfg) depth =
  (depth, ostr nm, match dflt with Some d => [d] | None => [] end, None) ::
  map (jtask_row depth ad) (sort_by t_name (map snd tasks)) ++
  flat_map (fun nk => pick (fun sc => json_rows sc (S depth)) [] subs (snd nk)) (jorder subs).
Proof.
  cbn [json_rows]. f_equal. f_equal. apply flat_map_ext. intros nk.
  induction subs as [|[k' sc] l IH]; [reflexivity|].
  cbn [pick]. destruct (String.eqb (snd nk) k'); [reflexivity | exact IH].
Qed.

Definition jentry (anc : list string) (ad : bool) (t : taskinfo) : entry :=
  (anc, transform ad (t_name t), t_id t, map (transform ad) (t_aliases t)).

Fixpoint jshown (c : coll) (anc : list string) {struct c} : list entry :=
  match c with
  | Coll _ tasks _ subs _ ad _ =>
      map (jentry anc ad) (sort_by t_name (map snd tasks)) ++
      flat_map (fun nk : string * string =>
                  (fix find (l : list (string * coll)) {struct l} : list entry :=
                     match l with
                     | [] => []
                     | (k', sc) :: l' =>
                         if String.eqb (snd nk) k' then jshown sc (anc ++ [snd nk]) else find l'
                     end) subs)
               (jorder subs)
  end.

Lemma jshown_unfold nm tasks aliases subs dflt ad cfg anc :
  jshown (Coll nm tasks aliases subs dflt ad cfg) anc =
  map (jentry anc ad) (sort_by t_name (map snd tasks)) ++
  flat_map (fun nk => pick (fun sc => jshown sc (anc ++ [snd nk])) [] subs (snd nk)) (jorder subs).
Proof.
  cbn [jshown]. f_equal. apply flat_map_ext. intros nk.
  induction subs as [|[k' sc] l IH]; [reflexivity|].
  cbn [pick]. destruct (String.eqb (snd nk) k'); [reflexivity | exact IH].
Qed.

Fixpoint jentries (c : coll) (anc : list string) {struct c} : list entry :=
  match c with
  | Coll _ tasks _ subs _ ad _ =>
      map (fun kt => jentry anc ad (snd kt)) tasks ++
      (fix go (l : list (string * coll)) : list entry :=
         match l with
         | [] => []
         | (k, sc) :: l' => jentries sc (anc ++ [k]) ++ go l'
         end) subs
  end.

Lemma jentries_unfold nm tasks aliases subs dflt ad cfg anc :
  jentries (Coll nm tasks aliases subs dflt ad cfg) anc =
  map (fun kt => jentry anc ad (snd kt)) tasks ++
  flat_map (fun kc => jentries (snd kc) (anc ++ [fst kc])) subs.
Proof.
  cbn [jentries]. f_equal. induction subs as [|[cn sc] l IH]; [reflexivity|].
  cbn [flat_map fst snd]. rewrite IH. reflexivity.
Qed.

(** every task is bound by its own (normalised) name and every
    sub-collection by its own name: outside this, the JSON listing shows own
    names where the other listings show binding names (F-C10c) *)
Fixpoint own_named (c : coll) : bool :=
  match c with
  | Coll _ tasks _ subs _ ad _ =>
      forallb (fun kt => String.eqb (transform ad (t_name (snd kt))) (fst kt)) tasks &&
      (fix go (l : list (string * coll)) : bool :=
         match l with
         | [] => true
         | (k, sc) :: l' => String.eqb (ostr (c_name sc)) k && own_named sc && go l'
         end) subs
  end.

Lemma own_named_unfold nm tasks aliases subs dflt ad cfg :
  own_named (Coll nm tasks aliases subs dflt ad cfg) =
  forallb (fun kt => String.eqb (transform ad (t_name (snd kt))) (fst kt)) tasks &&
  forallb (fun kc => String.eqb (ostr (c_name (snd kc))) (fst kc) && own_named (snd kc)) subs.
Proof.
  cbn [own_named]. f_equal. induction subs as [|[k sc] l IH]; [reflexivity|].
  cbn [forallb fst snd]. rewrite IH. reflexivity.
Qed.

Lemma flat_map_map {A B C} (g : A -> B) (f : B -> list C) l :
  flat_map f (map g l) = flat_map (fun x => f (g x)) l.
Proof. induction l as [|x l IH]; [reflexivity|]. cbn [map flat_map]. rewrite IH. reflexivity. Qed.

Lemma jshown_perm : forall c, ns_wf c = true -> forall anc, Permutation (jshown c anc) (jentries c anc).
Proof.
  induction c as [n tasks aliases subs dflt ad cfg IH] using coll_ind'.
  intros Hwf anc. destruct (wf_subs_nodup _ _ _ _ _ _ _ Hwf) as [ND Hsubs].
  rewrite Forall_forall in IH.
  assert (NoDup (akeys subs)) as NDs by (apply NoDup_app_r in ND; apply NoDup_app_r in ND; exact ND).
  rewrite jshown_unfold, jentries_unfold. apply Permutation_app.
  - rewrite <- (map_map snd (jentry anc ad)). apply Permutation_map, sort_by_perm.
  - unfold jorder. rewrite (flat_map_perm _ _ _ (sort_by_perm fst _)), flat_map_map. cbn [snd].
    apply flat_map_perm_pointwise. intros [k sc] Hkc. cbn [fst snd].
    rewrite pick_assoc, (assoc_in_nodup k sc subs NDs Hkc).
    apply (IH _ Hkc (Hsubs _ Hkc)).
Qed.

Lemma read_jtask_rows anc ad cur :
  firstn (List.length anc) cur = anc ->
  forall l rest,
  json_shown (map (jtask_row (List.length anc) ad) l ++ rest) cur =
  map (jentry anc ad) l ++ json_shown rest cur.
Proof.
  intros Hcur. induction l as [|t l IH]; intros rest; [reflexivity|].
  cbn [map app]. cbn [json_shown jtask_row r_task r_depth r_name r_aliases fst snd].
  rewrite Nat.sub_succ, Nat.sub_0_r, Hcur, IH. reflexivity.
Qed.

(** the header of a collection names the scope: the root at depth 0, a child
    of the scope one level up otherwise *)
Definition scope_ready (anc : list string) (nm : string) (cur : list string) : Prop :=
  anc = [] \/ exists anc', anc = anc' ++ [nm] /\ firstn (List.length anc') cur = anc'.

Lemma header_scope anc nm cur :
  scope_ready anc nm cur ->
  match List.length anc with O => [] | S d => firstn d cur ++ [nm] end = anc.
Proof.
  intros [->|[anc' [-> H]]]; [reflexivity|].
  rewrite app_length, Nat.add_1_r, H. reflexivity.
Qed.

Lemma firstn_self {A} (l : list A) : firstn (List.length l) l = l.
Proof. apply firstn_all. Qed.

Lemma json_read : forall c, own_named c = true ->
  forall anc cur rest, scope_ready anc (ostr (c_name c)) cur ->
  exists cur', firstn (List.length anc) cur' = anc /\
    json_shown (json_rows c (List.length anc) ++ rest) cur = jshown c anc ++ json_shown rest cur'.
Proof.
  induction c as [nm tasks aliases subs dflt ad cfg IH] using coll_ind'.
  intros Hown anc cur rest Hsc. cbn [c_name] in Hsc.
  rewrite own_named_unfold in Hown. apply andb_true_iff in Hown as [_ Hosubs].
  rewrite forallb_forall in Hosubs. rewrite Forall_forall in IH.
  rewrite json_rows_unfold, jshown_unfold. cbn [app].
  cbn [json_shown r_task r_depth r_name fst snd]. rewrite (header_scope anc (ostr nm) cur Hsc).
  rewrite <- !app_assoc.
  rewrite (read_jtask_rows anc ad anc (firstn_self anc)).
  assert (forall nks, (forall nk, In nk nks -> In (snd nk) (akeys subs)) ->
          forall cur0 rest0, firstn (List.length anc) cur0 = anc ->
          exists cur', firstn (List.length anc) cur' = anc /\
            json_shown
              (flat_map (fun nk : string * string =>
                           pick (fun sc => json_rows sc (S (List.length anc))) [] subs (snd nk)) nks ++ rest0)
              cur0 =
            flat_map (fun nk : string * string =>
                        pick (fun sc => jshown sc (anc ++ [snd nk])) [] subs (snd nk)) nks ++
            json_shown rest0 cur') as Hblocks.
  { induction nks as [|nk nks IHnks]; intros Hnks cur0 rest0 Hcur0.
    - exists cur0. split; [exact Hcur0 | reflexivity].
    - cbn [flat_map]. rewrite <- !app_assoc.
      assert (In (snd nk) (akeys subs)) as Hk by (apply Hnks; left; reflexivity).
      destruct (assoc_of_key (snd nk) subs Hk) as [sc [Has Hkc]].
      rewrite !pick_assoc, Has.
      pose proof (Hosubs _ Hkc) as Ho. cbn [fst snd] in Ho. apply andb_true_iff in Ho as [Hnm Hosc].
      apply String.eqb_eq in Hnm.
      destruct (IH _ Hkc Hosc (anc ++ [snd nk]) cur0
                   (flat_map (fun nk0 : string * string =>
                                pick (fun sc0 => json_rows sc0 (S (List.length anc))) [] subs (snd nk0)) nks
                    ++ rest0))
        as [cur2 [Hcur2 Heq]].
      { right. exists anc. cbn [snd]. rewrite Hnm. split; [reflexivity | exact Hcur0]. }
      cbn [snd] in Heq. rewrite app_length, Nat.add_1_r in Heq.
      assert (firstn (List.length anc) cur2 = anc) as Hcur2'.
      { apply (firstn_prefix anc [snd nk]). exact Hcur2. }
      destruct (IHnks (fun nk0 H => Hnks nk0 (or_intror H)) cur2 rest0 Hcur2') as [cur3 [Hcur3 Heq3]].
      exists cur3. split; [exact Hcur3|].
      etransitivity; [exact Heq|]. rewrite <- app_assoc. f_equal. exact Heq3. }
  destruct (Hblocks (jorder subs)) with (cur0 := anc) (rest0 := rest) as [cur' [Hc' Heq]].
  - intros nk Hnk. unfold jorder in Hnk. apply (Permutation_in _ (sort_by_perm fst _)) in Hnk.
    apply in_map_iff in Hnk. destruct Hnk as [kc [<- Hkc]]. cbn [snd]. apply in_map; exact Hkc.
  - apply firstn_self.
  - exists cur'. split; [exact Hc'|]. rewrite <- app_assoc. f_equal. exact Heq.
Qed.

Lemma jentries_rel : forall c, own_named c = true ->
  forall anc, Forall2 entry_agrees (jentries c anc) (rel_entries c anc).
Proof.
  induction c as [nm tasks aliases subs dflt ad cfg IH] using coll_ind'.
  intros Hown anc.
  rewrite own_named_unfold in Hown. apply andb_true_iff in Hown as [Hot Hosubs].
  rewrite forallb_forall in Hot, Hosubs. rewrite Forall_forall in IH.
  rewrite jentries_unfold, rel_entries_unfold. apply Forall2_app.
  - apply Forall2_map_same. intros [k t] Hkt. pose proof (Hot _ Hkt) as E. cbn [fst snd] in E.
    apply String.eqb_eq in E. unfold entry_agrees, jentry, nentry. cbn [fst snd].
    repeat split; try assumption.
    + intros Hx. apply in_map_iff in Hx. destruct Hx as [a [<- Ha]]. apply in_map.
      apply (Permutation_in a (Permutation_sym (sort_by_perm (fun x => x) (t_aliases t)))). exact Ha.
    + intros Hx. apply in_map_iff in Hx. destruct Hx as [a [<- Ha]]. apply in_map.
      apply (Permutation_in a (sort_by_perm (fun x => x) (t_aliases t))). exact Ha.
  - apply Forall2_flat_map_same. intros kc Hkc.
    pose proof (Hosubs _ Hkc) as Ho. apply andb_true_iff in Ho as [_ Ho].
    apply (IH _ Hkc Ho).
Qed.

Lemma entry_agrees_trans a b c : entry_agrees a b -> entry_agrees b c -> entry_agrees a c.
Proof.
  intros [A1 [A2 [A3 A4]]] [B1 [B2 [B3 B4]]]. repeat split; try congruence.
  - intros H. apply B4, A4, H.
  - intros H. apply A4, B4, H.
Qed.

Lemma Forall2_trans {A} (R : A -> A -> Prop) :
  (forall a b c, R a b -> R b c -> R a c) ->
  forall l1 l2 l3, Forall2 R l1 l2 -> Forall2 R l2 l3 -> Forall2 R l1 l3.
Proof.
  intros HR l1 l2 l3 H12. revert l3. induction H12; intros l3 H23; inversion H23; subst; constructor; eauto.
Qed.

(** the JSON listing, read back the way the specification reads it
    ([json_shown]), shows exactly the bindings of the tree -- for trees in
    which everything is bound by its own name *)
Theorem json_listing_spec c :
  ns_wf c = true -> own_named c = true -> alias_table_own c = true ->
  exists ents, Permutation (json_shown (json_rows c 0) []) ents /\
               Forall2 entry_agrees ents (rel_expected c).
Proof.
  intros Hwf Hown Hat. exists (jentries c []). split.
  - destruct (json_read c Hown [] [] [] (or_introl eq_refl)) as [cur' [_ Heq]].
    cbn [List.length] in Heq. rewrite app_nil_r in Heq. rewrite Heq. cbn [json_shown]. rewrite app_nil_r.
    apply jshown_perm; exact Hwf.
  - apply (Forall2_trans entry_agrees entry_agrees_trans _ (rel_entries c [])).
    + apply jentries_rel; exact Hown.
    + apply rel_entries_bindings; assumption.
Qed.

Print Assumptions flat_listing.
Print Assumptions flat_listed_once.
Print Assumptions flat_listed_accepted.
Print Assumptions listed_name_accepted.
Print Assumptions nested_listing.
Print Assumptions nested_listing_spec.
Print Assumptions tnt_expected.
Print Assumptions json_listing_spec.
