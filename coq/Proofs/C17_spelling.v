(** C17: whichever spelling -- the specification's direct normalisation is the
    implementation's transform, and lookups do not depend on the spelling. *)
From InvokeVerif Require Import Model.CollModel Spec.C17Spec Corr.C17Corr.
From InvokeVerif Require Import Proofs.CollStrings Proofs.C17_path.
Lemma norm_tail_aux f t : dirs f t -> forall s p,
  contains_char "." s = false -> Ascii.eqb p "." = false ->
  transform_aux f t (Some p) s = norm_tail f t s.
Proof.
  intros D. induction s as [|c s IH]; intros p Hd Hp; [reflexivity|].
  cbn [contains_char] in Hd. apply orb_false_iff in Hd as [Hc Hs].
  rewrite transform_aux_cons. destruct s as [|c2 s'].
  - cbn. unfold elig, hd_prot, tc. rewrite !andb_false_r. reflexivity.
  - cbn [norm_tail]. f_equal.
    + unfold tc, elig, prot, hd_prot. rewrite Hp. cbn [contains_char] in Hs.
      apply orb_false_iff in Hs as [Hc2 _]. rewrite Hc2. cbn. rewrite andb_true_r. reflexivity.
    + apply IH; assumption.
Qed.

Lemma norm_seg_transform ad s : contains_char "." s = false -> norm_seg ad s = transform ad s.
Proof.
  intros Hd. rewrite transform_as_aux. destruct s as [|c s']; [destruct ad; reflexivity|].
  rewrite transform_aux_cons. cbn [contains_char] in Hd. apply orb_false_iff in Hd as [Hc Hs].
  unfold norm_seg, elig. cbn [prot negb andb]. unfold tc. rewrite andb_false_r. f_equal.
  destruct ad; symmetry; apply norm_tail_aux; try assumption; [left | right]; split; reflexivity.
Qed.

Lemma norm_name_transform ad n : norm_name ad n = transform ad n.
Proof.
  unfold norm_name. rewrite <- (join_split (transform ad n)), split_transform. f_equal.
  apply map_ext_in. intros seg Hin.
  pose proof (split_segments_dotfree n) as H. rewrite Forall_forall in H.
  apply norm_seg_transform. apply H; exact Hin.
Qed.

Lemma twc_variant c a b :
  (forall ad, transform ad a = transform ad b) -> task_with_config c a = task_with_config c b.
Proof.
  intros H. destruct c as [n tasks aliases subs dflt ad cfg]. rewrite !twc_unfold. unfold twc_step.
  assert (String.eqb a "" = String.eqb b "") as He.
  { destruct (String.eqb a "") eqn:Ea; destruct (String.eqb b "") eqn:Eb; try reflexivity.
    - apply String.eqb_eq in Ea. subst a. specialize (H true). rewrite transform_nil in H.
      symmetry in H. apply transform_empty in H. subst b. discriminate.
    - apply String.eqb_eq in Eb. subst b. specialize (H true). rewrite transform_nil in H.
      apply transform_empty in H. subst a. discriminate. }
  rewrite He. unfold twc_nonempty. rewrite (H ad). reflexivity.
Qed.

(** names that are spellings of one another are looked up alike *)
Lemma spelling_invariance c a b : same_spelling a b = true -> model_obs c a = model_obs c b.
Proof.
  unfold same_spelling. rewrite andb_true_iff, !String.eqb_eq, !norm_name_transform.
  intros [H1 H2]. unfold model_obs. rewrite (twc_variant c a b); [reflexivity|].
  intros [|]; assumption.
Qed.
