(** C01: the counter occurrence lemmas over the weaker invariants
    (ctx_guard_nm / st_nm of Proofs/C01_occ_nm.v); same proof as in
    Proofs/C01_form_counter.v. *)
From InvokeVerif Require Import Model.ParserModel Corr.C01Corr Proofs.ListFacts Proofs.C07_fuel
     Proofs.C01_steps Proofs.C01_tokens Proofs.C01_lookup Proofs.C01_occ Proofs.C01_roundtrip
     Proofs.C01_form_glued Proofs.C01_form_counter Proofs.C01_occ_nm.
From Coq Require Import Lia.

Section CounterOccNm.
Variable p : parser.
Variable i0 : rctx.
Variable done : list rctx.
Variable c : ctxspec.
Variable given : list nat.
Variable o : occ.
Variable a : argspec.
Variable tok : string.
Hypothesis Na : nth_error (cx_args c) (o_arg o) = Some a.
Hypothesis Hinc : a_incrementable a = true.
Hypothesis Hnl : akind_eqb (a_kind a) KList = false.
Hypothesis Hval : occ_input o = IBool true.
Hypothesis Hflag : forall args, map r_spec args = cx_args c -> find_flag args tok = Some (o_arg o).

(** one increment *)
Lemma counter_one_nm cur :
  st_nm c given (rc_args cur) -> counters_ok (rc_args cur) ->
  exists r, nth_error (rc_args cur) (o_arg o) = Some r /\ r_spec r = a /\
            countable (arg_value r) = true /\
            run_occ (rc_args cur) o
              = upd_nth (o_arg o) (mkRArg (r_spec r) true (bump (arg_value r))) (rc_args cur) /\
            st_nm c given (run_occ (rc_args cur) o) /\ counters_ok (run_occ (rc_args cur) o).
Proof.
  intros St Co. pose proof (sn_shape _ _ _ St) as Sh.
  assert (Nr : exists r, nth_error (rc_args cur) (o_arg o) = Some r /\ r_spec r = a).
  { apply nth_error_map_inv. rewrite Sh. exact Na. }
  destruct Nr as [r [Nr Sr]]. exists r.
  assert (Hi : a_incrementable (r_spec r) = true) by (rewrite Sr; exact Hinc).
  assert (Hc : countable (arg_value r) = true) by (eapply Co; eauto).
  assert (E : run_occ (rc_args cur) o
              = upd_nth (o_arg o) (mkRArg (r_spec r) true (bump (arg_value r))) (rc_args cur)).
  { unfold run_occ. rewrite Nr, Hval, (set_value_counter r Hi Hc). reflexivity. }
  assert (Hb : aval_is_none (bump (arg_value r)) = false)
    by (destruct (arg_value r); try discriminate; reflexivity).
  split; [exact Nr|]. split; [exact Sr|]. split; [exact Hc|]. split; [exact E|]. rewrite E. split.
  - eapply st_nm_after_set; eauto.
    + intros K. rewrite Sr in K. rewrite K in Hnl. discriminate.
    + intros T. rewrite (takes_value_counter _ Hi) in T. discriminate.
  - eapply counters_ok_upd; eauto. intros _.
    destruct (arg_value r); try discriminate Hc; reflexivity.
Qed.

(** [n] copies of the flag *)
Lemma counter_run_nm n : forall cur fl got,
  clean_flag tok = true ->
  st_nm c given (rc_args cur) -> counters_ok (rc_args cur) -> inert (MS i0 done cur fl got) ->
  exists fl' got',
    steps p (MS i0 done cur fl got) (repeat tok n)
            (MS i0 done (with_args cur (iter_occ n (rc_args cur) o)) fl' got') /\
    inert (MS i0 done (with_args cur (iter_occ n (rc_args cur) o)) fl' got') /\
    st_nm c given (iter_occ n (rc_args cur) o) /\ counters_ok (iter_occ n (rc_args cur) o).
Proof.
  induction n as [|n IH]; intros cur fl got C St Co I.
  - exists fl, got. cbn [repeat iter_occ].
    assert (E : with_args cur (rc_args cur) = cur) by (destruct cur; reflexivity). rewrite E.
    split; [apply steps_nil|]. split; [exact I|]. split; assumption.
  - destruct (counter_one_nm cur St Co) as (r & Nr & Sr & Hc & E & St' & Co').
    assert (Hi : a_incrementable (r_spec r) = true) by (rewrite Sr; exact Hinc).
    pose proof (step_counter_flag p i0 done cur fl got tok (o_arg o) r I C
                  (Hflag _ (sn_shape _ _ _ St)) Nr Hi Hc) as S1.
    set (cur' := with_args cur (run_occ (rc_args cur) o)).
    assert (Ecur : upd_cur cur (o_arg o) (mkRArg (r_spec r) true (bump (arg_value r))) = cur').
    { unfold upd_cur, cur'. now rewrite E. }
    rewrite Ecur in S1.
    assert (I' : inert (MS i0 done cur' (Some (S (List.length done), o_arg o)) false)).
    { rewrite <- Ecur. apply inert_after; [congruence | reflexivity |].
      unfold needs_value, takes_value. cbn [r_spec]. rewrite Hi, Sr, Hnl.
      destruct (a_kind a); reflexivity. }
    destruct (IH cur' _ _ C St' Co' I') as (fl' & got' & S2 & I2 & St2 & Co2).
    exists fl', got'. cbn [repeat iter_occ].
    split; [|split; [exact I2|split; assumption]].
    econstructor; [exact S1|]. cbn [app]. exact S2.
Qed.
End CounterOccNm.

(** the tokens of a counter occurrence, repeated or stacked *)
Lemma occ_counter_steps_nm p i0 c given o done cur fl got :
  ctx_guard_nm c = true -> occ_counter c o = true ->
  st_nm c given (rc_args cur) -> counters_ok (rc_args cur) -> inert (MS i0 done cur fl got) ->
  exists fl' got',
    steps p (MS i0 done cur fl got) (spell_occ c o)
            (MS i0 done (with_args cur (iter_occ (count_of (o_val o)) (rc_args cur) o)) fl' got') /\
    inert (MS i0 done (with_args cur (iter_occ (count_of (o_val o)) (rc_args cur) o)) fl' got') /\
    st_nm c given (iter_occ (count_of (o_val o)) (rc_args cur) o) /\
    counters_ok (iter_occ (count_of (o_val o)) (rc_args cur) o).
Proof.
  intros G Os St Co I.
  destruct (guard_parts_nm c G) as [ND [Nn [Cl Ld]]].
  unfold occ_counter in Os. unfold spell_occ.
  destruct (nth_error (cx_args c) (o_arg o)) as [a|] eqn:Na; [|discriminate].
  rewrite !andb_true_iff, negb_true_iff in Os. destruct Os as [[[Lk Hinc] Hnl] Os].
  apply Nat.ltb_lt in Lk.
  set (tok := flag_of a (o_name o)) in *.
  assert (Tin : In tok (arg_flags a)) by (apply flag_of_in; exact Lk).
  assert (Ctok : clean_flag tok = true).
  { apply Cl. eapply in_all_spellings; [exact Na|]. unfold spellings_of. apply in_or_app. left. exact Tin. }
  assert (Hflag : forall args, map r_spec args = cx_args c -> find_flag args tok = Some (o_arg o)).
  { intros args Sh. rewrite find_flag_args, Sh. eapply find_flag_spec_unique; eauto. }
  destruct (o_form o) eqn:Fo; try discriminate; destruct (o_val o) as [b|n|s|] eqn:Vo; try discriminate.
  - (* FRep *)
    assert (Hval : occ_input o = IBool true) by (unfold occ_input; rewrite Vo; reflexivity).
    cbn [count_of].
    apply (counter_run_nm p i0 done c given o a tok Na Hinc Hnl Hval Hflag n cur fl got Ctok St Co I).
  - (* FStack *)
    assert (Hval : occ_input o = IBool true) by (unfold occ_input; rewrite Vo; reflexivity).
    apply andb_true_iff in Os. destruct Os as [Hn Hlen]. apply Nat.leb_le in Hn. apply Nat.eqb_eq in Hlen.
    destruct (short_clean_shape tok Ctok Hlen) as [ch [Etok Hch]].
    assert (Heq : Ascii.eqb ch "=" = false).
    { unfold clean_flag in Ctok. rewrite !andb_true_iff, !negb_true_iff in Ctok.
      destruct Ctok as [[[_ E] _] _]. rewrite Etok in E. cbn [contains_char] in E.
      apply orb_false_iff in E. destruct E as [_ E]. apply orb_false_iff in E. tauto. }
    cbn [count_of]. destruct n as [|k]; [lia|].
    rewrite Etok. cbn [short_letter drop repeat_str append].
    destruct k as [|k].
    + (* "-c" itself *)
      cbn [repeat_str append]. rewrite <- Etok.
      apply (counter_run_nm p i0 done c given o a tok Na Hinc Hnl Hval Hflag 1 cur fl got Ctok St Co I).
    + (* "-c" followed by k+1 more letters *)
      destruct (counter_one_nm c given o a Na Hinc Hnl Hval cur St Co) as (r & Nr & Sr & Hc & E & St' & Co').
      assert (Hi : a_incrementable (r_spec r) = true) by (rewrite Sr; exact Hinc).
      pose proof (Hflag _ (sn_shape _ _ _ St)) as F. rewrite Etok in F.
      pose proof (step_counter_stack p i0 done cur fl got ch k (o_arg o) r I Hch Heq F Nr Hi Hc) as S1.
      set (cur' := with_args cur (run_occ (rc_args cur) o)).
      assert (Ecur : upd_cur cur (o_arg o) (mkRArg (r_spec r) true (bump (arg_value r))) = cur').
      { unfold upd_cur, cur'. now rewrite E. }
      rewrite Ecur in S1.
      assert (I' : inert (MS i0 done cur' (Some (S (List.length done), o_arg o)) false)).
      { rewrite <- Ecur. apply inert_after; [congruence | reflexivity |].
        unfold needs_value, takes_value. cbn [r_spec]. rewrite Hi, Sr, Hnl.
      destruct (a_kind a); reflexivity. }
      rewrite <- Etok in S1.
      destruct (counter_run_nm p i0 done c given o a tok Na Hinc Hnl Hval Hflag (S k) cur' _ _ Ctok St' Co' I')
        as (fl' & got' & S2 & I2 & St2 & Co2).
      exists fl', got'. cbn [iter_occ].
      split; [|split; [exact I2|split; assumption]].
      econstructor; [exact S1|]. rewrite app_nil_r. exact S2.
Qed.
