(** C16: what a user reads after the environment was loaded.

    [model_view c] (Config.merge order: defaults, collection, env, overrides,
    modifications, then deletions) is accepted by the executable [spec_view]:
    no setting or section is created or lost with respect to the configuration
    the environment was read against ([pre c]), every setting named by an
    applied variable reads the converted value unless a higher level defines
    it, every other setting is untouched; and the final merge cannot fail.
    Generic part (shapes, insertion of a "names only what exists" level into a
    merge): Proofs/C16_view_shapes.v. *)
From InvokeVerif Require Import Common.Tree Common.StrUtil Model.MergeModel Model.EnvModel
     Spec.C16Spec Corr.C16Corr Proofs.C16_env.
From InvokeVerif Require Model.ConfigModel Spec.C03Spec Proofs.C03_merge Proofs.C06_shapes
     Proofs.C16_view_shapes.

Module VS := InvokeVerif.Proofs.C16_view_shapes.

(** The levels of a case other than the environment, lowest first. *)
Definition levels (c : case) : list tree := c_tree c :: c_more c ++ [c_mods c].

(** Levels the environment overrides / levels that override the environment. *)
Definition lower (c : case) : list tree := c_tree c :: firstn 1 (c_more c).
Definition higher (c : case) : list tree := skipn 1 (c_more c) ++ [c_mods c].

(** Guard: every level is a well-formed dict (no duplicate keys at any depth)
    and so is the deletions tree.  Type consistency of the levels is *not* a
    guard: it follows from [pre c = Ok _] (the merge raises on a clash). *)
Definition view_guard (c : case) : bool :=
  forallb wf (levels c) && forallb is_node (levels c) && wf (c_dels c).

Lemma levels_split c : levels c = lower c ++ higher c.
Proof.
  unfold levels, lower, higher. cbn [app]. f_equal.
  rewrite app_assoc, firstn_skipn. reflexivity.
Qed.

Lemma fold_merge_all ls : forall r,
  fold_left (fun acc lvl => bind acc (fun d => merge_dicts d lvl)) ls r =
  match r with Ok acc => ConfigModel.merge_all ls acc | Err e => Err e end.
Proof.
  induction ls as [|l rest IH]; intros r; [destruct r; reflexivity|].
  cbn [fold_left ConfigModel.merge_all]. rewrite IH. destruct r as [acc|e]; [|reflexivity].
  cbn [bind]. destruct (merge_dicts acc l); reflexivity.
Qed.

Lemma merge_levels_eq ls : merge_levels ls = ConfigModel.merge_all ls [].
Proof. unfold merge_levels. rewrite fold_merge_all. reflexivity. Qed.

(** what the accepted env level looks like *)
Lemma spec_ok_wf t pfx env d :
  spec_ok t pfx env (Ok d) = true -> wf (Node d) = true /\ no_empty_sections (Node d) = true.
Proof.
  unfold spec_ok. destruct (ambiguous t); [discriminate|].
  destruct (existsb _ _); [discriminate|].
  intros H. apply andb_true_iff in H as [H _]. apply andb_true_iff in H as [H _].
  apply andb_true_iff in H. exact H.
Qed.

(** Everything about one case, in one statement. *)
Lemma view_facts : forall c t e,
  view_guard c = true -> pre c = Ok t -> model_env c = Ok e ->
  exists d v, e = Node d /\ model_view c = Some v /\ spec_view t (higher c) d v = true /\
              wf t = true /\ wf v = true.
Proof.
  intros c t e G Hpre Henv.
  unfold view_guard in G. apply andb_true_iff in G as [G WD]. apply andb_true_iff in G as [Gw Gn].
  rewrite forallb_forall in Gw, Gn.
  assert (Hl : forall l, In l (lower c ++ higher c) -> wf l = true /\ is_node l = true).
  { intros l Hin. rewrite <- levels_split in Hin. split; [apply Gw | apply Gn]; exact Hin. }
  (* the pre-merge *)
  unfold model_env in Henv. rewrite Hpre in Henv.
  unfold pre in Hpre. fold (levels c) in Hpre. rewrite merge_levels_eq, levels_split in Hpre.
  destruct (ConfigModel.merge_all (lower c ++ higher c) []) as [d0|] eqn:E0; [|discriminate].
  inversion Hpre; subst t. clear Hpre.
  destruct (VS.merge_all_agree _ [] d0 eq_refl Hl E0) as [_ Hpair].
  destruct (VS.pre_shape (lower c) (higher c) (c_dels c) d0 Hl Hpair WD E0) as [Wt St].
  (* the env level *)
  destruct (load (Node (obliterate d0 (c_dels c))) (effective_prefix (c_pfx c)) (c_env c))
    as [d|] eqn:El; [|discriminate].
  inversion Henv; subst e. clear Henv.
  pose proof (load_meets_spec _ (effective_prefix (c_pfx c)) (c_env c) Wt) as Sp.
  rewrite El in Sp. destruct (spec_ok_wf _ _ _ _ Sp) as [We Nee].
  assert (Hsub : VS.sub (Node d) (Node (obliterate d0 (c_dels c)))).
  { apply VS.sub_of_leaves; try assumption.
    intros q w Hin. destruct (load_never_creates _ _ _ _ Wt El q w Hin) as [old [s [Hold _]]].
    exists old. exact Hold. }
  (* the final merge *)
  destruct (VS.insert_shape (lower c) (higher c) (Node d) (c_dels c) d0 Hl Hpair WD We eq_refl E0 Hsub)
    as [d1 [E1 [Wv Sv]]].
  exists d, (Node (obliterate d1 (c_dels c))). split; [reflexivity|]. split.
  - unfold model_view, model_env, pre. fold (levels c).
    rewrite merge_levels_eq, levels_split, E0, El.
    change (c_tree c :: firstn 1 (c_more c) ++ [Node d] ++ skipn 1 (c_more c) ++ [c_mods c])
      with (lower c ++ Node d :: higher c).
    rewrite merge_levels_eq, E1. reflexivity.
  - split; [|split; assumption].
    apply (VS.spec_view_intro (higher c) d _ _ (C06_shapes.maskedt (c_dels c))
             (fun q => C03Spec.oracle q (lower c)) Wt Wv eq_refl Hsub St Sv).
Qed.

(** Flagship for the view: the model's view meets the executable spec. *)
Theorem view_meets_spec : forall c t d v,
  view_guard c = true ->
  pre c = Ok t -> model_env c = Ok (Node d) -> model_view c = Some v ->
  spec_view t (skipn 1 (c_more c) ++ [c_mods c]) d v = true.
Proof.
  intros c t d v G Hpre Henv Hview.
  destruct (view_facts c t (Node d) G Hpre Henv) as [d' [v' [Ed [Ev [Sp _]]]]].
  inversion Ed; subst d'. rewrite Hview in Ev. inversion Ev; subst v'. exact Sp.
Qed.

(** Totality: once the pre-merge and the load succeeded, the final merge cannot fail. *)
Theorem view_total : forall c t e,
  view_guard c = true -> pre c = Ok t -> model_env c = Ok e -> model_view c <> None.
Proof.
  intros c t e G Hpre Henv.
  destruct (view_facts c t e G Hpre Henv) as [d [v [_ [Ev _]]]]. rewrite Ev. discriminate.
Qed.

(** The pre-merge succeeds exactly on type-consistent levels: under the guard,
    [pre c = Ok _] gives pairwise agreement (so [view_meets_spec] has no
    type-consistency hypothesis), and pairwise agreement gives [pre c = Ok _]. *)
Theorem pre_ok_iff_consistent : forall c,
  view_guard c = true ->
  ((exists t, pre c = Ok t) <->
   (forall a b, In a (levels c) -> In b (levels c) -> C03_merge.agree a b)).
Proof.
  intros c G. unfold view_guard in G. apply andb_true_iff in G as [G WD].
  apply andb_true_iff in G as [Gw Gn]. rewrite forallb_forall in Gw, Gn.
  assert (Hl : forall l, In l (levels c) -> wf l = true /\ is_node l = true) by (split; auto).
  unfold pre. fold (levels c). rewrite merge_levels_eq. split.
  - intros [t Ht]. destruct (ConfigModel.merge_all (levels c) []) as [d0|] eqn:E0; [|discriminate].
    exact (proj2 (VS.merge_all_agree _ [] d0 eq_refl Hl E0)).
  - intros Hpair. destruct (VS.merge_all_oracle (levels c) Hl Hpair) as [m [Em _]].
    rewrite Em. eexists; reflexivity.
Qed.

(** Readable corollaries of [spec_view] for the model. *)
Corollary view_nothing_created_or_lost : forall c t d v,
  view_guard c = true -> pre c = Ok t -> model_env c = Ok (Node d) -> model_view c = Some v ->
  forall p, p <> [] -> (lookup p v = None <-> lookup p t = None).
Proof.
  intros c t d v G Hpre Henv Hview p Hp.
  pose proof (view_meets_spec c t d v G Hpre Henv Hview) as Sp.
  unfold spec_view in Sp. apply andb_true_iff in Sp as [Sp _]. apply andb_true_iff in Sp as [S1 S2].
  unfold subset_paths in S1, S2. rewrite forallb_forall in S1, S2.
  assert (Wt : wf t = true /\ wf v = true).
  { destruct (view_facts c t (Node d) G Hpre Henv) as [d' [v' [_ [Ev [_ W]]]]].
    rewrite Hview in Ev. inversion Ev; subst v'. exact W. }
  destruct Wt as [Wt Wv].
  assert (D : forall x, wf x = true -> (lookup p x = None <-> ~ In p (all_paths x))).
  { intros x Wx. rewrite (VS.all_paths16_iff x Wx p). unfold C03Spec.shape_at.
    destruct (lookup p x); split; intros H; try discriminate; try reflexivity.
    - exfalso. apply H. split; [assumption | discriminate].
    - intros [_ H']. apply H'. reflexivity. }
  rewrite (D v Wv), (D t Wt). split; intros H Hin; apply H.
  - apply VS.path_in_iff. apply S2. exact Hin.
  - apply VS.path_in_iff. apply S1. exact Hin.
Qed.

(** every setting of the configuration before the load, as read afterwards *)
Corollary view_settings : forall c t d v,
  view_guard c = true -> pre c = Ok t -> model_env c = Ok (Node d) -> model_view c = Some v ->
  forall p x, In (p, x) (leaf_paths t) ->
    leaf_at p v = Some (match leaf_at p (Node d) with
                        | Some w => if existsb (defined_in p) (higher c) then x else w
                        | None => x
                        end).
Proof.
  intros c t d v G Hpre Henv Hview p x Hin.
  pose proof (view_meets_spec c t d v G Hpre Henv Hview) as Sp.
  unfold spec_view in Sp. apply andb_true_iff in Sp as [_ Sp]. rewrite forallb_forall in Sp.
  specialize (Sp (p, x) Hin). cbn [fst snd] in Sp. fold (higher c) in Sp.
  unfold opt_value_eqb in Sp. destruct (leaf_at p v) as [y|]; [|discriminate].
  apply value_eqb_eq in Sp. rewrite Sp. reflexivity.
Qed.

(** One boolean statement: under the guard the model's outputs satisfy the
    executable judgement [spec] of the correspondence file's view clause. *)
Theorem view_flagship : forall c,
  view_guard c = true ->
  match pre c, model_env c with
  | Ok t, Ok (Node d) =>
      match model_view c with
      | Some v => spec_view t (skipn 1 (c_more c) ++ [c_mods c]) d v
      | None => false
      end
  | Ok _, Ok (Leaf _) => false
  | _, _ => true
  end = true.
Proof.
  intros c G. destruct (pre c) as [t|] eqn:Hpre; [|reflexivity].
  destruct (model_env c) as [e|] eqn:Henv; [|reflexivity].
  destruct (view_facts c t e G Hpre Henv) as [d [v [-> [Ev [Sp _]]]]].
  rewrite Ev. exact Sp.
Qed.

