(** C19, general theorem: a session of DIRECTLY REQUESTED tasks is a guarded
    C06 history -- before every body the collection level is reloaded with the
    configuration of that task's own path and the environment level is re-read
    -- so the view recorded on entry to and on exit from the k-th body is the
    journal of all successful edits made so far (by this and the earlier
    bodies) replayed over the merge of the CURRENT lower levels, whose
    collection level is the k-th task's own path configuration (per setting:
    the outermost collection on that path defining it, C17) and whose
    environment level is the one read for the k-th task; and whatever ends the
    session early is one of the documented refusals, never an internal error.

    Guard (booleans): every call carries the name it was requested by
    (excludes F-C19: hooks and the implicit default task); a schema [S] to
    which the initial levels conform ([good0]); every requested name has a
    configuration conforming to [S]; every body edit is inside C06's [op_ok].
    This is the semantic content of C19Spec.spec_ok on the model's own trace;
    the boolean [spec_ok] itself (per-path [expected] with the environment
    conversion, [write_ok], outcome comparison) is NOT derived here -- it is
    the bounded sweep C19_task_view_bounded_980 and the correspondence. *)
From InvokeVerif Require Import Common.Tree Common.StrUtil Model.MergeModel Model.ConfigModel
     Model.SessionModel Spec.C03Spec Spec.C06Spec Spec.C17Spec
     Proofs.C03_merge Proofs.C06_shapes Proofs.C06_track Proofs.C06_refine
     Proofs.C17_path Proofs.C19_session.

(** ** guards *)
Definition call_named (c : ecall) : bool := match snd c with Some _ => true | None => false end.

Definition call_cfg_ok (S : tree) (ns : coll) (c : ecall) : bool :=
  match snd c with
  | Some n => match configuration ns n with
              | Ok d => level_okb S (Node d)
              | Err _ => false
              end
  | None => false
  end.

Definition session_guard (S : tree) (ns : coll) (bodies : nat -> list op) (calls : list ecall) : bool :=
  forallb (call_cfg_ok S ns) calls &&
  forallb (fun c => forallb (op_ok S) (bodies (fst c))) calls.

(** ** what a view is *)
Definition view_is (c : cfg) (J : list event) (v : dict) : Prop :=
  v = c_cache c /\
  exists X, merge_all (lower c) [] = Ok X /\ wf (Node X) = true /\
            sim (Node v) (Node (replay (Node X) J)).

(** the records of a session, call by call: entry view = journal so far over
    the levels reloaded for THIS call; exit view = journal extended by the
    body's own successful edits over the same lower levels *)
Fixpoint views_ok (S : tree) (fs : fsys) (ns : coll) (bodies : nat -> list op) (J : list event)
         (calls : list ecall) (recs : list brecord) {struct recs} : Prop :=
  match recs, calls with
  | [], _ => True
  | (t, v0, outs, v1) :: recs', (t', Some n) :: calls' =>
      t = t' /\
      exists d c2 c3,
        configuration ns n = Ok d /\
        c_collection c2 = Node d /\
        good S c2 J /\ view_is c2 J v0 /\
        let J' := J ++ journal fs c2 (bodies t) in
        good S c3 J' /\ view_is c3 J' v1 /\
        List.length outs <= List.length (bodies t) /\
        views_ok S fs ns bodies J' calls' recs'
  | _, _ => False
  end.

Definition refusal (e : err) : Prop := e = EType \/ e = EAmbigEnv \/ e = EValue \/ e = EUncastable.

Definition benign_err (e : err) : Prop :=
  e = EKey \/ e = EAttr \/ e = EType \/ e = EAmbigEnv \/ e = EValue \/ e = EUncastable.

(** ** a body is a guarded C06 history *)
Lemma run_body_good S fs : is_node S = true -> forall ops c J,
  good S c J -> forallb (op_ok S) ops = true ->
  good S (fst (fst (run_body fs c ops))) (J ++ journal fs c ops) /\
  List.length (snd (fst (run_body fs c ops))) <= List.length ops /\
  (forall e, snd (run_body fs c ops) = Some e -> refusal e).
Proof.
  intros HS. induction ops as [|o rest IH]; intros c J HG Hok.
  - cbn. rewrite app_nil_r. split; [assumption|]. split; [auto | discriminate].
  - cbn [forallb] in Hok. apply andb_true_iff in Hok as [Ho Hr].
    destruct (step_good S fs c J o HS HG Ho) as [Hg Hb].
    cbn [run_body journal]. destruct (step fs c o) as [c' out] eqn:Es. cbn [fst snd] in *.
    assert (Cont : abnormal out = false ->
              good S (fst (fst (let '(c'', outs, er) := run_body fs c' rest in (c'', out :: outs, er))))
                   (J ++ events_of c o ++ journal fs c' rest) /\
              List.length (snd (fst (let '(c'', outs, er) := run_body fs c' rest in (c'', out :: outs, er))))
                <= Datatypes.S (List.length rest) /\
              (forall e, snd (let '(c'', outs, er) := run_body fs c' rest in (c'', out :: outs, er)) = Some e
                         -> refusal e)).
    { intros _. destruct (IH c' (J ++ events_of c o) Hg Hr) as [G1 [L1 E1]].
      destruct (run_body fs c' rest) as [[c2 outs] er]. cbn [fst snd] in *.
      rewrite app_assoc. split; [assumption|]. split; [simpl; auto with arith | assumption]. }
    destruct out as [| | | | | |e]; try (rewrite (proj2 (Bool.not_true_iff_false _) (fun H => Bool.diff_false_true H)) || idtac);
      try (cbn [abnormal]; apply Cont; reflexivity).
    destruct (abnormal (OErr e)) eqn:Ab.
    + cbn [fst snd]. rewrite app_nil_r. split; [assumption|]. split; [simpl; auto with arith|].
      intros e' H. injection H as <-.
      destruct (Hb e eq_refl) as [->|[->|[H|[H|[H|H]]]]]; try discriminate Ab; unfold refusal; auto.
    + apply Cont. reflexivity.
Qed.

Lemma good_view_is S c J : is_node S = true -> good S c J -> view_is c J (c_cache c).
Proof.
  intros HS HG. split; [reflexivity|].
  destruct (good_view S c J HS HG) as [X [EX [WX [Hs _]]]]. exists X. auto.
Qed.

(** ** the session *)
Theorem run_calls_views S fs ns bodies : is_node S = true -> forall calls c J envs,
  good S c J -> session_guard S ns bodies calls = true ->
  views_ok S fs ns bodies J calls (fst (run_calls fs ns c bodies calls envs)) /\
  (forall e, snd (run_calls fs ns c bodies calls envs) = Some e -> benign_err e).
Proof.
  intros HS. induction calls as [|[t ca] rest IH]; intros c J envs HG Hgd.
  - cbn. split; [exact I | discriminate].
  - unfold session_guard in Hgd. cbn [forallb] in Hgd.
    apply andb_true_iff in Hgd as [Hc Hb]. apply andb_true_iff in Hc as [Hc1 Hc2].
    apply andb_true_iff in Hb as [Hb1 Hb2].
    assert (Hrest : session_guard S ns bodies rest = true)
      by (unfold session_guard; now rewrite Hc2, Hb2).
    unfold call_cfg_ok in Hc1. cbn [snd fst] in Hc1, Hb1.
    destruct ca as [n|]; [|discriminate].
    cbn [run_calls]. destruct (configuration ns n) as [d|e0] eqn:Ecfg; [|discriminate].
    (* load_collection *)
    assert (Ok1 : op_ok S (LoadCollection (Node d)) = true) by exact Hc1.
    destruct (step_good S fs c J _ HS HG Ok1) as [G1 B1].
    cbn [events_of] in G1. rewrite app_nil_r in G1.
    pose proof (load_collection_effect fs c (Node d)) as Eff1. cbv zeta in Eff1.
    destruct (step fs c (LoadCollection (Node d))) as [c1 o1] eqn:Es1. cbn [fst snd] in *.
    assert (Stop1 : forall er, o1 = OErr er ->
              views_ok S fs ns bodies J ((t, Some n) :: rest) [] /\
              (forall e, Some er = Some e -> benign_err e)).
    { intros er ->. split; [exact I|]. intros e H. injection H as <-. exact (B1 er eq_refl). }
    (* load_shell_env *)
    set (ev := match envs with e :: _ => e | [] => [] end).
    assert (Ok2 : op_ok S (LoadShellEnv ev) = true) by reflexivity.
    destruct (step_good S fs c1 J _ HS G1 Ok2) as [G2 B2].
    cbn [events_of] in G2. rewrite app_nil_r in G2.
    pose proof (load_shell_env_effect fs c1 ev) as Eff2. cbv zeta in Eff2.
    destruct (step fs c1 (LoadShellEnv ev)) as [c2 o2] eqn:Es2. cbn [fst snd] in *.
    (* the body *)
    destruct (run_body_good S fs HS (bodies t) c2 J G2 Hb1) as [G3 [L3 E3]].
    assert (Go : views_ok S fs ns bodies J ((t, Some n) :: rest)
                   (fst (let '(c3, outs, er) := run_body fs c2 (bodies t) in
                         let rec := (t, c_cache c2, outs, c_cache c3) in
                         match er with
                         | Some x => ([rec], Some x)
                         | None => let '(recs, er') := run_calls fs ns c3 bodies rest
                                                               match envs with _ :: (_ :: _) as r => r | _ => envs end in
                                   (rec :: recs, er')
                         end)) /\
                 (forall e, snd (let '(c3, outs, er) := run_body fs c2 (bodies t) in
                         let rec := (t, c_cache c2, outs, c_cache c3) in
                         match er with
                         | Some x => ([rec], Some x)
                         | None => let '(recs, er') := run_calls fs ns c3 bodies rest
                                                               match envs with _ :: (_ :: _) as r => r | _ => envs end in
                                   (rec :: recs, er')
                         end) = Some e -> benign_err e)).
    { destruct (run_body fs c2 (bodies t)) as [[c3 outs] er] eqn:Eb. cbn [fst snd] in *.
      assert (Head : forall recs', views_ok S fs ns bodies (J ++ journal fs c2 (bodies t)) rest recs' ->
                views_ok S fs ns bodies J ((t, Some n) :: rest) ((t, c_cache c2, outs, c_cache c3) :: recs')).
      { intros recs' Hr. cbn [views_ok]. split; [reflexivity|].
        exists d, c2, c3. split; [exact Ecfg|]. split.
        - destruct Eff2 as [Ec _]. destruct Eff1 as [Ec1 _]. now rewrite Ec, Ec1.
        - split; [exact G2|]. split; [now apply (good_view_is S)|]. cbv zeta.
          split; [exact G3|]. split; [now apply (good_view_is S)|]. split; [exact L3 | exact Hr]. }
      destruct er as [x|].
      - cbn [fst snd]. split; [apply Head; exact I|].
        intros e H. injection H as <-. destruct (E3 x eq_refl) as [Hx|[Hx|[Hx|Hx]]]; subst x; unfold benign_err; auto 7.
      - destruct (IH c3 (J ++ journal fs c2 (bodies t))
                     match envs with _ :: (_ :: _) as r => r | _ => envs end G3 Hrest) as [V Er].
        destruct (run_calls fs ns c3 bodies rest match envs with _ :: (_ :: _) as r => r | _ => envs end)
          as [recs er'] eqn:Er'. cbn [fst snd] in *. split; [now apply Head | exact Er]. }
    destruct o1 as [| | | | | |er1]; try (destruct o2 as [| | | | | |er2]; try exact Go;
      (split; [exact I|]; intros e H; injection H as <-; exact (B2 er2 eq_refl))).
    exact (Stop1 er1 eq_refl).
Qed.

(** the whole session, from the constructor on *)
Theorem session_views S ns i bodies reqs dflt dd envs c0 :
  is_node S = true -> start [] i = Ok c0 -> good0 S c0 = true ->
  let bf := fun t => match find (fun b => Nat.eqb (fst b) t) bodies with Some b => snd b | None => [] end in
  let calls := session_calls reqs dflt dd in
  session_guard S ns bf calls = true ->
  exists recs er,
    session ns i bodies reqs dflt dd envs = Ok (recs, er) /\
    views_ok S [] ns bf [] calls recs /\
    (forall e, er = Some e -> benign_err e).
Proof.
  intros HS Hst H0 bf calls Hg. unfold session. rewrite Hst. fold bf calls.
  destruct (run_calls_views S [] ns bf HS calls c0 [] envs (good0_good S c0 HS H0) Hg) as [V E].
  destruct (run_calls [] ns c0 bf calls envs) as [recs er]. cbn [fst snd] in *.
  exists recs, er. auto.
Qed.

(** the collection level of a named call, setting by setting (C17) *)
Corollary own_path_level ns n t cfgs d :
  ns_wf ns = true -> ns_canon ns = true ->
  ref_path ns (segs_of n) = Some (t, cfgs) -> all_compatible cfgs = true ->
  configuration ns n = Ok d ->
  wf (Node d) = true /\
  forall p, leaf_at p (Node d) = first_some (map (fun g => leaf_at p (Node g)) cfgs).
Proof.
  intros Hwf Hcan Href Hall Hd.
  destruct (path_deep_merge ns n t cfgs Hwf Hcan Href Hall) as [d' [Hd' [Hw Hp]]].
  unfold configuration in Hd. rewrite Hd' in Hd. injection Hd as <-. auto.
Qed.

(** non-vacuity: the tree of the sweep, a schema for it, two named requests in
    different collections, an edit and a deletion in the first body *)
Definition S_ex : tree :=
  Node [("k", Node [("x", Leaf VNone); ("d", Leaf VNone); ("top", Leaf VNone); ("a", Leaf VNone);
                    ("n", Leaf VNone)])].

Example flagship_example :
  let bodies := [(1, [SetV Item ["k"] "n" (Leaf (VInt 5)); Del Item ["k"] "top"])] in
  let bf := fun t => match find (fun b => Nat.eqb (fst b) t) bodies with Some b => snd b | None => [] end in
  let reqs := [("a.t1", leaf_call 1); ("b.t2", leaf_call 2)] in
  exists c0, start [] init0 = Ok c0 /\ good0 S_ex c0 = true /\
             session_guard S_ex ns_tree bf (session_calls reqs None true) = true /\
             forallb call_named (session_calls reqs None true) = true.
Proof. cbv zeta. eexists. split; [vm_compute; reflexivity|]. repeat split; vm_compute; reflexivity. Qed.
