(** Proofs for C05. *)
From InvokeVerif Require Import Model.ExitModel Spec.C05Spec Corr.C05Corr.
From Coq Require Import Lia ZArith.

Local Open Scope Z_scope.

(** * (a) wait-status decoding *)
Lemma land127 s : Z.land s 127 = s mod 128.
Proof. change 127 with (Z.ones 7). rewrite Z.land_ones by lia. reflexivity. Qed.

Lemma land255 s : Z.land s 255 = s mod 256.
Proof. change 255 with (Z.ones 8). rewrite Z.land_ones by lia. reflexivity. Qed.

Lemma shiftr8 s : Z.shiftr s 8 = s / 256.
Proof. rewrite Z.shiftr_div_pow2 by lia. reflexivity. Qed.

Lemma decode_exit code : 0 <= code <= 255 -> pty_returncode (exit_status code) = Some code.
Proof.
  intros H. unfold pty_returncode, WIFEXITED, WEXITSTATUS, WTERMSIG, exit_status.
  rewrite land127, shiftr8, land255.
  assert (E1 : (code * 256) mod 128 = 0) by (Z.div_mod_to_equations; lia).
  assert (E2 : (code * 256 / 256) mod 256 = code) by (Z.div_mod_to_equations; lia).
  rewrite E1, E2. reflexivity.
Qed.

Lemma decode_signal sig core : 1 <= sig <= 126 -> pty_returncode (sig_status sig core) = Some (- sig).
Proof.
  intros H. unfold pty_returncode, WIFEXITED, WIFSIGNALED, WTERMSIG, sig_status.
  rewrite land127.
  assert (E : (sig + (if core then 128 else 0)) mod 128 = sig)
    by (destruct core; Z.div_mod_to_equations; lia).
  rewrite E.
  destruct (sig =? 0) eqn:E0; [apply Z.eqb_eq in E0; lia|].
  destruct (sig =? 127) eqn:E1; [apply Z.eqb_eq in E1; lia|].
  reflexivity.
Qed.

(** the finite version: every code and every (signal, core flag), by computation *)
Definition all_codes : list Z := map Z.of_nat (seq 0 256).
Definition all_signals : list Z := map Z.of_nat (seq 1 126).

Lemma decode_table :
  forallb (fun c => optz_eqb (pty_returncode (exit_status c)) (Some c)) all_codes &&
  forallb (fun s => optz_eqb (pty_returncode (sig_status s false)) (Some (- s)) &&
                    optz_eqb (pty_returncode (sig_status s true)) (Some (- s))) all_signals = true.
Proof. vm_compute. reflexivity. Qed.

(** statuses of stopped children decode to nothing *)
Lemma decode_stopped sig : 0 <= sig <= 255 -> pty_returncode (sig * 256 + 127) = None.
Proof.
  intros H. unfold pty_returncode, WIFEXITED, WIFSIGNALED, WTERMSIG. rewrite land127.
  assert (E : (sig * 256 + 127) mod 128 = 127) by (Z.div_mod_to_equations; lia).
  rewrite E. reflexivity.
Qed.

(** * (b) Result *)
Lemma ok_iff_zero e :
  (rv_ok (result_of e) = true <-> e = Some 0) /\
  rv_failed (result_of e) = negb (rv_ok (result_of e)) /\
  rv_bool (result_of e) = rv_ok (result_of e) /\
  rv_return_code (result_of e) = e /\ rv_exited (result_of e) = e.
Proof.
  unfold result_of; cbn. repeat split; auto.
  - destruct e as [z|]; [|discriminate]. intros H. apply Z.eqb_eq in H. now subst.
  - intros ->. reflexivity.
Qed.

Lemma view_ok_result_of e : view_ok (result_of e) = true.
Proof.
  unfold view_ok, result_of; cbn. destruct e as [z|]; cbn; [|reflexivity].
  destruct (z =? 0) eqn:E; cbn; rewrite ?E, ?Z.eqb_refl; reflexivity.
Qed.

(** * (c) the decision *)
Lemma optz_eqb_refl a : optz_eqb a a = true.
Proof. destruct a; cbn; [apply Z.eqb_refl | reflexivity]. Qed.

(** flagship: the decision tail satisfies the specification, for every situation *)
Theorem run_outcome_meets_spec s : spec_finish s (run_outcome s) = true.
Proof.
  destruct s as [te we ts to st w su bp]. unfold spec_finish, expected_raise, run_outcome, finish.
  cbn [s_thread_excs s_watcher_errs s_timeout_set s_timed_out s_status s_warn s_sudo s_bad_password].
  assert (X : forall e, optz_eqb (rv_exited (result_of e)) e = true) by (intros e; apply optz_eqb_refl).
  assert (B : rv_bool (result_of (Some st)) = (st =? 0)) by reflexivity.
  destruct (Nat.eqb te 0); cbn [negb].
  2:{ destruct su; reflexivity. }
  destruct (Nat.eqb we 0); cbn [negb].
  2:{ destruct su, bp; cbn [sudo_wrap andb]; rewrite view_ok_result_of; reflexivity. }
  destruct (ts && to)%bool.
  1:{ destruct su; cbn [sudo_wrap]; rewrite view_ok_result_of, X; reflexivity. }
  rewrite B. destruct (st =? 0); cbn [negb orb andb].
  - destruct su; cbn [sudo_wrap]; rewrite view_ok_result_of, X; reflexivity.
  - destruct w; cbn [negb orb andb]; destruct su; cbn [sudo_wrap]; rewrite view_ok_result_of, X; reflexivity.
Qed.

(** the runner alone (no sudo wrapper) *)
Theorem finish_meets_spec s :
  s_sudo s = false ->
  spec_finish s (finish (s_thread_excs s) (s_watcher_errs s) (s_timeout_set s) (s_timed_out s)
                        (Some (s_status s)) (s_warn s)) = true.
Proof.
  intros H. pose proof (run_outcome_meets_spec s) as R. unfold run_outcome in R. now rewrite H in R.
Qed.

(** sudo keeps every failure type except the rejected password *)
Theorem sudo_keeps_failure_types bp o :
  sudo_wrap bp o = o \/ (bp = true /\ exists r, o = Raise RFailure r /\ sudo_wrap bp o = Raise RAuthFailure r).
Proof.
  destruct o as [r|k r|]; try (left; reflexivity).
  destruct k; try (left; reflexivity). destruct bp; [right; eauto | left; reflexivity].
Qed.

Theorem return_iff te we ts to rc w r :
  finish te we ts to rc w = Return r <->
  te = 0%nat /\ we = 0%nat /\ (ts && to = false)%bool /\ (rc = Some 0 \/ w = true) /\ r = result_of rc.
Proof.
  unfold finish. destruct te as [|te]; cbn.
  2:{ split; [discriminate | intros (H & _); discriminate]. }
  destruct we as [|we]; cbn.
  2:{ split; [discriminate | intros (_ & H & _); discriminate]. }
  destruct (ts && to)%bool; cbn.
  1:{ split; [discriminate | intros (_ & _ & H & _); discriminate]. }
  destruct rc as [z|]; cbn.
  - destruct (z =? 0) eqn:E; cbn.
    + apply Z.eqb_eq in E. subst z. split.
      * intros H; injection H as <-. repeat split; auto.
      * intros (_ & _ & _ & _ & ->). reflexivity.
    + destruct w; cbn.
      * split; [intros H; injection H as <-; repeat split; auto | intros (_ & _ & _ & _ & ->)].
        unfold result_of. now rewrite E.
      * split; [discriminate|]. intros (_ & _ & _ & [H|H] & _); [|discriminate].
        injection H as ->. discriminate.
  - destruct w; cbn.
    + split; [intros H; injection H as <-; repeat split; auto | intros (_ & _ & _ & _ & ->); reflexivity].
    + split; [discriminate|]. intros (_ & _ & _ & [H|H] & _); discriminate.
Qed.

(** the raised class by priority, and what it carries *)
Theorem raise_order te we ts to rc w :
  match finish te we ts to rc w with
  | Raise RThreadException r => te <> 0%nat /\ r = None
  | Raise RFailure r => te = 0%nat /\ we <> 0%nat /\ r = Some (result_of None)
  | Raise RCommandTimedOut r =>
      te = 0%nat /\ we = 0%nat /\ ts = true /\ to = true /\ r = Some (result_of rc)
  | Raise RUnexpectedExit r =>
      te = 0%nat /\ we = 0%nat /\ (ts && to = false)%bool /\ rc <> Some 0 /\ w = false /\
      r = Some (result_of rc)
  | Raise RAuthFailure _ => False
  | Return r => True
  | OtherOutcome => False
  end.
Proof.
  unfold finish. destruct te as [|te]; cbn; [|split; [discriminate | reflexivity]].
  destruct we as [|we]; cbn; [|repeat split; discriminate].
  destruct ts, to; cbn; try (repeat split; reflexivity);
    destruct rc as [z|]; cbn; try destruct (z =? 0) eqn:E; cbn; destruct w; cbn; auto;
    repeat split; auto; try discriminate.
  all: intros H; injection H as ->; discriminate.
Qed.

(** warn never changes the first three failures *)
Theorem warn_independent te we ts to rc w w' :
  (te <> 0%nat \/ we <> 0%nat \/ (ts && to = true)%bool) ->
  finish te we ts to rc w = finish te we ts to rc w'.
Proof.
  unfold finish. destruct te as [|te]; cbn; [|reflexivity].
  destruct we as [|we]; cbn; [|reflexivity].
  destruct (ts && to)%bool; cbn; [reflexivity|].
  intros [H|[H|H]]; congruence.
Qed.

(** a real pty child: OS contract + decoding + decision meet the specification *)
Theorem real_child_meets_spec e core warn :
  match e with Exited c => 0 <= c <= 255 | Killed s => 1 <= s <= 126 end ->
  let raw := match e with Exited c => exit_status c | Killed s => sig_status s core end in
  spec_finish (mkSit 0 0 false false (true_status e) warn false false)
              (finish 0 0 false false (pty_returncode raw) warn) = true.
Proof.
  intros H raw. assert (E : pty_returncode raw = Some (true_status e)).
  { unfold raw. destruct e; [now apply decode_exit | now apply decode_signal]. }
  rewrite E. apply (finish_meets_spec (mkSit 0 0 false false (true_status e) warn false false)). reflexivity.
Qed.

(** * (d) the program's exit code *)
Theorem program_meets_spec e : spec_program e (program_run e) = true.
Proof.
  destruct e as [|x|[c|] m| | |]; cbn; try apply Z.eqb_refl; try reflexivity;
    destruct m; reflexivity.
Qed.

Theorem program_exit_codes :
  program_run PSuccess = PReturns /\
  (forall x, program_run (PUnexpectedExit x) = PSysExit x) /\
  (forall c m, program_run (PExit (Some c) m) = PSysExit c) /\
  program_run (PExit None true) = PSysExit 1 /\ program_run (PExit None false) = PSysExit 0 /\
  program_run PParseError = PSysExit 1.
Proof. repeat split. Qed.

(** * (e) where warn comes from: configuration x keyword *)
(** the merge loop computes exactly "warn was requested" *)
Theorem opts_warn_is_requested ws : opts_warn ws = warn_requested ws.
Proof. destruct ws as [[[|]|] [| |[|]]]; reflexivity. Qed.

(** a None keyword is an omitted keyword; an explicit value wins; without a
    value at the call the configuration (default: off) decides *)
Theorem warn_keyword_table cfg :
  opts_warn (mkWs cfg KwNone) = opts_warn (mkWs cfg KwOmitted) /\
  (forall b, opts_warn (mkWs cfg (KwVal b)) = b) /\
  opts_warn (mkWs (Some true) KwNone) = true /\
  opts_warn (mkWs (Some false) KwNone) = false /\
  opts_warn (mkWs None KwNone) = false.
Proof. repeat split. Qed.

Lemma run_outcome_set_warn s : run_outcome (set_warn s (s_warn s)) = run_outcome s.
Proof. destruct s; reflexivity. Qed.

(** flagship with the warn source: whatever the situation and wherever warn
    comes from, what the model does is what the property demands *)
Theorem warn_source_meets_spec s ws :
  spec_finish (set_warn s (warn_requested ws)) (run_outcome (set_warn s (opts_warn ws))) = true.
Proof. rewrite opts_warn_is_requested. apply run_outcome_meets_spec. Qed.

(** a real pty child with the warn source *)
Theorem real_child_warn_source_meets_spec e core ws :
  match e with Exited c => 0 <= c <= 255 | Killed s => 1 <= s <= 126 end ->
  let raw := match e with Exited c => exit_status c | Killed s => sig_status s core end in
  spec_finish (mkSit 0 0 false false (true_status e) (warn_requested ws) false false)
              (finish 0 0 false false (pty_returncode raw) (opts_warn ws)) = true.
Proof. intros H. rewrite opts_warn_is_requested. now apply real_child_meets_spec. Qed.

(** the program around one command *)
Theorem task_run_meets_spec flag cfg kw code :
  spec_task_run flag cfg kw code (program_task_run flag cfg kw code) = true.
Proof.
  unfold spec_task_run, program_task_run, program_cfg_warn.
  rewrite opts_warn_is_requested.
  set (w := warn_requested _). unfold finish, result_of. cbn.
  destruct (code =? 0) eqn:E; cbn; [reflexivity|].
  destruct w; cbn; [reflexivity | apply Z.eqb_refl].
Qed.

(** -w beats a configured run.warn = False; an explicit warn=False at the call
    beats -w; warn=None at the call leaves -w in force *)
Theorem task_run_table code :
  code <> 0 ->
  (forall cfg, program_task_run true cfg KwNone code = PReturns) /\
  (forall cfg, program_task_run true cfg KwOmitted code = PReturns) /\
  (forall cfg, program_task_run true cfg (KwVal false) code = PSysExit code) /\
  (forall flag cfg, program_task_run flag cfg (KwVal true) code = PReturns) /\
  (forall kw, program_task_run false (Some true) kw code =
              if match kw with KwVal false => true | _ => false end then PSysExit code else PReturns) /\
  (forall cfg kw, cfg <> Some true -> kw <> KwVal true -> program_task_run false cfg kw code = PSysExit code).
Proof.
  intros H. apply Z.eqb_neq in H.
  unfold program_task_run, finish, result_of; cbn. rewrite H; cbn.
  split; [intros cfg; reflexivity|].
  split; [intros cfg; reflexivity|].
  split; [intros cfg; reflexivity|].
  split; [intros [] [[|]|]; reflexivity|].
  split; [intros [| |[|]]; reflexivity|].
  intros [[|]|] [| |[|]] H1 H2; try reflexivity; congruence.
Qed.
