(** C17 for build HISTORIES (Model/CollHist.v): one module namespace mounted
    several times, configure() calls in between.  The mounts are independent
    collections: a configure() on one mount / on the namespace object changes
    no sibling, and every lookup on the resulting root meets the
    specification. *)
From InvokeVerif Require Import Model.CollModel Model.CollHist Spec.C17Spec Corr.C17Corr.
From InvokeVerif Require Import Proofs.C17_path Proofs.C10_build.

Lemma assoc_aset_other {A} k k' (v : A) l : k' <> k -> assoc k' (aset k v l) = assoc k' l.
Proof.
  intros Hne. induction l as [|[k0 v0] l IH]; cbn [aset assoc].
  - destruct (String.eqb k' k) eqn:E; [apply String.eqb_eq in E; contradiction | reflexivity].
  - destruct (String.eqb k k0) eqn:E0; cbn [assoc].
    + apply String.eqb_eq in E0. subst k0.
      destruct (String.eqb k' k) eqn:E; [apply String.eqb_eq in E; contradiction | reflexivity].
    + rewrite IH. reflexivity.
Qed.

Lemma assoc_aset_same {A} k (v : A) l : assoc k (aset k v l) = Some v.
Proof.
  induction l as [|[k0 v0] l IH]; cbn [aset assoc].
  - rewrite String.eqb_refl. reflexivity.
  - destruct (String.eqb k k0) eqn:E0; cbn [assoc]; rewrite E0; [reflexivity | exact IH].
Qed.

(** ** locality of configure() *)
(** [root.collections[key].configure(cfg)] leaves every OTHER mount, the
    root's own configuration and everything else of the root as it was. *)
Lemma conf_sub_local root key cfg root' :
  conf_sub root key cfg = Ok root' ->
  (forall k', k' <> key -> assoc k' (c_subs root') = assoc k' (c_subs root)) /\
  c_config root' = c_config root /\ c_tasks root' = c_tasks root /\
  c_aliases root' = c_aliases root /\ c_default root' = c_default root.
Proof.
  destruct root as [cn tasks aliases subs dflt ad g]. cbn [conf_sub]. intros H.
  destruct (assoc key subs) as [sc|] eqn:Ea; [|discriminate].
  destruct (configure sc cfg) as [sc'|]; [|discriminate]. inversion H; subst; clear H.
  cbn [c_subs c_config c_tasks c_aliases c_default]. repeat split.
  - intros k' Hne. apply assoc_aset_other; exact Hne.
Qed.

(** ... and the configured mount itself gets exactly the recursive merge. *)
Lemma conf_sub_target root key cfg root' :
  conf_sub root key cfg = Ok root' ->
  exists sc sc', assoc key (c_subs root) = Some sc /\ configure sc cfg = Ok sc' /\
                 assoc key (c_subs root') = Some sc'.
Proof.
  destruct root as [cn tasks aliases subs dflt ad g]. cbn [conf_sub]. intros H.
  destruct (assoc key subs) as [sc|] eqn:Ea; [|discriminate].
  destruct (configure sc cfg) as [sc'|] eqn:Ec; [|discriminate]. inversion H; subst; clear H.
  exists sc, sc'. cbn [c_subs]. repeat split; try assumption. apply assoc_aset_same.
Qed.

(** One step of a history, seen from a mount [k]: only a configure() on that
    very mount or a (re-)mount under that very name changes what is stored
    under [k]; a configure() on the namespace object changes nothing of the
    root at all; and no step other than [HConfNs] changes the namespace
    object. *)
Definition touches (ad_root : bool) (k : string) (op : hop) : bool :=
  match op with
  | HMount _ _ bind _ => String.eqb bind "" || String.eqb (transform ad_root bind) k
  | HConfMount key _ => String.eqb key k
  | HConfNs _ | HConfRoot _ => false
  end.

Lemma configure_subs c t c' : configure c t = Ok c' ->
  c_subs c' = c_subs c /\ c_auto_dash c' = c_auto_dash c.
Proof.
  destruct c as [cn tasks aliases subs dflt ad g]. cbn [configure]. intros H.
  destruct (merge_dicts g t); [|discriminate]. inversion H; subst. split; reflexivity.
Qed.

Lemma hop_sibling_untouched mn st op st' k :
  hop_run mn st op = Ok st' -> touches (c_auto_dash (hs_root st)) k op = false ->
  assoc k (c_subs (hs_root st')) = assoc k (c_subs (hs_root st)).
Proof.
  intros H Ht. destruct op as [ad cfg bind dflt | cfg | key cfg | cfg]; cbn [hop_run] in H; cbn [touches] in Ht.
  - destruct (from_module_cfg (hs_ns st) mn ad cfg) as [sc|]; [|discriminate].
    destruct (add_collection (hs_root st) sc (Some bind) dflt) as [r|] eqn:Ea; [|discriminate].
    inversion H; subst; clear H. cbn [hs_root].
    destruct (hs_root st) as [cn tasks aliases subs d0 adr g]. cbn [c_auto_dash] in Ht.
    destruct (String.eqb bind "") eqn:Eb; [discriminate|]. cbn [orb] in Ht.
    unfold add_collection, truthy in Ea. rewrite Eb in Ea. cbn [negb] in Ea. rewrite Eb in Ea.
    destruct (lex_contains tasks aliases (transform adr bind)) as [[|]|]; try discriminate.
    assert (k <> transform adr bind) as Hne.
    { intros E. subst k. rewrite String.eqb_refl in Ht. discriminate. }
    destruct dflt.
    + destruct d0 as [s0|]; [destruct (negb (String.eqb s0 "")); [discriminate|]|];
        inversion Ea; subst; cbn [c_subs]; apply assoc_aset_other; exact Hne.
    + inversion Ea; subst. cbn [c_subs]. apply assoc_aset_other; exact Hne.
  - destruct (configure (hs_ns st) cfg); [|discriminate]. inversion H; subst. reflexivity.
  - destruct (conf_sub (hs_root st) key cfg) as [r|] eqn:Ec; [|discriminate]. inversion H; subst; clear H.
    cbn [hs_root]. apply (conf_sub_local _ _ _ _ Ec).
    intros E. subst k. rewrite String.eqb_refl in Ht. discriminate.
  - destruct (configure (hs_root st) cfg) as [r|] eqn:Ec; [|discriminate]. inversion H; subst; clear H.
    cbn [hs_root]. apply configure_subs in Ec. destruct Ec as [-> _]. reflexivity.
Qed.

Lemma hop_root_ad mn st op st' :
  hop_run mn st op = Ok st' -> c_auto_dash (hs_root st') = c_auto_dash (hs_root st).
Proof.
  intros H. destruct op as [ad cfg bind dflt | cfg | key cfg | cfg]; cbn [hop_run] in H.
  - destruct (from_module_cfg (hs_ns st) mn ad cfg) as [sc|]; [|discriminate].
    destruct (add_collection (hs_root st) sc (Some bind) dflt) as [r|] eqn:Ea; [|discriminate].
    inversion H; subst; clear H. cbn [hs_root].
    destruct (hs_root st) as [cn tasks aliases subs d0 adr g]. unfold add_collection in Ea.
    destruct (if truthy (Some bind) then Some bind else c_name sc) as [n0|]; [|discriminate].
    destruct (String.eqb n0 ""); [discriminate|].
    destruct (lex_contains tasks aliases (transform adr n0)) as [[|]|]; try discriminate.
    destruct dflt; [destruct (truthy d0); [discriminate|]|]; inversion Ea; subst; reflexivity.
  - destruct (configure (hs_ns st) cfg); [|discriminate]. inversion H; subst. reflexivity.
  - destruct (conf_sub (hs_root st) key cfg) as [r|] eqn:Ec; [|discriminate]. inversion H; subst; clear H.
    cbn [hs_root]. destruct (hs_root st) as [cn tasks aliases subs d0 adr g]. cbn [conf_sub] in Ec.
    destruct (assoc key subs) as [sc0|]; [|discriminate]. destruct (configure sc0 cfg); [|discriminate].
    inversion Ec; subst. reflexivity.
  - destruct (configure (hs_root st) cfg) as [r|] eqn:Ec; [|discriminate]. inversion H; subst; clear H.
    cbn [hs_root]. apply configure_subs in Ec. tauto.
Qed.

(** A whole run of steps none of which touches the mount [k]: what is stored
    under [k] -- its configuration included -- is what it was, whatever was
    configured on its siblings, on the namespace object and on the root. *)
Lemma hops_sibling_untouched mn : forall ops st st' k,
  hops_run mn st ops = Ok st' ->
  forallb (fun op => negb (touches (c_auto_dash (hs_root st)) k op)) ops = true ->
  assoc k (c_subs (hs_root st')) = assoc k (c_subs (hs_root st)).
Proof.
  induction ops as [|op ops IH]; intros st st' k H Hall; cbn [hops_run] in H.
  - inversion H; subst. reflexivity.
  - destruct (hop_run mn st op) as [st1|] eqn:E1; [|discriminate].
    cbn [forallb] in Hall. apply andb_true_iff in Hall as [H1 H2]. apply negb_true_iff in H1.
    rewrite (IH st1 st' k H); [apply (hop_sibling_untouched _ _ _ _ _ E1 H1)|].
    rewrite (hop_root_ad _ _ _ _ E1). exact H2.
Qed.

(** The namespace object is changed by configure() calls on IT only. *)
Lemma hops_ns_untouched mn : forall ops st st',
  hops_run mn st ops = Ok st' ->
  forallb (fun op => match op with HConfNs _ => false | _ => true end) ops = true ->
  hs_ns st' = hs_ns st.
Proof.
  induction ops as [|op ops IH]; intros st st' H Hall; cbn [hops_run] in H.
  - inversion H; subst. reflexivity.
  - destruct (hop_run mn st op) as [st1|] eqn:E1; [|discriminate].
    cbn [forallb] in Hall. apply andb_true_iff in Hall as [H1 H2].
    rewrite (IH st1 st' H H2).
    destruct op as [ad cfg bind dflt | cfg | key cfg | cfg]; cbn [hop_run] in E1; try discriminate.
    + destruct (from_module_cfg (hs_ns st) mn ad cfg) as [sc0|]; [|discriminate].
      destruct (add_collection (hs_root st) sc0 (Some bind) dflt); [|discriminate]. inversion E1; reflexivity.
    + destruct (conf_sub (hs_root st) key cfg); [|discriminate]. inversion E1; reflexivity.
    + destruct (configure (hs_root st) cfg); [|discriminate]. inversion E1; reflexivity.
Qed.

(** ** every lookup on the root a history leaves behind meets the specification *)
Definition hop_plain (op : hop) : bool :=
  match op with HMount _ _ bind _ => plain bind | _ => true end.

Definition hist_plain (h : hist) : bool :=
  plain (h_mod h) && names_plain (h_ns h) && plain_opt (h_root h) && forallb hop_plain (h_ops h).

Lemma conf_sub_canon root key cfg root' :
  canon' root = true -> conf_sub root key cfg = Ok root' -> canon' root' = true.
Proof.
  destruct root as [cn tasks aliases subs dflt ad g]. cbn [conf_sub]. intros Hc H.
  destruct (assoc key subs) as [sc|] eqn:Ea; [|discriminate].
  destruct (configure sc cfg) as [sc'|] eqn:Ec; [|discriminate]. inversion H; subst; clear H.
  rewrite canon'_unfold in *. rewrite !andb_true_iff in *. destruct Hc as [[[Hcn Hk] Hv] Hs].
  assert (In (key, sc) subs) as Hin.
  { clear -Ea. induction subs as [|[k0 v0] l IH]; cbn [assoc] in Ea; [discriminate|].
    destruct (String.eqb key k0) eqn:E.
    - apply String.eqb_eq in E. inversion Ea; subst. left; reflexivity.
    - right. apply IH; exact Ea. }
  assert (canon' sc' = true) as Hsc'.
  { eapply configure_canon; [|exact Ec]. rewrite forallb_forall in Hs. apply (Hs _ Hin). }
  repeat split; try assumption.
  - rewrite forallb_forall in *. intros x Hx. apply in_app_or in Hx. destruct Hx as [Hx|Hx].
    + apply Hk. apply in_or_app. left; exact Hx.
    + apply in_app_or in Hx. destruct Hx as [Hx|Hx].
      * apply Hk. apply in_or_app. right. apply in_or_app. left; exact Hx.
      * apply akeys_aset in Hx. destruct Hx as [->|Hx].
        -- apply Hk. apply in_or_app. right. apply in_or_app. right.
           change key with (fst (key, sc)). apply in_map. exact Hin.
        -- apply Hk. apply in_or_app. right. apply in_or_app. right. exact Hx.
  - apply forallb_forall. intros [k v] Hx. cbn [snd].
    assert (In v (map snd (aset key sc' subs))) as Hv'
      by (change v with (snd (k, v)); apply in_map; exact Hx).
    apply subs_aset in Hv'. destruct Hv' as [->|Hv']; [exact Hsc'|].
    apply in_map_iff in Hv'. destruct Hv' as [[k2 v2] [E Hin2]]. cbn [snd] in E. subst v2.
    rewrite forallb_forall in Hs. apply (Hs _ Hin2).
Qed.

Lemma hop_canon mn st op st' :
  plain mn = true -> hop_plain op = true ->
  canon' (hs_ns st) = true -> canon' (hs_root st) = true ->
  hop_run mn st op = Ok st' -> canon' (hs_ns st') = true /\ canon' (hs_root st') = true.
Proof.
  intros Hm Hp Hn Hr H. destruct op as [ad cfg bind dflt | cfg | key cfg | cfg]; cbn [hop_run] in H.
  - destruct (from_module_cfg (hs_ns st) mn ad cfg) as [sc|] eqn:Ef; [|discriminate].
    destruct (add_collection (hs_root st) sc (Some bind) dflt) as [r|] eqn:Ea; [|discriminate].
    inversion H; subst; clear H. cbn [hs_ns hs_root]. split; [exact Hn|].
    apply (add_collection_canon (hs_root st) sc (Some bind) dflt r Hr); [ | exact Hp | exact Ea].
    unfold from_module_cfg in Ef.
    destruct (reimport (names_empty (hs_ns st)) (hs_ns st) mn ad) as [c0|] eqn:Er; [|discriminate].
    assert (canon' c0 = true) as H0 by exact (reimport_canon _ _ _ _ _ Hn Hm Er).
    destruct cfg as [g|]; [|inversion Ef; subst; exact H0].
    destruct (tree_falsy g); [inversion Ef; subst; exact H0|].
    exact (configure_canon _ _ _ H0 Ef).
  - destruct (configure (hs_ns st) cfg) as [n|] eqn:Ec; [|discriminate]. inversion H; subst.
    cbn [hs_ns hs_root]. split; [exact (configure_canon _ _ _ Hn Ec) | exact Hr].
  - destruct (conf_sub (hs_root st) key cfg) as [r|] eqn:Ec; [|discriminate]. inversion H; subst.
    cbn [hs_ns hs_root]. split; [exact Hn | exact (conf_sub_canon _ _ _ _ Hr Ec)].
  - destruct (configure (hs_root st) cfg) as [r|] eqn:Ec; [|discriminate]. inversion H; subst.
    cbn [hs_ns hs_root]. split; [exact Hn | exact (configure_canon _ _ _ Hr Ec)].
Qed.

Lemma hops_canon mn : forall ops st st',
  plain mn = true -> forallb hop_plain ops = true ->
  canon' (hs_ns st) = true -> canon' (hs_root st) = true ->
  hops_run mn st ops = Ok st' -> canon' (hs_ns st') = true /\ canon' (hs_root st') = true.
Proof.
  induction ops as [|op ops IH]; intros st st' Hm Hp Hn Hr H; cbn [hops_run] in H.
  - inversion H; subst. split; assumption.
  - destruct (hop_run mn st op) as [st1|] eqn:E1; [|discriminate].
    cbn [forallb] in Hp. apply andb_true_iff in Hp as [P1 P2].
    destruct (hop_canon mn st op st1 Hm P1 Hn Hr E1) as [Hn1 Hr1].
    apply (IH st1 st' Hm P2 Hn1 Hr1 H).
Qed.

Lemma hist_meets_spec h st name :
  hist_plain h = true -> run_hist h = Ok st ->
  C17Spec.spec_ok (hs_root st) name (model_obs (hs_root st) name) = true /\
  C17Spec.spec_ok (hs_ns st) name (model_obs (hs_ns st) name) = true.
Proof.
  unfold hist_plain, run_hist. rewrite !andb_true_iff. intros [[[Hm Hns] Hr] Hops] H.
  destruct (build (h_ns h)) as [nsc|] eqn:Eb; [|discriminate].
  assert (canon' (new_coll (h_root h) true) = true) as H0.
  { unfold new_coll. rewrite canon'_unfold. cbn [akeys map app forallb option_map plain_opt].
    rewrite !andb_true_r.
    destruct (h_root h) as [x|]; [cbn [option_map plain_opt]; apply plain_transform; exact Hr | reflexivity]. }
  destruct (hops_canon (h_mod h) (h_ops h) (mkHS nsc (new_coll (h_root h) true)) st Hm Hops
                       (build_canon' _ Hns _ Eb) H0 H) as [Hn1 Hr1].
  split; apply model_meets_spec; apply canon'_ns_canon; assumption.
Qed.

(** Non-vacuity / the demo of seed C17-6 in the model: module namespace with
    settings, mounted as docs and www, www configured afterwards. *)
Definition ex_hist : hist :=
  mkHist "sphinxmod"
    (ISub (Some "sphinxmod") true (Node [("sphinx", Node [("source", Leaf (VStr "docs"))])])
          [ITask (mkTask 1 "build" ["make"] true) None [] None] None false)
    None
    [HMount None None "docs" false; HMount None None "www" false;
     HConfRoot (Node [("sphinx", Node [("jobs", Leaf (VInt 2))])]);
     HConfMount "www" (Node [("sphinx", Node [("source", Leaf (VStr "sites/www"))])]);
     HConfNs (Node [("sphinx", Node [("late", Leaf (VBool true))])])].

Lemma ex_hist_independent :
  hist_plain ex_hist = true /\
  exists st, run_hist ex_hist = Ok st /\
    configuration (hs_root st) "docs.make" =
      Ok [("sphinx", Node [("source", Leaf (VStr "docs")); ("jobs", Leaf (VInt 2))])] /\
    configuration (hs_root st) "www" =
      Ok [("sphinx", Node [("source", Leaf (VStr "sites/www")); ("jobs", Leaf (VInt 2))])] /\
    c_config (hs_ns st) = [("sphinx", Node [("source", Leaf (VStr "docs")); ("late", Leaf (VBool true))])].
Proof.
  split; [vm_compute; reflexivity|]. eexists. split; [vm_compute; reflexivity|].
  repeat split; vm_compute; reflexivity.
Qed.
