(** C11: the heap model of merge_dicts refines the pure one.  If [base] is a
    tree in the heap (no internal sharing) that shares nothing with [updates]
    ([updates] itself may share sub-dicts freely), then running merge_dicts on
    the heap succeeds exactly when the pure merge_dicts of the two views
    succeeds, and then [base] represents the pure result (same keys, same
    order, same values) and is again a tree. *)
From Coq Require Import Lia.
From InvokeVerif Require Import Common.Tree Common.StrUtil Model.MergeModel Model.HeapMerge
     Proofs.ListFacts Proofs.TreeFacts Proofs.C11_heap.

(** * "Object [a] reads as tree [t]" (sharing allowed) *)
Section Items.
  Variable R : tree -> addr -> Prop.
  Fixpoint rep_items (kids : list (string * tree)) (n : hnode) {struct kids} : Prop :=
    match kids, n with
    | [], [] => True
    | (k, c) :: kids', (k', v) :: n' =>
        k = k' /\
        match c, v with
        | Leaf x, HLeaf y => x = y
        | Node _, HRef ca => R c ca
        | _, _ => False
        end /\ rep_items kids' n'
    | _, _ => False
    end.
End Items.

Fixpoint rep (h : heap) (t : tree) (a : addr) {struct t} : Prop :=
  match t with
  | Leaf _ => False
  | Node kids =>
      exists n, hget h a = Some n /\
        (fix ri (kids : list (string * tree)) (n : hnode) {struct kids} : Prop :=
           match kids, n with
           | [], [] => True
           | (k, c) :: kids', (k', v) :: n' =>
               k = k' /\
               match c, v with
               | Leaf x, HLeaf y => x = y
               | Node _, HRef ca => rep h c ca
               | _, _ => False
               end /\ ri kids' n'
           | _, _ => False
           end) kids n
  end.

Lemma rep_Node h kids a :
  rep h (Node kids) a <-> exists n, hget h a = Some n /\ rep_items (rep h) kids n.
Proof.
  cbn [rep].
  assert (Hi : forall n,
    (fix ri (kids : list (string * tree)) (n : hnode) {struct kids} : Prop :=
           match kids, n with
           | [], [] => True
           | (k, c) :: kids', (k', v) :: n' =>
               k = k' /\
               match c, v with
               | Leaf x, HLeaf y => x = y
               | Node _, HRef ca => rep h c ca
               | _, _ => False
               end /\ ri kids' n'
           | _, _ => False
           end) kids n <-> rep_items (rep h) kids n).
  { induction kids as [|[k c] kids IH]; intros [|[k' v] n]; simpl; try tauto;
      try (rewrite IH; tauto). }
  split; intros [n [G H]]; exists n; (split; [exact G | apply Hi; exact H]).
Qed.

(** * "Object [a] is a tree in the heap reading as [t], occupying exactly the
    objects [F]" (the footprint; [NoDup F] says: no internal sharing) *)
Section OwnItems.
  Variable O : tree -> addr -> list addr -> Prop.
  Fixpoint own_items (kids : list (string * tree)) (n : hnode) (F : list addr) {struct kids} : Prop :=
    match kids, n with
    | [], [] => F = []
    | (k, c) :: kids', (k', v) :: n' =>
        k = k' /\
        match c, v with
        | Leaf x, HLeaf y => x = y /\ own_items kids' n' F
        | Node _, HRef ca => exists F1 F2, F = F1 ++ F2 /\ O c ca F1 /\ own_items kids' n' F2
        | _, _ => False
        end
    | _, _ => False
    end.
End OwnItems.

Fixpoint own (h : heap) (t : tree) (a : addr) (F : list addr) {struct t} : Prop :=
  match t with
  | Leaf _ => False
  | Node kids =>
      exists n Fk, hget h a = Some n /\ F = a :: Fk /\
        (fix oi (kids : list (string * tree)) (n : hnode) (F : list addr) {struct kids} : Prop :=
           match kids, n with
           | [], [] => F = []
           | (k, c) :: kids', (k', v) :: n' =>
               k = k' /\
               match c, v with
               | Leaf x, HLeaf y => x = y /\ oi kids' n' F
               | Node _, HRef ca => exists F1 F2, F = F1 ++ F2 /\ own h c ca F1 /\ oi kids' n' F2
               | _, _ => False
               end
           | _, _ => False
           end) kids n Fk
  end.

Lemma own_Node h kids a F :
  own h (Node kids) a F <->
  exists n Fk, hget h a = Some n /\ F = a :: Fk /\ own_items (own h) kids n Fk.
Proof.
  cbn [own].
  assert (Hi : forall n Fk,
    (fix oi (kids : list (string * tree)) (n : hnode) (F : list addr) {struct kids} : Prop :=
           match kids, n with
           | [], [] => F = []
           | (k, c) :: kids', (k', v) :: n' =>
               k = k' /\
               match c, v with
               | Leaf x, HLeaf y => x = y /\ oi kids' n' F
               | Node _, HRef ca => exists F1 F2, F = F1 ++ F2 /\ own h c ca F1 /\ oi kids' n' F2
               | _, _ => False
               end
           | _, _ => False
           end) kids n Fk <-> own_items (own h) kids n Fk).
  { induction kids as [|[k c] kids IH]; intros [|[k' v] n] Fk; simpl; tauto. }
  split; intros [n [Fk [G [E H]]]]; exists n, Fk; (split; [exact G|]); (split; [exact E | apply Hi; exact H]).
Qed.

(** * Frames *)
Lemma own_items_frame h h' kids :
  Forall (fun kt => forall a F, own h (snd kt) a F ->
                      (forall z, In z F -> hget h' z = hget h z) -> own h' (snd kt) a F) kids ->
  forall n F, own_items (own h) kids n F -> (forall z, In z F -> hget h' z = hget h z) ->
              own_items (own h') kids n F.
Proof.
  induction kids as [|[k c] kids IH]; intros HF [|[k' v] n] F H Hfr; simpl in *; auto.
  inversion HF as [|? ? Hc HFr]; subst. simpl in Hc.
  destruct H as [E H]. split; [exact E|].
  destruct c as [x|ck], v as [y|ca]; auto.
  - destruct H as [Hx Hr]. split; [exact Hx | apply IH; assumption].
  - destruct H as [F1 [F2 [EF [Ho Hr]]]]. subst F. exists F1, F2. split; [reflexivity|]. split.
    + apply Hc; [exact Ho|]. intros z Hz. apply Hfr. apply in_or_app. left; exact Hz.
    + apply IH; [assumption | exact Hr |]. intros z Hz. apply Hfr. apply in_or_app. right; exact Hz.
Qed.

Lemma own_frame : forall t h h' a F, own h t a F ->
  (forall z, In z F -> hget h' z = hget h z) -> own h' t a F.
Proof.
  induction t as [v|kids IH] using tree_ind'; intros h h' a F H Hfr; [destruct H|].
  apply own_Node in H as [n [Fk [G [E Hi]]]]. apply own_Node. exists n, Fk.
  split; [rewrite Hfr; [exact G | subst F; left; reflexivity]|]. split; [exact E|].
  eapply own_items_frame; [| exact Hi |].
  - eapply Forall_impl; [|exact IH]. intros kt Hkt a0 F0 Ho Hf. eapply Hkt; eassumption.
  - intros z Hz. apply Hfr. subst F. right; exact Hz.
Qed.

(** What the references of an owned node point to. *)
Lemma own_items_ref (O : tree -> addr -> list addr -> Prop) kids :
  forall n F k c, own_items O kids n F -> In (k, HRef c) n ->
  exists ck F1, In (k, Node ck) kids /\ O (Node ck) c F1 /\ incl F1 F.
Proof.
  induction kids as [|[k0 c0] kids IH]; intros [|[k' v] n] F k c H Hin; simpl in *; try contradiction.
  destruct H as [E H]. subst k'. destruct Hin as [Hin|Hin].
  - inversion Hin; subst. destruct c0 as [x|ck]; [contradiction|].
    destruct H as [F1 [F2 [EF [Ho Hr]]]]. exists ck, F1. split; [left; reflexivity|].
    split; [exact Ho|]. subst F. apply incl_appl, incl_refl.
  - destruct c0 as [x|ck], v as [y|ca]; try contradiction.
    + destruct H as [_ Hr]. destruct (IH n F k c Hr Hin) as [ck' [F1 [Hk [Ho Hi]]]].
      exists ck', F1. split; [right; exact Hk|]. split; assumption.
    + destruct H as [F1 [F2 [EF [Ho Hr]]]]. destruct (IH n F2 k c Hr Hin) as [ck' [F1' [Hk [Ho' Hi]]]].
      exists ck', F1'. split; [right; exact Hk|]. split; [exact Ho'|]. subst F. apply incl_appr. exact Hi.
Qed.

(** Everything reachable from an owned tree lies in its footprint. *)
Lemma own_reach : forall t h a F z, own h t a F -> reach h a z -> In z F.
Proof.
  induction t as [v|kids IH] using tree_ind'; intros h a F z H Hr; [destruct H|].
  apply own_Node in H as [n [Fk [G [E Hi]]]]. subst F.
  inversion Hr as [|? n' k c ? Hn Hin Hr']; subst; [left; reflexivity|].
  rewrite G in Hn. inversion Hn; subst n'.
  destruct (own_items_ref (own h) kids n Fk k c Hi Hin) as [ck [F1 [Hk [Ho Hinc]]]].
  rewrite Forall_forall in IH. right. apply Hinc.
  exact (IH (k, Node ck) Hk h c F1 z Ho Hr').
Qed.

Lemma own_in_heap : forall t h a F z, own h t a F -> In z F -> z < List.length h.
Proof.
  induction t as [v|kids IH] using tree_ind'; intros h a F z H Hz; [destruct H|].
  apply own_Node in H as [n [Fk [G [E Hi]]]]. subst F.
  destruct Hz as [<-|Hz]; [eapply hget_some_lt; eassumption|].
  clear G. revert n Fk Hi Hz. induction kids as [|[k c] kids IHk]; intros [|[k' v] n] Fk Hi Hz;
    simpl in *; try contradiction.
  - subst Fk. destruct Hz.
  - inversion IH as [|? ? Hc IHr]; subst. simpl in Hc. destruct Hi as [_ Hi].
    destruct c as [x|ck], v as [y|ca]; try contradiction.
    + destruct Hi as [_ Hr]. eapply IHk; eassumption.
    + destruct Hi as [F1 [F2 [EF [Ho Hr]]]]. subst Fk. apply in_app_or in Hz as [Hz|Hz].
      * eapply Hc; eassumption.
      * eapply IHk; eassumption.
Qed.

(** An owned tree reads as that tree. *)
Lemma own_rep : forall t h a F, own h t a F -> rep h t a.
Proof.
  induction t as [v|kids IH] using tree_ind'; intros h a F H; [destruct H|].
  apply own_Node in H as [n [Fk [G [_ Hi]]]]. apply rep_Node. exists n. split; [exact G|].
  clear G. revert n Fk Hi. induction kids as [|[k c] kids IHk]; intros [|[k' v] n] Fk Hi; simpl in *; auto.
  inversion IH as [|? ? Hc IHr]; subst. simpl in Hc. destruct Hi as [E Hi]. split; [exact E|].
  destruct c as [x|ck], v as [y|ca]; try contradiction.
  - destruct Hi as [Hx Hr]. split; [exact Hx | eapply IHk; eassumption].
  - destruct Hi as [F1 [F2 [_ [Ho Hr]]]]. split; [eapply Hc; exact Ho | eapply IHk; eassumption].
Qed.

(** [rep] depends only on what is reachable. *)
Lemma rep_frame : forall t h h' a, rep h t a ->
  (forall z, reach h a z -> hget h' z = hget h z) -> rep h' t a.
Proof.
  induction t as [v|kids IH] using tree_ind'; intros h h' a H Hfr; [destruct H|].
  apply rep_Node in H as [n [G Hi]]. apply rep_Node. exists n.
  split; [rewrite Hfr; [exact G | apply reach_refl]|].
  assert (Hedge : forall k c, In (k, HRef c) n -> forall z, reach h c z -> hget h' z = hget h z).
  { intros k c Hin z Hz. apply Hfr. eapply reach_step; eauto. }
  clear G Hfr. revert n Hi Hedge.
  induction kids as [|[k c] kids IHk]; intros [|[k' v] n] Hi Hedge; simpl in *; auto.
  inversion IH as [|? ? Hc IHr]; subst. simpl in Hc. destruct Hi as [E [Hv Hr]].
  split; [exact E|]. split.
  - destruct c as [x|ck], v as [y|ca]; auto.
    apply (Hc h h' ca Hv). apply (Hedge k' ca). left; reflexivity.
  - apply IHk; [assumption | exact Hr |]. intros k0 c0 Hin. apply (Hedge k0 c0). right; exact Hin.
Qed.

(** If nothing reachable from [a] changed, [a] reaches the same objects. *)
Lemma reach_frame h h' a z :
  (forall w, reach h a w -> hget h' w = hget h w) -> reach h' a z -> reach h a z.
Proof.
  intros Hfr H. revert Hfr. induction H as [a|a n k c x Hn Hin _ IH]; intros Hfr; [apply reach_refl|].
  rewrite Hfr in Hn by apply reach_refl.
  eapply reach_step; [exact Hn | exact Hin |]. apply IH.
  intros w Hw. apply Hfr. eapply reach_step; eauto.
Qed.

(** * Looking keys up in represented nodes *)
Lemma rep_items_keys (R : tree -> addr -> Prop) kids : forall n,
  rep_items R kids n -> map fst n = keys kids.
Proof.
  induction kids as [|[k c] kids IH]; intros [|[k' v] n] H; simpl in *; try contradiction; [reflexivity|].
  destruct H as [E [_ Hr]]. subst. f_equal. apply IH. exact Hr.
Qed.

Definition looks (R : tree -> addr -> Prop) (un : hnode) (k : string) (v : tree) : Prop :=
  match v with
  | Leaf x => aget k un = Some (HLeaf x)
  | Node _ => exists c, aget k un = Some (HRef c) /\ R v c /\ In (k, HRef c) un
  end.

Lemma rep_items_lookup (R : tree -> addr -> Prop) kids : forall n,
  rep_items R kids n -> NoDup (keys kids) ->
  forall k v, In (k, v) kids -> looks R n k v.
Proof.
  induction kids as [|[k0 c0] kids IH]; intros [|[k' v'] n] H ND k v Hin; simpl in *; try contradiction.
  destruct H as [E [Hv Hr]]. subst k'. inversion ND as [|? ? Hnin ND']; subst.
  destruct Hin as [Hin|Hin].
  - inversion Hin; subst. unfold looks. simpl. rewrite String.eqb_refl.
    destruct v as [x|ck], v' as [y|ca]; try contradiction.
    + subst. reflexivity.
    + exists ca. split; [reflexivity|]. split; [exact Hv | left; reflexivity].
  - assert (Hne : String.eqb k k0 = false).
    { destruct (String.eqb k k0) eqn:E; [|reflexivity]. apply String.eqb_eq in E; subst.
      exfalso. apply Hnin. change k0 with (fst (k0, v)). apply in_map. exact Hin. }
    pose proof (IH n Hr ND' k v Hin) as Hl. unfold looks in *. simpl. rewrite Hne.
    destruct v as [x|ck]; [exact Hl|]. destruct Hl as [c [G [Rc Hc]]]. exists c. auto.
Qed.

Lemma looks_impl (R R' : tree -> addr -> Prop) un k v :
  (forall c, R v c -> R' v c) -> looks R un k v -> looks R' un k v.
Proof.
  unfold looks. destruct v; [auto|]. intros H [c [G [Rc Hc]]]. exists c. auto.
Qed.

(** The base node against the pure base dict. *)
Lemma own_items_get (O : tree -> addr -> list addr -> Prop) d : forall bn Fk k,
  own_items O d bn Fk ->
  match get k d with
  | None => aget k bn = None
  | Some (Leaf y) => aget k bn = Some (HLeaf y)
  | Some (Node _) => exists bc, aget k bn = Some (HRef bc)
  end.
Proof.
  induction d as [|[k0 c0] d IH]; intros [|[k' v] bn] Fk k H; simpl in *; try contradiction; [reflexivity|].
  destruct H as [E H]. subst k'. destruct (String.eqb k k0).
  - destruct c0 as [x|ck], v as [y|ca]; try contradiction.
    + destruct H as [-> _]. reflexivity.
    + exists ca. reflexivity.
  - destruct c0 as [x|ck], v as [y|ca]; try contradiction.
    + destruct H as [_ Hr]. eapply IH; eassumption.
    + destruct H as [F1 [F2 [_ [_ Hr]]]]. eapply IH; eassumption.
Qed.

(** * Updating an owned node *)
Lemma own_items_set_leaf (O : tree -> addr -> list addr -> Prop) d x k : forall bn Fk,
  own_items O d bn Fk ->
  match get k d with Some (Node _) => False | _ => True end ->
  own_items O (set k (Leaf x) d) (aset k (HLeaf x) bn) Fk.
Proof.
  induction d as [|[k0 c0] d IH]; intros [|[k' v] bn] Fk H Hk; simpl in *; try contradiction.
  - subst Fk. split; [reflexivity|]. split; reflexivity.
  - destruct H as [E H]. subst k'. destruct (String.eqb k k0) eqn:Ek.
    + destruct c0 as [y|ck]; [|contradiction]. destruct v as [y'|ca]; [|contradiction].
      simpl. destruct H as [_ Hr]. split; [reflexivity|]. split; [reflexivity | exact Hr].
    + simpl. split; [reflexivity|].
      destruct c0 as [y|ck], v as [y'|ca]; try contradiction.
      * destruct H as [Hy Hr]. split; [exact Hy | apply IH; assumption].
      * destruct H as [F1 [F2 [EF [Ho Hr]]]]. exists F1, F2. split; [exact EF|]. split; [exact Ho|].
        apply IH; assumption.
Qed.

Lemma own_items_add (O : tree -> addr -> list addr -> Prop) d m na Fn k : forall bn Fk,
  own_items O d bn Fk -> get k d = None -> O (Node m) na Fn ->
  own_items O (set k (Node m) d) (aset k (HRef na) bn) (Fk ++ Fn).
Proof.
  induction d as [|[k0 c0] d IH]; intros [|[k' v] bn] Fk H Hk Ho; simpl in *; try contradiction.
  - subst Fk. split; [reflexivity|]. exists Fn, []. rewrite app_nil_r. auto.
  - destruct H as [E H]. subst k'. destruct (String.eqb k k0) eqn:Ek; [discriminate|].
    simpl. split; [reflexivity|].
    destruct c0 as [y|ck], v as [y'|ca]; try contradiction.
    + destruct H as [Hy Hr]. split; [exact Hy | apply IH; assumption].
    + destruct H as [F1 [F2 [EF [Ho1 Hr]]]]. exists F1, (F2 ++ Fn). subst Fk.
      split; [rewrite app_assoc; reflexivity|]. split; [exact Ho1 | apply IH; assumption].
Qed.

Lemma own_items_frame' hc h2 d bn F :
  own_items (own hc) d bn F -> (forall z, In z F -> hget h2 z = hget hc z) ->
  own_items (own h2) d bn F.
Proof.
  intros H Hfr. eapply own_items_frame; [| exact H | exact Hfr].
  apply Forall_forall. intros kt _ a F0 Ho Hf. eapply own_frame; eassumption.
Qed.

Lemma own_items_replace hc d : forall bn Fk k bk,
  own_items (own hc) d bn Fk -> get k d = Some (Node bk) ->
  exists bc F1 Fa Fb, aget k bn = Some (HRef bc) /\ Fk = Fa ++ F1 ++ Fb /\ own hc (Node bk) bc F1 /\
    forall h2 m F1', (forall z, In z (Fa ++ Fb) -> hget h2 z = hget hc z) -> own h2 (Node m) bc F1' ->
                     own_items (own h2) (set k (Node m) d) bn (Fa ++ F1' ++ Fb).
Proof.
  induction d as [|[k0 c0] d IH]; intros bn Fk k bk H Hk; [discriminate|].
  destruct bn as [|[k' v] bn]; [destruct H|].
  cbn [own_items] in H. cbn [get] in Hk. cbn [aget set].
  destruct H as [E H]. subst k'. destruct (String.eqb k k0) eqn:Ek.
  - inversion Hk; subst c0. destruct v as [y|ca]; [contradiction|].
    destruct H as [F1 [F2 [EF [Ho Hr]]]]. exists ca, F1, [], F2.
    split; [reflexivity|]. split; [exact EF|]. split; [exact Ho|].
    intros h2 m F1' Hfr Hom. cbn [own_items app]. split; [reflexivity|]. exists F1', F2. split; [reflexivity|].
    split; [exact Hom|]. eapply own_items_frame'; [exact Hr | exact Hfr].
  - destruct c0 as [y|ck], v as [y'|ca]; try contradiction.
    + destruct H as [Hy Hr]. destruct (IH bn Fk k bk Hr Hk) as [bc [F1 [Fa [Fb [G [EF [Ho Hrep]]]]]]].
      exists bc, F1, Fa, Fb. split; [exact G|]. split; [exact EF|]. split; [exact Ho|].
      intros h2 m F1' Hfr Hom. cbn [own_items]. split; [reflexivity|]. split; [exact Hy|]. apply Hrep; assumption.
    + destruct H as [F1c [F2 [EF [Hoc Hr]]]].
      destruct (IH bn F2 k bk Hr Hk) as [bc [F1 [Fa [Fb [G [EF2 [Ho Hrep]]]]]]].
      exists bc, F1, (F1c ++ Fa), Fb. split; [exact G|].
      split; [subst Fk F2; rewrite <- app_assoc; reflexivity|]. split; [exact Ho|].
      intros h2 m F1' Hfr Hom. cbn [own_items]. split; [reflexivity|].
      exists F1c, (Fa ++ F1' ++ Fb). split; [rewrite <- app_assoc; reflexivity|]. split.
      * eapply own_frame; [exact Hoc|]. intros z Hz. apply Hfr.
        apply in_or_app. left. apply in_or_app. left. exact Hz.
      * apply Hrep; [|exact Hom]. intros z Hz. apply Hfr.
        apply in_app_or in Hz as [Hz|Hz]; apply in_or_app; [left; apply in_or_app; right; exact Hz | right; exact Hz].
Qed.

(** * NoDup bookkeeping for footprints *)
Lemma nd_app {A} (l1 l2 : list A) :
  NoDup (l1 ++ l2) <-> NoDup l1 /\ NoDup l2 /\ (forall x, In x l1 -> In x l2 -> False).
Proof.
  induction l1 as [|a l1 IH]; simpl.
  - split; [intros H; split; [constructor | split; [exact H | intros x []]] | tauto].
  - split.
    + intros H. inversion H as [|? ? Hn Hr]; subst. apply IH in Hr as [H1 [H2 H3]].
      split; [constructor; [intros Hin; apply Hn; apply in_or_app; left; exact Hin | exact H1]|].
      split; [exact H2|]. intros x [->|Hx] Hx2; [apply Hn; apply in_or_app; right; exact Hx2 | eapply H3; eassumption].
    + intros [H1 [H2 H3]]. inversion H1 as [|? ? Hn Hr]; subst. constructor.
      * intros Hin. apply in_app_or in Hin as [Hin|Hin]; [contradiction | apply (H3 a); [left; reflexivity | exact Hin]].
      * apply IH. split; [exact Hr|]. split; [exact H2|]. intros x Hx. apply H3. right; exact Hx.
Qed.

Lemma nodup_replace (A F1 F1' Fb : list addr) (bound : nat) :
  NoDup (A ++ F1 ++ Fb) -> NoDup F1' ->
  (forall z, In z F1' -> In z F1 \/ bound <= z) ->
  (forall z, In z (A ++ Fb) -> z < bound) ->
  NoDup (A ++ F1' ++ Fb).
Proof.
  intros H H1' Hin Hb.
  apply nd_app in H as [HA [H2 HA2]]. apply nd_app in H2 as [HF1 [HFb H1b]].
  apply nd_app. split; [exact HA|]. split.
  - apply nd_app. split; [exact H1'|]. split; [exact HFb|].
    intros x Hx Hxb. destruct (Hin x Hx) as [Hx1|Hxl]; [eapply H1b; eassumption|].
    assert (x < bound) by (apply Hb; apply in_or_app; right; exact Hxb). lia.
  - intros x HxA Hx. apply in_app_or in Hx as [Hx|Hx].
    + destruct (Hin x Hx) as [Hx1|Hxl].
      * apply (HA2 x HxA). apply in_or_app. left; exact Hx1.
      * assert (x < bound) by (apply Hb; apply in_or_app; left; exact HxA). lia.
    + apply (HA2 x HxA). apply in_or_app. right; exact Hx.
Qed.

(** * The abstraction theorem *)
Definition sep (h : heap) (F : list addr) (u : addr) : Prop :=
  forall z, In z F -> reach h u z -> False.

Definition abs_goal (f : nat) (h : heap) (b u : addr) (db : dict) (tu : tree) (F : list addr) : Prop :=
  match merge_dicts db tu with
  | Ok dm => exists h' F', merge_h f b u h = Ok h' /\ own h' (Node dm) b F' /\ NoDup F' /\
                           (forall z, In z F' -> In z F \/ List.length h <= z)
  | Err e => merge_h f b u h = Err e
  end.

Definition abs_IH (tu : tree) : Prop :=
  wf tu = true -> is_node tu = true -> forall f h b u db F,
  depth tu <= f -> hwf h -> own h (Node db) b F -> NoDup F -> rep h tu u -> sep h F u ->
  abs_goal f h b u db tu F.

Lemma depth_kid k c kids : In (k, c) kids -> depth c < depth (Node kids).
Proof.
  cbn [depth]. induction kids as [|[k' c'] kids IH]; intros H; [destruct H|].
  destruct H as [H|H]; cbn [fold_right snd].
  - inversion H; subst. lia.
  - specialize (IH H). lia.
Qed.

Section Loop.
  Variables (h : heap) (b u : addr) (F : list addr) (f' : nat) (us : list (string * tree)) (un : hnode).
  Hypothesis Wh : hwf h.
  Hypothesis Hun : hget h u = Some un.
  Hypothesis Hlook : forall k v, In (k, v) us -> looks (rep h) un k v.
  Hypothesis HIH : forall k v, In (k, v) us -> abs_IH v.
  Hypothesis Hkids : forall k v, In (k, v) us -> wf v = true /\ depth v <= f'.
  Hypothesis Hsep : sep h F u.

  Lemma Lu : u < List.length h.
  Proof. eapply hget_some_lt; eassumption. Qed.

  (** one leaf stored into the base node *)
  Lemma leaf_step hc bn Fk Fc dcur k x :
    hwf hc -> hget hc b = Some bn -> Fc = b :: Fk -> NoDup Fc ->
    own_items (own hc) dcur bn Fk ->
    (forall a, aget k bn <> Some (HRef a)) ->
    match get k dcur with Some (Node _) => False | _ => True end ->
    let hc' := hset hc b (aset k (HLeaf x) bn) in
    hwf hc' /\ List.length hc' = List.length hc /\
    own hc' (Node (set k (Leaf x) dcur)) b Fc /\
    (forall z, z <> b -> hget hc' z = hget hc z).
  Proof.
    intros Wc Gb EFc ND Hi Hnr Hgd hc'.
    assert (M : mods hc hc' (fun z => z = b)).
    { apply (mods_hset hc b bn); try assumption.
      - intros k' c Hin. apply aset_leaf_refs; assumption.
      - intros k' c Hin. apply aset_leaf_refs in Hin; [|assumption]. eapply Wc; eauto. }
    split; [exact (m_wf _ _ _ M)|]. split; [apply length_hset|]. split.
    - apply own_Node. exists (aset k (HLeaf x) bn), Fk.
      split; [apply hget_hset_same; eapply hget_some_lt; eassumption|]. split; [exact EFc|].
      eapply own_items_frame'.
      + apply own_items_set_leaf; [exact Hi | exact Hgd].
      + intros z Hz. apply hget_hset_other. intros ->. subst Fc. inversion ND; contradiction.
    - intros z Hz. apply hget_hset_other. congruence.
  Qed.

  Lemma loop_abs : forall rest, (forall kv, In kv rest -> In kv us) ->
    forall hc dcur Fc,
      hwf hc -> List.length h <= List.length hc ->
      own hc (Node dcur) b Fc -> NoDup Fc ->
      (forall z, In z Fc -> In z F \/ List.length h <= z) ->
      (forall z, reach h u z -> hget hc z = hget h z) ->
      match merge_list rest dcur with
      | Ok dm => exists h' F', merge_loop (merge_h f') b u (List.length un) (map fst rest) hc = Ok h' /\
                               own h' (Node dm) b F' /\ NoDup F' /\
                               (forall z, In z F' -> In z F \/ List.length h <= z)
      | Err e => merge_loop (merge_h f') b u (List.length un) (map fst rest) hc = Err e
      end.
  Proof.
    induction rest as [|[k v] rest IHr]; intros Hsub hc dcur Fc Wc Lc Ho ND HFc Hu.
    - cbn [merge_list map merge_loop]. rewrite (Hu u (reach_refl _ _)), Hun, Nat.eqb_refl.
      exists hc, Fc. auto.
    - assert (Hin : In (k, v) us) by (apply Hsub; left; reflexivity).
      assert (Hsub' : forall kv, In kv rest -> In kv us) by (intros kv Hkv; apply Hsub; right; exact Hkv).
      destruct (Hkids k v Hin) as [Wv Dv].
      pose proof (Hlook k v Hin) as Hl.
      pose proof Lu as Lu'.
      assert (Guc : hget hc u = Some un) by (rewrite (Hu u (reach_refl _ _)); exact Hun).
      assert (Hsepc : forall z, In z Fc -> reach h u z -> False).
      { intros z Hz Hr. destruct (HFc z Hz) as [HzF|Hzl]; [exact (Hsep z HzF Hr)|].
        pose proof (reach_in_bounds h u z Wh Lu' Hr). lia. }
      pose proof Ho as Ho'. apply own_Node in Ho' as [bn [Fk [Gb [EFc Hi]]]].
      assert (Hbnd : forall z, In z Fc -> z < List.length hc) by (intros z Hz; eapply own_in_heap; eassumption).
      assert (Hbu : ~ reach h u b) by (intros Hr; apply (Hsepc b); [subst Fc; left; reflexivity | exact Hr]).
      cbn [merge_list map fst merge_loop]. rewrite Guc, Gb, Nat.eqb_refl. cbn [negb].
      unfold merge_step. pose proof (own_items_get (own hc) dcur bn Fk k Hi) as Hg.
      destruct v as [x|vk].
      + (* a leaf of updates *)
        unfold looks in Hl. rewrite Hl.
        destruct (get k dcur) as [[y|bk]|] eqn:Gd.
        * rewrite Hg.
          destruct (leaf_step hc bn Fk Fc dcur k x Wc Gb EFc ND Hi) as [W' [L' [Ho2 Hfr]]];
            [intros a; rewrite Hg; discriminate | rewrite Gd; exact I |].
          apply (IHr Hsub' (hset hc b (aset k (HLeaf x) bn)) (set k (Leaf x) dcur) Fc);
            try assumption; [rewrite L'; exact Lc |].
          intros z Hz. rewrite Hfr; [apply Hu; exact Hz | intros ->; exact (Hbu Hz)].
        * destruct Hg as [bc Hg]. rewrite Hg. reflexivity.
        * rewrite Hg.
          destruct (leaf_step hc bn Fk Fc dcur k x Wc Gb EFc ND Hi) as [W' [L' [Ho2 Hfr]]];
            [intros a; rewrite Hg; discriminate | rewrite Gd; exact I |].
          apply (IHr Hsub' (hset hc b (aset k (HLeaf x) bn)) (set k (Leaf x) dcur) Fc);
            try assumption; [rewrite L'; exact Lc |].
          intros z Hz. rewrite Hfr; [apply Hu; exact Hz | intros ->; exact (Hbu Hz)].
      + (* a dict of updates *)
        destruct Hl as [uc [Gv [Ruc Huc]]]. rewrite Gv.
        assert (Hreach_uc : forall z, reach h uc z -> reach h u z).
        { intros z Hz. eapply reach_step; [exact Hun | exact Huc | exact Hz]. }
        assert (Hu_uc : forall z, reach h uc z -> hget hc z = hget h z).
        { intros z Hz. apply Hu. apply Hreach_uc. exact Hz. }
        assert (Ruc' : rep hc (Node vk) uc) by (eapply rep_frame; [exact Ruc | exact Hu_uc]).
        assert (Luc : uc < List.length h) by (eapply Wh; eauto).
        pose proof (HIH k (Node vk) Hin) as IHv.
        destruct (get k dcur) as [[y|bk]|] eqn:Gd.
        * rewrite Hg. reflexivity.
        * (* merge into the existing child *)
          destruct (own_items_replace hc dcur bn Fk k bk Hi Gd) as [bc [F1 [Fa [Fb [Gk [EFk [Hoc Hrep]]]]]]].
          rewrite Gk.
          assert (NDk : NoDup (b :: Fa ++ F1 ++ Fb)) by (rewrite <- EFk, <- EFc; exact ND).
          assert (ND1 : NoDup F1).
          { inversion NDk as [|? ? _ NDr]; subst. apply nd_app in NDr as [_ [H2 _]].
            apply nd_app in H2 as [H2 _]. exact H2. }
          assert (HF1c : forall z, In z F1 -> In z Fc).
          { intros z Hz. rewrite EFc, EFk. right. apply in_or_app. right. apply in_or_app. left. exact Hz. }
          assert (Hsep1 : sep hc F1 uc).
          { intros z Hz Hr. apply (Hsepc z (HF1c z Hz)). apply Hreach_uc.
            eapply reach_frame; [|exact Hr]. exact Hu_uc. }
          pose proof (IHv Wv eq_refl f' hc bc uc bk F1 Dv Wc Hoc ND1 Ruc' Hsep1) as Hgoal.
          unfold abs_goal in Hgoal.
          destruct (merge_dicts bk (Node vk)) as [m|e] eqn:Em; [|rewrite Hgoal; reflexivity].
          destruct Hgoal as [h2 [F1' [E2 [Ho2 [ND2 HF2]]]]]. rewrite E2.
          assert (Lbc : bc < List.length hc).
          { apply Hbnd, HF1c. apply own_Node in Hoc as [? [? [_ [-> _]]]]. left; reflexivity. }
          destruct (merge_h_post f' bc uc hc h2 Wc Lbc E2) as [M2 N2].
          assert (Hfr2 : forall z, z < List.length hc -> ~ In z F1 -> hget h2 z = hget hc z).
          { intros z Lz Nz. destruct (m_frame _ _ _ M2 z) as [E|[R|L]]; [exact E | | lia].
            exfalso. apply Nz. eapply own_reach; eassumption. }
          assert (Hdisj : forall z, In z (b :: Fa ++ Fb) -> ~ In z F1).
          { intros z Hz Hz1. inversion NDk as [|? ? Hnb NDr]; subst.
            destruct Hz as [<-|Hz].
            - apply Hnb. apply in_or_app. right. apply in_or_app. left. exact Hz1.
            - apply nd_app in NDr as [_ [H2 H3]]. apply nd_app in H2 as [_ [_ H4]].
              apply in_app_or in Hz as [Hz|Hz].
              + apply (H3 z Hz). apply in_or_app. left; exact Hz1.
              + exact (H4 z Hz1 Hz). }
          assert (Hold : forall z, In z (b :: Fa ++ Fb) -> z < List.length hc).
          { intros z Hz. apply Hbnd. rewrite EFc, EFk. destruct Hz as [<-|Hz]; [left; reflexivity|].
            right. apply in_app_or in Hz as [Hz|Hz]; apply in_or_app; [left; exact Hz|].
            right. apply in_or_app. right; exact Hz. }
          apply (IHr Hsub' h2 (set k (Node m) dcur) (b :: Fa ++ F1' ++ Fb)).
          -- exact (m_wf _ _ _ M2).
          -- pose proof (m_len _ _ _ M2). lia.
          -- apply own_Node. exists bn, (Fa ++ F1' ++ Fb). split; [|split; [reflexivity|]].
             ++ rewrite Hfr2; [exact Gb | eapply hget_some_lt; eassumption | apply Hdisj; left; reflexivity].
             ++ apply Hrep; [|exact Ho2]. intros z Hz. apply Hfr2; [apply Hold; right; exact Hz|].
                apply Hdisj. right; exact Hz.
          -- change (NoDup ((b :: Fa) ++ F1' ++ Fb)).
             apply (nodup_replace (b :: Fa) F1 F1' Fb (List.length hc)); [exact NDk | exact ND2 | exact HF2 |].
             intros z Hz. apply Hold. simpl in Hz. simpl. destruct Hz as [Hz|Hz]; [left; exact Hz | right; exact Hz].
          -- intros z [<-|Hz]; [apply HFc; rewrite EFc; left; reflexivity|].
             apply in_app_or in Hz as [Hz|Hz].
             ++ apply HFc. rewrite EFc, EFk. right. apply in_or_app. left; exact Hz.
             ++ apply in_app_or in Hz as [Hz|Hz].
                ** destruct (HF2 z Hz) as [H1|H1]; [apply HFc, HF1c; exact H1 | right; lia].
                ** apply HFc. rewrite EFc, EFk. right. apply in_or_app. right. apply in_or_app. right; exact Hz.
          -- intros z Hz. pose proof (reach_in_bounds h u z Wh Lu' Hz) as Lz.
             rewrite Hfr2; [apply Hu; exact Hz | lia |].
             intros Hz1. exact (Hsepc z (HF1c z Hz1) Hz).
        * (* a dict new to base: copy_dict, then link *)
          rewrite Hg. unfold halloc. cbv beta iota zeta.
          pose (na := List.length hc). pose (h1 := hc ++ [([] : hnode)]).
          assert (W1 : hwf h1) by (apply hwf_app_empty; exact Wc).
          assert (Lna : na < List.length h1) by (unfold h1, na; rewrite app_length; simpl; lia).
          assert (Gna : hget h1 na = Some []) by (apply hget_app_new).
          assert (Hown0 : own h1 (Node []) na [na]).
          { apply own_Node. exists [], []. split; [exact Gna|]. split; reflexivity. }
          assert (Hold1 : forall z, z < List.length hc -> hget h1 z = hget hc z).
          { intros z Lz. apply hget_app_old. exact Lz. }
          assert (Ruc1 : rep h1 (Node vk) uc).
          { eapply rep_frame; [exact Ruc'|]. intros z Hz. apply Hold1.
            apply (reach_in_bounds hc uc z Wc); [lia | exact Hz]. }
          assert (Hsep0 : sep h1 [na] uc).
          { intros z [<-|[]] Hr.
            assert (Hr' : reach hc uc na) by (eapply reach_app_old; [exact Wc | lia | exact Hr]).
            pose proof (reach_in_bounds hc uc na Wc ltac:(lia) Hr'). unfold na in *. lia. }
          pose proof (IHv Wv eq_refl f' h1 na uc [] [na] Dv W1 Hown0 ltac:(repeat constructor; intros [])
                          Ruc1 Hsep0) as Hgoal.
          unfold abs_goal in Hgoal.
          set (r := merge_h f' _ uc _). change r with (merge_h f' na uc h1). clear r.
          destruct (merge_dicts [] (Node vk)) as [m|e] eqn:Em; [|rewrite Hgoal; reflexivity].
          destruct Hgoal as [h2 [Fn [E2 [Ho2 [ND2 HF2]]]]]. rewrite E2.
          destruct (merge_h_post f' na uc h1 h2 W1 Lna E2) as [M2 N2].
          assert (Hna : forall z, reach h1 na z -> z = na) by (intros z Hz; eapply reach_empty_node; eauto).
          assert (Hfr2 : forall z, z < List.length hc -> hget h2 z = hget hc z).
          { intros z Lz. destruct (m_frame _ _ _ M2 z) as [E|[R|L]].
            - rewrite E. apply Hold1. exact Lz.
            - apply Hna in R. unfold na in R. lia.
            - unfold h1 in L. rewrite app_length in L. simpl in L. lia. }
          assert (Lb : b < List.length hc) by (eapply hget_some_lt; eassumption).
          rewrite (Hfr2 b Lb), Gb.
          pose proof (m_wf _ _ _ M2) as W2. pose proof (m_len _ _ _ M2) as L2.
          assert (L12 : List.length h1 = S (List.length hc)) by (unfold h1; rewrite app_length; simpl; lia).
          assert (Gb2 : hget h2 b = Some bn) by (rewrite Hfr2; assumption).
          assert (Gkn : aget k bn = None) by exact Hg.
          assert (M3 : mods h2 (hset h2 b (aset k (HRef na) bn)) (fun z => z = b)).
          { apply (mods_hset h2 b bn); try assumption.
            - intros k' c Hc. apply aset_new_refs; [exact Gkn | left; exact Hc].
            - intros k' c Hc. apply aset_new_refs in Hc; [|exact Gkn].
              destruct Hc as [Hc|[_ ->]]; [eapply W2; eauto | unfold na; lia]. }
          assert (HFn : forall z, In z Fn -> List.length hc <= z).
          { intros z Hz. destruct (HF2 z Hz) as [[<-|[]]|H1]; [unfold na; lia | lia]. }
          apply (IHr Hsub' (hset h2 b (aset k (HRef na) bn)) (set k (Node m) dcur) (b :: Fk ++ Fn)).
          -- exact (m_wf _ _ _ M3).
          -- rewrite length_hset. lia.
          -- apply own_Node. exists (aset k (HRef na) bn), (Fk ++ Fn).
             split; [apply hget_hset_same; lia|]. split; [reflexivity|].
             eapply own_items_frame'.
             ++ apply own_items_add; [|exact Gd | exact Ho2].
                eapply own_items_frame'; [exact Hi|]. intros z Hz. apply Hfr2. apply Hbnd.
                rewrite EFc. right; exact Hz.
             ++ intros z Hz. apply hget_hset_other. intros Eb; subst z.
                apply in_app_or in Hz as [Hz|Hz].
                ** rewrite EFc in ND. inversion ND; contradiction.
                ** pose proof (HFn b Hz). lia.
          -- change (NoDup ((b :: Fk) ++ Fn)). apply nd_app. rewrite <- EFc.
             split; [exact ND|]. split; [exact ND2|].
             intros z Hz1 Hz2. pose proof (Hbnd z Hz1). pose proof (HFn z Hz2). lia.
          -- intros z Hz. change (In z ((b :: Fk) ++ Fn)) in Hz. rewrite <- EFc in Hz.
             apply in_app_or in Hz as [Hz|Hz]; [apply HFc; exact Hz | right; pose proof (HFn z Hz); lia].
          -- intros z Hz. pose proof (reach_in_bounds h u z Wh Lu' Hz) as Lz.
             rewrite hget_hset_other; [rewrite Hfr2 by lia; apply Hu; exact Hz|].
             intros Eb; subst z. exact (Hbu Hz).
  Qed.
End Loop.

Theorem merge_abs : forall tu, abs_IH tu.
Proof.
  induction tu as [v|us IH] using tree_ind'; intros Wt Nt f h b u db F Df Wh Ho ND Ru Hs; [discriminate|].
  destruct f as [|f']; [cbn [depth] in Df; lia|].
  apply rep_Node in Ru as [un [Gu Hi]].
  apply wf_Node_inv in Wt as [NDk Hwk].
  unfold abs_goal. rewrite merge_dicts_Node, merge_h_S, Gu.
  rewrite (rep_items_keys _ _ _ Hi). unfold keys.
  assert (Hl := rep_items_lookup (rep h) us un Hi NDk).
  assert (HIH : forall k v, In (k, v) us -> abs_IH v).
  { rewrite Forall_forall in IH. intros k v Hin. exact (IH (k, v) Hin). }
  assert (Hkids : forall k v, In (k, v) us -> wf v = true /\ depth v <= f').
  { intros k v Hin. rewrite Forall_forall in Hwk. split; [exact (Hwk (k, v) Hin)|].
    pose proof (depth_kid k v us Hin). lia. }
  pose proof (loop_abs h b u F f' us un Wh Gu Hl HIH Hkids Hs us (fun kv H => H)
                       h db F Wh (le_n _) Ho ND (fun z Hz => or_introl Hz) (fun z _ => eq_refl)) as H.
  exact H.
Qed.

(** The statement for callers. *)
Theorem merge_h_refines_merge_dicts : forall f h b u db us F,
  depth (Node us) <= f -> wf (Node us) = true -> hwf h ->
  own h (Node db) b F -> NoDup F -> rep h (Node us) u ->
  (forall z, In z F -> reach h u z -> False) ->
  match merge_dicts db (Node us) with
  | Ok dm => exists h' F', merge_h f b u h = Ok h' /\ own h' (Node dm) b F' /\ NoDup F' /\
                           rep h' (Node dm) b
  | Err e => merge_h f b u h = Err e
  end.
Proof.
  intros f h b u db us F Df Wt Wh Ho ND Ru Hs.
  pose proof (merge_abs (Node us) Wt eq_refl f h b u db F Df Wh Ho ND Ru Hs) as H.
  unfold abs_goal in H. destruct (merge_dicts db (Node us)) as [dm|e]; [|exact H].
  destruct H as [h' [F' [E [Ho' [ND' _]]]]]. exists h', F'.
  split; [exact E|]. split; [exact Ho'|]. split; [exact ND' | eapply own_rep; exact Ho'].
Qed.

(** copy_dict: the new object reads exactly like the source (whatever sharing the
    source has) and is a tree. *)
Theorem copy_h_refines_copy_dict : forall f h src us,
  depth (Node us) <= f -> wf (Node us) = true -> hwf h -> rep h (Node us) src ->
  match copy_dict (Node us) with
  | Ok dm => exists a h' F', copy_h f src h = Ok (a, h') /\ own h' (Node dm) a F' /\ NoDup F'
  | Err e => copy_h f src h = Err e
  end.
Proof.
  intros f h src us Df Wt Wh Ru. unfold copy_dict, copy_h, halloc. cbv beta iota zeta.
  pose (na := List.length h). pose (h1 := h ++ [([] : hnode)]).
  assert (W1 : hwf h1) by (apply hwf_app_empty; exact Wh).
  assert (Gna : hget h1 na = Some []) by (apply hget_app_new).
  assert (Hown0 : own h1 (Node []) na [na]).
  { apply own_Node. exists [], []. split; [exact Gna|]. split; reflexivity. }
  assert (Lsrc : src < List.length h).
  { apply rep_Node in Ru as [n [G _]]. eapply hget_some_lt; eassumption. }
  assert (Ru1 : rep h1 (Node us) src).
  { eapply rep_frame; [exact Ru|]. intros z Hz. apply hget_app_old.
    eapply reach_in_bounds; eassumption. }
  assert (Hsep0 : forall z, In z [na] -> reach h1 src z -> False).
  { intros z [<-|[]] Hr.
    assert (Hr' : reach h src na) by (eapply reach_app_old; eassumption).
    pose proof (reach_in_bounds h src na Wh Lsrc Hr'). unfold na in *. lia. }
  pose proof (merge_abs (Node us) Wt eq_refl f h1 na src [] [na] Df W1 Hown0
                        ltac:(repeat constructor; intros []) Ru1 Hsep0) as H.
  unfold abs_goal in H.
  set (r := merge_h f _ src _). change r with (merge_h f na src h1). clear r.
  destruct (merge_dicts [] (Node us)) as [dm|e]; [|rewrite H; reflexivity].
  destruct H as [h' [F' [E [Ho' [ND' _]]]]]. rewrite E. exists na, h', F'. auto.
Qed.

(** [rep] is what the executable reader [hview] computes. *)
Definition hview_items (f : nat) (h : heap) : hnode -> option dict :=
  fix go (n : hnode) : option dict :=
    match n with
    | [] => Some []
    | (k, HLeaf v) :: n' => option_map (cons (k, Leaf v)) (go n')
    | (k, HRef c) :: n' =>
        match hview f h c, go n' with
        | Some t, Some d => Some ((k, t) :: d)
        | _, _ => None
        end
    end.

Lemma hview_S f h a :
  hview (S f) h a = match hget h a with
                    | None => None
                    | Some n => option_map Node (hview_items f h n)
                    end.
Proof. reflexivity. Qed.

Theorem rep_hview : forall t h a f, rep h t a -> depth t <= f -> hview f h a = Some t.
Proof.
  induction t as [v|kids IH] using tree_ind'; intros h a f H Df; [destruct H|].
  destruct f as [|f']; [cbn [depth] in Df; lia|].
  apply rep_Node in H as [n [G Hi]]. rewrite hview_S, G.
  assert (Hk : forall k c, In (k, c) kids -> depth c <= f').
  { intros k c Hin. pose proof (depth_kid k c kids Hin). lia. }
  clear Df G.
  assert (E : hview_items f' h n = Some kids); [|rewrite E; reflexivity].
  revert n Hi Hk. induction kids as [|[k c] kids IHk]; intros [|[k' v] n] Hi Hk; simpl in Hi; try contradiction.
  - reflexivity.
  - inversion IH as [|? ? Hc IHr]; subst. simpl in Hc. destruct Hi as [<- [Hv Hr]].
    assert (Et : hview_items f' h n = Some kids).
    { apply IHk; [exact IHr | exact Hr |]. intros k0 c0 Hin. apply (Hk k0 c0). right; exact Hin. }
    cbn [hview_items]. fold (hview_items f' h). destruct c as [x|ck], v as [y|ca]; try contradiction.
    + subst y. rewrite Et. reflexivity.
    + rewrite (Hc h ca f' Hv (Hk k (Node ck) (or_introl eq_refl))), Et. reflexivity.
Qed.
