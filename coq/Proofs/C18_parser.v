(** C18: remainder and unparsed-token theorems on the parser model, the
    refutation witnesses for placement equivalence, and the handle-level lemma
    behind the partial placement theorem. *)
From InvokeVerif Require Import Corr.C18Corr Proofs.C07_fuel.
From Coq Require Import Lia.

(** ** Remainder *)

Fixpoint no_ddash (l : list string) : bool :=
  match l with
  | [] => true
  | t :: l' => negb (String.eqb t "--") && no_ddash l'
  end.

Lemma split_ddash_app body rem :
  no_ddash body = true -> split_ddash (body ++ "--" :: rem) = (body, rem).
Proof.
  induction body as [|t l IH]; simpl; [reflexivity|].
  rewrite andb_true_iff, negb_true_iff. intros [E H]. rewrite E, (IH H). reflexivity.
Qed.

Lemma split_ddash_none body : no_ddash body = true -> split_ddash body = (body, []).
Proof.
  induction body as [|t l IH]; simpl; [reflexivity|].
  rewrite andb_true_iff, negb_true_iff. intros [E H]. rewrite E, (IH H). reflexivity.
Qed.

(** every argv is either free of "--" or splits at its first "--" *)
Lemma split_ddash_spec argv :
  no_ddash (fst (split_ddash argv)) = true /\
  (argv = fst (split_ddash argv) /\ snd (split_ddash argv) = [] \/
   argv = fst (split_ddash argv) ++ "--" :: snd (split_ddash argv)).
Proof.
  induction argv as [|t l IH]; simpl; [auto|].
  destruct (String.eqb t "--") eqn:E.
  - apply String.eqb_eq in E; subst. simpl. auto.
  - destruct (split_ddash l) as [b r]. simpl in *. rewrite E. simpl.
    destruct IH as [N [[H1 H2]|H]]; split; auto.
    + left. split; congruence.
    + right. congruence.
Qed.

Theorem remainder_verbatim p body rem r :
  no_ddash body = true ->
  parse_argv p (body ++ "--" :: rem) = Ok r -> pr_remainder r = join " " rem.
Proof.
  intros N. unfold parse_argv, parse_argv_fuel. rewrite (split_ddash_app body rem N). simpl.
  destruct (new_machine p) as [m|]; [|discriminate].
  destruct (loop p (body_fuel body) m body) as [[m'|]|]; try discriminate.
  destruct (finish m'); [|discriminate]. intros [= <-]. reflexivity.
Qed.

(** The parse of the body is a function of the tokens before "--" only. *)
Theorem body_independent_of_remainder p body rem :
  no_ddash body = true ->
  match parse_argv p (body ++ "--" :: rem), parse_argv p body with
  | Ok r1, Ok r2 => pr_ctxs r1 = pr_ctxs r2 /\ pr_unparsed r1 = pr_unparsed r2
  | Err e1, Err e2 => e1 = e2
  | _, _ => False
  end.
Proof.
  intros N. unfold parse_argv, parse_argv_fuel.
  rewrite (split_ddash_app body rem N), (split_ddash_none body N). simpl.
  destruct (new_machine p) as [m|]; [|reflexivity].
  destruct (loop p (body_fuel body) m body) as [[m'|]|]; try reflexivity.
  destruct (finish m'); simpl; auto.
Qed.

(** Program level: [core.remainder] is the remainder of the first pass, i.e.
    of the command line itself. *)
Theorem program_remainder core tasks body rem r :
  no_ddash body = true ->
  program_parse core tasks (body ++ "--" :: rem) = Ok r -> pg_remainder r = join " " rem.
Proof.
  intros N. unfold program_parse, parser_parse. simpl.
  destruct (parse_argv (mkP [] (Some core) true) (body ++ "--" :: rem)) as [r1|] eqn:P1; [|discriminate].
  pose proof (remainder_verbatim _ _ _ _ N P1) as R.
  destruct (pr_ctxs r1); [discriminate|].
  destruct (parser_ok tasks); [|discriminate].
  destruct (parse_argv (mkP tasks (Some core) false) (pr_unparsed r1)) as [r2|]; [|discriminate].
  destruct (pr_ctxs r2); [discriminate|]. intros [= <-]. exact R.
Qed.

(** ** Unparsed tokens are stored verbatim *)

Lemma set_arg_value_side m f v c m' :
  set_arg_value m f v c = Ok m' ->
  m_unparsed m' = m_unparsed m /\ m_st m' = m_st m.
Proof.
  unfold set_arg_value. destruct (get_arg m f); [|intros [= <-]; auto].
  destruct (set_value r v c); [|discriminate]. intros [= <-].
  unfold put_arg. destruct (get_ctx m (fst f)); simpl; auto.
Qed.

Lemma enter_state_side m m' :
  enter_state m = Ok m' -> m_unparsed m' = m_unparsed m /\ m_st m' = m_st m.
Proof.
  unfold enter_state, bind. destruct (complete_flag m) as [m1|] eqn:CF; [|discriminate].
  assert (S1 : m_unparsed m1 = m_unparsed m /\ m_st m1 = m_st m).
  { revert CF. unfold complete_flag. destruct (m_flag m); [|intros [= <-]; auto].
    destruct (flag_arg m); [|intros [= <-]; auto].
    destruct (takes_value _ && _ && _); [discriminate|].
    destruct (negb (r_raw r) && a_optional (r_spec r)); [|intros [= <-]; auto].
    apply set_arg_value_side. }
  unfold complete_context. destruct (m_cur m1); [|intros [= <-]; exact S1].
  destruct (cur_ctx m1); [|intros [= <-]; exact S1].
  destruct (has_missing r); [discriminate|].
  destruct (existsb _ _); intros [= <-]; simpl; exact S1.
Qed.

Lemma step_unknown p m t m' pushed :
  m_st m = SUnknown -> m_unparsed m <> [] ->
  step p m t = Ok (m', pushed) ->
  pushed = [] /\ m_unparsed m' = m_unparsed m ++ [t] /\ m_st m' = SUnknown.
Proof.
  intros St Un. unfold step, bind.
  assert (P : presplit m t = Ok (t, [])).
  { unfold presplit. destruct (m_unparsed m); [congruence|]. rewrite andb_false_r. reflexivity. }
  rewrite P.
  assert (R : forall sp', rollback m t (t, []) = Ok sp' -> sp' = (t, [])).
  { unfold rollback. destruct (waiting m); [|intros sp' [= <-]; reflexivity].
    intros sp'. destruct (_ && _); intros [= <-]; reflexivity. }
  destruct (rollback m t (t, [])) as [sp'|] eqn:Rb; [|discriminate].
  rewrite (R sp' eq_refl). simpl.
  unfold handle. rewrite St. simpl. unfold see_unknown, transition, in_context_or_unknown.
  rewrite St. unfold bind.
  destruct (enter_state (set_state m SUnknown)) as [m1|] eqn:E; [|discriminate].
  apply enter_state_side in E. simpl in E. destruct E as [E1 E2].
  simpl. intros [= <- <-]. simpl. rewrite E1, E2. auto.
Qed.

(** Once the machine is storing unknown tokens, every remaining token of the
    body is appended unchanged. *)
Theorem unparsed_verbatim p : forall fuel m body m',
  m_st m = SUnknown -> m_unparsed m <> [] ->
  loop p fuel m body = Some (Ok m') ->
  m_unparsed m' = m_unparsed m ++ body /\ m_st m' = SUnknown.
Proof.
  induction fuel as [|fuel IH]; intros m body m' St Un.
  - destruct body; simpl; [|discriminate]. intros [= <-]. rewrite app_nil_r. auto.
  - destruct body as [|t l]; simpl; [intros [= <-]; rewrite app_nil_r; auto|].
    destruct (step p m t) as [[m1 pushed]|] eqn:S; [|discriminate].
    destruct (step_unknown _ _ _ _ _ St Un S) as [-> [U1 S1]]. simpl.
    intros L. apply IH in L; [|exact S1 | rewrite U1; destruct (m_unparsed m); discriminate].
    destruct L as [L1 L2]. rewrite L1, U1, <- app_assoc. auto.
Qed.

(** Composition of the loop over a concatenated body. *)
Lemma loop_app p : forall fuel1 m pre m1,
  loop p fuel1 m pre = Some (Ok m1) ->
  forall f2 suf r, loop p f2 m1 suf = Some r -> loop p (fuel1 + f2) m (pre ++ suf) = Some r.
Proof.
  induction fuel1 as [|f IH]; intros m pre m1 H f2 suf r H2.
  - destruct pre; simpl in H; [|discriminate]. injection H as <-. exact H2.
  - destruct pre as [|t l]; simpl in H.
    + injection H as <-. cbn [app]. eapply loop_fuel_mono; [exact H2 | lia].
    + destruct (step p m t) as [[m' pushed]|] eqn:S; [|discriminate].
      simpl. rewrite S. rewrite app_assoc. eapply IH; eauto.
Qed.

(** If the pass has consumed [pre] entirely and then stores [t] as its first
    unknown token, [unparsed] is exactly [t :: rest]: everything from there on
    reaches the next pass intact and in order, whatever it looks like. *)
Theorem tokens_after_first_unknown_intact p fuel1 m0 pre m1 t rest m2 :
  loop p fuel1 m0 pre = Some (Ok m1) ->
  step p m1 t = Ok (m2, []) -> m_st m2 = SUnknown -> m_unparsed m2 = [t] ->
  forall fuel m', loop p fuel m0 (pre ++ t :: rest) = Some (Ok m') ->
  m_unparsed m' = t :: rest.
Proof.
  intros L1 Stp St Un fuel m' L.
  destruct (loop_fuel_sufficient p (body_fuel rest) m2 rest (le_n _)) as [r2 Hr2].
  assert (L2 : loop p (S (body_fuel rest)) m1 (t :: rest) = Some r2).
  { simpl. rewrite Stp. simpl. exact Hr2. }
  pose proof (loop_app p _ _ _ _ L1 _ _ _ L2) as LA.
  assert (r2 = Ok m').
  { pose proof (loop_fuel_mono p _ _ _ _ L (fuel + (fuel1 + S (body_fuel rest))) ltac:(lia)) as A.
    pose proof (loop_fuel_mono p _ _ _ _ LA (fuel + (fuel1 + S (body_fuel rest))) ltac:(lia)) as B.
    congruence. }
  subst r2.
  apply unparsed_verbatim in Hr2; [|exact St | rewrite Un; discriminate].
  destruct Hr2 as [U _]. rewrite U, Un. reflexivity.
Qed.

(** ** A boolean core flag seen inside a quiescent task context *)

(** [quiet m]: nothing is pending -- the current flag (if any) already has its
    value, so [check_ambiguity] and [complete_flag] are no-ops.  (Since repair
    9120dc5 [complete_flag] looks at [flag_got_value]: a stale flag that requires
    a value -- list-kind or not optional -- must have received one.) *)
Definition quiet (m : machine) : bool :=
  match flag_arg m with
  | None => true
  | Some r => r_raw r &&
              negb ((akind_eqb (a_kind (r_spec r)) KList
                     || (takes_value (r_spec r) && negb (a_optional (r_spec r))))
                    && negb (m_got m))
  end.

Lemma quiet_not_waiting m : quiet m = true -> waiting m = false.
Proof.
  unfold quiet, waiting. destruct (flag_arg m) as [r|]; [|reflexivity].
  rewrite andb_true_iff. intros [R K]. rewrite R. rewrite negb_true_iff in K.
  destruct (akind_eqb (a_kind (r_spec r)) KList), (takes_value (r_spec r)), (m_got m);
    simpl in *; try reflexivity; discriminate.
Qed.

Lemma quiet_complete_flag m : quiet m = true -> complete_flag m = Ok m.
Proof.
  unfold quiet, complete_flag. destruct (m_flag m) as [f|] eqn:F; [|reflexivity].
  unfold flag_arg. rewrite F. destruct (get_arg m f) as [r|]; [|reflexivity].
  rewrite andb_true_iff. intros [R K]. rewrite R. rewrite negb_true_iff in K.
  destruct (akind_eqb (a_kind (r_spec r)) KList), (takes_value (r_spec r)),
    (a_optional (r_spec r)), (m_got m); simpl in *; try reflexivity; discriminate.
Qed.

Lemma quiet_check_ambiguity p v m : quiet m = true -> check_ambiguity p v m = Ok m.
Proof.
  unfold quiet, check_ambiguity. destruct (flag_arg m) as [r|]; [|reflexivity].
  rewrite andb_true_iff. intros [R _]. rewrite R.
  destruct (negb (a_optional (r_spec r))); reflexivity.
Qed.

(** The partial placement lemma: in a task context with no missing positional
    and nothing pending, a token that is an exact boolean (non-help) flag of the
    initial context -- and neither a flag/inverse flag of the task nor a task
    name -- sets exactly that core argument to True and touches nothing else. *)
Theorem core_bool_flag_in_task_context p m k c ic tok i r :
  m_st m = SContext -> m_init m = true -> m_cur m = Some k -> get_ctx m k = Some c ->
  get_ctx m 0 = Some ic ->
  quiet m = true -> has_missing c = false ->
  ctx_has_flag (Some c) tok = false -> ctx_has_inverse (Some c) tok = false ->
  is_ctx_name (p_ctxs p) tok = false ->
  find_flag (rc_args ic) tok = Some i -> nth_error (rc_args ic) i = Some r ->
  a_kind (r_spec r) = KBool -> a_incrementable (r_spec r) = false ->
  String.eqb (arg_name (r_spec r)) "help" = false ->
  handle p tok m =
    Ok (put_arg (set_flag m (Some (0, i)) false) (0, i) (mkRArg (r_spec r) true (ABool true))).
Proof.
  intros St In Cu Gc Gi Q Mi Hf Hi Hn Ff Nr Kb Ninc Nh.
  assert (CC : cur_ctx m = Some c) by (unfold cur_ctx; rewrite Cu; exact Gc).
  assert (IC : init_ctx_of m = Some ic) by (unfold init_ctx_of; rewrite In; exact Gi).
  unfold handle. rewrite St. simpl. rewrite CC, Hf, Hi, (quiet_not_waiting m Q), Mi, Hn.
  rewrite IC, Ff, Nr, Nh.
  unfold switch_to_flag, bind. rewrite (quiet_check_ambiguity p tok m Q), (quiet_complete_flag m Q).
  rewrite Cu, CC. simpl in Hf. destruct (find_flag (rc_args c) tok); [discriminate|].
  rewrite IC, Ff. cbv zeta.
  assert (GA : get_arg (set_flag m (Some (0, i)) false) (0, i) = Some r).
  { unfold get_arg. cbn [fst snd].
    change (get_ctx (set_flag m (Some (0, i)) false) 0) with (get_ctx m 0). rewrite Gi. exact Nr. }
  rewrite GA. unfold takes_value. rewrite Kb.
  unfold set_arg_value. rewrite GA. unfold set_value, new_value. rewrite Ninc, Kb. simpl.
  reflexivity.
Qed.

(** ** Witnesses: placement equivalence is false of the faithful model *)

Definition task_a : ctxspec := mkCtx (Some "a") [] [].
Definition task_b : ctxspec :=
  mkCtx (Some "b") [] [mkArg ["pos"; "p"] KStr ANone true false false None].
Definition task_n : ctxspec :=
  mkCtx (Some "n") [] [mkArg ["list"; "l"] KStr ANone false true false None].

(** F-C18a (repaired by dd95c66): a glued short value of a core option inside a
    task context is recognised -- [a -T5] sets the command timeout to 5 like
    [-T5 a] does, and [a -fpath] parses. *)
Lemma glued_inside_task :
  model_spec [task_a] [["a"]] ["-T5"] 1 ["-T"] None = true /\
  (exists r, model_program [task_a] ["-T5"; "a"] = Ok r /\ kw_get "command-timeout" (g_core r) = Some (AInt 5)) /\
  (exists r, model_program [task_a] ["a"; "-T5"] = Ok r /\ kw_get "command-timeout" (g_core r) = Some (AInt 5)) /\
  (exists r, model_program [task_a] ["a"; "-fpath"] = Ok r /\ kw_get "config" (g_core r) = Some (AStr "path")).
Proof.
  split; [vm_compute; reflexivity|]. split; [|split].
  - eexists. split; vm_compute; reflexivity.
  - eexists. split; vm_compute; reflexivity.
  - eexists. split; vm_compute; reflexivity.
Qed.

(** Historical record (F-C18a, fixed): the token-splitting rule before dd95c66
    consulted the current context only.  On the machine that has just entered
    task "a", "-T5" was torn into "-T" "-5" (hence timeout -5), whereas the
    repaired rule yields "-T" with the glued value "5". *)
Definition presplit_old (m : machine) (t : string) : result (string * list string) :=
  if is_flag t && match m_unparsed m with [] => true | _ => false end then
    if contains_char "=" t then
      let '(h, _, v) := partition_char "=" t in Ok (h, [v])
    else if negb (is_long_flag t) && Nat.ltb 2 (String.length t) then
      let h := take 2 t in
      let rest := drop 2 t in
      let have :=
        match cur_ctx m with
        | None => false
        | Some c =>
            match find_flag (rc_args c) h with
            | Some i =>
                negb (pstate_eqb (m_st m) SUnknown) &&
                match nth_error (rc_args c) i with
                | Some r => takes_value (r_spec r)
                | None => false
                end
            | None => false
            end
        end in
      if have then Ok (h, [rest]) else Ok (h, dash_each rest)
    else Ok (t, [])
  else Ok (t, []).

Definition in_task_a : machine :=
  mkM [init_ctx core_ctx; init_ctx task_a] true (Some 1) [0] None false SContext [].

Lemma glued_historical_refuted :
  (exists fuel m, new_machine (mkP [task_a] (Some core_ctx) false) = Ok m /\
                  loop (mkP [task_a] (Some core_ctx) false) fuel m ["a"] = Some (Ok in_task_a)) /\
  presplit_old in_task_a "-T5" = Ok ("-T", ["-5"]) /\
  presplit in_task_a "-T5" = Ok ("-T", ["5"]) /\
  presplit_old in_task_a "-fpath" = Ok ("-f", ["-p"; "-a"; "-t"; "-h"]) /\
  presplit in_task_a "-fpath" = Ok ("-f", ["path"]).
Proof.
  split.
  - exists 5. eexists. split; vm_compute; reflexivity.
  - repeat split; vm_compute; reflexivity.
Qed.

(** F-C18b: a core flag placed before a pending positional is swallowed as
    that positional. *)
Lemma refuted_swallowed :
  exists cs groups opt j flags,
    model_spec cs groups opt j flags None = false /\
    (exists r, model_program cs ["-e"; "b"; "q"] = Ok r /\ kw_get "echo" (g_core r) = Some (ABool true)) /\
    model_program cs ["b"; "-e"; "q"] = Err EParse.
Proof.
  exists [task_b], [["b"]; ["q"]], ["-e"], 1, ["-e"].
  split; [vm_compute; reflexivity|]. split.
  - eexists. split; vm_compute; reflexivity.
  - vm_compute. reflexivity.
Qed.

(** F-C18c: a core flag right after a value-less optional-value task flag
    becomes that flag's value. *)
Lemma refuted_optional_value :
  exists cs groups opt j flags,
    model_spec cs groups opt j flags None = false /\
    (exists r, model_program cs ["n"; "-l"; "-R"] = Ok r /\
               kw_get "dry" (g_core r) = Some (ABool false) /\
               g_tasks r = [(Some "n", [("list", AStr "-R")])]).
Proof.
  exists [task_n], [["n"]; ["-l"]], ["-R"], 2, ["-R"].
  split; [vm_compute; reflexivity|].
  eexists. split; [|split]; vm_compute; reflexivity.
Qed.

(** ** Bounded sweep (a test): every core option (except --help) x spelling
    (long, short; spaced, "=", glued) x every boundary of a fixed two-call
    invocation.  The model satisfies the complete [spec_ok] except inside the
    two catalogued regions. *)
Definition sweep_cs : list ctxspec :=
  [mkCtx (Some "t") []
     [mkArg ["name"; "n"] KStr ANone false false false None;
      mkArg ["num"; "u"] KInt (AInt 1%Z) false false false None;
      mkArg ["flag"; "f"] KBool (ABool false) false false false None;
      mkArg ["lst"; "l"] KList (AList []) false false false None;
      mkArg ["opt"; "o"] KStr ANone false true false None];
   mkCtx (Some "p") ["q"]
     [mkArg ["pos"; "p"] KStr ANone true false false None;
      mkArg ["yes"; "y"] KBool (ABool true) false false false None]].

Definition sweep_groups : list (list string) :=
  [["t"]; ["--name"; "x"]; ["--opt"]; ["-f"]; ["p"]; ["v"]; ["--no-yes"]].

(** (tokens, flag, glued?) of every spelling of a core argument *)
Definition spellings_of (a : argspec) : list (list string * string * bool) :=
  flat_map (fun nm =>
    let fl := to_flag nm in
    if takes_value a then
      let v := match a_kind a with KInt => "5" | _ => "cv" end in
      [([fl; v], fl, false); ([(fl ++ "=" ++ v)%string], fl, false)]
      ++ (if starts_with "--" fl then [] else [([(fl ++ v)%string], fl, true)])
    else [([fl], fl, false)]) (a_names a).

Definition sweep_cases : list (list string * string * bool * nat) :=
  flat_map (fun a =>
    if String.eqb (arg_name a) "help" then []
    else flat_map (fun sp => map (fun j => (sp, j)) (seq 0 (S (List.length sweep_groups))))
                  (spellings_of a)) (cx_args core_ctx).

(** boundary 3 follows the value-less optional flag --opt (F-C18c); boundary 5
    is between "p" and its positional value (F-C18b).  (Glued forms inside a
    task were exempted too before repair dd95c66 -- F-C18a, fixed.) *)
Definition sweep18_ok (c : list string * string * bool * nat) : bool :=
  let '(opt, fl, glued, j) := c in
  model_spec sweep_cs sweep_groups opt j [fl] None
  || Nat.eqb j 3 || Nat.eqb j 5.

Lemma placement_sweep : forallb sweep18_ok sweep_cases = true.
Proof. vm_compute. reflexivity. Qed.

Lemma placement_sweep_size : List.length sweep_cases = 440.
Proof. vm_compute. reflexivity. Qed.

(** F-C18d: options Program acts upon between the two passes are placement
    dependent.  "--version" before the task: version printed, nothing runs;
    after the task name: both passes succeed, version=True is merely recorded,
    the task would run. *)
Lemma refuted_early_options :
  program_outline core_ctx [task_a] ["--version"; "a"] = Ok OVersionExit /\
  (exists r, program_outline core_ctx [task_a] ["a"; "--version"] = Ok (ORunTasks r) /\
             core_value (pg_core r) "version" = ABool true /\
             List.length (pg_tasks r) = 1) /\
  program_outline core_ctx [task_a] ["--print-completion-script=zsh"; "a"] = Ok OCompletionExit /\
  (exists r, program_outline core_ctx [task_a] ["a"; "--print-completion-script=zsh"] = Ok (ORunTasks r)).
Proof.
  split; [vm_compute; reflexivity|]. split.
  - eexists. split; [vm_compute; reflexivity|]. split; vm_compute; reflexivity.
  - split; [vm_compute; reflexivity|]. eexists. vm_compute. reflexivity.
Qed.
