(** C17 for trees built by a script: the hypothesis [ns_canon] of the flagship
    is an invariant of [build] on dot-free, non-empty names. *)
From InvokeVerif Require Import Model.CollModel Spec.C17Spec Corr.C17Corr.
From InvokeVerif Require Import Proofs.C17_path Proofs.C10_build.

Lemma built_meets_spec it c name :
  names_plain it = true -> build it = Ok c ->
  C17Spec.spec_ok c name (model_obs c name) = true.
Proof.
  intros Hp Hb. apply model_meets_spec. eapply build_canonical; eauto.
Qed.
